#!/bin/sh
# Build the framework from files on disk only (offline). Run once after a fresh restore.
set -e
cd "$(dirname "$0")"
export GOFLAGS=-mod=mod GOPROXY=off GOSUMDB=off GOTOOLCHAIN=local
mkdir -p .work/bin evidence replays
(cd harness && go build -o ../.work/bin/extract ./cmd/extract && ../.work/bin/extract -repo ${VERIF_REPO:-/repo} -out ../lean/Uhppote/Gen)
(cd lean && lake build oracle mdl_bcd mdl_order mdl_codec mdl_ops mdl_addr mdl_zones mdl_text mdl_insulate mdl_net)
(cd lean && for p in C01 C02 C03 C04 C05 C06 C07 C08 C09 C10 C11 C12 C13 C14 C15 C16 C17 C18; do lake build Uhppote.Props.$p Uhppote.Pins.$p; done)
(cd harness && go build -tags verif -o ../.work/bin/diff ./cmd/diff && go build -tags verif -o ../.work/bin/net ./cmd/net && go build -race -tags verif -o ../.work/bin/netrace ./cmd/net)
echo setup done
