#!/bin/sh
# Build the framework from files on disk only (offline). Run once after a fresh restore.
set -e
cd "$(dirname "$0")"
export GOFLAGS=-mod=mod GOPROXY=off GOSUMDB=off GOTOOLCHAIN=local
mkdir -p .work/bin evidence replays
(cd harness && go build -o ../.work/bin/extract ./cmd/extract && ../.work/bin/extract -repo /repo -out ../lean/Uhppote/Gen)
(cd lean && lake build Uhppote modeldrv oracle)
(cd harness && go build -tags verif -o ../.work/bin/diff ./cmd/diff)
if [ -d harness/cmd/net ]; then (cd harness && go build -tags verif -o ../.work/bin/net ./cmd/net); fi
echo setup done
