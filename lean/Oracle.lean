import Uhppote.Driver.SpecBCD
import Uhppote.Driver.Order
/-! `oracle`: evaluates the executable SPEC on the line protocol. Imports neither `Gen` nor
    `Model`, so it still builds when a regenerated file or a proof is broken. -/
open Uhppote

def handlers : List (List String → Option String) :=
  [Driver.SpecBCD.handle, Driver.Order.spec]

def handle (ts : List String) : String :=
  match handlers.findSome? (· ts) with
  | some s => s
  | none => "bad-op"

def main : IO Unit := do
  Driver.loop (← IO.getStdin) (← IO.getStdout) handle
