import Uhppote.Driver.SpecBCD
import Uhppote.Driver.Order
import Uhppote.Driver.SpecCodec
import Uhppote.Driver.SpecOps
import Uhppote.Driver.EventsSpec
import Uhppote.Driver.Addr
import Uhppote.Driver.Zones
import Uhppote.Driver.Text
import Uhppote.Driver.Insulate
import Uhppote.Driver.Net
/-! `oracle`: judges observations `case => implementation output` against the executable SPEC.
    Imports nothing regenerated (`Gen`), so it still builds when a regenerated file or a proof
    is broken. Answers `ok`, `unspecified` or `bad <what the property requires>`. -/
open Uhppote

def handlers : List (List String → List String → Option String) :=
  [Driver.SpecBCD.handle, Driver.Order.spec, Driver.SpecCodec.handle, Driver.SpecOps.handle, Driver.EventsSpec.spec, Driver.Addr.spec, Driver.Zones.spec, Driver.Text.spec, Driver.Insulate.spec, Driver.Net.spec]

def handle (ts : List String) : String :=
  let (c, impl) := Driver.splitObs ts
  match handlers.findSome? (fun h => h c impl) with
  | some s => s
  | none => "bad-op"

def main : IO Unit := do
  Driver.loop (← IO.getStdin) (← IO.getStdout) handle
