import Uhppote.Driver.ModelBCD
import Uhppote.Driver.OrderModel
import Uhppote.Driver.ModelCodec
import Uhppote.Driver.ModelOps
import Uhppote.Driver.Events
import Uhppote.Driver.ModelAddr
import Uhppote.Driver.ModelZones
import Uhppote.Driver.ModelText
import Uhppote.Driver.ModelInsulate
import Uhppote.Driver.ModelNet
/-! `modeldrv`: evaluates the executable MODEL (hand-written model + regenerated `Gen`) on the
    line protocol; core Lean only so that it links. -/
open Uhppote

def handlers : List (List String → Option String) :=
  [Driver.ModelBCD.handle, Driver.OrderModel.model, Driver.ModelCodec.handle, Driver.ModelOps.handle, Driver.Events.model, Driver.ModelAddr.handle, Driver.ModelZones.handle, Driver.ModelText.handle, Driver.ModelInsulate.handle, Driver.ModelNet.handle]

def handle (ts : List String) : String :=
  match handlers.findSome? (· ts) with
  | some s => s
  | none => "bad-op"

def main : IO Unit := do
  Driver.loop (← IO.getStdin) (← IO.getStdout) handle
