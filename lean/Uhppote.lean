import Uhppote.Basic.Bytes
import Uhppote.Basic.Hex
import Uhppote.Gen.BCD
import Uhppote.Model.BCD
import Uhppote.Spec.BCD
