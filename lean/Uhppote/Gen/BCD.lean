-- REGENERATED from encoding/bcd/bcd.go by harness/cmd/extract; do not edit
namespace Uhppote.Gen.BCD
def encTable : List (Nat × Nat) := [(48, 0), (49, 1), (50, 2), (51, 3), (52, 4), (53, 5), (54, 6), (55, 7), (56, 8), (57, 9)]
def encDefaultIsError : Bool := true
def encInitIx : String := "len(s) % 2"
def encSize : String := "(len(s) + 1) / 2"
def decHiMask : Nat := 240
def decLoMask : Nat := 15
def decHiTable : List (Nat × Nat) := [(0, 48), (16, 49), (32, 50), (48, 51), (64, 52), (80, 53), (96, 54), (112, 55), (128, 56), (144, 57)]
def decLoTable : List (Nat × Nat) := [(0, 48), (1, 49), (2, 50), (3, 51), (4, 52), (5, 53), (6, 54), (7, 55), (8, 56), (9, 57)]
def decDefaultIsError : Bool := true
end Uhppote.Gen.BCD
