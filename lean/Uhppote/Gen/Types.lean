-- REGENERATED from types/*.go by harness/cmd/extract; do not edit
namespace Uhppote.Gen.Types
def hhmmMaxMinutesText : Nat := 59
def hhmmMaxHoursText : Nat := 24
def hhmm24RuleText : Bool := true
def hhmmMaxMinutesWire : Nat := 59
def hhmmMaxHoursWire : Nat := 24
def hhmm24RuleWire : Bool := true
def hhmmMaxMinutesJSON : Nat := 59
def hhmmMaxHoursJSON : Nat := 24
def hhmm24RuleJSON : Bool := true
def controlStateStringTable : List String := ["", "normally open", "normally closed", "controlled"]
def controlStateStringGuard : String := "v < 0 || int(v) >= len(states)"
def controlStateStringIndexesByValue : Bool := true
def controlStateStringDelegatesToString : Bool := false
def controlStateMarshalJSONTable : List String := []
def controlStateMarshalJSONGuard : String := ""
def controlStateMarshalJSONIndexesByValue : Bool := false
def controlStateMarshalJSONDelegatesToString : Bool := true
/-- how each date construction site obtains its instant -/
def dateSites : List (String × String) := [("ToDate", "startOfDay"), ("ParseDate", "startOfDay"), ("DateWire", "startOfDay"), ("DateJSON", "startOfDay"), ("SystemDateWire", "startOfDay")]
/-- body of the helper `startOfDay` (whitespace-normalised) -/
def startOfDayBody : String := "{ t := time.Date(year, month, day, 0, 0, 0, 0, time.Local) noon := time.Date(year, month, day, 12, 0, 0, 0, time.Local) if t.Day() != noon.Day() { if start, _ := noon.ZoneBounds(); start.After(t) { return start } } return t }"
/-- byte patterns `DateTime.UnmarshalUT0311L0x` maps to the zero value -/
def dateTimeZeroPatterns : List String := ["[]byte{0,0,0,0,0,0,0}", "[]byte{0x00,0x01,0x01,0x01,0,0,0}", "[]byte{0x20,0,0,0,0,0,0}"]
/-- `MarshalUT0311L0x` of these types refuses a value whose digits do not fill exactly this many bytes -/
def marshalWidthGuards : List (String × Nat) := [("Date", 4), ("DateTime", 7), ("HHmm", 2)]
end Uhppote.Gen.Types
