-- placeholder: regenerated from /repo/types/*.go by harness/cmd/extract on every run
namespace Uhppote.Gen.Types
def hhmmMaxMinutesWire : Nat := 60
def hhmmMaxMinutesText : Nat := 60
def hhmmMaxMinutesJSON : Nat := 60
end Uhppote.Gen.Types
