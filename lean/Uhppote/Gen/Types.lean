-- REGENERATED from types/*.go by harness/cmd/extract; do not edit
namespace Uhppote.Gen.Types
def hhmmMaxMinutesText : Nat := 59
def hhmmMaxHoursText : Nat := 24
def hhmm24RuleText : Bool := true
def hhmmMaxMinutesWire : Nat := 59
def hhmmMaxHoursWire : Nat := 24
def hhmm24RuleWire : Bool := true
def hhmmMaxMinutesJSON : Nat := 59
def hhmmMaxHoursJSON : Nat := 24
def hhmm24RuleJSON : Bool := true
end Uhppote.Gen.Types
