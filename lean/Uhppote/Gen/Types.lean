-- REGENERATED from types/*.go by harness/cmd/extract; do not edit
namespace Uhppote.Gen.Types
def hhmmMaxMinutesText : Nat := 59
def hhmmMaxHoursText : Nat := 24
def hhmm24RuleText : Bool := true
def hhmmMaxMinutesWire : Nat := 59
def hhmmMaxHoursWire : Nat := 24
def hhmm24RuleWire : Bool := true
def hhmmMaxMinutesJSON : Nat := 59
def hhmmMaxHoursJSON : Nat := 24
def hhmm24RuleJSON : Bool := true
def controlStateStringTable : List String := ["", "normally open", "normally closed", "controlled"]
def controlStateStringGuard : String := "v < 0 || int(v) >= len(states)"
def controlStateStringIndexesByValue : Bool := true
def controlStateStringDelegatesToString : Bool := false
def controlStateMarshalJSONTable : List String := []
def controlStateMarshalJSONGuard : String := ""
def controlStateMarshalJSONIndexesByValue : Bool := false
def controlStateMarshalJSONDelegatesToString : Bool := true
end Uhppote.Gen.Types
