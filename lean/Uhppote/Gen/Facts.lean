-- REGENERATED from encoding/UTO311-L0x/UT0311-L0x.go by harness/cmd/extract; do not edit
import Uhppote.Model.Codec
namespace Uhppote.Gen
open Uhppote.Model

def offsetRegex : String := "offset:\\s*([0-9]+)"
def valueRegex : String := "value:\\s*((?:0[xX])?[0-9a-fA-F]+)"

def codecFacts : CodecFacts :=
  { bufLen := 64,
    somDefault := 23,
    lenCheck := 64,
    som := 23,
    somAlt := 25,
    somAltCode := 32,
    u16WriteSlice := 2,
    u16ReadSlice := 2,
    u32WriteSlice := 4,
    u32ReadSlice := 4,
    littleEndian := true,
    byteValueBase := 0,
    headerValueBase := 0,
    embeddedErrorReturned := true,
    macReaderCopies := true,
    ipReaderCopies := true,
    boolTrue := 1,
    boolFalse := 0 }

end Uhppote.Gen
