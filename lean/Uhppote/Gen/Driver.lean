-- REGENERATED from uhppote/UT0311.go by harness/cmd/extract; do not edit
import Uhppote.Model.Driver
namespace Uhppote.Gen.Driver
open Uhppote.Model.Driver

def BroadcastTo : MethodFacts :=
  { lockWhenFixedPort := true,
    firstDeadlineAfterLock := true,
    socketDeadlineAfterLock := true,
    unlockDeferred := true,
    closeDeferredAfterOpen := true,
    writes := 1,
    noReplyCode := 150,
    readsInLoop := true,
    reads := 1,
    sleepsForTimeout := false }

def SendUDP : MethodFacts :=
  { lockWhenFixedPort := true,
    firstDeadlineAfterLock := true,
    socketDeadlineAfterLock := true,
    unlockDeferred := true,
    closeDeferredAfterOpen := true,
    writes := 1,
    noReplyCode := 150,
    readsInLoop := false,
    reads := 1,
    sleepsForTimeout := false }

def SendTCP : MethodFacts :=
  { lockWhenFixedPort := true,
    firstDeadlineAfterLock := true,
    socketDeadlineAfterLock := true,
    unlockDeferred := true,
    closeDeferredAfterOpen := true,
    writes := 1,
    noReplyCode := 150,
    readsInLoop := false,
    reads := 1,
    sleepsForTimeout := false }

def Broadcast : MethodFacts :=
  { lockWhenFixedPort := true,
    firstDeadlineAfterLock := false,
    socketDeadlineAfterLock := false,
    unlockDeferred := true,
    closeDeferredAfterOpen := true,
    writes := 1,
    noReplyCode := 150,
    readsInLoop := true,
    reads := 1,
    sleepsForTimeout := true }

/-- locals of Broadcast written by a goroutine it starts and accessed by another one: (name, every access inside a mutex section) -/
def broadcastShared : List (String × Bool) := [("err", true), ("replies", true)]

/-- locals of Listen written by a goroutine it starts and accessed by another one: (name, every access inside a mutex section) -/
def listenShared : List (String × Bool) := [("closed", false)]

/-- codec.Dump: every function it calls, every assignment through an index, slice or pointer -/
def dumpFacts : List String := ["call:b.String", "call:fmt.Fprintf", "call:fmt.Fprintln", "call:len"]

/-- per request method: every kind of syntactic use of its request parameter -/
def requestUses : List (String × List String) := [("Broadcast", ["arg:codec.Dump", "arg:connection.WriteToUDP", "index-read"]),
  ("BroadcastTo", ["arg:codec.Dump", "arg:connection.WriteToUDP", "index-read"]),
  ("SendUDP", ["arg:codec.Dump", "arg:connection.Write", "index-read"]),
  ("SendTCP", ["arg:codec.Dump", "arg:connection.Write", "index-read"])]

/-- SendTCP: one `deadline := time.Now().Add(u.timeout)`, handed to the dialer and set on the connection -/
def tcpSingleDeadline : Bool := true

/-- per request method: what `bind` is initialised from, the condition under which it is replaced by the wildcard address, what the socket is opened on -/
def bindFacts : List (String × List String) := [("Broadcast", ["net.UDPAddrFromAddrPort(u.bindAddr)", "bind == nil", "bind"]),
  ("BroadcastTo", ["net.UDPAddrFromAddrPort(u.bindAddr)", "bind == nil", "bind"]),
  ("SendUDP", ["net.UDPAddrFromAddrPort(u.bindAddr)", "bind == nil", "bind"]),
  ("SendTCP", ["net.TCPAddrFromAddrPort(u.bindAddr)", "bind == nil", "bind"])]

/-- size of the receive buffer each method reads a datagram into (0 = not recognised) -/
def bufSizes : List (String × Nat) := [("Broadcast", 2048), ("BroadcastTo", 2048), ("SendUDP", 1024), ("SendTCP", 1024), ("Listen", 2048)]

end Uhppote.Gen.Driver
