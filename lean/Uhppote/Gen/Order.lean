-- REGENERATED from types/date.go, types/HHmm.go, types/datetime.go by harness/cmd/extract; do not edit
import Uhppote.Model.Order
/-! The comparison methods, translated statement by statement. -/
namespace Uhppote.Gen.Order
open Uhppote.Model.Order

/-- types/date.go `Date.Before` -/
def dateBefore (p q : YMD) : Bool := (if p.y < q.y then true else (if p.y = q.y then (if p.m < q.m then true else (if p.m = q.m then (if p.d < q.d then true else false) else false)) else false))

/-- types/date.go `Date.After` -/
def dateAfter (p q : YMD) : Bool := (if p.y > q.y then true else (if p.y = q.y then (if p.m > q.m then true else (if p.m = q.m then (if p.d > q.d then true else false) else false)) else false))

/-- types/date.go `Date.Equals` -/
def dateEquals (p q : YMD) : Bool := (p.y == q.y && p.m == q.m && p.d == q.d)

/-- types/HHmm.go `HHmm.Before` (the HHmm case of `before`) -/
def hhmmBefore (p q : HM) : Bool := (if p.h < q.h then true else (if p.h = q.h then (if p.m < q.m then true else false) else false))

/-- types/HHmm.go `HHmm.After` (the HHmm case of `after`) -/
def hhmmAfter (p q : HM) : Bool := (if p.h > q.h then true else (if p.h = q.h then (if p.m > q.m then true else false) else false))

/-- types/HHmm.go `HHmm.Equals` -/
def hhmmEquals (p q : HM) : Bool := (p.h == q.h && p.m == q.m)

/-- types/datetime.go `DateTime.Before` (dms, tms: the two instants in Unix milliseconds) -/
def dateTimeBefore (dms tms : Int) : Bool := decide (Int.tdiv dms 1000 < Int.tdiv tms 1000)

end Uhppote.Gen.Order
