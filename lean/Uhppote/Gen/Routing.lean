-- REGENERATED from uhppote/uhppote.go by harness/cmd/extract; do not edit
namespace Uhppote.Gen.Routing

/-- the closure `f` in sendto: (condition, transport helper called), in order; "" = else -/
def routeChain : List (String × String) := [
  ("controller, ok := u.devices[serialNumber]; !ok", "udpBroadcastTo(serialNumber, m)"),
  ("!controller.Address.IsValid() || controller.Address.Addr() == netip.IPv4Unspecified()", "udpBroadcastTo(serialNumber, m)"),
  ("controller.Protocol == \"tcp\"", "tcpSendTo(controller.Address.AddrPort, m)"),
  ("", "udpSendTo(controller.Address.AddrPort, m)")]

/-- conditions of the if statements of sendto, in source order -/
def sendtoChecks : List String := [
  "serialNumber == 0",
  "err != nil",
  "response, err := f(); err != nil",
  "response == nil",
  "len(response) != 64",
  "ID := binary.LittleEndian.Uint32(response[4:8]); serialNumber != 0 && ID != serialNumber",
  "v, err := codec.UnmarshalAs(response, reply); err != nil"]

/-- IP and port `resolve` uses when no broadcast address is configured -/
def defaultBroadcastIP : String := "255.255.255.255"
def defaultBroadcastPort : Nat := 60000

end Uhppote.Gen.Routing
