-- REGENERATED from uhppote/get_device.go by harness/cmd/extract; do not edit
import Uhppote.Model.Events
/-! How GetDevices turns one decoded get-device reply into one entry of its result (r: the values of the reply in
    declaration order), translated statement by statement. -/
namespace Uhppote.Gen.Discover
open Uhppote Uhppote.Model Uhppote.Model.Api Uhppote.Model.Events

/-- the port every reported address is completed with -/
def port (cfg : Cfg) : Nat := if cfg.broadcastValid then cfg.broadcastPort else 60000

/-- one entry: the reply's fields, the configured name of that controller, its address -/
def entry (cfg : Cfg) (r : List Val) : Entry := ⟨[r.getD 1 .none_, r.getD 2 .none_, r.getD 3 .none_, r.getD 4 .none_, r.getD 5 .none_, r.getD 6 .none_, r.getD 7 .none_], nameOf cfg (r.getD 1 .none_), addrOf (r.getD 2 .none_) (port cfg)⟩

end Uhppote.Gen.Discover
