-- REGENERATED from uhppote/get_status.go and uhppote/listen.go by harness/cmd/extract; do not edit
import Uhppote.Model.Api
/-! How a status is put together from a get-status reply and from an event (r: the values of the message in
    declaration order), translated from the two sites that do it. -/
namespace Uhppote.Gen.Status
open Uhppote Uhppote.Model Uhppote.Model.Api

/-- uhppote/get_status.go: the result of GetStatus -/
def getStatus (r : List Val) : Res := .vals ([r.getD 1 .none_, r.getD 10 .none_, r.getD 11 .none_, r.getD 12 .none_, r.getD 13 .none_, r.getD 14 .none_, r.getD 15 .none_, r.getD 16 .none_, r.getD 17 .none_, r.getD 18 .none_, sysDateTime (r.getD 19 .none_) (r.getD 20 .none_), r.getD 21 .none_, r.getD 22 .none_, r.getD 23 .none_, r.getD 24 .none_] ++ (if (r.getD 2 .none_ != .u32 0) then [r.getD 2 .none_, r.getD 3 .none_, r.getD 4 .none_, r.getD 5 .none_, r.getD 6 .none_, r.getD 7 .none_, r.getD 8 .none_, r.getD 9 .none_] else statusNoEvent))

/-- uhppote/listen.go: the status handed to OnEvent for a decoded event -/
def listenStatus (r : List Val) : Res := .vals ([r.getD 1 .none_, r.getD 10 .none_, r.getD 11 .none_, r.getD 12 .none_, r.getD 13 .none_, r.getD 14 .none_, r.getD 15 .none_, r.getD 16 .none_, r.getD 17 .none_, r.getD 18 .none_, sysDateTime (r.getD 19 .none_) (r.getD 20 .none_), r.getD 21 .none_, r.getD 22 .none_, r.getD 23 .none_, r.getD 24 .none_] ++ (if (r.getD 2 .none_ != .u32 0) then [r.getD 2 .none_, r.getD 3 .none_, r.getD 4 .none_, r.getD 5 .none_, r.getD 6 .none_, r.getD 7 .none_, r.getD 8 .none_, r.getD 9 .none_] else statusNoEvent))

end Uhppote.Gen.Status
