-- REGENERATED from uhppote/*.go and types/*.go by harness/cmd/extract; do not edit
namespace Uhppote.Gen.Alias

/-- l-values rooted at a parameter that some function of package uhppote writes to -/
def writesThroughParameters : List String := []

def constructorMap : String := "map[uint32]Device{}"
def constructorStores : String := "device.Clone()"
def deviceListMap : String := "map[uint32]Device{}"
def deviceListStores : String := "v"

/-- fields of the configured controller the routing closure reads -/
def routingReads : List String := ["Address", "Protocol"]
/-- fields of uhppote.Device with their Go types -/
def deviceFields : List (String × String) := [("Name", "string"), ("DeviceID", "uint32"), ("Address", "types.ControllerAddr"), ("Doors", "[]string"), ("TimeZone", "*time.Location"), ("Protocol", "string")]
def deviceCloneDoors : String := "make([]string, len(d.Doors))"
def deviceCloneCopiesDoors : Bool := true
def cardCloneDoors : String := "new map[uint8]uint8 literal with 4 entries"
def macAddressDecoderCopies : Bool := true

end Uhppote.Gen.Alias
