-- REGENERATED from messages/*.go by harness/cmd/extract; do not edit
import Uhppote.Model.Codec
namespace Uhppote.Gen.Messages
open Uhppote.Model

def ActivateAccessKeypadsRequest : Layout := [
  .leaf "MsgType" (.msgType (some "0xA4")),
  .leaf "SerialNumber" (.at 4 .serial none),
  .leaf "Reader1" (.at 8 .bool none),
  .leaf "Reader2" (.at 9 .bool none),
  .leaf "Reader3" (.at 10 .bool none),
  .leaf "Reader4" (.at 11 .bool none)]

def ActivateAccessKeypadsResponse : Layout := [
  .leaf "MsgType" (.msgType (some "0xA4")),
  .leaf "SerialNumber" (.at 4 .serial none),
  .leaf "Succeeded" (.at 8 .bool none)]

def AddTaskRequest : Layout := [
  .leaf "MsgType" (.msgType (some "0xa8")),
  .leaf "SerialNumber" (.at 4 .serial none),
  .leaf "From" (.at 8 .date none),
  .leaf "To" (.at 12 .date none),
  .leaf "Monday" (.at 16 .bool none),
  .leaf "Tuesday" (.at 17 .bool none),
  .leaf "Wednesday" (.at 18 .bool none),
  .leaf "Thursday" (.at 19 .bool none),
  .leaf "Friday" (.at 20 .bool none),
  .leaf "Saturday" (.at 21 .bool none),
  .leaf "Sunday" (.at 22 .bool none),
  .leaf "Start" (.at 23 .hhmm none),
  .leaf "Door" (.at 25 .u8 none),
  .leaf "Task" (.at 26 .u8 none),
  .leaf "MoreCards" (.at 27 .u8 none)]

def AddTaskResponse : Layout := [
  .leaf "MsgType" (.msgType (some "0xa8")),
  .leaf "SerialNumber" (.at 4 .serial none),
  .leaf "Succeeded" (.at 8 .bool none)]

def ClearTaskListRequest : Layout := [
  .leaf "MsgType" (.msgType (some "0xa6")),
  .leaf "SerialNumber" (.at 4 .serial none),
  .leaf "MagicWord" (.at 8 .u32 none)]

def ClearTaskListResponse : Layout := [
  .leaf "MsgType" (.msgType (some "0xa6")),
  .leaf "SerialNumber" (.at 4 .serial none),
  .leaf "Succeeded" (.at 8 .bool none)]

def ClearTimeProfilesRequest : Layout := [
  .leaf "MsgType" (.msgType (some "0x8a")),
  .leaf "SerialNumber" (.at 4 .serial none),
  .leaf "MagicWord" (.at 8 .u32 none)]

def ClearTimeProfilesResponse : Layout := [
  .leaf "MsgType" (.msgType (some "0x8a")),
  .leaf "SerialNumber" (.at 4 .serial none),
  .leaf "Succeeded" (.at 8 .bool none)]

def DeleteCardRequest : Layout := [
  .leaf "MsgType" (.msgType (some "0x52")),
  .leaf "SerialNumber" (.at 4 .serial none),
  .leaf "CardNumber" (.at 8 .u32 none)]

def DeleteCardResponse : Layout := [
  .leaf "MsgType" (.msgType (some "0x52")),
  .leaf "SerialNumber" (.at 4 .serial none),
  .leaf "Succeeded" (.at 8 .bool none)]

def DeleteCardsRequest : Layout := [
  .leaf "MsgType" (.msgType (some "0x54")),
  .leaf "SerialNumber" (.at 4 .serial none),
  .leaf "MagicWord" (.at 8 .u32 none)]

def DeleteCardsResponse : Layout := [
  .leaf "MsgType" (.msgType (some "0x54")),
  .leaf "SerialNumber" (.at 4 .serial none),
  .leaf "Succeeded" (.at 8 .bool none)]

def Event : Layout := [
  .leaf "MsgType" (.msgType (some "0x20")),
  .leaf "SerialNumber" (.at 4 .serial none),
  .leaf "EventIndex" (.at 8 .u32 none),
  .leaf "EventType" (.at 12 .u8 none),
  .leaf "Granted" (.at 13 .bool none),
  .leaf "Door" (.at 14 .u8 none),
  .leaf "Direction" (.at 15 .u8 none),
  .leaf "CardNumber" (.at 16 .u32 none),
  .leaf "Timestamp" (.at 20 .dateTime none),
  .leaf "Reason" (.at 27 .u8 none),
  .leaf "Door1State" (.at 28 .bool none),
  .leaf "Door2State" (.at 29 .bool none),
  .leaf "Door3State" (.at 30 .bool none),
  .leaf "Door4State" (.at 31 .bool none),
  .leaf "Door1Button" (.at 32 .bool none),
  .leaf "Door2Button" (.at 33 .bool none),
  .leaf "Door3Button" (.at 34 .bool none),
  .leaf "Door4Button" (.at 35 .bool none),
  .leaf "SystemError" (.at 36 .u8 none),
  .leaf "SystemDate" (.at 51 .sysDate none),
  .leaf "SystemTime" (.at 37 .sysTime none),
  .leaf "SequenceId" (.at 40 .u32 none),
  .leaf "SpecialInfo" (.at 48 .u8 none),
  .leaf "RelayState" (.at 49 .u8 none),
  .leaf "InputState" (.at 50 .u8 none)]

def EventV6_62 : Layout := [
  .leaf "SOM" (.som (some "0x19")),
  .embed "Event" [
      ("MsgType", .msgType (some "0x20")),
      ("SerialNumber", .at 4 .serial none),
      ("EventIndex", .at 8 .u32 none),
      ("EventType", .at 12 .u8 none),
      ("Granted", .at 13 .bool none),
      ("Door", .at 14 .u8 none),
      ("Direction", .at 15 .u8 none),
      ("CardNumber", .at 16 .u32 none),
      ("Timestamp", .at 20 .dateTime none),
      ("Reason", .at 27 .u8 none),
      ("Door1State", .at 28 .bool none),
      ("Door2State", .at 29 .bool none),
      ("Door3State", .at 30 .bool none),
      ("Door4State", .at 31 .bool none),
      ("Door1Button", .at 32 .bool none),
      ("Door2Button", .at 33 .bool none),
      ("Door3Button", .at 34 .bool none),
      ("Door4Button", .at 35 .bool none),
      ("SystemError", .at 36 .u8 none),
      ("SystemDate", .at 51 .sysDate none),
      ("SystemTime", .at 37 .sysTime none),
      ("SequenceId", .at 40 .u32 none),
      ("SpecialInfo", .at 48 .u8 none),
      ("RelayState", .at 49 .u8 none),
      ("InputState", .at 50 .u8 none)]]

def GetCardByIDRequest : Layout := [
  .leaf "MsgType" (.msgType (some "0x5a")),
  .leaf "SerialNumber" (.at 4 .serial none),
  .leaf "CardNumber" (.at 8 .u32 none)]

def GetCardByIDResponse : Layout := [
  .leaf "MsgType" (.msgType (some "0x5a")),
  .leaf "SerialNumber" (.at 4 .serial none),
  .leaf "CardNumber" (.at 8 .u32 none),
  .leaf "From" (.at 12 .date none),
  .leaf "To" (.at 16 .date none),
  .leaf "Door1" (.at 20 .u8 none),
  .leaf "Door2" (.at 21 .u8 none),
  .leaf "Door3" (.at 22 .u8 none),
  .leaf "Door4" (.at 23 .u8 none),
  .leaf "PIN" (.at 24 .pin none)]

def GetCardByIndexRequest : Layout := [
  .leaf "MsgType" (.msgType (some "0x5c")),
  .leaf "SerialNumber" (.at 4 .serial none),
  .leaf "Index" (.at 8 .u32 none)]

def GetCardByIndexResponse : Layout := [
  .leaf "MsgType" (.msgType (some "0x5c")),
  .leaf "SerialNumber" (.at 4 .serial none),
  .leaf "CardNumber" (.at 8 .u32 none),
  .leaf "From" (.at 12 .date none),
  .leaf "To" (.at 16 .date none),
  .leaf "Door1" (.at 20 .u8 none),
  .leaf "Door2" (.at 21 .u8 none),
  .leaf "Door3" (.at 22 .u8 none),
  .leaf "Door4" (.at 23 .u8 none),
  .leaf "PIN" (.at 24 .pin none)]

def GetCardsRequest : Layout := [
  .leaf "MsgType" (.msgType (some "0x58")),
  .leaf "SerialNumber" (.at 4 .serial none)]

def GetCardsResponse : Layout := [
  .leaf "MsgType" (.msgType (some "0x58")),
  .leaf "SerialNumber" (.at 4 .serial none),
  .leaf "Records" (.at 8 .u32 none)]

def GetDeviceRequest : Layout := [
  .leaf "MsgType" (.msgType (some "0x94")),
  .leaf "SerialNumber" (.at 4 .serial none)]

def GetDeviceResponse : Layout := [
  .leaf "MsgType" (.msgType (some "0x94")),
  .leaf "SerialNumber" (.at 4 .serial none),
  .leaf "IpAddress" (.at 8 .ipv4 none),
  .leaf "SubnetMask" (.at 12 .ipv4 none),
  .leaf "Gateway" (.at 16 .ipv4 none),
  .leaf "MacAddress" (.at 20 .macAddress none),
  .leaf "Version" (.at 26 .version none),
  .leaf "Date" (.at 28 .date none)]

def GetDoorControlStateRequest : Layout := [
  .leaf "MsgType" (.msgType (some "0x82")),
  .leaf "SerialNumber" (.at 4 .serial none),
  .leaf "Door" (.at 8 .u8 none)]

def GetDoorControlStateResponse : Layout := [
  .leaf "MsgType" (.msgType (some "0x82")),
  .leaf "SerialNumber" (.at 4 .serial none),
  .leaf "Door" (.at 8 .u8 none),
  .leaf "ControlState" (.at 9 .u8 none),
  .leaf "Delay" (.at 10 .u8 none)]

def GetEventIndexRequest : Layout := [
  .leaf "MsgType" (.msgType (some "0xb4")),
  .leaf "SerialNumber" (.at 4 .serial none)]

def GetEventIndexResponse : Layout := [
  .leaf "MsgType" (.msgType (some "0xb4")),
  .leaf "SerialNumber" (.at 4 .serial none),
  .leaf "Index" (.at 8 .u32 none)]

def GetEventRequest : Layout := [
  .leaf "MsgType" (.msgType (some "0xb0")),
  .leaf "SerialNumber" (.at 4 .serial none),
  .leaf "Index" (.at 8 .u32 none)]

def GetEventResponse : Layout := [
  .leaf "MsgType" (.msgType (some "0xb0")),
  .leaf "SerialNumber" (.at 4 .serial none),
  .leaf "Index" (.at 8 .u32 none),
  .leaf "Type" (.at 12 .u8 none),
  .leaf "Granted" (.at 13 .bool none),
  .leaf "Door" (.at 14 .u8 none),
  .leaf "Direction" (.at 15 .u8 none),
  .leaf "CardNumber" (.at 16 .u32 none),
  .leaf "Timestamp" (.at 20 .dateTime none),
  .leaf "Reason" (.at 27 .u8 none)]

def GetListenerRequest : Layout := [
  .leaf "MsgType" (.msgType (some "0x92")),
  .leaf "SerialNumber" (.at 4 .serial none)]

def GetListenerResponse : Layout := [
  .leaf "MsgType" (.msgType (some "0x92")),
  .leaf "SerialNumber" (.at 4 .serial none),
  .leaf "AddrPort" (.at 8 .addrPort none),
  .leaf "Interval" (.at 14 .u8 none)]

def GetStatusRequest : Layout := [
  .leaf "MsgType" (.msgType (some "0x20")),
  .leaf "SerialNumber" (.at 4 .serial none)]

def GetStatusResponse : Layout := [
  .leaf "MsgType" (.msgType (some "0x20")),
  .leaf "SerialNumber" (.at 4 .serial none),
  .leaf "EventIndex" (.at 8 .u32 none),
  .leaf "EventType" (.at 12 .u8 none),
  .leaf "Granted" (.at 13 .bool none),
  .leaf "Door" (.at 14 .u8 none),
  .leaf "Direction" (.at 15 .u8 none),
  .leaf "CardNumber" (.at 16 .u32 none),
  .leaf "Timestamp" (.at 20 .dateTime none),
  .leaf "Reason" (.at 27 .u8 none),
  .leaf "Door1State" (.at 28 .bool none),
  .leaf "Door2State" (.at 29 .bool none),
  .leaf "Door3State" (.at 30 .bool none),
  .leaf "Door4State" (.at 31 .bool none),
  .leaf "Door1Button" (.at 32 .bool none),
  .leaf "Door2Button" (.at 33 .bool none),
  .leaf "Door3Button" (.at 34 .bool none),
  .leaf "Door4Button" (.at 35 .bool none),
  .leaf "SystemError" (.at 36 .u8 none),
  .leaf "SystemDate" (.at 51 .sysDate none),
  .leaf "SystemTime" (.at 37 .sysTime none),
  .leaf "SequenceId" (.at 40 .u32 none),
  .leaf "SpecialInfo" (.at 48 .u8 none),
  .leaf "RelayState" (.at 49 .u8 none),
  .leaf "InputState" (.at 50 .u8 none)]

def GetTimeProfileRequest : Layout := [
  .leaf "MsgType" (.msgType (some "0x98")),
  .leaf "SerialNumber" (.at 4 .serial none),
  .leaf "ProfileID" (.at 8 .u8 none)]

def GetTimeProfileResponse : Layout := [
  .leaf "MsgType" (.msgType (some "0x98")),
  .leaf "SerialNumber" (.at 4 .serial none),
  .leaf "ProfileID" (.at 8 .u8 none),
  .leaf "From" (.at 9 .date none),
  .leaf "To" (.at 13 .date none),
  .leaf "Monday" (.at 17 .bool none),
  .leaf "Tuesday" (.at 18 .bool none),
  .leaf "Wednesday" (.at 19 .bool none),
  .leaf "Thursday" (.at 20 .bool none),
  .leaf "Friday" (.at 21 .bool none),
  .leaf "Saturday" (.at 22 .bool none),
  .leaf "Sunday" (.at 23 .bool none),
  .leaf "Segment1Start" (.at 24 .hhmmPtr none),
  .leaf "Segment1End" (.at 26 .hhmmPtr none),
  .leaf "Segment2Start" (.at 28 .hhmmPtr none),
  .leaf "Segment2End" (.at 30 .hhmmPtr none),
  .leaf "Segment3Start" (.at 32 .hhmmPtr none),
  .leaf "Segment3End" (.at 34 .hhmmPtr none),
  .leaf "LinkedProfileID" (.at 36 .u8 none)]

def GetTimeRequest : Layout := [
  .leaf "MsgType" (.msgType (some "0x32")),
  .leaf "SerialNumber" (.at 4 .serial none)]

def GetTimeResponse : Layout := [
  .leaf "MsgType" (.msgType (some "0x32")),
  .leaf "SerialNumber" (.at 4 .serial none),
  .leaf "DateTime" (.at 8 .dateTime none)]

def OpenDoorRequest : Layout := [
  .leaf "MsgType" (.msgType (some "0x40")),
  .leaf "SerialNumber" (.at 4 .serial none),
  .leaf "Door" (.at 8 .u8 none)]

def OpenDoorResponse : Layout := [
  .leaf "MsgType" (.msgType (some "0x40")),
  .leaf "SerialNumber" (.at 4 .serial none),
  .leaf "Succeeded" (.at 8 .bool none)]

def PutCardRequest : Layout := [
  .leaf "MsgType" (.msgType (some "0x50")),
  .leaf "SerialNumber" (.at 4 .serial none),
  .leaf "CardNumber" (.at 8 .u32 none),
  .leaf "From" (.at 12 .date none),
  .leaf "To" (.at 16 .date none),
  .leaf "Door1" (.at 20 .u8 none),
  .leaf "Door2" (.at 21 .u8 none),
  .leaf "Door3" (.at 22 .u8 none),
  .leaf "Door4" (.at 23 .u8 none),
  .leaf "PIN" (.at 24 .pin none)]

def PutCardResponse : Layout := [
  .leaf "MsgType" (.msgType (some "0x50")),
  .leaf "SerialNumber" (.at 4 .serial none),
  .leaf "Succeeded" (.at 8 .bool none)]

def RecordSpecialEventsRequest : Layout := [
  .leaf "MsgType" (.msgType (some "0x8e")),
  .leaf "SerialNumber" (.at 4 .serial none),
  .leaf "Enable" (.at 8 .bool none)]

def RecordSpecialEventsResponse : Layout := [
  .leaf "MsgType" (.msgType (some "0x8e")),
  .leaf "SerialNumber" (.at 4 .serial none),
  .leaf "Succeeded" (.at 8 .bool none)]

def RefreshTaskListRequest : Layout := [
  .leaf "MsgType" (.msgType (some "0xac")),
  .leaf "SerialNumber" (.at 4 .serial none),
  .leaf "MagicWord" (.at 8 .u32 none)]

def RefreshTaskListResponse : Layout := [
  .leaf "MsgType" (.msgType (some "0xac")),
  .leaf "SerialNumber" (.at 4 .serial none),
  .leaf "Refreshed" (.at 8 .bool none)]

def RestoreDefaultParametersRequest : Layout := [
  .leaf "MsgType" (.msgType (some "0xc8")),
  .leaf "SerialNumber" (.at 4 .serial none),
  .leaf "MagicWord" (.at 8 .u32 none)]

def RestoreDefaultParametersResponse : Layout := [
  .leaf "MsgType" (.msgType (some "0xc8")),
  .leaf "SerialNumber" (.at 4 .serial none),
  .leaf "Succeeded" (.at 8 .bool none)]

def SetAddressRequest : Layout := [
  .leaf "MsgType" (.msgType (some "0x96")),
  .leaf "SerialNumber" (.at 4 .serial none),
  .leaf "Address" (.at 8 .ipv4 none),
  .leaf "Mask" (.at 12 .ipv4 none),
  .leaf "Gateway" (.at 16 .ipv4 none),
  .leaf "MagicWord" (.at 20 .u32 none)]

def SetDoorControlStateRequest : Layout := [
  .leaf "MsgType" (.msgType (some "0x80")),
  .leaf "SerialNumber" (.at 4 .serial none),
  .leaf "Door" (.at 8 .u8 none),
  .leaf "ControlState" (.at 9 .u8 none),
  .leaf "Delay" (.at 10 .u8 none)]

def SetDoorControlStateResponse : Layout := [
  .leaf "MsgType" (.msgType (some "0x80")),
  .leaf "SerialNumber" (.at 4 .serial none),
  .leaf "Door" (.at 8 .u8 none),
  .leaf "ControlState" (.at 9 .u8 none),
  .leaf "Delay" (.at 10 .u8 none)]

def SetDoorPasscodesRequest : Layout := [
  .leaf "MsgType" (.msgType (some "0x8c")),
  .leaf "SerialNumber" (.at 4 .serial none),
  .leaf "Door" (.at 8 .u8 none),
  .leaf "Passcode1" (.at 12 .u32 none),
  .leaf "Passcode2" (.at 16 .u32 none),
  .leaf "Passcode3" (.at 20 .u32 none),
  .leaf "Passcode4" (.at 24 .u32 none)]

def SetDoorPasscodesResponse : Layout := [
  .leaf "MsgType" (.msgType (some "0x8c")),
  .leaf "SerialNumber" (.at 4 .serial none),
  .leaf "Succeeded" (.at 8 .bool none)]

def SetEventIndexRequest : Layout := [
  .leaf "MsgType" (.msgType (some "0xb2")),
  .leaf "SerialNumber" (.at 4 .serial none),
  .leaf "Index" (.at 8 .u32 none),
  .leaf "MagicWord" (.at 12 .u32 none)]

def SetEventIndexResponse : Layout := [
  .leaf "MsgType" (.msgType (some "0xb2")),
  .leaf "SerialNumber" (.at 4 .serial none),
  .leaf "Changed" (.at 8 .bool none)]

def SetFirstCardRequest : Layout := [
  .leaf "MsgType" (.msgType (some "0xaa")),
  .leaf "SerialNumber" (.at 4 .serial none),
  .leaf "Door" (.at 8 .u8 none),
  .leaf "Start" (.at 9 .hhmm none),
  .leaf "StartDoorControl" (.at 11 .u8 none),
  .leaf "End" (.at 12 .hhmm none),
  .leaf "EndDoorControl" (.at 14 .u8 none),
  .leaf "Monday" (.at 15 .bool none),
  .leaf "Tuesday" (.at 16 .bool none),
  .leaf "Wednesday" (.at 17 .bool none),
  .leaf "Thursday" (.at 18 .bool none),
  .leaf "Friday" (.at 19 .bool none),
  .leaf "Saturday" (.at 20 .bool none),
  .leaf "Sunday" (.at 21 .bool none)]

def SetFirstCardResponse : Layout := [
  .leaf "MsgType" (.msgType (some "0xaa")),
  .leaf "SerialNumber" (.at 4 .serial none),
  .leaf "Succeeded" (.at 8 .bool none)]

def SetInterlockRequest : Layout := [
  .leaf "MsgType" (.msgType (some "0xa2")),
  .leaf "SerialNumber" (.at 4 .serial none),
  .leaf "Interlock" (.at 8 .u8 none)]

def SetInterlockResponse : Layout := [
  .leaf "MsgType" (.msgType (some "0xa2")),
  .leaf "SerialNumber" (.at 4 .serial none),
  .leaf "Succeeded" (.at 8 .bool none)]

def SetListenerRequest : Layout := [
  .leaf "MsgType" (.msgType (some "0x90")),
  .leaf "SerialNumber" (.at 4 .serial none),
  .leaf "AddrPort" (.at 8 .addrPort none),
  .leaf "Interval" (.at 14 .u8 none)]

def SetListenerResponse : Layout := [
  .leaf "MsgType" (.msgType (some "0x90")),
  .leaf "SerialNumber" (.at 4 .serial none),
  .leaf "Succeeded" (.at 8 .bool none)]

def SetPCControlRequest : Layout := [
  .leaf "MsgType" (.msgType (some "0xA0")),
  .leaf "SerialNumber" (.at 4 .serial none),
  .leaf "MagicWord" (.at 8 .u32 none),
  .leaf "Enable" (.at 12 .bool none)]

def SetPCControlResponse : Layout := [
  .leaf "MsgType" (.msgType (some "0xA0")),
  .leaf "SerialNumber" (.at 4 .serial none),
  .leaf "Succeeded" (.at 8 .bool none)]

def SetTimeProfileRequest : Layout := [
  .leaf "MsgType" (.msgType (some "0x88")),
  .leaf "SerialNumber" (.at 4 .serial none),
  .leaf "ProfileID" (.at 8 .u8 none),
  .leaf "From" (.at 9 .date none),
  .leaf "To" (.at 13 .date none),
  .leaf "Monday" (.at 17 .bool none),
  .leaf "Tuesday" (.at 18 .bool none),
  .leaf "Wednesday" (.at 19 .bool none),
  .leaf "Thursday" (.at 20 .bool none),
  .leaf "Friday" (.at 21 .bool none),
  .leaf "Saturday" (.at 22 .bool none),
  .leaf "Sunday" (.at 23 .bool none),
  .leaf "Segment1Start" (.at 24 .hhmm none),
  .leaf "Segment1End" (.at 26 .hhmm none),
  .leaf "Segment2Start" (.at 28 .hhmm none),
  .leaf "Segment2End" (.at 30 .hhmm none),
  .leaf "Segment3Start" (.at 32 .hhmm none),
  .leaf "Segment3End" (.at 34 .hhmm none),
  .leaf "LinkedProfileID" (.at 36 .u8 none)]

def SetTimeProfileResponse : Layout := [
  .leaf "MsgType" (.msgType (some "0x88")),
  .leaf "SerialNumber" (.at 4 .serial none),
  .leaf "Succeeded" (.at 8 .bool none)]

def SetTimeRequest : Layout := [
  .leaf "MsgType" (.msgType (some "0x30")),
  .leaf "SerialNumber" (.at 4 .serial none),
  .leaf "DateTime" (.at 8 .dateTime none)]

def SetTimeResponse : Layout := [
  .leaf "MsgType" (.msgType (some "0x30")),
  .leaf "SerialNumber" (.at 4 .serial none),
  .leaf "DateTime" (.at 8 .dateTime none)]

def all : List (String × Layout) := [
  ("ActivateAccessKeypadsRequest", ActivateAccessKeypadsRequest),
  ("ActivateAccessKeypadsResponse", ActivateAccessKeypadsResponse),
  ("AddTaskRequest", AddTaskRequest),
  ("AddTaskResponse", AddTaskResponse),
  ("ClearTaskListRequest", ClearTaskListRequest),
  ("ClearTaskListResponse", ClearTaskListResponse),
  ("ClearTimeProfilesRequest", ClearTimeProfilesRequest),
  ("ClearTimeProfilesResponse", ClearTimeProfilesResponse),
  ("DeleteCardRequest", DeleteCardRequest),
  ("DeleteCardResponse", DeleteCardResponse),
  ("DeleteCardsRequest", DeleteCardsRequest),
  ("DeleteCardsResponse", DeleteCardsResponse),
  ("Event", Event),
  ("EventV6_62", EventV6_62),
  ("GetCardByIDRequest", GetCardByIDRequest),
  ("GetCardByIDResponse", GetCardByIDResponse),
  ("GetCardByIndexRequest", GetCardByIndexRequest),
  ("GetCardByIndexResponse", GetCardByIndexResponse),
  ("GetCardsRequest", GetCardsRequest),
  ("GetCardsResponse", GetCardsResponse),
  ("GetDeviceRequest", GetDeviceRequest),
  ("GetDeviceResponse", GetDeviceResponse),
  ("GetDoorControlStateRequest", GetDoorControlStateRequest),
  ("GetDoorControlStateResponse", GetDoorControlStateResponse),
  ("GetEventIndexRequest", GetEventIndexRequest),
  ("GetEventIndexResponse", GetEventIndexResponse),
  ("GetEventRequest", GetEventRequest),
  ("GetEventResponse", GetEventResponse),
  ("GetListenerRequest", GetListenerRequest),
  ("GetListenerResponse", GetListenerResponse),
  ("GetStatusRequest", GetStatusRequest),
  ("GetStatusResponse", GetStatusResponse),
  ("GetTimeProfileRequest", GetTimeProfileRequest),
  ("GetTimeProfileResponse", GetTimeProfileResponse),
  ("GetTimeRequest", GetTimeRequest),
  ("GetTimeResponse", GetTimeResponse),
  ("OpenDoorRequest", OpenDoorRequest),
  ("OpenDoorResponse", OpenDoorResponse),
  ("PutCardRequest", PutCardRequest),
  ("PutCardResponse", PutCardResponse),
  ("RecordSpecialEventsRequest", RecordSpecialEventsRequest),
  ("RecordSpecialEventsResponse", RecordSpecialEventsResponse),
  ("RefreshTaskListRequest", RefreshTaskListRequest),
  ("RefreshTaskListResponse", RefreshTaskListResponse),
  ("RestoreDefaultParametersRequest", RestoreDefaultParametersRequest),
  ("RestoreDefaultParametersResponse", RestoreDefaultParametersResponse),
  ("SetAddressRequest", SetAddressRequest),
  ("SetDoorControlStateRequest", SetDoorControlStateRequest),
  ("SetDoorControlStateResponse", SetDoorControlStateResponse),
  ("SetDoorPasscodesRequest", SetDoorPasscodesRequest),
  ("SetDoorPasscodesResponse", SetDoorPasscodesResponse),
  ("SetEventIndexRequest", SetEventIndexRequest),
  ("SetEventIndexResponse", SetEventIndexResponse),
  ("SetFirstCardRequest", SetFirstCardRequest),
  ("SetFirstCardResponse", SetFirstCardResponse),
  ("SetInterlockRequest", SetInterlockRequest),
  ("SetInterlockResponse", SetInterlockResponse),
  ("SetListenerRequest", SetListenerRequest),
  ("SetListenerResponse", SetListenerResponse),
  ("SetPCControlRequest", SetPCControlRequest),
  ("SetPCControlResponse", SetPCControlResponse),
  ("SetTimeProfileRequest", SetTimeProfileRequest),
  ("SetTimeProfileResponse", SetTimeProfileResponse),
  ("SetTimeRequest", SetTimeRequest),
  ("SetTimeResponse", SetTimeResponse)]

/-- messages/requests.go: function code ↦ request type -/
def requests : List (Nat × String) := [(0x20, "GetStatusRequest"), (0x30, "SetTimeRequest"), (0x32, "GetTimeRequest"), (0x40, "OpenDoorRequest"), (0x50, "PutCardRequest"), (0x52, "DeleteCardRequest"), (0x54, "DeleteCardsRequest"), (0x58, "GetCardsRequest"), (0x5a, "GetCardByIDRequest"), (0x5c, "GetCardByIndexRequest"), (0x80, "SetDoorControlStateRequest"), (0x82, "GetDoorControlStateRequest"), (0x88, "SetTimeProfileRequest"), (0x8a, "ClearTimeProfilesRequest"), (0x8c, "SetDoorPasscodesRequest"), (0x8e, "RecordSpecialEventsRequest"), (0x90, "SetListenerRequest"), (0x92, "GetListenerRequest"), (0x94, "GetDeviceRequest"), (0x96, "SetAddressRequest"), (0x98, "GetTimeProfileRequest"), (0xa0, "SetPCControlRequest"), (0xa2, "SetInterlockRequest"), (0xa4, "ActivateAccessKeypadsRequest"), (0xa6, "ClearTaskListRequest"), (0xa8, "AddTaskRequest"), (0xaa, "SetFirstCardRequest"), (0xac, "RefreshTaskListRequest"), (0xb0, "GetEventRequest"), (0xb2, "SetEventIndexRequest"), (0xb4, "GetEventIndexRequest"), (0xc8, "RestoreDefaultParametersRequest")]

/-- messages/responses.go: function code ↦ response type -/
def responses : List (Nat × String) := [(0x20, "GetStatusResponse"), (0x30, "SetTimeResponse"), (0x32, "GetTimeResponse"), (0x40, "OpenDoorResponse"), (0x50, "PutCardResponse"), (0x52, "DeleteCardResponse"), (0x54, "DeleteCardsResponse"), (0x58, "GetCardsResponse"), (0x5a, "GetCardByIDResponse"), (0x5c, "GetCardByIndexResponse"), (0x80, "SetDoorControlStateResponse"), (0x82, "GetDoorControlStateResponse"), (0x88, "SetTimeProfileResponse"), (0x8a, "ClearTimeProfilesResponse"), (0x8c, "SetDoorPasscodesResponse"), (0x8e, "RecordSpecialEventsResponse"), (0x90, "SetListenerResponse"), (0x92, "GetListenerResponse"), (0x94, "GetDeviceResponse"), (0x98, "GetTimeProfileResponse"), (0xa0, "SetPCControlResponse"), (0xa2, "SetInterlockResponse"), (0xa4, "ActivateAccessKeypadsResponse"), (0xa6, "ClearTaskListResponse"), (0xa8, "AddTaskResponse"), (0xaa, "SetFirstCardResponse"), (0xac, "RefreshTaskListResponse"), (0xb0, "GetEventResponse"), (0xb2, "SetEventIndexResponse"), (0xb4, "GetEventIndexResponse"), (0xc8, "RestoreDefaultParametersResponse")]

/-- conditions of the if statements of UnmarshalRequest / UnmarshalResponse, in order -/
def requestsChecks : List String := ["len(bytes) != 64", "bytes[0] != 0x17", "f == nil", "err != nil"]
def responsesChecks : List String := ["len(bytes) != 64", "bytes[0] != 0x17", "f == nil", "err != nil"]

end Uhppote.Gen.Messages
