-- REGENERATED from types/*_addr.go by harness/cmd/extract; do not edit
import Uhppote.Model.Addr
namespace Uhppote.Gen.Addr
open Uhppote.Model.Addr

def bindRegexes : List String := ["[0-9]{1,3}\\.[0-9]{1,3}\\.[0-9]{1,3}\\.[0-9]{1,3}:[0-9]{1,5}", "[0-9]{1,3}\\.[0-9]{1,3}\\.[0-9]{1,3}\\.[0-9]{1,3}"]
def bind : Role := { hasAddrOnlyBranch := true, rejectedPorts := [60000], defaultPort := 0 }
def bindOmitPort : Option Nat := (some 0)

def broadcastRegexes : List String := ["[0-9]{1,3}\\.[0-9]{1,3}\\.[0-9]{1,3}\\.[0-9]{1,3}:[0-9]{1,5}", "[0-9]{1,3}\\.[0-9]{1,3}\\.[0-9]{1,3}\\.[0-9]{1,3}"]
def broadcast : Role := { hasAddrOnlyBranch := true, rejectedPorts := [0], defaultPort := 60000 }
def broadcastOmitPort : Option Nat := (some 60000)

def listenRegexes : List String := ["[0-9]{1,3}\\.[0-9]{1,3}\\.[0-9]{1,3}\\.[0-9]{1,3}:[0-9]{1,5}"]
def listen : Role := { hasAddrOnlyBranch := false, rejectedPorts := [0, 60000], defaultPort := 0 }
def listenOmitPort : Option Nat := none

def controllerRegexes : List String := ["[0-9]{1,3}\\.[0-9]{1,3}\\.[0-9]{1,3}\\.[0-9]{1,3}:[0-9]{1,5}", "[0-9]{1,3}\\.[0-9]{1,3}\\.[0-9]{1,3}\\.[0-9]{1,3}"]
def controller : Role := { hasAddrOnlyBranch := true, rejectedPorts := [0], defaultPort := 60000 }
def controllerOmitPort : Option Nat := (some 60000)

end Uhppote.Gen.Addr
