import Uhppote.Driver.OpWire
import Uhppote.Driver.SpecCommon
import Uhppote.Spec.Api
/-! `listen` and `discover` lines: spec handlers (nothing regenerated is imported). -/
namespace Uhppote.Driver.EventsSpec
open Uhppote Uhppote.Model Uhppote.Model.Api Uhppote.Driver.OpWire Uhppote.Driver.Wire

/-! ### spec side -/
open Uhppote.Spec.Api Uhppote.Spec.Codec

def splitOn (sep : String) (ts : List String) : List (List String) :=
  let rec go (ts : List String) (cur : List String) (acc : List (List String)) : List (List String) :=
    match ts with
    | [] => (cur.reverse :: acc).reverse
    | t :: r => if t = sep then go r [] (cur.reverse :: acc) else go r (t :: cur) acc
  go ts [] []

/-- what the listener must do with one datagram: (must be an event with these values |
    candidates when some field is out of its domain | must be an error) -/
inductive Expect where
  | event (s : List Val)
  | eventOrError (s1 s2 : List Val)
  | error

def expectEvent (d : Bytes) : Expect :=
  match Spec.Protocol.all.lookup "GetStatusResponse" with
  | none => .error
  | some L =>
    if !(d.length == 64 && (d.getD 0 0 == 0x17 || d.getD 0 0 == 0x19) && d.getD 1 0 == 0x20 && Spec.Api.serialOf d != 0)
    then .error
    else
      let (f1, f2, inv, mf) := (L.names.zip L.leaves).foldl (fun (f1, f2, inv, mf) (n, l) =>
        match readLeaf d l with
        | .exact v => (f1 ++ [(n, v)], f2 ++ [(n, v)], inv, mf)
        | .noValue vs => (f1 ++ [(n, vs.head?.getD .none_)], f2 ++ [(n, vs.getLast?.getD .none_)], inv, mf)
        | .invalid [] => (f1, f2, inv, true)          -- malformed (a bool that is neither 0 nor 1, a date that is not digits)
        | .invalid zs => (f1 ++ [(n, zs.head?.getD .none_)], f2 ++ [(n, zs.getLast?.getD .none_)], true, mf)
        | .mustFail => (f1, f2, inv, true)) (([] : Fields), ([] : Fields), false, false)
      if mf then .error
      else match status f1, status f2 with
        | .vals s1, .vals s2 => if inv then .eventOrError s1 s2 else .event s1
        | _, _ => .error

/-- events must come in arrival order; every other datagram accounts for exactly one error -/
def matchEvents : List Expect → List (List Val) → Nat → Option (Nat × List String)
  | [], [], nerr => some (nerr, [])
  | [], _ :: _, _ => none
  | .error :: es, got, nerr => matchEvents es got (nerr + 1)
  | .event s :: es, g :: got, nerr => if s == g then matchEvents es got nerr else none
  | .event _ :: _, [], _ => none
  | .eventOrError s1 s2 :: es, g :: got, nerr =>
    if s1 == g ∨ s2 == g then
      (match matchEvents es got nerr with
       | some r => some r
       | none => matchEvents es (g :: got) (nerr + 1))
    else matchEvents es (g :: got) (nerr + 1)
  | .eventOrError _ _ :: es, [], nerr => matchEvents es [] (nerr + 1)

def judgeListen (ds : List Bytes) (impl : List (List String)) : List String :=
  match impl with
  | [] => ["no callbacks at all"]
  | first :: rest =>
    let tail := rest.getLast?.getD []
    let errTok := (rest.dropLast.getLast?.getD []).headD ""
    let cbs := rest.dropLast.dropLast
    let nerr := ((errTok.splitOn "=").getD 1 "").toNat?.getD 0
    let got := cbs.filterMap fun cb => match cb with
      | "ev" :: vs => vs.mapM parseVal
      | _ => none
    -- every complaint names the property it belongs to (a status that changes afterwards is both C10 and C17;
    -- a listener that crashes or never returns is C04 as well)
    (if first = ["connected"] then [] else ["C10 the connected callback comes first, once"]) ++
    (if tail.headD "" = "returned" then [] else
      [s!"C10 the listener stops when signalled and returns without error (got {tail.headD ""})"] ++
      (if tail.headD "" = "panic" ∨ tail.headD "" = "hung" then ["C04 the listener neither panics nor hangs"] else [])) ++
    (if tail.getD 1 "" = "stable" then [] else
      ["C10 a delivered status does not change afterwards", "C17 a delivered status is not affected by later reuse of the receive buffer or by later events"]) ++
    (if got.length ≠ cbs.length then ["C10 unexpected callback"] else []) ++
    (match matchEvents (ds.map expectEvent) got 0 with
     | some (n, _) => if n = nerr then [] else [s!"C10 {n} datagrams are not well-formed events: exactly {n} error callbacks (got {nerr})"]
     | none => ["C10 the events delivered are not the well-formed event datagrams, each once, in arrival order"])

inductive ExpectEntry where
  | must (e : String)
  | may (e1 e2 : String)
  | never

def expectEntry (cfg : Cfg) (d : Bytes) : ExpectEntry :=
  match Spec.Protocol.all.lookup "GetDeviceResponse" with
  | none => .never
  | some L =>
    if !(d.length == 64 && d.getD 0 0 == 0x17 && d.getD 1 0 == 0x94) then .never
    else
      let (f1, f2, inv, mf) := (L.names.zip L.leaves).foldl (fun (f1, f2, inv, mf) (n, l) =>
        match readLeaf d l with
        | .exact v => (f1 ++ [(n, v)], f2 ++ [(n, v)], inv, mf)
        | .noValue vs => (f1 ++ [(n, vs.head?.getD .none_)], f2 ++ [(n, vs.getLast?.getD .none_)], inv, mf)
        | .invalid [] => (f1, f2, inv, true)          -- malformed (a bool that is neither 0 nor 1, a date that is not digits)
        | .invalid zs => (f1 ++ [(n, zs.head?.getD .none_)], f2 ++ [(n, zs.getLast?.getD .none_)], true, mf)
        | .mustFail => (f1, f2, inv, true)) (([] : Fields), ([] : Fields), false, false)
      if mf then .never
      else
        let render := fun (fs : Fields) =>
          let serial := match get fs "SerialNumber" with | .u32 n => n | _ => 0
          let name := match cfg.controllers.find? (·.serial == serial) with
            | some c => if c.name = "" then "-" else c.name
            | none => "-"
          let port := if cfg.broadcastValid then cfg.broadcastPort else 60000
          let addr := match get fs "IpAddress" with
            | .ip bs => (match bs.drop 12 with
              | [a, b, c, d] => s!"{a.toNat}.{b.toNat}.{c.toNat}.{d.toNat}:{port}"
              | _ => "invalid")
            | _ => "invalid"
          showVals [get fs "SerialNumber", get fs "IpAddress", get fs "SubnetMask", get fs "Gateway",
                    get fs "MacAddress", get fs "Version", get fs "Date"] ++ s!" {name} {addr}"
        if inv then .may (render f1) (render f2) else .must (render f1)

/-- walk the datagrams in order against the returned entries -/
def judgeDiscover (cfg : Cfg) : List Bytes → List String → List String
  | [], [] => []
  | [], e :: _ => [s!"an entry that no received reply accounts for: {e}"]
  | d :: ds, es =>
    match expectEntry cfg d, es with
    | .never, _ => judgeDiscover cfg ds es
    | .must x, e :: r => if x = e then judgeDiscover cfg ds r else [s!"entry {x}"]
    | .must x, [] => [s!"missing entry {x}"]
    | .may x y, e :: r => if x = e ∨ y = e then judgeDiscover cfg ds r else judgeDiscover cfg ds es
    | .may _ _, [] => judgeDiscover cfg ds []

def spec : List String → List String → Option String
  | "listen" :: "|" :: hs, impl => do
    let ds ← hs.mapM fromHex
    let bad := judgeListen ds (splitOn ";" impl)
    some (if bad.isEmpty then "ok" else "bad " ++ " | ".intercalate bad)
  | "discover" :: r, impl => do
    let (c, hs) := splitBar r
    let cfg ← c.foldlM (parseCfgTok "255.255.255.255:60000") (emptyCfg "255.255.255.255:60000")
    let ds ← hs.mapM fromHex
    match impl with
    | ["err"] => some "bad discovery never fails because of what it receives"
    | "1" :: "broadcast" :: addr :: req :: ";" :: rest =>
      let bc := if cfg.broadcastValid then cfg.broadcast else "255.255.255.255:60000"
      let es := (splitOn "/" rest).map (" ".intercalate ·) |>.filter (· ≠ "")
      let expectedReq := "1794" ++ String.join (List.replicate 62 "00")
      let bad := (if addr = bc then [] else [s!"discovery broadcasts to {bc}"]) ++
        (if req = expectedReq then [] else ["the get-device request with serial number 0"]) ++
        judgeDiscover cfg ds es
      some (if bad.isEmpty then "ok" else "bad " ++ " | ".intercalate bad)
    | _ => some "bad exactly one broadcast"
  | _, _ => none

end Uhppote.Driver.EventsSpec
