import Uhppote.Driver.Wire
import Uhppote.Model.Api
/-! Token syntax of `op` lines: configuration, arguments, arrivals, outcome. -/
namespace Uhppote.Driver.OpWire
open Uhppote Uhppote.Model Uhppote.Model.Api Uhppote.Driver.Wire

def parseArg (t : String) : Option Arg :=
  if t = "absent" then some .absent
  else if t = "seg:absent" then some (.seg none)
  else match t.splitOn ":" with
    | ["seg", s] =>
      (match (s.splitOn ",").mapM String.toInt? with
       | some [a, b, c, d] => some (.seg (some (⟨a, b⟩, ⟨c, d⟩)))
       | _ => none)
    | ["int", n] => n.toInt?.map .int
    | ["list", s] => if s = "" then some (.list []) else ((s.splitOn ",").mapM String.toNat?).map .list
    | _ => (parseVal t).map .v

/-- a.b.c.d:port -/
def parseEndpoint (s : String) : Option (Nat × Nat × Nat × Nat × Nat) :=
  match s.splitOn ":" with
  | [ip, port] =>
    (match (ip.splitOn ".").mapM String.toNat?, port.toNat? with
     | some [a, b, c, d], some p => some (a, b, c, d, p)
     | _, _ => none)
  | _ => none

def parseCfgTok (defaultBc : String) (cfg : Cfg) (t : String) : Option Cfg :=
  match t.splitOn "=" with
  | ["bc", "-"] => some { cfg with broadcastValid := false, defaultBroadcast := defaultBc }
  | ["bc", ep] => (parseEndpoint ep).map fun (_, _, _, _, p) =>
      { cfg with broadcastValid := true, broadcast := ep, broadcastPort := p, defaultBroadcast := defaultBc }
  | ["dev", spec] =>
    (match spec.splitOn ";" with
     | [serial, name, addr, proto] =>
       serial.toNat?.bind fun sn =>
         if addr = "-" then
           some { cfg with controllers := cfg.controllers ++ [⟨sn, name, 0, false, false, "-", proto = "tcp"⟩] }
         else (parseEndpoint addr).map fun (a, b, c, d, p) =>
           { cfg with controllers := cfg.controllers ++
               [⟨sn, name, p, p ≠ 0, a = 0 ∧ b = 0 ∧ c = 0 ∧ d = 0, addr, proto = "tcp"⟩] }
     | _ => none)
  | _ => none

def emptyCfg (defaultBc : String) : Cfg := ⟨[], false, "", 0, defaultBc⟩

def splitBar (ts : List String) : List String × List String :=
  (ts.takeWhile (· ≠ "|"), (ts.dropWhile (· ≠ "|")).drop 1)

structure OpLine where
  name : String
  cfg : Cfg
  args : List Arg
  arrivals : List Bytes

def parseOpLine (defaultBc : String) (ts : List String) : Option OpLine :=
  match ts with
  | name :: rest =>
    let (c, r1) := splitBar rest
    let (a, d) := splitBar r1
    do
      let cfg ← c.foldlM (parseCfgTok defaultBc) (emptyCfg defaultBc)
      let args ← a.mapM parseArg
      let arr ← d.mapM fromHex
      some ⟨name, cfg, args, arr⟩
  | _ => none

def showRes : Res → String
  | .err => "err"
  | .nil => "nil"
  | .vals xs => "vals " ++ showVals xs

def showOutcome (calls : List Call) (res : Res) (extras : List String) : String :=
  let cs := calls.map fun c => s!"{c.path} {c.endpoint} {showHex c.payload}"
  let e := if extras.isEmpty then "" else " ; " ++ " ".intercalate extras
  s!"{calls.length} {" ".intercalate cs} ; {showRes res}{e}"

/-- the wire phase reports a request that never reached the controller stand-in by name: an empty payload -/
def wireHex (h : String) : Option Bytes :=
  if h = "nothing-on-the-wire" then some [] else fromHex h

/-- parse an implementation outcome line back -/
def parseOutcome (ts : List String) : Option (List Call × Res × List String) :=
  match ts with
  | n :: rest =>
    let (pre, post) := (rest.takeWhile (· ≠ ";"), (rest.dropWhile (· ≠ ";")).drop 1)
    let (resT, extras) := (post.takeWhile (· ≠ ";"), (post.dropWhile (· ≠ ";")).drop 1)
    do
      let k ← n.toNat?
      let calls ← (match pre with
        | [] => some []
        | [p, e, h] => (wireHex h).map fun b => [Call.mk p e b]
        | [p, e, h, p2, e2, h2] => do
          let b ← wireHex h; let b2 ← wireHex h2
          some [Call.mk p e b, Call.mk p2 e2 b2]
        | _ => none)
      if calls.length ≠ k ∧ k ≤ 2 then none else
      let res ← (match resT with
        | ["err"] => some Res.err
        | ["nil"] => some Res.nil
        | "vals" :: vs => (vs.mapM parseVal).map Res.vals
        | ["panic"] => some Res.err
        | _ => none)
      some (calls, res, extras)
  | _ => none

end Uhppote.Driver.OpWire
