import Uhppote.Driver.OpWire
import Uhppote.Driver.ModelCodec
import Uhppote.Gen.Routing
import Uhppote.Model.Events
import Uhppote.Gen.Discover
/-! `listen` and `discover` lines: model and spec handlers. -/
namespace Uhppote.Driver.Events
open Uhppote Uhppote.Model Uhppote.Model.Api Uhppote.Model.Events Uhppote.Driver.OpWire Uhppote.Driver.Wire

def showCallback : Callback → String
  | .connected => "connected"
  | .error => "error"
  | .event s => "ev " ++ showVals s

def showEntry (e : Entry) : String := s!"{showVals e.fields} {e.name} {e.address}"

def modelDefaultBc : String := s!"{Gen.Routing.defaultBroadcastIP}:{Gen.Routing.defaultBroadcastPort}"

def model : List String → Option String
  | "listen" :: "|" :: hs => do
    let ds ← hs.mapM fromHex
    let L ← Gen.Messages.all.lookup "GetStatusResponse"
    let tr := listenTrace Gen.codecFacts Driver.ModelCodec.T Driver.ModelCodec.wireBounds L ds
    -- error callbacks come from the receive loop, event callbacks from the dispatch goroutine:
    -- the order among events is defined, errors are counted
    let evs := tr.filter (fun c => match c with | .error => false | _ => true)
    let nerr := (tr.filter (fun c => match c with | .error => true | _ => false)).length
    some (" ; ".intercalate (evs.map showCallback) ++ s!" ; errors={nerr} ; returned stable")
  | "discover" :: r => do
    let (c, hs) := splitBar r
    let cfg ← c.foldlM (parseCfgTok modelDefaultBc) (emptyCfg modelDefaultBc)
    let ds ← hs.mapM fromHex
    let L ← Gen.Messages.all.lookup "GetDeviceResponse"
    let Lq ← Gen.Messages.all.lookup "GetDeviceRequest"
    -- (the entry is built by the function translated from GetDevices: Gen/Discover.lean; C11_entry_regenerated)
    let es := ds.filterMap (entryWith Gen.codecFacts Driver.ModelCodec.T Driver.ModelCodec.wireBounds Gen.Discover.entry cfg L)
    let bc := if cfg.broadcastValid then cfg.broadcast else cfg.defaultBroadcast
    match marshal Gen.codecFacts Driver.ModelCodec.T Lq [.u8 0, .u32 0] with
    | .ok m => some (s!"1 broadcast {bc} {showHex m} ; " ++ " / ".intercalate (es.map showEntry))
    | _ => some "err"
  | _ => none

end Uhppote.Driver.Events
