import Uhppote.Driver.Text
import Uhppote.Gen.Types
namespace Uhppote.Driver.ModelText
open Uhppote Uhppote.Model

def textB : HHmmBounds := ⟨Gen.Types.hhmmMaxHoursText, Gen.Types.hhmmMaxMinutesText, Gen.Types.hhmm24RuleText⟩
def jsonB : HHmmBounds := ⟨Gen.Types.hhmmMaxHoursJSON, Gen.Types.hhmmMaxMinutesJSON, Gen.Types.hhmm24RuleJSON⟩

def handle (ts : List String) : Option String := Driver.Text.model textB jsonB ts

end Uhppote.Driver.ModelText
