import Uhppote.Driver.Net
import Uhppote.Gen.Driver
namespace Uhppote.Driver.ModelNet
open Uhppote

def facts : Driver.Net.Facts :=
  ⟨Gen.Driver.BroadcastTo, Gen.Driver.SendUDP, Gen.Driver.SendTCP, Gen.Driver.Broadcast,
   Gen.Driver.broadcastShared.all (·.2), Gen.Driver.tcpSingleDeadline⟩

def handle (ts : List String) : Option String := Driver.Net.eval facts ts

end Uhppote.Driver.ModelNet
