import Uhppote.Gen.Alias
import Uhppote.Gen.Facts
/-! model side of the `insulate` lines: the heap model says "unchanged" exactly when the
    regenerated aliasing facts are the ones of `Props.C17.C17_facts` -/
namespace Uhppote.Driver.ModelInsulate
open Uhppote

def factsGood : Bool :=
  Gen.Alias.writesThroughParameters.isEmpty && Gen.Alias.constructorStores == "device.Clone()" &&
  Gen.Alias.routingReads == ["Address", "Protocol"] && Gen.Alias.deviceCloneCopiesDoors &&
  Gen.Alias.macAddressDecoderCopies && Gen.codecFacts.macReaderCopies && Gen.codecFacts.ipReaderCopies

def handle : List String → Option String
  | "insulate" :: _ => some (if factsGood then "unchanged" else "unspecified")
  | _ => none
end Uhppote.Driver.ModelInsulate
