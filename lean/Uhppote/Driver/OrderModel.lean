import Uhppote.Driver.Order
import Uhppote.Gen.Order
/-! order stream: the MODEL's handler, running the comparison functions as regenerated from the sources
    (`Gen/Order.lean`); the segment guard is `segment.End.Before(segment.Start)`. -/
namespace Uhppote.Driver.OrderModel
open Uhppote Uhppote.Model.Order Uhppote.Driver.Order

def model : List String → Option String
  | "date-cmp" :: r => do
    let [y1, m1, d1, y2, m2, d2] ← ints (r.take 6) | none     -- an optional 7th token names the process zone
    let p : YMD := ⟨y1, m1, d1⟩; let q : YMD := ⟨y2, m2, d2⟩
    some s!"{b01 (Gen.Order.dateBefore p q)} {b01 (Gen.Order.dateEquals p q)} {b01 (Gen.Order.dateAfter p q)}"
  | "hhmm-cmp" :: r => do
    let [h1, m1, h2, m2] ← ints r | none
    let p : HM := ⟨h1, m1⟩; let q : HM := ⟨h2, m2⟩
    some s!"{b01 (Gen.Order.hhmmBefore p q)} {b01 (Gen.Order.hhmmEquals p q)} {b01 (Gen.Order.hhmmAfter p q)}"
  | "dt-before" :: r => do
    let [a, b] ← ints r | none
    some (b01 (Gen.Order.dateTimeBefore a b))
  | "segment" :: r => do
    let [_, h1, m1, h2, m2] ← ints r | none
    some (if Gen.Order.hhmmBefore ⟨h2, m2⟩ ⟨h1, m1⟩ then "reject" else "accept")
  | _ => none


end Uhppote.Driver.OrderModel
