import Uhppote.Driver.SpecCommon
import Uhppote.Spec.BCD
namespace Uhppote.Driver.SpecBCD
open Uhppote

def handle : List String → List String → Option String
  | ["bcd-enc", h], impl => (fromHex h).map fun s => Driver.expect (Driver.fmtOptBytes (Spec.BCD.encode s)) impl
  | ["bcd-dec", h], impl => (fromHex h).map fun s => Driver.expect (Driver.fmtOptBytes (Spec.BCD.decode s)) impl
  | ["bcd-fresh", _], impl => some (Driver.expect "same" impl)
  | _, _ => none

end Uhppote.Driver.SpecBCD
