import Uhppote.Driver.Common
import Uhppote.Spec.BCD
namespace Uhppote.Driver.SpecBCD
open Uhppote

def handle : List String → Option String
  | ["bcd-enc", h] => (fromHex h).map fun s => Driver.fmtOptBytes (Spec.BCD.encode s)
  | ["bcd-dec", h] => (fromHex h).map fun s => Driver.fmtOptBytes (Spec.BCD.decode s)
  | _ => none

end Uhppote.Driver.SpecBCD
