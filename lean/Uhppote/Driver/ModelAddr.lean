import Uhppote.Driver.Addr
import Uhppote.Gen.Addr
namespace Uhppote.Driver.ModelAddr
open Uhppote

def genRoles : Driver.Addr.Roles :=
  { bind := (Gen.Addr.bind, Gen.Addr.bindOmitPort), broadcast := (Gen.Addr.broadcast, Gen.Addr.broadcastOmitPort),
    listen := (Gen.Addr.listen, Gen.Addr.listenOmitPort), controller := (Gen.Addr.controller, Gen.Addr.controllerOmitPort) }

def handle (ts : List String) : Option String := Driver.Addr.eval genRoles ts

end Uhppote.Driver.ModelAddr
