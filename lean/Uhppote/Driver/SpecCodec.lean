import Uhppote.Driver.SpecCommon
import Uhppote.Driver.Wire
import Uhppote.Spec.Codec
import Uhppote.Spec.Protocol
namespace Uhppote.Driver.SpecCodec
open Uhppote Uhppote.Model Uhppote.Driver.Wire Uhppote.Spec.Codec

def layoutOf (ts : List String) : Option (Layout × List String) :=
  match ts with
  | t :: "|" :: rest =>
    if t.startsWith "T=" then (Spec.Protocol.all.lookup (t.drop 2).toString).map fun L => (L, rest)
    else parseLayout ts
  | _ => parseLayout ts

def parseResult : List String → Option Result
  | ["err"] => some .err
  | ["panic"] => some .panic
  | "ok" :: vs => (vs.mapM parseVal).map .ok
  | _ => none

def handle : List String → List String → Option String
  | "marshal" :: r, impl => do
    let (L, rest) ← layoutOf r
    let vs ← rest.mapM parseVal
    if !wf L.leaves then
      -- the property quantifies over well-formed layouts only
      some "unspecified"
    else match image L.leaves vs with
      | none =>
        -- some value is outside its domain: the image rule is silent about that field, but the encoder neither panics
        -- nor lets the value reach beyond its field
        if vs.length != L.leaves.length then some "unspecified" else
        (match impl with
         | ["panic"] => some "bad encoding panicked (a value outside the domain of its field may be refused, never crash the caller)"
         | ["ok", h] => (match fromHex h with
            | some out => if confined L.leaves vs out then some "ok"
                          else some "bad a value outside the domain of its field changed bytes outside that field (every other position is the other fields' bytes, the protocol id or zero)"
            | none => none)
         | _ => some "unspecified")
      | some img => some (Driver.expect ("ok " ++ showHex img) impl)
  | "unmarshal" :: _, ["changed-an-earlier-decoded-value"] =>
    some "bad decoding into a variable that was decoded into before must not change a copy kept of the earlier value (every decoded value is the decoding of its own message)"
  | "unmarshal" :: r, impl => do
    let (L, rest) ← layoutOf r
    let [h] := rest | none
    let b ← fromHex h
    let res ← parseResult impl
    if !wf L.leaves then some "unspecified"
    else some (Driver.verdict (acceptsUnmarshal L.leaves b res)
      "the positional protocol reading (exact value for in-domain bytes; error - or 'no value' where the type has one - for out-of-domain bytes; error for a fixed-value mismatch; never a panic)")
  | [d, h], impl =>
    if d = "dispatch-req" ∨ d = "dispatch-resp" then do
      let b ← fromHex h
      let table := if d = "dispatch-req" then Spec.Protocol.requests else Spec.Protocol.responses
      let known : Option String :=
        if b.length = 64 ∧ b.getD 0 0 = 0x17 then table.lookup (b.getD 1 0).toNat else none
      match known, impl with
      | none, ["err"] => some "ok"
      | none, _ => some "bad a wrong length, a wrong protocol id or an unknown function code must be rejected"
      | some n, "ok" :: n' :: vs =>
        if n ≠ n' then some s!"bad the message type of function code {b.getD 1 0} is {n}"
        else do
          let L ← Spec.Protocol.all.lookup n
          let vals ← vs.mapM parseVal
          some (Driver.verdict (acceptsUnmarshal L.leaves b (.ok vals)) "the positional protocol reading")
      | some n, ["err"] => do
        let L ← Spec.Protocol.all.lookup n
        some (Driver.verdict (acceptsUnmarshal L.leaves b .err) "all fields are in their domain: the message must decode")
      | some _, _ => some "bad never a panic"
    else none
  | "alias" :: _, impl => some (Driver.expect "same" impl)
  | _, _ => none

end Uhppote.Driver.SpecCodec
