import Uhppote.Driver.SpecCommon
import Uhppote.Driver.Wire
import Uhppote.Spec.Codec
import Uhppote.Spec.Protocol
namespace Uhppote.Driver.SpecCodec
open Uhppote Uhppote.Model Uhppote.Driver.Wire Uhppote.Spec.Codec

def layoutOf (ts : List String) : Option (Layout × List String) :=
  match ts with
  | t :: "|" :: rest =>
    if t.startsWith "T=" then (Spec.Protocol.all.lookup (t.drop 2).toString).map fun L => (L, rest)
    else parseLayout ts
  | _ => parseLayout ts

def parseResult : List String → Option Result
  | ["err"] => some .err
  | ["panic"] => some .panic
  | "ok" :: vs => (vs.mapM parseVal).map .ok
  | _ => none

def handle : List String → List String → Option String
  | "marshal" :: r, impl => do
    let (L, rest) ← layoutOf r
    let vs ← rest.mapM parseVal
    if !wf L.leaves then
      -- the property quantifies over well-formed layouts only
      some "unspecified"
    else match image L.leaves vs with
      | none => some "unspecified"   -- some value is outside its domain: C18 is silent (C04 covers the shipped layouts)
      | some img => some (Driver.expect ("ok " ++ showHex img) impl)
  | "unmarshal" :: r, impl => do
    let (L, rest) ← layoutOf r
    let [h] := rest | none
    let b ← fromHex h
    let res ← parseResult impl
    if !wf L.leaves then some "unspecified"
    else some (Driver.verdict (acceptsUnmarshal L.leaves b res)
      "the positional protocol reading (exact value for in-domain bytes; error or zero for out-of-domain bytes; error for a fixed-value mismatch; never a panic)")
  | "alias" :: _, impl => some (Driver.expect "same" impl)
  | _, _ => none

end Uhppote.Driver.SpecCodec
