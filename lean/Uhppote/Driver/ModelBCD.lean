import Uhppote.Driver.Common
import Uhppote.Gen.BCD
import Uhppote.Model.BCD
namespace Uhppote.Driver.ModelBCD
open Uhppote Uhppote.Model.BCD

def genTables : Tables :=
  { enc := Gen.BCD.encTable, decHi := Gen.BCD.decHiTable, decLo := Gen.BCD.decLoTable,
    hiMask := Gen.BCD.decHiMask, loMask := Gen.BCD.decLoMask }

def handle : List String → Option String
  | ["bcd-enc", h] => (fromHex h).map fun s => Driver.fmtOptBytes (encode genTables s)
  | ["bcd-dec", h] => (fromHex h).map fun s => Driver.fmtOptBytes (decode genTables s)
  | ["bcd-fresh", _] => some "same"
  | _ => none

end Uhppote.Driver.ModelBCD
