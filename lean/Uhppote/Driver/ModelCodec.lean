import Uhppote.Driver.Wire
import Uhppote.Driver.ModelBCD
import Uhppote.Gen.Facts
import Uhppote.Gen.Messages
import Uhppote.Gen.Types
namespace Uhppote.Driver.ModelCodec
open Uhppote Uhppote.Model Uhppote.Driver.Wire

def T : BCD.Tables := Driver.ModelBCD.genTables

def wireBounds : HHmmBounds :=
  ⟨Gen.Types.hhmmMaxHoursWire, Gen.Types.hhmmMaxMinutesWire, Gen.Types.hhmm24RuleWire⟩

/-- `T=<Name>` (a shipped message, layout regenerated from messages/*.go) or inline tokens -/
def layoutOf (ts : List String) : Option (Layout × List String) :=
  match ts with
  | t :: "|" :: rest =>
    if t.startsWith "T=" then (Gen.Messages.all.lookup (t.drop 2).toString).map fun L => (L, rest)
    else parseLayout ts
  | _ => parseLayout ts

def handle : List String → Option String
  | "marshal" :: r => do
    let (L, rest) ← layoutOf r
    let vs ← rest.mapM parseVal
    some (showOutcomeBytes (marshal Gen.codecFacts T L vs))
  | "unmarshal" :: r => do
    let (L, rest) ← layoutOf r
    let [h] := rest | none
    let b ← fromHex h
    some (showOutcomeVals (unmarshal Gen.codecFacts T wireBounds L b))
  | [d, h] =>
    if d = "dispatch-req" ∨ d = "dispatch-resp" then do
      let b ← fromHex h
      let table := if d = "dispatch-req" then Gen.Messages.requests else Gen.Messages.responses
      match dispatch Gen.codecFacts T wireBounds table (fun n => Gen.Messages.all.lookup n) b with
      | .ok (n, vs) => some (s!"ok {n} " ++ showVals vs)
      | .err => some "err"
      | .panic => some "panic"
    else none
  | "alias" :: r => do
    let (L, _) ← layoutOf r
    -- a decoded value changes with the buffer only if its reader stored a view of the input
    let views := L.leaves.any fun l => match l with
      | .at _ .mac _ => !Gen.codecFacts.macReaderCopies
      | .at _ .ipv4 _ => !Gen.codecFacts.ipReaderCopies
      | _ => false
    some (if views then "changed" else "same")
  | _ => none

end Uhppote.Driver.ModelCodec
