import Uhppote.Driver.Wire
import Uhppote.Driver.ModelBCD
import Uhppote.Gen.Facts
import Uhppote.Gen.Messages
import Uhppote.Gen.Types
namespace Uhppote.Driver.ModelCodec
open Uhppote Uhppote.Model Uhppote.Driver.Wire

def T : BCD.Tables := Driver.ModelBCD.genTables

/-- `T=<Name>` (a shipped message, layout regenerated from messages/*.go) or inline tokens -/
def layoutOf (ts : List String) : Option (Layout × List String) :=
  match ts with
  | t :: "|" :: rest =>
    if t.startsWith "T=" then (Gen.Messages.all.lookup (t.drop 2).toString).map fun L => (L, rest)
    else parseLayout ts
  | _ => parseLayout ts

def handle : List String → Option String
  | "marshal" :: r => do
    let (L, rest) ← layoutOf r
    let vs ← rest.mapM parseVal
    some (showOutcomeBytes (marshal Gen.codecFacts T L vs))
  | "unmarshal" :: r => do
    let (L, rest) ← layoutOf r
    let [h] := rest | none
    let b ← fromHex h
    some (showOutcomeVals (unmarshal Gen.codecFacts T Gen.Types.hhmmMaxMinutesWire L b))
  | _ => none

end Uhppote.Driver.ModelCodec
