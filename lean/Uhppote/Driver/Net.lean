import Uhppote.Driver.SpecCommon
import Uhppote.Model.Driver
/-! lines of the loopback farm (`drv`, `lock`, `leak`, `conc`, `route`, `rlisten`, `rdiscover`):
    the model handler is given the regenerated driver facts; the spec handler uses the ideal ones. -/
namespace Uhppote.Driver.Net
open Uhppote Uhppote.Model.Driver

structure Facts where
  broadcastTo : MethodFacts
  sendUDP : MethodFacts
  sendTCP : MethodFacts
  broadcast : MethodFacts
  sharedGuarded : Bool
  tcpSingleDeadline : Bool := true

def ideal : MethodFacts :=
  { lockWhenFixedPort := true, firstDeadlineAfterLock := true, socketDeadlineAfterLock := true, unlockDeferred := true,
    closeDeferredAfterOpen := true, writes := 1, noReplyCode := 0x96, readsInLoop := false, reads := 1, sleepsForTimeout := false }

def idealFacts : Facts := ⟨{ ideal with readsInLoop := true }, ideal, ideal, { ideal with readsInLoop := true, sleepsForTimeout := true }, true, true⟩

def kv (t : String) : String := ((t.splitOn "=").getD 1 "")

def classOf (c : String) : Bool × Bool :=     -- (passes the broadcast filter, valid)
  match c with
  | "valid" => (true, true)
  | "wrong-code" | "wrong-som" | "malformed" => (true, false)
  | _ => (false, false)                      -- short, long, wrong-serial, serial-0

def slackMs : Nat := 140

def timeClass (T t : Nat) : String :=
  if t < T - slackMs / 2 then "<T" else if t ≤ T + slackMs then "=T" else ">T"

def splitBar (ts : List String) : List String × List String :=
  (ts.takeWhile (· ≠ "|"), (ts.dropWhile (· ≠ "|")).drop 1)

def eval (F : Facts) : List String → Option String
  | "drv" :: rest => do
    let (hd, arr) := splitBar rest
    -- `debug=on`: the client was built with the debug flag; behaviour must not depend on it
    let [path, _bind, special, tT] := hd.filter (fun t => !t.startsWith "debug=") | none
    let T ← (kv tT).toNat?
    let as ← arr.mapM fun a => match a.splitOn ":" with
      | [ms, cl] => ms.toNat?.map fun t => let (p, v) := classOf cl; (⟨t, p, v⟩ : Arrival)
      | _ => none
    let (p, mf) ← (match path with
      | "broadcast" => some (Path.broadcastTo, F.broadcastTo)
      | "udp" | "any" => some (Path.udp, F.sendUDP)      -- "any" is not "tcp": the connected-UDP path
      | "tcp" => some (Path.tcp, F.sendTCP)
      | _ => none)
    let sp ← (match kv special with
      | "none" => some Special.none | "refused" => some Special.refused
      | "stall" => some Special.stall | "reset" | "reset-after-request" => some Special.reset | _ => none)
    let (ok, t) := exchange mf p T 0 sp as
    -- (a client with a timeout of zero: whether the request still gets out is not specified)
    some s!"{if ok then "ok" else "err"} {timeClass T t} requests={if T = 0 then "-" else "1"}"
  | ["lock", "tcp-same-endpoint-twice"] =>
    -- kernel rule (not the library's): a TCP 4-tuple closed by the client stays in TIME_WAIT, a second
    -- connection from the same fixed source port to the same endpoint is refused
    some "first:ok second:err"
  | ["lockfail", _] => some "first:err second:ok"     -- a failed dial gives the shared port back
  | ["lock", path, _] => do
    let mf ← (match path with
      | "broadcast" => some F.broadcastTo | "udp" => some F.sendUDP | "tcp" => some F.sendTCP | _ => none)
    -- the second call waited (almost) one timeout for the port; UDP's socket deadline alone decides its read
    let waits : Bool := match path with
      | "udp" => mf.socketDeadlineAfterLock
      | _ => mf.socketDeadlineAfterLock && mf.firstDeadlineAfterLock
    some s!"first:err second:{if waits then "ok" else "err"} in-turn"
  | "leak" :: _ =>
    some (if F.broadcastTo.closeDeferredAfterOpen && F.sendUDP.closeDeferredAfterOpen && F.sendTCP.closeDeferredAfterOpen &&
             F.broadcast.closeDeferredAfterOpen then "restored" else "unspecified")
  | ["conc", bind, _, calls] => do
    let n ← (kv calls).toNat?
    let disc := if kv bind = "0" then " discovered=4..6" else ""
    some (if F.sharedGuarded then s!"own={n} crossed=0 err=0 races=0{disc}" else "unspecified")
  | ["slow-connect", _, tT, cT] => do
    -- a TCP controller whose handshake completes `connect` ms into the call and which then never answers
    let T ← (kv tT).toNat?
    let c ← (kv cT).toNat?
    let t := tcpStallReturn F.tcpSingleDeadline T c
    some s!"err {if t ≤ T then "=T" else ">T"}"
  | ["lock3", path] => do
    let mf ← (match path with
      | "broadcast" => some F.broadcastTo | "udp" => some F.sendUDP | "tcp" => some F.sendTCP | _ => none)
    -- the third call waited two timeouts for the port: every deadline it uses must be taken after the lock
    some (if mf.socketDeadlineAfterLock && mf.firstDeadlineAfterLock then "third:ok requests=1" else "unspecified")
  | ["discover-straddle", _] => some "consistent"
  | ["lock-late", _] => some "first:err second:ok"
  | ["lock-same-endpoint", _, _, _] => some "first:ok second:ok"
  | ["route-after-timeout", _] => some "first:err second:ok from-bound-port"
  | ["discover-during-call", _] => some "call:err discovered=1 from-bound-port"
  | ["discover-parallel", _, _] => some "all-found all=T"
  | ["route-twice", _, _] => some "all-from-bind-address-and-port"
  | ["route-occupied", _, _] => some "occupied nothing-from-another-address-or-port"
  | ["route", _, bind, want] =>
    let src := if kv bind = "0" then "source-port-ephemeral" else "source-port-bound"
    some s!"ok heard=[{kv want} x1] {src}"
  | "rlisten" :: _ => some "cycle-ok cycle-ok cycle-ok"
  | ["rlisten-stop-during-onerror"] => some "returned"
  | "rdiscover" :: tT :: "|" :: plan => do
    let T ← (kv tT).toNat?
    let ps ← plan.mapM fun p => match p.splitOn ":" with
      | [ms, serial, cl] => ms.toNat?.map fun t => (t, serial, cl)
      | _ => none
    -- replies too close to the end of the window are not predictable
    if ps.any (fun (t, _, _) => t + 60 > T ∧ t < T + slackMs) then some "unspecified" else
    let got := (ps.filter fun (t, _, cl) => t < T ∧ (cl = "valid" ∨ cl = "valid-other-port")).map fun (_, s, _) => s
    some s!"ok [{",".intercalate got}] =T"
  | _ => none

/-- `drv` lines serve several properties: each disagreement is attributed to the one it concerns -/
def judgeDrv (e : String) (impl : List String) (strayFirst : Bool := false) : String :=
  match e.splitOn " ", impl with
  | [eo, et, er], [io, it, ir] =>
    let cs : List String :=
      (if io = eo then []
       else if io = "ok" ∨ io = "wrong-result" then [s!"C03 the call reported a result ({io}) on the basis of a datagram it must not accept; expected: {e}",
                                                    s!"C09 the call reported success ({io}) although no acceptable reply arrived; expected: {e}"]
       else if io = "hung" then [s!"C09 the call did not return; expected: {e}"]
       else if io = "panic" then [s!"C04 the call crashed (panic) on what the network delivered; expected: {e}",
                                  s!"C09 the call crashed (panic); expected: {e}"]
       else [s!"C09 the call failed ({io}) although an acceptable reply arrived before its deadline; expected: {e}"] ++
            (if strayFirst then [s!"C03 the call failed ({io}) instead of skipping the datagrams it must not accept and waiting for the reply that followed; expected: {e}"] else [])) ++
      (if it = et then [] else [s!"C09 the call returned in time class {it}; expected: {e}"]) ++
      (if ir = er then [] else [s!"C06 {ir}; expected: {e}"])
    if cs.isEmpty then "ok" else "bad " ++ " | ".intercalate cs
  | _, _ => "bad expected: " ++ e

def spec (c impl : List String) : Option String :=
  match c with
  | "drv" :: _ =>
      -- datagrams the call must skip arrived before the first acceptable one
      let arr := (c.dropWhile (· ≠ "|")).drop 1
      let strayFirst := !(arr.takeWhile fun a => !a.endsWith ":valid").isEmpty
      (eval idealFacts c).map fun e => if e = "unspecified" then "unspecified" else judgeDrv e impl strayFirst
  | "slow-connect" :: _ => (eval idealFacts c).map fun e =>
      if impl = e.splitOn " " then "ok"
      else s!"bad C09 a call to a controller that connects late and never answers fails one timeout after it was made; expected: {e}"
  | ["lock", "tcp-same-endpoint-twice"] => some (Driver.expect "first:ok second:ok" impl)   -- the controller would answer
  | _ => (eval idealFacts c).map fun e => if e = "unspecified" then "unspecified" else Driver.expect e impl

end Uhppote.Driver.Net
