import Uhppote.Driver.SpecCommon
import Uhppote.Driver.Wire
import Uhppote.Model.Text
/-! `text` / `fmt` / `rt` lines (C14). The model handler takes the HH:mm bounds of the text and
    JSON parsers as arguments (regenerated facts); the spec handler judges by the property:
    an accepted text denotes the in-domain value returned; the canonical text of an in-domain
    value is accepted; every round trip yields an equal value. -/
namespace Uhppote.Driver.Text
open Uhppote Uhppote.Model Uhppote.Model.Text Uhppote.Driver.Wire

def chars (h : String) : Option (List Char) :=
  (fromHex h).map fun bs => bs.map fun b => Char.ofNat b.toNat

def hexOf (cs : List Char) : String := showHex (cs.map fun c => UInt8.ofNat c.toNat)

/-- the harness prints the zero date as 0; in UTC (this stream) 0001-01-01 IS the zero instant -/
def showYMDo : Option YMD → String
  | none => "0"
  | some d => if d.y = 1 ∧ d.m = 1 ∧ d.d = 1 then "0" else s!"{d.y}-{d.m}-{d.d}"

def model (textB jsonB : HHmmBounds) : List String → Option String
  | ["text", kind, h] => do
    let s ← chars h
    if s.any (fun c => c.toNat ≥ 128) then some "unspecified" else
    match kind with
    | "date-parse" => some (match parseDate s with | some d => s!"ok {showYMDo (some d)}" | none => "err")
    | "date-json" => some (match dateFromJSON s with | some d => s!"ok {showYMDo d}" | none => "err")
    | "hhmm-parse" => some (match parseHHmm textB s with | some t => s!"ok {t.h},{t.m}" | none => "err")
    | "hhmm-json" => some (match parseHHmm jsonB s with | some t => s!"ok {t.h},{t.m}" | none => "err")
    | "pin-json" => some (match pinFromJSON s with | some n => s!"ok {n}" | none => "err")
    | "cs-json" => some (match controlStateFromJSON s with | some n => s!"ok {n}" | none => "err")
    | "task-tsv" | "task-json-raw" => some (match taskTypeFromText s with | some n => s!"ok {n}" | none => "err")
    | "version-json" => some (match versionFromJSON s with | some n => s!"ok {n}" | none => "err")
    | "systime-parse" => some (match parseSystemTime s with | some t => s!"ok {t.h}-{t.m}-{t.s}" | none => "err")
    | "cardformat-parse" => some (match cardFormatFromString s with | some n => s!"ok {n}" | none => "err")
    | "weekdays-json" => some ("ok " ++ String.join ((weekdaysFromJSON s).map fun b => if b then "1" else "0"))
    | _ => none
  | ["fmt", "weekdays-json", bits] => some ("text " ++ hexOf (weekdaysJSON (bits.toList.map (· == '1'))))
  | ["fmt", "weekdays-string", bits] => some ("text " ++ hexOf (weekdaysString (bits.toList.map (· == '1'))))
  | ["fmt", kind, v] => do
    let v ← parseVal v
    let t : Option (List Char) := match kind, v with
      | "date-string", .date d | "date-json", .date d => some (dateString d)
      | "hhmm-string", .hhmm t | "hhmm-json", .hhmm t => some (hhmmString t)
      | "pin-json", .u32 p => some (pinJSON p)
      | "version-json", .u16 x => some (versionJSON x)
      | "systime-string", .sysTime t => some (systemTimeString t)
      | "cs-json", .u8 x | "cs-string", .u8 x => some (controlStateString x.toNat)
      | "task-json", .u8 x => some (taskTypeString x.toNat)
      | "cardformat-string", .u8 x => some (cardFormatString x.toNat)
      | _, _ => none
    t.map fun t => "text " ++ hexOf t
  | "rt" :: _ => some "same"
  | ["fresh", _] => some "ok"     -- the first call of a process behaves like any other
  | ["jsonkey", _, _, _] => some "returned"   -- accepted or rejected: decoding comes back
  | ["taskobj", f, t] =>
    -- both dates are required: given or "" (no date) is accepted, null or left out is rejected
    let given := fun (x : String) => x = "valid" ∨ x = "empty"
    some (if given f ∧ given t then "ok" else "err")
  | _ => none

/-- maximal digit runs of a text, as numbers -/
def groups (s : List Char) : List Nat :=
  let rec go (s : List Char) (cur : Option Nat) (acc : List Nat) : List Nat :=
    match s with
    | [] => (match cur with | some n => (n :: acc).reverse | none => acc.reverse)
    | c :: r =>
      if isDig c then go r (some ((cur.getD 0) * 10 + dval c)) acc
      else match cur with
        | some n => go r none (n :: acc)
        | none => go r none acc
  go s none []

def specB : HHmmBounds := ⟨24, 59, true⟩

/-- the canonical text of an in-domain value, if `s` is one -/
def canonicalOf (kind : String) (s : List Char) : Option String :=
  match kind with
  | "date-parse" => (parseDate s).bind fun d => if s = formatDate d then some s!"ok {showYMDo (some d)}" else none
  | "date-json" => (dateFromJSON s).bind fun d => if s = dateString d then some s!"ok {showYMDo d}" else none
  | "hhmm-parse" | "hhmm-json" => (parseHHmm specB s).map fun t => s!"ok {t.h},{t.m}"
  | "pin-json" => (pinFromJSON s).bind fun n => if s = pinJSON n then some s!"ok {n}" else none
  | "cs-json" => (controlStateFromJSON s).map fun n => s!"ok {n}"
  | "version-json" => (versionFromJSON s).bind fun n => if s = versionJSON n then some s!"ok {n}" else none
  | "systime-parse" => (parseSystemTime s).bind fun t => if s = systemTimeString t then some s!"ok {t.h}-{t.m}-{t.s}" else none
  | "weekdays-json" =>
    -- canonical: the names of a set of days, Monday first, comma-joined
    let names := (splitComma s).map String.ofList
    let flags := dayNames.map fun n => names.contains n
    if s = weekdaysJSON flags then some ("ok " ++ String.join (flags.map fun b => if b then "1" else "0")) else none
  | _ => none

def spec : List String → List String → Option String
  | ["text", kind, h], impl => do
    let s ← chars h
    if s.any (fun c => c.toNat ≥ 128) then some "unspecified" else
    if (kind = "date-parse" ∨ kind = "date-json") ∧ groups s = [1, 1, 1] then some "unspecified" else   -- 0001-01-01 is outside the date domain
    match canonicalOf kind s with
    | some e => some (Driver.expect e impl)          -- canonical text of an in-domain value: accepted as that value
    | none =>
      match impl with
      | ["err"] => some "ok"
      | ["ok", v] =>
        -- accepted although not canonical: the value must be in its domain and be the one the text names
        let g := groups s
        let okv : Bool := match kind with
          | "date-parse" | "date-json" =>
            if v = "0" then s.isEmpty && kind = "date-json"
            else (match (v.splitOn "-").mapM String.toNat? with
              | some [y, m, d] => g = [y, m, d] && validYMD y m d
              | _ => false)
          | "hhmm-parse" | "hhmm-json" =>
            (match (v.splitOn ",").mapM String.toNat? with
             | some [hh, mm] => g = [hh, mm] && hh ≤ 24 && mm ≤ 59 && (hh != 24 || mm == 0)
             | _ => false)
          | "pin-json" =>   -- "PINs longer than six digits" are rejected, whatever number they spell
            (match v.toNat? with | some n => n ≤ 999999 && (s.filter Char.isDigit).length ≤ 6 && (g = [n] || (s.isEmpty && n = 0)) | none => false)
          | "cs-json" => false                                   -- only the three names are control states
          | "task-tsv" | "task-json-raw" =>
            (match v.toNat? with
             | some n => n < 13 && (g = [n + 1] || clean s = clean (taskTypeString n))
             | none => false)
          | "version-json" => (match v.toNat? with | some n => n < 65536 | none => false)
          | "systime-parse" =>
            (match (v.splitOn "-").mapM String.toNat? with
             | some [hh, mm, ss] => g.take 3 = [hh, mm, ss] && hh < 24 && mm < 60 && ss < 60
             | _ => false)
          | "weekdays-json" =>
            -- non-canonical text: a day may be set only if its name is one of the comma-separated tokens
            let toks := (splitComma s).map fun t => t.map lower
            v.length = 7 && ((dayNames.zip v.toList).all fun p => p.2 = '0' || toks.contains (p.1.toList.map lower))
          | "cardformat-parse" =>
            (match v.toNat? with
             | some 0 => hasFactor "any".toList (s.map lower)
             | some 1 => hasFactor "wiegand".toList (s.map lower) && hasFactor "26".toList s
             | _ => false)
          | _ => false
        some (Driver.verdict okv "text outside the domain is rejected, never turned into a different value")
      | _ => some "bad never a panic"
  | ["fmt", "weekdays-json", bits], impl =>
    some (Driver.expect ("text " ++ hexOf (joinComma ((dayNames.zip (bits.toList.map (· == '1'))).filterMap fun p => if p.2 then some p.1.toList else none))) impl)
  | ["fmt", "weekdays-string", _], _ => some "unspecified"
  | ["fmt", kind, v], impl => do
    let v ← parseVal v
    match impl with
    | ["text", h] =>
      let s ← chars h
      let g := groups s
      let okv : Bool := match kind, v with
        | "date-string", .date none | "date-json", .date none => s.isEmpty
        | "date-string", .date (some d) | "date-json", .date (some d) => g = [d.y, d.m, d.d]
        | "hhmm-string", .hhmm t | "hhmm-json", .hhmm t => g = [t.h.toNat, t.m.toNat]
        | "pin-json", .u32 p => if p = 0 ∨ p > 999999 then s.isEmpty else g = [p]
        | "systime-string", .sysTime t => g = [t.h, t.m, t.s]
        | _, _ => true
      some (Driver.verdict okv "the text names the value")
    | _ => some "bad formatting yields text"
  | "rt" :: _, impl => some (Driver.expect "same" impl)
  | ["fresh", _], impl => some (Driver.expect "ok" impl)
  | ["jsonkey", _, _, _], impl => some (Driver.expect "returned" impl)
  | ["taskobj", f, t], impl =>
    let given := fun (x : String) => x = "valid" ∨ x = "empty"
    some (Driver.expect (if given f ∧ given t then "ok" else "err") impl)
  | _, _ => none

end Uhppote.Driver.Text
