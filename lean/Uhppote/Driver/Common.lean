import Uhppote.Basic.Hex
/-! Line-protocol plumbing shared by the two executables (`modeldrv`, `oracle`). -/
namespace Uhppote.Driver

def fmtOptBytes : Option Bytes → String
  | some b => "ok " ++ showHex b
  | none => "err"

def tokens (line : String) : List String :=
  (line.splitOn " ").filter (· ≠ "")

partial def loop (h : IO.FS.Stream) (out : IO.FS.Stream) (handle : List String → String) : IO Unit := do
  let line ← h.getLine
  if line.isEmpty then
    out.flush
    return ()
  let l := String.ofList (line.toList.filter (fun c => c != '\n' && c != '\r'))
  out.putStrLn (handle (tokens l))
  loop h out handle

end Uhppote.Driver
