import Uhppote.Driver.SpecCommon
/-! `insulate` lines (C17): the specification is "unchanged" for every scenario. -/
namespace Uhppote.Driver.Insulate
def spec : List String → List String → Option String
  | "insulate" :: _, impl => some (Uhppote.Driver.expect "unchanged" impl)
  | _, _ => none
end Uhppote.Driver.Insulate
