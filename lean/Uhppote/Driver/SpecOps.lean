import Uhppote.Driver.SpecCommon
import Uhppote.Driver.OpWire
import Uhppote.Spec.Api
namespace Uhppote.Driver.SpecOps
open Uhppote Uhppote.Model Uhppote.Model.Api Uhppote.Driver.OpWire Uhppote.Spec.Api Uhppote.Spec.Codec

/-- read every named field of the reply; returns (first-candidate fields, last-candidate fields,
    anyInvalid, anyMustFail) -/
def readReply (L : Layout) (d : Bytes) : Fields × Fields × Bool × Bool :=
  (L.names.zip L.leaves).foldl (fun (f1, f2, inv, mf) (n, l) =>
    match readLeaf d l with
    | .exact v => (f1 ++ [(n, v)], f2 ++ [(n, v)], inv, mf)
    | .noValue vs => (f1 ++ [(n, vs.head?.getD .none_)], f2 ++ [(n, vs.getLast?.getD .none_)], inv, mf)
    | .invalid [] => (f1, f2, inv, true)          -- malformed (a bool that is neither 0 nor 1, a date that is not digits)
    | .invalid zs => (f1 ++ [(n, zs.head?.getD .none_)], f2 ++ [(n, zs.getLast?.getD .none_)], true, mf)
    | .mustFail => (f1, f2, inv, true)) ([], [], false, false)

def deviceExtras (cfg : Cfg) (serial : Nat) (fs : Fields) : List String :=
  let c := cfg.controllers.find? (·.serial == serial)
  let name := match c with | some c => (if c.name = "" then "-" else c.name) | none => "-"
  let port0 := if cfg.broadcastValid then cfg.broadcastPort else 60000
  let port := match c with | some c => if c.addrValid then c.port else port0 | none => port0
  match get fs "IpAddress" with
  | .ip bs => (match bs.drop 12 with
    | [a, b, c, d] => [name, s!"{a.toNat}.{b.toNat}.{c.toNat}.{d.toNat}:{port}"]
    | _ => [name, "invalid"])
  | _ => [name, "invalid"]

def judge (l : OpLine) (calls : List Call) (res : Res) (extras : List String) : List String :=
  match Spec.Api.findOp l.name with
  | none => ["?? unknown operation"]
  | some op =>
    if op.rejects l.args then
      (if calls.isEmpty ∧ res == .err then [] else ["C07 the call must be rejected with nothing sent"])
    else
      let serial := n32 (a l.args 0)
      -- "a call is rejected only for these reasons": also when some argument is outside the domain in which C01
      -- fixes the request bytes (a year above 9999, say), nothing but the listed rules may reject the call
      if calls.isEmpty then
        (if res == .err then ["C07 none of the rejection rules applies: the call must not be rejected",
                               "C01 a call that no rule rejects sends exactly one request: none left"]
         else ["C01 exactly one request leaves for a call that is not rejected", "C03 the call reported a result although nothing was sent and no datagram was consumed",
               "C06 exactly one request"]) else
      match requestImage op l.args with
      | none => []                                  -- some argument outside its domain: the bytes are unconstrained
      | some img =>
        if calls.isEmpty then ["C07 the arguments are valid: the call must not be rejected"]
        else
          let c01 := if calls.length = 1 ∧ (calls.map (·.payload)) = [img] then []
            else [s!"C01 exactly one request with payload {showHex img}"]
          let (path, ep) := Spec.Api.route l.cfg serial
          let c06 := match calls with
            | [c] => if c.path = path ∧ c.endpoint = ep then [] else [s!"C06 {path} to {ep}"]
            | _ => ["C06 exactly one request"]
          let c0203 : List String :=
            match Spec.Api.decide path op.code serial l.arrivals with
            | .none_ => if res == op.interpret l.args [] then [] else ["C03 success without consuming a datagram"]
            | .timeout => if res == .err then [] else ["C03 nothing acceptable arrived: the call must fail"]
            | .fail => if res == .err then [] else ["C03 the deciding datagram is not a well-formed reply of this controller: the call must fail"]
            | .read d =>
              match op.reply.bind (fun n => Spec.Protocol.all.lookup n) with
              | none => []
              | some R =>
                let (f1, f2, inv, mf) := readReply R d
                let r1 := op.interpret l.args f1
                let r2 := op.interpret l.args f2
                if mf then (if res == .err then [] else ["C02 a fixed value does not match or a field is malformed: the call must fail", "C03 the deciding datagram has a malformed field: the call must fail"])
                else if res == r1 ∨ res == r2 ∨ (inv ∧ res == .err) then
                  (if op.name = "GetDevice" ∧ res != .err ∧ extras ≠ deviceExtras l.cfg serial f1
                   then [s!"C02 device name/address {deviceExtras l.cfg serial f1}"] else [])
                else [s!"C02 result {showRes r1}" ++ (if inv then " (or an error: a field is out of its domain)" else "")]
          -- which passcodes go out (the first four, 0 for those above 999999) is part of C07's statement too
          let c07 := if op.name = "SetDoorPasscodes" ∧ !c01.isEmpty
            then ["C07 SetDoorPasscodes sends the first four passcodes, 0 for those above 999999 or missing"] else []
          c01 ++ c07 ++ c06 ++ c0203

def handle : List String → List String → Option String
  | "op" :: r, impl => do
    let l ← parseOpLine "255.255.255.255:60000" r
    match impl with
    | ["panic"] => some "bad C04 the call panicked"
    | ["mutated-argument"] => some "bad C17 the operation modified a map argument it was given"
    | _ =>
      let (calls, res, extras) ← parseOutcome impl
      -- `… ; mutated-argument`: the call went through AND wrote to storage the caller passed in
      let mutated := extras.contains "mutated-argument"
      let extras := extras.filter (· ≠ "mutated-argument")
      let bad := judge l calls res extras ++
        (if mutated then ["C17 the operation modified a slice or map argument it was given"] else [])
      some (if bad.isEmpty then "ok" else "bad " ++ " | ".intercalate bad)
  | ["op-shared", _, calls], impl =>
    some (if impl = [s!"returned={((calls.splitOn "=").getD 1 "")}"] then "ok" else "bad C04 every call on a client shared by several goroutines returns | C08 concurrent use of one client")
  | ["w26", n], impl => n.toNat?.map fun n => Driver.expect (if wiegand26 n then "1" else "0") impl
  | _, _ => none

end Uhppote.Driver.SpecOps
