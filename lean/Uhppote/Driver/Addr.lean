import Uhppote.Driver.SpecCommon
import Uhppote.Model.Addr
/-! `addr-parse` / `addr-format` lines. The model handler takes the roles as an argument (the
    model driver passes the regenerated ones, the oracle the property's own table). -/
namespace Uhppote.Driver.Addr
open Uhppote Uhppote.Model.Addr

structure Roles where
  bind : Role × Option Nat
  broadcast : Role × Option Nat
  listen : Role × Option Nat
  controller : Role × Option Nat

def Roles.get (rs : Roles) : String → Option (Role × Option Nat)
  | "bind" => some rs.bind
  | "broadcast" => some rs.broadcast
  | "listen" => some rs.listen
  | "controller" => some rs.controller
  | _ => none

/-- the property's table: default ports 0 / 60000 / - / 60000; bind ≠ 60000, listen ∉ {0, 60000},
    broadcast and controller ≠ 0; the text omits the default port -/
def specRoles : Roles :=
  { bind := (⟨true, [60000], 0⟩, some 0), broadcast := (⟨true, [0], 60000⟩, some 60000),
    listen := (⟨false, [0, 60000], 0⟩, none), controller := (⟨true, [0], 60000⟩, some 60000) }

def textOf (h : String) : Option (List Char) :=
  (fromHex h).map fun bs => bs.map fun b => Char.ofNat b.toNat

def hexOf (cs : List Char) : String := showHex (cs.map fun c => UInt8.ofNat c.toNat)

def showR : R (Nat × Nat × Nat × Nat × Nat) → String
  | .ok (a, b, c, d, p) => s!"ok {a}.{b}.{c}.{d}:{p}"
  | .err => "err"
  | .unspecified => "unspecified"

def eval (rs : Roles) : List String → Option String
  | ["addr-parse", role, h] => do
    let (ro, _) ← rs.get role
    let s ← textOf h
    -- bytes ≥ 0x80 are not modelled as text
    if s.any (fun c => c.toNat ≥ 128) then some "unspecified" else some (showR (parse ro s))
  | ["addr-json", role, h] => do        -- the quoted text through UnmarshalJSON: the same parser, the same port rule
    let (ro, _) ← rs.get role
    let s ← textOf h
    if s.any (fun c => c.toNat ≥ 128) then some "unspecified" else some (showR (parse ro s))
  | ["addr-set", role, _prev, h] => do   -- Set: the parser, then the role's IsValid (controller and listen: port ≠ 0)
    let (ro, _) ← rs.get role
    let s ← textOf h
    if s.any (fun c => c.toNat ≥ 128) then some "unspecified" else
    some (showR (match parse ro s with
      | .ok (a, b, c, d, p) => if (role = "controller" ∨ role = "listen") ∧ p = 0 then .err else .ok (a, b, c, d, p)
      | x => x))
  | ["addr-format", role, a, b, c, d, p] => do
    let (_, om) ← rs.get role
    let [a, b, c, d, p] ← [a, b, c, d, p].mapM String.toNat? | none
    some ("text " ++ hexOf (format om a b c d p))
  | ["addr-kept", _] => some "same"     -- a text handed out is a value: it does not change when another address is formatted
  | _ => none

def spec (c impl : List String) : Option String :=
  (eval specRoles c).map fun e =>
    if e = "unspecified" then "unspecified" else Driver.expect e impl

end Uhppote.Driver.Addr
