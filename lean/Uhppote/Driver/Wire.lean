import Uhppote.Driver.Common
import Uhppote.Model.Codec
/-! Token syntax of layouts and values on `marshal` / `unmarshal` lines (shared by both drivers). -/
namespace Uhppote.Driver.Wire
open Uhppote Uhppote.Model

def kindNames : List (String × Kind) :=
  [("u8", .u8), ("u16", .u16), ("u32", .u32), ("bool", .bool), ("ipv4", .ipv4), ("addrport", .addrPort),
   ("mac", .mac), ("serial", .serial), ("date", .date), ("dateptr", .datePtr), ("datetime", .dateTime),
   ("datetimeptr", .dateTimePtr), ("sysdate", .sysDate), ("systime", .sysTime), ("hhmm", .hhmm),
   ("hhmmptr", .hhmmPtr), ("pin", .pin), ("version", .version), ("macaddress", .macAddress)]

/-- `som` `som=0x19` `msg` `msg=0x50` `skip` `u8@8` `u8@8=0x55` … -/
def parseLeaf (t : String) : Option Leaf :=
  let (body, tag) : String × Option String :=
    match t.splitOn "=" with
    | [b] => (b, none)
    | [b, v] => (b, some v)
    | _ => (t, none)
  if body = "som" then some (.som tag)
  else if body = "msg" then some (.msgType tag)
  else if body = "skip" then some .skip
  else match body.splitOn "@" with
    | [k, o] => do
      let kind ← kindNames.lookup k
      let off ← o.toNat?
      some (.at off kind tag)
    | _ => none

/-- layout tokens up to `|`; `[` … `]` delimit one embedded struct -/
def parseLayout : List String → Option (Layout × List String)
  | ts =>
    let rec go (ts : List String) (acc : List Field) (inner : Option (List (String × Leaf))) (fuel : Nat) :
        Option (Layout × List String) :=
      match fuel with
      | 0 => none
      | fuel + 1 =>
        match ts with
        | [] => none
        | "|" :: rest => if inner.isSome then none else some (acc.reverse, rest)
        | "[" :: rest => if inner.isSome then none else go rest acc (some []) fuel
        | "]" :: rest =>
          (match inner with
           | some ls => go rest (Field.embed "E" ls.reverse :: acc) none fuel
           | none => none)
        | t :: rest =>
          match parseLeaf t with
          | none => none
          | some l =>
            match inner with
            | some ls => go rest acc (some (("f", l) :: ls)) fuel
            | none => go rest (Field.leaf "f" l :: acc) none fuel
    go ts [] none (ts.length + 1)

def dashNats (s : String) : Option (List Nat) := (s.splitOn "-").mapM String.toNat?

def ymd? (s : String) : Option YMD :=
  match dashNats s with
  | some [y, m, d] => some ⟨y, m, d⟩
  | _ => none

def dt? (s : String) : Option YMDHMS :=
  match dashNats s with
  | some [y, mo, d, h, mi, sec] => some ⟨y, mo, d, h, mi, sec⟩
  | _ => none

def hms? (s : String) : Option HMS :=
  match dashNats s with
  | some [h, m, sec] => some ⟨h, m, sec⟩
  | _ => none

def hm? (s : String) : Option HM :=
  match (s.splitOn ",").mapM String.toInt? with
  | some [h, m] => some ⟨h, m⟩
  | _ => none

def parseVal (t : String) : Option Val :=
  match t.splitOn ":" with
  | ["none"] => some .none_
  | ["u8", n] => n.toNat?.map fun n => .u8 (UInt8.ofNat n)
  | ["u16", n] => n.toNat?.map .u16
  | ["u32", n] => n.toNat?.map .u32
  | ["bool", n] => some (.bool (n = "1"))
  | ["ip", h] => (fromHex h).map .ip
  | ["mac", h] => (fromHex h).map .mac
  | ["ap", "other"] => some (.addrPort .other)
  | ["ap", h, p] => do
    let [a, b, c, d] ← fromHex h | none
    let p ← p.toNat?
    some (.addrPort (.v4 a b c d p))
  | ["date", "0"] => some (.date none)
  | ["date", s] => (ymd? s).map fun d => .date (some d)
  | ["dateptr", "nil"] => some (.datePtr none)
  | ["dateptr", "0"] => some (.datePtr (some none))
  | ["dateptr", s] => (ymd? s).map fun d => .datePtr (some (some d))
  | ["dt", "0"] => some (.dateTime none)
  | ["dt", s] => (dt? s).map fun d => .dateTime (some d)
  | ["dtptr", "nil"] => some (.dateTimePtr none)
  | ["dtptr", "0"] => some (.dateTimePtr (some none))
  | ["dtptr", s] => (dt? s).map fun d => .dateTimePtr (some (some d))
  | ["sd", "0"] => some (.sysDate none)
  | ["sd", s] => (ymd? s).map fun d => .sysDate (some d)
  | ["st", s] => (hms? s).map .sysTime
  | ["hm", s] => (hm? s).map .hhmm
  | ["hmptr", "nil"] => some (.hhmmPtr none)
  | ["hmptr", s] => (hm? s).map fun t => .hhmmPtr (some t)
  | _ => none

def showYMD (d : YMD) : String := s!"{d.y}-{d.m}-{d.d}"
def showDT (d : YMDHMS) : String := s!"{d.y}-{d.mo}-{d.d}-{d.h}-{d.mi}-{d.s}"

def showVal : Val → String
  | .none_ => "none"
  | .u8 v => s!"u8:{v.toNat}"
  | .u16 v => s!"u16:{v}"
  | .u32 v => s!"u32:{v}"
  | .bool b => if b then "bool:1" else "bool:0"
  | .ip bs => "ip:" ++ showHex bs
  | .mac bs => "mac:" ++ showHex bs
  | .addrPort .other => "ap:other"
  | .addrPort (.v4 a b c d p) => s!"ap:{toHex [a, b, c, d]}:{p}"
  | .date none => "date:0"
  | .date (some d) => "date:" ++ showYMD d
  | .datePtr none => "dateptr:nil"
  | .datePtr (some none) => "dateptr:0"
  | .datePtr (some (some d)) => "dateptr:" ++ showYMD d
  | .dateTime none => "dt:0"
  | .dateTime (some d) => "dt:" ++ showDT d
  | .dateTimePtr none => "dtptr:nil"
  | .dateTimePtr (some none) => "dtptr:0"
  | .dateTimePtr (some (some d)) => "dtptr:" ++ showDT d
  | .sysDate none => "sd:0"
  | .sysDate (some d) => "sd:" ++ showYMD d
  | .sysTime t => s!"st:{t.h}-{t.m}-{t.s}"
  | .hhmm t => s!"hm:{t.h},{t.m}"
  | .hhmmPtr none => "hmptr:nil"
  | .hhmmPtr (some t) => s!"hmptr:{t.h},{t.m}"

def showVals (vs : List Val) : String := " ".intercalate (vs.map showVal)

def showOutcomeBytes : Outcome Bytes → String
  | .ok b => "ok " ++ showHex b
  | .err => "err"
  | .panic => "panic"

def showOutcomeVals : Outcome (List Val) → String
  | .ok vs => if vs.isEmpty then "ok" else "ok " ++ showVals vs
  | .err => "err"
  | .panic => "panic"

end Uhppote.Driver.Wire
