import Uhppote.Driver.OpWire
import Uhppote.Driver.ModelCodec
import Uhppote.Gen.Routing
import Uhppote.Gen.Ops
namespace Uhppote.Driver.ModelOps
open Uhppote Uhppote.Model Uhppote.Model.Api Uhppote.Driver.OpWire

def defaultBc : String := s!"{Gen.Routing.defaultBroadcastIP}:{Gen.Routing.defaultBroadcastPort}"

def layouts (n : String) : Option Layout := Gen.Messages.all.lookup n

def handle : List String → Option String
  | "op" :: r => do
    let l ← parseOpLine defaultBc r
    let op ← Gen.Ops.findOp l.name
    let (o, extras) := call Gen.codecFacts Driver.ModelCodec.T Driver.ModelCodec.wireBounds layouts 0x96 l.cfg op l.args l.arrivals
    some (showOutcome o.calls o.res extras)
  | ["op-shared", _, calls] => some s!"returned={((calls.splitOn "=").getD 1 "")}"
  | ["w26", n] => n.toNat?.map fun n => if Gen.Ops.isWiegand26 n then "1" else "0"
  | _ => none

end Uhppote.Driver.ModelOps
