import Uhppote.Driver.OpWire
import Uhppote.Driver.ModelCodec
import Uhppote.Gen.Routing
namespace Uhppote.Driver.ModelOps
open Uhppote Uhppote.Model Uhppote.Model.Api Uhppote.Driver.OpWire

def defaultBc : String := s!"{Gen.Routing.defaultBroadcastIP}:{Gen.Routing.defaultBroadcastPort}"

def layouts (n : String) : Option Layout := Gen.Messages.all.lookup n

def handle : List String → Option String
  | "op" :: r => do
    let l ← parseOpLine defaultBc r
    let op ← findOp l.name
    let (o, extras) := call Gen.codecFacts Driver.ModelCodec.T Driver.ModelCodec.wireBounds layouts 0x96 l.cfg op l.args l.arrivals
    some (showOutcome o.calls o.res extras)
  | ["w26", n] => n.toNat?.map fun n => if isWiegand26 n then "1" else "0"
  | _ => none

end Uhppote.Driver.ModelOps
