import Uhppote.Driver.Zones
import Uhppote.Gen.Types
namespace Uhppote.Driver.ModelZones
open Uhppote

def facts : Driver.Zones.Facts :=
  { dateMode := match (Gen.Types.dateSites.map (·.2)).eraseDups with
      | [m] => m
      | _ => "mixed",
    zeroSentinel0001 := Gen.Types.dateTimeZeroPatterns.contains "[]byte{0x00,0x01,0x01,0x01,0,0,0}" }

def handle (ts : List String) : Option String := Driver.Zones.model facts ts

end Uhppote.Driver.ModelZones
