import Uhppote.Driver.Common
namespace Uhppote.Driver

/-- verdict of the oracle for one observation -/
def expect (expected : String) (impl : List String) : String :=
  if " ".intercalate impl = expected then "ok" else "bad expected: " ++ expected

def verdict (b : Bool) (why : String) : String := if b then "ok" else "bad " ++ why

/-- split `case tokens => impl tokens` -/
def splitObs (ts : List String) : List String × List String :=
  (ts.takeWhile (· ≠ "=>"), (ts.dropWhile (· ≠ "=>")).drop 1)

end Uhppote.Driver
