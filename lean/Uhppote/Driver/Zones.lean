import Uhppote.Driver.SpecCommon
import Uhppote.Model.Time
/-! `zdate` / `zdt` / `zzero` lines (C13): the model handler is parametrised by how the date sites
    construct their instant and by the zero patterns of the DateTime decoder (regenerated facts,
    passed in by the model driver); the spec handler knows only zones and the calendar. -/
namespace Uhppote.Driver.Zones
open Uhppote Uhppote.Model.Time

/-- `z=<init>;<T>:<off>;…` -/
def parseZone (s : String) : Option ZoneData :=
  match (s.splitOn ";") with
  | first :: rest =>
    (match first.splitOn "=" with
     | ["z", i] => do
       let init ← i.toInt?
       let trs ← rest.mapM fun t => match t.splitOn ":" with
         | [a, b] => do let x ← a.toInt?; let y ← b.toInt?; some (x, y)
         | _ => none
       some ⟨init, trs⟩
     | _ => none)
  | _ => none

def showFields (u : Int) (c : Int) : String :=
  let (y, m, d, h, mi, s) := fieldsOf c
  s!"{u} {y}-{m}-{d}-{h}-{mi}-{s}"

def pad (n : Int) (w : Nat) : String :=
  let s := toString n.toNat
  String.ofList (List.replicate (w - s.length) '0') ++ s

structure Facts where
  dateMode : String             -- "startOfDay" | "local-midnight" | other (all five sites agree)
  zeroSentinel0001 : Bool       -- does the DateTime decoder map 0001-01-01 00:00:00 to the zero value?

def zeroInstant : Int := -62135596800

def dateInstant (F : Facts) (z : Zone) (y m d : Int) : Option Int :=
  let mid := civilSeconds y m d 0 0 0
  if F.dateMode = "startOfDay" then some (startOfDay z mid)
  else if F.dateMode = "local-midnight" then some (naiveDate z mid)
  else none

def model (F : Facts) : List String → Option String
  | ["zdate", _, zs, "|", y, m, d] => do
    let zd ← parseZone zs
    let [y, m, d] ← [y, m, d].mapM String.toInt? | none
    let z := zd.zone
    match dateInstant F z y m d with
    | none => some "unspecified"
    | some u =>
      let c := civil z u
      let (fy, fm, fd, _, _, _) := fieldsOf c
      let sfx := if (fy, fm, fd) = (y, m, d) then ""
        else s!" ENCODES:{pad fy 4}{pad fm 2}{pad fd 2} STRING:{pad fy 4}-{pad fm 2}-{pad fd 2}"
      some (showFields u c ++ sfx)
  | ["zdisc", _, "|", y, m, d] => some s!"{y} {m} {d}"   -- discovery lists the reply's date, in every zone
  | ["zorder", _, "|", _, _, _, "|", _, _, _] => some "ordered"   -- a day is before the day after it, in every zone
  | ["zdt", _, zs, "|", y, mo, d, h, mi, s] => do
    let zd ← parseZone zs
    let [y, mo, d, h, mi, s] ← [y, mo, d, h, mi, s].mapM String.toInt? | none
    let z := zd.zone
    if F.zeroSentinel0001 ∧ (y, mo, d, h, mi, s) = (1, 1, 1, 0, 0, 0) then some "zero" else
    let u := goDate z (civilSeconds y mo d h mi s)
    if u = zeroInstant then some "zero" else
    let res := showFields u (civil z u)
    -- status recombination: the system date goes through the date constructor, its civil date is
    -- formatted, joined with the time and parsed in the local zone again
    if 1969 ≤ y ∧ y ≤ 2068 then
      match dateInstant F z y mo d with
      | none => some "unspecified"
      | some ud =>
        let (fy, fm, fd, _, _, _) := fieldsOf (civil z ud)
        let us := goDate z (civilSeconds fy fm fd h mi s)
        -- the listener combines the two the same way
        some (if us = u then res else res ++ " STATUS:" ++ showFields us (civil z us) ++ " LISTEN:" ++ showFields us (civil z us))
    else some res
  | ["zzero", _, lmt] => do
    let lmt ← lmt.toInt?
    some ((if F.zeroSentinel0001 ∨ lmt = 0 then "zero" else "nonzero") ++ " zero")
  | _ => none

/-- is there an instant whose clock shows a time on the civil day of `mid`? (sampled every
    30 minutes - zone offsets are multiples of 15 minutes in the data) -/
def dayExists (zd : ZoneData) (mid : Int) : Bool :=
  (List.range 48).any fun k => zd.exists_ (mid + 1800 * k)

def spec : List String → List String → Option String
  | ["zdate", _, zs, "|", y, m, d], impl => do
    let zd ← parseZone zs
    let [y, m, d] ← [y, m, d].mapM String.toInt? | none
    if !dayExists zd (civilSeconds y m d 0 0 0) then some "unspecified"    -- the zone skipped the whole day
    else match impl with
      | [_, f] =>
        (match f.splitOn "-" with
         | [fy, fm, fd, _, _, _] =>
           some (Driver.verdict (fy.toInt? = some y ∧ fm.toInt? = some m ∧ fd.toInt? = some d)
             s!"the date reports year {y}, month {m}, day {d}")
         | _ => some "bad unreadable")
      | _ => some s!"bad every way of making the date {y}-{m}-{d} agrees, reports exactly these fields and encodes back to the same digits"
  | ["zdisc", _, "|", y, m, d], impl => some (Driver.expect s!"{y} {m} {d}" impl)
  | ["zorder", _, "|", _, _, _, "|", _, _, _], impl => some (Driver.expect "ordered" impl)
  | ["zdt", _, zs, "|", y, mo, d, h, mi, s], impl => do
    let zd ← parseZone zs
    let [y, mo, d, h, mi, s] ← [y, mo, d, h, mi, s].mapM String.toInt? | none
    let c := civilSeconds y mo d h mi s
    if (y, mo, d, h, mi, s) = (1, 1, 1, 0, 0, 0) then some (Driver.expect "zero" impl)
    else if !zd.exists_ c then some "unspecified"     -- this civil time does not exist in the zone
    else match impl with
      | [_, f] => some (Driver.verdict (f = s!"{y}-{mo}-{d}-{h}-{mi}-{s}") s!"the date-time reports {y}-{mo}-{d} {h}:{mi}:{s}")
      | _ => some "bad the date-time (and the status system date-time) report exactly the transmitted civil time"
  | ["zzero", _, _], impl => some (Driver.expect "zero zero" impl)
  | _, _ => none

end Uhppote.Driver.Zones
