import Uhppote.Driver.SpecCommon
import Uhppote.Model.Order
import Uhppote.Spec.Order
/-! order stream: `date-cmp`, `hhmm-cmp`, `dt-before`, `segment` — the specification's handler (the model's is Driver/OrderModel.lean). -/
namespace Uhppote.Driver.Order
open Uhppote Uhppote.Model.Order Uhppote.Spec.Order

def ints (ts : List String) : Option (List Int) := ts.mapM String.toInt?

def b01 (b : Bool) : String := if b then "1" else "0"

def specF : List String → Option String
  | "date-cmp" :: r => do
    let [y1, m1, d1, y2, m2, d2] ← ints (r.take 6) | none
    let p := (y1, m1, d1); let q := (y2, m2, d2)
    some s!"{b01 (decide (lex3 p q))} {b01 (decide (p = q))} {b01 (decide (lex3 q p))}"
  | "hhmm-cmp" :: r => do
    let [h1, m1, h2, m2] ← ints r | none
    let p := (h1, m1); let q := (h2, m2)
    some s!"{b01 (decide (lex2 p q))} {b01 (decide (p = q))} {b01 (decide (lex2 q p))}"
  | "dt-before" :: r => do
    let [a, b] ← ints r | none
    -- the property speaks about instants from 1970 on
    if a < 0 ∨ b < 0 then some "*" else some (b01 (decide (wholeSeconds a < wholeSeconds b)))
  | "segment" :: r => do
    let [_, h1, m1, h2, m2] ← ints r | none
    some (if decide (lex2 (h2, m2) (h1, m1)) then "reject" else "accept")
  | _ => none

def spec (c impl : List String) : Option String :=
  (specF c).map fun e => if e = "*" then "unspecified" else Driver.expect e impl

end Uhppote.Driver.Order
