/-! Model of the transport driver uhppote/UT0311.go for C08 / C09: the four request methods as
    timed functions over arrival lists, parametrised by the statement-order facts the
    translator regenerates; plus the shared-port event system (no crossed replies) and the
    resource bookkeeping. -/
namespace Uhppote.Model.Driver

/-- what the translator reads off one driver method -/
structure MethodFacts where
  lockWhenFixedPort : Bool          -- `if bind.Port != 0 { guard.Lock() … }` before the socket is opened
  firstDeadlineAfterLock : Bool     -- is `deadline := time.Now().Add(u.timeout)` computed after the lock? (dial deadline)
  socketDeadlineAfterLock : Bool    -- … the deadline that `SetDeadline` gets
  unlockDeferred : Bool             -- `defer guard.Unlock()` right after the lock
  closeDeferredAfterOpen : Bool     -- `defer connection.Close()` right after a successful open, before the write
  writes : Nat                      -- number of write calls
  noReplyCode : Nat                 -- `request[1] == 0x96`: return without reading
  readsInLoop : Bool                -- `for { ReadFromUDP … callback }` vs a single Read
  reads : Nat
  sleepsForTimeout : Bool           -- `time.Sleep(u.timeout)` (Broadcast)
deriving DecidableEq, Repr, Inhabited

end Uhppote.Model.Driver

namespace Uhppote.Model.Driver

/-- the facts the timing / resource theorems need of a request method -/
def MethodFacts.good (F : MethodFacts) : Bool :=
  F.lockWhenFixedPort && F.firstDeadlineAfterLock && F.socketDeadlineAfterLock && F.unlockDeferred &&
  F.closeDeferredAfterOpen && F.writes == 1 && F.noReplyCode == 0x96 && F.reads == 1

inductive Path where | broadcastTo | udp | tcp
deriving DecidableEq, Repr

/-- a datagram as the receive logic sees it -/
structure Arrival where
  t : Nat                 -- milliseconds after the request was sent
  passes : Bool           -- 64 bytes long and carrying the asked serial number (the broadcast filter)
  valid : Bool            -- … and decodes as the operation's reply
deriving DecidableEq, Repr

inductive Special where | none | refused | stall | reset
deriving DecidableEq, Repr

/-- time left for the exchange once the port has been acquired: the whole timeout when the
    deadline is computed after the lock, otherwise what the wait for the lock left of it -/
def budget (F : MethodFacts) (T waited : Nat) : Nat :=
  if F.socketDeadlineAfterLock ∧ F.firstDeadlineAfterLock then T else T - waited

/-- one call, times relative to the moment the bind port was acquired (request sent):
    (accepted?, time of return) -/
def exchange (F : MethodFacts) (path : Path) (T waited : Nat) (special : Special) (arr : List Arrival) : Bool × Nat :=
  let d := budget F T waited
  match special with
  | .refused | .reset => (false, 0)                      -- explicit transport error: fails at once
  | .stall => (false, d)                                 -- connected, never answered: deadline
  | .none =>
    match path with
    | .broadcastTo =>
      (match arr.find? (fun a => a.passes && a.t < d) with
       | some a => (a.valid, a.t)
       | none => (false, d))
    | _ =>
      (match arr.head? with
       | some a => if a.t < d then (a.passes && a.valid, a.t) else (false, d)
       | none => (false, d))

/-! ### resources: sockets and goroutines across a sequence of calls -/

structure Res where
  sockets : Nat
  goroutines : Nat
deriving DecidableEq, Repr

/-- a request call opens one socket and (by `defer connection.Close()` right after the open)
    closes it on every return path; discovery additionally starts one reader goroutine that ends
    when its socket is closed -/
def afterCall (F : MethodFacts) (discovery : Bool) (r : Res) : Res :=
  let leakedSocket := if F.closeDeferredAfterOpen then 0 else 1
  { sockets := r.sockets + leakedSocket,
    goroutines := r.goroutines + (if discovery ∧ ¬ F.closeDeferredAfterOpen then 1 else 0) }

def afterCalls (F : MethodFacts) : List Bool → Res → Res
  | [], r => r
  | d :: ds, r => afterCalls F ds (afterCall F d r)

/-! ### a shared fixed bind port as an event system (C08: replies are never crossed) -/

inductive Ev where
  | acquire (k : Nat)      -- lock granted, socket bound to the shared port, request k sent
  | arrive (j : Nat)       -- the reply to request j reaches the shared port
  | timeout (k : Nat)      -- the deadline of call k fires
deriving DecidableEq, Repr

structure St where
  owner : Option Nat
  inflight : List Nat
  crossed : Bool
  lost : List Nat
deriving Repr

def init : St := ⟨none, [], false, []⟩

/-- the owner of the port accepts the first datagram that reaches it (same controller and function
    code assumed: the worst case for crossing) and releases the port -/
def step (s : St) : Ev → St
  | .acquire k =>
    (match s.owner with
     | none => { s with owner := some k, inflight := k :: s.inflight }
     | some _ => s)
  | .arrive j =>
    if j ∈ s.inflight then
      (match s.owner with
       | some k => { s with owner := none, inflight := s.inflight.erase j, crossed := s.crossed || (k != j) }
       | none => { s with inflight := s.inflight.erase j, lost := j :: s.lost })
    else s
  | .timeout k => if s.owner = some k then { s with owner := none } else s

def run (s : St) (es : List Ev) : St := es.foldl step s

/-- deadlines never fire while the call's own reply is still in flight (what "deadline = lock
    time + T" and "controller answers within δ < T" give) -/
def TimelyTrace : St → List Ev → Prop
  | _, [] => True
  | s, e :: es => (match e with | .timeout k => k ∉ s.inflight | _ => True) ∧ TimelyTrace (step s e) es

/-- one call on the clock: deadline and arrival of its own reply -/
def deadlineOf (F : MethodFacts) (T callTime lockTime : Nat) : Nat :=
  (if F.socketDeadlineAfterLock ∧ F.firstDeadlineAfterLock then lockTime else callTime) + T

/-! ### data races: accesses inside critical sections of one mutex -/

structure Access where
  goroutine : Nat
  isWrite : Bool
  section_ : Option Nat      -- index of the critical section (of THE mutex) the access is in
deriving DecidableEq, Repr

/-- in any execution the critical sections of one mutex are totally ordered by their lock order
    `ord` (a permutation rank); two accesses are ordered by happens-before when they are in the
    same goroutine or in different sections -/
def ordered (a b : Access) : Bool :=
  a.goroutine == b.goroutine ||
  (match a.section_, b.section_ with
   | some x, some y => x != y
   | _, _ => false)

def conflicting (a b : Access) : Bool := a.goroutine != b.goroutine && (a.isWrite || b.isWrite)

def raceFree (as : List Access) : Bool :=
  as.all fun a => as.all fun b => !conflicting a b || ordered a b

end Uhppote.Model.Driver

namespace Uhppote.Model.Driver

/-! ### the request between the driver call and the socket write (C01) -/

/-- syntactic uses of a `[]byte` parameter that cannot change the bytes it holds nor make another
    name for them: passing it to the socket write or the debug dump, `len`, reading one byte -/
def readOnlyUses : List String :=
  ["arg:codec.Dump", "arg:connection.Write", "arg:connection.WriteToUDP", "arg:len", "index-read"]

/-- what the debug dump may do: format through `fmt` into a builder -/
def dumpAllowed : List String := ["call:b.String", "call:fmt.Fprintf", "call:fmt.Fprintln", "call:len"]

/-- the regenerated facts say that none of the four request methods (nor the dump they call before
    the write) writes through the request slice or aliases it -/
def requestUntouched (uses : List (String × List String)) (dump : List String) : Bool :=
  uses.map (·.1) == ["Broadcast", "BroadcastTo", "SendUDP", "SendTCP"] &&
  uses.all (fun u => u.2.all (· ∈ readOnlyUses)) && dump.all (· ∈ dumpAllowed)

/-- the bytes the single socket write of a request method puts on the wire, as far as the model
    knows them: the caller's bytes when the method never touches them, unknown otherwise -/
def onWire (untouched : Bool) (request : List UInt8) : Option (List UInt8) :=
  if untouched then some request else none

end Uhppote.Model.Driver

namespace Uhppote.Model.Driver

/-! ### a TCP connection that takes time to establish (C09) -/

/-- when a TCP call that connected after `connect` ms and was then never answered returns, counted from
    the moment the port was acquired: the one deadline computed then covers dial AND exchange when it is
    the value handed to both; a deadline recomputed after the connect starts a second timeout -/
def tcpStallReturn (singleDeadline : Bool) (T connect : Nat) : Nat :=
  if connect ≥ T then T                       -- the dial itself runs into the deadline
  else if singleDeadline then T else connect + T

end Uhppote.Model.Driver
