import Uhppote.Model.Api
/-! Model of the event listener (`uhppote.listen` handler + the dispatch goroutine of
    `Listen`) and of discovery (`broadcast` + `GetDevices`), as functions of the datagram
    sequence the driver delivers. -/
namespace Uhppote.Model.Events
open Uhppote Uhppote.Model Uhppote.Model.Api

inductive Callback where
  | connected
  | event (status : List Val)
  | error
deriving DecidableEq, Repr

variable (F : CodecFacts) (T : BCD.Tables) (B : HHmmBounds)

/-- the handler in `uhppote.listen`: length, non-zero device id, decode into the event struct
    (a GetStatusResponse), then the status mapping of `Listen` -/
def classify (eventLayout : Layout) (d : Bytes) : Callback :=
  if d.length ≠ 64 then .error
  else if serialOf d = 0 then .error
  else match unmarshal F T B eventLayout d with
    | .ok r => (match statusResult r with | .vals s => .event s | _ => .error)
    | _ => .error

/-- `OnConnected` once the socket is bound, then one callback per datagram, in arrival order
    (unbuffered pipe + single dispatch goroutine) -/
def listenTrace (eventLayout : Layout) (ds : List Bytes) : List Callback :=
  .connected :: ds.map (classify F T B eventLayout)

structure Entry where
  fields : List Val          -- SerialNumber IpAddress SubnetMask Gateway MacAddress Version Date
  name : String
  address : String
deriving DecidableEq, Repr

/-- the configured name of the controller a reply comes from ("-" for none / empty) -/
def nameOf (cfg : Cfg) (serial : Val) : String :=
  let n := match serial with | .u32 n => n | _ => 0
  match cfg.controllers.find? (·.serial == n) with
  | some c => if c.name = "" then "-" else c.name
  | none => "-"

/-- the reported IPv4 address completed with a port -/
def addrOf (ip : Val) (port : Nat) : String :=
  match ipOf ip with
  | some (a, b, c, d) => s!"{a}.{b}.{c}.{d}:{port}"
  | none => "invalid"

/-- one entry from the values of one decoded reply (hand-written reading of GetDevices; `Gen.Discover.entry` is the
    translated one, C11 proves them equal) -/
def entryCore (cfg : Cfg) (r : List Val) : Entry :=
  ⟨r.drop 1, nameOf cfg (r.getD 1 .none_), addrOf (r.getD 2 .none_) (if cfg.broadcastValid then cfg.broadcastPort else 60000)⟩

/-- one reply of `broadcast`: kept iff 64 bytes long and decodable as a GetDeviceResponse; `mk` builds the entry -/
def entryWith (mk : Cfg → List Val → Entry) (cfg : Cfg) (replyLayout : Layout) (d : Bytes) : Option Entry :=
  if d.length ≠ 64 then none
  else match unmarshal F T B replyLayout d with
    | .ok r => some (mk cfg r)
    | _ => none

def entryOf (cfg : Cfg) (replyLayout : Layout) (d : Bytes) : Option Entry :=
  entryWith F T B entryCore cfg replyLayout d

/-- `GetDevices`: every kept reply in arrival order, duplicates included -/
def discover (cfg : Cfg) (replyLayout : Layout) (ds : List Bytes) : List Entry :=
  ds.filterMap (entryOf F T B cfg replyLayout)

end Uhppote.Model.Events
