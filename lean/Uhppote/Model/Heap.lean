/-! Heap model for C17: storage with identity. A location holds the contents of a Go slice
    backing array or map; a value either owns a private copy (a fresh location) or is a view of
    somebody else's location. Construction of the client, `DeviceList`, `Clone` and decoding are
    functions on this heap; caller-side mutation is a write to a caller-owned location. -/
namespace Uhppote.Model.Heap

abbrev Loc := Nat

structure Heap where
  cells : List (List Nat)            -- location = index; contents abstracted as a list of numbers
deriving Repr

def Heap.read (h : Heap) (l : Loc) : List Nat := h.cells.getD l []
def Heap.write (h : Heap) (l : Loc) (v : List Nat) : Heap := ⟨h.cells.set l v⟩
def Heap.alloc (h : Heap) (v : List Nat) : Heap × Loc := (⟨h.cells ++ [v]⟩, h.cells.length)
def Heap.size (h : Heap) : Nat := h.cells.length

/-- a configured controller: by-value fields (serial, address key, protocol key, name key) and
    the location of its door-name slice -/
structure Device where
  serial : Nat
  address : Nat
  protocol : Nat
  name : Nat
  doors : Loc
deriving DecidableEq, Repr

/-- `Device.Clone()`: `make([]string, len(d.Doors)); copy(…)` — a fresh location with the same contents -/
def cloneDevice (h : Heap) (d : Device) : Heap × Device :=
  let (h', l) := h.alloc (h.read d.doors)
  (h', { d with doors := l })

/-- `NewUHPPOTE`: a fresh map holding a clone of every device of the caller's list -/
def construct : Heap → List Device → Heap × List Device
  | h, [] => (h, [])
  | h, d :: ds =>
    let (h1, c) := cloneDevice h d
    let (h2, cs) := construct h1 ds
    (h2, c :: cs)

/-- what routing reads of the client: the by-value fields only (regenerated fact:
    `routingReads = ["Address", "Protocol"]`, keyed by serial number) -/
def routeOf (client : List Device) (serial : Nat) : Option (Nat × Nat) :=
  (client.find? (·.serial == serial)).map fun d => (d.address, d.protocol)

/-- caller-side mutations: writes to locations the caller owns -/
def writes (h : Heap) (ws : List (Loc × List Nat)) : Heap := ws.foldl (fun h w => h.write w.1 w.2) h

/-- `Card.Clone()`: a new map literal with the four door entries -/
def cloneMap (h : Heap) (doors : Loc) : Heap × Loc := h.alloc (h.read doors)

/-- a decoded slice-typed result: the reader either copies out of the buffer or stores a view -/
inductive Decoded where
  | copy (l : Loc)          -- a private location holding the bytes
  | view (buf : Loc)        -- the receive buffer itself
deriving Repr

def decodeSlice (copies : Bool) (h : Heap) (buf : Loc) : Heap × Decoded :=
  if copies then
    let (h', l) := h.alloc (h.read buf)
    (h', .copy l)
  else (h, .view buf)

def Decoded.value (h : Heap) : Decoded → List Nat
  | .copy l => h.read l
  | .view b => h.read b

end Uhppote.Model.Heap
