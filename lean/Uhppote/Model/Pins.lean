/-! Source pins (written by tools/mkpins.py — a deliberate act, never part of a check): per property, the
    declarations of /repo that its hand-written model, specification tables or harness transcribe,
    with the hash of their comment-free go/printer text at the time the model was read against them.
    `Uhppote/Pins/Cnn.lean` compares them with `Gen/Source.lean`, which the translator regenerates
    from /repo on every run; pins/src/ keeps the pinned texts. -/
namespace Uhppote.Model.Pins

/-- every pin occurs, with its hash, in the regenerated table (both lists are in the translator's order) -/
def covered : List (String × Nat × Nat) → List (String × Nat × Nat) → Bool
  | ps, [] => ps.isEmpty
  | [], _ :: _ => true
  | p :: ps, d :: ds => if p.2.1 == d.2.1 then p.2.2 == d.2.2 && covered ps ds else covered (p :: ps) ds

def C01 : List (String × Nat × Nat) := [
  ("encoding/UTO311-L0x/UT0311-L0x.go:Marshal", 0xc5159313c4584fa7, 0x0393acbc69f04e82),
  ("encoding/UTO311-L0x/UT0311-L0x.go:marshal", 0x5cb570f8b12e4741, 0xefaae6aee8196998),
  ("encoding/UTO311-L0x/UT0311-L0x.go:type Marshaler", 0x6ebf4331d3217e3d, 0x68b6c861e261af40),
  ("types/HHmm.go:HHmm.MarshalUT0311L0x", 0xdda31fe5cef562c8, 0x4b24140b4b0dee00),
  ("types/PIN.go:PIN.MarshalUT0311L0x", 0x993559d724a3b527, 0x36190dd85c6345d3),
  ("types/date.go:Date.MarshalUT0311L0x", 0x24a6ea75127b85b9, 0x1507e853063ed851),
  ("types/datetime.go:DateTime.MarshalUT0311L0x", 0x1b728fbb71a08d57, 0xd83b9a251a7a8dbd),
  ("types/mac.go:MacAddress.MarshalUT0311L0x", 0x022144313f1d0f3f, 0x01e503623438989c),
  ("types/serialnumber.go:SerialNumber.MarshalUT0311L0x", 0x012b84393a089e54, 0x9a750b96d271bdb3),
  ("types/systemdate.go:SystemDate.MarshalUT0311L0x", 0x4deb28e0c020a5bb, 0xf00d62317714e3d4),
  ("types/systemtime.go:SystemTime.MarshalUT0311L0x", 0x2c24fc098b352f81, 0xd96ffd948142e178),
  ("types/version.go:Version.MarshalUT0311L0x", 0x00c671172da563c1, 0xf30848f55aed87f9)
]

def C02 : List (String × Nat × Nat) := [
  ("encoding/UTO311-L0x/UT0311-L0x.go:Unmarshal", 0xba18f4eff193b0a0, 0x851f40e339a78d8f),
  ("encoding/UTO311-L0x/UT0311-L0x.go:UnmarshalArray", 0x0e3ac0eb00f09a4b, 0x9205ecc879e63793),
  ("encoding/UTO311-L0x/UT0311-L0x.go:UnmarshalArrayElement", 0x78003d236217b2e2, 0x9024a1b0071e0e40),
  ("encoding/UTO311-L0x/UT0311-L0x.go:UnmarshalAs", 0x59c05f7353d9a520, 0xcc9279838022c1d5),
  ("encoding/UTO311-L0x/UT0311-L0x.go:type Unmarshaler", 0x022d3a56a73af9af, 0x5a9d826487deab1b),
  ("encoding/UTO311-L0x/UT0311-L0x.go:unmarshal", 0x232ecd7e85b67dd6, 0x49408ef53958a8c4),
  ("types/HHmm.go:HHmm.UnmarshalUT0311L0x", 0x2868b136d43aedda, 0x9d61e9fbece352bf),
  ("types/PIN.go:PIN.UnmarshalUT0311L0x", 0x39a7a45e12aaf184, 0x9c5b4a980277322b),
  ("types/date.go:Date.UnmarshalUT0311L0x", 0x596bde0a71a19e90, 0x69cba89c97c0c243),
  ("types/datetime.go:DateTime.UnmarshalUT0311L0x", 0x736cae273cd49220, 0x35f8a8602f705f1b),
  ("types/event.go:Event.IsZero", 0x0b2b7068789c8dff, 0xbd2d8f57e6e7dd64),
  ("types/mac.go:MacAddress.UnmarshalUT0311L0x", 0x8f138e87732a5f22, 0x5175a6d2a99c6483),
  ("types/serialnumber.go:SerialNumber.UnmarshalUT0311L0x", 0xf27444f907c0341e, 0xcf535de57dbfc181),
  ("types/status.go:StatusEvent.IsZero", 0xae5df09d298905dd, 0x3924457fa87b86ef),
  ("types/systemdate.go:SystemDate.UnmarshalUT0311L0x", 0xe3a203a4f60a5f33, 0xeed6255c38521176),
  ("types/systemtime.go:SystemTime.UnmarshalUT0311L0x", 0x9fab7439f0b08afa, 0xbfde339b8c610162),
  ("types/version.go:Version.UnmarshalUT0311L0x", 0xda374b49a1803137, 0x7e878af1cf209de5),
  ("uhppote/activate_keypads.go:uhppote.ActivateKeypads#result", 0x4db4653ef65030aa, 0x022f5503e140814e),
  ("uhppote/add_task.go:uhppote.AddTask#result", 0xaba83f144e4faa92, 0xcb845e099bed2247),
  ("uhppote/clear_task_list.go:uhppote.ClearTaskList#result", 0xf2d97bea9f305ff1, 0x4dde7f66ef16b6eb),
  ("uhppote/clear_time_profiles.go:uhppote.ClearTimeProfiles#result", 0xe8ce50eb39281449, 0xdf0005061fcd6a25),
  ("uhppote/delete_card.go:uhppote.DeleteCard#result", 0xa9d26b5f0ff2425e, 0x57b2b2d79e4319af),
  ("uhppote/delete_cards.go:uhppote.DeleteCards#result", 0x279e8be3fc827c49, 0x858b907104de4f50),
  ("uhppote/get_card.go:uhppote.GetCardByID#result", 0xd2d5e2bb6f4f3bf0, 0x3589466fe240b9af),
  ("uhppote/get_card.go:uhppote.GetCardByIndex#result", 0x874c0e53a8751192, 0x1adc130be66778a6),
  ("uhppote/get_cards.go:uhppote.GetCards#result", 0xc6909aaecd1bb8ff, 0x6142718d150c84ec),
  ("uhppote/get_device.go:uhppote.GetDevice#result", 0xe12de74caa014eaa, 0x83d1144d6999b749),
  ("uhppote/get_door_control_state.go:uhppote.GetDoorControlState#result", 0xb1922ba171f3274b, 0x2ec249c68835438d),
  ("uhppote/get_event.go:uhppote.GetEvent#result", 0x82d85c905628e810, 0x271a995099b486bf),
  ("uhppote/get_event_index.go:uhppote.GetEventIndex#result", 0x133f5eeaa19b1b10, 0x2346c2180d165a69),
  ("uhppote/get_listener.go:uhppote.GetListener#result", 0x0332f988ab1c8bff, 0xb9f682506d9fd956),
  ("uhppote/get_status.go:uhppote.GetStatus#result", 0x6797cbc843bc9703, 0x80cd4986304b2a61),
  ("uhppote/get_time.go:uhppote.GetTime#result", 0x91a70c4a55e3a203, 0x2222309cb6c8c7e1),
  ("uhppote/get_time_profile.go:uhppote.GetTimeProfile#result", 0xfa84417eab4ae6cd, 0x64bfb53ad0bbc7f5),
  ("uhppote/open.go:uhppote.OpenDoor#result", 0xc9eb8191ee09b026, 0x4d57a116478e9ce8),
  ("uhppote/put_card.go:uhppote.PutCard#result", 0xbc06f187dd3c3e38, 0xad7b130c6469abc5),
  ("uhppote/record_special_events.go:uhppote.RecordSpecialEvents#result", 0x3cd78f07e84a73b8, 0x0ebf8f4009060ea4),
  ("uhppote/refresh_tasklist.go:uhppote.RefreshTaskList#result", 0x13fa24666d5a042f, 0x422c41528b7e90fd),
  ("uhppote/restore_default_parameters.go:uhppote.RestoreDefaultParameters#result", 0xcf9445eddb0ae657, 0x327799998c2b1632),
  ("uhppote/set_address.go:uhppote.SetAddress#result", 0xf7fe03f76d71eca3, 0xd7f3888f4f1fe182),
  ("uhppote/set_door_control_state.go:uhppote.SetDoorControlState#result", 0x1c17009ce75f5888, 0x72e0ba09afb4cf3b),
  ("uhppote/set_door_passcodes.go:uhppote.SetDoorPasscodes#result", 0x89bbb23c94592342, 0x83c9a2ff33e954bd),
  ("uhppote/set_event_index.go:uhppote.SetEventIndex#result", 0x3894c1c8d83d079e, 0x24ab2dea1411384a),
  ("uhppote/set_interlock.go:uhppote.SetInterlock#result", 0x04e433d7447be934, 0xadd9fc562b04b7f3),
  ("uhppote/set_listener.go:uhppote.SetListener#result", 0xa869fb96877c7d8e, 0x53308bbfd1312ca9),
  ("uhppote/set_pc_control.go:uhppote.SetPCControl#result", 0x1c032a124293b0df, 0x66b9d7f83b49444f),
  ("uhppote/set_time.go:uhppote.SetTime#result", 0x1fa8237a27864c9f, 0xebba85ca182e5824),
  ("uhppote/set_time_profile.go:uhppote.SetTimeProfile#result", 0xe47582b6c62a84d0, 0x6cccba350bbc3fcc)
]

def C03 : List (String × Nat × Nat) := [
  ("uhppote/UT0311.go:ut0311.BroadcastTo", 0x5832433467cc72bc, 0x316c91dd739581d6),
  ("uhppote/UT0311.go:ut0311.SendTCP", 0x31723926df82d037, 0x898b91eaf03e9fb0),
  ("uhppote/UT0311.go:ut0311.SendUDP", 0x5067a73a8b73dad3, 0x05502390118f3836),
  ("uhppote/uhppote.go:sendto", 0x778712ed06a61d34, 0x792ec52268ec9f2a)
]

def C04 : List (String × Nat × Nat) := [
  ("types/card-format.go:CardFormat.String", 0x149359d67fa86639, 0x41f1726563a338ea),
  ("types/door.go:ControlState.MarshalJSON", 0x61218124bbe58068, 0xc474cdaef1992683),
  ("types/door.go:ControlState.String", 0xd88d893cbe0d1e0a, 0x8453eb615191e7d5),
  ("types/door.go:DoorControlState.String", 0xb5e8d825d7bbd104, 0x5580896ca608d48e),
  ("types/interlock.go:Interlock.String", 0xb1674dd2d7bf4d6c, 0x1084274a852725e6),
  ("types/task.go:Task.String", 0x92d467def34dd73b, 0xe957dbc51c428264),
  ("types/task.go:TaskType.MarshalJSON", 0x1671d9d9ee98a95b, 0x81a7681fdb2ea7e7),
  ("types/task.go:TaskType.String", 0x934275597f229637, 0x3f63f2b4d03f9151),
  ("types/weekdays.go:Weekdays.MarshalJSON", 0xb1d774b52d1757fd, 0xfd3fc13ad9cc0516),
  ("types/weekdays.go:Weekdays.String", 0x8de3726a8483012b, 0x3255f476b9b7acbc),
  ("types/weekdays.go:abbreviation", 0x86bff83c6f7b2698, 0x3ae15ce860609009),
  ("uhppote/activate_keypads.go:uhppote.ActivateKeypads#result", 0x4db4653ef65030aa, 0x022f5503e140814e),
  ("uhppote/add_task.go:uhppote.AddTask#result", 0xaba83f144e4faa92, 0xcb845e099bed2247),
  ("uhppote/clear_task_list.go:uhppote.ClearTaskList#result", 0xf2d97bea9f305ff1, 0x4dde7f66ef16b6eb),
  ("uhppote/clear_time_profiles.go:uhppote.ClearTimeProfiles#result", 0xe8ce50eb39281449, 0xdf0005061fcd6a25),
  ("uhppote/delete_card.go:uhppote.DeleteCard#result", 0xa9d26b5f0ff2425e, 0x57b2b2d79e4319af),
  ("uhppote/delete_cards.go:uhppote.DeleteCards#result", 0x279e8be3fc827c49, 0x858b907104de4f50),
  ("uhppote/get_card.go:uhppote.GetCardByID#result", 0xd2d5e2bb6f4f3bf0, 0x3589466fe240b9af),
  ("uhppote/get_card.go:uhppote.GetCardByIndex#result", 0x874c0e53a8751192, 0x1adc130be66778a6),
  ("uhppote/get_cards.go:uhppote.GetCards#result", 0xc6909aaecd1bb8ff, 0x6142718d150c84ec),
  ("uhppote/get_device.go:uhppote.GetDevice#result", 0xe12de74caa014eaa, 0x83d1144d6999b749),
  ("uhppote/get_door_control_state.go:uhppote.GetDoorControlState#result", 0xb1922ba171f3274b, 0x2ec249c68835438d),
  ("uhppote/get_event.go:uhppote.GetEvent#result", 0x82d85c905628e810, 0x271a995099b486bf),
  ("uhppote/get_event_index.go:uhppote.GetEventIndex#result", 0x133f5eeaa19b1b10, 0x2346c2180d165a69),
  ("uhppote/get_listener.go:uhppote.GetListener#result", 0x0332f988ab1c8bff, 0xb9f682506d9fd956),
  ("uhppote/get_status.go:uhppote.GetStatus#result", 0x6797cbc843bc9703, 0x80cd4986304b2a61),
  ("uhppote/get_time.go:uhppote.GetTime#result", 0x91a70c4a55e3a203, 0x2222309cb6c8c7e1),
  ("uhppote/get_time_profile.go:uhppote.GetTimeProfile#result", 0xfa84417eab4ae6cd, 0x64bfb53ad0bbc7f5),
  ("uhppote/open.go:uhppote.OpenDoor#result", 0xc9eb8191ee09b026, 0x4d57a116478e9ce8),
  ("uhppote/put_card.go:uhppote.PutCard#result", 0xbc06f187dd3c3e38, 0xad7b130c6469abc5),
  ("uhppote/record_special_events.go:uhppote.RecordSpecialEvents#result", 0x3cd78f07e84a73b8, 0x0ebf8f4009060ea4),
  ("uhppote/refresh_tasklist.go:uhppote.RefreshTaskList#result", 0x13fa24666d5a042f, 0x422c41528b7e90fd),
  ("uhppote/restore_default_parameters.go:uhppote.RestoreDefaultParameters#result", 0xcf9445eddb0ae657, 0x327799998c2b1632),
  ("uhppote/set_address.go:uhppote.SetAddress#result", 0xf7fe03f76d71eca3, 0xd7f3888f4f1fe182),
  ("uhppote/set_door_control_state.go:uhppote.SetDoorControlState#result", 0x1c17009ce75f5888, 0x72e0ba09afb4cf3b),
  ("uhppote/set_door_passcodes.go:uhppote.SetDoorPasscodes#result", 0x89bbb23c94592342, 0x83c9a2ff33e954bd),
  ("uhppote/set_event_index.go:uhppote.SetEventIndex#result", 0x3894c1c8d83d079e, 0x24ab2dea1411384a),
  ("uhppote/set_interlock.go:uhppote.SetInterlock#result", 0x04e433d7447be934, 0xadd9fc562b04b7f3),
  ("uhppote/set_listener.go:uhppote.SetListener#result", 0xa869fb96877c7d8e, 0x53308bbfd1312ca9),
  ("uhppote/set_pc_control.go:uhppote.SetPCControl#result", 0x1c032a124293b0df, 0x66b9d7f83b49444f),
  ("uhppote/set_time.go:uhppote.SetTime#result", 0x1fa8237a27864c9f, 0xebba85ca182e5824),
  ("uhppote/set_time_profile.go:uhppote.SetTimeProfile#result", 0xe47582b6c62a84d0, 0x6cccba350bbc3fcc)
]

def C05 : List (String × Nat × Nat) := [
  ("types/HHmm.go:type HHmm", 0xfbbac66d3152f297, 0x3f0264d0ebd31c4e),
  ("types/PIN.go:type PIN", 0x1a33bb522bc1851a, 0xd9e95ebf4cbb656d),
  ("types/bind_addr.go:type BindAddr", 0x403088f309a71b4a, 0x3a93da2045833cb7),
  ("types/broadcast_addr.go:type BroadcastAddr", 0x4798d94d7526e383, 0x9c8bf1391e829910),
  ("types/card-format.go:type CardFormat", 0x6c23dd52d547de51, 0x145fe555025f95c8),
  ("types/card.go:type Card", 0x7c3e270f01b3aa6b, 0x760c2fe363bccb8c),
  ("types/common.go:type MsgType", 0xdac8860ee176db03, 0xa11b4d7c989c2efe),
  ("types/common.go:type Result", 0x7cbdd3ba4f4a7970, 0xa556af243488d779),
  ("types/common.go:type SOM", 0x7b64a5162208fda6, 0xcd0763b2873ab234),
  ("types/controller_addr.go:type ControllerAddr", 0xcee9fb0c378fae9a, 0x2e923d2a2c9b1775),
  ("types/date.go:type Date", 0xed1cab4cb590540a, 0xee77033860e2c4c8),
  ("types/datetime.go:type DateTime", 0x19a4b2cb7c80f0a0, 0x530cfdce3d2ac575),
  ("types/device.go:type Device", 0x47a1fc994859ebd0, 0x11baec9416a1aac4),
  ("types/door.go:type ControlState", 0x5bdaef8fb2346559, 0x87807838148fcede),
  ("types/door.go:type DoorControlState", 0xea1c021974714582, 0x14b57ccf4d08e7c4),
  ("types/event.go:type Event", 0x4f432012bd565eb0, 0xbca0b9864598881e),
  ("types/event.go:type EventIndex", 0xf3e1b1610ff0a5d3, 0x0cc7fe35807602a2),
  ("types/event.go:type EventIndexResult", 0xcfc572193328e070, 0x08bb6155474edd92),
  ("types/interlock.go:type Interlock", 0x3fea7ce102b4730c, 0xf97dc166f7a8c236),
  ("types/listen_addr.go:type ListenAddr", 0x967e8fb8448c9ab4, 0xed25f689a772b034),
  ("types/mac.go:type MacAddress", 0x32dc2e51709da033, 0x202a30e19395be72),
  ("types/segment.go:type Segment", 0x5cc71113f64cd64c, 0xfc18bd3456b70399),
  ("types/segment.go:type Segments", 0x360b390d1b5983a8, 0xb169737d67c63381),
  ("types/serialnumber.go:type SerialNumber", 0xfe50d4fc43ec2bdb, 0xb7121ebd23aa9670),
  ("types/status.go:type Status", 0x4f572e54fae50395, 0xb10a15591cc9d8d5),
  ("types/status.go:type StatusEvent", 0x8e6c858b0b5c2c9a, 0x138029f1e6c659fa),
  ("types/systemdate.go:type SystemDate", 0x93b548421281b437, 0x7d308c440f9ee5a9),
  ("types/systemtime.go:type SystemTime", 0x156b3d969b5a58eb, 0x266ff53e97cd3d18),
  ("types/task.go:type Task", 0x54aa004c4f1cdca7, 0x995f61201243202f),
  ("types/task.go:type TaskType", 0x23d3fe2aee73edc6, 0x15be6c11a3c6af70),
  ("types/time.go:type Time", 0xbf583e3a92fab6fd, 0xe55f1ab3dc6cb0bd),
  ("types/time_profile.go:type TimeProfile", 0x64e68ea58279c9c7, 0xcfbdd16dab00de9b),
  ("types/version.go:type Version", 0x6874dbc07caf30d5, 0x59a2d9a886fd31ff),
  ("types/weekdays.go:type Weekdays", 0xdc3c3f799a21cf19, 0xa22f6ccd76d0ba5e)
]

def C06 : List (String × Nat × Nat) := [
  ("types/broadcast_addr.go:BroadcastAddr.Equal", 0xa813468ccc05d2b1, 0x9a2a30f107eee525),
  ("types/controller_addr.go:ControllerAddr.IsValid", 0xc18d0c68e2617f66, 0xbe0b5d8d7dc01a99),
  ("uhppote/activate_keypads.go:uhppote.ActivateKeypads#send", 0xa7fcbe268362cf1c, 0x40f1be46d30945fd),
  ("uhppote/add_task.go:uhppote.AddTask#send", 0xb1d98850afbd9754, 0x82385d9cb5d48b8f),
  ("uhppote/clear_task_list.go:uhppote.ClearTaskList#send", 0x7b4a55aaa1f463ff, 0x756a0ee3fd5f1e29),
  ("uhppote/clear_time_profiles.go:uhppote.ClearTimeProfiles#send", 0x3ac2779d6bd09918, 0xbc6c749f7b9b4be5),
  ("uhppote/delete_card.go:uhppote.DeleteCard#send", 0x402e02606670f41d, 0x0c0740f13952d2be),
  ("uhppote/delete_cards.go:uhppote.DeleteCards#send", 0x9e02a6977bbc7f8a, 0x6006ff33d0338ab6),
  ("uhppote/device.go:Device.ID", 0x143c907f208b6390, 0x2d8eb6e8057d8ef0),
  ("uhppote/device.go:Device.IsValid", 0x0a45db900b50fb47, 0x08f910c226935358),
  ("uhppote/get_card.go:uhppote.GetCardByID#send", 0xda1fc09c81892230, 0x84119ba7eabe5941),
  ("uhppote/get_card.go:uhppote.GetCardByIndex#send", 0x5bd4af7ba4279249, 0x45c61c67b4d6fb4a),
  ("uhppote/get_cards.go:uhppote.GetCards#send", 0x723962ee76100032, 0xe8e5cbcf3c856288),
  ("uhppote/get_device.go:uhppote.GetDevice#send", 0x1fb2763ce331c337, 0x1ffe63d1985d488b),
  ("uhppote/get_door_control_state.go:uhppote.GetDoorControlState#send", 0x3150b88e58c99d58, 0x44cf79b50fb97537),
  ("uhppote/get_event.go:uhppote.GetEvent#send", 0xfbcb4785219bc7c4, 0x080849d89a2a0304),
  ("uhppote/get_event_index.go:uhppote.GetEventIndex#send", 0xc3ef8926a11a559b, 0xc622c1c61540ce27),
  ("uhppote/get_listener.go:uhppote.GetListener#send", 0xf159114bacb70bd1, 0xc3b6f66b742f787e),
  ("uhppote/get_status.go:uhppote.GetStatus#send", 0x63bbb78505a842b0, 0xbb19d11e7779abf5),
  ("uhppote/get_time.go:uhppote.GetTime#send", 0xb92a9c5e5625ff50, 0x9697cfeaa9bfebda),
  ("uhppote/get_time_profile.go:uhppote.GetTimeProfile#send", 0x56ac82e5b527fbd8, 0x189ab3e1124d98c7),
  ("uhppote/open.go:uhppote.OpenDoor#send", 0xd3a01db09909adf6, 0x53a8aab98bf81f95),
  ("uhppote/put_card.go:uhppote.PutCard#send", 0xd197a6e48fd6e434, 0x08004d23ab25cd14),
  ("uhppote/record_special_events.go:uhppote.RecordSpecialEvents#send", 0xe0d9cf225ce0e65f, 0xfa52f71fda1cde88),
  ("uhppote/refresh_tasklist.go:uhppote.RefreshTaskList#send", 0x5a93b475dbddffb8, 0x0275fcf3372bc11b),
  ("uhppote/restore_default_parameters.go:uhppote.RestoreDefaultParameters#send", 0x86df724193ce7440, 0x1f22cbd15945899a),
  ("uhppote/set_address.go:uhppote.SetAddress#send", 0xfe608384c4d08e32, 0x0c102b2c5ee7595d),
  ("uhppote/set_door_control_state.go:uhppote.SetDoorControlState#send", 0x07932fdf19448256, 0x15c735f264909ac3),
  ("uhppote/set_door_passcodes.go:uhppote.SetDoorPasscodes#send", 0xcc740250f6f236cb, 0x87caf1db1b8c0604),
  ("uhppote/set_event_index.go:uhppote.SetEventIndex#send", 0xfbd36067ddc16892, 0x9d65e6690ae8be98),
  ("uhppote/set_interlock.go:uhppote.SetInterlock#send", 0x1e967bb374ed571d, 0xc8ed3984f8b7e93d),
  ("uhppote/set_listener.go:uhppote.SetListener#send", 0x4c2c205192195fd7, 0x0d86a78f5cd12308),
  ("uhppote/set_pc_control.go:uhppote.SetPCControl#send", 0x4f4081af2937fe5b, 0xb0228be9e306251a),
  ("uhppote/set_time.go:uhppote.SetTime#send", 0xe272b24fc691e907, 0xf9f8d6b65adbf469),
  ("uhppote/set_time_profile.go:uhppote.SetTimeProfile#send", 0x266dd1f82d3594d7, 0x611d76d57cf35731),
  ("uhppote/uhppote.go:resolve", 0xc9aeb6e395669665, 0xc78761b4d294ba01),
  ("uhppote/uhppote.go:sendto", 0x778712ed06a61d34, 0x792ec52268ec9f2a),
  ("uhppote/uhppote.go:uhppote.tcpSendTo", 0xf36af79a04dd2a28, 0xa12dbd57879b3d8c),
  ("uhppote/uhppote.go:uhppote.udpBroadcast", 0x8d4ffb71997b8486, 0x4d50be2eb9eba138),
  ("uhppote/uhppote.go:uhppote.udpBroadcastTo", 0x4a4f91c214d3b66e, 0x394683698ec9177f),
  ("uhppote/uhppote.go:uhppote.udpSendTo", 0xe781a5fc62f79b3e, 0x63e85f228edebc62)
]

def C07 : List (String × Nat × Nat) := [
  ("uhppote/errors.go:var ErrIncorrectController", 0x6f3fb28d6ac2a09f, 0x2473a55722a195bd),
  ("uhppote/errors.go:var ErrInvalidCard", 0x5631db55cf4dedce, 0x84fb88eb660413e4),
  ("uhppote/errors.go:var ErrInvalidListenerAddress", 0x1e94f942590c1cc7, 0xa36580755bbbc0d5),
  ("uhppote/put_card.go:isCardNumberValid", 0x047446ded14e1d97, 0x806932eb4232eebd),
  ("uhppote/put_card.go:isWiegand26", 0x9d07b53a701ea076, 0x49157ba53f98192d),
  ("uhppote/put_card.go:isWiegandAny", 0x5454e8f7181efc7a, 0x2973a0670a3e063a)
]

def C08 : List (String × Nat × Nat) := [
  ("uhppote/UT0311.go:type ut0311", 0xe421e980b039525e, 0x4c08a70523034040),
  ("uhppote/UT0311.go:ut0311.Broadcast", 0xf78afb3740252bdd, 0x0768fb651b5dbda5),
  ("uhppote/UT0311.go:ut0311.BroadcastTo", 0x5832433467cc72bc, 0x316c91dd739581d6),
  ("uhppote/UT0311.go:ut0311.Listen", 0x4f6419a6f5a19926, 0xa98683e70d60615c),
  ("uhppote/UT0311.go:ut0311.SendTCP", 0x31723926df82d037, 0x898b91eaf03e9fb0),
  ("uhppote/UT0311.go:ut0311.SendUDP", 0x5067a73a8b73dad3, 0x05502390118f3836),
  ("uhppote/UT0311.go:var guard", 0x78e36f39199507af, 0xc729db661ce7f1b2),
  ("uhppote/UT0311_linux.go:setSocketOptions", 0xb03e3f64fba9987b, 0xa14a34c8f10a5beb)
]

def C09 : List (String × Nat × Nat) := [
  ("uhppote/UT0311.go:ut0311.BroadcastTo", 0x5832433467cc72bc, 0x316c91dd739581d6),
  ("uhppote/UT0311.go:ut0311.SendTCP", 0x31723926df82d037, 0x898b91eaf03e9fb0),
  ("uhppote/UT0311.go:ut0311.SendUDP", 0x5067a73a8b73dad3, 0x05502390118f3836),
  ("uhppote/UT0311.go:var NOTIMEOUT", 0x87a5c33d07aae842, 0x58724e4637c67d6b),
  ("uhppote/listen.go:uhppote.Listen", 0x1e208328daa7f257, 0x5c7d1919d6282662)
]

def C10 : List (String × Nat × Nat) := [
  ("uhppote/UT0311.go:ut0311.Listen", 0x4f6419a6f5a19926, 0xa98683e70d60615c),
  ("uhppote/listen.go:type Listener", 0xed0a2b009db8b728, 0xb4f381b550a2b055),
  ("uhppote/listen.go:type event", 0xc6b55f0efee8721b, 0xe0b8e32661e9853a),
  ("uhppote/listen.go:uhppote.Listen", 0x1e208328daa7f257, 0x5c7d1919d6282662),
  ("uhppote/uhppote.go:uhppote.listen", 0x6a03fcae192a2cb0, 0x88a880d428d6afd1)
]

def C11 : List (String × Nat × Nat) := [
  ("uhppote/UT0311.go:ut0311.Broadcast", 0xf78afb3740252bdd, 0x0768fb651b5dbda5),
  ("uhppote/get_device.go:uhppote.GetDevices", 0x47d87b8c1e672098, 0x1f4221a13b9c01f6),
  ("uhppote/uhppote.go:uhppote.broadcast", 0x2bbcd6d6de8c1614, 0x22554e85bd0c8d18)
]

def C12 : List (String × Nat × Nat) := [
  ("encoding/bcd/bcd.go:Decode", 0xd9f9edccbff0adfa, 0xfc6494bfff89d983),
  ("encoding/bcd/bcd.go:Encode", 0x582cc449605ffb94, 0x66c9c048b03af027)
]

def C13 : List (String × Nat × Nat) := [
  ("types/date.go:Date.IsZero", 0x54cd6982f551c2bf, 0xe21d5f465df31b34),
  ("types/date.go:Date.MarshalUT0311L0x", 0x24a6ea75127b85b9, 0x1507e853063ed851),
  ("types/date.go:Date.UnmarshalUT0311L0x", 0x596bde0a71a19e90, 0x69cba89c97c0c243),
  ("types/date.go:Date.Weekday", 0x12d4064d348009f2, 0x635774cc1c1e6adb),
  ("types/date.go:MustParseDate", 0xdc8a0f6687f8d5be, 0x702c48f8fb8b8bb4),
  ("types/date.go:ParseDate", 0x7f074a29b2a60268, 0xed7026671522a2c4),
  ("types/date.go:ToDate", 0x71ec538959b72e49, 0xe8b6bab9ba5ed075),
  ("types/date.go:startOfDay", 0x57fc0ade38fef209, 0xc856921320d3f9a8),
  ("types/datetime.go:DateTime.IsZero", 0xf74cbb79e94bd3bd, 0x742a92a17f3610aa),
  ("types/datetime.go:DateTime.MarshalUT0311L0x", 0x1b728fbb71a08d57, 0xd83b9a251a7a8dbd),
  ("types/datetime.go:DateTime.UnmarshalUT0311L0x", 0x736cae273cd49220, 0x35f8a8602f705f1b),
  ("types/systemdate.go:SystemDate.IsZero", 0xdb122efeceb38458, 0xca34694ef5f8bf3b),
  ("types/systemdate.go:SystemDate.MarshalUT0311L0x", 0x4deb28e0c020a5bb, 0xf00d62317714e3d4),
  ("types/systemdate.go:SystemDate.UnmarshalUT0311L0x", 0xe3a203a4f60a5f33, 0xeed6255c38521176),
  ("uhppote/get_status.go:uhppote.GetStatus#result", 0x6797cbc843bc9703, 0x80cd4986304b2a61),
  ("uhppote/listen.go:uhppote.Listen", 0x1e208328daa7f257, 0x5c7d1919d6282662)
]

def C14 : List (String × Nat × Nat) := [
  ("types/HHmm.go:HHmm.MarshalJSON", 0xff8d4fc0a7c0df20, 0x8f528d28e0964394),
  ("types/HHmm.go:HHmm.String", 0xf5f0ad08bbf0824c, 0xc923aae90f7739af),
  ("types/HHmm.go:HHmm.UnmarshalJSON", 0x34ea7367fe3e7ec8, 0x1e36e0356be55b6a),
  ("types/HHmm.go:HHmmFromString", 0x76e4cc14f54b3221, 0xb760877ed9051703),
  ("types/PIN.go:PIN.MarshalJSON", 0xd0e65229f83d0987, 0x02b75d3d7ffa4067),
  ("types/PIN.go:PIN.UnmarshalJSON", 0xfe784f513db98ebe, 0x32763bfa16757b43),
  ("types/bind_addr.go:BindAddr.MarshalJSON", 0x969af08f3e2a90f7, 0x6080aa9195bb6667),
  ("types/bind_addr.go:BindAddr.String", 0xc39362f5efdfc422, 0xf18efe2498e97bbb),
  ("types/bind_addr.go:BindAddr.UnmarshalJSON", 0xbf595964e003397f, 0x72b4602ab12a3255),
  ("types/broadcast_addr.go:BroadcastAddr.MarshalJSON", 0xf20bd7ccd5660f27, 0x174b006bf75f5e5d),
  ("types/broadcast_addr.go:BroadcastAddr.String", 0xb6a77e1e61d571e2, 0x3ed9c36c88a74207),
  ("types/broadcast_addr.go:BroadcastAddr.UnmarshalJSON", 0x2925d850a7ffa70b, 0x3054f216fa5c55bd),
  ("types/card-format.go:CardFormat.MarshalConf", 0x9fa99e2a5557efe8, 0xe91a0c641fa22745),
  ("types/card-format.go:CardFormat.String", 0x149359d67fa86639, 0x41f1726563a338ea),
  ("types/card-format.go:CardFormat.UnmarshalConf", 0x0a7de33ec75e041b, 0x09aac37c3b7e4e68),
  ("types/card-format.go:CardFormatFromString", 0xcddc09e98348e49a, 0x2a5be4dc313b33cc),
  ("types/card-format.go:const WiegandAny,Wiegand26", 0xad26ae0d8a295bfb, 0xda3b6f91cce10e9c),
  ("types/card-format.go:var w26", 0x4baac4e31952579b, 0x98b0fbc9473f7766),
  ("types/card-format.go:var wAny", 0x7bbf4bf92ed458e3, 0x3d5fa74cbb335041),
  ("types/card.go:Card.MarshalJSON", 0x6bd272e3b48c2640, 0x717d4a6d5d3ec90d),
  ("types/card.go:Card.String", 0x0afb85de82a17aa8, 0x279b55a2da7fb490),
  ("types/card.go:Card.UnmarshalJSON", 0xadc55cd5a5bd6401, 0xcc079b0089e4f6df),
  ("types/common.go:Result.String", 0xf38ed11880e90e98, 0x585f922a9aaf05a3),
  ("types/controller_addr.go:ControllerAddr.MarshalJSON", 0x6da064ae0cdd9683, 0x3f44eb8fbdd3398c),
  ("types/controller_addr.go:ControllerAddr.String", 0x457db21fe00c28e0, 0xd4234474c80372bb),
  ("types/controller_addr.go:ControllerAddr.UnmarshalJSON", 0xcfb062b46b1655e6, 0x325e4ec272936285),
  ("types/date.go:Date.MarshalJSON", 0x0ec4cc2ff97b81a7, 0xab37cb683d2cfaf2),
  ("types/date.go:Date.String", 0xe6a64882f56e59ec, 0xb9afe40db0fc3bc4),
  ("types/date.go:Date.UnmarshalJSON", 0xa2162add0d6a8525, 0x47e5203b05b1f3e4),
  ("types/date.go:MustParseDate", 0xdc8a0f6687f8d5be, 0x702c48f8fb8b8bb4),
  ("types/date.go:ParseDate", 0x7f074a29b2a60268, 0xed7026671522a2c4),
  ("types/datetime.go:DateTime.MarshalJSON", 0x4e5ce161516edd76, 0x5a72ba12283b1d88),
  ("types/datetime.go:DateTime.MarshalText", 0x33ada37ce414ecef, 0x29c480ce120114e7),
  ("types/datetime.go:DateTime.String", 0x0d772a010df75e41, 0x21dbc009d8107b05),
  ("types/datetime.go:DateTime.UnmarshalJSON", 0x0c0768138f82c24e, 0x6e173c217ab7afbf),
  ("types/device.go:Device.String", 0x4fc32e826f1b60aa, 0xdf0dec88d176478b),
  ("types/door.go:ControlState.MarshalJSON", 0x61218124bbe58068, 0xc474cdaef1992683),
  ("types/door.go:ControlState.String", 0xd88d893cbe0d1e0a, 0x8453eb615191e7d5),
  ("types/door.go:ControlState.UnmarshalJSON", 0xf312e8b429a1720b, 0x67ee41386aa258cc),
  ("types/door.go:DoorControlState.String", 0xb5e8d825d7bbd104, 0x5580896ca608d48e),
  ("types/door.go:const ModeUnknown,ModeNormallyOpen,ModeNormallyClosed,…", 0xcddcabf578602f66, 0x1e8d11d12b59f849),
  ("types/door.go:const NormallyOpen,NormallyClosed,Controlled", 0x61f499e7628170fc, 0xf920ac0999e83d62),
  ("types/event.go:Event.String", 0x6f59208d118cdc0d, 0xee01c17126e06819),
  ("types/event.go:EventIndex.String", 0xf1060f8f2bc26f23, 0xecd05e49df097127),
  ("types/event.go:EventIndexResult.String", 0xa3f44504cc6a7a4e, 0xb5aa0edfbb114e7a),
  ("types/interlock.go:Interlock.String", 0xb1674dd2d7bf4d6c, 0x1084274a852725e6),
  ("types/interlock.go:const NoInterlock,Interlock12,Interlock34,…", 0xb624f1ec993c9291, 0x9591f3e85374be96),
  ("types/listen_addr.go:ListenAddr.MarshalJSON", 0x7c28c621ec8bfde1, 0x2f1af718882ce950),
  ("types/listen_addr.go:ListenAddr.String", 0x8334bfb928b4b644, 0x4b75c8809171d155),
  ("types/listen_addr.go:ListenAddr.UnmarshalJSON", 0xa1896169a16bffad, 0xa7cbdabf21e77d13),
  ("types/mac.go:MacAddress.MarshalJSON", 0x7846d49cfa1e4ec1, 0x670c28f440b83fdf),
  ("types/mac.go:MacAddress.String", 0x3c2164ba7770acfb, 0x2787bd9756267851),
  ("types/mac.go:MacAddress.UnmarshalJSON", 0x75e7daeaf777f7ac, 0x35583666bd9f326e),
  ("types/segment.go:Segment.String", 0x39c0944efa5bc321, 0x8a47aa0d5d1ad468),
  ("types/segment.go:Segments.MarshalJSON", 0x3f82627869fa05d2, 0x16e8d09fde2870b8),
  ("types/segment.go:Segments.String", 0x5c473f359fca2483, 0x4d9d977a53da5b7b),
  ("types/segment.go:Segments.UnmarshalJSON", 0x6020628bbd902190, 0x0a6411dc23f88a5e),
  ("types/serialnumber.go:SerialNumber.String", 0x1fe0d417b44818e7, 0x97599ae0922ed327),
  ("types/status.go:Status.String", 0xf4c381331bb5f97f, 0x1723ef964da7b2bc),
  ("types/systemdate.go:SystemDate.Format", 0x764b688bc9aac19b, 0x3362390a86fd107b),
  ("types/systemdate.go:SystemDate.String", 0x2a140f3eb260c38c, 0x29cb335d5b8b2a1e),
  ("types/systemtime.go:SystemTime.Format", 0x1fdecfbb33e88a68, 0xa96f581181ccb6bd),
  ("types/systemtime.go:SystemTime.String", 0xc0dda117ccdff0d0, 0x7d52c48087d2ac40),
  ("types/systemtime.go:TimeFromString", 0x82e171666a4f3112, 0x2d96faec29ff1914),
  ("types/task.go:Task.String", 0x92d467def34dd73b, 0xe957dbc51c428264),
  ("types/task.go:Task.UnmarshalJSON", 0xfc8c224ee34dfe29, 0xfd8c0373ecad8d84),
  ("types/task.go:TaskType.MarshalJSON", 0x1671d9d9ee98a95b, 0x81a7681fdb2ea7e7),
  ("types/task.go:TaskType.String", 0x934275597f229637, 0x3f63f2b4d03f9151),
  ("types/task.go:TaskType.UnmarshalJSON", 0x4989b4be13613ff1, 0xb82a1efdbf8c7f3f),
  ("types/task.go:TaskType.UnmarshalTSV", 0x2be79ffb23644c64, 0x929de5d1f6f32cf7),
  ("types/task.go:const DoorControlled,DoorNormallyOpen,DoorNormallyClosed,…", 0xa22fdfdaea0f1022, 0x163b5dc776318b4b),
  ("types/time.go:Time.String", 0x22cf998187f8ac8f, 0x0b443f8c351e3689),
  ("types/time_profile.go:TimeProfile.String", 0x3d0d25fdfb218c08, 0xcfa626878dc56938),
  ("types/time_profile.go:TimeProfile.UnmarshalJSON", 0xbda96cd582ef9066, 0x50b5f8dc0fee302c),
  ("types/version.go:Version.MarshalJSON", 0x7567efd7c039f05a, 0xee77d4ce11879aaf),
  ("types/version.go:Version.String", 0xeae63965481df410, 0x8a8a11da66b9b8b1),
  ("types/version.go:Version.UnmarshalJSON", 0x0de7cd2b514fa1ac, 0x6f75c19d4eddae94),
  ("types/weekdays.go:Weekdays.MarshalJSON", 0xb1d774b52d1757fd, 0xfd3fc13ad9cc0516),
  ("types/weekdays.go:Weekdays.String", 0x8de3726a8483012b, 0x3255f476b9b7acbc),
  ("types/weekdays.go:Weekdays.UnmarshalJSON", 0xa1a031b5f99674e1, 0xf3b641b3cba9e9c7),
  ("types/weekdays.go:abbreviation", 0x86bff83c6f7b2698, 0x3ae15ce860609009)
]

def C15 : List (String × Nat × Nat) := [
  ("types/bind_addr.go:BindAddr.Equal", 0xee0c761e786cff84, 0x970e837c791b248b),
  ("types/bind_addr.go:BindAddr.Set", 0xcdfaa9dbe073c1f0, 0xdaa97c13bb8305d7),
  ("types/bind_addr.go:BindAddr.String", 0xc39362f5efdfc422, 0xf18efe2498e97bbb),
  ("types/bind_addr.go:BindAddrFrom", 0x5746a4eb937b06f6, 0x6a8380b4e1f98f25),
  ("types/bind_addr.go:MustParseBindAddr", 0xd1212714872c4af9, 0xe5ca576769bc4142),
  ("types/bind_addr.go:ParseBindAddr", 0x4e3205484afed3cf, 0xe442097e0954e77c),
  ("types/bind_addr.go:const BIND_PORT", 0x80872aaa0c2581f1, 0x4035f231284d4d49),
  ("types/bind_addr.go:type BindAddr", 0x403088f309a71b4a, 0x3a93da2045833cb7),
  ("types/broadcast_addr.go:BroadcastAddr.Equal", 0xa813468ccc05d2b1, 0x9a2a30f107eee525),
  ("types/broadcast_addr.go:BroadcastAddr.Set", 0x87dc53f962b855da, 0xfe8b4e481185d86b),
  ("types/broadcast_addr.go:BroadcastAddr.String", 0xb6a77e1e61d571e2, 0x3ed9c36c88a74207),
  ("types/broadcast_addr.go:BroadcastAddrFrom", 0x8a0ebae17e3565d9, 0x24c96c7b6a93532d),
  ("types/broadcast_addr.go:MustParseBroadcastAddr", 0xcd6d0dfb2a7ccec8, 0x6b5596be8f5a643e),
  ("types/broadcast_addr.go:ParseBroadcastAddr", 0x4587876b593c910c, 0xf4bf1c474ce94d63),
  ("types/broadcast_addr.go:const BROADCAST_PORT", 0x4925c3b9a6366d1b, 0x887cee8f3ce8a56a),
  ("types/broadcast_addr.go:type BroadcastAddr", 0x4798d94d7526e383, 0x9c8bf1391e829910),
  ("types/controller_addr.go:ControllerAddr.Equal", 0x1a3faf0af66aeba0, 0xf210accfc537efde),
  ("types/controller_addr.go:ControllerAddr.IsValid", 0xc18d0c68e2617f66, 0xbe0b5d8d7dc01a99),
  ("types/controller_addr.go:ControllerAddr.Set", 0xb1a690de1fecfda6, 0x9740c34a3fed3762),
  ("types/controller_addr.go:ControllerAddr.String", 0x457db21fe00c28e0, 0xd4234474c80372bb),
  ("types/controller_addr.go:ControllerAddrFrom", 0xed3e6ac6f82197a8, 0x336811792e001bd8),
  ("types/controller_addr.go:MustParseControllerAddr", 0x34a7f42abb39eb6a, 0x9458797c04f54b6d),
  ("types/controller_addr.go:ParseControllerAddr", 0xd4b9a744d671ed1d, 0xb60ea098b23e01d9),
  ("types/controller_addr.go:const CONTROLLER_PORT", 0xc0f4a1752ee5b9aa, 0x344b707bc1088089),
  ("types/controller_addr.go:type ControllerAddr", 0xcee9fb0c378fae9a, 0x2e923d2a2c9b1775),
  ("types/listen_addr.go:ListenAddr.Equal", 0x570d5e57510c9268, 0x57c4471301bf6db1),
  ("types/listen_addr.go:ListenAddr.IsValid", 0xf4f347bbb91a053a, 0x7aed94e7879d18ad),
  ("types/listen_addr.go:ListenAddr.Set", 0x4d78e2a99879dd1b, 0xe718faf400fd7e57),
  ("types/listen_addr.go:ListenAddr.String", 0x8334bfb928b4b644, 0x4b75c8809171d155),
  ("types/listen_addr.go:ListenAddrFrom", 0xa0996c4c98679504, 0xa829718e83d7b4fd),
  ("types/listen_addr.go:MustParseListenAddr", 0x28a7c46390efc800, 0x8696738a38682af7),
  ("types/listen_addr.go:ParseListenAddr", 0x202a6e4e06a1162c, 0xb932f40c0d3a9b97),
  ("types/listen_addr.go:type ListenAddr", 0x967e8fb8448c9ab4, 0xed25f689a772b034)
]

def C16 : List (String × Nat × Nat) := [
  ("uhppote/set_time_profile.go:uhppote.SetTimeProfile#guards", 0x24ac57e69d299117, 0x9b5ac0e9694b2b01)
]

def C17 : List (String × Nat × Nat) := [
  ("types/bind_addr.go:BindAddr.Clone", 0xfe9fbfb23b8aca0e, 0x41e07c269323bb9a),
  ("types/broadcast_addr.go:BroadcastAddr.Clone", 0xb04245608267b57f, 0x2f53a2f4a31a8d59),
  ("types/card.go:Card.Clone", 0xdcdc026028a02fcf, 0x7dd2b4f26fb80efb),
  ("types/controller_addr.go:ControllerAddr.Clone", 0xd9ad707503d66351, 0x583d23f37cd42d83),
  ("types/listen_addr.go:ListenAddr.Clone", 0xcfe35baf935a6610, 0x6b0d73db8812cf3c),
  ("types/mac.go:MacAddress.UnmarshalUT0311L0x", 0x8f138e87732a5f22, 0x5175a6d2a99c6483),
  ("uhppote/device.go:Device.Clone", 0x9ad96013e412842c, 0x3d9bb56bcdc8d0bc),
  ("uhppote/device.go:NewDevice", 0xcc6dff190e16f1ac, 0xb26b66fbf4d3b590),
  ("uhppote/device.go:type Device", 0x66207ff2c1568a73, 0xe92ca8118742ed5a),
  ("uhppote/uhppote.go:NewUHPPOTE", 0xffc3ef95571770a7, 0x8b0d89e98c6dd715),
  ("uhppote/uhppote.go:type driver", 0xb334e64a59171c19, 0x3dfac98ae57b5145),
  ("uhppote/uhppote.go:type none", 0x34dcdd804f00dc3f, 0xf82820eddec202fd),
  ("uhppote/uhppote.go:type uhppote", 0x0c67b5089c663d12, 0x129cbc67c9048a7a),
  ("uhppote/uhppote.go:uhppote.DeviceList", 0x5f92777da0371a19, 0x646de21eea062ed7),
  ("uhppote/uhppote.go:uhppote.ListenAddrList", 0x9a92ff4142378d95, 0x05c6a83753b087a3)
]

def C18 : List (String × Nat × Nat) := [
  ("encoding/UTO311-L0x/UT0311-L0x.go:Marshal", 0xc5159313c4584fa7, 0x0393acbc69f04e82),
  ("encoding/UTO311-L0x/UT0311-L0x.go:Unmarshal", 0xba18f4eff193b0a0, 0x851f40e339a78d8f),
  ("encoding/UTO311-L0x/UT0311-L0x.go:UnmarshalArray", 0x0e3ac0eb00f09a4b, 0x9205ecc879e63793),
  ("encoding/UTO311-L0x/UT0311-L0x.go:UnmarshalArrayElement", 0x78003d236217b2e2, 0x9024a1b0071e0e40),
  ("encoding/UTO311-L0x/UT0311-L0x.go:UnmarshalAs", 0x59c05f7353d9a520, 0xcc9279838022c1d5),
  ("encoding/UTO311-L0x/UT0311-L0x.go:marshal", 0x5cb570f8b12e4741, 0xefaae6aee8196998),
  ("encoding/UTO311-L0x/UT0311-L0x.go:type Marshaler", 0x6ebf4331d3217e3d, 0x68b6c861e261af40),
  ("encoding/UTO311-L0x/UT0311-L0x.go:type Unmarshaler", 0x022d3a56a73af9af, 0x5a9d826487deab1b),
  ("encoding/UTO311-L0x/UT0311-L0x.go:unmarshal", 0x232ecd7e85b67dd6, 0x49408ef53958a8c4),
  ("encoding/UTO311-L0x/UT0311-L0x.go:var re", 0xd1721804d949b320, 0x5c668639fe8c88e6),
  ("encoding/UTO311-L0x/UT0311-L0x.go:var tBool,tByte,tUint16,…", 0x368bdb7e741b7622, 0x795c11568a164d5e),
  ("encoding/UTO311-L0x/UT0311-L0x.go:var vre", 0x6da3516a610abe28, 0x48665a2b3575d275)
]

/-- declarations no property's model depends on (helpers for callers, debug output, constructors used only by tests) -/
def unpinned : List String := ["encoding/UTO311-L0x/UT0311-L0x.go:Dump", "types/HHmm.go:HHmm.After", "types/HHmm.go:HHmm.Before", "types/HHmm.go:HHmm.Equals", "types/HHmm.go:HHmm.after", "types/HHmm.go:HHmm.before", "types/HHmm.go:HHmmFromTime", "types/HHmm.go:NewHHmm", "types/date.go:Date.After", "types/date.go:Date.Before", "types/date.go:Date.Equals", "types/datetime.go:DateTime.Add", "types/datetime.go:DateTime.Before", "types/datetime.go:DateTimeNow", "uhppote/UT0311.go:ut0311.debugf", "uhppote/activate_keypads.go:uhppote.ActivateKeypads#guards", "uhppote/activate_keypads.go:uhppote.ActivateKeypads#request", "uhppote/add_task.go:uhppote.AddTask#guards", "uhppote/add_task.go:uhppote.AddTask#request", "uhppote/clear_task_list.go:uhppote.ClearTaskList#guards", "uhppote/clear_task_list.go:uhppote.ClearTaskList#request", "uhppote/clear_time_profiles.go:uhppote.ClearTimeProfiles#guards", "uhppote/clear_time_profiles.go:uhppote.ClearTimeProfiles#request", "uhppote/delete_card.go:uhppote.DeleteCard#guards", "uhppote/delete_card.go:uhppote.DeleteCard#request", "uhppote/delete_cards.go:uhppote.DeleteCards#guards", "uhppote/delete_cards.go:uhppote.DeleteCards#request", "uhppote/get_card.go:uhppote.GetCardByID#guards", "uhppote/get_card.go:uhppote.GetCardByID#request", "uhppote/get_card.go:uhppote.GetCardByIndex#guards", "uhppote/get_card.go:uhppote.GetCardByIndex#request", "uhppote/get_cards.go:uhppote.GetCards#guards", "uhppote/get_cards.go:uhppote.GetCards#request", "uhppote/get_device.go:uhppote.GetDevice#guards", "uhppote/get_device.go:uhppote.GetDevice#request", "uhppote/get_door_control_state.go:uhppote.GetDoorControlState#guards", "uhppote/get_door_control_state.go:uhppote.GetDoorControlState#request", "uhppote/get_event.go:uhppote.GetEvent#guards", "uhppote/get_event.go:uhppote.GetEvent#request", "uhppote/get_event_index.go:uhppote.GetEventIndex#guards", "uhppote/get_event_index.go:uhppote.GetEventIndex#request", "uhppote/get_listener.go:uhppote.GetListener#guards", "uhppote/get_listener.go:uhppote.GetListener#request", "uhppote/get_status.go:uhppote.GetStatus#guards", "uhppote/get_status.go:uhppote.GetStatus#request", "uhppote/get_time.go:uhppote.GetTime#guards", "uhppote/get_time.go:uhppote.GetTime#request", "uhppote/get_time_profile.go:uhppote.GetTimeProfile#guards", "uhppote/get_time_profile.go:uhppote.GetTimeProfile#request", "uhppote/iuhppote.go:type IUHPPOTE", "uhppote/open.go:uhppote.OpenDoor#guards", "uhppote/open.go:uhppote.OpenDoor#request", "uhppote/put_card.go:uhppote.PutCard#guards", "uhppote/put_card.go:uhppote.PutCard#request", "uhppote/record_special_events.go:uhppote.RecordSpecialEvents#guards", "uhppote/record_special_events.go:uhppote.RecordSpecialEvents#request", "uhppote/refresh_tasklist.go:uhppote.RefreshTaskList#guards", "uhppote/refresh_tasklist.go:uhppote.RefreshTaskList#request", "uhppote/restore_default_parameters.go:uhppote.RestoreDefaultParameters#guards", "uhppote/restore_default_parameters.go:uhppote.RestoreDefaultParameters#request", "uhppote/set_address.go:uhppote.SetAddress#guards", "uhppote/set_address.go:uhppote.SetAddress#request", "uhppote/set_door_control_state.go:uhppote.SetDoorControlState#guards", "uhppote/set_door_control_state.go:uhppote.SetDoorControlState#request", "uhppote/set_door_passcodes.go:uhppote.SetDoorPasscodes#guards", "uhppote/set_door_passcodes.go:uhppote.SetDoorPasscodes#request", "uhppote/set_event_index.go:uhppote.SetEventIndex#guards", "uhppote/set_event_index.go:uhppote.SetEventIndex#request", "uhppote/set_interlock.go:uhppote.SetInterlock#guards", "uhppote/set_interlock.go:uhppote.SetInterlock#request", "uhppote/set_listener.go:uhppote.SetListener#guards", "uhppote/set_listener.go:uhppote.SetListener#request", "uhppote/set_pc_control.go:uhppote.SetPCControl#guards", "uhppote/set_pc_control.go:uhppote.SetPCControl#request", "uhppote/set_time.go:uhppote.SetTime#guards", "uhppote/set_time.go:uhppote.SetTime#request", "uhppote/set_time_profile.go:uhppote.SetTimeProfile#request", "uhppote/uhppote.go:const VERSION", "uhppote/uhppote.go:uhppote.debugf"]

end Uhppote.Model.Pins
