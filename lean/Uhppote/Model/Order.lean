/-! Model of the comparison functions in types/date.go, types/HHmm.go, types/datetime.go and of
    the segment guard in uhppote/set_time_profile.go, written as the nested ifs they are. -/
namespace Uhppote.Model.Order

structure YMD where
  y : Int
  m : Int
  d : Int
deriving DecidableEq, Repr

structure HM where
  h : Int
  m : Int
deriving DecidableEq, Repr

/-- `Date.Before`: if p.Year() < q.Year() {true}; if == { if Month < {true}; if == { if Day < {true} } }; false -/
def dateBefore (p q : YMD) : Bool :=
  if p.y < q.y then true
  else if p.y = q.y then
    (if p.m < q.m then true
     else if p.m = q.m then (if p.d < q.d then true else false)
     else false)
  else false

def dateAfter (p q : YMD) : Bool :=
  if p.y > q.y then true
  else if p.y = q.y then
    (if p.m > q.m then true
     else if p.m = q.m then (if p.d > q.d then true else false)
     else false)
  else false

def dateEquals (p q : YMD) : Bool := p.y == q.y && p.m == q.m && p.d == q.d

def hhmmBefore (p q : HM) : Bool :=
  if p.h < q.h then true
  else if p.h = q.h then (if p.m < q.m then true else false)
  else false

def hhmmAfter (p q : HM) : Bool :=
  if p.h > q.h then true
  else if p.h = q.h then (if p.m > q.m then true else false)
  else false

def hhmmEquals (p q : HM) : Bool := p.h == q.h && p.m == q.m

/-- `DateTime.Before`: `p := d.UnixMilli() / 1000; q := t.UnixMilli() / 1000; p < q` with Go's
    truncating integer division -/
def dateTimeBefore (dms tms : Int) : Bool := Int.tdiv dms 1000 < Int.tdiv tms 1000

/-- the segment guard of SetTimeProfile: `segment.End.Before(segment.Start)` ⇒ reject -/
def segmentRejected (start end_ : HM) : Bool := hhmmBefore end_ start

end Uhppote.Model.Order
