import Uhppote.Basic.Bytes
/-! Model of encoding/bcd/bcd.go: the two loops as they are written, parametrised by the
    switch tables (which the translator regenerates into `Gen.BCD`).

    Strings are modelled as their UTF-8 bytes. Go ranges over runes; a rune equals an ASCII
    digit only when it was decoded from that single byte, every other byte belongs to a rune that
    hits the `default:` arm, so "iterate bytes, look each up in the rune table" has the same
    result (the difference is only in *where* the loop stops, which is not observable). -/
namespace Uhppote.Model.BCD

structure Tables where
  enc   : List (Nat × Nat)      -- rune → nibble (case arms of Encode)
  decHi : List (Nat × Nat)      -- (b & hiMask) → rune
  decLo : List (Nat × Nat)      -- (b & loMask) → rune
  hiMask : Nat
  loMask : Nat
deriving DecidableEq, Repr

def lookup (t : List (Nat × Nat)) (k : Nat) : Option Nat :=
  match t with
  | [] => none
  | (a, b) :: r => if a = k then some b else lookup r k

/-- the `for _, ch := range s` loop: `bytes[ix/2] *= 16; bytes[ix/2] += b; ix += 1` -/
def encodeLoop (T : Tables) : Bytes → Bytes → Nat → Option Bytes
  | [], buf, _ => some buf
  | ch :: rest, buf, ix =>
    match lookup T.enc ch.toNat with
    | none => none                                        -- default: return nil, error
    | some b => encodeLoop T rest (buf.set (ix / 2) (buf.getD (ix / 2) 0 * 16 + UInt8.ofNat b)) (ix + 1)

/-- `N := (len(s)+1)/2; bytes := make([]byte, N); ix := len(s) % 2; loop` -/
def encode (T : Tables) (s : Bytes) : Option Bytes :=
  encodeLoop T s (zeros ((s.length + 1) / 2)) (s.length % 2)

/-- the `for _, b := range bytes` loop with its two switches -/
def decode (T : Tables) : Bytes → Option Bytes
  | [] => some []
  | b :: rest =>
    match lookup T.decHi (b.toNat &&& T.hiMask), lookup T.decLo (b.toNat &&& T.loMask), decode T rest with
    | some h, some l, some r => some (UInt8.ofNat h :: UInt8.ofNat l :: r)
    | _, _, _ => none

def canonical : Tables where
  enc := [(48, 0), (49, 1), (50, 2), (51, 3), (52, 4), (53, 5), (54, 6), (55, 7), (56, 8), (57, 9)]
  decHi := [(0, 48), (16, 49), (32, 50), (48, 51), (64, 52), (80, 53), (96, 54), (112, 55), (128, 56), (144, 57)]
  decLo := [(0, 48), (1, 49), (2, 50), (3, 51), (4, 52), (5, 53), (6, 54), (7, 55), (8, 56), (9, 57)]
  hiMask := 240
  loMask := 15

end Uhppote.Model.BCD
