/-! Time model for C13 (and the zone clauses of C05 / C14): the proleptic Gregorian calendar as
    day numbers, a time zone as a piecewise-constant offset function with its period bounds (what
    Go's `Location.lookup` returns), Go's `time.Date` zone resolution (go1.23 time/time.go), and
    the date constructor of the repository (`startOfDay`). -/
namespace Uhppote.Model.Time

/-! ### calendar (executable; the theorems treat it abstractly through day numbers) -/

/-- days since 1970-01-01 of a civil date (Hinnant's algorithm), valid for all years -/
def daysFromCivil (y m d : Int) : Int :=
  let y' := if m ≤ 2 then y - 1 else y
  let era := (if y' ≥ 0 then y' else y' - 399) / 400
  let yoe := y' - era * 400
  let mp := (m + 9) % 12
  let doy := (153 * mp + 2) / 5 + d - 1
  let doe := yoe * 365 + yoe / 4 - yoe / 100 + doy
  era * 146097 + doe - 719468

/-- civil date of a day number -/
def civilFromDays (z : Int) : Int × Int × Int :=
  let z := z + 719468
  let era := (if z ≥ 0 then z else z - 146096) / 146097
  let doe := z - era * 146097
  let yoe := (doe - doe / 1460 + doe / 36524 - doe / 146096) / 365
  let y := yoe + era * 400
  let doy := doe - (365 * yoe + yoe / 4 - yoe / 100)
  let mp := (5 * doy + 2) / 153
  let d := doy - (153 * mp + 2) / 5 + 1
  let m := if mp < 10 then mp + 3 else mp - 9
  (if m ≤ 2 then y + 1 else y, m, d)

/-- civil seconds: the instant a civil date-time would be in UTC -/
def civilSeconds (y m d h mi s : Int) : Int := daysFromCivil y m d * 86400 + h * 3600 + mi * 60 + s

/-- (y, m, d, h, mi, s) of civil seconds -/
def fieldsOf (c : Int) : Int × Int × Int × Int × Int × Int :=
  let day := c / 86400
  let r := c % 86400
  let (y, m, d) := civilFromDays day
  (y, m, d, r / 3600, r % 3600 / 60, r % 60)

/-! ### zones -/

/-- what `Location.lookup(sec)` returns: the offset in force at `sec` and the bounds of the
    period it lies in -/
structure Zone where
  off : Int → Int
  lo : Int → Int
  hi : Int → Int

/-- civil seconds shown by a clock in zone `z` at instant `u` -/
def civil (z : Zone) (u : Int) : Int := u + z.off u

/-- `time.Date(…, loc)`: look the offset up at the civil value as if it were UTC, and once more
    at the corrected instant when that falls outside the period found -/
def goDate (z : Zone) (c : Int) : Int :=
  let o := z.off c
  if o = 0 then c else
  let utc := c - o
  let o' := if utc < z.lo c ∨ utc ≥ z.hi c then z.off utc else o
  c - o'

def dayOf (c : Int) : Int := c / 86400

/-- the repository's date constructor (after the repair of D11): local midnight; when that
    falls on another civil day than local noon (a DST change removed midnight), the start of the
    zone period that noon lies in (`ZoneBounds`), i.e. the first instant of the day -/
def startOfDay (z : Zone) (midnight : Int) : Int :=
  let t := goDate z midnight
  let noon := goDate z (midnight + 43200)
  if dayOf (civil z t) ≠ dayOf (civil z noon) then
    (if z.lo noon > t then z.lo noon else t)
  else t

/-- the constructor before the repair: `time.Date(y, m, d, 0, 0, 0, 0, time.Local)` -/
def naiveDate (z : Zone) (midnight : Int) : Int := goDate z midnight

/-! ### zones given by a transition list (for the drivers) -/

/-- transitions (instant, offset from then on) in ascending order, `init` before the first -/
structure ZoneData where
  init : Int
  trs : List (Int × Int)
deriving Repr

def alpha : Int := -9223372036854775808      -- Go: unbounded start
def omega : Int := 9223372036854775807       -- Go: unbounded end

def ZoneData.zone (zd : ZoneData) : Zone where
  off := fun v => ((zd.trs.filter (·.1 ≤ v)).getLast?.map (·.2)).getD zd.init
  lo := fun v => ((zd.trs.filter (·.1 ≤ v)).getLast?.map (·.1)).getD alpha
  hi := fun v => ((zd.trs.find? (·.1 > v)).map (·.1)).getD omega

/-- does the civil time `c` exist on a clock of zone `z`, as far as the listed transitions tell:
    some candidate instant `c - o` (o an offset in force nearby) shows it -/
def ZoneData.exists_ (zd : ZoneData) (c : Int) : Bool :=
  (zd.init :: zd.trs.map (·.2)).any fun o => civil zd.zone (c - o) == c

end Uhppote.Model.Time
