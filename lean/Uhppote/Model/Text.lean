import Uhppote.Model.Codec
/-! Text and JSON-string forms of the leaf value types (C14): the `String()` / parser pairs and
    the hand-written `MarshalJSON` / `UnmarshalJSON` bodies of types/*.go, on `List Char`.
    The JSON layer itself (`encoding/json` quoting, struct plumbing) is not modelled: a line of
    the `text` stream carries the INNER text of an escape-free JSON string. Dates are civil
    fields (zones: C13). Numeric bounds of the HH:mm parsers are regenerated facts. -/
namespace Uhppote.Model.Text
open Uhppote Uhppote.Model

def isDig (c : Char) : Bool := '0' ≤ c && c ≤ '9'
def dval (c : Char) : Nat := c.toNat - 48
def num (cs : List Char) : Nat := cs.foldl (fun a c => a * 10 + dval c) 0

def d2 (n : Nat) : List Char := [Char.ofNat (48 + n / 10 % 10), Char.ofNat (48 + n % 10)]
def d4 (n : Nat) : List Char := d2 (n / 100) ++ d2 (n % 100)

/-! ### Date: layout "2006-01-02" -/

def formatDate (d : YMD) : List Char := d4 d.y ++ '-' :: d2 d.m ++ '-' :: d2 d.d

/-- `time.Parse("2006-01-02", s)`: exactly dddd-dd-dd, a calendar date; anything else is an error -/
def parseDateText (s : List Char) : Option YMD :=
  match s with
  | [y1, y2, y3, y4, '-', m1, m2, '-', a, b] =>
    if [y1, y2, y3, y4, m1, m2, a, b].all isDig then
      let d : YMD := ⟨num [y1, y2, y3, y4], num [m1, m2], num [a, b]⟩
      if validYMD d.y d.m d.d then some d else none
    else none
  | _ => none

/-- `ParseDate`: blank is an error -/
def parseDate (s : List Char) : Option YMD := if s.isEmpty then none else parseDateText s

/-- `Date.String()` / `MarshalJSON`: the zero date is the empty string -/
def dateString : Option YMD → List Char
  | none => []
  | some d => formatDate d

/-- `Date.UnmarshalJSON` on the decoded string: "" is the zero date -/
def dateFromJSON (s : List Char) : Option (Option YMD) :=
  if s.isEmpty then some none else (parseDateText s).map some

/-! ### HH:mm -/

def hhmmString (t : HM) : List Char :=
  -- `%02d:%02d` for in-domain values
  d2 t.h.toNat ++ ':' :: d2 t.m.toNat

/-- regex `^([0-9]{2}):([0-9]{2})$`, `Atoi`, then the three range checks (bounds regenerated) -/
def parseHHmm (B : HHmmBounds) (s : List Char) : Option HM :=
  match s with
  | [a, b, ':', c, d] =>
    if [a, b, c, d].all isDig then
      let h := num [a, b]; let m := num [c, d]
      if h > B.maxHours then none else if m > B.maxMinutes then none
      else if B.rule24 ∧ h = 24 ∧ m ≠ 0 then none else some ⟨h, m⟩
    else none
  | _ => none

/-! ### PIN (JSON string) -/

/-- decimal text without leading zeros -/
def decimal (n : Nat) : List Char :=
  let d := fun k => Char.ofNat (48 + k % 10)
  if n < 10 then [d n]
  else if n < 100 then [d (n / 10), d n]
  else if n < 1000 then [d (n / 100), d (n / 10), d n]
  else if n < 10000 then [d (n / 1000), d (n / 100), d (n / 10), d n]
  else if n < 100000 then [d (n / 10000), d (n / 1000), d (n / 100), d (n / 10), d n]
  else if n < 1000000 then [d (n / 100000), d (n / 10000), d (n / 1000), d (n / 100), d (n / 10), d n]
  else Nat.toDigits 10 n

def pinJSON (p : Nat) : List Char := if p = 0 ∨ p > 999999 then [] else decimal p

/-- `^[0-9]{0,6}$`, "" = 0, else `ParseUint` -/
def pinFromJSON (s : List Char) : Option Nat :=
  if s.length ≤ 6 ∧ s.all isDig then some (num s) else none

/-! ### door control state -/

def controlStateNames : List (Nat × String) := [(1, "normally open"), (2, "normally closed"), (3, "controlled")]

def controlStateFromJSON (s : List Char) : Option Nat :=
  (controlStateNames.find? (fun p => p.2.toList = s)).map (·.1)

def controlStateString (v : Nat) : List Char :=
  ((controlStateNames.find? (·.1 = v)).map (·.2.toList)).getD []

/-! ### task type -/

def taskNames : List String :=
  ["CONTROL DOOR", "UNLOCK DOOR", "LOCK DOOR", "DISABLE TIME PROFILE", "ENABLE TIME PROFILE",
   "ENABLE CARD, NO PASSWORD", "ENABLE CARD+IN PASSWORD", "ENABLE CARD+PASSWORD", "ENABLE MORE CARDS",
   "DISABLE MORE CARDS", "TRIGGER ONCE", "DISABLE PUSH BUTTON", "ENABLE PUSH BUTTON"]

def lower (c : Char) : Char := if 'A' ≤ c ∧ c ≤ 'Z' then Char.ofNat (c.toNat + 32) else c

/-- `re.ReplaceAllString(strings.ToLower(s), "")` with `[^a-z]+`: keep the ASCII letters, lower-cased -/
def clean (s : List Char) : List Char := (s.map lower).filter fun c => 'a' ≤ c && c ≤ 'z'

/-- `UnmarshalTSV` / `UnmarshalJSON` on raw text: all digits ⇒ a number 1..13, otherwise a name
    compared after `clean` -/
def taskTypeFromText (s : List Char) : Option Nat :=
  if !s.isEmpty ∧ s.all isDig then
    (if s.length ≤ 18 ∧ 1 ≤ num s ∧ num s ≤ 13 then some (num s - 1) else none)
  else
    let t := clean s
    (taskNames.zipIdx.find? (fun p => clean p.1.toList = t)).map (·.2)

def taskTypeString (v : Nat) : List Char := (taskNames[v]?.map String.toList).getD []

/-! ### weekdays: the JSON string is the comma-joined names of the set days (Monday first);
    decoding splits at commas, lower-cases each token and sets the days whose full name appears,
    ignoring everything else (it never fails); `String()` joins the abbreviations -/

def dayNames : List String := ["Monday", "Tuesday", "Wednesday", "Thursday", "Friday", "Saturday", "Sunday"]
def dayAbbreviations : List String := ["Mon", "Tue", "Wed", "Thurs", "Fri", "Sat", "Sun"]

def joinComma : List (List Char) → List Char
  | [] => []
  | [a] => a
  | a :: b :: r => a ++ ',' :: joinComma (b :: r)

/-- `strings.Split(s, ",")` -/
def splitComma (s : List Char) : List (List Char) :=
  let rec go : List Char → List Char → List (List Char)
    | [], cur => [cur.reverse]
    | c :: r, cur => if c = ',' then cur.reverse :: go r [] else go r (c :: cur)
  go s []

/-- `w` = the seven flags Monday..Sunday -/
def weekdaysJSON (w : List Bool) : List Char :=
  joinComma ((dayNames.zip w).filterMap fun p => if p.2 then some p.1.toList else none)

def weekdaysString (w : List Bool) : List Char :=
  joinComma ((dayAbbreviations.zip w).filterMap fun p => if p.2 then some p.1.toList else none)

def weekdaysFromJSON (s : List Char) : List Bool :=
  let toks := (splitComma s).map fun t => t.map lower
  dayNames.map fun n => toks.contains (n.toList.map lower)

/-! ### firmware version: "%04x" -/

def hexd (n : Nat) : Char := if n < 10 then Char.ofNat (48 + n) else Char.ofNat (87 + n)
def versionJSON (v : Nat) : List Char := [hexd (v / 4096 % 16), hexd (v / 256 % 16), hexd (v / 16 % 16), hexd (v % 16)]

def hexv (c : Char) : Option Nat :=
  if '0' ≤ c ∧ c ≤ '9' then some (c.toNat - 48)
  else if 'a' ≤ c ∧ c ≤ 'f' then some (c.toNat - 87)
  else if 'A' ≤ c ∧ c ≤ 'F' then some (c.toNat - 55) else none

/-- `fmt.Sscanf(s, "%04x", v)`: leading spaces skipped, then up to four hex digits (at least one) -/
def versionFromJSON (s : List Char) : Option Nat :=
  let s := s.dropWhile (fun c => c = ' ' ∨ c = '\t' ∨ c = '\r')
  let ds := (s.take 4).takeWhile (fun c => (hexv c).isSome)
  if ds.isEmpty then none else some (ds.foldl (fun a c => a * 16 + (hexv c).getD 0) 0)

/-! ### system time: layout "15:04:05" -/

def systemTimeString (t : HMS) : List Char := d2 t.h ++ ':' :: d2 t.m ++ ':' :: d2 t.s

/-- `time.Parse("15:04:05", s)`: one or two hour digits, two-digit minutes and seconds, an
    optional fractional second after '.' or ',' -/
def parseSystemTime (s : List Char) : Option HMS :=
  let hd := s.takeWhile isDig
  if hd.isEmpty ∨ hd.length > 2 then none
  else match s.drop hd.length with
    | ':' :: m1 :: m2 :: ':' :: s1 :: s2 :: rest =>
      if [m1, m2, s1, s2].all isDig then
        let frac : Bool := match rest with
          | [] => true
          | c :: r => (c == '.' || c == ',') && !r.isEmpty && r.all isDig
        let t : HMS := ⟨num hd, num [m1, m2], num [s1, s2]⟩
        if frac = true ∧ t.h < 24 ∧ t.m < 60 ∧ t.s < 60 then some t else none
      else none
    | _ => none

/-! ### card format: unanchored, case-insensitive `any` / `wiegand[ -]?26` -/

def hasFactor (p : List Char) (s : List Char) : Bool :=
  (List.range (s.length + 1)).any fun i => (s.drop i).take p.length = p

def cardFormatFromString (s : List Char) : Option Nat :=
  let t := s.map lower
  if hasFactor "any".toList t then some 0
  else if hasFactor "wiegand26".toList t ∨ hasFactor "wiegand 26".toList t ∨ hasFactor "wiegand-26".toList t then some 1
  else none

def cardFormatString (v : Nat) : List Char := if v = 0 then "any".toList else "Wiegand-26".toList

end Uhppote.Model.Text
