import Uhppote.Model.Codec
/-! Model of uhppote/uhppote.go (`sendto`, `broadcast`, `resolve`, the routing closure) and of the
    32 request-issuing operations (`uhppote/<op>.go`): guards, request construction, reply
    interpretation, written after the source. Layouts, codec facts and tables are parameters
    (regenerated); of the per-operation code the guards and the request construction are regenerated
    (`Gen/Ops.lean`, which also assembles the operation table); the reply interpretation
    (`result_<Op>`) is hand-modelled and tied by the `ops` correspondence stream and source pins. -/
namespace Uhppote.Model.Api
open Uhppote Uhppote.Model

/-- arguments of an API call, in the order of the Go signature, flattened:
    maps are given by their entries for the keys the operation looks up (`absent` = no entry) -/
inductive Arg where
  | v (x : Val)
  | absent                                   -- missing map entry / nil map
  | seg (s : Option (HM × HM))               -- profile.Segments[k]
  | int (n : Int)                            -- a Go int / enum (ControlState, TaskType)
  | list (xs : List Nat)                     -- variadic uint32s (passcodes) / card formats
deriving Repr

/-- what an operation returns -/
inductive Res where
  | err                                      -- (zero, error)
  | nil                                      -- (nil, nil): "no such record"
  | vals (xs : List Val)                     -- the result fields in the order of the result struct
deriving DecidableEq, Repr

structure Op where
  name : String
  request : String                           -- request message type
  reply : Option String                      -- reply message type (none: SetAddress)
  /-- guards in source order; `true` = reject -/
  rejects : List Arg → Bool
  /-- values of the request struct's fields, in layout order (`none_` for the MsgType field) -/
  build : List Arg → List Val
  /-- reply struct fields (layout order) ↦ result -/
  result : List Arg → List Val → Res

def u32? : Arg → Nat | .v (.u32 n) => n | _ => 0
def u8? : Arg → UInt8 | .v (.u8 n) => n | _ => 0        -- a missing map entry reads as the zero value
def bool? : Arg → Bool | .v (.bool b) => b | _ => false
def val? : Arg → Val | .v x => x | _ => .none_
def date? : Arg → Option YMD | .v (.date d) => d | _ => none
def hm? : Arg → HM | .v (.hhmm t) => t | _ => ⟨0, 0⟩
/-- `uint8(x)` of a Go int -/
def conv8 : Arg → UInt8 | .int n => UInt8.ofNat (n % 256).toNat | .v (.u8 n) => n | _ => 0

/-- `x.To4() == nil` -/
def notIPv4 : Arg → Bool | .v (.ip b) => (to4 b).isNone | _ => true

def devZero (a : List Arg) : Bool := u32? (a.getD 0 .absent) == 0
def dev (a : List Arg) : Val := .u32 (u32? (a.getD 0 .absent))
def arg (a : List Arg) (i : Nat) : Arg := a.getD i .absent
def hdr : Val := .u8 0                        -- value of the MsgType field (its tag decides)
def magic : Val := .u32 0x55aaaa55

def okBool (reply : List Val) (i : Nat) : Res := .vals [reply.getD i .none_]

/-- `facilityCode := card / 100000; cardNumber := card % 100000; > 255 ⇒ false; > 65535 ⇒ false` -/
def isWiegand26 (card : Nat) : Bool :=
  let facilityCode := card / 100000
  let cardNumber := card % 100000
  if facilityCode > 255 then false else if cardNumber > 65535 then false else true

/-- `isCardNumberValid`: no formats ⇒ valid; otherwise some format matches (0 = any, 1 = Wiegand-26;
    unknown format values match nothing) -/
def isCardNumberValid (card : Nat) (formats : List Nat) : Bool :=
  formats.isEmpty || formats.any fun f => if f = 1 then isWiegand26 card else f = 0

def passcode (ps : List Nat) (i : Nat) : Val :=
  match ps[i]? with
  | some p => if p ≤ 999999 then .u32 p else .u32 0
  | none => .u32 0

def segRejected (a : Arg) : Bool :=
  match a with
  | .seg (some (s, e)) =>
    -- segment.End.Before(segment.Start)
    (if e.h < s.h then true else if e.h = s.h then decide (e.m < s.m) else false)
  | _ => true                                 -- missing segment

def segStart : Arg → Val | .seg (some (s, _)) => .hhmm s | _ => .hhmm ⟨0, 0⟩
def segEnd : Arg → Val | .seg (some (_, e)) => .hhmm e | _ => .hhmm ⟨0, 0⟩

def cardResult (reply : List Val) : Res :=
  -- CardNumber From To Door1..4 PIN  (reply: MsgType Serial CardNumber From To D1 D2 D3 D4 PIN)
  .vals ((reply.drop 2).take 8)

def hmOfPtr : Val → Val
  | .hhmmPtr (some t) => .hhmm t
  | _ => .hhmm ⟨0, 0⟩

/-- the `sysdatetime` closure of GetStatus / Listen: the system date and the system time joined and parsed in
    the process zone again; the zero system date (and a date-time that comes out as the zero instant) gives
    the zero date-time -/
def sysDateTime (date time : Val) : Val :=
  match date, time with
  | .sysDate (some d), .sysTime t =>
    if d.y = 1 ∧ d.m = 1 ∧ d.d = 1 ∧ t.h = 0 ∧ t.m = 0 ∧ t.s = 0 then .dateTime none
    else .dateTime (some ⟨d.y, d.m, d.d, t.h, t.m, t.s⟩)
  | _, _ => .dateTime none

/-- the zero-valued StatusEvent of a status without an event -/
def statusNoEvent : List Val := [.u32 0, .u8 0, .bool false, .u8 0, .u8 0, .u32 0, .dateTime none, .u8 0]

/-- the event part of a status: present exactly when the event index is non-zero -/
def statusEventOf (r : List Val) : List Val :=
  let g := fun i => r.getD i .none_
  match g 2 with
  | .u32 0 => statusNoEvent
  | _ => [g 2, g 3, g 4, g 5, g 6, g 7, g 8, g 9]

/-- status / event: system date + system time recombined, event present iff index ≠ 0 -/
def statusResult (r : List Val) : Res :=
  -- r: 0 MsgType 1 Serial 2 EventIndex 3 EventType 4 Granted 5 Door 6 Direction 7 CardNumber 8 Timestamp
  --    9 Reason 10-13 DoorState 14-17 DoorButton 18 SystemError 19 SystemDate 20 SystemTime
  --    21 SequenceId 22 SpecialInfo 23 RelayState 24 InputState
  let g := fun i => r.getD i .none_
  .vals ([g 1, g 10, g 11, g 12, g 13, g 14, g 15, g 16, g 17, g 18, sysDateTime (g 19) (g 20), g 21, g 22, g 23, g 24] ++
    statusEventOf r)

/-- a variadic / slice argument -/
def list? : Arg → List Nat | .list xs => xs | _ => []

/-! `netip.AddrPort` arguments, at the granularity of `AddrPort` (`other` = the zero value, IPv6,
    IPv4-mapped, zoned: everything that is not a plain IPv4 address with a port; it is treated as
    invalid AND not IPv4 — every guard chain in the library rejects both) -/
def apValid : Arg → Bool | .v (.addrPort (.v4 ..)) => true | _ => false
def apIs4 : Arg → Bool | .v (.addrPort (.v4 ..)) => true | _ => false
def apIsZero : Arg → Bool | .v (.addrPort (.v4 x y z w p)) => x == 0 && y == 0 && z == 0 && w == 0 && p == 0 | _ => false
def apPort : Arg → Nat | .v (.addrPort (.v4 _ _ _ _ p)) => p | _ => 0

/-! ### reply interpretation of each operation (hand-modelled after `uhppote/<op>.go`, tied by the `ops`
    stream and the source pins; guards and request construction are regenerated: `Gen/Ops.lean`) -/

@[simp] def result_GetDevice : List Arg → List Val → Res := fun _ r => .vals (r.drop 1)

@[simp] def result_SetAddress : List Arg → List Val → Res := fun a _ => .vals [dev a, .bool true]

@[simp] def result_GetListener : List Arg → List Val → Res := fun _ r => .vals [r.getD 2 .none_, r.getD 3 .none_]

@[simp] def result_SetListener : List Arg → List Val → Res := fun _ r => okBool r 2

@[simp] def result_GetTime : List Arg → List Val → Res := fun _ r => .vals [r.getD 1 .none_, r.getD 2 .none_]

@[simp] def result_SetTime : List Arg → List Val → Res := fun _ r => .vals [r.getD 1 .none_, r.getD 2 .none_]

@[simp] def result_GetDoorControlState : List Arg → List Val → Res := fun _ r => .vals [r.getD 1 .none_, r.getD 2 .none_, r.getD 3 .none_, r.getD 4 .none_]

@[simp] def result_SetDoorControlState : List Arg → List Val → Res := fun _ r => .vals [r.getD 1 .none_, r.getD 2 .none_, r.getD 3 .none_, r.getD 4 .none_]

@[simp] def result_GetStatus : List Arg → List Val → Res := fun _ r => statusResult r

@[simp] def result_GetCards : List Arg → List Val → Res := fun _ r => .vals [r.getD 2 .none_]

@[simp] def result_GetCardByIndex : List Arg → List Val → Res := fun _ r =>
      match r.getD 2 .none_ with
      | .u32 n => if n = 0 ∨ n = 0xffffffff then .nil else cardResult r
      | _ => .err

@[simp] def result_GetCardByID : List Arg → List Val → Res := fun a r =>
      match r.getD 2 .none_ with
      | .u32 n => if n = 0 then .nil else if n ≠ u32? (arg a 1) then .err else cardResult r
      | _ => .err

@[simp] def result_PutCard : List Arg → List Val → Res := fun _ r => okBool r 2

@[simp] def result_DeleteCard : List Arg → List Val → Res := fun _ r => okBool r 2

@[simp] def result_DeleteCards : List Arg → List Val → Res := fun _ r => okBool r 2

@[simp] def result_GetTimeProfile : List Arg → List Val → Res := fun a r =>
      -- r: 0 MsgType 1 Serial 2 ProfileID 3 From 4 To 5-11 Mon..Sun 12-17 segments 18 Linked
      match r.getD 2 .none_ with
      | .u8 n =>
        if n ≠ 0 ∧ n ≠ u8? (arg a 1) then .err
        else if n = 0 then .nil
        else .vals ([.u8 n, r.getD 18 .none_, r.getD 3 .none_, r.getD 4 .none_] ++ (r.drop 5).take 7 ++
                    ((r.drop 12).take 6).map hmOfPtr)
      | _ => .err

@[simp] def result_SetTimeProfile : List Arg → List Val → Res := fun _ r => okBool r 2

@[simp] def result_ClearTimeProfiles : List Arg → List Val → Res := fun _ r => okBool r 2

@[simp] def result_ClearTaskList : List Arg → List Val → Res := fun _ r => okBool r 2

@[simp] def result_AddTask : List Arg → List Val → Res := fun _ r => okBool r 2

@[simp] def result_RefreshTaskList : List Arg → List Val → Res := fun _ r => okBool r 2

@[simp] def result_RecordSpecialEvents : List Arg → List Val → Res := fun _ r => okBool r 2

@[simp] def result_GetEvent : List Arg → List Val → Res := fun _ r =>
      -- r: 0 MsgType 1 Serial 2 Index 3 Type 4 Granted 5 Door 6 Direction 7 Card 8 Timestamp 9 Reason
      match r.getD 3 .none_, r.getD 2 .none_ with
      | .u8 t, .u32 ix => if t = 0xff then .err else if ix = 0 then .nil else .vals (r.drop 1)
      | _, _ => .err

@[simp] def result_GetEventIndex : List Arg → List Val → Res := fun _ r => .vals [r.getD 1 .none_, r.getD 2 .none_]

@[simp] def result_SetEventIndex : List Arg → List Val → Res := fun a r => .vals [r.getD 1 .none_, val? (arg a 1), r.getD 2 .none_]

@[simp] def result_SetDoorPasscodes : List Arg → List Val → Res := fun _ r => okBool r 2

@[simp] def result_OpenDoor : List Arg → List Val → Res := fun _ r => .vals [r.getD 1 .none_, r.getD 2 .none_]

@[simp] def result_SetPCControl : List Arg → List Val → Res := fun _ r => okBool r 2

@[simp] def result_SetInterlock : List Arg → List Val → Res := fun _ r => okBool r 2

@[simp] def result_ActivateKeypads : List Arg → List Val → Res := fun _ r => okBool r 2

@[simp] def result_RestoreDefaultParameters : List Arg → List Val → Res := fun _ r => okBool r 2


/-! ## routing and `sendto` -/

/-- configured controller, as the routing closure sees it -/
structure Controller where
  serial : Nat
  name : String
  port : Nat
  addrValid : Bool            -- `controller.Address.IsValid()` (address valid and port ≠ 0)
  addrUnspecified : Bool      -- `== netip.IPv4Unspecified()`
  endpoint : String           -- a.b.c.d:port
  tcp : Bool                  -- `controller.Protocol == "tcp"`
deriving Repr

structure Cfg where
  controllers : List Controller
  broadcastValid : Bool       -- `u.broadcastAddr.IsValid()`
  broadcast : String          -- configured broadcast endpoint
  broadcastPort : Nat
  defaultBroadcast : String   -- what `resolve` builds when none is configured (T4: regenerated)
deriving Repr

inductive Path where | broadcastTo | udp | tcp
deriving DecidableEq, Repr

def Path.toString : Path → String | .broadcastTo => "broadcast-to" | .udp => "udp" | .tcp => "tcp"

/-- the closure `f` in `sendto` -/
def route (cfg : Cfg) (serial : Nat) : Path × String :=
  let bc := if cfg.broadcastValid then cfg.broadcast else cfg.defaultBroadcast
  match cfg.controllers.find? (·.serial == serial) with
  | none => (.broadcastTo, bc)
  | some c =>
    if !c.addrValid || c.addrUnspecified then (.broadcastTo, bc)
    else if c.tcp then (.tcp, c.endpoint)
    else (.udp, c.endpoint)

structure Call where
  path : String
  endpoint : String
  payload : Bytes
deriving DecidableEq, Repr

def serialOf (d : Bytes) : Nat := unle32 (readAt d 4 4)

/-- `request[1]` -/
def codeOf (b : Bytes) : Nat := (b.getD 1 0).toNat

/-- what a read into a buffer of `bufSize` bytes makes of a datagram: the kernel silently drops
    what does not fit (UDP) or leaves it for a read that never happens (TCP) -/
def received (bufSize : Nat) (d : Bytes) : Bytes := d.take bufSize

/-- what the driver hands back: `none` = nil (no reply expected), `some none` = error / timeout -/
def driverReply (noReplyCode : Nat) (path : Path) (serial : Nat) (req : Bytes) (arrivals : List Bytes) :
    Option (Option Bytes) :=
  if codeOf req = noReplyCode then none
  else match path with
    | .broadcastTo =>
      -- the handler: keep reading until a 64-byte datagram with the right serial number arrives
      some (arrivals.find? fun d => d.length == 64 && serialOf d == serial)
    | _ => some arrivals.head?


variable (F : CodecFacts) (T : BCD.Tables) (B : HHmmBounds) (layouts : String → Option Layout)
  (noReplyCode : Nat)

/-- outcome of one API call: the driver calls it made and what it returned -/
structure Outcome where
  calls : List Call
  res : Res
deriving Repr

def ipOf : Val → Option (Nat × Nat × Nat × Nat)
  | .ip bs => match to4 bs with
    | some [a, b, c, d] => some (a.toNat, b.toNat, c.toNat, d.toNat)
    | _ => none
  | _ => none

/-- `GetDevice`: name of the configured controller and address completed with the port -/
def deviceExtras (cfg : Cfg) (serial : Nat) (reply : List Val) : List String :=
  let c := cfg.controllers.find? (·.serial == serial)
  let name := match c with | some c => (if c.name = "" then "-" else c.name) | none => "-"
  let port0 := if cfg.broadcastValid then cfg.broadcastPort else 60000
  let port := match c with | some c => if c.addrValid then c.port else port0 | none => port0
  let addr := match ipOf (reply.getD 2 .none_) with
    | some (a, b, c, d) => s!"{a}.{b}.{c}.{d}:{port}"
    | none => "invalid"
  [name, addr]

/-- `sendto` + the operation around it -/
def call (cfg : Cfg) (op : Op) (args : List Arg) (arrivals : List Bytes) : Outcome × List String :=
  if op.rejects args then (⟨[], .err⟩, [])
  else
    let serial := u32? (arg args 0)
    match layouts op.request with
    | none => (⟨[], .err⟩, [])
    | some L =>
      match marshal F T L (op.build args) with
      | .err | .panic => (⟨[], .err⟩, [])
      | .ok m =>
        let (path, ep) := route cfg serial
        let c : Call := ⟨path.toString, ep, m⟩
        match driverReply noReplyCode path serial m arrivals with
        | none => (⟨[c], op.result args []⟩, [])
        | some none => (⟨[c], .err⟩, [])
        | some (some d) =>
          if d.length ≠ 64 then (⟨[c], .err⟩, [])
          else if serialOf d ≠ serial then (⟨[c], .err⟩, [])
          else
            match op.reply.bind layouts with
            | none => (⟨[c], .err⟩, [])              -- `none{}`: any datagram decodes into the empty struct
            | some R =>
              match unmarshal F T B R d with
              | .ok r => (⟨[c], op.result args r⟩, if op.name == "GetDevice" then deviceExtras cfg serial r else [])
              | _ => (⟨[c], .err⟩, [])

end Uhppote.Model.Api
