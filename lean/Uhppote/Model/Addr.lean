/-! Model of the four address parsers of types/{bind,broadcast,listen,controller}_addr.go:
    regex pre-filter (an unanchored search for a dotted quad, with or without `:port`),
    then `netip.ParseAddrPort` / `netip.ParseAddr` on the WHOLE string, then the role's port rule.
    `netip` is modelled for strings over the alphabet digits, '.', ':' only; for any other
    string that passes a gate the model answers `unspecified`. Port rules, default ports and the
    regex literals are regenerated (`Gen.Addr`). -/
namespace Uhppote.Model.Addr

def isDig (c : Char) : Bool := '0' ≤ c && c ≤ '9'

/-- all remainders after consuming k digits, 1 ≤ k ≤ n (the regex `[0-9]{1,n}`) -/
def digits1to : Nat → List Char → List (List Char)
  | 0, _ => []
  | n + 1, c :: r => if isDig c then r :: digits1to n r else []
  | _ + 1, [] => []

def lit (ch : Char) (s : List Char) : List (List Char) :=
  match s with
  | c :: r => if c = ch then [r] else []
  | [] => []

/-- remainders after `[0-9]{1,3}\.[0-9]{1,3}\.[0-9]{1,3}\.[0-9]{1,3}` matched at the start -/
def quadAt (s : List Char) : List (List Char) :=
  (digits1to 3 s).flatMap fun r1 => (lit '.' r1).flatMap fun r2 =>
  (digits1to 3 r2).flatMap fun r3 => (lit '.' r3).flatMap fun r4 =>
  (digits1to 3 r4).flatMap fun r5 => (lit '.' r5).flatMap fun r6 => digits1to 3 r6

/-- remainders after the quad followed by `:[0-9]{1,5}` -/
def quadPortAt (s : List Char) : List (List Char) :=
  (quadAt s).flatMap fun r => (lit ':' r).flatMap fun r' => digits1to 5 r'

/-- `regexp.MatchString` of an unanchored pattern: some suffix starts with a match -/
def search (p : List Char → List (List Char)) : List Char → Bool
  | [] => !(p []).isEmpty
  | c :: r => !(p (c :: r)).isEmpty || search p r

def hasQuad (s : List Char) : Bool := search quadAt s
def hasQuadPort (s : List Char) : Bool := search quadPortAt s

/-! ### `netip` on digit / dot / colon strings -/

def digitRun : List Char → List Char × List Char
  | c :: r => if isDig c then let (d, rest) := digitRun r; (c :: d, rest) else ([], c :: r)
  | [] => ([], [])

def decVal (ds : List Char) : Nat := ds.foldl (fun a c => a * 10 + (c.toNat - 48)) 0

/-- one IPv4 field as netip parses it: digits, no leading zero, value ≤ 255 -/
def octet (s : List Char) : Option (Nat × List Char) :=
  let (ds, rest) := digitRun s
  if ds.isEmpty then none
  else if ds.length > 1 ∧ ds.head? = some '0' then none       -- "IPv4 field has octet with leading zero"
  else if decVal ds > 255 then none
  else some (decVal ds, rest)

/-- `netip.ParseAddr` on a string without ':' -/
def parseV4 (s : List Char) : Option (Nat × Nat × Nat × Nat) :=
  match octet s with
  | some (a, '.' :: r1) =>
    (match octet r1 with
     | some (b, '.' :: r2) =>
       (match octet r2 with
        | some (c, '.' :: r3) =>
          (match octet r3 with
           | some (d, []) => some (a, b, c, d)
           | _ => none)
        | _ => none)
     | _ => none)
  | _ => none

/-- `strconv.ParseUint(port, 10, 16)` -/
def parsePort (s : List Char) : Option Nat :=
  if s.isEmpty ∨ !s.all isDig then none
  else
    let ds := s.dropWhile (· == '0')
    if ds.length > 5 then none
    else if decVal ds > 65535 then none else some (decVal ds)

inductive R (α : Type) where
  | ok (a : α)
  | err
  | unspecified
deriving DecidableEq, Repr

def plain (s : List Char) : Bool := s.all fun c => isDig c || c == '.' || c == ':'

/-- `netip.ParseAddrPort(s)` for plain strings with exactly one colon -/
def netipAddrPort (s : List Char) : R (Nat × Nat × Nat × Nat × Nat) :=
  if !plain s ∨ (s.filter (· == ':')).length ≠ 1 then .unspecified
  else
    let ip := s.takeWhile (· != ':')
    let port := (s.dropWhile (· != ':')).drop 1
    match parseV4 ip, parsePort port with
    | some (a, b, c, d), some p => .ok (a, b, c, d, p)
    | _, _ => .err

def netipAddr (s : List Char) : R (Nat × Nat × Nat × Nat) :=
  if !plain s ∨ s.any (· == ':') then .unspecified
  else match parseV4 s with
    | some q => .ok q
    | none => .err

/-- what the translator reads off one parser -/
structure Role where
  hasAddrOnlyBranch : Bool         -- is there a second branch for a bare address? (not for listen)
  rejectedPorts : List Nat         -- ports the first branch rejects
  defaultPort : Nat                -- port given to a bare address
deriving DecidableEq, Repr

def parse (ro : Role) (s : List Char) : R (Nat × Nat × Nat × Nat × Nat) :=
  if hasQuadPort s then
    match netipAddrPort s with
    | .ok (a, b, c, d, p) => if ro.rejectedPorts.contains p then .err else .ok (a, b, c, d, p)
    | .err => .err
    | .unspecified => .unspecified
  else if ro.hasAddrOnlyBranch ∧ hasQuad s then
    match netipAddr s with
    | .ok (a, b, c, d) => .ok (a, b, c, d, ro.defaultPort)
    | .err => .err
    | .unspecified => .unspecified
  else .err

/-- decimal text of a number below 100000, as `fmt` / netip print it -/
def dec (n : Nat) : List Char :=
  let d := fun k => Char.ofNat (48 + k % 10)
  if n < 10 then [d n]
  else if n < 100 then [d (n / 10), d n]
  else if n < 1000 then [d (n / 100), d (n / 10), d n]
  else if n < 10000 then [d (n / 1000), d (n / 100), d (n / 10), d n]
  else [d (n / 10000), d (n / 1000), d (n / 100), d (n / 10), d n]

def showQuad (a b c d : Nat) : List Char := dec a ++ '.' :: dec b ++ '.' :: dec c ++ '.' :: dec d

/-- `String()`: the default port is omitted (`omitPort` = the constant compared in String) -/
def format (omitPort : Option Nat) (a b c d p : Nat) : List Char :=
  if omitPort = some p then showQuad a b c d else showQuad a b c d ++ ':' :: dec p

end Uhppote.Model.Addr
