import Uhppote.Basic.Bytes
import Uhppote.Model.BCD
/-! Executable model of encoding/UTO311-L0x/UT0311-L0x.go (`Marshal`, `Unmarshal…`) and of the
    per-type wire codecs in types/*.go (`MarshalUT0311L0x` / `UnmarshalUT0311L0x`).

    * every Go slice expression / index that can fail is modelled with its real bound and
      yields `Outcome.panic`;
    * ignored errors are ignored (a `MarshalUT0311L0x` error leaves the field zero; a pointer
      field whose decoder fails stays nil);
    * dates and times are modelled by their civil fields, i.e. for a process whose local zone
      is UTC; what other zones do to those fields is the subject of `Model.Time` (C13);
    * the statements the translator regenerates are parameters (`CodecFacts`, BCD tables). -/
namespace Uhppote.Model

inductive Outcome (α : Type) where
  | ok (a : α)
  | err
  | panic
deriving DecidableEq, Repr

/-- facts read off the codec source by the translator (T5) -/
structure CodecFacts where
  bufLen : Nat                 -- `bytes := make([]byte, 64)`
  somDefault : Nat             -- `bytes[0] = 0x17`
  lenCheck : Nat               -- `len(bytes) != 64`
  som : Nat                    -- `bytes[0] != 0x17`
  somAlt : Nat                 -- `bytes[0] != 0x19`
  somAltCode : Nat             -- `bytes[1] != 0x20`
  u16WriteSlice : Nat          -- `bytes[offset:offset+N]` in the uint16 writer
  u16ReadSlice : Nat
  u32WriteSlice : Nat
  u32ReadSlice : Nat
  littleEndian : Bool          -- all four binary.* calls are LittleEndian
  byteValueBase : Nat          -- base given to ParseUint for `value:` on byte fields (both directions)
  headerValueBase : Nat        -- base for `value:` on SOM / MsgType fields (both directions)
  embeddedErrorReturned : Bool -- is the error of the recursive unmarshal of an embedded struct returned?
  macReaderCopies : Bool       -- does the raw MAC reader copy (true) or alias the input (false)?
  ipReaderCopies : Bool
  boolTrue : Nat
  boolFalse : Nat
deriving DecidableEq, Repr, Inhabited

/-- the facts the theorems need -/
def CodecFacts.good (F : CodecFacts) : Bool :=
  F.bufLen == 64 && F.somDefault == 0x17 && F.lenCheck == 64 && F.som == 0x17 && F.somAlt == 0x19 &&
  F.somAltCode == 0x20 && F.u16WriteSlice == 2 && F.u16ReadSlice == 2 && F.u32WriteSlice == 4 &&
  F.u32ReadSlice == 4 && F.littleEndian && F.byteValueBase == 0 && F.headerValueBase == 0 &&
  F.embeddedErrorReturned && F.macReaderCopies && F.ipReaderCopies && F.boolTrue == 1 && F.boolFalse == 0

def goodFacts : CodecFacts :=
  { bufLen := 64, somDefault := 0x17, lenCheck := 64, som := 0x17, somAlt := 0x19, somAltCode := 0x20,
    u16WriteSlice := 2, u16ReadSlice := 2, u32WriteSlice := 4, u32ReadSlice := 4, littleEndian := true,
    byteValueBase := 0, headerValueBase := 0, embeddedErrorReturned := true, macReaderCopies := true,
    ipReaderCopies := true, boolTrue := 1, boolFalse := 0 }

inductive Kind where
  | u8 | u16 | u32 | bool | ipv4 | addrPort | mac              -- built-in switch arms
  | serial | date | datePtr | dateTime | dateTimePtr | sysDate | sysTime
  | hhmm | hhmmPtr | pin | version | macAddress                 -- Marshaler / Unmarshaler arms
deriving DecidableEq, Repr, Inhabited

/-- number of bytes a field of this kind occupies on the wire (for in-domain values) -/
def Kind.width : Kind → Nat
  | .u8 => 1 | .u16 => 2 | .u32 => 4 | .bool => 1 | .ipv4 => 4 | .addrPort => 6 | .mac => 6
  | .serial => 4 | .date => 4 | .datePtr => 4 | .dateTime => 7 | .dateTimePtr => 7
  | .sysDate => 3 | .sysTime => 3 | .hhmm => 2 | .hhmmPtr => 2 | .pin => 3 | .version => 2
  | .macAddress => 6

/-- civil date, `none` = the zero value (`IsZero`) -/
structure YMD where
  y : Nat
  m : Nat
  d : Nat
deriving DecidableEq, Repr

structure YMDHMS where
  y : Nat
  mo : Nat
  d : Nat
  h : Nat
  mi : Nat
  s : Nat
deriving DecidableEq, Repr

structure HMS where
  h : Nat
  m : Nat
  s : Nat
deriving DecidableEq, Repr

/-- `types.HHmm{hours, minutes int}` -/
structure HM where
  h : Int
  m : Int
deriving DecidableEq, Repr

/-- `netip.AddrPort` as far as `MarshalBinary` distinguishes: a plain IPv4 address, or anything
    else (zero value, IPv6, IPv4-mapped IPv6, zoned), whose binary form is never 6 bytes -/
inductive AddrPort where
  | v4 (a b c d : UInt8) (port : Nat)
  | other
deriving DecidableEq, Repr

inductive Val where
  | u8 (v : UInt8)
  | u16 (v : Nat)                      -- < 65536
  | u32 (v : Nat)                      -- < 2^32
  | bool (b : Bool)
  | ip (bs : Bytes)                    -- net.IP: any length, nil = []
  | addrPort (a : AddrPort)
  | mac (bs : Bytes)                   -- net.HardwareAddr / types.MacAddress: any length
  | date (d : Option YMD)              -- none = zero Date
  | datePtr (d : Option (Option YMD))  -- none = nil pointer
  | dateTime (d : Option YMDHMS)
  | dateTimePtr (d : Option (Option YMDHMS))
  | sysDate (d : Option YMD)
  | sysTime (t : HMS)
  | hhmm (t : HM)
  | hhmmPtr (t : Option HM)
  | none_                              -- value of an untagged / header field (not encoded from a value)
deriving DecidableEq, Repr

instance : Inhabited Val := ⟨.none_⟩

/-! ## integers -/

def le16 (n : Nat) : Bytes := [UInt8.ofNat (n % 256), UInt8.ofNat (n / 256 % 256)]
def le32 (n : Nat) : Bytes :=
  [UInt8.ofNat (n % 256), UInt8.ofNat (n / 256 % 256), UInt8.ofNat (n / 65536 % 256), UInt8.ofNat (n / 16777216 % 256)]
def be16 (n : Nat) : Bytes := [UInt8.ofNat (n / 256 % 256), UInt8.ofNat (n % 256)]

def unle16 : Bytes → Nat
  | [a, b] => a.toNat + 256 * b.toNat
  | _ => 0
def unle32 : Bytes → Nat
  | [a, b, c, d] => a.toNat + 256 * b.toNat + 65536 * c.toNat + 16777216 * d.toNat
  | _ => 0
def unbe16 : Bytes → Nat
  | [a, b] => 256 * a.toNat + b.toNat
  | _ => 0

/-! ## calendar (what `time.Parse` validates) -/

def isLeap (y : Nat) : Bool := y % 4 == 0 && (y % 100 != 0 || y % 400 == 0)

def daysIn (y m : Nat) : Nat :=
  if m == 2 then (if isLeap y then 29 else 28)
  else if m == 4 || m == 6 || m == 9 || m == 11 then 30 else 31

def validYMD (y m d : Nat) : Bool := 1 ≤ m && m ≤ 12 && 1 ≤ d && d ≤ daysIn y m

/-! ## text ↔ digits (`time.Format` / `fmt.Sprintf("%02d")` as far as the repo uses them) -/

def digitChar (n : Nat) : UInt8 := UInt8.ofNat (48 + n % 10)

/-- at least 2 digits -/
def fmt2 (n : Nat) : Bytes :=
  if n < 100 then [digitChar (n / 10), digitChar n] else (Nat.toDigits 10 n).map (fun c => UInt8.ofNat c.toNat)

/-- year: at least 4 digits -/
def fmt4 (n : Nat) : Bytes :=
  if n < 10000 then [digitChar (n / 1000), digitChar (n / 100), digitChar (n / 10), digitChar n]
  else (Nat.toDigits 10 n).map (fun c => UInt8.ofNat c.toNat)

/-- `%02d` of a Go int -/
def fmt2i (n : Int) : Bytes :=
  if n < 0 then
    (if n > -10 then [45, digitChar n.natAbs] else 45 :: (Nat.toDigits 10 n.natAbs).map (fun c => UInt8.ofNat c.toNat))
  else fmt2 n.toNat

/-- value of a run of ASCII digits -/
def digitsVal : Bytes → Nat
  | bs => bs.foldl (fun acc c => acc * 10 + (c.toNat - 48)) 0

/-! ## per-type wire encoders: `MarshalUT0311L0x` (none = the method returned an error) -/

variable (T : BCD.Tables)

/-- `if len(*encoded) != n { return error }`: a value whose digits do not fill exactly its field is refused -/
def fitting (n : Nat) (b : Bytes) : Option Bytes := if b.length = n then some b else none

def encDate : Option YMD → Option Bytes
  | none => some [0, 0, 0, 0]
  | some d => (BCD.encode T (fmt4 d.y ++ fmt2 d.m ++ fmt2 d.d)).bind (fitting 4)

/-- no zero special case: the zero time formats as 0001-01-01 00:00:00 -/
def encDateTime : Option YMDHMS → Option Bytes
  | none => (BCD.encode T (fmt4 1 ++ fmt2 1 ++ fmt2 1 ++ fmt2 0 ++ fmt2 0 ++ fmt2 0)).bind (fitting 7)
  | some d => (BCD.encode T (fmt4 d.y ++ fmt2 d.mo ++ fmt2 d.d ++ fmt2 d.h ++ fmt2 d.mi ++ fmt2 d.s)).bind (fitting 7)

/-- "060102" of the zero time is 010101 -/
def encSysDate : Option YMD → Option Bytes
  | none => BCD.encode T (fmt2 1 ++ fmt2 1 ++ fmt2 1)
  | some d => BCD.encode T (fmt2 (d.y % 100) ++ fmt2 d.m ++ fmt2 d.d)

def encSysTime (t : HMS) : Option Bytes := BCD.encode T (fmt2 t.h ++ fmt2 t.m ++ fmt2 t.s)

def encHHmm (t : HM) : Option Bytes := (BCD.encode T (fmt2i t.h ++ fmt2i t.m)).bind (fitting 2)

def encPIN (n : Nat) : Bytes := (le32 n).take 3

def encMac (bs : Bytes) : Bytes := (bs ++ zeros 6).take 6

/-- `net.IP.To4()` -/
def v4InV6Prefix : Bytes := [0, 0, 0, 0, 0, 0, 0, 0, 0, 0, 0xff, 0xff]
def to4 (ip : Bytes) : Option Bytes :=
  if ip.length = 4 then some ip
  else if ip.length = 16 ∧ ip.take 12 = v4InV6Prefix then some (ip.drop 12)
  else none

/-! ## per-type wire decoders: `UnmarshalUT0311L0x(bytes[offset:])`; the argument is the tail of
    the message, `none` when the slice expression inside panics is handled by the caller through
    `Kind.width` (every decoder slices or indexes exactly its width). -/

inductive Dec (α : Type) where
  | val (a : α)
  | err
deriving DecidableEq, Repr

def decDateCore (s : Bytes) : Option YMD :=
  -- s = 8 ASCII digits; `time.ParseInLocation("20060102", …)`; invalid ⇒ zero Date
  let y := digitsVal (s.take 4); let m := digitsVal ((s.drop 4).take 2); let d := digitsVal ((s.drop 6).take 2)
  if validYMD y m d then some ⟨y, m, d⟩ else none

/-- `Date.UnmarshalUT0311L0x` on a value receiver; `err` = BCD error -/
def decDate (b : Bytes) : Dec (Option YMD) :=
  match BCD.decode T b with
  | none => .err
  | some s =>
    if s = [48,48,48,48,48,48,48,48] ∨ s = [48,48,48,49,48,49,48,49] then .val none
    else
      -- the zero instant is 0001-01-01 00:00 UTC; "00010101" is caught above
      .val (decDateCore s)

/-- nil receiver: the two sentinels give a nil pointer, errors leave the field nil -/
def decDatePtr (b : Bytes) : Option (Option YMD) :=
  match BCD.decode T b with
  | none => none
  | some s =>
    if s = [48,48,48,48,48,48,48,48] ∨ s = [48,48,48,49,48,49,48,49] then none
    else some (decDateCore s)

def decDateTimeCore (s : Bytes) : Option YMDHMS :=
  let y := digitsVal (s.take 4); let mo := digitsVal ((s.drop 4).take 2); let d := digitsVal ((s.drop 6).take 2)
  let h := digitsVal ((s.drop 8).take 2); let mi := digitsVal ((s.drop 10).take 2); let sec := digitsVal ((s.drop 12).take 2)
  if validYMD y mo d && h < 24 && mi < 60 && sec < 60 then
    -- in UTC the civil time 0001-01-01 00:00:00 *is* the zero value
    (if y = 1 ∧ mo = 1 ∧ d = 1 ∧ h = 0 ∧ mi = 0 ∧ sec = 0 then none else some ⟨y, mo, d, h, mi, sec⟩)
  else none

def decDateTime (b : Bytes) : Dec (Option YMDHMS) :=
  if b = [0,0,0,0,0,0,0] ∨ b = [0x00,0x01,0x01,0x01,0,0,0] ∨ b = [0x20,0,0,0,0,0,0] then .val none
  else match BCD.decode T b with
    | none => .err
    | some s => .val (decDateTimeCore s)

def decDateTimePtr (b : Bytes) : Option (Option YMDHMS) :=
  if b = [0,0,0,0,0,0,0] ∨ b = [0x00,0x01,0x01,0x01,0,0,0] ∨ b = [0x20,0,0,0,0,0,0] then none
  else match BCD.decode T b with
    | none => none
    | some s => some (decDateTimeCore s)

/-- `SystemDate`: all-zero ⇒ zero value; BCD error or impossible date ⇒ error; two-digit year
    pivot 69 (`time.Parse`) -/
def decSysDate (b : Bytes) : Dec (Option YMD) :=
  if b = [0,0,0] then .val none
  else match BCD.decode T b with
    | none => .err
    | some s =>
      let yy := digitsVal (s.take 2); let m := digitsVal ((s.drop 2).take 2); let d := digitsVal ((s.drop 4).take 2)
      let y := if yy ≥ 69 then 1900 + yy else 2000 + yy
      if validYMD y m d then .val (some ⟨y, m, d⟩) else .err

def decSysTime (b : Bytes) : Dec HMS :=
  match BCD.decode T b with
  | none => .err
  | some s =>
    let h := digitsVal (s.take 2); let m := digitsVal ((s.drop 2).take 2); let sec := digitsVal ((s.drop 4).take 2)
    if h < 24 && m < 60 && sec < 60 then .val ⟨h, m, sec⟩ else .err

/-- the numeric bounds in an HH:mm parser: `hours > maxHours`, `minutes > maxMinutes`,
    `hours == 24 && minutes != 0` (T3g facts, one record per parser) -/
structure HHmmBounds where
  maxHours : Nat
  maxMinutes : Nat
  rule24 : Bool
deriving DecidableEq, Repr

def decHHmm (B : HHmmBounds) (b : Bytes) : Dec HM :=
  match BCD.decode T b with
  | none => .err
  | some s =>
    let h := digitsVal (s.take 2); let m := digitsVal ((s.drop 2).take 2)
    if h > B.maxHours then .err else if m > B.maxMinutes then .err
    else if B.rule24 ∧ h = 24 ∧ m ≠ 0 then .err
    else .val ⟨h, m⟩

end Uhppote.Model

namespace Uhppote.Model

/-! ## `strconv.ParseUint(text, base, 8)` on the texts the tag regex can capture
    (`(?:0[xX])?[0-9a-fA-F]+`) -/

def digitVal (c : Char) : Option Nat :=
  if '0' ≤ c ∧ c ≤ '9' then some (c.toNat - 48)
  else if 'a' ≤ c ∧ c ≤ 'f' then some (c.toNat - 87)
  else if 'A' ≤ c ∧ c ≤ 'F' then some (c.toNat - 55)
  else none

def parseDigits (base : Nat) : List Char → Nat → Option Nat
  | [], acc => some acc
  | c :: r, acc =>
    match digitVal c with
    | some d => if d < base then parseDigits base r (acc * base + d) else none
    | none => none

/-- base 0: the prefix decides (`0x` hex, `0b` binary, leading `0` octal, otherwise decimal) -/
def parseBase0 (cs : List Char) : Option Nat :=
  match cs with
  | '0' :: 'x' :: r | '0' :: 'X' :: r => if r.isEmpty then none else parseDigits 16 r 0
  | '0' :: 'b' :: r | '0' :: 'B' :: r => if r.isEmpty then none else parseDigits 2 r 0
  | '0' :: r => if r.isEmpty then some 0 else parseDigits 8 r 0
  | _ => parseDigits 10 cs 0

def fits8 : Option Nat → Option Nat
  | some n => if n < 256 then some n else none
  | none => none

def parseUint8 (base : Nat) (s : String) : Option Nat :=
  if s.toList.isEmpty then none
  else if base = 0 then fits8 (parseBase0 s.toList)
  else fits8 (parseDigits base s.toList 0)

/-! ## layouts -/

inductive Leaf where
  | som (value : Option String)                         -- field of type types.SOM
  | msgType (value : Option String)                     -- field of type types.MsgType
  | at (off : Nat) (k : Kind) (value : Option String)   -- `uhppote:"offset:N[, value:V]"`
  | skip                                                -- no offset tag: ignored in both directions
deriving DecidableEq, Repr, Inhabited

inductive Field where
  | leaf (name : String) (l : Leaf)
  | embed (name : String) (ls : List (String × Leaf))   -- anonymous struct field (one level)
deriving DecidableEq, Repr, Inhabited

abbrev Layout := List Field

def Field.leaves : Field → List Leaf
  | .leaf _ l => [l]
  | .embed _ ls => ls.map (·.2)

def Layout.leaves (L : Layout) : List Leaf := L.flatMap Field.leaves

def Field.names : Field → List String
  | .leaf n _ => [n]
  | .embed _ ls => ls.map (·.1)

def Layout.names (L : Layout) : List String := L.flatMap Field.names

/-! ## marshal -/

variable (F : CodecFacts) (T : BCD.Tables)

/-- `copy(bytes[off:off+len(b)], b)` with the slice expression's bounds check -/
def copyAt (buf : Bytes) (off : Nat) (b : Bytes) : Outcome Bytes :=
  if off + b.length ≤ buf.length then .ok (writeAt buf off b) else .panic

/-- `bytes[off] = v` -/
def setAt (buf : Bytes) (off : Nat) (v : UInt8) : Outcome Bytes :=
  if off < buf.length then .ok (buf.set off v) else .panic

def encMarshaler : Kind → Val → Option (Option Bytes)   -- none = skip (nil ptr); some none = error
  | .serial, .u32 v => some (some (le32 v))
  | .date, .date d => some (encDate T d)
  | .datePtr, .datePtr none => none
  | .datePtr, .datePtr (some d) => some (encDate T d)
  | .dateTime, .dateTime d => some (encDateTime T d)
  | .dateTimePtr, .dateTimePtr none => none
  | .dateTimePtr, .dateTimePtr (some d) => some (encDateTime T d)
  | .sysDate, .sysDate d => some (encSysDate T d)
  | .sysTime, .sysTime t => some (encSysTime T t)
  | .hhmm, .hhmm t => some (encHHmm T t)
  | .hhmmPtr, .hhmmPtr none => none
  | .hhmmPtr, .hhmmPtr (some t) => some (encHHmm T t)
  | .pin, .u32 v => some (some (encPIN v))
  | .version, .u16 v => some (some (be16 v))
  | .macAddress, .mac bs => some (some (encMac bs))
  | _, _ => none

def Kind.isMarshaler : Kind → Bool
  | .u8 | .u16 | .u32 | .bool | .ipv4 | .addrPort | .mac => false
  | _ => true

def marshalLeaf (buf : Bytes) : Leaf → Val → Outcome Bytes
  | .skip, _ => .ok buf
  | .som none, .u8 v => setAt buf 0 v
  | .som (some t), _ =>
    match parseUint8 F.headerValueBase t with
    | none => .err
    | some n => setAt buf 0 (UInt8.ofNat n)
  | .msgType none, .u8 v => setAt buf 1 v
  | .msgType (some t), _ =>
    match parseUint8 F.headerValueBase t with
    | none => .err
    | some n => setAt buf 1 (UInt8.ofNat n)
  | .at off k tag, v =>
    if k.isMarshaler then
      match encMarshaler T k v with
      | none => .ok buf                       -- nil pointer
      | some none => .ok buf                  -- MarshalUT0311L0x error: ignored, field left as is
      | some (some b) => copyAt buf off b
    else
      match k with
      | .u8 =>
        (match tag with
         | some t => (match parseUint8 F.byteValueBase t with
                      | none => .err
                      | some n => setAt buf off (UInt8.ofNat n))
         | none => (match v with | .u8 x => setAt buf off x | _ => .ok buf))
      | .u16 =>
        (match v with
         | .u16 x =>
           if off + F.u16WriteSlice ≤ buf.length ∧ 2 ≤ F.u16WriteSlice then
             .ok (writeAt buf off (if F.littleEndian then le16 x else be16 x)) else .panic
         | _ => .ok buf)
      | .u32 =>
        (match v with
         | .u32 x =>
           if off + F.u32WriteSlice ≤ buf.length ∧ 4 ≤ F.u32WriteSlice then
             .ok (writeAt buf off (if F.littleEndian then le32 x else (le32 x).reverse)) else .panic
         | _ => .ok buf)
      | .bool =>
        (match v with
         | .bool x => setAt buf off (UInt8.ofNat (if x then F.boolTrue else F.boolFalse))
         | _ => .ok buf)
      | .ipv4 =>
        (match v with
         | .ip bs => if off + 4 ≤ buf.length then .ok (writeAt buf off (((to4 bs).getD []).take 4)) else .panic
         | _ => .ok buf)
      | .addrPort =>
        (match v with
         | .addrPort (.v4 a b c d p) => copyAt buf off ([a, b, c, d] ++ le16 p)
         | .addrPort .other => .err
         | _ => .ok buf)
      | .mac =>
        (match v with
         | .mac bs => if off + 6 ≤ buf.length then .ok (writeAt buf off (bs.take 6)) else .panic
         | _ => .ok buf)
      | _ => .ok buf
  | _, _ => .ok buf

def marshalLeaves : List Leaf → List Val → Bytes → Outcome Bytes
  | l :: ls, v :: vs, buf =>
    match marshalLeaf F T buf l v with
    | .ok buf' => marshalLeaves ls vs buf'
    | .err => .err
    | .panic => .panic
  | _, _, buf => .ok buf

/-- `Marshal(m)`: `bytes := make([]byte, 64); bytes[0] = 0x17; marshal(…)` -/
def marshal (L : Layout) (vs : List Val) : Outcome Bytes :=
  marshalLeaves F T L.leaves vs ((zeros F.bufLen).set 0 (UInt8.ofNat F.somDefault))

/-! ## unmarshal -/

def zeroVal : Leaf → Val
  | .som _ => .u8 0
  | .msgType _ => .u8 0
  | .skip => .u32 0
  | .at _ k _ =>
    match k with
    | .u8 => .u8 0 | .u16 => .u16 0 | .u32 => .u32 0 | .bool => .bool false | .ipv4 => .ip []
    | .addrPort => .addrPort .other | .mac => .mac [] | .serial => .u32 0 | .date => .date none
    | .datePtr => .datePtr none | .dateTime => .dateTime none | .dateTimePtr => .dateTimePtr none
    | .sysDate => .sysDate none | .sysTime => .sysTime ⟨0, 0, 0⟩ | .hhmm => .hhmm ⟨0, 0⟩
    | .hhmmPtr => .hhmmPtr none | .pin => .u32 0 | .version => .u16 0 | .macAddress => .mac []

/-- the decoders behind `UnmarshalUT0311L0x`, given exactly the field's bytes -/
def decField (B : HHmmBounds) : Kind → Bytes → Outcome Val
  | .serial, b => .ok (.u32 (unle32 b))
  | .date, b => (match decDate T b with | .val d => .ok (.date d) | .err => .err)
  | .datePtr, b => .ok (.datePtr (decDatePtr T b))
  | .dateTime, b => (match decDateTime T b with | .val d => .ok (.dateTime d) | .err => .err)
  | .dateTimePtr, b => .ok (.dateTimePtr (decDateTimePtr T b))
  | .sysDate, b => (match decSysDate T b with | .val d => .ok (.sysDate d) | .err => .err)
  | .sysTime, b => (match decSysTime T b with | .val t => .ok (.sysTime t) | .err => .err)
  | .hhmm, b => (match decHHmm T B b with | .val t => .ok (.hhmm t) | .err => .err)
  | .hhmmPtr, b => (match decHHmm T B b with | .val t => .ok (.hhmmPtr (some t)) | .err => .ok (.hhmmPtr none))
  | .pin, b => .ok (.u32 (unle32 (b ++ [0])))
  | .version, b => .ok (.u16 (unbe16 b))
  | .macAddress, b => .ok (.mac b)
  | .u16, b => .ok (.u16 (if F.littleEndian then unle16 b else unbe16 b))
  | .u32, b => .ok (.u32 (if F.littleEndian then unle32 b else unle32 b.reverse))
  | .bool, b =>
    (match b with
     | [x] => if x.toNat = F.boolTrue then .ok (.bool true) else if x.toNat = F.boolFalse then .ok (.bool false) else .err
     | _ => .err)
  | .ipv4, b => .ok (.ip (v4InV6Prefix ++ b))
  | .addrPort, b =>
    (match b with
     | [a, b, c, d, p0, p1] => .ok (.addrPort (.v4 a b c d (p0.toNat + 256 * p1.toNat)))
     | _ => .err)
  | .mac, b => .ok (.mac b)
  | .u8, b => (match b with | [x] => .ok (.u8 x) | _ => .err)

/-- width of the slice expression the reader of kind `k` evaluates -/
def readWidth : Kind → Nat
  | .u16 => F.u16ReadSlice
  | .u32 => F.u32ReadSlice
  | k => k.width

/-- the fixed value a `value:` tag demands of a byte field: `none` = the tag text does not parse,
    `some none` = no constraint -/
def fixedValue : Kind → Option String → Option (Option Nat)
  | .u8, some t => (match parseUint8 F.byteValueBase t with | none => none | some n => some (some n))
  | _, _ => some none

def unmarshalLeaf (B : HHmmBounds) (bytes : Bytes) : Leaf → Outcome Val
  | .skip => .ok (.u32 0)   -- an untagged field keeps its zero value (uint32 in generated layouts)
  | .som _ => .ok (.u8 0)                       -- never read back
  | .msgType tag =>
    let expected : Option Nat := match tag with
      | none => some 0
      | some t => parseUint8 F.headerValueBase t
    (match expected with
     | none => .err
     | some e => if (bytes.getD 1 0).toNat ≠ e then .err else .ok (.u8 (bytes.getD 1 0)))
  | .at off k tag =>
    -- `value:` on a byte field is parsed before the byte is indexed
    match fixedValue F k tag with
    | none => .err
    | some fixed =>
      if off + readWidth F k ≤ bytes.length ∧ k.width ≤ readWidth F k then
        match fixed with
        | some n => if (bytes.getD off 0).toNat ≠ n then .err else .ok (.u8 (bytes.getD off 0))
        | none => decField F T B k (readAt bytes off k.width)
      else .panic

/-- sequential walk; returns the values decoded so far together with the outcome (needed for the
    swallowed embedded error, where a partially filled struct is kept) -/
def unmarshalLeaves (B : HHmmBounds) (bytes : Bytes) : List Leaf → List Val × Outcome Unit
  | [] => ([], .ok ())
  | l :: ls =>
    match unmarshalLeaf F T B bytes l with
    | .ok v =>
      let (vs, o) := unmarshalLeaves B bytes ls
      (v :: vs, o)
    | .err => ((l :: ls).map zeroVal, .err)
    | .panic => ((l :: ls).map zeroVal, .panic)

def unmarshalFields (B : HHmmBounds) (bytes : Bytes) : List Field → List Val × Outcome Unit
  | [] => ([], .ok ())
  | .leaf _ l :: fs =>
    (match unmarshalLeaf F T B bytes l with
     | .ok v =>
       let (vs, o) := unmarshalFields B bytes fs
       (v :: vs, o)
     | .err => ((zeroVal l) :: (Layout.leaves fs).map zeroVal, .err)
     | .panic => ((zeroVal l) :: (Layout.leaves fs).map zeroVal, .panic))
  | .embed _ ls :: fs =>
    (match unmarshalLeaves F T B bytes (ls.map (·.2)) with
     | (vs, .ok ()) =>
       let (ws, o) := unmarshalFields B bytes fs
       (vs ++ ws, o)
     | (vs, .err) =>
       if F.embeddedErrorReturned then (vs ++ (Layout.leaves fs).map zeroVal, .err)
       else
         let (ws, o) := unmarshalFields B bytes fs
         (vs ++ ws, o)
     | (vs, .panic) => (vs ++ (Layout.leaves fs).map zeroVal, .panic))

/-- `unmarshal(bytes, s)` -/
def unmarshal (B : HHmmBounds) (L : Layout) (bytes : Bytes) : Outcome (List Val) :=
  if bytes.length ≠ F.lenCheck then .err
  else if (bytes.getD 0 0).toNat ≠ F.som ∧ ((bytes.getD 0 0).toNat ≠ F.somAlt ∨ (bytes.getD 1 0).toNat ≠ F.somAltCode) then .err
  else
    match unmarshalFields F T B bytes L with
    | (vs, .ok ()) => .ok vs
    | (_, .err) => .err
    | (_, .panic) => .panic

end Uhppote.Model

namespace Uhppote.Model

/-- `messages.UnmarshalRequest` / `UnmarshalResponse`: length, protocol id, table lookup, decode -/
def dispatch (F : CodecFacts) (T : BCD.Tables) (B : HHmmBounds) (table : List (Nat × String))
    (layouts : String → Option Layout) (b : Bytes) : Outcome (String × List Val) :=
  if b.length ≠ 64 then .err
  else if (b.getD 0 0).toNat ≠ 0x17 then .err
  else match table.lookup (b.getD 1 0).toNat with
    | none => .err
    | some n =>
      match layouts n with
      | none => .err
      | some L =>
        match unmarshal F T B L b with
        | .ok vs => .ok (n, vs)
        | .err => .err
        | .panic => .panic

/-- `ControlState.String()`: a table indexed by the value, behind a range guard or not (T5) -/
def renderControlState (tableLen : Nat) (guarded : Bool) (v : Int) : Outcome Unit :=
  if guarded then .ok () else if 0 ≤ v ∧ v < tableLen then .ok () else .panic

end Uhppote.Model
