import Uhppote.Gen.Source
import Uhppote.Model.Pins
/-! C17: the source text the hand-written parts of this property's model were read against is the
    text /repo has now (regenerated hashes = pinned hashes, for every declaration the model depends on). -/
namespace Uhppote.Pins.C17

theorem C17_source_pinned : Model.Pins.covered Model.Pins.C17 Gen.Source.decls = true := by decide +kernel

end Uhppote.Pins.C17
