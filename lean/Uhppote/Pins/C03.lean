import Uhppote.Gen.Source
import Uhppote.Model.Pins
/-! C03: the source text the hand-written parts of this property's model were read against is the
    text /repo has now (regenerated hashes = pinned hashes, for every declaration the model depends on). -/
namespace Uhppote.Pins.C03

theorem C03_source_pinned : Model.Pins.covered Model.Pins.C03 Gen.Source.decls = true := by decide +kernel

end Uhppote.Pins.C03
