import Uhppote.Gen.Source
import Uhppote.Model.Pins
/-! C11: the source text the hand-written parts of this property's model were read against is the
    text /repo has now (regenerated hashes = pinned hashes, for every declaration the model depends on). -/
namespace Uhppote.Pins.C11

theorem C11_source_pinned : Model.Pins.covered Model.Pins.C11 Gen.Source.decls = true := by decide +kernel

end Uhppote.Pins.C11
