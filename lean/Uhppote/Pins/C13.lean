import Uhppote.Gen.Source
import Uhppote.Model.Pins
/-! C13: the source text the hand-written parts of this property's model were read against is the
    text /repo has now (regenerated hashes = pinned hashes, for every declaration the model depends on). -/
namespace Uhppote.Pins.C13

theorem C13_source_pinned : Model.Pins.covered Model.Pins.C13 Gen.Source.decls = true := by decide +kernel

end Uhppote.Pins.C13
