/-! Byte buffers as `List UInt8`, Go-style `copy(dst[off:off+len(src)], src)` and slicing,
    with the frame lemmas every codec theorem rests on. Core Lean only. -/
namespace Uhppote

abbrev Bytes := List UInt8

def zeros (n : Nat) : Bytes := List.replicate n 0

/-- `copy(dst[off:off+len(src)], src)` when the slice expression is in bounds -/
def writeAt : Bytes → Nat → Bytes → Bytes
  | dst, _, [] => dst
  | dst, off, b :: bs => writeAt (dst.set off b) (off+1) bs

/-- `b[off:off+n]` as a value (a copy) when in bounds; shorter when not -/
def readAt (b : Bytes) (off n : Nat) : Bytes := (b.drop off).take n

@[simp] theorem length_zeros (n : Nat) : (zeros n).length = n := by simp [zeros]

@[simp] theorem length_writeAt (dst : Bytes) (off : Nat) (src : Bytes) :
    (writeAt dst off src).length = dst.length := by
  induction src generalizing dst off with
  | nil => rfl
  | cons b bs ih => simp [writeAt, ih]

theorem length_readAt (b : Bytes) (off n : Nat) (h : off + n ≤ b.length) :
    (readAt b off n).length = n := by
  simp [readAt]; omega

theorem getElem?_writeAt (dst : Bytes) (off : Nat) (src : Bytes) (i : Nat)
    (h : off + src.length ≤ dst.length) :
    (writeAt dst off src)[i]? =
      if off ≤ i ∧ i < off + src.length then src[i - off]? else dst[i]? := by
  induction src generalizing dst off with
  | nil => simp [writeAt]; intro h1 h2; omega
  | cons b bs ih =>
    simp only [writeAt]
    rw [ih]
    · simp only [List.length_cons]
      by_cases h1 : off + 1 ≤ i ∧ i < off + 1 + bs.length
      · have h2 : off ≤ i ∧ i < off + (bs.length + 1) := by omega
        simp only [h1, h2, and_self, if_true]
        have : i - off = (i - (off+1)) + 1 := by omega
        rw [this, List.getElem?_cons_succ]
      · simp only [h1, if_false]
        by_cases h3 : i = off
        · subst h3
          have : i ≤ i ∧ i < i + (bs.length + 1) := by omega
          simp only [this, and_self, if_true, Nat.sub_self, List.getElem?_cons_zero]
          simp only [List.length_cons] at h
          rw [List.getElem?_set_self (by omega)]
        · have : ¬ (off ≤ i ∧ i < off + (bs.length + 1)) := by omega
          simp only [this, if_false]
          rw [List.getElem?_set_ne (by omega)]
    · simp only [List.length_set, List.length_cons] at *; omega

theorem readAt_writeAt_same (dst : Bytes) (off : Nat) (src : Bytes)
    (h : off + src.length ≤ dst.length) :
    readAt (writeAt dst off src) off src.length = src := by
  apply List.ext_getElem?
  intro i
  unfold readAt
  rw [List.getElem?_take]
  by_cases hi : i < src.length
  · simp only [hi, if_true, List.getElem?_drop]
    rw [getElem?_writeAt _ _ _ _ h]
    have : off ≤ off + i ∧ off + i < off + src.length := by omega
    simp only [this, and_self, if_true]
    congr 1; omega
  · simp only [hi, if_false]
    rw [List.getElem?_eq_none (by omega)]

theorem readAt_writeAt_disjoint (dst : Bytes) (off : Nat) (src : Bytes) (o n : Nat)
    (h : off + src.length ≤ dst.length)
    (hd : o + n ≤ off ∨ off + src.length ≤ o) :
    readAt (writeAt dst off src) o n = readAt dst o n := by
  apply List.ext_getElem?
  intro i
  unfold readAt
  rw [List.getElem?_take, List.getElem?_take]
  by_cases hi : i < n
  · simp only [hi, if_true, List.getElem?_drop]
    rw [getElem?_writeAt _ _ _ _ h]
    have : ¬ (off ≤ o + i ∧ o + i < off + src.length) := by omega
    simp only [this, if_false]
  · simp only [hi, if_false]

/-- two buffers that agree on a range read the same there -/
theorem readAt_congr (a b : Bytes) (o n : Nat)
    (h : ∀ i, o ≤ i → i < o + n → a[i]? = b[i]?) : readAt a o n = readAt b o n := by
  apply List.ext_getElem?
  intro i
  unfold readAt
  rw [List.getElem?_take, List.getElem?_take]
  by_cases hi : i < n
  · simp only [hi, if_true, List.getElem?_drop]
    exact h _ (by omega) (by omega)
  · simp only [hi, if_false]

end Uhppote
