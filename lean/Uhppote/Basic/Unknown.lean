/-! A value the translator could not read off the source. `unknownOf tag` type-checks at any inhabited type, so a
    regenerated file that contains it still compiles and only the theorems and model functions that actually
    depend on the unread fact are affected; the kernel cannot unfold it (`opaque`), so no `decide` about it goes
    through, whatever the default value of its type happens to be. Compiled code sees that default value. -/
namespace Uhppote

opaque unknownOf {α : Type} [Inhabited α] (tag : String) : α

end Uhppote
