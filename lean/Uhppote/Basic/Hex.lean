import Uhppote.Basic.Bytes
/-! Hex and token helpers for the line-protocol drivers (not used in any theorem). -/
namespace Uhppote

def hexDigit (n : Nat) : Char :=
  if n < 10 then Char.ofNat (48 + n) else Char.ofNat (87 + n)

def hexByte (b : UInt8) : String :=
  String.ofList [hexDigit (b.toNat / 16), hexDigit (b.toNat % 16)]

def toHex (bs : Bytes) : String := String.join (bs.map hexByte)

def hexVal (c : Char) : Option Nat :=
  if '0' ≤ c ∧ c ≤ '9' then some (c.toNat - 48)
  else if 'a' ≤ c ∧ c ≤ 'f' then some (c.toNat - 87)
  else if 'A' ≤ c ∧ c ≤ 'F' then some (c.toNat - 55)
  else none

def fromHexChars : List Char → Option Bytes
  | [] => some []
  | [_] => none
  | a :: b :: rest =>
    match hexVal a, hexVal b, fromHexChars rest with
    | some x, some y, some bs => some (UInt8.ofNat (x * 16 + y) :: bs)
    | _, _, _ => none

/-- "-" denotes the empty byte string -/
def fromHex (s : String) : Option Bytes :=
  if s == "-" then some [] else fromHexChars s.toList

def showHex (bs : Bytes) : String := if bs.isEmpty then "-" else toHex bs

end Uhppote
