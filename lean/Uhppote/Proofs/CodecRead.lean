import Uhppote.Proofs.CodecNoPanic
import Uhppote.Proofs.CodecRoundTrip
/-! Every reader of the model, on EVERY byte string of its field's width, stays inside the
    specification's decoding relation `Spec.Codec.read`: in-domain bytes give exactly the protocol
    value, the sentinels give "no value", out-of-domain bytes give an error or the zero value —
    never another in-domain value (C02). -/
set_option linter.unusedSimpArgs false
set_option linter.unusedVariables false
namespace Uhppote.Proofs.Codec
open Uhppote Uhppote.Model Uhppote.Spec.Codec

/-- model outcome vs specification verdict for one field -/
def Rel (o : Outcome Val) (r : Read) : Prop :=
  match o, r with
  | .ok v, .exact x => v = x
  | .ok v, .noValue xs => v ∈ xs
  | .ok v, .invalid zs => v ∈ zs
  | .err, .invalid _ => True
  | .err, .mustFail => True
  | _, _ => False

theorem nibblesOk_eq : nibblesOk = Spec.BCD.okByte := rfl

theorem list1 (b : Bytes) (h : b.length = 1) : ∃ x, b = [x] := by
  rcases b with _ | ⟨x, _ | ⟨y, r⟩⟩ <;> simp at h; exact ⟨x, rfl⟩
theorem list2 (b : Bytes) (h : b.length = 2) : ∃ x y, b = [x, y] := by
  rcases b with _ | ⟨x, _ | ⟨y, _ | ⟨z, r⟩⟩⟩ <;> simp at h; exact ⟨x, y, rfl⟩
theorem list3 (b : Bytes) (h : b.length = 3) : ∃ x y z, b = [x, y, z] := by
  rcases b with _ | ⟨x, _ | ⟨y, _ | ⟨z, _ | ⟨w, r⟩⟩⟩⟩ <;> simp at h; exact ⟨x, y, z, rfl⟩
theorem list4 (b : Bytes) (h : b.length = 4) : ∃ x y z w, b = [x, y, z, w] := by
  rcases b with _ | ⟨x, _ | ⟨y, _ | ⟨z, _ | ⟨w, _ | ⟨v, r⟩⟩⟩⟩⟩ <;> simp at h; exact ⟨x, y, z, w, rfl⟩
theorem list6 (b : Bytes) (h : b.length = 6) : ∃ x y z w u v, b = [x, y, z, w, u, v] := by
  rcases b with _ | ⟨x, _ | ⟨y, _ | ⟨z, _ | ⟨w, _ | ⟨u, _ | ⟨v, _ | ⟨t, r⟩⟩⟩⟩⟩⟩⟩ <;> simp at h
  exact ⟨x, y, z, w, u, v, rfl⟩
theorem list7 (b : Bytes) (h : b.length = 7) : ∃ x y z w u v t, b = [x, y, z, w, u, v, t] := by
  rcases b with _ | ⟨x, _ | ⟨y, _ | ⟨z, _ | ⟨w, _ | ⟨u, _ | ⟨v, _ | ⟨t, _ | ⟨s, r⟩⟩⟩⟩⟩⟩⟩⟩ <;> simp at h
  exact ⟨x, y, z, w, u, v, t, rfl⟩

/-- the integer, boolean and address kinds -/
theorem rel_plain (k : Kind) (b : Bytes) (hb : b.length = k.width)
    (hk : k = .u8 ∨ k = .u16 ∨ k = .u32 ∨ k = .serial ∨ k = .bool ∨ k = .ipv4 ∨ k = .addrPort ∨ k = .mac ∨
          k = .macAddress ∨ k = .pin ∨ k = .version) :
    Rel (decField goodFacts BCD.canonical B0 k b) (Spec.Codec.read k none b) := by
  rcases hk with rfl | rfl | rfl | rfl | rfl | rfl | rfl | rfl | rfl | rfl | rfl
  · obtain ⟨x, rfl⟩ := list1 b hb; simp [decField, Spec.Codec.read, Rel]
  · obtain ⟨x, y, rfl⟩ := list2 b hb; simp [decField, Spec.Codec.read, Rel, goodFacts, unle16]
  · obtain ⟨x, y, z, w, rfl⟩ := list4 b hb; simp [decField, Spec.Codec.read, Rel, goodFacts, unle32]
  · obtain ⟨x, y, z, w, rfl⟩ := list4 b hb; simp [decField, Spec.Codec.read, Rel, goodFacts, unle32]
  · obtain ⟨x, rfl⟩ := list1 b hb
    simp only [decField, Spec.Codec.read, goodFacts]
    by_cases h1 : x = 1
    · subst h1; simp [Rel]
    · by_cases h0 : x = 0
      · subst h0; simp [Rel]
      · have n1 : ¬ x.toNat = 1 := fun h => h1 (UInt8.toNat_inj.1 (by simpa using h))
        have n0 : ¬ x.toNat = 0 := fun h => h0 (UInt8.toNat_inj.1 (by simpa using h))
        simp [h1, h0, n1, n0, Rel]
  · obtain ⟨x, y, z, w, rfl⟩ := list4 b hb; simp [decField, Spec.Codec.read, Rel, v4InV6Prefix]
  · obtain ⟨x, y, z, w, u, v, rfl⟩ := list6 b hb; simp [decField, Spec.Codec.read, Rel]
  · simp [decField, Spec.Codec.read, Rel]
  · simp [decField, Spec.Codec.read, Rel]
  · obtain ⟨x, y, z, rfl⟩ := list3 b hb; simp [decField, Spec.Codec.read, Rel, unle32]
  · obtain ⟨x, y, rfl⟩ := list2 b hb; simp [decField, Spec.Codec.read, Rel, unbe16]

/-! ### BCD kinds -/

theorem decode_ok (b : Bytes) (h : b.all Spec.BCD.okByte = true) :
    BCD.decode BCD.canonical b = some (Spec.BCD.unpack b) := by
  rw [Proofs.BCD.decode_model_eq_spec]; simp [Spec.BCD.decode, h]

theorem decode_bad (b : Bytes) (h : b.all Spec.BCD.okByte = false) : BCD.decode BCD.canonical b = none := by
  rw [Proofs.BCD.decode_model_eq_spec]; simp [Spec.BCD.decode, h]

/-- the two ASCII digits of a byte with decimal nibbles -/
theorem hi_toNat (x : UInt8) : (UInt8.ofNat (48 + x.toNat / 16)).toNat = 48 + x.toNat / 16 := by
  have := UInt8.toNat_lt x
  simp [UInt8.toNat_ofNat']; omega
theorem lo_toNat (x : UInt8) : (UInt8.ofNat (48 + x.toNat % 16)).toNat = 48 + x.toNat % 16 := by
  simp [UInt8.toNat_ofNat']; omega

theorem dv2 (x : UInt8) :
    digitsVal [UInt8.ofNat (48 + x.toNat / 16), UInt8.ofNat (48 + x.toNat % 16)] = unbcd2 x := by
  simp only [digitsVal, List.foldl, hi_toNat, lo_toNat, unbcd2]; omega

theorem dv4 (x y : UInt8) :
    digitsVal [UInt8.ofNat (48 + x.toNat / 16), UInt8.ofNat (48 + x.toNat % 16),
               UInt8.ofNat (48 + y.toNat / 16), UInt8.ofNat (48 + y.toNat % 16)] = unbcd2 x * 100 + unbcd2 y := by
  simp only [digitsVal, List.foldl, hi_toNat, lo_toNat, unbcd2]; omega

/-- a byte is 0xHL exactly when its two digits are 'H' 'L' -/
theorem byte_of_digits (x : UInt8) (h l : Nat) (hh : h ≤ 9) (hl : l ≤ 9) :
    (UInt8.ofNat (48 + x.toNat / 16) = UInt8.ofNat (48 + h) ∧ UInt8.ofNat (48 + x.toNat % 16) = UInt8.ofNat (48 + l)) ↔
    x = UInt8.ofNat (16 * h + l) := by
  have hx := UInt8.toNat_lt x
  constructor
  · rintro ⟨h1, h2⟩
    have a := congrArg UInt8.toNat h1
    have b := congrArg UInt8.toNat h2
    rw [hi_toNat] at a; rw [lo_toNat] at b
    simp [UInt8.toNat_ofNat'] at a b
    apply UInt8.toNat_inj.1
    simp [UInt8.toNat_ofNat']; omega
  · intro hx'
    subst hx'
    have : (UInt8.ofNat (16 * h + l)).toNat = 16 * h + l := by simp [UInt8.toNat_ofNat']; omega
    rw [this]
    constructor
    · congr 2; omega
    · congr 2; omega

theorem all4 (c y m d : UInt8) : [c, y, m, d].all Spec.BCD.okByte = true ↔
    Spec.BCD.okByte c = true ∧ Spec.BCD.okByte y = true ∧ Spec.BCD.okByte m = true ∧ Spec.BCD.okByte d = true := by
  simp [List.all_cons, and_assoc]

/-- the digit string of four BCD bytes is "00000000" / "00010101" exactly for the two sentinels -/
theorem unpack4_sentinels (c y m d : UInt8) :
    (Spec.BCD.unpack [c, y, m, d] = [48,48,48,48,48,48,48,48] ↔ [c, y, m, d] = [0, 0, 0, 0]) ∧
    (Spec.BCD.unpack [c, y, m, d] = [48,48,48,49,48,49,48,49] ↔ [c, y, m, d] = [0, 1, 1, 1]) := by
  have e0 : (48 : UInt8) = UInt8.ofNat (48 + 0) := rfl
  have e1 : (49 : UInt8) = UInt8.ofNat (48 + 1) := rfl
  have b00 := fun x => byte_of_digits x 0 0 (by omega) (by omega)
  have b01 := fun x => byte_of_digits x 0 1 (by omega) (by omega)
  simp only [Spec.BCD.unpack, List.cons.injEq, and_true]
  constructor
  · rw [e0]
    constructor
    · rintro ⟨a1, a2, a3, a4, a5, a6, a7, a8⟩
      exact ⟨(b00 c).1 ⟨a1, a2⟩, (b00 y).1 ⟨a3, a4⟩, (b00 m).1 ⟨a5, a6⟩, (b00 d).1 ⟨a7, a8⟩⟩
    · rintro ⟨h1, h2, h3, h4⟩
      have := (b00 c).2 h1; have := (b00 y).2 h2; have := (b00 m).2 h3; have := (b00 d).2 h4
      simp_all
  · rw [e0, e1]
    constructor
    · rintro ⟨a1, a2, a3, a4, a5, a6, a7, a8⟩
      exact ⟨(b00 c).1 ⟨a1, a2⟩, (b01 y).1 ⟨a3, a4⟩, (b01 m).1 ⟨a5, a6⟩, (b01 d).1 ⟨a7, a8⟩⟩
    · rintro ⟨h1, h2, h3, h4⟩
      have := (b00 c).2 h1; have := (b01 y).2 h2; have := (b01 m).2 h3; have := (b01 d).2 h4
      simp_all

theorem decDateCore_unpack4 (c y m d : UInt8) :
    decDateCore (Spec.BCD.unpack [c, y, m, d]) =
      if validYMD (unbcd2 c * 100 + unbcd2 y) (unbcd2 m) (unbcd2 d) then some ⟨unbcd2 c * 100 + unbcd2 y, unbcd2 m, unbcd2 d⟩
      else none := by
  simp only [decDateCore, Spec.BCD.unpack, List.take, List.drop, dv4, dv2]

theorem readDate_bad (b : Bytes) (h : b.all Spec.BCD.okByte = false) : readDate b = none := by
  unfold readDate; rw [nibblesOk_eq, h]; rfl

theorem readDate_ok (c y m d : UInt8) (h : [c, y, m, d].all Spec.BCD.okByte = true) :
    readDate [c, y, m, d] =
      if [c, y, m, d] = [0, 0, 0, 0] ∨ [c, y, m, d] = [0, 1, 1, 1] then some none
      else if validDate ⟨unbcd2 c * 100 + unbcd2 y, unbcd2 m, unbcd2 d⟩ then
        some (some ⟨unbcd2 c * 100 + unbcd2 y, unbcd2 m, unbcd2 d⟩) else none := by
  unfold readDate; rw [nibblesOk_eq, h]; rfl

theorem rel_date (b : Bytes) (hb : b.length = 4) :
    Rel (decField goodFacts BCD.canonical B0 .date b) (Spec.Codec.read .date none b) ∧
    Rel (decField goodFacts BCD.canonical B0 .datePtr b) (Spec.Codec.read .datePtr none b) := by
  obtain ⟨c, y, m, d, rfl⟩ := list4 b hb
  have hr1 : ∀ bs, Spec.Codec.read .date none bs = match readDate bs with
      | some (some d) => .exact (.date (some d))
      | some none => .exact (.date none)
      | none => if bs.all nibblesOk then .invalid [.date none] else .invalid [] := fun _ => rfl
  have hr2 : ∀ bs, Spec.Codec.read .datePtr none bs = match readDate bs with
      | some (some d) => .exact (.datePtr (some (some d)))
      | some none => .noValue [.datePtr none, .datePtr (some none)]
      | none => .invalid [.datePtr none, .datePtr (some none)] := fun _ => rfl
  rw [hr1, hr2]
  by_cases hok : [c, y, m, d].all Spec.BCD.okByte = true
  · have hdec := decode_ok _ hok
    have hs := unpack4_sentinels c y m d
    have hcore := decDateCore_unpack4 c y m d
    have hn : [c, y, m, d].all nibblesOk = true := by rw [nibblesOk_eq]; exact hok
    rw [if_pos hn]
    rw [readDate_ok c y m d hok]
    by_cases h0 : [c, y, m, d] = [0, 0, 0, 0]
    · have s0 := hs.1.2 h0
      rw [if_pos (Or.inl h0)]
      simp only [decField, decDate, decDatePtr, hdec, s0, true_or, if_true, Rel]
      simp
    · by_cases h1 : [c, y, m, d] = [0, 1, 1, 1]
      · have s1 := hs.2.2 h1
        rw [if_pos (Or.inr h1)]
        simp only [decField, decDate, decDatePtr, hdec, s1, or_true, if_true, Rel]
        simp
      · have n0 : ¬ Spec.BCD.unpack [c, y, m, d] = [48,48,48,48,48,48,48,48] := fun h => h0 (hs.1.1 h)
        have n1 : ¬ Spec.BCD.unpack [c, y, m, d] = [48,48,48,49,48,49,48,49] := fun h => h1 (hs.2.1 h)
        have hvd : validDate ⟨unbcd2 c * 100 + unbcd2 y, unbcd2 m, unbcd2 d⟩ =
            validYMD (unbcd2 c * 100 + unbcd2 y) (unbcd2 m) (unbcd2 d) := rfl
        rw [if_neg (by intro h; rcases h with h | h; exact h0 h; exact h1 h)]
        simp only [decField, decDate, decDatePtr, hdec, n0, n1, or_self, if_false, hcore, hvd]
        by_cases hv : validYMD (unbcd2 c * 100 + unbcd2 y) (unbcd2 m) (unbcd2 d) = true
        · simp [hv, Rel]
        · simp [hv, Rel]
  · have hok' : [c, y, m, d].all Spec.BCD.okByte = false := by simpa using hok
    have hdec := decode_bad _ hok'
    have hn : ¬ [c, y, m, d].all nibblesOk = true := by rw [nibblesOk_eq]; simpa using hok'
    rw [if_neg hn]
    rw [readDate_bad _ hok']
    simp [decField, decDate, decDatePtr, hdec, Rel]

/-! #### system date, system time, HH:mm -/

theorem rel_sysDate (b : Bytes) (hb : b.length = 3) :
    Rel (decField goodFacts BCD.canonical B0 .sysDate b) (Spec.Codec.read .sysDate none b) := by
  obtain ⟨y, m, d, rfl⟩ := list3 b hb
  by_cases hz : [y, m, d] = [0, 0, 0]
  · simp only [List.cons.injEq, and_true] at hz
    obtain ⟨rfl, rfl, rfl⟩ := hz
    have e1 : decField goodFacts BCD.canonical B0 .sysDate [0, 0, 0] = .ok (.sysDate none) := by decide
    have r1 : Spec.Codec.read .sysDate none [0, 0, 0] = .invalid [.sysDate none] := by simp [Spec.Codec.read, nibblesOk, unbcd2, validDate]
    rw [e1, r1]; simp [Rel]
  · by_cases hok : [y, m, d].all Spec.BCD.okByte = true
    · have hdec := decode_ok _ hok
      have hn : (![y, m, d].all nibblesOk) = false := by rw [nibblesOk_eq, hok]; rfl
      have hcore : ∀ (p : Nat → Nat → Nat → Bool),
          p (digitsVal ((Spec.BCD.unpack [y, m, d]).take 2)) (digitsVal (((Spec.BCD.unpack [y, m, d]).drop 2).take 2))
            (digitsVal (((Spec.BCD.unpack [y, m, d]).drop 4).take 2)) = p (unbcd2 y) (unbcd2 m) (unbcd2 d) := by
        intro p; simp only [Spec.BCD.unpack, List.take, List.drop, dv2]
      simp only [decField, decSysDate, hz, if_false, hdec, Spec.Codec.read, hn, Bool.false_eq_true]
      simp only [Spec.BCD.unpack, List.take, List.drop, dv2]
      by_cases hv : validYMD ((if unbcd2 y ≥ 69 then 1900 + unbcd2 y else 2000 + unbcd2 y)) (unbcd2 m) (unbcd2 d) = true
      · have hv' : validDate ⟨(if unbcd2 y ≥ 69 then 1900 else 2000) + unbcd2 y, unbcd2 m, unbcd2 d⟩ = true := by
          unfold validDate; by_cases h69 : unbcd2 y ≥ 69 <;> simp [h69, validYMD] at hv ⊢ <;> exact hv
        by_cases h69 : unbcd2 y ≥ 69 <;> simp [h69, hv, hv', Rel] at hv hv' ⊢ <;> simp [hv, hv', Rel]
      · have hv' : validDate ⟨(if unbcd2 y ≥ 69 then 1900 else 2000) + unbcd2 y, unbcd2 m, unbcd2 d⟩ = false := by
          unfold validDate; by_cases h69 : unbcd2 y ≥ 69 <;> simp [h69, validYMD] at hv ⊢ <;> exact hv
        by_cases h69 : unbcd2 y ≥ 69 <;> simp [h69, hv, hv', Rel] at hv hv' ⊢ <;> simp [hv, hv', Rel]
    · have hok' : [y, m, d].all Spec.BCD.okByte = false := by simpa using hok
      have hdec := decode_bad _ hok'
      have hn : (![y, m, d].all nibblesOk) = true := by rw [nibblesOk_eq, hok']; rfl
      simp only [decField, decSysDate, hz, if_false, hdec, Spec.Codec.read, hn, if_true, Rel]

theorem rel_sysTime (b : Bytes) (hb : b.length = 3) :
    Rel (decField goodFacts BCD.canonical B0 .sysTime b) (Spec.Codec.read .sysTime none b) := by
  obtain ⟨h, m, s, rfl⟩ := list3 b hb
  by_cases hok : [h, m, s].all Spec.BCD.okByte = true
  · have hdec := decode_ok _ hok
    have hn : [h, m, s].all nibblesOk = true := by rw [nibblesOk_eq, hok]
    simp only [decField, decSysTime, hdec, Spec.Codec.read, hn, Bool.true_and]
    simp only [Spec.BCD.unpack, List.take, List.drop, dv2]
    by_cases hv : (decide (unbcd2 h < 24) && decide (unbcd2 m < 60) && decide (unbcd2 s < 60)) = true
    · simp [hv, Rel]
    · simp [hv, Rel]
  · have hok' : [h, m, s].all Spec.BCD.okByte = false := by simpa using hok
    have hdec := decode_bad _ hok'
    have hn : [h, m, s].all nibblesOk = false := by rw [nibblesOk_eq, hok']
    simp only [decField, decSysTime, hdec, Spec.Codec.read, hn, Bool.false_and, Bool.false_eq_true, if_false, Rel]

theorem rel_hhmm (b : Bytes) (hb : b.length = 2) :
    Rel (decField goodFacts BCD.canonical B0 .hhmm b) (Spec.Codec.read .hhmm none b) ∧
    Rel (decField goodFacts BCD.canonical B0 .hhmmPtr b) (Spec.Codec.read .hhmmPtr none b) := by
  obtain ⟨h, m, rfl⟩ := list2 b hb
  by_cases hok : [h, m].all Spec.BCD.okByte = true
  · have hdec := decode_ok _ hok
    have hn : [h, m].all nibblesOk = true := by rw [nibblesOk_eq, hok]
    simp only [decField, decHHmm, hdec, Spec.Codec.read, hn, Bool.true_and]
    simp only [Spec.BCD.unpack, List.take, List.drop, dv2]
    by_cases h1 : unbcd2 h > 24
    · have hd : hhmmInDomain ⟨(unbcd2 h : Int), (unbcd2 m : Int)⟩ = false := by
        simp [hhmmInDomain]; omega
      simp [h1, hd, Rel]
    · by_cases h2 : unbcd2 m > 59
      · have hd : hhmmInDomain ⟨(unbcd2 h : Int), (unbcd2 m : Int)⟩ = false := by
          simp [hhmmInDomain]; omega
        simp [h1, h2, hd, Rel]
      · by_cases h3 : unbcd2 h = 24 ∧ unbcd2 m ≠ 0
        · have hd : hhmmInDomain ⟨(unbcd2 h : Int), (unbcd2 m : Int)⟩ = false := by
            simp [hhmmInDomain]; omega
          have hd' : hhmmInDomain ⟨24, (unbcd2 m : Int)⟩ = false := by
            simp [hhmmInDomain]; omega
          simp [h1, h2, h3, hd', Rel]
        · have hd : hhmmInDomain ⟨(unbcd2 h : Int), (unbcd2 m : Int)⟩ = true := by
            simp [hhmmInDomain]; omega
          simp [h1, h2, h3, hd, Rel]
  · have hok' : [h, m].all Spec.BCD.okByte = false := by simpa using hok
    have hdec := decode_bad _ hok'
    have hn : [h, m].all nibblesOk = false := by rw [nibblesOk_eq, hok']
    simp [decField, decHHmm, hdec, Spec.Codec.read, hn, Rel]

/-! #### date-time -/

theorem unbcd2_small (x : UInt8) (hx : Spec.BCD.okByte x = true) (n : Nat) (hn : n ≤ 9) (h : unbcd2 x = n) :
    x = UInt8.ofNat n := by
  have hl := UInt8.toNat_lt x
  simp only [Spec.BCD.okByte, Bool.and_eq_true, decide_eq_true_eq] at hx
  unfold unbcd2 at h
  apply UInt8.toNat_inj.1
  simp [UInt8.toNat_ofNat']; omega

theorem readDateTime_bad (b : Bytes) (h : b.all Spec.BCD.okByte = false) : readDateTime b = none := by
  unfold readDateTime; rw [nibblesOk_eq, h]; rfl

theorem readDateTime_ok (c y mo d h mi s : UInt8) (hok : [c, y, mo, d, h, mi, s].all Spec.BCD.okByte = true) :
    readDateTime [c, y, mo, d, h, mi, s] =
      if [c, y, mo, d, h, mi, s] = [0, 0, 0, 0, 0, 0, 0] ∨ [c, y, mo, d, h, mi, s] = [0x00, 0x01, 0x01, 0x01, 0, 0, 0] then some none
      else if validDate ⟨unbcd2 c * 100 + unbcd2 y, unbcd2 mo, unbcd2 d⟩ && unbcd2 h < 24 && unbcd2 mi < 60 && unbcd2 s < 60 then
        some (some ⟨unbcd2 c * 100 + unbcd2 y, unbcd2 mo, unbcd2 d, unbcd2 h, unbcd2 mi, unbcd2 s⟩) else none := by
  unfold readDateTime; rw [nibblesOk_eq, hok]; rfl

theorem decDateTimeCore_unpack7 (c y mo d h mi s : UInt8) :
    decDateTimeCore (Spec.BCD.unpack [c, y, mo, d, h, mi, s]) =
      if validYMD (unbcd2 c * 100 + unbcd2 y) (unbcd2 mo) (unbcd2 d) && unbcd2 h < 24 && unbcd2 mi < 60 && unbcd2 s < 60 then
        (if unbcd2 c * 100 + unbcd2 y = 1 ∧ unbcd2 mo = 1 ∧ unbcd2 d = 1 ∧ unbcd2 h = 0 ∧ unbcd2 mi = 0 ∧ unbcd2 s = 0 then none
         else some ⟨unbcd2 c * 100 + unbcd2 y, unbcd2 mo, unbcd2 d, unbcd2 h, unbcd2 mi, unbcd2 s⟩)
      else none := by
  simp only [decDateTimeCore, Spec.BCD.unpack, List.take, List.drop, dv4, dv2]

theorem rel_dateTime (b : Bytes) (hb : b.length = 7) :
    Rel (decField goodFacts BCD.canonical B0 .dateTime b) (Spec.Codec.read .dateTime none b) ∧
    Rel (decField goodFacts BCD.canonical B0 .dateTimePtr b) (Spec.Codec.read .dateTimePtr none b) := by
  obtain ⟨c, y, mo, d, h, mi, s, rfl⟩ := list7 b hb
  have hr1 : ∀ bs, Spec.Codec.read .dateTime none bs = match readDateTime bs with
      | some (some d) => .exact (.dateTime (some d))
      | some none => .exact (.dateTime none)
      | none => if bs.all nibblesOk then .invalid [.dateTime none] else .invalid [] := fun _ => rfl
  have hr2 : ∀ bs, Spec.Codec.read .dateTimePtr none bs = match readDateTime bs with
      | some (some d) => .exact (.dateTimePtr (some (some d)))
      | some none => .noValue [.dateTimePtr none, .dateTimePtr (some none)]
      | none => .invalid [.dateTimePtr none, .dateTimePtr (some none)] := fun _ => rfl
  rw [hr1, hr2]
  by_cases h0 : [c, y, mo, d, h, mi, s] = [0, 0, 0, 0, 0, 0, 0]
  · simp only [List.cons.injEq, and_true] at h0
    obtain ⟨rfl, rfl, rfl, rfl, rfl, rfl, rfl⟩ := h0
    have e1 : decField goodFacts BCD.canonical B0 .dateTime [0, 0, 0, 0, 0, 0, 0] = .ok (.dateTime none) := by decide
    have e2 : decField goodFacts BCD.canonical B0 .dateTimePtr [0, 0, 0, 0, 0, 0, 0] = .ok (.dateTimePtr none) := by decide
    have r : readDateTime [0, 0, 0, 0, 0, 0, 0] = some none := by decide
    rw [e1, e2, r]; simp [Rel]
  · by_cases h1 : [c, y, mo, d, h, mi, s] = [0x00, 0x01, 0x01, 0x01, 0, 0, 0]
    · simp only [List.cons.injEq, and_true] at h1
      obtain ⟨rfl, rfl, rfl, rfl, rfl, rfl, rfl⟩ := h1
      have e1 : decField goodFacts BCD.canonical B0 .dateTime [0, 1, 1, 1, 0, 0, 0] = .ok (.dateTime none) := by decide
      have e2 : decField goodFacts BCD.canonical B0 .dateTimePtr [0, 1, 1, 1, 0, 0, 0] = .ok (.dateTimePtr none) := by decide
      have r : readDateTime [0, 1, 1, 1, 0, 0, 0] = some none := by decide
      rw [e1, e2, r]; simp [Rel]
    · by_cases h2 : [c, y, mo, d, h, mi, s] = [0x20, 0, 0, 0, 0, 0, 0]
      · simp only [List.cons.injEq, and_true] at h2
        obtain ⟨rfl, rfl, rfl, rfl, rfl, rfl, rfl⟩ := h2
        have e1 : decField goodFacts BCD.canonical B0 .dateTime [0x20, 0, 0, 0, 0, 0, 0] = .ok (.dateTime none) := by decide
        have e2 : decField goodFacts BCD.canonical B0 .dateTimePtr [0x20, 0, 0, 0, 0, 0, 0] = .ok (.dateTimePtr none) := by decide
        have r : readDateTime [0x20, 0, 0, 0, 0, 0, 0] = none := by decide
        have hn : ([0x20, 0, 0, 0, 0, 0, 0] : Bytes).all nibblesOk = true := by decide
        rw [e1, e2, r, if_pos hn]; simp [Rel]
      · have hsent : ¬ ([c, y, mo, d, h, mi, s] = [0, 0, 0, 0, 0, 0, 0] ∨ [c, y, mo, d, h, mi, s] = [0x00, 0x01, 0x01, 0x01, 0, 0, 0] ∨
            [c, y, mo, d, h, mi, s] = [0x20, 0, 0, 0, 0, 0, 0]) := by
          intro hc; rcases hc with hc | hc | hc
          · exact h0 hc
          · exact h1 hc
          · exact h2 hc
        by_cases hok : [c, y, mo, d, h, mi, s].all Spec.BCD.okByte = true
        · have hdec := decode_ok _ hok
          have hcore := decDateTimeCore_unpack7 c y mo d h mi s
          have hn : [c, y, mo, d, h, mi, s].all nibblesOk = true := by rw [nibblesOk_eq]; exact hok
          rw [if_pos hn]
          rw [readDateTime_ok c y mo d h mi s hok]
          rw [if_neg (by intro hc; rcases hc with hc | hc; exact h0 hc; exact h1 hc)]
          simp only [decField, decDateTime, decDateTimePtr, hsent, if_false, hdec, hcore]
          have hvd : validDate ⟨unbcd2 c * 100 + unbcd2 y, unbcd2 mo, unbcd2 d⟩ =
              validYMD (unbcd2 c * 100 + unbcd2 y) (unbcd2 mo) (unbcd2 d) := rfl
          rw [hvd]
          by_cases hv : (validYMD (unbcd2 c * 100 + unbcd2 y) (unbcd2 mo) (unbcd2 d) && decide (unbcd2 h < 24) &&
              decide (unbcd2 mi < 60) && decide (unbcd2 s < 60)) = true
          · -- the zero instant would be the 00010101000000 sentinel, excluded above
            have hnz : ¬ (unbcd2 c * 100 + unbcd2 y = 1 ∧ unbcd2 mo = 1 ∧ unbcd2 d = 1 ∧ unbcd2 h = 0 ∧ unbcd2 mi = 0 ∧ unbcd2 s = 0) := by
              rintro ⟨a1, a2, a3, a4, a5, a6⟩
              simp only [List.all_cons, List.all_nil, Bool.and_true, Bool.and_eq_true] at hok
              obtain ⟨k1, k2, k3, k4, k5, k6, k7⟩ := hok
              have hc0 : unbcd2 c = 0 := by
                have : unbcd2 y ≤ 99 := by
                  simp only [Spec.BCD.okByte, Bool.and_eq_true, decide_eq_true_eq] at k2; unfold unbcd2; omega
                omega
              have hy1 : unbcd2 y = 1 := by omega
              apply h1
              rw [unbcd2_small c k1 0 (by omega) hc0, unbcd2_small y k2 1 (by omega) hy1, unbcd2_small mo k3 1 (by omega) a2,
                unbcd2_small d k4 1 (by omega) a3, unbcd2_small h k5 0 (by omega) a4, unbcd2_small mi k6 0 (by omega) a5,
                unbcd2_small s k7 0 (by omega) a6]
              rfl
            simp [hv, hnz, Rel]
          · simp [hv, Rel]
        · have hok' : [c, y, mo, d, h, mi, s].all Spec.BCD.okByte = false := by simpa using hok
          have hdec := decode_bad _ hok'
          have hn : ¬ [c, y, mo, d, h, mi, s].all nibblesOk = true := by rw [nibblesOk_eq]; simpa using hok'
          rw [if_neg hn]
          rw [readDateTime_bad _ hok']
          simp only [decField, decDateTime, decDateTimePtr, hsent, if_false, hdec, Rel]
          simp

/-! ### all kinds, then leaves -/

theorem rel_decField (k : Kind) (b : Bytes) (hb : b.length = k.width) :
    Rel (decField goodFacts BCD.canonical B0 k b) (Spec.Codec.read k none b) := by
  cases k
  case date => exact (rel_date b hb).1
  case datePtr => exact (rel_date b hb).2
  case dateTime => exact (rel_dateTime b hb).1
  case dateTimePtr => exact (rel_dateTime b hb).2
  case sysDate => exact rel_sysDate b hb
  case sysTime => exact rel_sysTime b hb
  case hhmm => exact (rel_hhmm b hb).1
  case hhmmPtr => exact (rel_hhmm b hb).2
  all_goals exact rel_plain _ b hb (by simp)

theorem read_tag (k : Kind) (tag : Option String) (b : Bytes) (hk : k ≠ .u8 ∨ tag = none) :
    Spec.Codec.read k tag b = Spec.Codec.read k none b := by
  rcases hk with hk | hk
  · cases tag with
    | none => rfl
    | some t =>
      cases k <;> first
        | exact absurd rfl hk
        | rfl
        | (unfold Spec.Codec.read; rfl)
        | (rcases b with _ | ⟨x0, _ | ⟨x1, _ | ⟨x2, _ | ⟨x3, _ | ⟨x4, _ | ⟨x5, _ | ⟨x6, _ | ⟨x7, r⟩⟩⟩⟩⟩⟩⟩⟩ <;> rfl)
  · subst hk; rfl

theorem rel_leaf (bytes : Bytes) (hl : bytes.length = 64) (l : Leaf) (ht : tagsOk l = true)
    (hfit : ∀ o w, extent l = some (o, w) → o + w ≤ 64) :
    Rel (unmarshalLeaf goodFacts BCD.canonical B0 bytes l) (readLeaf bytes l) := by
  cases l with
  | skip => simp [unmarshalLeaf, readLeaf, Rel]
  | som tag => simp [unmarshalLeaf, readLeaf, Rel]
  | msgType tag =>
    cases tag with
    | none =>
      simp only [unmarshalLeaf, readLeaf]
      generalize bytes.getD 1 0 = x
      by_cases h0 : x = 0
      · simp [h0, Rel]
      · have : ¬ x.toNat = 0 := fun h => h0 (UInt8.toNat_inj.1 (by simpa using h))
        simp [h0, this, Rel]
    | some t =>
      simp only [tagsOk, Option.isSome_iff_exists] at ht
      obtain ⟨n, hn⟩ := ht
      have hp : parseUint8 goodFacts.headerValueBase t = some n := parseUint8_of_tagValue t n hn
      simp only [unmarshalLeaf, readLeaf, hp, hn]
      generalize bytes.getD 1 0 = x
      by_cases hb : x.toNat = n
      · simp [hb, Rel]
      · simp [hb, Rel]
  | «at» off k tag =>
    have hf := hfit off k.width rfl
    have hrw : k.width ≤ readWidth goodFacts k ∧ readWidth goodFacts k = k.width := by cases k <;> exact ⟨Nat.le_refl _, rfl⟩
    by_cases hk : k ≠ .u8 ∨ tag = none
    · have hfix : fixedValue goodFacts k tag = some none := by
        cases tag with
        | none => cases k <;> rfl
        | some t => cases k <;> first | rfl | (cases hk <;> contradiction)
      simp only [unmarshalLeaf, hfix, hrw.2, hl, readLeaf]
      rw [if_pos ⟨hf, Nat.le_refl _⟩, read_tag k tag _ hk]
      exact rel_decField k _ (length_readAt bytes off k.width (by omega))
    · have hk' : k = .u8 ∧ tag ≠ none := by
        constructor
        · apply Classical.byContradiction; intro hc; exact hk (Or.inl hc)
        · intro hc; exact hk (Or.inr hc)
      obtain ⟨rfl, htn⟩ := hk'
      cases tag with
      | none => exact absurd rfl htn
      | some t =>
        simp only [tagsOk, Option.isSome_iff_exists] at ht
        obtain ⟨n, hn⟩ := ht
        have hp : parseUint8 goodFacts.byteValueBase t = some n := parseUint8_of_tagValue t n hn
        simp only [Kind.width] at hf
        have hread : readAt bytes off 1 = [bytes.getD off 0] := by
          have hlt : off < bytes.length := by omega
          apply List.ext_getElem?
          intro i
          unfold readAt
          rw [List.getElem?_take]
          by_cases hi : i < 1
          · have : i = 0 := by omega
            subst this
            simp [List.getD_eq_getElem?_getD, List.getElem?_eq_getElem hlt]
          · simp only [hi, if_false]
            rw [List.getElem?_eq_none (by simp; omega)]
        have hrw8 : readWidth goodFacts .u8 = 1 := rfl
        simp only [unmarshalLeaf, fixedValue, hp, readLeaf, Kind.width, hread, Spec.Codec.read, hn, hrw8, hl]
        have hw : off + 1 ≤ 64 ∧ 1 ≤ 1 := ⟨hf, Nat.le_refl _⟩
        rw [if_pos hw]
        generalize bytes.getD off 0 = x
        by_cases hb : x.toNat = n
        · simp [hb, Rel]
        · simp [hb, Rel]

/-! ### the whole message -/

def leafBad (bytes : Bytes) (l : Leaf) : Bool :=
  match readLeaf bytes l with
  | .exact _ | .noValue _ => false
  | _ => true

def leafOk (bytes : Bytes) (p : Leaf × Val) : Bool :=
  match readLeaf bytes p.1 with
  | .exact x => p.2 == x
  | .noValue xs => xs.contains p.2
  | .invalid zs => zs.contains p.2
  | .mustFail => false

theorem rel_ok (bytes : Bytes) (l : Leaf) (v : Val) (h : Rel (.ok v) (readLeaf bytes l)) : leafOk bytes (l, v) = true := by
  unfold leafOk; unfold Rel at h
  cases hr : readLeaf bytes l <;> simp only [hr] at h ⊢
  · simp [h]
  · simpa using h
  · simpa using h

theorem rel_err (bytes : Bytes) (l : Leaf) (h : Rel .err (readLeaf bytes l)) : leafBad bytes l = true := by
  unfold leafBad; unfold Rel at h
  cases hr : readLeaf bytes l <;> simp only [hr] at h ⊢

def LeavesOk (ls : List Leaf) : Prop :=
  ∀ l ∈ ls, tagsOk l = true ∧ ∀ o w, extent l = some (o, w) → o + w ≤ 64

theorem leaves_sound (bytes : Bytes) (hl : bytes.length = 64) : ∀ (ls : List Leaf), LeavesOk ls →
    match unmarshalLeaves goodFacts BCD.canonical B0 bytes ls with
    | (vs, .ok ()) => vs.length = ls.length ∧ (ls.zip vs).all (leafOk bytes) = true
    | (_, .err) => ls.any (leafBad bytes) = true
    | (_, .panic) => False
  | [], _ => by simp [unmarshalLeaves]
  | l :: ls, h => by
    have hl' := h l (by simp)
    have hrel := rel_leaf bytes hl l hl'.1 hl'.2
    have ih := leaves_sound bytes hl ls (fun l' hm => h l' (by simp [hm]))
    simp only [unmarshalLeaves]
    cases hu : unmarshalLeaf goodFacts BCD.canonical B0 bytes l with
    | ok v =>
      rw [hu] at hrel
      have hok := rel_ok bytes l v hrel
      simp only
      cases hr : unmarshalLeaves goodFacts BCD.canonical B0 bytes ls with
      | mk vs o =>
        rw [hr] at ih
        cases o with
        | ok u => simp only at ih ⊢; exact ⟨by simp [ih.1], by simp [hok, ih.2]⟩
        | err => simp only at ih ⊢; simp [ih]
        | panic => exact ih
    | err =>
      rw [hu] at hrel
      simp [rel_err bytes l hrel]
    | panic => rw [hu] at hrel; simp [Rel] at hrel

theorem unmarshalLeaves_append (bytes : Bytes) : ∀ (a b : List Leaf),
    unmarshalLeaves goodFacts BCD.canonical B0 bytes (a ++ b) =
      match unmarshalLeaves goodFacts BCD.canonical B0 bytes a with
      | (va, .ok ()) => ((va ++ (unmarshalLeaves goodFacts BCD.canonical B0 bytes b).1),
                         (unmarshalLeaves goodFacts BCD.canonical B0 bytes b).2)
      | (va, .err) => (va ++ b.map zeroVal, .err)
      | (va, .panic) => (va ++ b.map zeroVal, .panic)
  | [], b => by simp [unmarshalLeaves]
  | l :: a, b => by
    simp only [List.cons_append, unmarshalLeaves]
    cases hu : unmarshalLeaf goodFacts BCD.canonical B0 bytes l with
    | ok v =>
      simp only
      rw [unmarshalLeaves_append bytes a b]
      cases hr : unmarshalLeaves goodFacts BCD.canonical B0 bytes a with
      | mk va o => cases o <;> simp
    | err => simp
    | panic => simp

theorem fields_eq_leaves (bytes : Bytes) : ∀ (fs : List Field),
    unmarshalFields goodFacts BCD.canonical B0 bytes fs = unmarshalLeaves goodFacts BCD.canonical B0 bytes (Layout.leaves fs)
  | [] => by simp [unmarshalFields, unmarshalLeaves, Layout.leaves]
  | .leaf n l :: fs => by
    have hl : Layout.leaves (.leaf n l :: fs) = l :: Layout.leaves fs := by simp [Layout.leaves, Field.leaves]
    rw [hl]
    simp only [unmarshalFields, unmarshalLeaves, fields_eq_leaves bytes fs]
    cases unmarshalLeaf goodFacts BCD.canonical B0 bytes l <;> simp
  | .embed n ls :: fs => by
    have hl : Layout.leaves (.embed n ls :: fs) = ls.map (·.2) ++ Layout.leaves fs := by simp [Layout.leaves, Field.leaves]
    rw [hl, unmarshalLeaves_append]
    simp only [unmarshalFields, fields_eq_leaves bytes fs]
    cases hr : unmarshalLeaves goodFacts BCD.canonical B0 bytes (ls.map (·.2)) with
    | mk va o =>
      cases o with
      | ok u => simp
      | err => simp [goodFacts]
      | panic => simp

def toResult : Outcome (List Val) → Result
  | .ok vs => .ok vs
  | .err => .err
  | .panic => .panic

/-- **decode is sound** for every layout whose fields fit and whose tags are in the grammar, on EVERY
    byte string: the model's `Unmarshal` result is one the specification's decoding relation accepts -/
theorem unmarshal_sound (L : Layout) (hok : LeavesOk L.leaves) (bytes : Bytes) :
    acceptsUnmarshal L.leaves bytes (toResult (unmarshal goodFacts BCD.canonical B0 L bytes)) = true := by
  unfold unmarshal
  by_cases hlen : bytes.length = 64
  · have h1 : ¬ bytes.length ≠ goodFacts.lenCheck := by simp [goodFacts, hlen]
    rw [if_neg h1]
    by_cases hsom : (bytes.getD 0 0).toNat ≠ goodFacts.som ∧ ((bytes.getD 0 0).toNat ≠ goodFacts.somAlt ∨ (bytes.getD 1 0).toNat ≠ goodFacts.somAltCode)
    · rw [if_pos hsom]
      have hh : headerOk bytes = false := by
        unfold headerOk
        simp only [goodFacts] at hsom
        generalize bytes.getD 0 0 = x0 at hsom ⊢
        generalize bytes.getD 1 0 = x1 at hsom ⊢
        have a : (x0 == 0x17) = false := by
          simp only [beq_eq_false_iff_ne]; intro h; exact hsom.1 (by rw [h]; rfl)
        have b : (x0 == 0x19 && x1 == 0x20) = false := by
          rcases hsom.2 with h | h
          · have : (x0 == 0x19) = false := by
              simp only [beq_eq_false_iff_ne]; intro h'; exact h (by rw [h']; rfl)
            simp [this]
          · have : (x1 == 0x20) = false := by
              simp only [beq_eq_false_iff_ne]; intro h'; exact h (by rw [h']; rfl)
            simp [this]
        rw [a, b]; simp
      simp [toResult, acceptsUnmarshal, hh]
    · rw [if_neg hsom]
      have hh : headerOk bytes = true := by
        unfold headerOk
        simp only [goodFacts] at hsom
        generalize bytes.getD 0 0 = x0 at hsom ⊢
        generalize bytes.getD 1 0 = x1 at hsom ⊢
        have hl64 : (bytes.length == 64) = true := by simp [hlen]
        rw [hl64]
        by_cases h0 : x0 = 0x17
        · subst h0; rfl
        · have n0 : x0.toNat ≠ 23 := fun h => h0 (UInt8.toNat_inj.1 (by simpa using h))
          have e0 : x0.toNat = 25 := by
            apply Classical.byContradiction; intro hc; exact hsom ⟨n0, Or.inl hc⟩
          have e1 : x1.toNat = 32 := by
            apply Classical.byContradiction; intro hc; exact hsom ⟨n0, Or.inr hc⟩
          have c0 : x0 = 0x19 := UInt8.toNat_inj.1 (by simpa using e0)
          have c1 : x1 = 0x20 := UInt8.toNat_inj.1 (by simpa using e1)
          subst c0; subst c1; rfl
      rw [fields_eq_leaves]
      have hs := leaves_sound bytes hlen L.leaves hok
      cases hr : unmarshalLeaves goodFacts BCD.canonical B0 bytes L.leaves with
      | mk vs o =>
        rw [hr] at hs
        cases o with
        | ok u =>
          simp only at hs ⊢
          simp only [toResult, acceptsUnmarshal, hh, Bool.true_and, Bool.and_eq_true, beq_iff_eq]
          exact ⟨hs.1, hs.2⟩
        | err =>
          simp only at hs ⊢
          simp only [toResult, acceptsUnmarshal, hh, Bool.not_true, Bool.false_or]
          exact hs
        | panic => exact absurd hs (by simp)
  · have h1 : bytes.length ≠ goodFacts.lenCheck := by simpa [goodFacts] using hlen
    rw [if_pos h1]
    have hh : headerOk bytes = false := by simp [headerOk, hlen]
    simp [toResult, acceptsUnmarshal, hh]

end Uhppote.Proofs.Codec
