import Uhppote.Proofs.CodecEnc
/-! One field of a layout: the model's writer puts exactly the specification's wire bytes at the
    field's offset. -/
set_option linter.unusedSimpArgs false
namespace Uhppote.Proofs.Codec
open Uhppote Uhppote.Model Uhppote.Spec.Codec

theorem setAt_eq (buf : Bytes) (o : Nat) (v : UInt8) (h : o + 1 ≤ buf.length) :
    setAt buf o v = .ok (writeAt buf o [v]) := by
  unfold setAt; rw [if_pos (by omega)]; rfl

theorem copyAt_eq (buf : Bytes) (o : Nat) (b : Bytes) (h : o + b.length ≤ buf.length) :
    copyAt buf o b = .ok (writeAt buf o b) := by
  unfold copyAt; rw [if_pos h]

theorem le32_wire (v : Nat) (h : v < 4294967296) :
    le32 v = [UInt8.ofNat (v % 256), UInt8.ofNat (v / 256 % 256), UInt8.ofNat (v / 65536 % 256), UInt8.ofNat (v / 16777216)] := by
  unfold le32
  have : v / 16777216 % 256 = v / 16777216 := by omega
  rw [this]

theorem le16_wire (v : Nat) (h : v < 65536) : le16 v = [UInt8.ofNat (v % 256), UInt8.ofNat (v / 256)] := by
  unfold le16
  have : v / 256 % 256 = v / 256 := by omega
  rw [this]

theorem be16_wire (v : Nat) (h : v < 65536) : be16 v = [UInt8.ofNat (v / 256), UInt8.ofNat (v % 256)] := by
  unfold be16
  have : v / 256 % 256 = v / 256 := by omega
  rw [this]

theorem encPIN_wire (v : Nat) (h : v ≤ 999999) :
    encPIN v = [UInt8.ofNat (v % 256), UInt8.ofNat (v / 256 % 256), UInt8.ofNat (v / 65536)] := by
  unfold encPIN le32
  have : v / 65536 % 256 = v / 65536 := by omega
  simp [this]

theorem encMac_six (bs : Bytes) (h : bs.length = 6) : encMac bs = bs := by
  unfold encMac
  rw [List.take_append_of_le_length (by omega), List.take_of_length_le (by omega)]

theorem validDate_bounds (d : YMD) (h : validDate d = true) : d.m < 100 ∧ d.d < 100 := by
  simp only [validDate, Bool.and_eq_true, decide_eq_true_eq] at h
  have : daysIn d.y d.m ≤ 31 := by
    unfold daysIn; split <;> (try split) <;> omega
  omega

/-- the Marshaler kinds -/
theorem encMarshaler_wire (k : Kind) (v : Val) (b : Bytes) (hk : k.isMarshaler = true)
    (hw : wire k v = some b) :
    (encMarshaler BCD.canonical k v = some (some b)) ∨ (encMarshaler BCD.canonical k v = none ∧ b = []) := by
  cases k <;> simp only [Kind.isMarshaler] at hk <;> (try cases hk) <;> cases v <;>
    simp only [wire] at hw <;> (try cases hw)
  -- serial
  · rename_i v; left
    split at hw
    · cases hw; simp [encMarshaler, le32_wire _ ‹_›]
    · cases hw
  -- date
  · rename_i d; left
    cases d with
    | none => cases hw; rfl
    | some d =>
      simp only at hw
      split at hw
      · rename_i hd; cases hw
        simp only [dateInDomain, Bool.and_eq_true, decide_eq_true_eq] at hd
        have := validDate_bounds d hd.1.1.1
        simp only [encMarshaler]
        exact congrArg some (encDate_some d ⟨by omega, this.1, this.2⟩)
      · cases hw
  -- datePtr
  · rename_i d
    cases d with
    | none => right; cases hw; exact ⟨rfl, rfl⟩
    | some d =>
      left
      cases d with
      | none => cases hw; rfl
      | some d =>
        simp only at hw
        split at hw
        · rename_i hd; cases hw
          simp only [dateInDomain, Bool.and_eq_true, decide_eq_true_eq] at hd
          have := validDate_bounds d hd.1.1.1
          simp only [encMarshaler]
          exact congrArg some (encDate_some d ⟨by omega, this.1, this.2⟩)
        · cases hw
  -- dateTime
  · rename_i d; left
    cases d with
    | none => cases hw; simp only [encMarshaler]; exact congrArg some (encDateTime_none)
    | some d =>
      simp only at hw
      split at hw
      · rename_i hd; cases hw
        simp only [dateTimeInDomain, Bool.and_eq_true, decide_eq_true_eq] at hd
        have := validDate_bounds ⟨d.y, d.mo, d.d⟩ hd.1.1.1.1.1.1
        simp only [encMarshaler]
        exact congrArg some (encDateTime_some d ⟨by omega, this.1, this.2, by omega, by omega, by omega⟩)
      · cases hw
  -- dateTimePtr
  · rename_i d
    cases d with
    | none => right; cases hw; exact ⟨rfl, rfl⟩
    | some d =>
      left
      cases d with
      | none => cases hw; simp only [encMarshaler]; exact congrArg some (encDateTime_none)
      | some d =>
        simp only at hw
        split at hw
        · rename_i hd; cases hw
          simp only [dateTimeInDomain, Bool.and_eq_true, decide_eq_true_eq] at hd
          have := validDate_bounds ⟨d.y, d.mo, d.d⟩ hd.1.1.1.1.1.1
          simp only [encMarshaler]
          exact congrArg some (encDateTime_some d ⟨by omega, this.1, this.2, by omega, by omega, by omega⟩)
        · cases hw
  -- sysDate
  · rename_i d; left
    cases d with
    | none => simp at hw
    | some d =>
      simp only at hw
      split at hw
      · rename_i hd; cases hw
        simp only [Bool.and_eq_true, decide_eq_true_eq] at hd
        have := validDate_bounds d hd.1.1
        simp only [encMarshaler]
        exact congrArg some (encSysDate_some d this)
      · cases hw
  -- sysTime
  · rename_i t; left
    split at hw
    · rename_i ht; cases hw
      simp only [Bool.and_eq_true, decide_eq_true_eq] at ht
      simp only [encMarshaler]
      exact congrArg some (encSysTime_eq t ⟨by omega, by omega, by omega⟩)
    · cases hw
  -- hhmm
  · rename_i t; left
    split at hw
    · rename_i ht; cases hw
      simp only [hhmmInDomain, Bool.and_eq_true, decide_eq_true_eq] at ht
      simp only [encMarshaler]
      exact congrArg some (encHHmm_eq t ⟨by omega, by omega, by omega, by omega⟩)
    · cases hw
  -- hhmmPtr
  · rename_i t
    cases t with
    | none => right; cases hw; exact ⟨rfl, rfl⟩
    | some t =>
      left
      simp only at hw
      split at hw
      · rename_i ht; cases hw
        simp only [hhmmInDomain, Bool.and_eq_true, decide_eq_true_eq] at ht
        simp only [encMarshaler]
        exact congrArg some (encHHmm_eq t ⟨by omega, by omega, by omega, by omega⟩)
      · cases hw
  -- pin
  · rename_i v; left
    split at hw
    · cases hw; simp [encMarshaler, encPIN_wire _ ‹_›]
    · cases hw
  -- version
  · rename_i v; left
    split at hw
    · cases hw; simp [encMarshaler, be16_wire _ ‹_›]
    · cases hw
  -- macAddress
  · rename_i bs; left
    split at hw
    · cases hw; simp [encMarshaler, encMac_six _ ‹_›]
    · cases hw

end Uhppote.Proofs.Codec

namespace Uhppote.Proofs.Codec
open Uhppote Uhppote.Model Uhppote.Spec.Codec

theorem to4_wire (bs b : Bytes) (h : wire .ipv4 (.ip bs) = some b) : ((to4 bs).getD []).take 4 = b ∧ b.length = 4 := by
  simp only [wire] at h
  unfold to4
  split at h
  · rename_i h4; cases h
    simp only [h4, if_true, Option.getD_some]
    simp [List.take_of_length_le (Nat.le_of_eq h4), h4]
  · split at h
    · rename_i h16; cases h
      have hl : (List.drop 12 bs).length = 4 := by simp [h16.1]
      simp only [h16.1, v4InV6Prefix, h16.2, and_self, if_true]
      simp [List.take_of_length_le (Nat.le_of_eq hl), hl]
    · cases h

theorem to4_wire' : True := trivial

section
variable (buf : Bytes) (off : Nat) (tag : Option String) (v : Val) (o : Nat) (b : Bytes)

/-- unpack `leafWire` of an offset field into the wire bytes of its value -/
theorem leafWire_at (k : Kind) (hk : k ≠ .u8 ∨ tag = none)
    (hw : leafWire (.at off k tag) v = some (o, b)) : wire k v = some b ∧ o = off := by
  have : leafWire (.at off k tag) v = (wire k v).map fun b => (off, b) := by
    cases tag with
    | none => cases k <;> rfl
    | some t => cases k <;> first | rfl | (cases hk <;> contradiction)
  rw [this, Option.map_eq_some_iff] at hw
  obtain ⟨b', h1, h2⟩ := hw
  cases h2
  exact ⟨h1, rfl⟩

theorem leaf_marshaler (hb : buf.length = 64) (k : Kind) (hm : k.isMarshaler = true)
    (hw : leafWire (.at off k tag) v = some (o, b)) (hfit : o + b.length ≤ 64) :
    marshalLeaf goodFacts BCD.canonical buf (.at off k tag) v = .ok (writeAt buf o b) := by
  have hk : k ≠ .u8 := by intro h; subst h; simp [Kind.isMarshaler] at hm
  obtain ⟨h1, rfl⟩ := leafWire_at off tag v o b k (Or.inl hk) hw
  simp only [marshalLeaf, hm, if_true]
  rcases encMarshaler_wire k v b hm h1 with h | ⟨h, rfl⟩
  · rw [h]; exact copyAt_eq _ _ _ (by omega)
  · rw [h]; rfl

theorem leaf_u8_tag (hb : buf.length = 64) (t : String)
    (hw : leafWire (.at off .u8 (some t)) v = some (o, b)) (hfit : o + b.length ≤ 64) :
    marshalLeaf goodFacts BCD.canonical buf (.at off .u8 (some t)) v = .ok (writeAt buf o b) := by
  simp only [leafWire, Option.map_eq_some_iff] at hw
  obtain ⟨n, hn, he⟩ := hw
  cases he
  have hp : parseUint8 goodFacts.byteValueBase t = some n := parseUint8_of_tagValue t n hn
  have hset := setAt_eq buf off (UInt8.ofNat n) (by simp at hfit; omega)
  simp [marshalLeaf, Kind.isMarshaler, hp, hset]

theorem leaf_u8 (hb : buf.length = 64)
    (hw : leafWire (.at off .u8 none) v = some (o, b)) (hfit : o + b.length ≤ 64) :
    marshalLeaf goodFacts BCD.canonical buf (.at off .u8 none) v = .ok (writeAt buf o b) := by
  obtain ⟨h1, rfl⟩ := leafWire_at off none v o b .u8 (Or.inr rfl) hw
  cases v <;> simp only [wire] at h1 <;> (try cases h1)
  simp only [marshalLeaf, Kind.isMarshaler, Bool.false_eq_true, if_false]
  exact setAt_eq _ _ _ (by simp at hfit; omega)

theorem leaf_u16 (hb : buf.length = 64)
    (hw : leafWire (.at off .u16 tag) v = some (o, b)) (hfit : o + b.length ≤ 64) :
    marshalLeaf goodFacts BCD.canonical buf (.at off .u16 tag) v = .ok (writeAt buf o b) := by
  obtain ⟨h1, rfl⟩ := leafWire_at off tag v o b .u16 (Or.inl (by simp)) hw
  cases v <;> simp only [wire] at h1 <;> (try cases h1)
  split at h1
  · rename_i hv; cases h1
    simp only [List.length_cons, List.length_nil] at hfit
    have : o + goodFacts.u16WriteSlice ≤ buf.length ∧ 2 ≤ goodFacts.u16WriteSlice := by
      simp [goodFacts]; omega
    simp only [marshalLeaf, Kind.isMarshaler, Bool.false_eq_true, if_false, this, and_self, if_true]
    simp only [goodFacts, if_true, le16_wire _ hv]
  · cases h1

theorem leaf_u32 (hb : buf.length = 64)
    (hw : leafWire (.at off .u32 tag) v = some (o, b)) (hfit : o + b.length ≤ 64) :
    marshalLeaf goodFacts BCD.canonical buf (.at off .u32 tag) v = .ok (writeAt buf o b) := by
  obtain ⟨h1, rfl⟩ := leafWire_at off tag v o b .u32 (Or.inl (by simp)) hw
  cases v <;> simp only [wire] at h1 <;> (try cases h1)
  split at h1
  · rename_i hv; cases h1
    simp only [List.length_cons, List.length_nil] at hfit
    have : o + goodFacts.u32WriteSlice ≤ buf.length ∧ 4 ≤ goodFacts.u32WriteSlice := by
      simp [goodFacts]; omega
    simp only [marshalLeaf, Kind.isMarshaler, Bool.false_eq_true, if_false, this, and_self, if_true]
    simp only [goodFacts, if_true, le32_wire _ hv]
  · cases h1

theorem leaf_bool (hb : buf.length = 64)
    (hw : leafWire (.at off .bool tag) v = some (o, b)) (hfit : o + b.length ≤ 64) :
    marshalLeaf goodFacts BCD.canonical buf (.at off .bool tag) v = .ok (writeAt buf o b) := by
  obtain ⟨h1, rfl⟩ := leafWire_at off tag v o b .bool (Or.inl (by simp)) hw
  cases v <;> simp only [wire] at h1 <;> (try cases h1)
  rename_i x
  simp only [marshalLeaf, Kind.isMarshaler, Bool.false_eq_true, if_false, goodFacts]
  rw [setAt_eq _ _ _ (by simp at hfit; omega)]
  cases x <;> rfl

theorem leaf_ipv4 (hb : buf.length = 64)
    (hw : leafWire (.at off .ipv4 tag) v = some (o, b)) (hfit : o + b.length ≤ 64) :
    marshalLeaf goodFacts BCD.canonical buf (.at off .ipv4 tag) v = .ok (writeAt buf o b) := by
  obtain ⟨h1, rfl⟩ := leafWire_at off tag v o b .ipv4 (Or.inl (by simp)) hw
  cases v <;> (try (simp only [wire] at h1; cases h1))
  obtain ⟨e1, e2⟩ := to4_wire _ _ h1
  simp only [marshalLeaf, Kind.isMarshaler, Bool.false_eq_true, if_false, e1]
  rw [if_pos (by omega)]

theorem leaf_addrPort (hb : buf.length = 64)
    (hw : leafWire (.at off .addrPort tag) v = some (o, b)) (hfit : o + b.length ≤ 64) :
    marshalLeaf goodFacts BCD.canonical buf (.at off .addrPort tag) v = .ok (writeAt buf o b) := by
  obtain ⟨h1, rfl⟩ := leafWire_at off tag v o b .addrPort (Or.inl (by simp)) hw
  cases v <;> (try (simp only [wire] at h1; cases h1))
  rename_i a
  cases a with
  | other => simp only [wire] at h1; cases h1
  | v4 a b' c d p =>
    simp only [wire] at h1
    split at h1
    · rename_i hp; cases h1
      simp only [marshalLeaf, Kind.isMarshaler, Bool.false_eq_true, if_false, le16_wire _ hp, List.cons_append, List.nil_append]
      exact copyAt_eq _ _ _ (by simpa [hb] using hfit)
    · cases h1

theorem leaf_mac (hb : buf.length = 64)
    (hw : leafWire (.at off .mac tag) v = some (o, b)) (hfit : o + b.length ≤ 64) :
    marshalLeaf goodFacts BCD.canonical buf (.at off .mac tag) v = .ok (writeAt buf o b) := by
  obtain ⟨h1, rfl⟩ := leafWire_at off tag v o b .mac (Or.inl (by simp)) hw
  cases v <;> (try (simp only [wire] at h1; cases h1))
  simp only [wire] at h1
  split at h1
  · rename_i h6; cases h1
    simp only [marshalLeaf, Kind.isMarshaler, Bool.false_eq_true, if_false]
    rw [if_pos (by omega), List.take_of_length_le (by omega)]
  · cases h1

end

/-- THE per-field lemma: whatever the buffer, the writer of a leaf puts the specification's wire
    bytes of the value at the leaf's offset and touches nothing else -/
theorem marshalLeaf_wire (buf : Bytes) (hb : buf.length = 64) (l : Leaf) (v : Val) (o : Nat) (b : Bytes)
    (hw : leafWire l v = some (o, b)) (hfit : o + b.length ≤ 64) :
    marshalLeaf goodFacts BCD.canonical buf l v = .ok (writeAt buf o b) := by
  cases l with
  | skip => simp only [leafWire] at hw; cases hw; rfl
  | som tag =>
    cases tag with
    | none =>
      cases v <;> simp only [leafWire] at hw <;> (try cases hw)
      simp only [marshalLeaf]; exact setAt_eq _ _ _ (by omega)
    | some t =>
      simp only [leafWire, Option.map_eq_some_iff] at hw
      obtain ⟨n, hn, he⟩ := hw
      cases he
      have hp : parseUint8 goodFacts.headerValueBase t = some n := parseUint8_of_tagValue t n hn
      have : marshalLeaf goodFacts BCD.canonical buf (.som (some t)) v = setAt buf 0 (UInt8.ofNat n) := by
        cases v <;> simp [marshalLeaf, hp]
      rw [this]; exact setAt_eq _ _ _ (by omega)
  | msgType tag =>
    cases tag with
    | none =>
      cases v <;> simp only [leafWire] at hw <;> (try cases hw)
      simp only [marshalLeaf]; exact setAt_eq _ _ _ (by omega)
    | some t =>
      simp only [leafWire, Option.map_eq_some_iff] at hw
      obtain ⟨n, hn, he⟩ := hw
      cases he
      have hp : parseUint8 goodFacts.headerValueBase t = some n := parseUint8_of_tagValue t n hn
      have : marshalLeaf goodFacts BCD.canonical buf (.msgType (some t)) v = setAt buf 1 (UInt8.ofNat n) := by
        cases v <;> simp [marshalLeaf, hp]
      rw [this]; exact setAt_eq _ _ _ (by omega)
  | «at» off k tag =>
    cases k with
    | u8 =>
      cases tag with
      | some t => exact leaf_u8_tag buf off v o b hb t hw hfit
      | none => exact leaf_u8 buf off v o b hb hw hfit
    | u16 => exact leaf_u16 buf off tag v o b hb hw hfit
    | u32 => exact leaf_u32 buf off tag v o b hb hw hfit
    | bool => exact leaf_bool buf off tag v o b hb hw hfit
    | ipv4 => exact leaf_ipv4 buf off tag v o b hb hw hfit
    | addrPort => exact leaf_addrPort buf off tag v o b hb hw hfit
    | mac => exact leaf_mac buf off tag v o b hb hw hfit
    | serial | date | datePtr | dateTime | dateTimePtr | sysDate | sysTime | hhmm | hhmmPtr | pin | version
    | macAddress => exact leaf_marshaler buf off tag v o b hb _ rfl hw hfit

end Uhppote.Proofs.Codec
