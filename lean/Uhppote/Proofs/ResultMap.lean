import Uhppote.Model.Api
import Uhppote.Spec.Api
/-! name-keyed reply fields (specification) vs positions in the reply struct (model) -/
namespace Uhppote.Proofs.ResultMap
open Uhppote Uhppote.Model Uhppote.Model.Api

theorem get_zip : ∀ (names : List String) (r : List Val) (n : String), n ∈ names →
    Spec.Api.get (names.zip r) n = r.getD (names.idxOf n) .none_
  | [], _, _, h => by simp at h
  | m :: names, [], n, _ => by simp [Spec.Api.get]
  | m :: names, v :: r, n, h => by
    by_cases hm : n = m
    · subst hm; simp [Spec.Api.get, List.lookup]
    · have hmem : n ∈ names := by
        rcases List.mem_cons.1 h with h | h
        · exact absurd h hm
        · exact h
      have ih := get_zip names r n hmem
      have hne : (n == m) = false := by simpa using hm
      have hne' : (m == n) = false := by simpa using (Ne.symm hm)
      simp only [Spec.Api.get, List.zip_cons_cons, List.lookup, hne] at ih ⊢
      rw [List.idxOf_cons, hne']
      simpa using ih

/-- position of a field name in a layout -/
def pos : List String → String → Option Nat
  | [], _ => none
  | m :: ms, n => if n = m then some 0 else (pos ms n).map (· + 1)

theorem get_zip_pos : ∀ (names : List String) (r : List Val) (n : String),
    Spec.Api.get (names.zip r) n = match pos names n with
      | some i => r.getD i .none_
      | none => .none_
  | [], _, _ => by simp [Spec.Api.get, pos]
  | m :: names, [], n => by
    simp only [List.zip_nil_right, Spec.Api.get, List.lookup, Option.getD_none]
    cases pos (m :: names) n <;> simp
  | m :: names, v :: r, n => by
    by_cases hm : n = m
    · subst hm; simp [Spec.Api.get, pos]
    · have ih := get_zip_pos names r n
      have hne : (n == m) = false := by simpa using hm
      simp only [Spec.Api.get, List.zip_cons_cons, List.lookup, hne, pos, hm, if_false] at ih ⊢
      rw [ih]
      cases pos names n <;> simp

theorem take_drop_getD (r : List Val) (o k : Nat) (h : o + k ≤ r.length) :
    (r.drop o).take k = (List.range k).map (fun i => r.getD (o + i) .none_) := by
  apply List.ext_getElem?
  intro i
  rw [List.getElem?_take]
  by_cases hi : i < k
  · simp only [hi, if_true, List.getElem?_drop, List.getElem?_map, List.getElem?_range hi, Option.map_some]
    rw [List.getD_eq_getElem?_getD, List.getElem?_eq_getElem (by omega)]
    rfl
  · simp only [hi, if_false]
    rw [List.getElem?_eq_none]
    simp; omega

theorem drop_getD (r : List Val) (o k : Nat) (h : o + k = r.length) :
    r.drop o = (List.range k).map (fun i => r.getD (o + i) .none_) := by
  have := take_drop_getD r o k (by omega)
  rw [← this, List.take_of_length_le (by simp; omega)]

theorem u32?_n32 (x : Arg) : u32? x = Spec.Api.n32 x := by
  cases x with
  | v y => cases y <;> rfl
  | _ => rfl
theorem n8_u8? (x : Arg) : Spec.Api.n8 x = (u8? x).toNat := by
  cases x with
  | v y => cases y <;> rfl
  | _ => rfl
theorem hmOfPtr_hmVal (x : Val) : hmOfPtr x = Spec.Api.hmVal x := by
  cases x with
  | hhmmPtr t => cases t <;> rfl
  | _ => rfl


end Uhppote.Proofs.ResultMap
