import Uhppote.Model.BCD
import Uhppote.Spec.BCD
/-! Helper lemmas for C12: the Go loops (model) compute the packed-BCD specification. -/
namespace Uhppote.Proofs.BCD
open Uhppote Uhppote.Model.BCD

theorem lookup_enc (n : Nat) :
    lookup canonical.enc n = if 48 ≤ n ∧ n ≤ 57 then some (n - 48) else none := by
  simp only [canonical, lookup]
  repeat (split; · (subst_vars; simp))
  split <;> first | rfl | omega

theorem isDigit_iff (b : UInt8) : Spec.BCD.isDigit b = true ↔ (48 ≤ b.toNat ∧ b.toNat ≤ 57) := by
  simp [Spec.BCD.isDigit]

theorem getD_append_cons (pre : Bytes) (x : UInt8) (r : Bytes) :
    (pre ++ x :: r).getD pre.length 0 = x := by
  simp [List.getD]

theorem set_append_cons (pre : Bytes) (x y : UInt8) (r : Bytes) :
    (pre ++ x :: r).set pre.length y = pre ++ y :: r := by
  rw [List.set_append_right _ _ (Nat.le_refl _)]; simp

/-- the loop, two runes at a time, starting at an even index on a zeroed tail -/
theorem loop_pairs : ∀ (ps pre : Bytes) (k : Nat), ps.length % 2 = 0 → ps.all Spec.BCD.isDigit = true →
    ps.length / 2 ≤ k →
    encodeLoop canonical ps (pre ++ zeros k) (2 * pre.length)
      = some (pre ++ Spec.BCD.pack ps ++ zeros (k - ps.length / 2))
  | [], pre, k, _, _, _ => by simp [encodeLoop, Spec.BCD.pack]
  | [_], _, _, h, _, _ => by simp at h
  | a :: b :: r, pre, k, hl, hd, hk => by
    simp only [List.length_cons] at hl hk
    have hk1 : 1 ≤ k := by omega
    obtain ⟨k', rfl⟩ : ∃ k', k = k' + 1 := ⟨k - 1, by omega⟩
    simp only [List.all_cons, Bool.and_eq_true] at hd
    obtain ⟨ha, hb, hr⟩ := hd
    have ha' := (isDigit_iff a).1 ha
    have hb' := (isDigit_iff b).1 hb
    have hz : zeros (k' + 1) = 0 :: zeros k' := by simp [zeros, List.replicate_succ]
    have e1 : 2 * pre.length / 2 = pre.length := by omega
    have e2 : (2 * pre.length + 1) / 2 = pre.length := by omega
    simp only [encodeLoop, lookup_enc, ha', hb', and_self, if_true, hz, e1, e2,
      getD_append_cons, set_append_cons]
    have ih := loop_pairs r (pre ++ [UInt8.ofNat ((a.toNat - 48) * 16 + (b.toNat - 48))]) k'
      (by omega) hr (by omega)
    have e3 : 2 * pre.length + 1 + 1 = 2 * (pre ++ [UInt8.ofNat ((a.toNat - 48) * 16 + (b.toNat - 48))]).length := by
      simp; omega
    have e4 : (0 : UInt8) * 16 + UInt8.ofNat (a.toNat - 48) = UInt8.ofNat (a.toNat - 48) := by simp
    have e5 : UInt8.ofNat (a.toNat - 48) * 16 + UInt8.ofNat (b.toNat - 48)
        = UInt8.ofNat ((a.toNat - 48) * 16 + (b.toNat - 48)) := by
      simp [UInt8.ofNat_add, UInt8.ofNat_mul]
    rw [e4, e5, e3]
    have e6 : pre ++ UInt8.ofNat ((a.toNat - 48) * 16 + (b.toNat - 48)) :: zeros k'
        = (pre ++ [UInt8.ofNat ((a.toNat - 48) * 16 + (b.toNat - 48))]) ++ zeros k' := by simp
    rw [e6, ih]
    simp only [Spec.BCD.pack, List.append_assoc, List.singleton_append, List.length_cons]
    congr 4
    omega

/-- a rune outside the table anywhere in the string makes the loop fail -/
theorem loop_bad : ∀ (s buf : Bytes) (ix : Nat), s.all Spec.BCD.isDigit = false →
    encodeLoop canonical s buf ix = none
  | [], _, _, h => by simp at h
  | c :: r, buf, ix, h => by
    simp only [encodeLoop, lookup_enc]
    by_cases hc : 48 ≤ c.toNat ∧ c.toNat ≤ 57
    · simp only [hc, and_self, if_true]
      apply loop_bad
      simp only [List.all_cons, Bool.and_eq_false_iff] at h
      rcases h with h | h
      · have := (isDigit_iff c).2 hc; simp [this] at h
      · exact h
    · simp [hc]

theorem pack_length : ∀ (ps : Bytes), ps.length % 2 = 0 → (Spec.BCD.pack ps).length = ps.length / 2
  | [], _ => rfl
  | [_], h => by simp at h
  | _ :: _ :: r, h => by
    simp only [List.length_cons] at h
    simp only [Spec.BCD.pack, List.length_cons, pack_length r (by omega)]; omega

theorem pad_even (s : Bytes) : (Spec.BCD.pad s).length % 2 = 0 := by
  unfold Spec.BCD.pad; split
  · simp only [List.length_cons]; omega
  · omega

theorem pad_length (s : Bytes) : (Spec.BCD.pad s).length / 2 = (s.length + 1) / 2 := by
  unfold Spec.BCD.pad; split
  · simp only [List.length_cons]
  · omega

theorem pad_all (s : Bytes) (h : s.all Spec.BCD.isDigit = true) :
    (Spec.BCD.pad s).all Spec.BCD.isDigit = true := by
  unfold Spec.BCD.pad; split
  · simp only [List.all_cons, h, Bool.and_true]; decide
  · exact h

theorem encode_model_eq_spec (s : Bytes) : encode canonical s = Spec.BCD.encode s := by
  unfold encode Spec.BCD.encode
  by_cases hd : s.all Spec.BCD.isDigit = true
  · simp only [hd, if_true]
    have key := loop_pairs (Spec.BCD.pad s) [] ((s.length + 1) / 2) (pad_even s) (pad_all s hd)
      (by rw [pad_length]; exact Nat.le_refl _)
    simp only [List.nil_append, List.length_nil, Nat.mul_zero, pad_length, Nat.sub_self] at key
    have hz0 : zeros 0 = [] := rfl
    rw [hz0, List.append_nil] at key
    by_cases hodd : s.length % 2 = 1
    · -- odd: the first loop step of the padded string is the identity on the zero buffer
      have hp : Spec.BCD.pad s = 48 :: s := by simp [Spec.BCD.pad, hodd]
      rw [hp] at key ⊢
      rw [hodd, ← key]
      have hN : (s.length + 1) / 2 = ((s.length + 1) / 2 - 1) + 1 := by omega
      rw [hN]
      simp [encodeLoop, lookup_enc, zeros, List.replicate_succ]
    · have hev : s.length % 2 = 0 := by omega
      have hp : Spec.BCD.pad s = s := by simp [Spec.BCD.pad, hev]
      rw [hp] at key ⊢
      rw [hev, key]
  · have hd' : s.all Spec.BCD.isDigit = false := by simpa using hd
    simp only [hd', Bool.false_eq_true, if_false]
    exact loop_bad _ _ _ hd'

end Uhppote.Proofs.BCD

namespace Uhppote.Proofs.BCD
open Uhppote Uhppote.Model.BCD

theorem lookup_decHi : ∀ n, n < 256 →
    lookup canonical.decHi (n &&& 240) = if n / 16 ≤ 9 then some (48 + n / 16) else none := by
  decide +kernel

theorem lookup_decLo : ∀ n, n < 256 →
    lookup canonical.decLo (n &&& 15) = if n % 16 ≤ 9 then some (48 + n % 16) else none := by
  decide +kernel

theorem decode_model_eq_spec : ∀ bs : Bytes, decode canonical bs = Spec.BCD.decode bs
  | [] => rfl
  | b :: r => by
    have ih := decode_model_eq_spec r
    have hb : b.toNat < 256 := UInt8.toNat_lt b
    simp only [decode, ih, Spec.BCD.decode, List.all_cons, Spec.BCD.okByte]
    have e1 : canonical.hiMask = 240 := rfl
    have e2 : canonical.loMask = 15 := rfl
    rw [e1, e2, lookup_decHi _ hb, lookup_decLo _ hb]
    by_cases h1 : b.toNat / 16 ≤ 9 <;> by_cases h2 : b.toNat % 16 ≤ 9 <;>
      by_cases h3 : r.all Spec.BCD.okByte = true <;>
      simp [h1, h2, h3, Spec.BCD.unpack]

theorem unpack_pack : ∀ ps : Bytes, ps.length % 2 = 0 → ps.all Spec.BCD.isDigit = true →
    Spec.BCD.unpack (Spec.BCD.pack ps) = ps ∧ (Spec.BCD.pack ps).all Spec.BCD.okByte = true
  | [], _, _ => by simp [Spec.BCD.pack, Spec.BCD.unpack]
  | [_], h, _ => by simp at h
  | a :: b :: r, hl, hd => by
    simp only [List.length_cons] at hl
    simp only [List.all_cons, Bool.and_eq_true] at hd
    obtain ⟨ha, hb, hr⟩ := hd
    have ha' := (isDigit_iff a).1 ha
    have hb' := (isDigit_iff b).1 hb
    obtain ⟨ih1, ih2⟩ := unpack_pack r (by omega) hr
    have hv : (UInt8.ofNat ((a.toNat - 48) * 16 + (b.toNat - 48))).toNat
        = (a.toNat - 48) * 16 + (b.toNat - 48) := by
      rw [UInt8.toNat_ofNat']; omega
    have hq : ((a.toNat - 48) * 16 + (b.toNat - 48)) / 16 = a.toNat - 48 := by omega
    have hm : ((a.toNat - 48) * 16 + (b.toNat - 48)) % 16 = b.toNat - 48 := by omega
    have hA : UInt8.ofNat (48 + (a.toNat - 48)) = a := by
      have : 48 + (a.toNat - 48) = a.toNat := by omega
      rw [this]; simp
    have hB : UInt8.ofNat (48 + (b.toNat - 48)) = b := by
      have : 48 + (b.toNat - 48) = b.toNat := by omega
      rw [this]; simp
    constructor
    · simp only [Spec.BCD.pack, Spec.BCD.unpack, hv, hq, hm, hA, hB, ih1]
    · simp only [Spec.BCD.pack, List.all_cons, Spec.BCD.okByte, hv, hq, hm, ih2, Bool.and_true]
      simp; omega

theorem pack_unpack : ∀ bs : Bytes, bs.all Spec.BCD.okByte = true →
    (Spec.BCD.unpack bs).length % 2 = 0 ∧ (Spec.BCD.unpack bs).all Spec.BCD.isDigit = true ∧
    Spec.BCD.pack (Spec.BCD.unpack bs) = bs
  | [], _ => by simp [Spec.BCD.pack, Spec.BCD.unpack]
  | b :: r, h => by
    simp only [List.all_cons, Bool.and_eq_true, Spec.BCD.okByte, decide_eq_true_eq] at h
    obtain ⟨⟨h1, h2⟩, hr⟩ := h
    obtain ⟨i1, i2, i3⟩ := pack_unpack r hr
    have hb : b.toNat < 256 := UInt8.toNat_lt b
    have v1 : (UInt8.ofNat (48 + b.toNat / 16)).toNat = 48 + b.toNat / 16 := by
      rw [UInt8.toNat_ofNat']; omega
    have v2 : (UInt8.ofNat (48 + b.toNat % 16)).toNat = 48 + b.toNat % 16 := by
      rw [UInt8.toNat_ofNat']; omega
    refine ⟨?_, ?_, ?_⟩
    · simp only [Spec.BCD.unpack, List.length_cons]; omega
    · simp only [Spec.BCD.unpack, List.all_cons, Spec.BCD.isDigit, v1, v2, i2, Bool.and_true]
      simp; omega
    · simp only [Spec.BCD.unpack, Spec.BCD.pack, v1, v2, i3]
      have : (48 + b.toNat / 16 - 48) * 16 + (48 + b.toNat % 16 - 48) = b.toNat := by omega
      rw [this]; simp

end Uhppote.Proofs.BCD
