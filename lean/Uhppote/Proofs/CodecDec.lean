import Uhppote.Proofs.CodecLeaf
/-! Per-kind decoder lemmas: the model's `UnmarshalUT0311L0x` functions read the arithmetic
    wire bytes of the specification back to the value they came from. -/
set_option linter.unusedSimpArgs false
namespace Uhppote.Proofs.Codec
open Uhppote Uhppote.Model Uhppote.Spec.Codec

theorem bcd2_toNat (n : Nat) : (bcd2 n).toNat = n / 10 % 10 * 16 + n % 10 := by
  unfold bcd2; rw [UInt8.toNat_ofNat']; omega

theorem bcd2_ok (n : Nat) : Spec.BCD.okByte (bcd2 n) = true := by
  simp [Spec.BCD.okByte, bcd2_toNat]; omega

theorem unpack_bcd2 (gs : List Nat) : Spec.BCD.unpack (gs.map bcd2) = gs.flatMap two := by
  induction gs with
  | nil => rfl
  | cons g r ih =>
    simp only [List.map_cons, Spec.BCD.unpack, ih, List.flatMap_cons, two, List.cons_append, List.nil_append]
    rw [bcd2_toNat]
    have h1 : (g / 10 % 10 * 16 + g % 10) / 16 = g / 10 % 10 := by omega
    have h2 : (g / 10 % 10 * 16 + g % 10) % 16 = g % 10 := by omega
    rw [h1, h2]
    simp [digitChar]

/-- BCD-decoding `bcd2` bytes gives the two-digit groups back -/
theorem bcd_decode_groups (gs : List Nat) : BCD.decode BCD.canonical (gs.map bcd2) = some (gs.flatMap two) := by
  rw [Proofs.BCD.decode_model_eq_spec]
  unfold Spec.BCD.decode
  have : (gs.map bcd2).all Spec.BCD.okByte = true := by
    simp [List.all_map, bcd2_ok]
  rw [this]; simp [unpack_bcd2]

theorem digitsVal_two (a : Nat) : digitsVal (two a) = a / 10 % 10 * 10 + a % 10 := by
  simp [digitsVal, two, digitChar_toNat]

theorem digitsVal_two2 (a b : Nat) :
    digitsVal (two a ++ two b) = (a / 10 % 10 * 10 + a % 10) * 100 + (b / 10 % 10 * 10 + b % 10) := by
  simp [digitsVal, two, digitChar_toNat]; omega

theorem digitChar_eq_48 (n : Nat) (h : digitChar n = 48) : n % 10 = 0 := by
  have := congrArg UInt8.toNat h
  rw [digitChar_toNat] at this
  simp at this; omega

theorem digitChar_eq_49 (n : Nat) (h : digitChar n = 49) : n % 10 = 1 := by
  have := congrArg UInt8.toNat h
  rw [digitChar_toNat] at this
  simp at this; omega

theorem validDate_iff (d : YMD) : validDate d = validYMD d.y d.m d.d := rfl

theorem decDate_bcd (d : YMD) (h : dateInDomain d = true) : decDate BCD.canonical (bcdDate d) = .val (some d) := by
  simp only [dateInDomain, Bool.and_eq_true, decide_eq_true_eq, Bool.not_eq_true', validDate_iff] at h
  obtain ⟨⟨⟨hv, hy1⟩, hy2⟩, hne⟩ := h
  have hb := validDate_bounds d hv
  have hdec := bcd_decode_groups [d.y / 100, d.y % 100, d.m, d.d]
  simp only [List.map_cons, List.map_nil, List.flatMap_cons, List.flatMap_nil, List.append_nil] at hdec
  unfold decDate bcdDate
  rw [hdec]
  have hm1 : 1 ≤ d.m := by
    simp only [validYMD, Bool.and_eq_true, decide_eq_true_eq] at hv; omega
  have hnz : ¬ (two (d.y / 100) ++ (two (d.y % 100) ++ (two d.m ++ two d.d)) = [48, 48, 48, 48, 48, 48, 48, 48]) := by
    intro hc
    simp only [two, List.cons_append, List.nil_append, List.cons.injEq] at hc
    have h5 := digitChar_eq_48 _ hc.2.2.2.2.1
    have h6 := digitChar_eq_48 _ hc.2.2.2.2.2.1
    omega
  have hn1 : ¬ (two (d.y / 100) ++ (two (d.y % 100) ++ (two d.m ++ two d.d)) = [48, 48, 48, 49, 48, 49, 48, 49]) := by
    intro hc
    simp only [two, List.cons_append, List.nil_append, List.cons.injEq] at hc
    have e1 := digitChar_eq_48 _ hc.1
    have e2 := digitChar_eq_48 _ hc.2.1
    have e3 := digitChar_eq_48 _ hc.2.2.1
    have e4 := digitChar_eq_49 _ hc.2.2.2.1
    have e5 := digitChar_eq_48 _ hc.2.2.2.2.1
    have e6 := digitChar_eq_49 _ hc.2.2.2.2.2.1
    have e7 := digitChar_eq_48 _ hc.2.2.2.2.2.2.1
    have e8 := digitChar_eq_49 _ hc.2.2.2.2.2.2.2.1
    have : d.y = 1 ∧ d.m = 1 ∧ d.d = 1 := by omega
    simp [this.1, this.2.1, this.2.2] at hne
  simp only [hnz, hn1, or_self, if_false]
  unfold decDateCore
  have t4 : List.take 4 (two (d.y / 100) ++ (two (d.y % 100) ++ (two d.m ++ two d.d))) = two (d.y / 100) ++ two (d.y % 100) := by
    simp [two]
  have t2 : List.take 2 (List.drop 4 (two (d.y / 100) ++ (two (d.y % 100) ++ (two d.m ++ two d.d)))) = two d.m := by
    simp [two]
  have t3 : List.take 2 (List.drop 6 (two (d.y / 100) ++ (two (d.y % 100) ++ (two d.m ++ two d.d)))) = two d.d := by
    simp [two]
  simp only [t4, t2, t3, digitsVal_two2, digitsVal_two]
  have ey : (d.y / 100 / 10 % 10 * 10 + d.y / 100 % 10) * 100 + (d.y % 100 / 10 % 10 * 10 + d.y % 100 % 10) = d.y := by omega
  have em : d.m / 10 % 10 * 10 + d.m % 10 = d.m := by omega
  have ed : d.d / 10 % 10 * 10 + d.d % 10 = d.d := by omega
  rw [ey, em, ed, hv]
  rfl


theorem decDatePtr_of_decDate (T : BCD.Tables) (b : Bytes) (d : YMD) (h : decDate T b = .val (some d)) :
    decDatePtr T b = some (some d) := by
  unfold decDate at h
  unfold decDatePtr
  cases hb : BCD.decode T b with
  | none => simp [hb] at h
  | some s =>
    simp only [hb] at h ⊢
    by_cases hs : s = [48,48,48,48,48,48,48,48] ∨ s = [48,48,48,49,48,49,48,49]
    · simp [hs] at h
    · simp only [hs, if_false] at h ⊢
      injection h with h
      rw [h]

theorem decDatePtr_bcd (d : YMD) (h : dateInDomain d = true) :
    decDatePtr BCD.canonical (bcdDate d) = some (some d) :=
  decDatePtr_of_decDate _ _ _ (decDate_bcd d h)

theorem decDateTime_bcd (d : YMDHMS) (h : dateTimeInDomain d = true) :
    decDateTime BCD.canonical (bcdDateTime d) = .val (some d) ∧
    decDateTimePtr BCD.canonical (bcdDateTime d) = some (some d) := by
  simp only [dateTimeInDomain, Bool.and_eq_true, decide_eq_true_eq, Bool.not_eq_true', validDate_iff] at h
  obtain ⟨⟨⟨⟨⟨⟨hv, hy1⟩, hy2⟩, hh⟩, hmi⟩, hs⟩, hne⟩ := h
  have hb := validDate_bounds ⟨d.y, d.mo, d.d⟩ hv
  simp only at hb
  have hm1 : 1 ≤ d.mo := by
    simp only [validYMD, Bool.and_eq_true, decide_eq_true_eq] at hv; omega
  have hdec := bcd_decode_groups [d.y / 100, d.y % 100, d.mo, d.d, d.h, d.mi, d.s]
  simp only [List.map_cons, List.map_nil, List.flatMap_cons, List.flatMap_nil, List.append_nil] at hdec
  have hmo_ne : bcd2 d.mo ≠ 0 := by
    intro hc
    have := congrArg UInt8.toNat hc
    rw [bcd2_toNat] at this
    simp at this; omega
  have hz : ¬ (bcdDateTime d = [0, 0, 0, 0, 0, 0, 0]) := by
    intro hc; simp only [bcdDateTime, List.cons.injEq] at hc; exact hmo_ne hc.2.2.1
  have hz2 : ¬ (bcdDateTime d = [0x20, 0, 0, 0, 0, 0, 0]) := by
    intro hc; simp only [bcdDateTime, List.cons.injEq] at hc; exact hmo_ne hc.2.2.1
  have hz3 : ¬ (bcdDateTime d = [0x00, 0x01, 0x01, 0x01, 0, 0, 0]) := by
    intro hc
    simp only [bcdDateTime, List.cons.injEq, and_true] at hc
    obtain ⟨c1, c2, c3, c4, c5, c6, c7⟩ := hc
    have n1 := congrArg UInt8.toNat c1
    have n2 := congrArg UInt8.toNat c2
    have n3 := congrArg UInt8.toNat c3
    have n4 := congrArg UInt8.toNat c4
    have n5 := congrArg UInt8.toNat c5
    have n6 := congrArg UInt8.toNat c6
    have n7 := congrArg UInt8.toNat c7
    rw [bcd2_toNat] at n1 n2 n3 n4 n5 n6 n7
    simp at n1 n2 n3 n4 n5 n6 n7
    have e1 : d.y = 1 := by omega
    have e2 : d.mo = 1 := by omega
    have e3 : d.d = 1 := by omega
    have e4 : d.h = 0 := by omega
    have e5 : d.mi = 0 := by omega
    have e6 : d.s = 0 := by omega
    simp [e1, e2, e3, e4, e5, e6] at hne
  have core : decDateTimeCore (two (d.y / 100) ++ (two (d.y % 100) ++ (two d.mo ++ (two d.d ++ (two d.h ++ (two d.mi ++ two d.s))))))
      = some d := by
    unfold decDateTimeCore
    have t4 : List.take 4 (two (d.y / 100) ++ (two (d.y % 100) ++ (two d.mo ++ (two d.d ++ (two d.h ++ (two d.mi ++ two d.s)))))) = two (d.y / 100) ++ two (d.y % 100) := by simp [two]
    have t1 : List.take 2 (List.drop 4 (two (d.y / 100) ++ (two (d.y % 100) ++ (two d.mo ++ (two d.d ++ (two d.h ++ (two d.mi ++ two d.s))))))) = two d.mo := by simp [two]
    have t2 : List.take 2 (List.drop 6 (two (d.y / 100) ++ (two (d.y % 100) ++ (two d.mo ++ (two d.d ++ (two d.h ++ (two d.mi ++ two d.s))))))) = two d.d := by simp [two]
    have t3 : List.take 2 (List.drop 8 (two (d.y / 100) ++ (two (d.y % 100) ++ (two d.mo ++ (two d.d ++ (two d.h ++ (two d.mi ++ two d.s))))))) = two d.h := by simp [two]
    have t5 : List.take 2 (List.drop 10 (two (d.y / 100) ++ (two (d.y % 100) ++ (two d.mo ++ (two d.d ++ (two d.h ++ (two d.mi ++ two d.s))))))) = two d.mi := by simp [two]
    have t6 : List.take 2 (List.drop 12 (two (d.y / 100) ++ (two (d.y % 100) ++ (two d.mo ++ (two d.d ++ (two d.h ++ (two d.mi ++ two d.s))))))) = two d.s := by simp [two]
    simp only [t4, t1, t2, t3, t5, t6, digitsVal_two2, digitsVal_two]
    have ey : (d.y / 100 / 10 % 10 * 10 + d.y / 100 % 10) * 100 + (d.y % 100 / 10 % 10 * 10 + d.y % 100 % 10) = d.y := by omega
    have e1 : d.mo / 10 % 10 * 10 + d.mo % 10 = d.mo := by omega
    have e2 : d.d / 10 % 10 * 10 + d.d % 10 = d.d := by omega
    have e3 : d.h / 10 % 10 * 10 + d.h % 10 = d.h := by omega
    have e4 : d.mi / 10 % 10 * 10 + d.mi % 10 = d.mi := by omega
    have e5 : d.s / 10 % 10 * 10 + d.s % 10 = d.s := by omega
    rw [ey, e1, e2, e3, e4, e5, hv]
    simp only [hh, hmi, hs, decide_true, Bool.and_self, if_true]
    have : ¬ (d.y = 1 ∧ d.mo = 1 ∧ d.d = 1 ∧ d.h = 0 ∧ d.mi = 0 ∧ d.s = 0) := by
      intro hc
      simp [hc.1, hc.2.1, hc.2.2.1, hc.2.2.2.1, hc.2.2.2.2.1, hc.2.2.2.2.2] at hne
    simp only [this, if_false]
  constructor
  · unfold decDateTime
    simp only [hz, hz2, hz3, or_self, if_false]
    unfold bcdDateTime
    rw [hdec]
    simp only [core]
  · unfold decDateTimePtr
    simp only [hz, hz2, hz3, or_self, if_false]
    unfold bcdDateTime
    rw [hdec]
    simp only [core]

theorem decSysDate_bcd (d : YMD) (hv : validDate d = true) (h1 : 1969 ≤ d.y) (h2 : d.y ≤ 2068) :
    decSysDate BCD.canonical [bcd2 (d.y % 100), bcd2 d.m, bcd2 d.d] = .val (some d) := by
  have hb := validDate_bounds d hv
  have hm1 : 1 ≤ d.m := by
    simp only [validDate, Bool.and_eq_true, decide_eq_true_eq] at hv; omega
  have hdec := bcd_decode_groups [d.y % 100, d.m, d.d]
  simp only [List.map_cons, List.map_nil, List.flatMap_cons, List.flatMap_nil, List.append_nil] at hdec
  have hmne : bcd2 d.m ≠ 0 := by
    intro hc
    have := congrArg UInt8.toNat hc
    rw [bcd2_toNat] at this
    simp at this; omega
  have hz : ¬ ([bcd2 (d.y % 100), bcd2 d.m, bcd2 d.d] = [0, 0, 0]) := by
    intro hc; simp only [List.cons.injEq] at hc; exact hmne hc.2.1
  unfold decSysDate
  simp only [hz, if_false, hdec]
  have t1 : List.take 2 (two (d.y % 100) ++ (two d.m ++ two d.d)) = two (d.y % 100) := by simp [two]
  have t2 : List.take 2 (List.drop 2 (two (d.y % 100) ++ (two d.m ++ two d.d))) = two d.m := by simp [two]
  have t3 : List.take 2 (List.drop 4 (two (d.y % 100) ++ (two d.m ++ two d.d))) = two d.d := by simp [two]
  simp only [t1, t2, t3, digitsVal_two]
  have e0 : d.y % 100 / 10 % 10 * 10 + d.y % 100 % 10 = d.y % 100 := by omega
  have e1 : d.m / 10 % 10 * 10 + d.m % 10 = d.m := by omega
  have e2 : d.d / 10 % 10 * 10 + d.d % 10 = d.d := by omega
  rw [e0, e1, e2]
  have ey : (if d.y % 100 ≥ 69 then 1900 + d.y % 100 else 2000 + d.y % 100) = d.y := by
    split <;> omega
  rw [ey]
  have hv' : validYMD d.y d.m d.d = true := hv
  simp only [hv', if_true]

theorem decSysTime_bcd (t : HMS) (h : t.h < 24 ∧ t.m < 60 ∧ t.s < 60) :
    decSysTime BCD.canonical [bcd2 t.h, bcd2 t.m, bcd2 t.s] = .val t := by
  have hdec := bcd_decode_groups [t.h, t.m, t.s]
  simp only [List.map_cons, List.map_nil, List.flatMap_cons, List.flatMap_nil, List.append_nil] at hdec
  unfold decSysTime
  simp only [hdec]
  have t1 : List.take 2 (two t.h ++ (two t.m ++ two t.s)) = two t.h := by simp [two]
  have t2 : List.take 2 (List.drop 2 (two t.h ++ (two t.m ++ two t.s))) = two t.m := by simp [two]
  have t3 : List.take 2 (List.drop 4 (two t.h ++ (two t.m ++ two t.s))) = two t.s := by simp [two]
  simp only [t1, t2, t3, digitsVal_two]
  have e0 : t.h / 10 % 10 * 10 + t.h % 10 = t.h := by omega
  have e1 : t.m / 10 % 10 * 10 + t.m % 10 = t.m := by omega
  have e2 : t.s / 10 % 10 * 10 + t.s % 10 = t.s := by omega
  rw [e0, e1, e2]
  simp [h.1, h.2.1, h.2.2]

theorem decHHmm_bcd (t : HM) (h : hhmmInDomain t = true) :
    decHHmm BCD.canonical ⟨24, 59, true⟩ [bcd2 t.h.toNat, bcd2 t.m.toNat] = .val t := by
  obtain ⟨th, tm⟩ := t
  simp only [hhmmInDomain, Bool.and_eq_true, decide_eq_true_eq, Bool.or_eq_true, bne_iff_ne, ne_eq, beq_iff_eq] at h
  obtain ⟨⟨⟨⟨h0, h24⟩, m0⟩, m59⟩, hr⟩ := h
  dsimp only at h0 h24 m0 m59 hr ⊢
  have hdec := bcd_decode_groups [th.toNat, tm.toNat]
  simp only [List.map_cons, List.map_nil, List.flatMap_cons, List.flatMap_nil, List.append_nil] at hdec
  unfold decHHmm
  simp only [hdec]
  have t1 : List.take 2 (two th.toNat ++ two tm.toNat) = two th.toNat := by simp [two]
  have t2 : List.take 2 (List.drop 2 (two th.toNat ++ two tm.toNat)) = two tm.toNat := by simp [two]
  simp only [t1, t2, digitsVal_two]
  have e0 : th.toNat / 10 % 10 * 10 + th.toNat % 10 = th.toNat := by omega
  have e1 : tm.toNat / 10 % 10 * 10 + tm.toNat % 10 = tm.toNat := by omega
  rw [e0, e1]
  have g1 : ¬ (th.toNat > 24) := by omega
  have g2 : ¬ (tm.toNat > 59) := by omega
  have g3 : ¬ (True ∧ th.toNat = 24 ∧ tm.toNat ≠ 0) := by
    intro hc
    rcases hr with hr | hr
    · omega
    · omega
  have eh : ((th.toNat : Nat) : Int) = th := Int.toNat_of_nonneg h0
  have em : ((tm.toNat : Nat) : Int) = tm := Int.toNat_of_nonneg m0
  simp only [g1, g2, g3, if_false, eh, em]

theorem unle32_le (v : Nat) (h : v < 4294967296) :
    unle32 [UInt8.ofNat (v % 256), UInt8.ofNat (v / 256 % 256), UInt8.ofNat (v / 65536 % 256), UInt8.ofNat (v / 16777216)] = v := by
  simp only [unle32, UInt8.toNat_ofNat']; omega

theorem unle16_le (v : Nat) (h : v < 65536) : unle16 [UInt8.ofNat (v % 256), UInt8.ofNat (v / 256)] = v := by
  simp only [unle16, UInt8.toNat_ofNat']; omega

theorem unbe16_be (v : Nat) (h : v < 65536) : unbe16 [UInt8.ofNat (v / 256), UInt8.ofNat (v % 256)] = v := by
  simp only [unbe16, UInt8.toNat_ofNat']; omega

theorem unle24_le (v : Nat) (h : v ≤ 999999) :
    unle32 ([UInt8.ofNat (v % 256), UInt8.ofNat (v / 256 % 256), UInt8.ofNat (v / 65536)] ++ [0]) = v := by
  simp only [unle32, List.cons_append, List.nil_append, UInt8.toNat_ofNat']; simp; omega

end Uhppote.Proofs.Codec
