import Uhppote.Model.Time
/-! Go's `time.Date` zone resolution: exact for civil times that exist, shifted by the gap for
    civil times that a spring-forward transition removed; and the repository's `startOfDay`. -/
namespace Uhppote.Proofs.Zone
open Uhppote.Model.Time

/-- locality hypothesis: within ±D of the civil value `c` the zone has at most one transition,
    at instant T, from offset A to offset B; offsets are bounded by D -/
structure OneTransition (z : Zone) (c D T A B : Int) : Prop where
  before : ∀ v, c - D ≤ v → v ≤ c + D → v < T → z.off v = A ∧ z.hi v = T ∧ z.lo v ≤ c - D
  after  : ∀ v, c - D ≤ v → v ≤ c + D → T ≤ v → z.off v = B ∧ z.lo v = T ∧ c + D < z.hi v
  boundA : -D ≤ A ∧ A ≤ D
  boundB : -D ≤ B ∧ B ≤ D

/-- the same transition seen from a nearby centre with a smaller radius -/
theorem OneTransition.shift {z : Zone} {c D T A B : Int} (h : OneTransition z c D T A B) (k D' : Int)
    (hk : 0 ≤ k) (hD' : D' + k ≤ D) (hA : -D' ≤ A ∧ A ≤ D') (hB : -D' ≤ B ∧ B ≤ D') :
    OneTransition z (c + k) D' T A B where
  before := fun v h1 h2 h3 => by
    obtain ⟨e1, e2, e3⟩ := h.before v (by omega) (by omega) h3
    exact ⟨e1, e2, by omega⟩
  after := fun v h1 h2 h3 => by
    obtain ⟨e1, e2, e3⟩ := h.after v (by omega) (by omega) h3
    exact ⟨e1, e2, by omega⟩
  boundA := hA
  boundB := hB

/-- `time.Date` returns an instant with EXACTLY the requested civil time whenever that time exists -/
theorem goDate_exact (z : Zone) (c D T A B : Int) (h : OneTransition z c (2 * D) T A B)
    (hA : -D ≤ A ∧ A ≤ D) (hB : -D ≤ B ∧ B ≤ D) (hbound : ∀ v, -D ≤ z.off v ∧ z.off v ≤ D)
    (hex : ∃ u, civil z u = c) : civil z (goDate z c) = c := by
  obtain ⟨u, hu⟩ := hex
  unfold civil at *
  have hD : 0 ≤ D := by omega
  have hub := hbound u
  -- the witness lies within D of c as soon as its offset is one of A, B; in general we only know
  -- it exists, so split on where it is
  by_cases hwin : c - 2 * D ≤ u ∧ u ≤ c + 2 * D
  · have hu1 := h.before u hwin.1 hwin.2
    have hu2 := h.after u hwin.1 hwin.2
    have hc1 := h.before c (by omega) (by omega)
    have hc2 := h.after c (by omega) (by omega)
    have hcA1 := h.before (c - A) (by omega) (by omega)
    have hcA2 := h.after (c - A) (by omega) (by omega)
    have hcB1 := h.before (c - B) (by omega) (by omega)
    have hcB2 := h.after (c - B) (by omega) (by omega)
    unfold goDate
    by_cases hcT : c < T
    · obtain ⟨e1, e2, e3⟩ := hc1 hcT
      simp only [e1, e2]
      by_cases hA0 : A = 0
      · simp [hA0]; rw [e1]; omega
      · simp only [hA0, if_false]
        by_cases hin : c - A < z.lo c ∨ c - A ≥ T
        · simp only [hin, if_true]
          rcases hin with hin | hin
          · omega
          · obtain ⟨f1, f2, f3⟩ := hcA2 hin
            simp only [f1]
            by_cases huT : u < T
            · obtain ⟨g1, _, _⟩ := hu1 huT
              omega
            · obtain ⟨g1, _, _⟩ := hu2 (by omega)
              obtain ⟨k1, _, _⟩ := hcB2 (by omega)
              rw [k1]; omega
        · simp only [hin, if_false]
          have : c - A < T := by omega
          obtain ⟨k1, _, _⟩ := hcA1 this
          rw [k1]; omega
    · have hcT' : T ≤ c := by omega
      obtain ⟨e1, e2, e3⟩ := hc2 hcT'
      simp only [e1, e2]
      by_cases hB0 : B = 0
      · simp [hB0]; rw [e1]; omega
      · simp only [hB0, if_false]
        by_cases hin : c - B < T ∨ c - B ≥ z.hi c
        · simp only [hin, if_true]
          rcases hin with hin | hin
          · obtain ⟨f1, f2, f3⟩ := hcB1 hin
            simp only [f1]
            by_cases huT : u < T
            · obtain ⟨g1, _, _⟩ := hu1 huT
              obtain ⟨k1, _, _⟩ := hcA1 (by omega)
              rw [k1]; omega
            · obtain ⟨g1, _, _⟩ := hu2 (by omega)
              omega
          · omega
        · simp only [hin, if_false]
          have : T ≤ c - B := by omega
          obtain ⟨k1, _, _⟩ := hcB2 this
          rw [k1]; omega
  · omega


/-- civil time `c` falls in the gap of a spring-forward transition -/
def InGap (c T A B : Int) : Prop := T + A ≤ c ∧ c < T + B

/-- west of the transition instant (negative offsets): `time.Date` goes BACK by the gap -/
theorem goDate_gap_west (z : Zone) (c D T A B : Int) (h : OneTransition z c (2 * D) T A B)
    (hA : -D ≤ A ∧ A ≤ D) (hB : -D ≤ B ∧ B ≤ D) (hg : InGap c T A B) (hw : c < T) :
    goDate z c = c - B ∧ civil z (goDate z c) = c - (B - A) := by
  unfold InGap at hg
  have hc1 := h.before c (by omega) (by omega)
  have hcA2 := h.after (c - A) (by omega) (by omega)
  have hcB1 := h.before (c - B) (by omega) (by omega)
  obtain ⟨e1, e2, e3⟩ := hc1 hw
  have hA0 : A ≠ 0 := by omega
  have hin : c - A < z.lo c ∨ c - A ≥ T := Or.inr (by omega)
  obtain ⟨f1, _, _⟩ := hcA2 (by omega)
  obtain ⟨k1, _, _⟩ := hcB1 (by omega)
  have hgo : goDate z c = c - B := by
    unfold goDate
    simp only [e1, e2, hA0, if_false, hin, if_true, f1]
  refine ⟨hgo, ?_⟩
  rw [hgo]; unfold civil; rw [k1]; omega

/-- east (positive offsets): forward by the gap, same civil day -/
theorem goDate_gap_east (z : Zone) (c D T A B : Int) (h : OneTransition z c (2 * D) T A B)
    (hA : -D ≤ A ∧ A ≤ D) (hB : -D ≤ B ∧ B ≤ D) (hg : InGap c T A B) (he : T ≤ c) :
    goDate z c = c - A ∧ civil z (goDate z c) = c + (B - A) := by
  unfold InGap at hg
  have hc2 := h.after c (by omega) (by omega)
  have hcB1 := h.before (c - B) (by omega) (by omega)
  have hcA2 := h.after (c - A) (by omega) (by omega)
  obtain ⟨e1, e2, e3⟩ := hc2 he
  have hB0 : B ≠ 0 := by omega
  have hin : c - B < T ∨ c - B ≥ z.hi c := Or.inl (by omega)
  obtain ⟨f1, _, _⟩ := hcB1 (by omega)
  obtain ⟨k1, _, _⟩ := hcA2 (by omega)
  have hgo : goDate z c = c - A := by
    unfold goDate
    simp only [e1, e2, hB0, if_false, hin, if_true, f1]
  refine ⟨hgo, ?_⟩
  rw [hgo]; unfold civil; rw [k1]; omega

/-- outside the gap the civil time exists -/
theorem exists_of_not_inGap (z : Zone) (c D T A B : Int) (h : OneTransition z c (2 * D) T A B)
    (hA : -D ≤ A ∧ A ≤ D) (hB : -D ≤ B ∧ B ≤ D) (hg : ¬ InGap c T A B) : ∃ u, civil z u = c := by
  unfold InGap at hg
  by_cases h1 : c < T + A
  · refine ⟨c - A, ?_⟩
    obtain ⟨e1, _, _⟩ := h.before (c - A) (by omega) (by omega) (by omega)
    unfold civil; rw [e1]; omega
  · have h2 : T + B ≤ c := by omega
    refine ⟨c - B, ?_⟩
    obtain ⟨e1, _, _⟩ := h.after (c - B) (by omega) (by omega) (by omega)
    unfold civil; rw [e1]; omega

/-- the value `time.Date` returns always shows a civil time within one gap of the request -/
theorem goDate_near (z : Zone) (c D T A B : Int) (h : OneTransition z c (2 * D) T A B)
    (hA : -D ≤ A ∧ A ≤ D) (hB : -D ≤ B ∧ B ≤ D) (hbound : ∀ v, -D ≤ z.off v ∧ z.off v ≤ D) :
    civil z (goDate z c) = c ∨
    (InGap c T A B ∧ c < T ∧ goDate z c = c - B ∧ civil z (goDate z c) = c - (B - A)) ∨
    (InGap c T A B ∧ T ≤ c ∧ goDate z c = c - A ∧ civil z (goDate z c) = c + (B - A)) := by
  by_cases hg : InGap c T A B
  · by_cases hw : c < T
    · exact Or.inr (Or.inl ⟨hg, hw, goDate_gap_west z c D T A B h hA hB hg hw⟩)
    · exact Or.inr (Or.inr ⟨hg, by omega, goDate_gap_east z c D T A B h hA hB hg (by omega)⟩)
  · exact Or.inl (goDate_exact z c D T A B h hA hB hbound (exists_of_not_inGap z c D T A B h hA hB hg))

/-- **the repository's date constructor keeps the civil day** in every zone with at most one
    transition nearby whose gap is shorter than twelve hours (every real DST change), including
    when the change removes local midnight -/
theorem startOfDay_day (z : Zone) (m D T A B : Int) (hm : m % 86400 = 0)
    (h : OneTransition z m (2 * D + 43200) T A B)
    (hA : -D ≤ A ∧ A ≤ D) (hB : -D ≤ B ∧ B ≤ D) (hbound : ∀ v, -D ≤ z.off v ∧ z.off v ≤ D)
    (hgap : B - A < 43200) :
    dayOf (civil z (startOfDay z m)) = dayOf m := by
  have hD : 0 ≤ D := by omega
  have h0 : OneTransition z m (2 * D) T A B := by
    have := h.shift 0 (2 * D) (by omega) (by omega) (by omega) (by omega)
    simpa using this
  have hn : OneTransition z (m + 43200) (2 * D) T A B :=
    h.shift 43200 (2 * D) (by omega) (by omega) (by omega) (by omega)
  have ht := goDate_near z m D T A B h0 hA hB hbound
  have hnoon := goDate_near z (m + 43200) D T A B hn hA hB hbound
  have dm : ∀ x, 0 ≤ x → x < 86400 → dayOf (m + x) = dayOf m := by
    intro x h1 h2; unfold dayOf; omega
  have dmp : ∀ x, 0 < x → x ≤ 86400 → dayOf (m - x) = dayOf m - 1 := by
    intro x h1 h2; unfold dayOf; omega
  unfold startOfDay
  simp only
  rcases ht with ht | ⟨hg, hw, hgo, hciv⟩ | ⟨hg, he, hgo, hciv⟩
  · -- midnight exists
    rw [ht]
    have hnd : dayOf (civil z (goDate z (m + 43200))) = dayOf m := by
      rcases hnoon with e | ⟨g2, _, _, e⟩ | ⟨g2, _, _, e⟩
      · rw [e]; exact dm 43200 (by omega) (by omega)
      · rw [e]; unfold InGap at g2
        have := dm (43200 - (B - A)) (by omega) (by omega)
        have e2 : m + 43200 - (B - A) = m + (43200 - (B - A)) := by omega
        rw [e2]; exact this
      · rw [e]; unfold InGap at g2
        have := dm (43200 + (B - A)) (by omega) (by omega)
        have e2 : m + 43200 + (B - A) = m + (43200 + (B - A)) := by omega
        rw [e2]; exact this
    simp only [hnd, ne_eq, not_true_eq_false, if_false, ht]
  · -- midnight removed, west of the transition: time.Date fell back to the previous day
    unfold InGap at hg
    have hnex : civil z (goDate z (m + 43200)) = m + 43200 ∧ goDate z (m + 43200) = m + 43200 - B := by
      have hng : ¬ InGap (m + 43200) T A B := by unfold InGap; omega
      have e := goDate_exact z (m + 43200) D T A B hn hA hB hbound
        (exists_of_not_inGap z (m + 43200) D T A B hn hA hB hng)
      refine ⟨e, ?_⟩
      -- the instant showing noon lies after the transition, where the offset is B
      unfold civil at e
      have hb := hbound (goDate z (m + 43200))
      by_cases hlt : goDate z (m + 43200) < T
      · obtain ⟨o1, _, _⟩ := hn.before (goDate z (m + 43200)) (by omega) (by omega) hlt
        omega
      · obtain ⟨o1, _, _⟩ := hn.after (goDate z (m + 43200)) (by omega) (by omega) (by omega)
        omega
    have d1 : dayOf (civil z (goDate z m)) = dayOf m - 1 := by
      rw [hciv]; exact dmp (B - A) (by omega) (by omega)
    have d2 : dayOf (civil z (goDate z (m + 43200))) = dayOf m := by
      rw [hnex.1]; exact dm 43200 (by omega) (by omega)
    have hne : dayOf (civil z (goDate z m)) ≠ dayOf (civil z (goDate z (m + 43200))) := by omega
    obtain ⟨_, l1, _⟩ := hn.after (goDate z (m + 43200)) (by rw [hnex.2]; omega) (by rw [hnex.2]; omega) (by rw [hnex.2]; omega)
    have hlo : T > goDate z m := by rw [hgo]; omega
    simp only [hne, ne_eq, not_false_eq_true, if_true, l1, hlo]
    -- the first instant of the day: the transition itself, which shows T + B
    obtain ⟨o1, _, _⟩ := h0.after T (by omega) (by omega) (Int.le_refl _)
    unfold civil; rw [o1]
    have e2 : T + B = m + (T + B - m) := by omega
    rw [e2]; exact dm (T + B - m) (by omega) (by omega)
  · -- midnight removed, east of the transition: time.Date moved forward within the same day
    unfold InGap at hg
    have d1 : dayOf (civil z (goDate z m)) = dayOf m := by
      rw [hciv]; exact dm (B - A) (by omega) (by omega)
    have d2 : dayOf (civil z (goDate z (m + 43200))) = dayOf m := by
      have hng : ¬ InGap (m + 43200) T A B := by unfold InGap; omega
      rw [goDate_exact z (m + 43200) D T A B hn hA hB hbound
        (exists_of_not_inGap z (m + 43200) D T A B hn hA hB hng)]
      exact dm 43200 (by omega) (by omega)
    simp only [d1, d2, ne_eq, not_true_eq_false, if_false]

/-- what the constructor did before the repair: for a midnight removed west of the transition
    the date is the PREVIOUS day (defect D11) -/
theorem naiveDate_previous_day (z : Zone) (m D T A B : Int) (hm : m % 86400 = 0)
    (h : OneTransition z m (2 * D) T A B) (hA : -D ≤ A ∧ A ≤ D) (hB : -D ≤ B ∧ B ≤ D)
    (hg : InGap m T A B) (hw : m < T) (hgap : B - A ≤ 86400) :
    dayOf (civil z (naiveDate z m)) = dayOf m - 1 := by
  unfold naiveDate
  rw [(goDate_gap_west z m D T A B h hA hB hg hw).2]
  unfold InGap at hg
  unfold dayOf; omega

end Uhppote.Proofs.Zone
