import Uhppote.Model.Addr
/-! Lemmas for C15: canonical dotted-quad text passes the regex gates and is read back by the
    netip model. -/
namespace Uhppote.Proofs.Addr
open Uhppote.Model.Addr

def dch (k : Nat) : Char := Char.ofNat (48 + k % 10)

theorem dch_facts : ∀ m, m < 10 → isDig (Char.ofNat (48 + m)) = true ∧ (Char.ofNat (48 + m)).toNat - 48 = m ∧
    (Char.ofNat (48 + m) = '0' ↔ m = 0) ∧ Char.ofNat (48 + m) ≠ '.' ∧ Char.ofNat (48 + m) ≠ ':' := by
  decide

theorem dch_dig (k : Nat) : isDig (dch k) = true := (dch_facts (k % 10) (Nat.mod_lt _ (by omega))).1
theorem dch_val (k : Nat) : (dch k).toNat - 48 = k % 10 := (dch_facts (k % 10) (Nat.mod_lt _ (by omega))).2.1
theorem dch_zero (k : Nat) : dch k = '0' ↔ k % 10 = 0 := (dch_facts (k % 10) (Nat.mod_lt _ (by omega))).2.2.1
theorem dch_ne_dot (k : Nat) : dch k ≠ '.' := (dch_facts (k % 10) (Nat.mod_lt _ (by omega))).2.2.2.1
theorem dch_ne_colon (k : Nat) : dch k ≠ ':' := (dch_facts (k % 10) (Nat.mod_lt _ (by omega))).2.2.2.2

theorem dec_eq (n : Nat) : dec n =
    if n < 10 then [dch n]
    else if n < 100 then [dch (n / 10), dch n]
    else if n < 1000 then [dch (n / 100), dch (n / 10), dch n]
    else if n < 10000 then [dch (n / 1000), dch (n / 100), dch (n / 10), dch n]
    else [dch (n / 10000), dch (n / 1000), dch (n / 100), dch (n / 10), dch n] := rfl

theorem dec_all_dig (n : Nat) : (dec n).all isDig = true := by
  rw [dec_eq]; split <;> (try split) <;> (try split) <;> (try split) <;> simp [dch_dig]

theorem dec_length (n : Nat) : 1 ≤ (dec n).length ∧ (dec n).length ≤ 5 ∧ (n < 1000 → (dec n).length ≤ 3) := by
  rw [dec_eq]; split <;> (try split) <;> (try split) <;> (try split) <;> simp <;> omega

theorem decVal_dec (n : Nat) (h : n < 100000) : decVal (dec n) = n := by
  rw [dec_eq]; split <;> (try split) <;> (try split) <;> (try split) <;>
    simp [decVal, dch_val] <;> omega

/-- no leading zero (except "0" itself) -/
theorem dec_no_leading_zero (n : Nat) (h : n < 100000) : ¬ ((dec n).length > 1 ∧ (dec n).head? = some '0') := by
  rw [dec_eq]; split <;> (try split) <;> (try split) <;> (try split) <;>
    simp [dch_zero] <;> omega

theorem digitRun_all (ds : List Char) (hd : ds.all isDig = true) : ∀ rest, (∀ c r, rest = c :: r → isDig c = false) →
    digitRun (ds ++ rest) = (ds, rest) := by
  induction ds with
  | nil =>
    intro rest hr
    cases rest with
    | nil => rfl
    | cons c r => simp [digitRun, hr c r rfl]
  | cons d ds ih =>
    intro rest hr
    simp only [List.all_cons, Bool.and_eq_true] at hd
    simp [digitRun, hd.1, ih hd.2 rest hr]

/-- netip reads one octet of canonical text back -/
theorem octet_dec (a : Nat) (ha : a < 256) (rest : List Char) (hr : ∀ c r, rest = c :: r → isDig c = false) :
    octet (dec a ++ rest) = some (a, rest) := by
  unfold octet
  rw [digitRun_all (dec a) (dec_all_dig a) rest hr]
  have hl := dec_length a
  have hne : (dec a).isEmpty = false := by
    cases h : dec a with
    | nil => simp [h] at hl
    | cons _ _ => rfl
  have hz := dec_no_leading_zero a (by omega)
  simp only [hne, Bool.false_eq_true, if_false, hz, decVal_dec a (by omega)]
  have : ¬ a > 255 := by omega
  simp [this]

theorem parseV4_show (a b c d : Nat) (ha : a < 256) (hb : b < 256) (hc : c < 256) (hd : d < 256) :
    parseV4 (showQuad a b c d) = some (a, b, c, d) := by
  unfold parseV4 showQuad
  simp only [List.append_assoc, List.cons_append]
  have dot : ∀ (t : List Char) c r, ('.' :: t) = c :: r → isDig c = false := by
    intro t c r h; injection h with h1 _; subst h1; decide
  rw [octet_dec a ha _ (dot _)]
  simp only
  rw [octet_dec b hb _ (dot _)]
  simp only
  rw [octet_dec c hc _ (dot _)]
  simp only
  have := octet_dec d hd [] (by intro c r h; cases h)
  rw [List.append_nil] at this
  rw [this]

/-- the `[0-9]{1,n}` step can consume exactly the canonical digits -/
theorem digits1to_mem (ds rest : List Char) (hd : ds.all isDig = true) (h1 : 1 ≤ ds.length) :
    ∀ n, ds.length ≤ n → rest ∈ digits1to n (ds ++ rest) := by
  induction ds with
  | nil => simp at h1
  | cons c r ih =>
    intro n hn
    simp only [List.all_cons, Bool.and_eq_true] at hd
    cases n with
    | zero => simp at hn
    | succ m =>
      simp only [List.cons_append, digits1to, hd.1, if_true]
      cases r with
      | nil => simp
      | cons c' r' =>
        right
        exact ih hd.2 (by simp) m (by simp at hn ⊢; omega)

theorem lit_mem (ch : Char) (r : List Char) : r ∈ lit ch (ch :: r) := by simp [lit]

theorem quadAt_show (a b c d : Nat) (ha : a < 256) (hb : b < 256) (hc : c < 256) (hd : d < 256) (rest : List Char) :
    rest ∈ quadAt (showQuad a b c d ++ rest) := by
  unfold quadAt showQuad
  simp only [List.mem_flatMap, List.append_assoc, List.cons_append]
  have l := fun n (h : n < 256) => (dec_length n).2.2 (by omega)
  refine ⟨_, digits1to_mem (dec a) _ (dec_all_dig a) (dec_length a).1 3 (l a ha), _, lit_mem '.' _,
    _, digits1to_mem (dec b) _ (dec_all_dig b) (dec_length b).1 3 (l b hb), _, lit_mem '.' _,
    _, digits1to_mem (dec c) _ (dec_all_dig c) (dec_length c).1 3 (l c hc), _, lit_mem '.' _, ?_⟩
  exact digits1to_mem (dec d) rest (dec_all_dig d) (dec_length d).1 3 (l d hd)

theorem search_of_head (p : List Char → List (List Char)) (s : List Char) (h : p s ≠ []) : search p s = true := by
  cases s with
  | nil => simp [search, h]
  | cons c r => simp [search, h]

theorem hasQuad_show (a b c d : Nat) (ha : a < 256) (hb : b < 256) (hc : c < 256) (hd : d < 256) (rest : List Char) :
    hasQuad (showQuad a b c d ++ rest) = true := by
  apply search_of_head
  intro h
  have := quadAt_show a b c d ha hb hc hd rest
  rw [h] at this; simp at this

theorem hasQuadPort_show (a b c d p : Nat) (ha : a < 256) (hb : b < 256) (hc : c < 256) (hd : d < 256) (hp : p < 65536) :
    hasQuadPort (showQuad a b c d ++ ':' :: dec p) = true := by
  apply search_of_head
  intro h
  have h1 := quadAt_show a b c d ha hb hc hd (':' :: dec p)
  have h2 : [] ∈ digits1to 5 (dec p ++ []) := digits1to_mem (dec p) [] (dec_all_dig p) (dec_length p).1 5 (dec_length p).2.1
  rw [List.append_nil] at h2
  have : [] ∈ quadPortAt (showQuad a b c d ++ ':' :: dec p) := by
    unfold quadPortAt
    simp only [List.mem_flatMap]
    exact ⟨_, h1, _, lit_mem ':' _, h2⟩
  rw [h] at this; simp at this

/-- a string without ':' has no `quad:port` factor -/
theorem lit_colon_none (s : List Char) (h : ':' ∉ s) : lit ':' s = [] := by
  cases s with
  | nil => rfl
  | cons c r =>
    simp only [lit]
    have : c ≠ ':' := by intro hc; subst hc; simp at h
    simp [this]

theorem digits1to_suffix : ∀ (n : Nat) (s r : List Char), r ∈ digits1to n s → ∀ x, x ∈ r → x ∈ s
  | 0, _, _, h => by simp [digits1to] at h
  | n + 1, [], _, h => by simp [digits1to] at h
  | n + 1, c :: t, r, h => by
    simp only [digits1to] at h
    split at h
    · rcases List.mem_cons.1 h with rfl | h'
      · intro x hx; exact List.mem_cons_of_mem _ hx
      · intro x hx; exact List.mem_cons_of_mem _ (digits1to_suffix n t r h' x hx)
    · simp at h

theorem lit_suffix (ch : Char) (s r : List Char) (h : r ∈ lit ch s) : ∀ x, x ∈ r → x ∈ s := by
  cases s with
  | nil => simp [lit] at h
  | cons c t =>
    simp only [lit] at h
    split at h
    · simp at h; subst h; intro x hx; exact List.mem_cons_of_mem _ hx
    · simp at h

theorem quadAt_suffix (s r : List Char) (h : r ∈ quadAt s) : ∀ x, x ∈ r → x ∈ s := by
  unfold quadAt at h
  simp only [List.mem_flatMap] at h
  obtain ⟨r1, h1, r2, h2, r3, h3, r4, h4, r5, h5, r6, h6, h7⟩ := h
  intro x hx
  exact digits1to_suffix _ _ _ h1 x (lit_suffix _ _ _ h2 x (digits1to_suffix _ _ _ h3 x (lit_suffix _ _ _ h4 x
    (digits1to_suffix _ _ _ h5 x (lit_suffix _ _ _ h6 x (digits1to_suffix _ _ _ h7 x hx))))))

theorem quadPortAt_nil_of_no_colon (s : List Char) (h : ':' ∉ s) : quadPortAt s = [] := by
  unfold quadPortAt
  rw [List.flatMap_eq_nil_iff]
  intro r hr
  have : ':' ∉ r := fun hc => h (quadAt_suffix s r hr _ hc)
  rw [lit_colon_none r this]; rfl

theorem hasQuadPort_no_colon : ∀ (s : List Char), ':' ∉ s → hasQuadPort s = false
  | [], _ => by simp [hasQuadPort, search, quadPortAt_nil_of_no_colon [] (by simp)]
  | c :: r, h => by
    have h1 := quadPortAt_nil_of_no_colon (c :: r) h
    have h2 := hasQuadPort_no_colon r (fun hc => h (List.mem_cons_of_mem _ hc))
    unfold hasQuadPort at *
    simp [search, h1, h2]

/-- a `quad:port` factor contains a quad factor -/
theorem quadPortAt_quadAt (s : List Char) (h : quadPortAt s ≠ []) : quadAt s ≠ [] := by
  intro hq; apply h; unfold quadPortAt; rw [hq]; rfl

theorem hasQuad_of_hasQuadPort : ∀ (s : List Char), hasQuadPort s = true → hasQuad s = true
  | [], h => by
    unfold hasQuadPort hasQuad at *
    simp only [search, Bool.not_eq_true', List.isEmpty_eq_false_iff] at h ⊢
    exact quadPortAt_quadAt [] h
  | c :: r, h => by
    unfold hasQuadPort hasQuad at *
    simp only [search, Bool.or_eq_true, Bool.not_eq_true', List.isEmpty_eq_false_iff] at h ⊢
    rcases h with h | h
    · exact Or.inl (quadPortAt_quadAt _ h)
    · exact Or.inr (hasQuad_of_hasQuadPort r h)

theorem dec_no_special (n : Nat) : ':' ∉ dec n ∧ '.' ∉ dec n := by
  rw [dec_eq]
  split <;> (try split) <;> (try split) <;> (try split) <;>
    simp [fun k => (dch_ne_colon k).symm, fun k => (dch_ne_dot k).symm]

end Uhppote.Proofs.Addr
