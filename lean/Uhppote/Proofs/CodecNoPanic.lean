import Uhppote.Model.Codec
/-! No decoding path of a layout whose fields fit inside the 64 bytes can panic (C04, C18 iii). -/
namespace Uhppote.Proofs.Codec
open Uhppote Uhppote.Model

/-- every offset-tagged field lies inside the buffer -/
def Fits (n : Nat) : List Leaf → Prop
  | [] => True
  | .at off k _ :: r => off + k.width ≤ n ∧ Fits n r
  | _ :: r => Fits n r

instance (n : Nat) : (ls : List Leaf) → Decidable (Fits n ls)
  | [] => isTrue trivial
  | .at off k _ :: r => by
    unfold Fits
    exact @instDecidableAnd _ _ _ (instDecidableFits n r)
  | .som _ :: r | .msgType _ :: r | .skip :: r => by
    unfold Fits
    exact instDecidableFits n r
where instDecidableFits (n : Nat) : (ls : List Leaf) → Decidable (Fits n ls)
  | [] => isTrue trivial
  | .at off k _ :: r => by
    unfold Fits
    exact @instDecidableAnd _ _ _ (instDecidableFits n r)
  | .som _ :: r | .msgType _ :: r | .skip :: r => by
    unfold Fits
    exact instDecidableFits n r

variable (T : BCD.Tables) (B : HHmmBounds)

theorem decField_no_panic (F : CodecFacts) (k : Kind) (b : Bytes) : decField F T B k b ≠ .panic := by
  cases k <;> simp only [decField] <;> (try split) <;> (try split) <;> (try split) <;> simp

theorem unmarshalLeaf_no_panic (bytes : Bytes) (hl : bytes.length = 64) (l : Leaf)
    (hf : Fits 64 [l]) : unmarshalLeaf goodFacts T B bytes l ≠ .panic := by
  cases l with
  | skip => simp [unmarshalLeaf]
  | som v => simp [unmarshalLeaf]
  | msgType tag =>
    simp only [unmarshalLeaf]
    split
    · simp
    · split <;> simp
  | «at» off k tag =>
    simp only [Fits, and_true] at hf
    simp only [unmarshalLeaf]
    split
    · simp
    · have hw : readWidth goodFacts k = k.width := by cases k <;> rfl
      rw [hw]
      have : off + k.width ≤ bytes.length ∧ k.width ≤ k.width := ⟨by omega, Nat.le_refl _⟩
      simp only [this, and_self, if_true]
      split
      · split <;> simp
      · exact decField_no_panic T B goodFacts k _

theorem unmarshalLeaves_no_panic (bytes : Bytes) (hl : bytes.length = 64) :
    ∀ (ls : List Leaf), Fits 64 ls → (unmarshalLeaves goodFacts T B bytes ls).2 ≠ .panic
  | [], _ => by simp [unmarshalLeaves]
  | l :: ls, hf => by
    have h1 : Fits 64 [l] := by cases l <;> simp_all [Fits]
    have h2 : Fits 64 ls := by cases l <;> simp_all [Fits]
    have := unmarshalLeaf_no_panic T B bytes hl l h1
    have ih := unmarshalLeaves_no_panic bytes hl ls h2
    simp only [unmarshalLeaves]
    split
    · simpa using ih
    · simp
    · contradiction

theorem fits_append {n : Nat} : ∀ (a b : List Leaf), Fits n (a ++ b) ↔ Fits n a ∧ Fits n b
  | [], b => by simp [Fits]
  | l :: a, b => by
    have := fits_append (n := n) a b
    cases l <;> simp [Fits, this, and_assoc]

theorem unmarshalFields_no_panic (bytes : Bytes) (hl : bytes.length = 64) :
    ∀ (L : List Field), Fits 64 (Layout.leaves L) → (unmarshalFields goodFacts T B bytes L).2 ≠ .panic
  | [], _ => by simp [unmarshalFields]
  | .leaf _ l :: fs, hf => by
    simp only [Layout.leaves, List.flatMap_cons, Field.leaves] at hf
    have hf' := (fits_append [l] _).1 hf
    have := unmarshalLeaf_no_panic T B bytes hl l hf'.1
    have ih := unmarshalFields_no_panic bytes hl fs hf'.2
    simp only [unmarshalFields]
    split
    · simpa using ih
    · simp
    · contradiction
  | .embed _ ls :: fs, hf => by
    simp only [Layout.leaves, List.flatMap_cons, Field.leaves] at hf
    have hf' := (fits_append _ _).1 hf
    have h1 := unmarshalLeaves_no_panic T B bytes hl _ hf'.1
    have ih := unmarshalFields_no_panic bytes hl fs hf'.2
    simp only [unmarshalFields]
    split
    · simpa using ih
    · simp only [goodFacts, if_true]; simp
    · rename_i heq; rw [heq] at h1; simp at h1

/-- for ANY byte string of ANY length: no panic -/
theorem unmarshal_no_panic (L : Layout) (hf : Fits 64 L.leaves) (bytes : Bytes) :
    unmarshal goodFacts T B L bytes ≠ .panic := by
  unfold unmarshal
  split
  · simp
  · rename_i hlen
    have hl : bytes.length = 64 := by simpa [goodFacts] using hlen
    split
    · simp
    · have := unmarshalFields_no_panic T B bytes hl L hf
      split
      · simp
      · simp
      · rename_i heq; rw [heq] at this; simp at this

end Uhppote.Proofs.Codec
