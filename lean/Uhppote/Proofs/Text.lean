import Uhppote.Model.Text
/-! Lemmas for C14: parse ∘ format = id on the leaf text forms. -/
set_option linter.unusedSimpArgs false
namespace Uhppote.Proofs.Text
open Uhppote Uhppote.Model Uhppote.Model.Text

theorem dig_facts : ∀ m, m < 10 → isDig (Char.ofNat (48 + m)) = true ∧ dval (Char.ofNat (48 + m)) = m ∧
    Char.ofNat (48 + m) ≠ '-' ∧ Char.ofNat (48 + m) ≠ ':' := by decide

theorem dval_dig (k : Nat) : dval (Char.ofNat (48 + k % 10)) = k % 10 := (dig_facts (k % 10) (Nat.mod_lt _ (by omega))).2.1
theorem isDig_dig (k : Nat) : isDig (Char.ofNat (48 + k % 10)) = true := (dig_facts (k % 10) (Nat.mod_lt _ (by omega))).1

theorem d2_eq (n : Nat) : d2 n = [Char.ofNat (48 + n / 10 % 10), Char.ofNat (48 + n % 10)] := rfl

theorem d2_isDig (n : Nat) : (d2 n).all isDig = true := by
  simp [d2, (dig_facts (n / 10 % 10) (Nat.mod_lt _ (by omega))).1, (dig_facts (n % 10) (Nat.mod_lt _ (by omega))).1]

theorem num_d2 (n : Nat) (h : n < 100) : num (d2 n) = n := by
  simp only [d2, num, List.foldl_cons, List.foldl_nil, dval_dig]
  omega

theorem num_d4 (n : Nat) (h : n < 10000) : num (d4 n) = n := by
  simp only [d4, d2, num, List.cons_append, List.nil_append, List.foldl_cons, List.foldl_nil, dval_dig]
  omega

/-- dates: parsing the text of a calendar date of the years 0..9999 gives the date back -/
theorem parseDate_format (d : YMD) (hy : d.y ≤ 9999) (hv : validYMD d.y d.m d.d = true) :
    parseDateText (formatDate d) = some d := by
  have hb : d.m < 100 ∧ d.d < 100 := by
    simp only [validYMD, Bool.and_eq_true, decide_eq_true_eq] at hv
    have : daysIn d.y d.m ≤ 31 := by unfold daysIn; split <;> (try split) <;> omega
    omega
  obtain ⟨y, m, dd⟩ := d
  simp only at hy hv hb
  have e4 : d4 y = [Char.ofNat (48 + y / 100 / 10 % 10), Char.ofNat (48 + y / 100 % 10),
      Char.ofNat (48 + y % 100 / 10 % 10), Char.ofNat (48 + y % 100 % 10)] := rfl
  unfold formatDate parseDateText
  simp only [e4, d2_eq, List.cons_append, List.nil_append]
  have dg := fun k (hk : k < 10) => (dig_facts k hk).1
  have a1 := dg (y / 100 / 10 % 10) (Nat.mod_lt _ (by omega))
  have a2 := dg (y / 100 % 10) (Nat.mod_lt _ (by omega))
  have a3 := dg (y % 100 / 10 % 10) (Nat.mod_lt _ (by omega))
  have a4 := dg (y % 100 % 10) (Nat.mod_lt _ (by omega))
  have a5 := dg (m / 10 % 10) (Nat.mod_lt _ (by omega))
  have a6 := dg (m % 10) (Nat.mod_lt _ (by omega))
  have a7 := dg (dd / 10 % 10) (Nat.mod_lt _ (by omega))
  have a8 := dg (dd % 10) (Nat.mod_lt _ (by omega))
  simp only [List.all_cons, List.all_nil, a1, a2, a3, a4, a5, a6, a7, a8, Bool.and_self, if_true]
  have ny : num [Char.ofNat (48 + y / 100 / 10 % 10), Char.ofNat (48 + y / 100 % 10),
      Char.ofNat (48 + y % 100 / 10 % 10), Char.ofNat (48 + y % 100 % 10)] = y := num_d4 y (by omega)
  have nm : num [Char.ofNat (48 + m / 10 % 10), Char.ofNat (48 + m % 10)] = m := num_d2 m hb.1
  have nd : num [Char.ofNat (48 + dd / 10 % 10), Char.ofNat (48 + dd % 10)] = dd := num_d2 dd hb.2
  simp only [ny, nm, nd, hv, if_true]

theorem parseDate_valid (s : List Char) (d : YMD) (h : parseDateText s = some d) : validYMD d.y d.m d.d = true := by
  unfold parseDateText at h
  split at h
  · split at h
    · simp only at h
      split at h
      · cases h; assumption
      · cases h
    · cases h
  · cases h

/-- HH:mm -/
theorem parseHHmm_format (t : HM) (h0 : 0 ≤ t.h) (h24 : t.h ≤ 24) (m0 : 0 ≤ t.m) (m59 : t.m ≤ 59)
    (hr : t.h = 24 → t.m = 0) : parseHHmm ⟨24, 59, true⟩ (hhmmString t) = some t := by
  obtain ⟨th, tm⟩ := t
  simp only at h0 h24 m0 m59 hr
  unfold hhmmString parseHHmm
  simp only [d2_eq, List.cons_append, List.nil_append]
  have dg := fun k (hk : k < 10) => (dig_facts k hk).1
  have a1 := dg (th.toNat / 10 % 10) (Nat.mod_lt _ (by omega))
  have a2 := dg (th.toNat % 10) (Nat.mod_lt _ (by omega))
  have a3 := dg (tm.toNat / 10 % 10) (Nat.mod_lt _ (by omega))
  have a4 := dg (tm.toNat % 10) (Nat.mod_lt _ (by omega))
  simp only [List.all_cons, List.all_nil, a1, a2, a3, a4, Bool.and_self, if_true]
  have nh : num [Char.ofNat (48 + th.toNat / 10 % 10), Char.ofNat (48 + th.toNat % 10)] = th.toNat := num_d2 _ (by omega)
  have nm : num [Char.ofNat (48 + tm.toNat / 10 % 10), Char.ofNat (48 + tm.toNat % 10)] = tm.toNat := num_d2 _ (by omega)
  simp only [nh, nm]
  have g1 : ¬ th.toNat > 24 := by omega
  have g2 : ¬ tm.toNat > 59 := by omega
  have g3 : ¬ (True ∧ th.toNat = 24 ∧ tm.toNat ≠ 0) := by
    intro hc; have := hr (by omega); omega
  have eh : ((th.toNat : Nat) : Int) = th := Int.toNat_of_nonneg h0
  have em : ((tm.toNat : Nat) : Int) = tm := Int.toNat_of_nonneg m0
  simp only [g1, g2, g3, if_false, eh, em]

theorem parseHHmm_domain (B : HHmmBounds) (s : List Char) (t : HM) (h : parseHHmm B s = some t) :
    0 ≤ t.h ∧ t.h ≤ B.maxHours ∧ 0 ≤ t.m ∧ t.m ≤ B.maxMinutes ∧ (B.rule24 = true → t.h = 24 → t.m = 0) := by
  unfold parseHHmm at h
  split at h
  · split at h
    · simp only at h
      split at h
      · cases h
      · split at h
        · cases h
        · split at h
          · cases h
          · rename_i h1 h2 h3
            cases h
            dsimp only
            refine ⟨by omega, by omega, by omega, by omega, ?_⟩
            intro hb h24'
            apply Classical.byContradiction
            intro hm
            exact h3 ⟨hb, by omega, by omega⟩
    · cases h
  · cases h

/-- PIN -/
theorem decimal_facts (n : Nat) (h : n ≤ 999999) : (decimal n).all isDig = true ∧ num (decimal n) = n ∧
    (decimal n).length ≤ 6 ∧ 1 ≤ (decimal n).length := by
  have dg := fun k => (dig_facts (k % 10) (Nat.mod_lt _ (by omega))).1
  have dv := fun k => (dig_facts (k % 10) (Nat.mod_lt _ (by omega))).2.1
  unfold decimal
  simp only
  split
  · simp [num, dg, dv]; omega
  · split
    · simp [num, dg, dv]; omega
    · split
      · simp [num, dg, dv]; omega
      · split
        · simp [num, dg, dv]; omega
        · split
          · simp [num, dg, dv]; omega
          · split
            · simp [num, dg, dv]; omega
            · omega

theorem pin_roundtrip (p : Nat) (h : p ≤ 999999) : pinFromJSON (pinJSON p) = some p := by
  unfold pinJSON
  by_cases h0 : p = 0
  · subst h0; simp [pinFromJSON, num]
  · have : ¬ (p = 0 ∨ p > 999999) := by omega
    simp only [this, if_false]
    obtain ⟨a, b, c, _⟩ := decimal_facts p h
    simp [pinFromJSON, a, b, c]

theorem pin_domain (s : List Char) (n : Nat) (h : pinFromJSON s = some n) : n ≤ 999999 := by
  unfold pinFromJSON at h
  split at h
  · rename_i hs
    cases h
    -- at most six decimal digits
    have : ∀ (l : List Char) (acc : Nat), l.all isDig = true →
        l.foldl (fun a c => a * 10 + dval c) acc < (acc + 1) * 10 ^ l.length := by
      intro l
      induction l with
      | nil => intro acc _; simp
      | cons c r ih =>
        intro acc hl
        simp only [List.all_cons, Bool.and_eq_true] at hl
        have hc : dval c ≤ 9 := by
          have h1 := hl.1
          unfold isDig at h1
          simp only [Bool.and_eq_true, decide_eq_true_eq] at h1
          unfold dval
          have : c.toNat ≤ '9'.toNat := h1.2
          simp at this; omega
        have := ih (acc * 10 + dval c) hl.2
        simp only [List.foldl_cons, List.length_cons]
        calc _ < (acc * 10 + dval c + 1) * 10 ^ r.length := this
          _ ≤ ((acc + 1) * 10) * 10 ^ r.length := Nat.mul_le_mul_right _ (by omega)
          _ = (acc + 1) * 10 ^ (r.length + 1) := by rw [Nat.pow_succ]; ac_rfl
    have h1 := this s 0 hs.2
    unfold num
    have h2 : 10 ^ s.length ≤ 10 ^ 6 := Nat.pow_le_pow_right (by omega) hs.1
    omega
  · cases h

/-- version -/
theorem version_roundtrip : ∀ v, v < 65536 → versionFromJSON (versionJSON v) = some v := by
  intro v hv
  have hx : ∀ k, k < 16 → hexv (hexd k) = some k ∧ hexd k ≠ ' ' ∧ hexd k ≠ '\t' ∧ hexd k ≠ '\r' := by decide
  unfold versionJSON versionFromJSON
  obtain ⟨a1, a2, a3, a4⟩ := hx (v / 4096 % 16) (Nat.mod_lt _ (by omega))
  obtain ⟨b1, _⟩ := hx (v / 256 % 16) (Nat.mod_lt _ (by omega))
  obtain ⟨c1, _⟩ := hx (v / 16 % 16) (Nat.mod_lt _ (by omega))
  obtain ⟨d1, _⟩ := hx (v % 16) (Nat.mod_lt _ (by omega))
  simp [List.dropWhile, a2, a3, a4, List.takeWhile, a1, b1, c1, d1]
  omega

/-- system time -/
theorem systime_roundtrip (t : HMS) (h : t.h < 24 ∧ t.m < 60 ∧ t.s < 60) :
    parseSystemTime (systemTimeString t) = some t := by
  obtain ⟨th, tm, ts⟩ := t
  simp only at h
  have dg := fun k (hk : k < 10) => (dig_facts k hk).1
  have nc := fun k (hk : k < 10) => (dig_facts k hk).2.2.2
  have a1 := dg (th / 10 % 10) (Nat.mod_lt _ (by omega))
  have a2 := dg (th % 10) (Nat.mod_lt _ (by omega))
  have a3 := dg (tm / 10 % 10) (Nat.mod_lt _ (by omega))
  have a4 := dg (tm % 10) (Nat.mod_lt _ (by omega))
  have a5 := dg (ts / 10 % 10) (Nat.mod_lt _ (by omega))
  have a6 := dg (ts % 10) (Nat.mod_lt _ (by omega))
  have hcolon : isDig ':' = false := by decide
  unfold systemTimeString parseSystemTime
  simp only [d2_eq, List.cons_append, List.nil_append, List.takeWhile, a1, a2, hcolon]
  have nh : num [Char.ofNat (48 + th / 10 % 10), Char.ofNat (48 + th % 10)] = th := num_d2 th (by omega)
  have nm : num [Char.ofNat (48 + tm / 10 % 10), Char.ofNat (48 + tm % 10)] = tm := num_d2 tm (by omega)
  have ns : num [Char.ofNat (48 + ts / 10 % 10), Char.ofNat (48 + ts % 10)] = ts := num_d2 ts (by omega)
  simp [a3, a4, a5, a6, nh, nm, ns, h.1, h.2.1, h.2.2]

end Uhppote.Proofs.Text
