import Uhppote.Proofs.CodecImage
import Uhppote.Proofs.CodecDec
/-! Decoding the image of a well-formed layout returns the encoded values (`Spec.Codec.backAll`):
    reading a field's range out of the position-wise image gives the field's wire bytes padded
    with zeros, and every per-kind decoder inverts its arithmetic wire form. -/
set_option linter.unusedSimpArgs false
set_option linter.unusedVariables false
namespace Uhppote.Proofs.Codec
open Uhppote Uhppote.Model Uhppote.Spec.Codec

def imageOf (ps : List Piece) : Bytes := (List.range 64).map (imageByte ps)

theorem length_imageOf (ps : List Piece) : (imageOf ps).length = 64 := by simp [imageOf]

theorem imageOf_get (ps : List Piece) (i : Nat) (h : i < 64) : (imageOf ps)[i]? = some (imageByte ps i) := by
  simp [imageOf, h]

/-- no piece of `qs` covers a position of the range `[o, o+w)` -/
def Clear (qs : List Piece) (o w : Nat) : Prop := ∀ q ∈ qs, ∀ i, o ≤ i → i < o + w → covers i q = false

theorem imageByte_eq (ps : List Piece) (i : Nat) :
    imageByte ps i = match ps.find? (covers i) with
      | some p => p.2.getD (i - p.1) 0
      | none => if i = 0 then 0x17 else 0 := by
  unfold imageByte
  have hfind : ps.find? (fun (x : Nat × Bytes) => match x with | (o, b) => decide (o ≤ i) && decide (i < o + b.length))
      = ps.find? (covers i) := by
    congr 1
  rw [hfind]
  cases ps.find? (covers i) with
  | some p => rfl
  | none => rfl

theorem imageByte_split (pre post : List Piece) (p : Piece) (o w i : Nat)
    (hpre : Clear pre o w) (hpost : Clear post o w) (hi1 : o ≤ i) (hi2 : i < o + w) (ho : p.1 = o) (h1 : 1 ≤ o) :
    imageByte (pre ++ p :: post) i = if i < o + p.2.length then p.2.getD (i - o) 0 else 0 := by
  rw [imageByte_eq, List.find?_append]
  have h1' : pre.find? (covers i) = none := by
    rw [List.find?_eq_none]; intro q hq; simp [hpre q hq i hi1 hi2]
  have h2' : post.find? (covers i) = none := by
    rw [List.find?_eq_none]; intro q hq; simp [hpost q hq i hi1 hi2]
  rw [h1', Option.none_or, List.find?_cons]
  by_cases hc : i < o + p.2.length
  · have : covers i p = true := by simp [covers, ho, hi1, hc]
    simp [this, hc, ho]
  · have : covers i p = false := by simp [covers, ho]; omega
    have hi0 : i ≠ 0 := by omega
    simp [this, hc, h2', hi0]

/-- reading a field's range out of the image: its wire bytes, then zeros -/
theorem readAt_imageOf (pre post : List Piece) (p : Piece) (o w : Nat)
    (hpre : Clear pre o w) (hpost : Clear post o w) (ho : p.1 = o) (hl : p.2.length ≤ w) (h1 : 1 ≤ o)
    (hfit : o + w ≤ 64) :
    readAt (imageOf (pre ++ p :: post)) o w = p.2 ++ zeros (w - p.2.length) := by
  apply List.ext_getElem?
  intro i
  unfold readAt
  rw [List.getElem?_take]
  by_cases hi : i < w
  · simp only [hi, if_true, List.getElem?_drop]
    rw [imageOf_get _ _ (by omega), imageByte_split pre post p o w (o + i) hpre hpost (by omega) (by omega) ho h1]
    by_cases hc : i < p.2.length
    · have : o + i < o + p.2.length := by omega
      simp only [this, if_true]
      rw [List.getElem?_append_left hc, List.getD_eq_getElem?_getD]
      have : o + i - o = i := by omega
      rw [this, List.getElem?_eq_getElem hc]; rfl
    · have : ¬ (o + i < o + p.2.length) := by omega
      simp only [this, if_false]
      rw [List.getElem?_append_right (by omega)]
      simp [zeros, List.getElem?_replicate]; omega
  · simp only [hi, if_false]
    rw [List.getElem?_eq_none]
    simp; omega

theorem getD_imageOf (pre post : List Piece) (p : Piece) (o : Nat)
    (hpre : Clear pre o 1) (hpost : Clear post o 1) (ho : p.1 = o) (hl : p.2.length ≤ 1) (h1 : 1 ≤ o)
    (hfit : o + 1 ≤ 64) :
    (imageOf (pre ++ p :: post)).getD o 0 = p.2.getD 0 0 := by
  rw [List.getD_eq_getElem?_getD, imageOf_get _ _ (by omega),
    imageByte_split pre post p o 1 o hpre hpost (by omega) (by omega) ho h1]
  by_cases hc : 0 < p.2.length
  · have : o < o + p.2.length := by omega
    simp [this]
  · have hn : p.2 = [] := by
      cases hp : p.2 with
      | nil => rfl
      | cons a b => simp [hp] at hc
    simp [hn]


/-! ## every per-kind decoder inverts the arithmetic wire form -/

abbrev B0 : HHmmBounds := ⟨24, 59, true⟩

theorem zeros_zero : zeros 0 = [] := rfl

theorem decDate_zero : decDate BCD.canonical [0, 0, 0, 0] = .val none := by decide
theorem decDatePtr_zero : decDatePtr BCD.canonical [0, 0, 0, 0] = none := by decide
theorem decHHmm_zero : decHHmm BCD.canonical B0 [0, 0] = .val ⟨0, 0⟩ := by decide

theorem decField_wire (k : Kind) (v w : Val) (b : Bytes) (hw : wire k v = some b) (hb : back k v = some w) :
    decField goodFacts BCD.canonical B0 k (b ++ zeros (k.width - b.length)) = .ok w := by
  cases k <;> cases v <;> simp only [wire] at hw <;> (try cases hw)
  case u8.u8.refl =>
    simp [back, wire] at hb; subst hb; simp [decField, Kind.width, zeros]
  case u16.u16 =>
    rename_i x
    split at hw
    · rename_i hx; cases hw
      simp [back, wire, hx] at hb; subst hb
      simp [decField, Kind.width, zeros, goodFacts, unle16_le x hx]
    · cases hw
  case u32.u32 =>
    rename_i x
    split at hw
    · rename_i hx; cases hw
      simp [back, wire, hx] at hb; subst hb
      simp [decField, Kind.width, zeros, goodFacts, unle32_le x hx]
    · cases hw
  case bool.bool.refl =>
    rename_i x
    simp [back, wire] at hb; subst hb
    cases x <;> simp [decField, Kind.width, zeros, goodFacts]
  case ipv4.ip =>
    rename_i bs
    have hlen : b.length = 4 := by
      split at hw
      · cases hw; assumption
      · split at hw
        · rename_i h16; cases hw; simp; omega
        · cases hw
    simp only [back, wire, hw, Option.map_some, Option.some.injEq] at hb
    subst hb
    simp [decField, Kind.width, hlen, zeros, v4InV6Prefix]
  case addrPort.addrPort =>
    rename_i a
    cases a with
    | other => simp [wire] at hw
    | v4 a1 a2 a3 a4 p =>
      simp only [wire] at hw
      split at hw
      · rename_i hp; cases hw
        simp [back, wire, hp] at hb; subst hb
        simp [decField, Kind.width, zeros, UInt8.toNat_ofNat']; omega
      · cases hw
  case mac.mac =>
    rename_i bs
    split at hw
    · rename_i h6; cases hw
      simp [back, wire, h6] at hb; subst hb
      simp [decField, Kind.width, h6, zeros]
    · cases hw
  case serial.u32 =>
    rename_i x
    split at hw
    · rename_i hx; cases hw
      simp [back, wire, hx] at hb; subst hb
      simp [decField, Kind.width, zeros, unle32_le x hx]
    · cases hw
  case date.date =>
    rename_i d
    cases d with
    | none =>
      simp only [wire] at hw; cases hw
      simp [back, wire] at hb; subst hb
      simp [decField, Kind.width, zeros, decDate_zero]
    | some d =>
      simp only [wire] at hw
      split at hw
      · rename_i hd; cases hw
        simp [back, wire, hd] at hb; subst hb
        have hl : (bcdDate d).length = 4 := rfl
        simp only [Kind.width, hl, Nat.sub_self, zeros, List.replicate, List.append_nil]
        simp [decField, decDate_bcd d hd]
      · cases hw
  case datePtr.datePtr =>
    rename_i d
    cases d with
    | none =>
      simp only [wire] at hw; cases hw
      simp [back, wire] at hb; subst hb
      simp [decField, Kind.width, zeros, decDatePtr_zero]
    | some d =>
      cases d with
      | none =>
        simp only [wire] at hw; cases hw
        simp [back] at hb; subst hb
        simp [decField, Kind.width, zeros, decDatePtr_zero]
      | some d =>
        simp only [wire] at hw
        split at hw
        · rename_i hd; cases hw
          simp [back, wire, hd] at hb; subst hb
          have hl : (bcdDate d).length = 4 := rfl
          simp only [Kind.width, hl, Nat.sub_self, zeros, List.replicate, List.append_nil]
          simp [decField, decDatePtr_bcd d hd]
        · cases hw
  case dateTime.dateTime =>
    rename_i d
    cases d with
    | none =>
      simp only [wire] at hw; cases hw
      simp [back, wire] at hb; subst hb
      simp [decField, Kind.width, zeros, decDateTime]
    | some d =>
      simp only [wire] at hw
      split at hw
      · rename_i hd; cases hw
        simp [back, wire, hd] at hb; subst hb
        have hl : (bcdDateTime d).length = 7 := rfl
        simp only [Kind.width, hl, Nat.sub_self, zeros, List.replicate, List.append_nil]
        simp [decField, (decDateTime_bcd d hd).1]
      · cases hw
  case dateTimePtr.dateTimePtr =>
    rename_i d
    cases d with
    | none =>
      simp only [wire] at hw; cases hw
      simp [back, wire] at hb; subst hb
      simp [decField, Kind.width, zeros, decDateTimePtr]
    | some d =>
      cases d with
      | none =>
        simp only [wire] at hw; cases hw
        simp [back] at hb; subst hb
        simp [decField, Kind.width, zeros, decDateTimePtr]
      | some d =>
        simp only [wire] at hw
        split at hw
        · rename_i hd; cases hw
          simp [back, wire, hd] at hb; subst hb
          have hl : (bcdDateTime d).length = 7 := rfl
          simp only [Kind.width, hl, Nat.sub_self, zeros, List.replicate, List.append_nil]
          simp [decField, (decDateTime_bcd d hd).2]
        · cases hw
  case sysDate.sysDate =>
    rename_i d
    cases d with
    | none => simp [wire] at hw
    | some d =>
      simp only [wire] at hw
      split at hw
      · rename_i hd; cases hw
        simp [back, wire, hd] at hb; subst hb
        simp only [Bool.and_eq_true, decide_eq_true_eq] at hd
        simp [decField, Kind.width, zeros, decSysDate_bcd d hd.1.1 hd.1.2 hd.2]
      · cases hw
  case sysTime.sysTime =>
    rename_i t
    split at hw
    · rename_i ht; cases hw
      simp [back, wire, ht] at hb; subst hb
      simp only [Bool.and_eq_true, decide_eq_true_eq] at ht
      simp [decField, Kind.width, zeros, decSysTime_bcd t ⟨ht.1.1, ht.1.2, ht.2⟩]
    · cases hw
  case hhmm.hhmm =>
    rename_i t
    split at hw
    · rename_i ht; cases hw
      simp [back, wire, ht] at hb; subst hb
      simp [decField, Kind.width, zeros, decHHmm_bcd t ht]
    · cases hw
  case hhmmPtr.hhmmPtr =>
    rename_i t
    cases t with
    | none =>
      simp only [wire] at hw; cases hw
      simp [back] at hb; subst hb
      simp [decField, Kind.width, zeros, decHHmm_zero]
    | some t =>
      simp only [wire] at hw
      split at hw
      · rename_i ht; cases hw
        simp [back, wire, ht] at hb; subst hb
        simp [decField, Kind.width, zeros, decHHmm_bcd t ht]
      · cases hw
  case pin.u32 =>
    rename_i x
    split at hw
    · rename_i hx; cases hw
      simp [back, wire, hx] at hb; subst hb
      have := unle24_le x hx
      simp [decField, Kind.width, zeros] at this ⊢
      exact this
    · cases hw
  case version.u16 =>
    rename_i x
    split at hw
    · rename_i hx; cases hw
      simp [back, wire, hx] at hb; subst hb
      simp [decField, Kind.width, zeros, unbe16_be x hx]
    · cases hw
  case macAddress.mac =>
    rename_i bs
    split at hw
    · rename_i h6; cases hw
      simp [back, wire, h6] at hb; subst hb
      simp [decField, Kind.width, h6, zeros]
    · cases hw

/-! ## one leaf, read out of the image -/

theorem tagValue_lt (t : String) (n : Nat) (h : tagValue t = some n) : n < 256 := by
  unfold tagValue at h
  split at h
  · split at h
    · cases h
    · simp only [Option.bind_eq_some_iff] at h
      obtain ⟨m, _, hm⟩ := h
      split at hm
      · cases hm; assumption
      · cases hm
  · split at h
    · cases h
    · simp only [Option.bind_eq_some_iff] at h
      obtain ⟨m, _, hm⟩ := h
      split at hm
      · cases hm; assumption
      · cases hm
  · cases h; omega
  · cases h
  · split at h
    · cases h
    · simp only [Option.bind_eq_some_iff] at h
      obtain ⟨m, _, hm⟩ := h
      split at hm
      · cases hm; assumption
      · cases hm

theorem backLeaf_at (off : Nat) (k : Kind) (tag : Option String) (v : Val) (hk : k ≠ .u8 ∨ tag = none) :
    backLeaf (.at off k tag) v = back k v := by
  cases tag with
  | none => cases k <;> rfl
  | some t => cases k <;> first | rfl | (cases hk <;> contradiction)

theorem unmarshalLeaf_image (pre post : List Piece) (l : Leaf) (v w : Val) (p : Piece)
    (hlw : leafWire l v = some p) (hd : backLeaf l v = some w)
    (hext : ∀ o wd, extent l = some (o, wd) → Clear pre o wd ∧ Clear post o wd ∧ o + wd ≤ 64)
    (h2 : fieldsFrom2 l = true) :
    unmarshalLeaf goodFacts BCD.canonical B0 (imageOf (pre ++ p :: post)) l = .ok w := by
  cases l with
  | skip => simp [backLeaf] at hd; subst hd; rfl
  | som tag => simp [backLeaf] at hd; subst hd; rfl
  | msgType tag =>
    obtain ⟨hc1, hc2, hfit⟩ := hext 1 1 rfl
    cases tag with
    | none =>
      cases v <;> simp only [backLeaf] at hd <;> (try cases hd)
      rename_i x
      split at hd
      · rename_i hx; subst hx; cases hd
        simp only [leafWire] at hlw; cases hlw
        have hb := getD_imageOf pre post (1, [0]) 1 hc1 hc2 rfl (by simp) (by omega) hfit
        simp only [List.getD_cons_zero, List.getD_eq_getElem?_getD] at hb
        simp [unmarshalLeaf, hb]
      · cases hd
    | some t =>
      simp only [backLeaf, Option.map_eq_some_iff] at hd
      obtain ⟨n, hn, rfl⟩ := hd
      simp only [leafWire, hn, Option.map_some, Option.some.injEq] at hlw
      subst hlw
      have hlt := tagValue_lt t n hn
      have hp : parseUint8 goodFacts.headerValueBase t = some n := parseUint8_of_tagValue t n hn
      have hb := getD_imageOf pre post (1, [UInt8.ofNat n]) 1 hc1 hc2 rfl (by simp) (by omega) hfit
      simp only [List.getD_cons_zero, List.getD_eq_getElem?_getD] at hb
      have hto : (UInt8.ofNat n).toNat = n := by simp [UInt8.toNat_ofNat']; omega
      simp [unmarshalLeaf, hp, hb, hto]
  | «at» off k tag =>
    obtain ⟨hc1, hc2, hfit⟩ := hext off k.width rfl
    have hoff : 2 ≤ off := by simpa [fieldsFrom2] using h2
    have hlen := length_imageOf (pre ++ p :: post)
    by_cases hk : k ≠ .u8 ∨ tag = none
    · obtain ⟨o, b⟩ := p
      obtain ⟨hw, rfl⟩ := leafWire_at off tag v o b k hk hlw
      rw [backLeaf_at o k tag v hk] at hd
      have hfix : fixedValue goodFacts k tag = some none := by
        cases tag with
        | none => cases k <;> rfl
        | some t => cases k <;> first | rfl | (cases hk <;> contradiction)
      have hrw : readWidth goodFacts k = k.width := by cases k <;> rfl
      have hbl := wire_length k v b hw
      have hread := readAt_imageOf pre post (o, b) o k.width hc1 hc2 rfl hbl (by omega) hfit
      simp only [unmarshalLeaf, hfix, hrw, hlen]
      rw [if_pos ⟨hfit, Nat.le_refl _⟩, hread]
      exact decField_wire k v w b hw hd
    · have hk' : k = .u8 ∧ tag ≠ none := by
        constructor
        · apply Classical.byContradiction; intro hc; exact hk (Or.inl hc)
        · intro hc; exact hk (Or.inr hc)
      obtain ⟨rfl, ht⟩ := hk'
      cases tag with
      | none => exact absurd rfl ht
      | some t =>
        simp only [backLeaf, Option.map_eq_some_iff] at hd
        obtain ⟨n, hn, rfl⟩ := hd
        simp only [leafWire, hn, Option.map_some, Option.some.injEq] at hlw
        subst hlw
        have hlt := tagValue_lt t n hn
        have hp : parseUint8 goodFacts.byteValueBase t = some n := parseUint8_of_tagValue t n hn
        simp only [Kind.width] at hc1 hc2 hfit
        have hb := getD_imageOf pre post (off, [UInt8.ofNat n]) off hc1 hc2 rfl (by simp) (by omega) hfit
        simp only [List.getD_cons_zero, List.getD_eq_getElem?_getD] at hb
        have hto : (UInt8.ofNat n).toNat = n := by simp [UInt8.toNat_ofNat']; omega
        have hw : off + readWidth goodFacts .u8 ≤ 64 ∧ Kind.width .u8 ≤ readWidth goodFacts .u8 := by
          simp [readWidth, Kind.width]; omega
        simp [unmarshalLeaf, fixedValue, hp, hlen, hw, hb, hto]

/-! ## the whole walk -/

def extDisj (l l' : Leaf) : Prop :=
  match extent l, extent l' with
  | some (o, w), some (o', w') => o + w ≤ o' ∨ o' + w' ≤ o
  | _, _ => True

theorem extDisj_symm (l l' : Leaf) (h : extDisj l l') : extDisj l' l := by
  unfold extDisj at *
  cases h1 : extent l <;> cases h2 : extent l' <;> simp only [h1, h2] at h ⊢
  rename_i a b; obtain ⟨o, w⟩ := a; obtain ⟨o', w'⟩ := b
  simp only at h ⊢; omega

theorem pairwise_extDisj : ∀ (ls : List Leaf), rangesDisjoint (ls.filterMap extent) = true → ls.Pairwise extDisj
  | [], _ => List.Pairwise.nil
  | l :: ls, h => by
    cases he : extent l with
    | none =>
      simp only [List.filterMap_cons, he] at h
      refine List.pairwise_cons.2 ⟨?_, pairwise_extDisj ls h⟩
      intro l' _; simp [extDisj, he]
    | some e =>
      obtain ⟨o, w⟩ := e
      simp only [List.filterMap_cons, he, rangesDisjoint, Bool.and_eq_true, List.all_eq_true] at h
      refine List.pairwise_cons.2 ⟨?_, pairwise_extDisj ls h.2⟩
      intro l' hl'
      unfold extDisj
      cases he' : extent l' with
      | none => simp [he]
      | some e' =>
        obtain ⟨o', w'⟩ := e'
        have hmem : (o', w') ∈ ls.filterMap extent := by
          rw [List.mem_filterMap]; exact ⟨l', hl', he'⟩
        have := h.1 (o', w') hmem
        simp only [Bool.or_eq_true, decide_eq_true_eq] at this
        simp only [he]; exact this

/-- no piece of `qs` touches the range the leaf owns -/
def ClearL (qs : List Piece) (l : Leaf) : Prop := ∀ o w, extent l = some (o, w) → Clear qs o w

theorem clear_of_within (q : Piece) (lq lt : Leaf) (hq : within q lq) (hd : extDisj lt lq) : ClearL [q] lt := by
  intro o w he q' hq' i hi1 hi2
  simp only [List.mem_singleton] at hq'; subst hq'
  unfold extDisj at hd
  simp only [he] at hd
  unfold within at hq
  cases he' : extent lq with
  | none => simp only [he'] at hq; subst hq; simp [covers]
  | some e' =>
    obtain ⟨o', w'⟩ := e'
    simp only [he'] at hq hd
    simp only [covers, Bool.and_eq_false_iff, decide_eq_false_iff_not]
    omega

theorem ClearL_append (a b : List Piece) (l : Leaf) (ha : ClearL a l) (hb : ClearL b l) : ClearL (a ++ b) l := by
  intro o w he q hq
  rcases List.mem_append.1 hq with h | h
  · exact ha o w he q h
  · exact hb o w he q h

theorem ClearL_pieces (ls : List Leaf) (vs : List Val) (ps : List Piece) (h : pieces ls vs = some ps)
    (lt : Leaf) (hd : ∀ l' ∈ ls, extDisj lt l') : ClearL ps lt := by
  intro o w he q hq
  obtain ⟨l', hl', hwi⟩ := pieces_within ls vs ps h q hq
  exact clear_of_within q l' lt hwi (hd l' hl') o w he q (by simp)

structure LeafOk (acc post : List Piece) (l : Leaf) : Prop where
  acc : ClearL acc l
  post : ClearL post l
  from2 : fieldsFrom2 l = true
  fit : ∀ o w, extent l = some (o, w) → o + w ≤ 64

theorem unmarshalLeaves_image : ∀ (ls : List Leaf) (vs ws : List Val) (ps acc post : List Piece),
    pieces ls vs = some ps → backAll ls vs = some ws → ls.Pairwise extDisj →
    (∀ l ∈ ls, LeafOk acc post l) →
    unmarshalLeaves goodFacts BCD.canonical B0 (imageOf (acc ++ ps ++ post)) ls = (ws, .ok ())
  | [], [], ws, ps, acc, post, _, hb, _, _ => by
    simp [backAll] at hb; subst hb; rfl
  | [], _ :: _, _, _, _, _, h, _, _, _ => by simp [pieces] at h
  | _ :: _, [], _, _, _, _, h, _, _, _ => by simp [pieces] at h
  | l :: ls, v :: vs, ws, ps, acc, post, h, hb, hpw, hok => by
    simp only [pieces] at h
    cases hw : leafWire l v with
    | none => simp [hw] at h
    | some p =>
      cases hr : pieces ls vs with
      | none => simp [hw, hr] at h
      | some ps' =>
        simp only [hw, hr, Option.some.injEq] at h
        subst h
        simp only [backAll] at hb
        cases hbl : backLeaf l v with
        | none => simp [hbl] at hb
        | some w =>
          cases hbr : backAll ls vs with
          | none => simp [hbl, hbr] at hb
          | some ws' =>
            simp only [hbl, hbr, Option.some.injEq] at hb
            subst hb
            have hl := hok l (by simp)
            obtain ⟨hhead, htail⟩ := List.pairwise_cons.1 hpw
            have himg : acc ++ (p :: ps') ++ post = acc ++ p :: (ps' ++ post) := by simp
            have hpost : ClearL (ps' ++ post) l :=
              ClearL_append _ _ _ (ClearL_pieces ls vs ps' hr l hhead) hl.post
            have h1 := unmarshalLeaf_image acc (ps' ++ post) l v w p hw hbl
              (fun o wd he => ⟨hl.acc o wd he, hpost o wd he, hl.fit o wd he⟩) hl.from2
            have himg2 : acc ++ (p :: ps') ++ post = (acc ++ [p]) ++ ps' ++ post := by simp
            have ih := unmarshalLeaves_image ls vs ws' ps' (acc ++ [p]) post hr hbr htail
              (fun l' hl' => by
                have hl'ok := hok l' (by simp [hl'])
                refine ⟨ClearL_append _ _ _ hl'ok.acc ?_, hl'ok.post, hl'ok.from2, hl'ok.fit⟩
                exact clear_of_within p l l' (leafWire_within l v p hw) (extDisj_symm _ _ (hhead l' hl')))
            rw [← himg2] at ih
            simp only [unmarshalLeaves]
            rw [himg] at ih ⊢
            rw [h1]
            simp only [ih]

theorem unmarshalLeaves_append_ok (bytes : Bytes) : ∀ (a b : List Leaf) (ws : List Val),
    unmarshalLeaves goodFacts BCD.canonical B0 bytes (a ++ b) = (ws, .ok ()) →
    ∃ w1 w2, ws = w1 ++ w2 ∧ unmarshalLeaves goodFacts BCD.canonical B0 bytes a = (w1, .ok ()) ∧
      unmarshalLeaves goodFacts BCD.canonical B0 bytes b = (w2, .ok ())
  | [], b, ws, h => ⟨[], ws, rfl, rfl, h⟩
  | l :: a, b, ws, h => by
    simp only [List.cons_append, unmarshalLeaves] at h ⊢
    cases hl : unmarshalLeaf goodFacts BCD.canonical B0 bytes l with
    | ok v =>
      simp only [hl] at h ⊢
      cases hr : unmarshalLeaves goodFacts BCD.canonical B0 bytes (a ++ b) with
      | mk vs o =>
        simp only [hr, Prod.mk.injEq] at h
        obtain ⟨h1, h2⟩ := h
        subst h1; subst h2
        obtain ⟨w1, w2, e, ha, hb⟩ := unmarshalLeaves_append_ok bytes a b vs hr
        refine ⟨v :: w1, w2, by simp [e], ?_, hb⟩
        simp [ha]
    | err => simp [hl] at h
    | panic => simp [hl] at h

theorem unmarshalFields_of_leaves (bytes : Bytes) : ∀ (fs : List Field) (ws : List Val),
    unmarshalLeaves goodFacts BCD.canonical B0 bytes (Layout.leaves fs) = (ws, .ok ()) →
    unmarshalFields goodFacts BCD.canonical B0 bytes fs = (ws, .ok ())
  | [], ws, h => by simpa [Layout.leaves, unmarshalLeaves, unmarshalFields] using h
  | .leaf n l :: fs, ws, h => by
    have hl : Layout.leaves (.leaf n l :: fs) = l :: Layout.leaves fs := by
      simp [Layout.leaves, Field.leaves]
    rw [hl] at h
    simp only [unmarshalLeaves] at h
    simp only [unmarshalFields]
    cases hu : unmarshalLeaf goodFacts BCD.canonical B0 bytes l with
    | ok v =>
      simp only [hu] at h ⊢
      cases hr : unmarshalLeaves goodFacts BCD.canonical B0 bytes (Layout.leaves fs) with
      | mk vs o =>
        simp only [hr, Prod.mk.injEq] at h
        obtain ⟨h1, h2⟩ := h
        subst h1; subst h2
        rw [unmarshalFields_of_leaves bytes fs vs hr]
    | err => simp [hu] at h
    | panic => simp [hu] at h
  | .embed n ls :: fs, ws, h => by
    have hl : Layout.leaves (.embed n ls :: fs) = ls.map (·.2) ++ Layout.leaves fs := by
      simp [Layout.leaves, Field.leaves]
    rw [hl] at h
    obtain ⟨w1, w2, e, ha, hb⟩ := unmarshalLeaves_append_ok bytes _ _ ws h
    simp only [unmarshalFields, ha, unmarshalFields_of_leaves bytes fs w2 hb, e]

/-- **decode ∘ encode**: for every well-formed layout and all in-domain values, decoding the
    image returns the encoded values (up to the observational equalities of `Spec.Codec.back`) -/
theorem unmarshal_image (L : Layout) (vs ws : List Val) (img : Bytes)
    (hwf : wf L.leaves = true) (himg : image L.leaves vs = some img)
    (hback : backAll L.leaves vs = some ws) (hh : headerOk img = true) :
    unmarshal goodFacts BCD.canonical B0 L img = .ok ws := by
  unfold image at himg
  rw [Option.map_eq_some_iff] at himg
  obtain ⟨ps, hps, rfl⟩ := himg
  simp only [wf, Bool.and_eq_true, List.all_eq_true] at hwf
  obtain ⟨⟨⟨hfit, hdis⟩, _⟩, hfrom2⟩ := hwf
  have hleaves := unmarshalLeaves_image L.leaves vs ws ps [] [] hps hback (pairwise_extDisj _ hdis)
    (fun l hl => ⟨fun _ _ _ _ hq => by simp at hq, fun _ _ _ _ hq => by simp at hq, hfrom2 l hl,
      fun o w he => by
        have := hfit (o, w) (by rw [List.mem_filterMap]; exact ⟨l, hl, he⟩)
        simpa using this⟩)
  simp only [List.nil_append, List.append_nil] at hleaves
  have hfields := unmarshalFields_of_leaves _ L ws hleaves
  have hlen : ((List.range 64).map (imageByte ps)).length = 64 := by simp
  simp only [headerOk, Bool.and_eq_true, beq_iff_eq, Bool.or_eq_true] at hh
  have himgOf : (List.range 64).map (imageByte ps) = imageOf ps := rfl
  rw [himgOf] at hh hlen ⊢
  unfold unmarshal
  split
  · rename_i hl; exact absurd hlen hl
  · split
    · rename_i hs
      exfalso
      rcases hh.2 with h0 | ⟨h0, h1⟩
      · rw [List.getD_eq_getElem?_getD] at h0
        simp [h0, goodFacts] at hs
      · rw [List.getD_eq_getElem?_getD] at h0 h1
        simp [h0, h1, goodFacts] at hs
    · rw [hfields]

/-! ## the header of an image -/

def notSom : Leaf → Bool
  | .som _ => false
  | _ => true

/-- the two header shapes of the shipped messages: no SOM field at all (byte 0 is the preset
    0x17), or `SOM value:0x19` followed by `MsgType value:0x20` (the v6.62 event) -/
def hdrShape (ls : List Leaf) : Bool :=
  ls.all notSom ||
  (match ls with
   | .som (some t0) :: .msgType (some t1) :: _ => tagValue t0 == some 0x19 && tagValue t1 == some 0x20
   | _ => false)

theorem getD_imageOf_eq (ps : List Piece) (i : Nat) (h : i < 64) : (imageOf ps).getD i 0 = imageByte ps i := by
  rw [List.getD_eq_getElem?_getD, imageOf_get ps i h]; rfl

theorem headerOk_image (ls : List Leaf) (vs : List Val) (img : Bytes) (hwf : wf ls = true)
    (himg : image ls vs = some img) (hs : hdrShape ls = true) : headerOk img = true := by
  unfold image at himg
  rw [Option.map_eq_some_iff] at himg
  obtain ⟨ps, hps, rfl⟩ := himg
  have himgOf : (List.range 64).map (imageByte ps) = imageOf ps := rfl
  rw [himgOf]
  simp only [headerOk, length_imageOf, beq_self_eq_true, Bool.true_and, Bool.or_eq_true, beq_iff_eq,
    Bool.and_eq_true]
  rw [getD_imageOf_eq ps 0 (by omega), getD_imageOf_eq ps 1 (by omega)]
  simp only [hdrShape, Bool.or_eq_true] at hs
  rcases hs with hs | hs
  · left
    rw [imageByte_eq]
    have hnone : ps.find? (covers 0) = none := by
      rw [List.find?_eq_none]
      intro q hq
      obtain ⟨l, hl, hwi⟩ := pieces_within ls vs ps hps q hq
      simp only [wf, Bool.and_eq_true, List.all_eq_true] at hwf
      have h2 := hwf.2 l hl
      have hn := (List.all_eq_true.1 hs) l hl
      unfold within at hwi
      cases l with
      | skip => simp only [extent] at hwi; subst hwi; simp [covers]
      | som t => simp [notSom] at hn
      | msgType t => simp only [extent] at hwi; simp [covers, hwi.1]
      | «at» off k tag =>
        simp only [extent] at hwi
        simp only [fieldsFrom2, decide_eq_true_eq] at h2
        simp [covers, hwi.1]; omega
    simp [hnone]
  · right
    split at hs
    · rename_i t0 t1 rest
      simp only [Bool.and_eq_true, beq_iff_eq] at hs
      cases vs with
      | nil => simp [pieces] at hps
      | cons v0 vs =>
        cases vs with
        | nil => simp [pieces] at hps
        | cons v1 vs =>
          simp only [pieces, leafWire, hs.1, hs.2, Option.map_some] at hps
          cases hr : pieces rest vs with
          | none => simp [hr] at hps
          | some ps' =>
            simp only [hr, Option.some.injEq] at hps
            subst hps
            constructor
            · rw [imageByte_eq]; simp [covers]
            · rw [imageByte_eq]; simp [covers]
    · cases hs

end Uhppote.Proofs.Codec
