import Uhppote.Proofs.CodecLeaf
/-! Sequential writes of a well-formed layout = the position-wise image of the specification. -/
set_option linter.unusedSimpArgs false
namespace Uhppote.Proofs.Codec
open Uhppote Uhppote.Model Uhppote.Spec.Codec

abbrev Piece := Nat × Bytes

def applyPieces (buf : Bytes) (ps : List Piece) : Bytes := ps.foldl (fun b p => writeAt b p.1 p.2) buf

def covers (i : Nat) (p : Piece) : Bool := p.1 ≤ i && i < p.1 + p.2.length

def disj (p q : Piece) : Prop := p.1 + p.2.length ≤ q.1 ∨ q.1 + q.2.length ≤ p.1

theorem length_applyPieces (buf : Bytes) (ps : List Piece) : (applyPieces buf ps).length = buf.length := by
  induction ps generalizing buf with
  | nil => rfl
  | cons p ps ih => simp [applyPieces, List.foldl_cons] at *; rw [ih]; simp

theorem getElem?_applyPieces : ∀ (ps : List Piece) (buf : Bytes),
    (∀ p ∈ ps, p.1 + p.2.length ≤ buf.length) → ps.Pairwise disj → ∀ i,
    (applyPieces buf ps)[i]? = match ps.find? (covers i) with
      | some p => p.2[i - p.1]?
      | none => buf[i]?
  | [], buf, _, _, i => by simp [applyPieces]
  | p :: ps, buf, hfit, hd, i => by
    have hp := hfit p (by simp)
    have ih := getElem?_applyPieces ps (writeAt buf p.1 p.2)
      (fun q hq => by simpa using hfit q (by simp [hq])) (List.pairwise_cons.1 hd).2 i
    have happ : applyPieces buf (p :: ps) = applyPieces (writeAt buf p.1 p.2) ps := rfl
    rw [happ, ih, List.find?_cons]
    by_cases hc : covers i p = true
    · have hnone : ps.find? (covers i) = none := by
        rw [List.find?_eq_none]
        intro q hq hcq
        have hdq := (List.pairwise_cons.1 hd).1 q hq
        simp only [covers, Bool.and_eq_true, decide_eq_true_eq] at hc hcq
        unfold disj at hdq; omega
      simp only [hc, hnone]
      rw [getElem?_writeAt _ _ _ _ hp]
      simp only [covers, Bool.and_eq_true, decide_eq_true_eq] at hc
      simp [hc]
    · have hc' : covers i p = false := by simpa using hc
      simp only [hc']
      cases hf : ps.find? (covers i) with
      | some q => rfl
      | none =>
        simp only
        rw [getElem?_writeAt _ _ _ _ hp]
        simp only [covers, Bool.and_eq_false_iff, decide_eq_false_iff_not] at hc'
        have : ¬ (p.1 ≤ i ∧ i < p.1 + p.2.length) := by omega
        simp [this]

/-- the initial buffer of `Marshal` -/
def initBuf : Bytes := (zeros 64).set 0 0x17

theorem initBuf_get (i : Nat) (h : i < 64) : initBuf[i]? = some (if i = 0 then 0x17 else 0) := by
  unfold initBuf zeros
  by_cases h0 : i = 0
  · subst h0; simp
  · rw [List.getElem?_set_ne (by omega), List.getElem?_replicate]
    simp [h0, h]

/-- sequential disjoint in-bounds writes into the initial buffer = the position-wise image -/
theorem applyPieces_image (ps : List Piece) (hfit : ∀ p ∈ ps, p.1 + p.2.length ≤ 64) (hd : ps.Pairwise disj) :
    applyPieces initBuf ps = (List.range 64).map (imageByte ps) := by
  have hlen : initBuf.length = 64 := by simp [initBuf]
  apply List.ext_getElem?
  intro i
  rw [getElem?_applyPieces ps initBuf (by simpa [hlen] using hfit) hd i]
  by_cases hi : i < 64
  · have hr : ((List.range 64).map (imageByte ps))[i]? = some (imageByte ps i) := by
      simp [hi]
    rw [hr]
    unfold imageByte
    have hfind : ps.find? (fun (x : Nat × Bytes) => match x with | (o, b) => decide (o ≤ i) && decide (i < o + b.length))
        = ps.find? (covers i) := by
      congr 1
    rw [hfind]
    cases hf : ps.find? (covers i) with
    | some p =>
      have hc := List.find?_some hf
      simp only [covers, Bool.and_eq_true, decide_eq_true_eq] at hc
      simp only
      rw [List.getD_eq_getElem?_getD, List.getElem?_eq_getElem (by omega)]
      simp
    | none => simp only; exact initBuf_get i hi
  · have hr : ((List.range 64).map (imageByte ps))[i]? = none := by simp; omega
    rw [hr]
    cases hf : ps.find? (covers i) with
    | some p =>
      have hc := List.find?_some hf
      have hm := List.mem_of_find?_eq_some hf
      have := hfit p hm
      simp only [covers, Bool.and_eq_true, decide_eq_true_eq] at hc
      omega
    | none => simp only; rw [List.getElem?_eq_none (by omega)]

/-- the model's field-by-field walk is the fold of the specification's pieces -/
theorem marshalLeaves_pieces : ∀ (ls : List Leaf) (vs : List Val) (ps : List Piece) (buf : Bytes),
    buf.length = 64 → pieces ls vs = some ps → (∀ p ∈ ps, p.1 + p.2.length ≤ 64) →
    marshalLeaves goodFacts BCD.canonical ls vs buf = .ok (applyPieces buf ps)
  | [], [], ps, buf, _, h, _ => by simp [pieces] at h; subst h; rfl
  | [], _ :: _, _, _, _, h, _ => by simp [pieces] at h
  | _ :: _, [], _, _, _, h, _ => by simp [pieces] at h
  | l :: ls, v :: vs, ps, buf, hb, h, hfit => by
    simp only [pieces] at h
    cases hw : leafWire l v with
    | none => simp [hw] at h
    | some p =>
      cases hr : pieces ls vs with
      | none => simp [hw, hr] at h
      | some ps' =>
        simp only [hw, hr, Option.some.injEq] at h
        subst h
        obtain ⟨o, b⟩ := p
        have h1 := marshalLeaf_wire buf hb l v o b hw (hfit (o, b) (by simp))
        simp only [marshalLeaves, h1]
        exact marshalLeaves_pieces ls vs ps' _ (by simp [hb]) hr (fun q hq => hfit q (by simp [hq]))

end Uhppote.Proofs.Codec

namespace Uhppote.Proofs.Codec
open Uhppote Uhppote.Model Uhppote.Spec.Codec

theorem wire_length (k : Kind) (v : Val) (b : Bytes) (h : wire k v = some b) : b.length ≤ k.width := by
  unfold wire at h
  split at h
  all_goals (repeat' (split at h))
  all_goals (first | (cases h; done) | skip)
  all_goals (cases h)
  all_goals (first
    | (simp [Kind.width, bcdDate, bcdDateTime]; done)
    | (simp [Kind.width]; omega)
    | (simp_all [Kind.width]; done)
    | (simp_all [Kind.width]; omega))


/-- a piece stays inside the range its leaf owns -/
def within (p : Piece) (l : Leaf) : Prop :=
  match extent l with
  | some (o, w) => p.1 = o ∧ p.2.length ≤ w
  | none => p = (0, [])

theorem leafWire_within (l : Leaf) (v : Val) (p : Piece) (h : leafWire l v = some p) : within p l := by
  obtain ⟨o, b⟩ := p
  cases l with
  | skip => simp only [leafWire] at h; cases h; rfl
  | som tag =>
    cases tag with
    | none => cases v <;> simp only [leafWire] at h <;> (try cases h); simp [within, extent]
    | some t =>
      simp only [leafWire, Option.map_eq_some_iff] at h
      obtain ⟨n, _, he⟩ := h; cases he; simp [within, extent]
  | msgType tag =>
    cases tag with
    | none => cases v <;> simp only [leafWire] at h <;> (try cases h); simp [within, extent]
    | some t =>
      simp only [leafWire, Option.map_eq_some_iff] at h
      obtain ⟨n, _, he⟩ := h; cases he; simp [within, extent]
  | «at» off k tag =>
    by_cases hk : k ≠ .u8 ∨ tag = none
    · obtain ⟨h1, rfl⟩ := leafWire_at off tag v o b k hk h
      exact ⟨rfl, wire_length k v b h1⟩
    · have hk' : k = .u8 ∧ tag ≠ none := by
        constructor
        · apply Classical.byContradiction; intro hc; exact hk (Or.inl hc)
        · intro hc; exact hk (Or.inr hc)
      obtain ⟨rfl, ht⟩ := hk'
      cases tag with
      | none => exact absurd rfl ht
      | some t =>
        simp only [leafWire, Option.map_eq_some_iff] at h
        obtain ⟨n, _, he⟩ := h; cases he; simp [within, extent, Kind.width]

theorem pieces_within : ∀ (ls : List Leaf) (vs : List Val) (ps : List Piece), pieces ls vs = some ps →
    ∀ q ∈ ps, ∃ l ∈ ls, within q l
  | [], [], ps, h, q, hq => by simp [pieces] at h; subst h; simp at hq
  | [], _ :: _, _, h, _, _ => by simp [pieces] at h
  | _ :: _, [], _, h, _, _ => by simp [pieces] at h
  | l :: ls, v :: vs, ps, h, q, hq => by
    simp only [pieces] at h
    cases hw : leafWire l v with
    | none => simp [hw] at h
    | some p =>
      cases hr : pieces ls vs with
      | none => simp [hw, hr] at h
      | some ps' =>
        simp only [hw, hr, Option.some.injEq] at h
        subst h
        rcases List.mem_cons.1 hq with rfl | hq'
        · exact ⟨l, by simp, leafWire_within l v _ hw⟩
        · obtain ⟨l', hl', hwi⟩ := pieces_within ls vs ps' hr q hq'
          exact ⟨l', by simp [hl'], hwi⟩

theorem pieces_ok : ∀ (ls : List Leaf) (vs : List Val) (ps : List Piece), pieces ls vs = some ps →
    (∀ e ∈ ls.filterMap extent, e.1 + e.2 ≤ 64) → rangesDisjoint (ls.filterMap extent) = true →
    (∀ p ∈ ps, p.1 + p.2.length ≤ 64) ∧ ps.Pairwise disj
  | [], [], ps, h, _, _ => by simp [pieces] at h; subst h; simp
  | [], _ :: _, _, h, _, _ => by simp [pieces] at h
  | _ :: _, [], _, h, _, _ => by simp [pieces] at h
  | l :: ls, v :: vs, ps, h, hfit, hdis => by
    simp only [pieces] at h
    cases hw : leafWire l v with
    | none => simp [hw] at h
    | some p =>
      cases hr : pieces ls vs with
      | none => simp [hw, hr] at h
      | some ps' =>
        simp only [hw, hr, Option.some.injEq] at h
        subst h
        have hwi := leafWire_within l v p hw
        cases he : extent l with
        | none =>
          simp only [List.filterMap_cons, he] at hfit hdis
          obtain ⟨ih1, ih2⟩ := pieces_ok ls vs ps' hr hfit hdis
          simp only [within, he] at hwi
          subst hwi
          refine ⟨?_, List.pairwise_cons.2 ⟨?_, ih2⟩⟩
          · intro q hq
            rcases List.mem_cons.1 hq with rfl | hq'
            · simp
            · exact ih1 q hq'
          · intro q _; left; simp
        | some e =>
          obtain ⟨o, w⟩ := e
          simp only [List.filterMap_cons, he] at hfit hdis
          simp only [rangesDisjoint, Bool.and_eq_true, List.all_eq_true] at hdis
          obtain ⟨ih1, ih2⟩ := pieces_ok ls vs ps' hr (fun e he => hfit e (by simp [he])) hdis.2
          simp only [within, he] at hwi
          have hfo := hfit (o, w) (by simp)
          refine ⟨?_, List.pairwise_cons.2 ⟨?_, ih2⟩⟩
          · intro q hq
            rcases List.mem_cons.1 hq with rfl | hq'
            · simp only at hfo; omega
            · exact ih1 q hq'
          · intro q hq
            obtain ⟨l', hl', hq'⟩ := pieces_within ls vs ps' hr q hq
            unfold disj
            cases he' : extent l' with
            | none => simp only [within, he'] at hq'; subst hq'; right; simp
            | some e' =>
              obtain ⟨o', w'⟩ := e'
              simp only [within, he'] at hq'
              have hmem : (o', w') ∈ ls.filterMap extent := by
                rw [List.mem_filterMap]; exact ⟨l', hl', he'⟩
              have := hdis.1 (o', w') hmem
              simp only [Bool.or_eq_true, decide_eq_true_eq] at this
              omega

/-- **marshal = image**: for every well-formed layout and every tuple of in-domain values the
    model of `Marshal` returns exactly the specification's image and does not panic -/
theorem marshal_image (L : Layout) (vs : List Val) (img : Bytes)
    (hwf : wf L.leaves = true) (himg : image L.leaves vs = some img) :
    marshal goodFacts BCD.canonical L vs = .ok img := by
  unfold image at himg
  rw [Option.map_eq_some_iff] at himg
  obtain ⟨ps, hps, rfl⟩ := himg
  simp only [wf, Bool.and_eq_true, List.all_eq_true] at hwf
  obtain ⟨hfit, hdis⟩ := pieces_ok L.leaves vs ps hps
    (fun e he => by have := hwf.1.1.1 e he; simpa using this) hwf.1.1.2
  unfold marshal
  have hinit : (zeros goodFacts.bufLen).set 0 (UInt8.ofNat goodFacts.somDefault) = initBuf := rfl
  rw [hinit, marshalLeaves_pieces L.leaves vs ps initBuf (by simp [initBuf]) hps hfit,
    applyPieces_image ps hfit hdis]

end Uhppote.Proofs.Codec
