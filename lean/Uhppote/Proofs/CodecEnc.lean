import Uhppote.Model.Codec
import Uhppote.Spec.Codec
import Uhppote.Proofs.BCD
/-! Per-kind encoder lemmas: the model's `MarshalUT0311L0x` functions (Format + BCD loop,
    binary.PutUint…) produce the arithmetic wire bytes of the specification. -/
set_option linter.unusedSimpArgs false
namespace Uhppote.Proofs.Codec
open Uhppote Uhppote.Model Uhppote.Spec.Codec

/-- two ASCII digits of n (n mod 100) -/
def two (n : Nat) : Bytes := [digitChar (n / 10), digitChar n]

theorem digitChar_toNat (n : Nat) : (digitChar n).toNat = 48 + n % 10 := by
  unfold digitChar; rw [UInt8.toNat_ofNat']; omega

theorem digitChar_isDigit (n : Nat) : Spec.BCD.isDigit (digitChar n) = true := by
  simp [Spec.BCD.isDigit, digitChar_toNat]; omega

theorem digitChar_congr (a b : Nat) (h : a % 10 = b % 10) : digitChar a = digitChar b := by
  unfold digitChar; rw [h]

theorem fmt2_eq (n : Nat) (h : n < 100) : fmt2 n = two n := by simp [fmt2, two, h]

theorem fmt4_eq (y : Nat) (h : y < 10000) : fmt4 y = two (y / 100) ++ two (y % 100) := by
  simp only [fmt4, h, if_true, two, List.cons_append, List.nil_append]
  rw [digitChar_congr (y / 1000) (y / 100 / 10) (by omega), digitChar_congr (y / 10) (y % 100 / 10) (by omega),
    digitChar_congr y (y % 100) (by omega)]

theorem flatMap_two_even (gs : List Nat) : (gs.flatMap two).length % 2 = 0 := by
  induction gs with
  | nil => rfl
  | cons g r ih => simp [two, List.flatMap_cons] at *; omega

theorem flatMap_two_digits (gs : List Nat) : (gs.flatMap two).all Spec.BCD.isDigit = true := by
  induction gs with
  | nil => rfl
  | cons g r ih => simp [two, List.flatMap_cons, digitChar_isDigit] at *; try exact ih

theorem pack_flatMap_two (gs : List Nat) : Spec.BCD.pack (gs.flatMap two) = gs.map bcd2 := by
  induction gs with
  | nil => rfl
  | cons g r ih =>
    simp only [List.flatMap_cons, two, List.cons_append, List.nil_append, Spec.BCD.pack, List.map_cons, ih]
    congr 1
    unfold bcd2
    rw [digitChar_toNat, digitChar_toNat]
    congr 1
    omega

/-- BCD-encoding a string made of two-digit groups gives one `bcd2` byte per group -/
theorem bcd_encode_groups (gs : List Nat) :
    BCD.encode BCD.canonical (gs.flatMap two) = some (gs.map bcd2) := by
  rw [Proofs.BCD.encode_model_eq_spec]
  unfold Spec.BCD.encode
  rw [flatMap_two_digits]
  simp only [if_true]
  have : Spec.BCD.pad (gs.flatMap two) = gs.flatMap two := by
    unfold Spec.BCD.pad
    rw [flatMap_two_even]; simp
  rw [this, pack_flatMap_two]

theorem encDate_some (d : YMD) (h : d.y < 10000 ∧ d.m < 100 ∧ d.d < 100) :
    encDate BCD.canonical (some d) = some (bcdDate d) := by
  simp only [encDate]
  rw [fmt4_eq _ h.1, fmt2_eq _ h.2.1, fmt2_eq _ h.2.2]
  have := bcd_encode_groups [d.y / 100, d.y % 100, d.m, d.d]
  simp only [List.flatMap_cons, List.flatMap_nil, List.append_nil, List.map_cons, List.map_nil, List.append_assoc] at this
  simp only [List.append_assoc]; rw [this]; simp [bcdDate, fitting]

theorem encDateTime_some (d : YMDHMS)
    (h : d.y < 10000 ∧ d.mo < 100 ∧ d.d < 100 ∧ d.h < 100 ∧ d.mi < 100 ∧ d.s < 100) :
    encDateTime BCD.canonical (some d) = some (bcdDateTime d) := by
  simp only [encDateTime]
  rw [fmt4_eq _ h.1, fmt2_eq _ h.2.1, fmt2_eq _ h.2.2.1, fmt2_eq _ h.2.2.2.1, fmt2_eq _ h.2.2.2.2.1, fmt2_eq _ h.2.2.2.2.2]
  have := bcd_encode_groups [d.y / 100, d.y % 100, d.mo, d.d, d.h, d.mi, d.s]
  simp only [List.flatMap_cons, List.flatMap_nil, List.append_nil, List.map_cons, List.map_nil, List.append_assoc] at this
  simp only [List.append_assoc]; rw [this]; simp [bcdDateTime, fitting]

theorem encDateTime_none : encDateTime BCD.canonical none = some [0x00, 0x01, 0x01, 0x01, 0, 0, 0] := by
  decide

theorem encSysDate_some (d : YMD) (h : d.m < 100 ∧ d.d < 100) :
    encSysDate BCD.canonical (some d) = some [bcd2 (d.y % 100), bcd2 d.m, bcd2 d.d] := by
  simp only [encSysDate]
  rw [fmt2_eq _ (by omega), fmt2_eq _ h.1, fmt2_eq _ h.2]
  have := bcd_encode_groups [d.y % 100, d.m, d.d]
  simp only [List.flatMap_cons, List.flatMap_nil, List.append_nil, List.map_cons, List.map_nil, List.append_assoc] at this
  simpa using this

theorem encSysTime_eq (t : HMS) (h : t.h < 100 ∧ t.m < 100 ∧ t.s < 100) :
    encSysTime BCD.canonical t = some [bcd2 t.h, bcd2 t.m, bcd2 t.s] := by
  unfold encSysTime
  rw [fmt2_eq _ h.1, fmt2_eq _ h.2.1, fmt2_eq _ h.2.2]
  have := bcd_encode_groups [t.h, t.m, t.s]
  simp only [List.flatMap_cons, List.flatMap_nil, List.append_nil, List.map_cons, List.map_nil, List.append_assoc] at this
  simpa using this

theorem encHHmm_eq (t : HM) (h : 0 ≤ t.h ∧ t.h < 100 ∧ 0 ≤ t.m ∧ t.m < 100) :
    encHHmm BCD.canonical t = some [bcd2 t.h.toNat, bcd2 t.m.toNat] := by
  unfold encHHmm
  have h1 : fmt2i t.h = two t.h.toNat := by
    unfold fmt2i; rw [if_neg (by omega), fmt2_eq _ (by omega)]
  have h2 : fmt2i t.m = two t.m.toNat := by
    unfold fmt2i; rw [if_neg (by omega), fmt2_eq _ (by omega)]
  rw [h1, h2]
  have := bcd_encode_groups [t.h.toNat, t.m.toNat]
  simp only [List.flatMap_cons, List.flatMap_nil, List.append_nil, List.map_cons, List.map_nil, List.append_assoc] at this
  rw [this]; simp [fitting]

theorem ofNat_mod (n : Nat) : UInt8.ofNat (n % 256) = UInt8.ofNat n := by
  apply UInt8.toNat_inj.1; simp [UInt8.toNat_ofNat']

end Uhppote.Proofs.Codec

namespace Uhppote.Proofs.Codec
open Uhppote Uhppote.Model Uhppote.Spec.Codec

theorem parseDigits_lt (base : Nat) : ∀ (cs : List Char) (acc n : Nat),
    parseDigits base cs acc = some n → True := fun _ _ _ _ => trivial

theorem parseBase0_hex (r : List Char) (hr : r.isEmpty = false) :
    parseBase0 ('0' :: 'x' :: r) = parseDigits 16 r 0 ∧ parseBase0 ('0' :: 'X' :: r) = parseDigits 16 r 0 := by
  simp [parseBase0, hr]

theorem parseBase0_fall (cs : List Char) (h : ∀ tail, cs = '0' :: tail → False) :
    parseBase0 cs = parseDigits 10 cs 0 := by
  unfold parseBase0
  split <;> first | rfl | (exfalso; exact h _ rfl)

theorem fits8_bind (o : Option Nat) : fits8 o = o.bind fun n => if n < 256 then some n else none := by
  cases o <;> rfl

/-- on the tag grammar of the property (plain decimal / 0x hex) Go's base-0 `ParseUint` gives
    the denoted number -/
theorem parseUint8_of_tagValue (t : String) (n : Nat) (h : tagValue t = some n) :
    parseUint8 0 t = some n := by
  unfold tagValue at h
  unfold parseUint8
  split at h
  · rename_i r heq
    split at h
    · cases h
    · rename_i hr
      have hr' : r.isEmpty = false := by simpa using hr
      simp [heq, (parseBase0_hex r hr').1, fits8_bind, h]
  · rename_i r heq
    split at h
    · cases h
    · rename_i hr
      have hr' : r.isEmpty = false := by simpa using hr
      simp [heq, (parseBase0_hex r hr').2, fits8_bind, h]
  · rename_i heq
    cases h
    simp [heq, parseBase0, fits8]
  · cases h
  · rename_i cs h1 h2 h3 h4
    split at h
    · cases h
    · rename_i hcs
      have hne : t.toList.isEmpty = false := by
        cases hl : t.toList with
        | nil => simp [hl] at hcs
        | cons a b => rfl
      simp [hne, parseBase0_fall _ h4, fits8_bind, h]

end Uhppote.Proofs.Codec
