import Uhppote.Model.Api
/-! What a read into a receive buffer makes of a datagram (generic lemmas for C03 C10 C11). -/
namespace Uhppote.Proofs.Buffers
open Uhppote Uhppote.Model Uhppote.Model.Api

def passes (serial : Nat) (d : Bytes) : Bool := d.length == 64 && serialOf d == serial

/-- with a buffer of more than 64 bytes the datagram the library looks at is 64 bytes long exactly
    when the datagram on the wire is, it then is that datagram, and it passes the broadcast filter
    exactly when the datagram on the wire does -/
theorem length_visible (n : Nat) (h : 64 < n) (S : Nat) (d : Bytes) :
    ((received n d).length = 64 ↔ d.length = 64) ∧ (d.length = 64 → received n d = d) ∧
    passes S (received n d) = passes S d := by
  have h1 : (received n d).length = 64 ↔ d.length = 64 := by
    unfold received; rw [List.length_take]; omega
  have h2 : d.length = 64 → received n d = d := by
    intro hd; simp only [received]; exact List.take_of_length_le (by omega)
  refine ⟨h1, h2, ?_⟩
  unfold passes
  by_cases hd : d.length = 64
  · rw [h2 hd]
  · have hr : ¬ (received n d).length = 64 := fun hc => hd (h1.1 hc)
    have e1 : ((received n d).length == 64) = false := by simpa using hr
    have e2 : (d.length == 64) = false := by simpa using hd
    rw [e1, e2]; rfl

/-- … and the witness that a buffer of exactly 64 bytes would hide the excess: a 65-byte datagram
    whose first 64 bytes pass as S's is then taken for a reply of S -/
theorem buffer64_hides : ∃ d : Bytes, d.length = 65 ∧ passes 0 d = false ∧ passes 0 (received 64 d) = true :=
  ⟨zeros 65, by decide, by decide, by decide⟩


end Uhppote.Proofs.Buffers
