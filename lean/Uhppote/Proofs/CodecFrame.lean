import Uhppote.Model.Codec
/-! Frame: the result of `unmarshal` depends only on the length, the two header bytes and the
    bytes inside the ranges of the layout's fields. -/
namespace Uhppote.Proofs.Codec
open Uhppote Uhppote.Model

/-- byte positions a layout reads: the header and every field's range -/
def Reads (ls : List Leaf) (i : Nat) : Prop :=
  i < 2 ∨ ∃ l ∈ ls, match l with
    | .at off k _ => off ≤ i ∧ i < off + k.width
    | _ => False

variable (F : CodecFacts) (T : BCD.Tables) (B : HHmmBounds)

theorem getD_of_getElem? (b1 b2 : Bytes) (i : Nat) (h : b1[i]? = b2[i]?) : b1.getD i 0 = b2.getD i 0 := by
  simp [List.getD, h]

theorem unmarshalLeaf_frame (b1 b2 : Bytes) (hlen : b1.length = b2.length) (l : Leaf)
    (h : ∀ i, Reads [l] i → b1[i]? = b2[i]?) : unmarshalLeaf F T B b1 l = unmarshalLeaf F T B b2 l := by
  cases l with
  | skip => rfl
  | som t => rfl
  | msgType t =>
    have h1 := getD_of_getElem? b1 b2 1 (h 1 (Or.inl (by omega)))
    simp only [unmarshalLeaf, h1]
  | «at» off k tag =>
    have hr : readAt b1 off k.width = readAt b2 off k.width :=
      readAt_congr b1 b2 off k.width (fun i h1 h2 => h i (Or.inr ⟨.at off k tag, by simp, (⟨h1, h2⟩ : off ≤ i ∧ i < off + k.width)⟩))
    simp only [unmarshalLeaf, hlen, hr]
    by_cases hw : 0 < k.width
    · have h0 := getD_of_getElem? b1 b2 off (h off (Or.inr ⟨.at off k tag, by simp, (⟨Nat.le_refl _, by omega⟩ : off ≤ off ∧ off < off + k.width)⟩))
      simp only [h0]
    · have : k.width = 0 := by omega
      cases k <;> simp [Kind.width] at this

theorem reads_mono {ls ls' : List Leaf} (hsub : ∀ l ∈ ls, l ∈ ls') (i : Nat) (h : Reads ls i) : Reads ls' i := by
  rcases h with h | ⟨l, hl, hm⟩
  · exact Or.inl h
  · exact Or.inr ⟨l, hsub l hl, hm⟩

theorem unmarshalLeaves_frame (b1 b2 : Bytes) (hlen : b1.length = b2.length) :
    ∀ (ls : List Leaf), (∀ i, Reads ls i → b1[i]? = b2[i]?) →
      unmarshalLeaves F T B b1 ls = unmarshalLeaves F T B b2 ls
  | [], _ => rfl
  | l :: ls, h => by
    have h1 := unmarshalLeaf_frame F T B b1 b2 hlen l (fun i hi => h i (reads_mono (by simp) i hi))
    have ih := unmarshalLeaves_frame b1 b2 hlen ls (fun i hi => h i (reads_mono (fun x hx => by simp [hx]) i hi))
    simp only [unmarshalLeaves, h1, ih]

theorem unmarshalFields_frame (b1 b2 : Bytes) (hlen : b1.length = b2.length) :
    ∀ (L : List Field), (∀ i, Reads (Layout.leaves L) i → b1[i]? = b2[i]?) →
      unmarshalFields F T B b1 L = unmarshalFields F T B b2 L
  | [], _ => rfl
  | .leaf _ l :: fs, h => by
    have hsub1 : ∀ x ∈ [l], x ∈ Layout.leaves (Field.leaf ‹String› l :: fs) := by
      intro x hx; simp [Layout.leaves, Field.leaves] at *; exact Or.inl hx
    have hsub2 : ∀ x ∈ Layout.leaves fs, x ∈ Layout.leaves (Field.leaf ‹String› l :: fs) := by
      intro x hx; simp only [Layout.leaves, List.flatMap_cons, List.mem_append]; exact Or.inr hx
    have h1 := unmarshalLeaf_frame F T B b1 b2 hlen l (fun i hi => h i (reads_mono hsub1 i hi))
    have ih := unmarshalFields_frame b1 b2 hlen fs (fun i hi => h i (reads_mono hsub2 i hi))
    simp only [unmarshalFields, h1, ih]
  | .embed _ ls :: fs, h => by
    have hsub1 : ∀ x ∈ ls.map (·.2), x ∈ Layout.leaves (Field.embed ‹String› ls :: fs) := by
      intro x hx; simp only [Layout.leaves, List.flatMap_cons, Field.leaves, List.mem_append]; exact Or.inl hx
    have hsub2 : ∀ x ∈ Layout.leaves fs, x ∈ Layout.leaves (Field.embed ‹String› ls :: fs) := by
      intro x hx; simp only [Layout.leaves, List.flatMap_cons, List.mem_append]; exact Or.inr hx
    have h1 := unmarshalLeaves_frame F T B b1 b2 hlen _ (fun i hi => h i (reads_mono hsub1 i hi))
    have ih := unmarshalFields_frame b1 b2 hlen fs (fun i hi => h i (reads_mono hsub2 i hi))
    simp only [unmarshalFields, h1, ih]

/-- **frame**: two buffers of equal length that agree on the header and on every field's range
    decode to the same outcome -/
theorem unmarshal_frame (L : Layout) (b1 b2 : Bytes) (hlen : b1.length = b2.length)
    (h : ∀ i, Reads L.leaves i → b1[i]? = b2[i]?) : unmarshal F T B L b1 = unmarshal F T B L b2 := by
  have h0 := getD_of_getElem? b1 b2 0 (h 0 (Or.inl (by omega)))
  have h1 := getD_of_getElem? b1 b2 1 (h 1 (Or.inl (by omega)))
  unfold unmarshal
  rw [hlen, h0, h1, unmarshalFields_frame F T B b1 b2 hlen L h]

end Uhppote.Proofs.Codec
