import Uhppote.Proofs.CodecImage
/-! Values OUTSIDE their kind's domain (a MAC of 8 bytes, a date past year 9999, an HH:mm of 100 hours, an address
    that is not IPv4): the model of `Marshal` never panics on a well-formed layout, and whatever it makes of such a
    value stays inside the byte range that field owns - every other position of the result is what the image rule
    says (`Spec.Codec.confined`). -/
set_option linter.unusedSimpArgs false
set_option linter.unusedVariables false
namespace Uhppote.Proofs.Codec
open Uhppote Uhppote.Model Uhppote.Spec.Codec

/-- what a Go variable of the field's type can hold: `SystemDate` and `SystemTime` wrap a `time.Time`, so their
    month, day, hour, minute and second are calendar values (the model's records are wider); every other value of
    every other kind is allowed -/
def goValue : Val → Bool
  | .sysDate (some d) => decide (d.m < 100) && decide (d.d < 100)
  | .sysTime t => decide (t.h < 100) && decide (t.m < 100) && decide (t.s < 100)
  | _ => true

/-- outcome of one leaf writer: an error, or the buffer with some bytes written inside the leaf's own range -/
def okWithin (buf : Bytes) (l : Leaf) : Outcome Bytes → Prop
  | .err => True
  | .panic => False
  | .ok out => ∃ p : Piece, within p l ∧ out = writeAt buf p.1 p.2

theorem okWithin_refl (buf : Bytes) (l : Leaf) : okWithin buf l (.ok buf) := by
  cases he : extent l with
  | none => exact ⟨(0, []), by simp [within, he], rfl⟩
  | some e => obtain ⟨o, w⟩ := e; exact ⟨(o, []), by simp [within, he], rfl⟩

theorem okWithin_write (buf : Bytes) (l : Leaf) (o w : Nat) (b : Bytes) (he : extent l = some (o, w))
    (hb : b.length ≤ w) : okWithin buf l (.ok (writeAt buf o b)) :=
  ⟨(o, b), by simp [within, he, hb], rfl⟩

theorem okWithin_copyAt (buf : Bytes) (hl : buf.length = 64) (l : Leaf) (o w : Nat) (b : Bytes)
    (he : extent l = some (o, w)) (hb : b.length ≤ w) (hfit : o + w ≤ 64) : okWithin buf l (copyAt buf o b) := by
  rw [copyAt_eq _ _ _ (by omega)]; exact okWithin_write buf l o w b he hb

theorem okWithin_setAt (buf : Bytes) (hl : buf.length = 64) (l : Leaf) (o w : Nat) (x : UInt8)
    (he : extent l = some (o, w)) (hw : 1 ≤ w) (hfit : o + w ≤ 64) : okWithin buf l (setAt buf o x) := by
  rw [setAt_eq _ _ _ (by omega)]; exact okWithin_write buf l o w [x] he (by simpa using hw)

theorem fitting_length (n : Nat) (b c : Bytes) (h : fitting n b = some c) : c.length = n := by
  unfold fitting at h; split at h
  · cases h; assumption
  · cases h

theorem bind_fitting_length (n : Nat) (x : Option Bytes) (c : Bytes) (h : x.bind (fitting n) = some c) :
    c.length = n := by
  cases x with
  | none => cases h
  | some b => exact fitting_length n b c h

/-- every type's own encoder returns exactly the width of its field, for every value a Go variable can hold -/
theorem encMarshaler_width (k : Kind) (v : Val) (b : Bytes) (hg : goValue v = true)
    (h : encMarshaler BCD.canonical k v = some (some b)) : b.length ≤ k.width := by
  cases k <;> cases v <;> simp only [encMarshaler] at h <;> (try cases h)
  case serial.u32 n => simp [le32, Kind.width]
  case date.date d =>
    cases d with
    | none => simp only [encDate, Option.some.injEq] at h; cases h; simp [Kind.width]
    | some d =>
      simp only [encDate, Option.some.injEq] at h
      rw [bind_fitting_length 4 _ b h]; simp [Kind.width]
  case datePtr.datePtr d =>
    cases d with
    | none => cases h
    | some d =>
      simp only [Option.some.injEq] at h
      cases d with
      | none => simp only [encDate, Option.some.injEq] at h; cases h; simp [Kind.width]
      | some d =>
        simp only [encDate] at h
        rw [bind_fitting_length 4 _ b h]; simp [Kind.width]
  case dateTime.dateTime d =>
    simp only [Option.some.injEq] at h
    cases d <;> (simp only [encDateTime] at h; rw [bind_fitting_length 7 _ b h]; simp [Kind.width])
  case dateTimePtr.dateTimePtr d =>
    cases d with
    | none => cases h
    | some d =>
      simp only [Option.some.injEq] at h
      cases d <;> (simp only [encDateTime] at h; rw [bind_fitting_length 7 _ b h]; simp [Kind.width])
  case sysDate.sysDate d =>
    simp only [Option.some.injEq] at h
    cases d with
    | none =>
      have : encSysDate BCD.canonical none = some [0x01, 0x01, 0x01] := by decide
      rw [this] at h; cases h; simp [Kind.width]
    | some d =>
      simp only [goValue, Bool.and_eq_true, decide_eq_true_eq] at hg
      rw [encSysDate_some d hg] at h; cases h; simp [Kind.width]
  case sysTime.sysTime t =>
    simp only [Option.some.injEq] at h
    simp only [goValue, Bool.and_eq_true, decide_eq_true_eq] at hg
    rw [encSysTime_eq t ⟨hg.1.1, hg.1.2, hg.2⟩] at h; cases h; simp [Kind.width]
  case hhmm.hhmm t =>
    simp only [Option.some.injEq, encHHmm] at h
    rw [bind_fitting_length 2 _ b h]; simp [Kind.width]
  case hhmmPtr.hhmmPtr t =>
    cases t with
    | none => cases h
    | some t =>
      simp only [Option.some.injEq, encHHmm] at h
      rw [bind_fitting_length 2 _ b h]; simp [Kind.width]
  case pin.u32 n => simp [encPIN, le32, Kind.width]
  case version.u16 n => simp [be16, Kind.width]
  case macAddress.mac bs => simp [encMac, Kind.width, zeros]


/-- ANY value: the writer of a leaf whose range lies inside the message fails with an error or writes inside the
    range the leaf owns - it never panics and never reaches beyond its field -/
theorem marshalLeaf_general (buf : Bytes) (hl : buf.length = 64) (l : Leaf) (v : Val) (hg : goValue v = true)
    (hfit : ∀ o w, extent l = some (o, w) → o + w ≤ 64) :
    okWithin buf l (marshalLeaf goodFacts BCD.canonical buf l v) := by
  cases l with
  | skip => exact okWithin_refl buf _
  | som tag =>
    have hf := hfit 0 1 rfl
    cases tag with
    | none =>
      cases v <;> simp only [marshalLeaf] <;>
        first | exact okWithin_refl buf _ | exact okWithin_setAt buf hl _ 0 1 _ rfl (by omega) hf
    | some t =>
      have : marshalLeaf goodFacts BCD.canonical buf (.som (some t)) v =
          match parseUint8 goodFacts.headerValueBase t with
          | none => .err
          | some n => setAt buf 0 (UInt8.ofNat n) := by cases v <;> rfl
      rw [this]
      cases parseUint8 goodFacts.headerValueBase t with
      | none => trivial
      | some n => exact okWithin_setAt buf hl _ 0 1 _ rfl (by omega) hf
  | msgType tag =>
    have hf := hfit 1 1 rfl
    cases tag with
    | none =>
      cases v <;> simp only [marshalLeaf] <;>
        first | exact okWithin_refl buf _ | exact okWithin_setAt buf hl _ 1 1 _ rfl (by omega) hf
    | some t =>
      have : marshalLeaf goodFacts BCD.canonical buf (.msgType (some t)) v =
          match parseUint8 goodFacts.headerValueBase t with
          | none => .err
          | some n => setAt buf 1 (UInt8.ofNat n) := by cases v <;> rfl
      rw [this]
      cases parseUint8 goodFacts.headerValueBase t with
      | none => trivial
      | some n => exact okWithin_setAt buf hl _ 1 1 _ rfl (by omega) hf
  | «at» off k tag =>
    have hf := hfit off k.width rfl
    have he : extent (.at off k tag) = some (off, k.width) := rfl
    have hmar : k.isMarshaler = true → okWithin buf (.at off k tag) (marshalLeaf goodFacts BCD.canonical buf (.at off k tag) v) := by
      intro hm
      simp only [marshalLeaf, hm, if_true]
      cases henc : encMarshaler BCD.canonical k v with
      | none => exact okWithin_refl buf _
      | some ob =>
        cases ob with
        | none => exact okWithin_refl buf _
        | some b =>
          exact okWithin_copyAt buf hl _ off k.width b he (encMarshaler_width k v b hg henc) hf
    cases k with
    | u8 =>
      cases tag with
      | some t =>
        simp only [marshalLeaf, Kind.isMarshaler, Bool.false_eq_true, if_false]
        cases parseUint8 goodFacts.byteValueBase t with
        | none => trivial
        | some n => exact okWithin_setAt buf hl _ off 1 _ he (by omega) hf
      | none =>
        cases v <;> simp only [marshalLeaf, Kind.isMarshaler, Bool.false_eq_true, if_false] <;>
          first | exact okWithin_refl buf _ | exact okWithin_setAt buf hl _ off 1 _ he (by omega) hf
    | u16 =>
      cases v <;> simp only [marshalLeaf, Kind.isMarshaler, Bool.false_eq_true, if_false] <;>
        first
        | exact okWithin_refl buf _
        | (have hc : off + goodFacts.u16WriteSlice ≤ buf.length ∧ 2 ≤ goodFacts.u16WriteSlice := by
             simp only [goodFacts, Kind.width] at hf ⊢; omega
           rw [if_pos hc]
           exact okWithin_write buf _ off 2 _ he (by simp [goodFacts, le16]))
    | u32 =>
      cases v <;> simp only [marshalLeaf, Kind.isMarshaler, Bool.false_eq_true, if_false] <;>
        first
        | exact okWithin_refl buf _
        | (have hc : off + goodFacts.u32WriteSlice ≤ buf.length ∧ 4 ≤ goodFacts.u32WriteSlice := by
             simp only [goodFacts, Kind.width] at hf ⊢; omega
           rw [if_pos hc]
           exact okWithin_write buf _ off 4 _ he (by simp [goodFacts, le32]))
    | bool =>
      cases v <;> simp only [marshalLeaf, Kind.isMarshaler, Bool.false_eq_true, if_false] <;>
        first | exact okWithin_refl buf _ | exact okWithin_setAt buf hl _ off 1 _ he (by omega) hf
    | ipv4 =>
      cases v <;> simp only [marshalLeaf, Kind.isMarshaler, Bool.false_eq_true, if_false] <;>
        first
        | exact okWithin_refl buf _
        | (rw [if_pos (by simp only [Kind.width] at hf; omega)]
           exact okWithin_write buf _ off 4 _ he (by simp; omega))
    | addrPort =>
      cases v <;> simp only [marshalLeaf, Kind.isMarshaler, Bool.false_eq_true, if_false] <;>
        first
        | exact okWithin_refl buf _
        | (rename_i a; cases a <;> simp only <;>
             first | trivial | exact okWithin_copyAt buf hl _ off 6 _ he (by simp [le16]) hf)
    | mac =>
      cases v <;> simp only [marshalLeaf, Kind.isMarshaler, Bool.false_eq_true, if_false] <;>
        first
        | exact okWithin_refl buf _
        | (rw [if_pos (by simp only [Kind.width] at hf; omega)]
           exact okWithin_write buf _ off 6 _ he (by simp; omega))
    | serial | date | datePtr | dateTime | dateTimePtr | sysDate | sysTime | hhmm | hhmmPtr | pin | version
    | macAddress => exact hmar rfl


/-! ### the whole walk -/

/-- the pieces the walk writes, leaf by leaf: the specification's piece where the value is in its domain, some piece
    inside the leaf's own range where it is not -/
def Eff : List Leaf → List Val → List Piece → Prop
  | l :: ls, v :: vs, p :: ps => within p l ∧ (∀ q, leafWire l v = some q → p = q) ∧ Eff ls vs ps
  | [], _, [] => True
  | _ :: _, [], [] => True
  | _, _, _ => False

def allGo (vs : List Val) : Prop := ∀ v ∈ vs, goValue v = true

def extFit (ls : List Leaf) : Prop := ∀ e ∈ ls.filterMap extent, e.1 + e.2 ≤ 64

theorem marshalLeaves_eff : ∀ (ls : List Leaf) (vs : List Val) (buf : Bytes), buf.length = 64 → allGo vs → extFit ls →
    marshalLeaves goodFacts BCD.canonical ls vs buf = .err ∨
    ∃ ps, Eff ls vs ps ∧ marshalLeaves goodFacts BCD.canonical ls vs buf = .ok (applyPieces buf ps)
  | [], vs, buf, _, _, _ => Or.inr ⟨[], by cases vs <;> trivial, by cases vs <;> rfl⟩
  | l :: ls, [], buf, _, _, _ => Or.inr ⟨[], trivial, rfl⟩
  | l :: ls, v :: vs, buf, hb, hgo, hfit => by
    have hfl : ∀ o w, extent l = some (o, w) → o + w ≤ 64 := by
      intro o w he
      exact hfit (o, w) (by simp [List.filterMap_cons, he])
    have hfr : extFit ls := by
      intro e he
      apply hfit e
      cases hel : extent l with
      | none => simpa [List.filterMap_cons, hel] using he
      | some x => simp [List.filterMap_cons, hel, he]
    have hgr : allGo vs := fun x hx => hgo x (by simp [hx])
    have hgen := marshalLeaf_general buf hb l v (hgo v (by simp)) hfl
    cases hm : marshalLeaf goodFacts BCD.canonical buf l v with
    | err => left; simp [marshalLeaves, hm]
    | panic => rw [hm] at hgen; exact absurd hgen (by simp [okWithin])
    | ok out =>
      rw [hm] at hgen
      obtain ⟨p, hwi, hout⟩ := hgen
      -- when the value is in its domain the piece is the specification's
      have hsame : ∀ q, leafWire l v = some q → writeAt buf p.1 p.2 = writeAt buf q.1 q.2 ∧ within q l := by
        intro q hq
        have hwq := leafWire_within l v q hq
        have hfq : q.1 + q.2.length ≤ 64 := by
          cases hel : extent l with
          | none => simp only [within, hel] at hwq; subst hwq; simp
          | some e =>
            obtain ⟨o, w⟩ := e
            simp only [within, hel] at hwq
            have := hfl o w hel
            omega
        have := marshalLeaf_wire buf hb l v q.1 q.2 hq hfq
        rw [hm] at this
        cases this
        exact ⟨hout.symm, hwq⟩
      have hb' : out.length = 64 := by rw [hout]; simp [hb]
      rcases marshalLeaves_eff ls vs out hb' hgr hfr with hr | ⟨ps, hE, hr⟩
      · left; simp [marshalLeaves, hm, hr]
      · right
        cases hq : leafWire l v with
        | none =>
          have hE' : Eff (l :: ls) (v :: vs) (p :: ps) := by
            show within p l ∧ (∀ q, leafWire l v = some q → p = q) ∧ Eff ls vs ps
            refine ⟨hwi, ?_, hE⟩
            intro q h; rw [hq] at h; cases h
          refine ⟨p :: ps, hE', ?_⟩
          simp only [marshalLeaves, hm]
          rw [hr, hout]; rfl
        | some q =>
          obtain ⟨hw, hwq⟩ := hsame q hq
          have hE' : Eff (l :: ls) (v :: vs) (q :: ps) := by
            show within q l ∧ (∀ q', leafWire l v = some q' → q = q') ∧ Eff ls vs ps
            refine ⟨hwq, ?_, hE⟩
            intro q' h; rw [hq] at h; cases h; rfl
          refine ⟨q :: ps, hE', ?_⟩
          simp only [marshalLeaves, hm]
          rw [hr, hout, hw]; rfl


theorem eff_within : ∀ (ls : List Leaf) (vs : List Val) (ps : List Piece), Eff ls vs ps →
    ∀ q ∈ ps, ∃ l ∈ ls, within q l
  | [], _, [], _, q, hq => by simp at hq
  | [], _, _ :: _, h, _, _ => by cases h
  | _ :: _, [], [], _, q, hq => by simp at hq
  | _ :: _, [], _ :: _, h, _, _ => by cases h
  | _ :: _, _ :: _, [], h, _, _ => by cases h
  | l :: ls, v :: vs, p :: ps, h, q, hq => by
    obtain ⟨hw, _, hE⟩ := h
    rcases List.mem_cons.1 hq with rfl | hq'
    · exact ⟨l, by simp, hw⟩
    · obtain ⟨l', hl', hwi⟩ := eff_within ls vs ps hE q hq'
      exact ⟨l', by simp [hl'], hwi⟩

theorem eff_ok : ∀ (ls : List Leaf) (vs : List Val) (ps : List Piece), Eff ls vs ps →
    extFit ls → rangesDisjoint (ls.filterMap extent) = true →
    (∀ p ∈ ps, p.1 + p.2.length ≤ 64) ∧ ps.Pairwise disj
  | [], _, [], _, _, _ => by simp
  | [], _, _ :: _, h, _, _ => by cases h
  | _ :: _, [], [], _, _, _ => by simp
  | _ :: _, [], _ :: _, h, _, _ => by cases h
  | _ :: _, _ :: _, [], h, _, _ => by cases h
  | l :: ls, v :: vs, p :: ps', h, hfit, hdis => by
    obtain ⟨hwi, _, hE⟩ := h
    cases he : extent l with
    | none =>
      simp only [extFit, List.filterMap_cons, he] at hfit hdis
      obtain ⟨ih1, ih2⟩ := eff_ok ls vs ps' hE hfit hdis
      simp only [within, he] at hwi
      subst hwi
      refine ⟨?_, List.pairwise_cons.2 ⟨?_, ih2⟩⟩
      · intro q hq
        rcases List.mem_cons.1 hq with rfl | hq'
        · simp
        · exact ih1 q hq'
      · intro q _; left; simp
    | some e =>
      obtain ⟨o, w⟩ := e
      simp only [extFit, List.filterMap_cons, he] at hfit hdis
      simp only [rangesDisjoint, Bool.and_eq_true, List.all_eq_true] at hdis
      obtain ⟨ih1, ih2⟩ := eff_ok ls vs ps' hE (fun e he => hfit e (by simp [he])) hdis.2
      simp only [within, he] at hwi
      have hfo := hfit (o, w) (by simp)
      refine ⟨?_, List.pairwise_cons.2 ⟨?_, ih2⟩⟩
      · intro q hq
        rcases List.mem_cons.1 hq with rfl | hq'
        · simp only at hfo; omega
        · exact ih1 q hq'
      · intro q hq
        obtain ⟨l', hl', hq'⟩ := eff_within ls vs ps' hE q hq
        unfold disj
        cases he' : extent l' with
        | none => simp only [within, he'] at hq'; subst hq'; right; simp
        | some e' =>
          obtain ⟨o', w'⟩ := e'
          simp only [within, he'] at hq'
          have hmem : (o', w') ∈ ls.filterMap extent := by
            rw [List.mem_filterMap]; exact ⟨l', hl', he'⟩
          have := hdis.1 (o', w') hmem
          simp only [Bool.or_eq_true, decide_eq_true_eq] at this
          omega

/-- the in-domain pieces and the ranges of the out-of-domain fields, as `Spec.Codec.confined` computes them -/
def goodOf (ls : List Leaf) (vs : List Val) : List Piece := (ls.zip vs).filterMap fun (l, v) => leafWire l v
def wildOf (ls : List Leaf) (vs : List Val) : List (Nat × Nat) :=
  (ls.zip vs).filterMap fun (l, v) => match leafWire l v with | some _ => none | none => extent l

/-- every piece the walk wrote is an in-domain piece, or lies inside the range of an out-of-domain field -/
theorem eff_cases : ∀ (ls : List Leaf) (vs : List Val) (ps : List Piece), Eff ls vs ps →
    (∀ q ∈ goodOf ls vs, q ∈ ps) ∧
    (∀ p ∈ ps, p ∈ goodOf ls vs ∨ p.2 = [] ∨ ∃ e ∈ wildOf ls vs, e.1 = p.1 ∧ p.2.length ≤ e.2)
  | [], _, [], _ => by simp [goodOf]
  | [], _, _ :: _, h => by cases h
  | _ :: _, [], [], _ => by simp [goodOf]
  | _ :: _, [], _ :: _, h => by cases h
  | _ :: _, _ :: _, [], h => by cases h
  | l :: ls, v :: vs, p :: ps, h => by
    obtain ⟨hwi, hsame, hE⟩ := h
    obtain ⟨ih1, ih2⟩ := eff_cases ls vs ps hE
    cases hq : leafWire l v with
    | some q =>
      have hpq := hsame q hq
      subst hpq
      have hg : goodOf (l :: ls) (v :: vs) = p :: goodOf ls vs := by
        simp [goodOf, List.zip_cons_cons, List.filterMap_cons, hq]
      have hw : wildOf (l :: ls) (v :: vs) = wildOf ls vs := by
        simp [wildOf, List.zip_cons_cons, List.filterMap_cons, hq]
      rw [hg, hw]
      constructor
      · intro q' hq'
        rcases List.mem_cons.1 hq' with rfl | h'
        · simp
        · exact List.mem_cons_of_mem _ (ih1 q' h')
      · intro p' hp'
        rcases List.mem_cons.1 hp' with rfl | h'
        · left; simp
        · rcases ih2 p' h' with h1 | h1 | h1
          · left; exact List.mem_cons_of_mem _ h1
          · right; left; exact h1
          · right; right; exact h1
    | none =>
      have hg : goodOf (l :: ls) (v :: vs) = goodOf ls vs := by
        simp [goodOf, List.zip_cons_cons, List.filterMap_cons, hq]
      rw [hg]
      constructor
      · intro q' hq'; exact List.mem_cons_of_mem _ (ih1 q' hq')
      · intro p' hp'
        rcases List.mem_cons.1 hp' with rfl | h'
        · cases he : extent l with
          | none =>
            simp only [within, he] at hwi
            right; left; rw [hwi]
          | some e =>
            obtain ⟨o, w⟩ := e
            simp only [within, he] at hwi
            right; right
            refine ⟨(o, w), ?_, hwi.1.symm, hwi.2⟩
            simp [wildOf, List.zip_cons_cons, List.filterMap_cons, hq, he]
        · rcases ih2 p' h' with h1 | h1 | h1
          · left; exact h1
          · right; left; exact h1
          · right; right
            obtain ⟨e, he, h2⟩ := h1
            refine ⟨e, ?_, h2⟩
            cases hel : extent l with
            | none => simpa [wildOf, List.zip_cons_cons, List.filterMap_cons, hq, hel] using he
            | some x =>
              have : wildOf (l :: ls) (v :: vs) = x :: wildOf ls vs := by
                simp [wildOf, List.zip_cons_cons, List.filterMap_cons, hq, hel]
              rw [this]; exact List.mem_cons_of_mem _ he

theorem covers_unique : ∀ (ps : List Piece), ps.Pairwise disj → ∀ (i : Nat) (a b : Piece), a ∈ ps → b ∈ ps →
    covers i a = true → covers i b = true → a = b
  | [], _, _, _, _, ha, _, _, _ => by simp at ha
  | x :: xs, hd, i, a, b, ha, hb, ca, cb => by
    obtain ⟨hx, hxs⟩ := List.pairwise_cons.1 hd
    simp only [covers, Bool.and_eq_true, decide_eq_true_eq] at ca cb
    rcases List.mem_cons.1 ha with rfl | ha' <;> rcases List.mem_cons.1 hb with rfl | hb'
    · rfl
    · have := hx b hb'; unfold disj at this; omega
    · have := hx a ha'; unfold disj at this; omega
    · exact covers_unique xs hxs i a b ha' hb' (by simp [covers, ca]) (by simp [covers, cb])


theorem confined_eq (ls : List Leaf) (vs : List Val) (out : Bytes) :
    confined ls vs out = (out.length == 64 && (List.range 64).all fun i =>
      (wildOf ls vs).any (fun (o, w) => o ≤ i && i < o + w) || out.getD i 0 == imageByte (goodOf ls vs) i) := rfl

/-- the byte the walk leaves at a position no out-of-domain field owns is the image rule's byte -/
theorem eff_byte (ls : List Leaf) (vs : List Val) (ps : List Piece) (hE : Eff ls vs ps)
    (hfit : ∀ p ∈ ps, p.1 + p.2.length ≤ 64) (hd : ps.Pairwise disj) (i : Nat) (hi : i < 64)
    (hw : (wildOf ls vs).any (fun (o, w) => decide (o ≤ i) && decide (i < o + w)) = false) :
    (applyPieces initBuf ps).getD i 0 = imageByte (goodOf ls vs) i := by
  obtain ⟨hsub, hcases⟩ := eff_cases ls vs ps hE
  have hlen : initBuf.length = 64 := by simp [initBuf]
  have hget := getElem?_applyPieces ps initBuf (by simpa [hlen] using hfit) hd i
  have hfind : (goodOf ls vs).find? (fun (x : Nat × Bytes) => match x with | (o, b) => decide (o ≤ i) && decide (i < o + b.length))
      = (goodOf ls vs).find? (covers i) := by congr 1
  unfold imageByte
  rw [hfind, List.getD_eq_getElem?_getD, hget]
  cases hf : ps.find? (covers i) with
  | some p =>
    have hc := List.find?_some hf
    have hm := List.mem_of_find?_eq_some hf
    have hc' := hc
    simp only [covers, Bool.and_eq_true, decide_eq_true_eq] at hc'
    rcases hcases p hm with hg | hnil | ⟨e, he, h1, h2⟩
    · -- an in-domain piece: the only piece that covers i
      cases hgf : (goodOf ls vs).find? (covers i) with
      | none =>
        rw [List.find?_eq_none] at hgf
        exact absurd hc (hgf p hg)
      | some p' =>
        have hp' := List.mem_of_find?_eq_some hgf
        have hcp' := List.find?_some hgf
        have := covers_unique ps hd i p' p (hsub p' hp') hm hcp' hc
        subst this
        simp only
        rw [List.getD_eq_getElem?_getD]
    · rw [hnil] at hc'; simp at hc'; omega
    · -- inside the range of an out-of-domain field: excluded by the hypothesis
      rw [List.any_eq_false] at hw
      have := hw e he
      obtain ⟨eo, ew⟩ := e
      simp only [Bool.and_eq_true, decide_eq_true_eq] at this h1 h2
      omega
  | none =>
    have hgn : (goodOf ls vs).find? (covers i) = none := by
      rw [List.find?_eq_none] at hf ⊢
      intro q hq; exact hf q (hsub q hq)
    simp only [hgn]
    rw [initBuf_get i hi]; simp

/-- **confinement**: for every well-formed layout and EVERY tuple of values a Go program can hold, the model of
    `Marshal` does not panic, and when it returns bytes every position outside the ranges of the out-of-domain
    fields is the image rule's byte -/
theorem marshal_confined (L : Layout) (vs : List Val) (hwf : wf L.leaves = true) (hgo : allGo vs) :
    marshal goodFacts BCD.canonical L vs ≠ .panic ∧
    ∀ out, marshal goodFacts BCD.canonical L vs = .ok out → confined L.leaves vs out = true := by
  simp only [wf, Bool.and_eq_true, List.all_eq_true] at hwf
  have hfit : extFit L.leaves := fun e he => by have := hwf.1.1.1 e he; simpa using this
  have hdis := hwf.1.1.2
  unfold marshal
  have hinit : (zeros goodFacts.bufLen).set 0 (UInt8.ofNat goodFacts.somDefault) = initBuf := rfl
  rw [hinit]
  rcases marshalLeaves_eff L.leaves vs initBuf (by simp [initBuf]) hgo hfit with herr | ⟨ps, hE, hok⟩
  · rw [herr]; exact ⟨by simp, fun out h => by cases h⟩
  · rw [hok]
    refine ⟨by simp, ?_⟩
    intro out h
    cases h
    obtain ⟨hpf, hpd⟩ := eff_ok L.leaves vs ps hE hfit hdis
    rw [confined_eq]
    simp only [Bool.and_eq_true, beq_iff_eq, List.all_eq_true, List.mem_range, Bool.or_eq_true]
    refine ⟨by rw [length_applyPieces]; simp [initBuf], ?_⟩
    intro i hi
    cases hw : (wildOf L.leaves vs).any (fun (o, w) => decide (o ≤ i) && decide (i < o + w)) with
    | true => left; rfl
    | false => right; exact eff_byte L.leaves vs ps hE hpf hpd i hi hw

end Uhppote.Proofs.Codec
