import Uhppote.Model.Driver
import Uhppote.Gen.Driver
import Uhppote.Props.C09
import Uhppote.Gen.Source
/-! # C08 — concurrent use is race-free and replies are never crossed between calls (partial)

(a) *No crossing.* With bind port 0 every call has its own ephemeral socket (kernel). With a
fixed bind port the calls share one port; `Model.Driver.step` is that port as an event system
(acquire = lock granted + socket bound + request sent; arrive = a reply reaches the port;
timeout = a deadline fires). The invariant proved by induction over ARBITRARY event sequences:
every reply in flight belongs to the call that owns the port — hence on every schedule in which
no deadline fires while the call's own reply is in flight, nobody ever takes a foreign reply and
no reply is lost. That trace condition follows from the regenerated facts (deadline computed
after the lock) and reply delays below the timeout.
(b) *Race freedom of the modelled skeleton*: the shared variables of the driver are accessed
inside critical sections of one mutex (regenerated fact).
Partial: real interleavings are the Go scheduler's; the `conc` and `lock` streams run the real
driver under the race detector with per-call echo replies. -/
set_option linter.unusedSimpArgs false
namespace Uhppote.Props.C08
open Uhppote Uhppote.Model.Driver

/-- Invariant: every reply in flight belongs to the call that owns the port. -/
def Inv (s : St) : Prop :=
  s.crossed = false ∧ s.lost = [] ∧ (∀ j ∈ s.inflight, s.owner = some j) ∧ s.inflight.length ≤ 1

theorem step_inv (s : St) (e : Ev) (h : Inv s)
    (ht : match e with | .timeout k => k ∉ s.inflight | _ => True) : Inv (step s e) := by
  obtain ⟨hc, hl, ho, hn⟩ := h
  cases e with
  | acquire k =>
    unfold step
    cases hown : s.owner with
    | some o => simp [Inv, hown, hc, hl]; exact ⟨fun j hj => by simpa [hown] using ho j hj, hn⟩
    | none =>
      have hemp : s.inflight = [] := by
        cases hi : s.inflight with
        | nil => rfl
        | cons a as =>
          have := ho a (by simp [hi]); simp [hown] at this
      simp [Inv, hc, hl, hemp]
  | arrive j =>
    unfold step
    by_cases hj : j ∈ s.inflight
    · have hoj := ho j hj
      have hsingle : s.inflight = [j] := by
        cases hi : s.inflight with
        | nil => simp [hi] at hj
        | cons a as =>
          cases as with
          | nil => simp [hi] at hj; simp [hj]
          | cons b bs => simp [hi] at hn
      simp [hj, hoj, Inv, hc, hl, hsingle]
    · simp [hj, Inv, hc, hl]; exact ⟨ho, hn⟩
  | timeout k =>
    unfold step
    by_cases hk : s.owner = some k
    · have hemp : s.inflight = [] := by
        cases hi : s.inflight with
        | nil => rfl
        | cons a as =>
          have h1 := ho a (by simp [hi])
          have : a = k := by rw [hk] at h1; exact (Option.some.inj h1).symm
          subst this
          simp [hi] at ht
      simp [hk, Inv, hc, hl, hemp]
    · simp [hk, Inv, hc, hl]; exact ⟨ho, hn⟩

theorem run_inv (s : St) (es : List Ev) (h : Inv s) (ht : TimelyTrace s es) : Inv (run s es) := by
  induction es generalizing s with
  | nil => exact h
  | cons e es ih =>
    simp only [run, List.foldl_cons]
    exact ih _ (step_inv s e h ht.1) ht.2

/-- **replies are never crossed**: on every schedule of acquisitions, arrivals and deadlines of any
    number of calls sharing one fixed bind port, as long as no deadline fires while the call's own
    reply is in flight, no call ever accepts another call's reply and no reply is lost -/
theorem C08_never_crossed (es : List Ev) (ht : TimelyTrace init es) :
    (run init es).crossed = false ∧ (run init es).lost = [] :=
  let h := run_inv init es (by simp [Inv, init]) ht
  ⟨h.1, h.2.1⟩

/-- the trace condition holds for a call whose controller answers within δ < T of being asked,
    HOWEVER long the call waited for the port, because the deadline is computed after the lock
    (regenerated fact): the own reply (at lock + δ) precedes the deadline (lock + T) -/
theorem C08_own_reply_before_deadline (F : MethodFacts) (hF : F.good = true) (T callTime lockTime δ : Nat)
    (hδ : δ < T) : lockTime + δ < deadlineOf F T callTime lockTime := by
  simp only [MethodFacts.good, Bool.and_eq_true] at hF
  simp [deadlineOf, hF.1.1.1.1.1.1.2, hF.1.1.1.1.1.2]; omega

theorem C08_deadline_after_lock : Gen.Driver.BroadcastTo.good = true ∧ Gen.Driver.SendUDP.good = true ∧
    Gen.Driver.SendTCP.good = true := ⟨C09.C09_facts.1, C09.C09_facts.2.1, C09.C09_facts.2.2.1⟩

/-- what goes wrong otherwise (defect D13, repaired): with the deadline computed at call time, a
    call that waited for the port can time out with its reply still in flight, and the NEXT call
    on the port then takes that reply — a wrong card, not just a timeout -/
theorem C08_early_deadline_crosses :
    (run init [.acquire 1, .timeout 1, .acquire 2, .arrive 1]).crossed = true ∧
    deadlineOf { Gen.Driver.BroadcastTo with socketDeadlineAfterLock := false } 400 0 390 ≤ 390 + 50 := by decide

/-- T5: every local that a driver goroutine writes and another goroutine accesses -/
theorem C08_shared_variables :
    Gen.Driver.broadcastShared = [("err", true), ("replies", true)] ∧          -- both only inside the mutex
    Gen.Driver.listenShared = [("closed", false)] := by decide

/-- accesses that all lie in critical sections of one mutex cannot race, whatever the schedule
    (distinct sections are ordered by the lock order of the execution) -/
theorem C08_guarded_race_free (as : List Access) (hg : ∀ a ∈ as, a.section_.isSome)
    (hd : ∀ a ∈ as, ∀ b ∈ as, a.goroutine ≠ b.goroutine → a.section_ ≠ b.section_) : raceFree as = true := by
  unfold raceFree
  rw [List.all_eq_true]; intro a ha
  rw [List.all_eq_true]; intro b hb
  by_cases hc : conflicting a b = true
  · simp only [hc, Bool.not_true, Bool.false_or]
    unfold conflicting at hc
    simp only [Bool.and_eq_true, bne_iff_ne, ne_eq] at hc
    have hsec := hd a ha b hb hc.1
    unfold ordered
    cases hx : a.section_ with
    | none => have := hg a ha; simp [hx] at this
    | some x =>
      cases hy : b.section_ with
      | none => have := hg b hb; simp [hy] at this
      | some y =>
        have : x ≠ y := by intro h; apply hsec; rw [hx, hy, h]
        simp [this]
  · simp [hc]

/-- the discovery collector after the repair: the reader goroutine appends inside the mutex, the
    caller reads after the timeout inside the mutex -/
def broadcastSkeleton : List Access :=
  [⟨1, true, some 0⟩, ⟨1, true, some 1⟩, ⟨1, true, some 2⟩,      -- reader: replies = append(…) ×2, err = errx
   ⟨0, false, some 3⟩, ⟨0, false, some 3⟩]                        -- caller: return replies, err

theorem C08_discovery_race_free : raceFree broadcastSkeleton = true := by decide

/-- before the repair (defect D12): the same accesses outside any critical section race -/
theorem C08_unguarded_discovery_races :
    raceFree [⟨1, true, none⟩, ⟨0, false, none⟩] = false := by decide

/-- the listener's `closed` flag is written before `c.Close()` by the shutdown goroutine and read
    by the receive loop only after `ReadFromUDP` failed because of that Close: program order +
    the Close → failing-read edge order the two accesses. (That edge is the runtime's: assumed
    here, observed race-free by the detector in the `conc` stream.) -/
theorem C08_listener_closed_flag_ordered :
    let write : Nat × Nat := (1, 0)      -- (goroutine, position): closed = true
    let close : Nat × Nat := (1, 1)      -- c.Close()
    let fail : Nat × Nat := (2, 0)       -- ReadFromUDP returns an error
    let read : Nat × Nat := (2, 1)       -- if closed
    write.1 = close.1 ∧ write.2 < close.2 ∧ fail.1 = read.1 ∧ fail.2 < read.2 := by decide

/-! non-vacuity -/
example : TimelyTrace init [.acquire 1, .arrive 1, .acquire 2, .arrive 2] := by simp [TimelyTrace, step, init]
example : (run init [.acquire 1, .arrive 1, .acquire 2, .arrive 2]).crossed = false := by decide

/-- the client and the driver are immutable after construction: no method stores into its receiver (regenerated
    list of such statements: empty), so goroutines sharing one client share only what they read; what they do share
    for writing is the bind-port mutex, the socket of each call and the discovery collector, which the facts above
    cover -/
theorem C08_client_immutable : Gen.Source.receiverWrites = [] := by decide

/-- all the concurrency the library creates itself (regenerated inventory of `go` statements): the discovery
    collector, the listener's reader and its shutdown watcher, the listener's dispatcher - the request paths start
    none; the facts and theorems above are about exactly these -/
theorem C08_goroutines : Gen.Source.goStatements = ["uhppote/UT0311.go:ut0311.Broadcast: 1", "uhppote/UT0311.go:ut0311.Listen: 2", "uhppote/listen.go:uhppote.Listen: 1"] := by decide

end Uhppote.Props.C08
