import Uhppote.Gen.Messages
import Uhppote.Props.C18
import Uhppote.Props.C01
import Uhppote.Proofs.CodecFrame
/-! # C05 — encoding and decoding are mutually inverse for every message type

Instantiation of the generic codec theorems (C18) to the layouts **regenerated from
messages/*.go**, plus the two dispatchers. The zone clause (any process time zone, zero date and
date-time) is the subject of C13, whose zone model the civil-field values here plug into. -/
set_option linter.unusedSimpArgs false
namespace Uhppote.Props.C05
open Uhppote Uhppote.Model Uhppote.Spec.Codec

/-- T1: every one of the 65 message layouts in the sources is the protocol table's -/
theorem C05_layouts : Gen.Messages.all = Spec.Protocol.all := by decide

/-- T2: the two function-code tables (32 requests, 31 replies) are the protocol's -/
theorem C05_dispatch_tables : Gen.Messages.requests = Spec.Protocol.requests ∧
    Gen.Messages.responses = Spec.Protocol.responses ∧
    Gen.Messages.requests.length = 32 ∧ Gen.Messages.responses.length = 31 := by decide

/-- every function code in the tables names a declared message type whose own MsgType tag is
    that code -/
theorem C05_tables_consistent :
    (Gen.Messages.requests ++ Gen.Messages.responses).all (fun (c, n) =>
      match Gen.Messages.all.lookup n with
      | some L => L.leaves.any (fun l => match l with
          | .msgType (some t) => tagValue t == some c
          | _ => false)
      | none => false) = true := by decide

/-- T2: the dispatchers check length 64 and protocol id 0x17 before the table lookup -/
theorem C05_dispatch_checks :
    Gen.Messages.requestsChecks = ["len(bytes) != 64", "bytes[0] != 0x17", "f == nil", "err != nil"] ∧
    Gen.Messages.responsesChecks = ["len(bytes) != 64", "bytes[0] != 0x17", "f == nil", "err != nil"] := by decide

/-- every shipped layout is well-formed -/
theorem C05_all_wf : Gen.Messages.all.all (fun p => wf p.2.leaves) = true := by decide

/-- **encode = image** for every shipped message type and all in-domain values -/
theorem C05_marshal_image (n : String) (L : Layout) (h : Gen.Messages.all.lookup n = some L)
    (vs : List Val) (img : Bytes) (himg : image L.leaves vs = some img) :
    marshal Gen.codecFacts C12.genTables L vs = .ok img := by
  have hwf : wf L.leaves = true := by
    have := C05_all_wf
    rw [List.all_eq_true] at this
    exact this (n, L) (C01.mem_of_lookup _ _ _ h)
  exact C18.C18_marshal_image L vs img hwf himg

/-- every shipped layout has one of the two header shapes `Unmarshal` accepts back -/
theorem C05_all_headers : Gen.Messages.all.all (fun p => Proofs.Codec.hdrShape p.2.leaves) = true := by decide

/-- **decode ∘ encode = id** for every shipped message type and all in-domain values (hence
    distinct values never share an encoding: `C18_injective`) -/
theorem C05_round_trip (n : String) (L : Layout) (h : Gen.Messages.all.lookup n = some L)
    (vs ws : List Val) (img : Bytes) (himg : image L.leaves vs = some img)
    (hback : backAll L.leaves vs = some ws) :
    marshal Gen.codecFacts C12.genTables L vs = .ok img ∧
    unmarshal Gen.codecFacts C12.genTables C18.wireBounds L img = .ok ws := by
  have hmem := C01.mem_of_lookup _ _ _ h
  have hwf : wf L.leaves = true := by
    have := C05_all_wf
    rw [List.all_eq_true] at this
    exact this (n, L) hmem
  have hs : Proofs.Codec.hdrShape L.leaves = true := by
    have := C05_all_headers
    rw [List.all_eq_true] at this
    exact this (n, L) hmem
  exact C18.C18_round_trip L vs ws img hwf himg hback (C18.C18_header_ok L vs img hwf himg hs)

/-- **frame**: the decoded value does not depend on bytes that belong to no field of the message -/
theorem C05_frame (L : Layout) (b1 b2 : Bytes) (hlen : b1.length = b2.length)
    (h : ∀ i, Proofs.Codec.Reads L.leaves i → b1[i]? = b2[i]?) :
    unmarshal Gen.codecFacts C12.genTables C18.wireBounds L b1 = unmarshal Gen.codecFacts C12.genTables C18.wireBounds L b2 :=
  Proofs.Codec.unmarshal_frame _ _ _ L b1 b2 hlen h

/-- the dispatchers reject a wrong length, a wrong protocol id and an unknown function code, and
    otherwise return the message type of the function code in the header -/
theorem C05_dispatch (table : List (Nat × String)) (layouts : String → Option Layout) (b : Bytes) :
    (b.length ≠ 64 → dispatch Gen.codecFacts C12.genTables C18.wireBounds table layouts b = .err) ∧
    ((b.getD 0 0).toNat ≠ 0x17 → dispatch Gen.codecFacts C12.genTables C18.wireBounds table layouts b = .err) ∧
    (table.lookup (b.getD 1 0).toNat = none → dispatch Gen.codecFacts C12.genTables C18.wireBounds table layouts b = .err) ∧
    (∀ n vs, dispatch Gen.codecFacts C12.genTables C18.wireBounds table layouts b = .ok (n, vs) →
      b.length = 64 ∧ (b.getD 0 0).toNat = 0x17 ∧ table.lookup (b.getD 1 0).toNat = some n ∧
      ∃ L, layouts n = some L ∧ unmarshal Gen.codecFacts C12.genTables C18.wireBounds L b = .ok vs) := by
  refine ⟨fun h => ?_, fun h => ?_, fun h => ?_, fun n vs h => ?_⟩
  · simp [dispatch, h]
  · unfold dispatch; split
    · rfl
    · simp [h]
  · unfold dispatch; split
    · rfl
    · split
      · rfl
      · simp only [h]
  · unfold dispatch at h
    split at h
    · cases h
    · rename_i h1
      split at h
      · cases h
      · rename_i h2
        split at h
        · cases h
        · rename_i n' hn
          split at h
          · cases h
          · rename_i L hL
            split at h
            · rename_i vs' hu
              cases h
              exact ⟨by simpa using h1, by simpa using h2, hn, L, hL, hu⟩
            · cases h
            · cases h

/-! non-vacuity: the GetCardByID reply golden vector of messages/get_card_test.go decodes -/
example : (Gen.Messages.all.lookup "PutCardRequest").isSome = true := by decide

end Uhppote.Props.C05
