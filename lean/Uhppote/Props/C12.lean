import Uhppote.Gen.BCD
import Uhppote.Proofs.BCD
import Uhppote.Gen.Source
/-! # C12 — BCD coding is exact, total on digit strings and rejects non-decimal nibbles

Property theorems only. `Model.BCD.encode/decode` are the Go loops run with the switch tables
regenerated from `/repo/encoding/bcd/bcd.go` (`Gen.BCD`); `Spec.BCD` is the statement of the
property: pad, two digits per byte, most significant first. -/
namespace Uhppote.Props.C12
open Uhppote Uhppote.Model.BCD

/-- the tables and masks in the code today (regenerated) -/
def genTables : Tables :=
  { enc := Gen.BCD.encTable, decHi := Gen.BCD.decHiTable, decLo := Gen.BCD.decLoTable,
    hiMask := Gen.BCD.decHiMask, loMask := Gen.BCD.decLoMask }

/-- T5 obligation: the generated switch tables are the decimal tables, the default arms are errors,
    the buffer size and start index are the padding expressions -/
theorem C12_tables : genTables = canonical ∧ Gen.BCD.encDefaultIsError = true ∧
    Gen.BCD.decDefaultIsError = true ∧ Gen.BCD.encInitIx = "len(s) % 2" ∧
    Gen.BCD.encSize = "(len(s) + 1) / 2" := by decide

/-- Encoding = pack ∘ pad on digit strings, an error on anything else (all strings, any length). -/
theorem C12_encode (s : Bytes) : encode genTables s = Spec.BCD.encode s := by
  rw [C12_tables.1]; exact Proofs.BCD.encode_model_eq_spec s

/-- ceil(n/2) bytes -/
theorem C12_encode_length (s bs : Bytes) (h : encode genTables s = some bs) :
    bs.length = (s.length + 1) / 2 := by
  rw [C12_encode] at h
  unfold Spec.BCD.encode at h
  split at h
  · cases h
    rw [Proofs.BCD.pack_length _ (Proofs.BCD.pad_even s), Proofs.BCD.pad_length]
  · cases h

/-- any non-digit byte (hence any non-digit rune) is an error -/
theorem C12_encode_rejects (s : Bytes) (c : UInt8) (hc : c ∈ s) (hn : Spec.BCD.isDigit c = false) :
    encode genTables s = none := by
  rw [C12_encode]
  unfold Spec.BCD.encode
  have : s.all Spec.BCD.isDigit = false := by
    rw [List.all_eq_false]; exact ⟨c, hc, by simp [hn]⟩
  simp [this]

/-- Decoding = the 2n digits, an error iff some nibble exceeds 9 (all byte slices). -/
theorem C12_decode (bs : Bytes) : decode genTables bs = Spec.BCD.decode bs := by
  rw [C12_tables.1]; exact Proofs.BCD.decode_model_eq_spec bs

theorem C12_decode_length (bs s : Bytes) (h : decode genTables bs = some s) : s.length = 2 * bs.length := by
  rw [C12_decode] at h
  unfold Spec.BCD.decode at h
  split at h
  · cases h
    rename_i hd; clear hd
    induction bs with
    | nil => rfl
    | cons b r ih => simp only [Spec.BCD.unpack, List.length_cons, ih]; omega
  · cases h

/-- decode ∘ encode = pad -/
theorem C12_decode_encode (s bs : Bytes) (h : encode genTables s = some bs) :
    decode genTables bs = some (Spec.BCD.pad s) := by
  rw [C12_encode] at h; rw [C12_decode]
  unfold Spec.BCD.encode at h
  split at h
  · rename_i hd
    cases h
    obtain ⟨h1, h2⟩ := Proofs.BCD.unpack_pack (Spec.BCD.pad s) (Proofs.BCD.pad_even s) (Proofs.BCD.pad_all s hd)
    simp [Spec.BCD.decode, h1, h2]
  · cases h

/-- encode ∘ decode = id -/
theorem C12_encode_decode (bs s : Bytes) (h : decode genTables bs = some s) :
    encode genTables s = some bs := by
  rw [C12_decode] at h; rw [C12_encode]
  unfold Spec.BCD.decode at h
  split at h
  · rename_i hd
    cases h
    obtain ⟨h1, h2, h3⟩ := Proofs.BCD.pack_unpack bs hd
    have : Spec.BCD.pad (Spec.BCD.unpack bs) = Spec.BCD.unpack bs := by
      simp [Spec.BCD.pad, h1]
    simp [Spec.BCD.encode, h2, this, h3]
  · cases h

/-! non-vacuity: concrete strings meet the hypotheses and the functions are not constant -/
example : encode genTables [0x31, 0x32, 0x33] = some [0x01, 0x23] := by decide
example : encode genTables [0x31, 0x41] = none := by decide
example : decode genTables [0x20, 0x24, 0x12, 0x31] = some [0x32,0x30,0x32,0x34,0x31,0x32,0x33,0x31] := by decide
example : decode genTables [0x1a] = none := by decide

/-- the BCD functions keep nothing between calls: the package-level variables of the four packages (regenerated) are these ten - the
    codec's patterns and kind table, the two card-format patterns, the bind-port mutex, `NOTIMEOUT` and three error
    values - every one of them initialised when its package is loaded. A `sync.Once`, a lazily filled map or a cache
    would have to appear here. -/
theorem C12_package_state : Gen.Source.packageVars = ["encoding/UTO311-L0x/UT0311-L0x.go:var re", "encoding/UTO311-L0x/UT0311-L0x.go:var tBool,tByte,tUint16,…",
    "encoding/UTO311-L0x/UT0311-L0x.go:var vre", "types/card-format.go:var w26", "types/card-format.go:var wAny",
    "uhppote/UT0311.go:var NOTIMEOUT", "uhppote/UT0311.go:var guard", "uhppote/errors.go:var ErrIncorrectController",
    "uhppote/errors.go:var ErrInvalidCard", "uhppote/errors.go:var ErrInvalidListenerAddress"] := by decide

end Uhppote.Props.C12
