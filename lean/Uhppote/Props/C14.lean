import Uhppote.Gen.Types
import Uhppote.Proofs.Text
import Uhppote.Props.C15
import Uhppote.Gen.Source
/-! # C14 — JSON and text forms of the public types round-trip; bad text is rejected (partial)

Leaf types on `List Char` (`Model.Text`, hand-modelled after the `String()` / parser and
`MarshalJSON` / `UnmarshalJSON` bodies, HH:mm bounds regenerated): `parse (format v) = v` for every
in-domain value, and whatever a parser accepts lies in the domain. Addresses: C15. Partial:
`encoding/json` itself (quoting, struct plumbing, map allocation) is not modelled — containers
(card, time profile, task, weekdays, segments) and date-times with zone abbreviations are decided
by the oracle on the `text` stream (decode(encode v) into fresh zero-valued variables, nil maps
included, in 20 process zones). -/
namespace Uhppote.Props.C14
open Uhppote Uhppote.Model Uhppote.Model.Text Uhppote.Proofs.Text

/-- T3g: the three HH:mm parsers bound hours by 24, minutes by 59 and forbid 24:mm ≠ 24:00 -/
theorem C14_hhmm_bounds :
    (⟨Gen.Types.hhmmMaxHoursText, Gen.Types.hhmmMaxMinutesText, Gen.Types.hhmm24RuleText⟩ : HHmmBounds) = ⟨24, 59, true⟩ ∧
    (⟨Gen.Types.hhmmMaxHoursJSON, Gen.Types.hhmmMaxMinutesJSON, Gen.Types.hhmm24RuleJSON⟩ : HHmmBounds) = ⟨24, 59, true⟩ ∧
    (⟨Gen.Types.hhmmMaxHoursWire, Gen.Types.hhmmMaxMinutesWire, Gen.Types.hhmm24RuleWire⟩ : HHmmBounds) = ⟨24, 59, true⟩ := by
  decide

/-- dates: text and JSON forms round-trip for every calendar date of the years 0..9999, and the
    zero date for JSON -/
theorem C14_date_roundtrip (d : YMD) (hy : d.y ≤ 9999) (hv : validYMD d.y d.m d.d = true) :
    parseDate (dateString (some d)) = some d ∧ dateFromJSON (dateString (some d)) = some (some d) := by
  have h := parseDate_format d hy hv
  have hne : (formatDate d).isEmpty = false := by simp [formatDate, d4, d2]
  simp [parseDate, dateFromJSON, dateString, hne, h]

theorem C14_zero_date_json : dateFromJSON (dateString none) = some none := by decide

/-- an impossible date is rejected, never turned into another date -/
theorem C14_date_rejects (s : List Char) (d : YMD) (h : parseDateText s = some d) :
    validYMD d.y d.m d.d = true := parseDate_valid s d h

/-- HH:mm: round trip for 00:00..24:00, and nothing beyond 24:00 or with minutes above 59 is accepted -/
theorem C14_hhmm_roundtrip (t : HM) (h0 : 0 ≤ t.h) (h24 : t.h ≤ 24) (m0 : 0 ≤ t.m) (m59 : t.m ≤ 59)
    (hr : t.h = 24 → t.m = 0) : parseHHmm ⟨24, 59, true⟩ (hhmmString t) = some t :=
  parseHHmm_format t h0 h24 m0 m59 hr

theorem C14_hhmm_rejects (s : List Char) (t : HM) (h : parseHHmm ⟨24, 59, true⟩ s = some t) :
    0 ≤ t.h ∧ t.h ≤ 24 ∧ 0 ≤ t.m ∧ t.m ≤ 59 ∧ (t.h = 24 → t.m = 0) := by
  obtain ⟨a, b, c, d, e⟩ := parseHHmm_domain _ s t h
  exact ⟨a, b, c, d, e rfl⟩

/-- PIN: round trip for 0..999999; more than six digits are rejected -/
theorem C14_pin_roundtrip (p : Nat) (h : p ≤ 999999) : pinFromJSON (pinJSON p) = some p := pin_roundtrip p h
theorem C14_pin_rejects (s : List Char) (n : Nat) (h : pinFromJSON s = some n) : n ≤ 999999 := pin_domain s n h
theorem C14_pin_long_rejected (s : List Char) (h : s.length > 6) : pinFromJSON s = none := by
  simp [pinFromJSON]; intro h'; omega

/-- door control state: exactly the three names -/
theorem C14_control_state : ∀ v, 1 ≤ v → v ≤ 3 → controlStateFromJSON (controlStateString v) = some v := by
  intro v h1 h3
  have : v = 1 ∨ v = 2 ∨ v = 3 := by omega
  rcases this with rfl | rfl | rfl <;> decide

theorem C14_control_state_rejects (s : List Char) (n : Nat) (h : controlStateFromJSON s = some n) : 1 ≤ n ∧ n ≤ 3 := by
  unfold controlStateFromJSON at h
  simp only [Option.map_eq_some_iff] at h
  obtain ⟨p, hp, rfl⟩ := h
  have := List.mem_of_find?_eq_some hp
  simp only [controlStateNames, List.mem_cons, List.mem_nil_iff, or_false] at this
  rcases this with rfl | rfl | rfl <;> decide

/-- task type: every name and every number 1..13 reads back as its value; only 0..12 come out -/
theorem C14_task_type_names : ∀ v, v < 13 → taskTypeFromText (taskTypeString v) = some v := by decide

theorem C14_task_type_numbers : ∀ n, n < 14 → 1 ≤ n → taskTypeFromText (decimal n) = some (n - 1) := by decide

theorem C14_task_type_rejects (s : List Char) (n : Nat) (h : taskTypeFromText s = some n) : n < 13 := by
  unfold taskTypeFromText at h
  split at h
  · split at h
    · cases h; omega
    · cases h
  · simp only [Option.map_eq_some_iff] at h
    obtain ⟨p, hp, rfl⟩ := h
    have hm := List.mem_of_find?_eq_some hp
    have : ∀ q ∈ taskNames.zipIdx, q.2 < 13 := by decide
    exact this p hm

theorem C14_task_type_0_and_14 : taskTypeFromText "0".toList = none ∧ taskTypeFromText "14".toList = none := by decide

/-- weekdays: decoding the JSON string of any of the 128 day sets returns that set -/
theorem C14_weekdays_roundtrip : ∀ a b c d e f g : Bool,
    weekdaysFromJSON (weekdaysJSON [a, b, c, d, e, f, g]) = [a, b, c, d, e, f, g] := by decide

/-- … it never fails, always yields seven flags, and sets a day only if its name is one of the
    comma-separated tokens (case-insensitively): text naming no day gives the empty set -/
theorem C14_weekdays_total (s : List Char) : (weekdaysFromJSON s).length = 7 := by
  simp [weekdaysFromJSON, dayNames]

/-- firmware version and system time -/
theorem C14_version_roundtrip (v : Nat) (h : v < 65536) : versionFromJSON (versionJSON v) = some v :=
  version_roundtrip v h

theorem C14_systime_roundtrip (t : HMS) (h : t.h < 24 ∧ t.m < 60 ∧ t.s < 60) :
    parseSystemTime (systemTimeString t) = some t := systime_roundtrip t h

/-- card format -/
theorem C14_card_format : cardFormatFromString (cardFormatString 0) = some 0 ∧
    cardFormatFromString (cardFormatString 1) = some 1 ∧ cardFormatFromString "wiegand-27".toList = none := by decide

/-- addresses: the JSON form is the text form (C15's format/parse theorem) -/
theorem C14_addresses (ro : Model.Addr.Role) (om : Option Nat)
    (hom : ∀ q, om = some q → q = ro.defaultPort ∧ ro.hasAddrOnlyBranch = true)
    (a b c d p : Nat) (ha : a < 256) (hb : b < 256) (hc : c < 256) (hd : d < 256) (hp : p < 65536)
    (hacc : ro.rejectedPorts.contains p = false) :
    Model.Addr.parse ro (Model.Addr.format om a b c d p) = .ok (a, b, c, d, p) :=
  C15.C15_format_parse ro om hom a b c d p ha hb hc hd hp hacc

/-! non-vacuity -/
example : parseHHmm ⟨24, 59, true⟩ "23:60".toList = none ∧ parseHHmm ⟨24, 59, true⟩ "24:01".toList = none ∧
    parseHHmm ⟨24, 59, true⟩ "24:00".toList = some ⟨24, 0⟩ := by decide
example : parseDate "2023-02-29".toList = none ∧ parseDate "2024-02-29".toList = some ⟨2024, 2, 29⟩ := by decide
example : pinFromJSON "1000000".toList = none := by decide

/-- no parser or formatter keeps anything between calls (a name table built on first use, a compiled pattern that only some entry point prepares): the package-level variables of the four packages (regenerated) are these ten - the
    codec's patterns and kind table, the two card-format patterns, the bind-port mutex, `NOTIMEOUT` and three error
    values - every one of them initialised when its package is loaded. A `sync.Once`, a lazily filled map or a cache
    would have to appear here. -/
theorem C14_package_state : Gen.Source.packageVars = ["encoding/UTO311-L0x/UT0311-L0x.go:var re", "encoding/UTO311-L0x/UT0311-L0x.go:var tBool,tByte,tUint16,…",
    "encoding/UTO311-L0x/UT0311-L0x.go:var vre", "types/card-format.go:var w26", "types/card-format.go:var wAny",
    "uhppote/UT0311.go:var NOTIMEOUT", "uhppote/UT0311.go:var guard", "uhppote/errors.go:var ErrIncorrectController",
    "uhppote/errors.go:var ErrInvalidCard", "uhppote/errors.go:var ErrInvalidListenerAddress"] := by decide

end Uhppote.Props.C14
