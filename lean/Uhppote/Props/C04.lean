import Uhppote.Gen.Messages
import Uhppote.Gen.Types
import Uhppote.Props.C05
import Uhppote.Gen.Routing
import Uhppote.Gen.Source
/-! # C04 — nothing the network or the caller supplies can crash the library

`Outcome.panic` is an explicit outcome of every modelled slice / index operation. Theorems: for
every shipped message type (layouts regenerated) and EVERY byte string of any length the decoder
and the dispatchers return a value or an error; encoding in-domain values never panics (C05); the
string table of `ControlState` is guarded. Arbitrary argument tuples of the operations and the
rendering of every returned value are exercised with `recover` by the ops / msgs streams. -/
namespace Uhppote.Props.C04
open Uhppote Uhppote.Model Uhppote.Spec.Codec

/-- decoding any byte string as any shipped message type never panics -/
theorem C04_unmarshal_total (n : String) (L : Layout) (h : Gen.Messages.all.lookup n = some L) (bytes : Bytes) :
    unmarshal Gen.codecFacts C12.genTables C18.wireBounds L bytes ≠ .panic := by
  have hwf : wf L.leaves = true := by
    have := C05.C05_all_wf
    rw [List.all_eq_true] at this
    exact this (n, L) (C01.mem_of_lookup _ _ _ h)
  exact C18.C18_unmarshal_no_panic L hwf bytes

/-- encoding any shipped message type never panics, **whatever values its fields hold** (an 8-byte MAC, a date past
    year 9999, 100 hours, an address that is not IPv4: the request an operation builds from arbitrary arguments) -/
theorem C04_marshal_total (n : String) (L : Layout) (h : Gen.Messages.all.lookup n = some L) (vs : List Val)
    (hgo : Proofs.Codec.allGo vs) : marshal Gen.codecFacts C12.genTables L vs ≠ .panic := by
  have hwf : wf L.leaves = true := by
    have := C05.C05_all_wf
    rw [List.all_eq_true] at this
    exact this (n, L) (C01.mem_of_lookup _ _ _ h)
  exact (C18.C18_confined L vs hwf hgo).1

/-- the dispatchers never panic, whatever the table says -/
theorem C04_dispatch_total (table : List (Nat × String)) (bytes : Bytes) :
    dispatch Gen.codecFacts C12.genTables C18.wireBounds table (fun n => Gen.Messages.all.lookup n) bytes ≠ .panic := by
  unfold dispatch
  split
  · simp
  · split
    · simp
    · split
      · simp
      · split
        · simp
        · rename_i n _ L hL
          have := C04_unmarshal_total _ L hL bytes
          split
          · simp
          · simp
          · rename_i hp; exact absurd hp this

/-- the listener's handler and `sendto` check the length before any indexed access
    (regenerated list of sendto's checks: `len(response) != 64` precedes `response[4:8]`) -/
theorem C04_length_checked_first :
    (Gen.Routing.sendtoChecks.idxOf "len(response) != 64") <
    (Gen.Routing.sendtoChecks.idxOf "ID := binary.LittleEndian.Uint32(response[4:8]); serialNumber != 0 && ID != serialNumber") := by
  decide

/-- T5: `ControlState.String` indexes a table by the value behind a range guard, and
    `MarshalJSON` goes through `String` -/
theorem C04_control_state_guarded :
    Gen.Types.controlStateStringGuard = "v < 0 || int(v) >= len(states)" ∧
    Gen.Types.controlStateStringTable.length = 4 ∧
    Gen.Types.controlStateMarshalJSONDelegatesToString = true ∧
    Gen.Types.controlStateMarshalJSONIndexesByValue = false := by decide

/-- rendering the control state of a door never panics, whatever byte the controller sent -/
theorem C04_control_state_render (b : UInt8) :
    renderControlState Gen.Types.controlStateStringTable.length
      (Gen.Types.controlStateStringGuard == "v < 0 || int(v) >= len(states)") b.toNat ≠ .panic := by
  have : (Gen.Types.controlStateStringGuard == "v < 0 || int(v) >= len(states)") = true := by decide
  simp [renderControlState, this]

/-! non-vacuity: without the guard a wire byte of 7 would index past the table -/
example : renderControlState 4 false 7 = .panic := by decide
example : renderControlState 4 false 3 = .ok () := by decide

/-- where the library panics on purpose (regenerated inventory of `panic(…)` calls in the four packages): the five
    `MustParse…` constructors, whose contract that is; the two "field of an unsupported type" branches of the codec,
    unreachable for the kinds of `C18`; and `HHmm.before / after` for an argument that is neither a time nor an HH:mm,
    unreachable through the exported `Before / After` of the two supported types. Every other panic would have to come
    from an index, a slice, a nil dereference or a map write - which is what the model's explicit `.panic` outcomes
    and the recover-guarded streams are about. -/
theorem C04_panic_sites : Gen.Source.panicSites =
    ["encoding/UTO311-L0x/UT0311-L0x.go:marshal: 1", "encoding/UTO311-L0x/UT0311-L0x.go:unmarshal: 1",
     "types/HHmm.go:HHmm.before: 1", "types/HHmm.go:HHmm.after: 1",
     "types/bind_addr.go:MustParseBindAddr: 1", "types/broadcast_addr.go:MustParseBroadcastAddr: 1",
     "types/controller_addr.go:MustParseControllerAddr: 1", "types/date.go:MustParseDate: 1",
     "types/listen_addr.go:MustParseListenAddr: 1"] := by decide

end Uhppote.Props.C04
