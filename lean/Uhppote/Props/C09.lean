import Uhppote.Model.Driver
import Uhppote.Gen.Driver
import Uhppote.Gen.Source
/-! # C09 — every call ends within its timeout and releases its socket and goroutines (partial)

`Model.Driver.exchange` is one request method of uhppote/UT0311.go as a timed function of what
arrives, parametrised by the statement-order facts the translator regenerates. Partial: the
model's clock is abstract; wall-clock, the descriptor table and the scheduler are the Go
runtime's and the kernel's — they are observed by the `drv`, `lock` and `leak` streams on
loopback sockets. -/
set_option linter.unusedSimpArgs false
namespace Uhppote.Props.C09
open Uhppote Uhppote.Model.Driver

/-- T5: the statement order of the three directed / filtered request methods today: the lock is
    taken (for a fixed bind port) before the socket is opened and released by defer; BOTH deadlines
    (dial and socket) are computed after the lock; Close is deferred right after a successful
    open; exactly one write; function code 0x96 returns without reading -/
theorem C09_facts : Gen.Driver.BroadcastTo.good = true ∧ Gen.Driver.SendUDP.good = true ∧
    Gen.Driver.SendTCP.good = true ∧ Gen.Driver.BroadcastTo.readsInLoop = true ∧
    Gen.Driver.SendUDP.readsInLoop = false ∧ Gen.Driver.SendTCP.readsInLoop = false ∧
    Gen.Driver.Broadcast.closeDeferredAfterOpen = true ∧ Gen.Driver.Broadcast.sleepsForTimeout = true ∧
    Gen.Driver.Broadcast.writes = 1 := by decide

theorem budget_good (F : MethodFacts) (hF : F.good = true) (T waited : Nat) : budget F T waited = T := by
  simp only [MethodFacts.good, Bool.and_eq_true] at hF
  simp [budget, hF.1.1.1.1.1.1.2, hF.1.1.1.1.1.2]

/-- **never later than the timeout**: whatever the network does (silence, late replies, a flood of
    non-passing datagrams, accept-and-stall, reset, refused), the call returns at most one timeout
    after it acquired the port — which it also holds for at most one timeout -/
theorem C09_returns_within_timeout (F : MethodFacts) (path : Path) (T waited : Nat) (sp : Special) (arr : List Arrival) :
    (exchange F path T waited sp arr).2 ≤ budget F T waited ∧ budget F T waited ≤ T := by
  have hb : budget F T waited ≤ T := by unfold budget; split <;> omega
  refine ⟨?_, hb⟩
  unfold exchange
  cases sp <;> simp only
  · cases path <;> simp only
    · split
      · rename_i a ha
        have := List.find?_some ha
        simp only [Bool.and_eq_true, decide_eq_true_eq] at this
        exact Nat.le_of_lt this.2
      · exact Nat.le_refl _
    · split
      · split
        · rename_i h; exact Nat.le_of_lt h
        · exact Nat.le_refl _
      · exact Nat.le_refl _
    · split
      · split
        · rename_i h; exact Nat.le_of_lt h
        · exact Nat.le_refl _
      · exact Nat.le_refl _
  · exact Nat.zero_le _
  · exact Nat.le_refl _
  · exact Nat.zero_le _

/-- the time a TCP connection takes to come up is part of the one timeout, not in addition to it: with the
    regenerated fact (SendTCP computes `deadline` once and hands that value to the dialer and to the
    connection) a controller that accepts late and never answers makes the call return exactly one
    timeout after the port was acquired, whatever the connect time -/
theorem C09_tcp_connect_time_counts (T connect : Nat) :
    tcpStallReturn Gen.Driver.tcpSingleDeadline T connect = T := by
  have h : Gen.Driver.tcpSingleDeadline = true := by decide
  unfold tcpStallReturn
  rw [h]
  split <;> rfl

/-- … and why the fact matters: a deadline recomputed after the connect adds the connect time -/
example : tcpStallReturn false 2500 1000 = 3500 := by decide

/-- with no acceptable datagram the call fails (an error result), never a made-up value -/
theorem C09_silence_is_an_error (F : MethodFacts) (path : Path) (T waited : Nat) :
    (exchange F path T waited .none []).1 = false ∧ (exchange F path T waited .stall []).1 = false := by
  cases path <;> simp [exchange]

/-- **never gives up early** (broadcast path): the first passing datagram that arrives any time
    before one full timeout after the port was acquired is accepted — however long the call had
    to wait for the port first -/
theorem C09_never_early_broadcast (F : MethodFacts) (hF : F.good = true) (T waited : Nat)
    (pre post : List Arrival) (a : Arrival) (hpre : ∀ x ∈ pre, x.passes = false)
    (hp : a.passes = true) (hv : a.valid = true) (ht : a.t < T) :
    exchange F .broadcastTo T waited .none (pre ++ a :: post) = (true, a.t) := by
  simp only [exchange, budget_good F hF]
  have : (pre ++ a :: post).find? (fun x => x.passes && decide (x.t < T)) = some a := by
    rw [List.find?_append]
    have h1 : pre.find? (fun x => x.passes && decide (x.t < T)) = none := by
      rw [List.find?_eq_none]; intro x hx; simp [hpre x hx]
    simp [h1, List.find?_cons, hp, ht]
  simp [this, hv]

/-- … and on the directed paths the first datagram decides, if it arrives before the deadline -/
theorem C09_never_early_directed (F : MethodFacts) (hF : F.good = true) (path : Path) (hpath : path ≠ .broadcastTo)
    (T waited : Nat) (a : Arrival) (rest : List Arrival) (ht : a.t < T) :
    exchange F path T waited .none (a :: rest) = (a.passes && a.valid, a.t) := by
  cases path <;> simp [exchange, budget_good F hF, ht] at *

/-- why the order of `deadline :=` and `guard.Lock()` matters (defect D13, repaired): with the
    deadline computed before the lock, a call that waited a whole timeout for the port gives up at
    once although its controller answers after 50 ms -/
theorem C09_deadline_before_lock_gives_up_early :
    exchange { Gen.Driver.BroadcastTo with socketDeadlineAfterLock := false } .broadcastTo 400 400 .none
      [⟨50, true, true⟩] = (false, 0) := by decide

/-- **resources**: after any sequence of calls (requests and discoveries) the process holds the
    sockets and goroutines it held before -/
theorem C09_resources_restored (F : MethodFacts) (hF : F.closeDeferredAfterOpen = true) :
    ∀ (calls : List Bool) (r : Res), afterCalls F calls r = r
  | [], _ => rfl
  | d :: ds, r => by
    have h1 : afterCall F d r = r := by simp [afterCall, hF]
    simp only [afterCalls, h1]
    exact C09_resources_restored F hF ds r

theorem C09_resources_all_methods (calls : List Bool) (r : Res) :
    afterCalls Gen.Driver.BroadcastTo calls r = r ∧ afterCalls Gen.Driver.SendUDP calls r = r ∧
    afterCalls Gen.Driver.SendTCP calls r = r ∧ afterCalls Gen.Driver.Broadcast calls r = r :=
  ⟨C09_resources_restored _ (by decide) calls r, C09_resources_restored _ (by decide) calls r,
   C09_resources_restored _ (by decide) calls r, C09_resources_restored _ (by decide) calls r⟩

/-! non-vacuity -/
example : exchange Gen.Driver.BroadcastTo .broadcastTo 200 150 .none [⟨10, false, false⟩, ⟨30, true, true⟩, ⟨40, true, true⟩] = (true, 30) := by decide
example : exchange Gen.Driver.SendTCP .tcp 200 0 .stall [] = (false, 200) := by decide
example : afterCall { Gen.Driver.Broadcast with closeDeferredAfterOpen := false } true ⟨3, 5⟩ = ⟨4, 6⟩ := by decide

/-- "any goroutine it started ends promptly": the goroutines there are to end (regenerated inventory of `go`
    statements) - the request paths start none, discovery one collector, the listener a reader, a shutdown watcher and
    a dispatcher; the `leak` stream counts goroutines around calls of each of them -/
theorem C09_goroutines : Gen.Source.goStatements = ["uhppote/UT0311.go:ut0311.Broadcast: 1", "uhppote/UT0311.go:ut0311.Listen: 2", "uhppote/listen.go:uhppote.Listen: 1"] := by decide

end Uhppote.Props.C09
