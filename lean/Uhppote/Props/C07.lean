import Uhppote.Model.Api
import Uhppote.Gen.Ops
import Uhppote.Spec.Api
import Uhppote.Gen.Routing
/-! # C07 — invalid arguments are rejected before anything is sent

`Model.Api.ops` carries the guard chain of every operation as written in `uhppote/<op>.go`
(hand-modelled, tied by the `ops` and `guards` correspondence streams); `Spec.Api.ops` states the
rejection rule of the property. -/
set_option linter.unusedSimpArgs false
namespace Uhppote.Props.C07
open Uhppote Uhppote.Model Uhppote.Model.Api
open Uhppote.Gen.Ops (ops findOp)

/-- Wiegand-26 as the code computes it = facility code 0..255 followed by a five-digit number
    0..65535, for EVERY card number (all of uint32 and beyond) -/
theorem C07_wiegand26 (n : Nat) : isWiegand26 n = true ↔ (n / 100000 ≤ 255 ∧ n % 100000 ≤ 65535) := by
  unfold isWiegand26
  by_cases h1 : n / 100000 > 255 <;> by_cases h2 : n % 100000 > 65535 <;> simp [h1, h2] <;> omega

theorem C07_wiegand26_spec (n : Nat) : isWiegand26 n = Spec.Api.wiegand26 n := by
  unfold isWiegand26 Spec.Api.wiegand26
  by_cases h1 : n / 100000 > 255 <;> by_cases h2 : n % 100000 > 65535 <;> simp [h1, h2] <;> omega

theorem C07_formats (card : Nat) (fs : List Nat) : isCardNumberValid card fs = Spec.Api.formatsOk card fs := by
  unfold isCardNumberValid Spec.Api.formatsOk
  congr 1
  induction fs with
  | nil => rfl
  | cons f r ih =>
    simp only [List.any_cons]
    rw [ih]
    congr 1
    rw [C07_wiegand26_spec]
    by_cases h1 : f = 1
    · subst h1; simp
    · by_cases h0 : f = 0 <;> simp [h1, h0]

/-- the helpers as regenerated from uhppote/put_card.go are the hand-written ones the lemmas above are about -/
theorem C07_helpers_regenerated :
    Gen.Ops.isWiegand26 = Model.Api.isWiegand26 ∧ (∀ n, Gen.Ops.isWiegandAny n = true) ∧
    Gen.Ops.isCardNumberValid = Model.Api.isCardNumberValid := by
  refine ⟨rfl, fun _ => rfl, ?_⟩
  funext card fs
  unfold Gen.Ops.isCardNumberValid Model.Api.isCardNumberValid
  congr 1
  induction fs with
  | nil => rfl
  | cons f r ih =>
    simp only [List.any_cons, ih]
    congr 1
    have hw : Gen.Ops.isWiegand26 card = Model.Api.isWiegand26 card := rfl
    by_cases h1 : f = 1
    · subst h1; simp [hw, Gen.Ops.isWiegandAny]
    · by_cases h0 : f = 0
      · subst h0; simp [Gen.Ops.isWiegandAny]
      · simp [h1, h0]

theorem u8_toNat (x : Arg) : (u8? x).toNat = Spec.Api.n8 x := by
  cases x with
  | v y => cases y <;> rfl
  | _ => rfl

/-- device id of a call as both sides read it -/
theorem devZero_eq (xs : List Arg) : devZero xs = Spec.Api.noId xs := by
  unfold devZero Spec.Api.noId u32? Spec.Api.n32 Spec.Api.a
  rfl

theorem seg_eq (x : Arg) : segRejected x = Spec.Api.segBad x := by
  unfold segRejected Spec.Api.segBad
  cases x with
  | seg s =>
    cases s with
    | none => rfl
    | some p =>
      obtain ⟨s, e⟩ := p
      simp only
      by_cases h1 : e.h < s.h <;> by_cases h2 : e.h = s.h <;> by_cases h3 : e.m < s.m <;> simp [h1, h2, h3] <;> omega
  | _ => rfl

theorem notIPv4_eq (x : Arg) : notIPv4 x = !Spec.Api.isIPv4 x := by
  cases x with
  | v y =>
    cases y with
    | ip bs =>
      simp only [notIPv4, Spec.Api.isIPv4]
      unfold to4 v4InV6Prefix
      by_cases h4 : bs.length = 4
      · simp [h4]
      · by_cases h16 : bs.length = 16
        · by_cases hp : List.take 12 bs = [0, 0, 0, 0, 0, 0, 0, 0, 0, 0, 0xff, 0xff] <;> simp [h4, h16, hp]
        · simp [h4, h16]
    | _ => rfl
  | _ => rfl

/-- SetListener's two address guards (`!address.IsValid()`, then `address != 0.0.0.0:0 && (!Is4 ||
    port == 0)`), as translated, are the rule "anything but 0.0.0.0:0 or an IPv4 address with a
    non-zero port is rejected" -/
theorem listener_eq (x : Arg) :
    (!(apValid x) || (!(apIsZero x) && (!(apIs4 x) || (apPort x == 0)))) =
    (match x with
     | .v (.addrPort (.v4 x y z w p)) => !((x == 0 && y == 0 && z == 0 && w == 0 && p == 0) || p != 0)
     | _ => true) := by
  cases x with
  | v y =>
    cases y with
    | addrPort ap =>
      cases ap with
      | v4 a b c d p =>
        simp only [apValid, apIsZero, apIs4, apPort]
        by_cases hp : p = 0
        · subst hp; simp
        · have h1 : (p == 0) = false := by simpa using hp
          have h2 : (p != 0) = true := by simp [bne, h1]
          simp [h1, h2]
      | other => rfl
    | _ => rfl
  | _ => rfl

/-- **the guards of every operation are exactly the rejection rule of the property** — for all
    argument tuples of all 31 `sendto`-based operations -/
theorem C07_guards : ∀ op ∈ ops, ∃ sop, Spec.Api.findOp op.name = some sop ∧
    ∀ args, op.rejects args = sop.rejects args := by
  intro op hop
  simp only [ops, List.mem_cons, List.mem_nil_iff, or_false] at hop
  rcases hop with rfl | rfl | rfl | rfl | rfl | rfl | rfl | rfl | rfl | rfl | rfl | rfl | rfl | rfl | rfl | rfl |
    rfl | rfl | rfl | rfl | rfl | rfl | rfl | rfl | rfl | rfl | rfl | rfl | rfl | rfl | rfl
  all_goals refine ⟨_, rfl, ?_⟩
  all_goals intro args
  all_goals try (exact devZero_eq args)
  -- SetAddress
  · simp only [devZero_eq, notIPv4_eq, Spec.Api.a, arg]
  -- SetListener
  · simp only [devZero_eq, Bool.or_assoc, listener_eq]; rfl
  -- PutCard
  · show (devZero args || _ || _ || _ || _ || _) = (Spec.Api.noId args || _ || _ || _ || _ || _)
    rw [devZero_eq, C07_helpers_regenerated.2.2, C07_formats]
    rfl
  -- SetTimeProfile
  · simp only [devZero_eq, seg_eq, Spec.Api.a, arg]
    congr 5
    · cases args.getD 3 .absent <;> simp [date?, Spec.Api.isZeroDate]
      rename_i v; cases v <;> simp [date?, Spec.Api.isZeroDate]
      rename_i d; cases d <;> simp
    · cases args.getD 4 .absent <;> simp [date?, Spec.Api.isZeroDate]
      rename_i v; cases v <;> simp [date?, Spec.Api.isZeroDate]
      rename_i d; cases d <;> simp
  -- SetDoorPasscodes
  · show (devZero args || decide ((u8? (arg args 1)).toNat < 1) || decide ((u8? (arg args 1)).toNat > 4)) = _
    rw [devZero_eq, u8_toNat]
    rfl

/-- a rejected call puts nothing on the network (whatever the configuration and the network do) -/
theorem C07_rejected_sends_nothing (F : CodecFacts) (T : BCD.Tables) (B : HHmmBounds)
    (layouts : String → Option Layout) (code : Nat) (cfg : Cfg) (op : Op) (args : List Arg)
    (arrivals : List Bytes) (h : op.rejects args = true) :
    (call F T B layouts code cfg op args arrivals).1.calls = [] ∧
    (call F T B layouts code cfg op args arrivals).1.res = .err := by
  simp [call, h]

/-- SetDoorPasscodes sends 0 for passcodes above 999999 or beyond the fourth -/
theorem C07_passcodes (ps : List Nat) (i : Nat) :
    passcode ps i = (match ps[i]? with
      | some p => if p ≤ 999999 then Val.u32 p else Val.u32 0
      | none => Val.u32 0) ∧ passcode ps i = Spec.Api.code4 ps i := by
  constructor
  · rfl
  · unfold passcode Spec.Api.code4
    cases ps[i]? with
    | none => rfl
    | some p => by_cases h : p ≤ 999999 <;> simp [h]

/-- sendto re-checks the controller id first (generated: the checks of sendto in source order) -/
theorem C07_sendto_checks : Gen.Routing.sendtoChecks.head? = some "serialNumber == 0" := by decide

/-! non-vacuity -/
example : isWiegand26 25565535 = true ∧ isWiegand26 25565536 = false ∧ isWiegand26 25600000 = false ∧
    isWiegand26 100000000 = false := by decide
example : (ops.find? (·.name == "PutCard")).isSome = true := by decide

end Uhppote.Props.C07
