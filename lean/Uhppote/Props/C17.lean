import Uhppote.Model.Heap
import Uhppote.Gen.Alias
import Uhppote.Gen.Facts
import Uhppote.Gen.Source
/-! # C17 — clients are insulated from later input changes, results from network buffers (partial)

Heap model with identity (`Model.Heap`) + the syntactic facts the translator reads off the
sources (`Gen.Alias`, `Gen.codecFacts`). Partial: Go memory identity is represented only through
those facts; the dynamic half is the `insulate` correspondence stream (construct, mutate
caller-side data, call, mutate returned data, scribble over delivered buffers). -/
namespace Uhppote.Props.C17
open Uhppote Uhppote.Model Uhppote.Model.Heap

/-- T5: the facts the theorems below are instantiated with -/
theorem C17_facts :
    Gen.Alias.writesThroughParameters = [] ∧                       -- no operation writes through an argument
    Gen.Alias.constructorMap = "map[uint32]Device{}" ∧ Gen.Alias.constructorStores = "device.Clone()" ∧
    Gen.Alias.deviceListMap = "map[uint32]Device{}" ∧
    Gen.Alias.routingReads = ["Address", "Protocol"] ∧
    Gen.Alias.deviceFields.lookup "Address" = some "types.ControllerAddr" ∧     -- a value type
    Gen.Alias.deviceFields.lookup "Protocol" = some "string" ∧                  -- immutable
    Gen.Alias.deviceCloneDoors = "make([]string, len(d.Doors))" ∧ Gen.Alias.deviceCloneCopiesDoors = true ∧
    Gen.Alias.cardCloneDoors = "new map[uint8]uint8 literal with 4 entries" ∧
    Gen.Alias.macAddressDecoderCopies = true ∧
    Gen.codecFacts.macReaderCopies = true ∧ Gen.codecFacts.ipReaderCopies = true := by decide

theorem read_write_ne (h : Heap) (l l' : Loc) (v : List Nat) (hne : l ≠ l') : (h.write l v).read l' = h.read l' := by
  simp [Heap.read, Heap.write, List.getD, List.getElem?_set_ne hne]

theorem size_write (h : Heap) (l : Loc) (v : List Nat) : (h.write l v).size = h.size := by
  simp [Heap.size, Heap.write]

theorem size_writes (h : Heap) (ws : List (Loc × List Nat)) : (writes h ws).size = h.size := by
  induction ws generalizing h with
  | nil => rfl
  | cons w ws ih => simp [writes, List.foldl_cons] at *; rw [ih]; exact size_write _ _ _

/-- writes to other locations do not change what a location holds -/
theorem read_writes (h : Heap) (ws : List (Loc × List Nat)) (l : Loc) (hl : ∀ w ∈ ws, w.1 ≠ l) :
    (writes h ws).read l = h.read l := by
  induction ws generalizing h with
  | nil => rfl
  | cons w ws ih =>
    simp only [writes, List.foldl_cons]
    have := ih (h.write w.1 w.2) (fun x hx => hl x (by simp [hx]))
    simp only [writes] at this
    rw [this, read_write_ne _ _ _ _ (hl w (by simp))]

theorem construct_fresh : ∀ (h : Heap) (ds : List Device),
    (∀ c ∈ (construct h ds).2, h.size ≤ c.doors) ∧ h.size ≤ (construct h ds).1.size ∧
    (construct h ds).2.map (fun c => (c.serial, c.address, c.protocol)) = ds.map (fun d => (d.serial, d.address, d.protocol))
  | h, [] => by simp [construct]
  | h, d :: ds => by
    have ih := construct_fresh (cloneDevice h d).1 ds
    have hs : (cloneDevice h d).1.size = h.size + 1 := by simp [cloneDevice, Heap.alloc, Heap.size]
    simp only [construct]
    refine ⟨?_, ?_, ?_⟩
    · intro c hc
      rcases List.mem_cons.1 hc with rfl | hc'
      · simp [cloneDevice, Heap.alloc, Heap.size]
      · have := ih.1 c hc'; omega
    · have := ih.2.1; omega
    · simp only [List.map_cons, ih.2.2]; rfl

/-- **(a) the client keeps its own copy**: whatever the caller writes afterwards to storage it
    owns (its device list, the door-name slices), and whatever is written to the map and the
    slices returned by `DeviceList`, where requests go does not change; and the client's own
    door-name storage is untouched by writes to caller-owned storage -/
theorem C17_storage_insulated (h : Heap) (ds : List Device) (ws : List (Loc × List Nat))
    (hw : ∀ w ∈ ws, w.1 < h.size) :
    ∀ c ∈ (construct h ds).2, (writes (construct h ds).1 ws).read c.doors = (construct h ds).1.read c.doors := by
  intro c hc
  apply read_writes
  intro w hwm
  have h1 : h.size ≤ c.doors := (construct_fresh h ds).1 c hc
  have h2 : w.1 < h.size := hw w hwm
  exact Nat.ne_of_lt (Nat.lt_of_lt_of_le h2 h1)

/-- … and where requests go is a function of the by-value fields the client was built with and of
    nothing else: no later write to any storage (the caller's list and slices, the map and slices
    returned by `DeviceList`) can change it -/
theorem C17_routes_as_configured (h : Heap) (ds : List Device) (serial : Nat) :
    routeOf (construct h ds).2 serial = routeOf ds serial := by
  have := (construct_fresh h ds).2.2
  unfold routeOf
  induction ds generalizing h with
  | nil => simp [construct]
  | cons d ds ih =>
    simp only [construct, List.find?_cons]
    have hser : (cloneDevice h d).2.serial = d.serial := rfl
    rw [hser]
    by_cases hs : (d.serial == serial) = true
    · simp [hs, cloneDevice]
    · simp only [hs]
      exact ih (cloneDevice h d).1 (construct_fresh _ ds).2.2

/-- **(d) cloning** a card (or a device) yields equal contents in storage nobody else holds -/
theorem C17_clone_independent (h : Heap) (doors : Loc) (hd : doors < h.size) :
    (cloneMap h doors).1.read (cloneMap h doors).2 = h.read doors ∧ (cloneMap h doors).2 ≠ doors ∧
    (∀ v, ((cloneMap h doors).1.write (cloneMap h doors).2 v).read doors = (cloneMap h doors).1.read doors) ∧
    (∀ v, ((cloneMap h doors).1.write doors v).read (cloneMap h doors).2 = (cloneMap h doors).1.read (cloneMap h doors).2) := by
  have hne : h.cells.length ≠ doors := Nat.ne_of_gt hd
  have e2 : (cloneMap h doors).2 = h.cells.length := rfl
  rw [e2]
  refine ⟨?_, hne, fun v => read_write_ne _ _ _ _ hne, fun v => read_write_ne _ _ _ _ (Ne.symm hne)⟩
  simp [cloneMap, Heap.alloc, Heap.read, List.getD]

/-- **(c) results do not depend on later reuse of the receive buffer** when the reader copies
    (the regenerated facts say every slice reader does) -/
theorem C17_result_insulated (h : Heap) (buf : Loc) (hb : buf < h.size) (junk : List Nat) :
    (decodeSlice true h buf).2.value ((decodeSlice true h buf).1.write buf junk) =
    (decodeSlice true h buf).2.value (decodeSlice true h buf).1 := by
  have hne : buf ≠ h.cells.length := Nat.ne_of_lt hb
  show ((decodeSlice true h buf).1.write buf junk).read h.cells.length = (decodeSlice true h buf).1.read h.cells.length
  exact read_write_ne _ _ _ _ hne

/-- … and would depend on it if a reader stored a view (the raw MAC reader before its repair) -/
theorem C17_view_is_not_insulated :
    (decodeSlice false ⟨[[1, 2, 3, 4, 5, 6]]⟩ 0).2.value ((decodeSlice false ⟨[[1, 2, 3, 4, 5, 6]]⟩ 0).1.write 0 [9, 9, 9, 9, 9, 9]) ≠
    (decodeSlice false ⟨[[1, 2, 3, 4, 5, 6]]⟩ 0).2.value (decodeSlice false ⟨[[1, 2, 3, 4, 5, 6]]⟩ 0).1 := by decide

/-! non-vacuity -/
example : (construct ⟨[[10, 11], [20]]⟩ [⟨405419896, 1, 2, 3, 0⟩, ⟨303986753, 4, 5, 6, 1⟩]).2.map (·.doors) = [2, 3] := by decide

/-- the copy of the configuration taken at construction is never written again: no method of the client stores into
    its receiver (regenerated list: empty) - so where requests go cannot come to depend on anything that happens after
    construction -/
theorem C17_config_never_written : Gen.Source.receiverWrites = [] := by decide

end Uhppote.Props.C17
