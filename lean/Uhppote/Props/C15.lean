import Uhppote.Gen.Addr
import Uhppote.Proofs.Addr
import Uhppote.Gen.Source
/-! # C15 — address parsing accepts exactly IPv4[:port] under each role's port rule

`Model.Addr.parse` = regex pre-filter (unanchored search, modelled as a nondeterministic
matcher for the two literal patterns) + `netip` on the whole string + the role's port rule; the
rules, default ports and regex literals are regenerated (`Gen.Addr`). `netip` is modelled for
strings over digits, '.' and ':'; its behaviour on other strings that pass a gate (e.g.
`::ffff:1.2.3.4`) is outside the property and answered `unspecified`. -/
set_option linter.unusedVariables false
set_option linter.unusedSimpArgs false
namespace Uhppote.Props.C15
open Uhppote Uhppote.Model.Addr Uhppote.Proofs.Addr

/-- T3g: port rules, default ports, omitted ports and the regex gates in the sources today -/
theorem C15_roles :
    Gen.Addr.bind = ⟨true, [60000], 0⟩ ∧ Gen.Addr.broadcast = ⟨true, [0], 60000⟩ ∧
    Gen.Addr.listen = ⟨false, [0, 60000], 0⟩ ∧ Gen.Addr.controller = ⟨true, [0], 60000⟩ ∧
    Gen.Addr.bindOmitPort = some 0 ∧ Gen.Addr.broadcastOmitPort = some 60000 ∧
    Gen.Addr.listenOmitPort = none ∧ Gen.Addr.controllerOmitPort = some 60000 := by decide

theorem C15_regexes :
    let ap := "[0-9]{1,3}\\.[0-9]{1,3}\\.[0-9]{1,3}\\.[0-9]{1,3}:[0-9]{1,5}"
    let a := "[0-9]{1,3}\\.[0-9]{1,3}\\.[0-9]{1,3}\\.[0-9]{1,3}"
    Gen.Addr.bindRegexes = [ap, a] ∧ Gen.Addr.broadcastRegexes = [ap, a] ∧
    Gen.Addr.listenRegexes = [ap] ∧ Gen.Addr.controllerRegexes = [ap, a] := by decide

theorem plain_show (a b c d : Nat) : plain (showQuad a b c d) = true := by
  unfold plain showQuad
  simp only [List.all_append, List.all_cons, Bool.and_eq_true]
  have h := fun n => by
    have := dec_all_dig n
    rw [List.all_eq_true] at this
    exact (List.all_eq_true.2 fun c hc => by simp [this c hc] : (dec n).all (fun c => isDig c || c == '.' || c == ':') = true)
  simp [h]

theorem no_colon_show (a b c d : Nat) : ':' ∉ showQuad a b c d := by
  unfold showQuad
  have h := fun n => (dec_no_special n).1
  simp [h]

/-- **a.b.c.d:port**: for all octets 0..255 and all ports 0..65535, every role: accepted with
    exactly that address and port iff the port satisfies the role's rule -/
theorem C15_addr_port (ro : Role) (a b c d p : Nat) (ha : a < 256) (hb : b < 256) (hc : c < 256) (hd : d < 256)
    (hp : p < 65536) :
    parse ro (showQuad a b c d ++ ':' :: dec p) =
      if ro.rejectedPorts.contains p then .err else .ok (a, b, c, d, p) := by
  unfold parse
  rw [hasQuadPort_show a b c d p ha hb hc hd hp]
  simp only [if_true]
  have hplain : plain (showQuad a b c d ++ ':' :: dec p) = true := by
    unfold plain
    rw [List.all_append]
    have h1 := plain_show a b c d
    unfold plain at h1
    rw [h1]
    have := dec_all_dig p
    rw [List.all_eq_true] at this
    simp only [List.all_cons, Bool.true_and, Bool.and_eq_true]
    constructor
    · decide
    · rw [List.all_eq_true]; intro x hx; simp [this x hx]
  have hq := no_colon_show a b c d
  have hdp := (dec_no_special p).1
  have hcount : ((showQuad a b c d ++ ':' :: dec p).filter (· == ':')).length = 1 := by
    rw [List.filter_append, List.filter_cons]
    have f1 : (showQuad a b c d).filter (· == ':') = [] := by
      rw [List.filter_eq_nil_iff]; intro x hx; simp; intro h; subst h; exact hq hx
    have f2 : (dec p).filter (· == ':') = [] := by
      rw [List.filter_eq_nil_iff]; intro x hx; simp; intro h; subst h; exact hdp hx
    simp [f1, f2]
  have htake : (showQuad a b c d ++ ':' :: dec p).takeWhile (· != ':') = showQuad a b c d := by
    rw [List.takeWhile_append_of_pos]
    · simp
    · intro x hx; simp; intro h; subst h; exact hq hx
  have hdrop : ((showQuad a b c d ++ ':' :: dec p).dropWhile (· != ':')).drop 1 = dec p := by
    rw [List.dropWhile_append_of_pos]
    · simp
    · intro x hx; simp; intro h; subst h; exact hq hx
  have hport : parsePort (dec p) = some p := by
    unfold parsePort
    have hl := dec_length p
    have hne : (dec p).isEmpty = false := by
      cases h : dec p with
      | nil => simp [h] at hl
      | cons _ _ => rfl
    simp only [hne, dec_all_dig p, Bool.not_true, Bool.false_eq_true, or_self, if_false]
    -- dropping leading zeros of canonical text changes nothing unless the text is "0"
    by_cases hp0 : p < 10
    · have : dec p = [dch p] := by rw [dec_eq]; simp [hp0]
      rw [this]
      by_cases hz : dch p = '0'
      · have : p % 10 = 0 := (dch_zero p).1 hz
        have hp' : p = 0 := by omega
        subst hp'
        simp [hz, decVal]
      · have hb : (dch p == '0') = false := by simpa using hz
        simp only [List.dropWhile_cons, hb]
        simp [decVal, dch_val]; omega
    · have hnz := dec_no_leading_zero p (by omega)
      have hlen : (dec p).length > 1 := by
        rw [dec_eq]; simp only [hp0, if_false]; split <;> (try split) <;> (try split) <;> simp
      have hhead : (dec p).head? ≠ some '0' := fun h => hnz ⟨hlen, h⟩
      have hdw : (dec p).dropWhile (· == '0') = dec p := by
        cases hd' : dec p with
        | nil => rfl
        | cons x xs =>
          rw [hd'] at hhead
          simp only [List.head?_cons, ne_eq, Option.some.injEq] at hhead
          have : (x == '0') = false := by simpa using hhead
          simp [List.dropWhile_cons, this]
      rw [hdw, decVal_dec p (by omega)]
      have : ¬ (dec p).length > 5 := by omega
      have h2 : ¬ p > 65535 := by omega
      simp [this, h2]
  unfold netipAddrPort
  simp only [hplain, hcount, Bool.not_true, Bool.false_eq_true, ne_eq, not_true_eq_false, or_self, if_false,
    htake, hdrop, parseV4_show a b c d ha hb hc hd, hport]

/-- **a.b.c.d**: the role's default port (0 bind, 60000 broadcast / controller); a listen address
    must carry its port -/
theorem C15_addr_only (ro : Role) (a b c d : Nat) (ha : a < 256) (hb : b < 256) (hc : c < 256) (hd : d < 256) :
    parse ro (showQuad a b c d) =
      if ro.hasAddrOnlyBranch then .ok (a, b, c, d, ro.defaultPort) else .err := by
  unfold parse
  rw [hasQuadPort_no_colon _ (no_colon_show a b c d)]
  have hq := hasQuad_show a b c d ha hb hc hd []
  rw [List.append_nil] at hq
  simp only [Bool.false_eq_true, if_false, hq, and_true]
  by_cases hbr : ro.hasAddrOnlyBranch = true
  · simp only [hbr, if_true]
    unfold netipAddr
    have hany : (showQuad a b c d).any (· == ':') = false := by
      rw [List.any_eq_false]; intro x hx; simp; intro h; subst h; exact no_colon_show a b c d hx
    simp [plain_show, hany, parseV4_show a b c d ha hb hc hd]
  · simp [hbr]

/-- every string that contains no dotted quad at all is rejected, by every role -/
theorem C15_no_quad_rejected (ro : Role) (s : List Char) (h : hasQuad s = false) : parse ro s = .err := by
  unfold parse
  have h2 : hasQuadPort s = false := by
    cases hq : hasQuadPort s with
    | false => rfl
    | true => rw [hasQuad_of_hasQuadPort s hq] at h; cases h
  simp [h, h2]

/-- instantiation to the four roles as regenerated: the port rules of the property -/
theorem C15_port_rules (a b c d p : Nat) (ha : a < 256) (hb : b < 256) (hc : c < 256) (hd : d < 256) (hp : p < 65536) :
    let s := showQuad a b c d ++ ':' :: dec p
    (parse Gen.Addr.bind s = if p = 60000 then .err else .ok (a, b, c, d, p)) ∧
    (parse Gen.Addr.broadcast s = if p = 0 then .err else .ok (a, b, c, d, p)) ∧
    (parse Gen.Addr.listen s = if p = 0 ∨ p = 60000 then .err else .ok (a, b, c, d, p)) ∧
    (parse Gen.Addr.controller s = if p = 0 then .err else .ok (a, b, c, d, p)) := by
  obtain ⟨r1, r2, r3, r4, _⟩ := C15_roles
  simp only [C15_addr_port _ a b c d p ha hb hc hd hp, r1, r2, r3, r4]
  refine ⟨?_, ?_, ?_, ?_⟩ <;>
    simp only [List.contains_cons, List.contains_nil, Bool.or_false, Bool.or_eq_true, beq_iff_eq]

/-- format then parse returns the same address and port, for every address the role accepts -/
theorem C15_format_parse (ro : Role) (om : Option Nat) (hom : ∀ q, om = some q → q = ro.defaultPort ∧ ro.hasAddrOnlyBranch = true)
    (a b c d p : Nat) (ha : a < 256) (hb : b < 256) (hc : c < 256) (hd : d < 256) (hp : p < 65536)
    (hacc : ro.rejectedPorts.contains p = false) :
    parse ro (format om a b c d p) = .ok (a, b, c, d, p) := by
  unfold format
  by_cases h : om = some p
  · obtain ⟨h1, h2⟩ := hom p h
    simp only [h, if_true, C15_addr_only ro a b c d ha hb hc hd, h2, h1]
  · simp only [h, if_false, C15_addr_port ro a b c d p ha hb hc hd hp, hacc]
    simp

/-! non-vacuity -/
example : parse Gen.Addr.listen "192.168.1.100:60001".toList = .ok (192, 168, 1, 100, 60001) := by decide
example : parse Gen.Addr.listen "192.168.1.100:60000".toList = .err := by decide
example : parse Gen.Addr.bind "192.168.1.100".toList = .ok (192, 168, 1, 100, 0) := by decide
example : parse Gen.Addr.controller "qwerty".toList = .err := by decide
example : hasQuad "1.2.3".toList = false := by decide

/-- no address parser keeps anything between calls (patterns compiled by whichever role is parsed first): the package-level variables of the four packages (regenerated) are these ten - the
    codec's patterns and kind table, the two card-format patterns, the bind-port mutex, `NOTIMEOUT` and three error
    values - every one of them initialised when its package is loaded. A `sync.Once`, a lazily filled map or a cache
    would have to appear here. -/
theorem C15_package_state : Gen.Source.packageVars = ["encoding/UTO311-L0x/UT0311-L0x.go:var re", "encoding/UTO311-L0x/UT0311-L0x.go:var tBool,tByte,tUint16,…",
    "encoding/UTO311-L0x/UT0311-L0x.go:var vre", "types/card-format.go:var w26", "types/card-format.go:var wAny",
    "uhppote/UT0311.go:var NOTIMEOUT", "uhppote/UT0311.go:var guard", "uhppote/errors.go:var ErrIncorrectController",
    "uhppote/errors.go:var ErrInvalidCard", "uhppote/errors.go:var ErrInvalidListenerAddress"] := by decide

end Uhppote.Props.C15
