import Uhppote.Model.Api
import Uhppote.Gen.Ops
import Uhppote.Spec.Api
import Uhppote.Gen.Messages
import Uhppote.Props.C18
import Uhppote.Gen.Source
import Uhppote.Gen.Driver
/-! # C01 — every request on the wire is exactly the protocol encoding of the call

For each of the 31 `sendto`-based operations (GetDevices, which has no controller argument, is
covered by C11): the request struct the operation builds, marshalled through the layout
**regenerated from messages/*.go**, is byte for byte the protocol image of the call as
`Spec.Api.requestImage` states it over the protocol tables (function code, little-endian serial
number in bytes 4-7, every argument in its protocol encoding at its protocol offset, the
0x55aaaa55 magic word on destructive operations, zero elsewhere), and exactly one driver call
carries it. -/
set_option linter.unusedSimpArgs false
set_option maxRecDepth 4096
namespace Uhppote.Props.C01
open Uhppote Uhppote.Model Uhppote.Model.Api Uhppote.Spec.Codec
open Uhppote.Gen.Ops (ops findOp)

/-- T1 obligation: every message layout in the sources today is the protocol table's -/
theorem C01_layouts : Gen.Messages.all = Spec.Protocol.all := by decide

/-- every shipped layout is well-formed (fields at 2..63, inside 64 bytes, disjoint ranges) -/
theorem C01_layouts_wf : Spec.Protocol.all.all (fun p => wf p.2.leaves) = true := by decide

theorem v_u8 (x : Arg) : Val.u8 (u8? x) = Spec.Api.u8Or x := by
  cases x with
  | v y => cases y <;> rfl
  | _ => rfl

theorem v_bool (x : Arg) : Val.bool (bool? x) = Spec.Api.boolOr x := by
  cases x with
  | v y => cases y <;> rfl
  | _ => rfl

theorem v_val (x : Arg) : val? x = Spec.Api.valOr x .none_ := by
  cases x <;> rfl

theorem v_conv8 (x : Arg) : Val.u8 (conv8 x) = Spec.Api.low8 x := by
  cases x with
  | v y => cases y <;> rfl
  | _ => rfl

theorem v_dev (xs : List Arg) : dev xs = Spec.Api.serial xs := rfl
theorem v_segS (x : Arg) : segStart x = Spec.Api.segS x := by
  cases x with
  | seg s => cases s <;> rfl
  | _ => rfl
theorem v_segE (x : Arg) : segEnd x = Spec.Api.segE x := by
  cases x with
  | seg s => cases s <;> rfl
  | _ => rfl

theorem v_arg (xs : List Arg) (i : Nat) : arg xs i = Spec.Api.a xs i := rfl
theorem v_magic : Model.Api.magic = Spec.Api.magic := rfl
theorem v_passcode (ps : List Nat) (i : Nat) : passcode ps i = Spec.Api.code4 ps i := by
  unfold passcode Spec.Api.code4
  cases ps[i]? with
  | none => rfl
  | some p => by_cases h : p ≤ 999999 <;> simp [h]

/-- the request struct an operation builds (struct literal, in declaration order) = the
    specification's name-keyed fields read in the order of the protocol table -/
def BuildsSpec (op : Op) : Prop :=
  ∃ sop L, Spec.Api.findOp op.name = some sop ∧ Spec.Protocol.all.lookup op.request = some L ∧
    op.request = sop.request ∧ ∀ args, op.build args = Spec.Api.valsByName L (sop.fields args)

theorem C01_build : ∀ op ∈ ops, BuildsSpec op := by
  intro op hop
  simp only [ops, List.mem_cons, List.mem_nil_iff, or_false] at hop
  rcases hop with rfl | rfl | rfl | rfl | rfl | rfl | rfl | rfl | rfl | rfl | rfl | rfl | rfl | rfl | rfl | rfl |
    rfl | rfl | rfl | rfl | rfl | rfl | rfl | rfl | rfl | rfl | rfl | rfl | rfl | rfl | rfl
  all_goals refine ⟨_, _, rfl, rfl, rfl, ?_⟩
  all_goals intro args
  all_goals simp only [v_u8, v_bool, v_val, v_conv8, v_dev, v_segS, v_segE, v_arg, v_magic, v_passcode, hdr]
  all_goals rfl

theorem mem_of_lookup : ∀ (l : List (String × Layout)) (k : String) (v : Layout), l.lookup k = some v → (k, v) ∈ l
  | [], _, _, h => by simp at h
  | (k', v') :: r, k, v, h => by
    simp only [List.lookup] at h
    by_cases hk : k = k'
    · subst hk; simp at h; subst h; simp
    · have : (k == k') = false := by simpa using hk
      rw [this] at h
      exact List.mem_cons_of_mem _ (mem_of_lookup r k v h)

/-- **C01**: for every operation and every argument tuple for which the protocol image is
    defined (arguments in their domain), marshalling the request the operation builds through
    the layout regenerated from the sources yields exactly that image -/
theorem C01_request_image : ∀ op ∈ ops, ∃ sop L, Spec.Api.findOp op.name = some sop ∧
    Gen.Messages.all.lookup op.request = some L ∧
    ∀ args img, Spec.Api.requestImage sop args = some img →
      marshal Gen.codecFacts C12.genTables L (op.build args) = .ok img := by
  intro op hop
  obtain ⟨sop, L, h1, h2, h3, h4⟩ := C01_build op hop
  refine ⟨sop, L, h1, by rw [C01_layouts]; exact h2, ?_⟩
  intro args img himg
  have hwf : wf L.leaves = true := by
    have := C01_layouts_wf
    rw [List.all_eq_true] at this
    exact this (op.request, L) (mem_of_lookup _ _ _ h2)
  unfold Spec.Api.requestImage at himg
  rw [← h3, h2] at himg
  simp only [Option.bind_some] at himg
  rw [h4 args]
  exact C18.C18_marshal_image L _ img hwf himg

/-- exactly one driver call per accepted call, carrying the marshalled request (by construction
    of `call`; that the real client does the same is the `ops` correspondence stream, which also
    replays histories of calls on one client instance against this stateless model) -/
theorem C01_one_call (F : CodecFacts) (T : BCD.Tables) (B : HHmmBounds) (layouts : String → Option Layout)
    (code : Nat) (cfg : Cfg) (op : Op) (args : List Arg) (arrivals : List Bytes) (L : Layout) (m : Bytes)
    (hacc : op.rejects args = false) (hL : layouts op.request = some L)
    (hm : marshal F T L (op.build args) = .ok m) :
    ((call F T B layouts code cfg op args arrivals).1.calls.map (·.payload)) = [m] := by
  simp only [call, hacc, hL, hm, Bool.false_eq_true, if_false]
  repeat' split
  all_goals simp

/-- "a function of the current call only": the model of a call has no state to carry
    (`Client.run = map call`); on the code side the regenerated list of ALL package-level variables
    of encoding/, types/ and uhppote/ is exactly: the two tag regexes and the reflect.Type table of
    the codec, the two card-format regexes, the bind-port mutex, the NOTIMEOUT constant-like value
    and three error values — no cache, pool, counter or buffer that a request could be built from.
    (Struct fields of the client: `C01_no_client_state` below.) -/
theorem C01_no_package_state : Gen.Source.packageVars = [
    "encoding/UTO311-L0x/UT0311-L0x.go:var re", "encoding/UTO311-L0x/UT0311-L0x.go:var tBool,tByte,tUint16,…",
    "encoding/UTO311-L0x/UT0311-L0x.go:var vre", "types/card-format.go:var w26", "types/card-format.go:var wAny",
    "uhppote/UT0311.go:var NOTIMEOUT", "uhppote/UT0311.go:var guard", "uhppote/errors.go:var ErrIncorrectController",
    "uhppote/errors.go:var ErrInvalidCard", "uhppote/errors.go:var ErrInvalidListenerAddress"] := by decide

/-- ... and no state in the client or the driver either: no method stores into its receiver (regenerated list of
    every assignment, increment / decrement, delete or clear rooted at the receiver or at a local naming one of its fields: empty).
    With `C01_no_package_state` this is the "function of the current call only" half of the statement: there is
    nowhere for an earlier or a concurrent call to leave anything. -/
theorem C01_no_client_state : Gen.Source.receiverWrites = [] := by decide

/-- ... and nothing outside the call either: the wall clock, the process zone, the environment and the runtime are
    read only here (regenerated list of every `time.Now / Since / Until`, `time.Local`, `os.Getenv…`, `os.Hostname`,
    `runtime.*`, `math/rand` in the four packages): the driver's deadlines, `DateTimeNow`, and the process zone in
    which decoded civil times are placed (C13) - no request builder, no guard and no reply interpreter looks at the
    time of day, the date or the environment. -/
theorem C01_ambient_reads : Gen.Source.ambientReads = ["types/date.go:startOfDay: time.Local",
    "types/datetime.go:DateTimeNow: time.Now",
    "types/datetime.go:DateTime.UnmarshalJSON: time.Local",
    "types/datetime.go:DateTime.UnmarshalUT0311L0x: time.Local",
    "types/systemtime.go:TimeFromString: time.Local",
    "types/systemtime.go:SystemTime.UnmarshalUT0311L0x: time.Local",
    "uhppote/UT0311.go:ut0311.Broadcast: time.Now",
    "uhppote/UT0311.go:ut0311.BroadcastTo: time.Now",
    "uhppote/UT0311.go:ut0311.SendUDP: time.Now",
    "uhppote/UT0311.go:ut0311.SendTCP: time.Now",
    "uhppote/device.go:NewDevice: time.Local",
    "uhppote/get_device.go:uhppote.GetDevices: time.Local",
    "uhppote/get_device.go:uhppote.GetDevice: time.Local",
    "uhppote/get_status.go:uhppote.GetStatus: time.Local",
    "uhppote/listen.go:uhppote.Listen: time.Local"] := by decide

/-- below the driver interface: with the uses of the request parameter regenerated from
    uhppote/UT0311.go (passed to the socket write and to the debug dump, `len`, single-byte reads —
    never assigned through, sliced into another name or handed to anything else) and the body of
    `codec.Dump` calling nothing but `fmt` and `len`, the bytes written to the socket are the bytes
    the operation marshalled, whatever the debug flag -/
theorem C01_driver_passes_request (request : Bytes) :
    Driver.onWire (Driver.requestUntouched Gen.Driver.requestUses Gen.Driver.dumpFacts) request = some request := by
  have h : Driver.requestUntouched Gen.Driver.requestUses Gen.Driver.dumpFacts = true := by decide
  simp [Driver.onWire, h]

/-- … hence the bytes on the wire are the protocol image of the call -/
theorem C01_wire_image : ∀ op ∈ ops, ∃ sop L, Spec.Api.findOp op.name = some sop ∧
    Gen.Messages.all.lookup op.request = some L ∧
    ∀ args img, Spec.Api.requestImage sop args = some img →
      (match marshal Gen.codecFacts C12.genTables L (op.build args) with
       | .ok m => Driver.onWire (Driver.requestUntouched Gen.Driver.requestUses Gen.Driver.dumpFacts) m
       | _ => none) = some img := by
  intro op hop
  obtain ⟨sop, L, h1, h2, h3⟩ := C01_request_image op hop
  refine ⟨sop, L, h1, h2, ?_⟩
  intro args img himg
  rw [h3 args img himg]
  exact C01_driver_passes_request img

/-- the premise is not vacuous and the fact matters: a method that hands the request to anything
    else (a "masking" helper, say) leaves the wire bytes unknown to the model -/
example : Driver.onWire (Driver.requestUntouched
    [("Broadcast", ["arg:connection.WriteToUDP", "arg:u.dump", "index-read"]), ("BroadcastTo", []), ("SendUDP", []), ("SendTCP", [])] []) [1, 2, 3] = none := by decide

end Uhppote.Props.C01
