import Uhppote.Model.Api
import Uhppote.Spec.Api
import Uhppote.Gen.Routing
import Uhppote.Gen.Driver
import Uhppote.Proofs.Buffers
import Uhppote.Gen.Source
/-! # C03 — only a well-formed reply from the addressed controller is ever accepted

`Model.Api.driverReply` + the checks of `sendto` (regenerated list `Gen.Routing.sendtoChecks`):
which datagram of an arbitrary arrival sequence decides a call, on each of the three paths. -/
set_option linter.unusedSimpArgs false
namespace Uhppote.Props.C03
open Uhppote Uhppote.Model Uhppote.Model.Api

/-- T4 obligation: the checks of sendto, in source order -/
theorem C03_sendto_checks : Gen.Routing.sendtoChecks = [
    "serialNumber == 0", "err != nil", "response, err := f(); err != nil", "response == nil",
    "len(response) != 64",
    "ID := binary.LittleEndian.Uint32(response[4:8]); serialNumber != 0 && ID != serialNumber",
    "v, err := codec.UnmarshalAs(response, reply); err != nil"] := by decide

abbrev passes := Proofs.Buffers.passes

/-- (iv) function code 0x96 (SetAddress): success without consulting any datagram, on all paths -/
theorem C03_no_reply_code (path : Path) (serial : Nat) (req : Bytes) (arrivals : List Bytes)
    (h : codeOf req = 0x96) : driverReply 0x96 path serial req arrivals = none := by
  simp [driverReply, h]

/-- (i) broadcast path: the deciding datagram is the FIRST one that is 64 bytes long and carries
    the serial number S -/
theorem C03_broadcast_first_passing (serial : Nat) (req : Bytes) (arrivals : List Bytes)
    (h : codeOf req ≠ 0x96) :
    driverReply 0x96 .broadcastTo serial req arrivals = some (arrivals.find? (passes serial)) := by
  simp only [driverReply, h, if_false]; rfl

/-- (ii) skipped datagrams cannot influence the result: removing any non-passing datagram from
    anywhere in the sequence leaves the outcome unchanged -/
theorem C03_broadcast_skips (serial : Nat) (req : Bytes) (xs ys : List Bytes) (d : Bytes)
    (hd : passes serial d = false) :
    driverReply 0x96 .broadcastTo serial req (xs ++ d :: ys) = driverReply 0x96 .broadcastTo serial req (xs ++ ys) := by
  unfold driverReply
  split
  · rfl
  · have : ∀ p : Bytes → Bool, p d = false → (xs ++ d :: ys).find? p = (xs ++ ys).find? p := by
      intro p hp
      simp [List.find?_append, List.find?_cons, hp]
    simp only
    congr 1
    exact this _ (by simpa [passes, Proofs.Buffers.passes] using hd)

/-- silence, or only non-passing datagrams: the broadcast call fails (times out) -/
theorem C03_broadcast_timeout (serial : Nat) (req : Bytes) (arrivals : List Bytes)
    (h : codeOf req ≠ 0x96) (hall : ∀ d ∈ arrivals, passes serial d = false) :
    driverReply 0x96 .broadcastTo serial req arrivals = some none := by
  rw [C03_broadcast_first_passing _ _ _ h]
  congr 1
  rw [List.find?_eq_none]
  intro d hd; simp [hall d hd]

/-- (iii) directed paths: only the first datagram is read -/
theorem C03_directed_first (path : Path) (hp : path ≠ .broadcastTo) (serial : Nat) (req : Bytes)
    (arrivals : List Bytes) (h : codeOf req ≠ 0x96) :
    driverReply 0x96 path serial req arrivals = some arrivals.head? := by
  cases path <;> simp [driverReply, h] at *

/-- T5 obligation: the receive buffers of the three request methods are larger than a message, so that the
    length check of `sendto` sees an over-long datagram as over-long -/
theorem C03_buffers : (Gen.Driver.bufSizes.filter fun p => p.1 == "BroadcastTo" || p.1 == "SendUDP" || p.1 == "SendTCP").map (·.1)
      = ["BroadcastTo", "SendUDP", "SendTCP"] ∧
    (Gen.Driver.bufSizes.filter fun p => p.1 == "BroadcastTo" || p.1 == "SendUDP" || p.1 == "SendTCP").all (fun p => decide (64 < p.2)) = true := by
  decide

/-- with a buffer of more than 64 bytes the datagram the library looks at is 64 bytes long exactly
    when the datagram on the wire is, it then is that datagram, and it passes the broadcast filter
    exactly when the datagram on the wire does -/
theorem C03_length_visible (n : Nat) (h : 64 < n) (S : Nat) (d : Bytes) :
    ((received n d).length = 64 ↔ d.length = 64) ∧ (d.length = 64 → received n d = d) ∧
    passes S (received n d) = passes S d :=
  Proofs.Buffers.length_visible n h S d

/-- … and the witness that a buffer of exactly 64 bytes would hide the excess -/
theorem C03_buffer64_hides : ∃ d : Bytes, d.length = 65 ∧ passes 0 d = false ∧ passes 0 (received 64 d) = true :=
  Proofs.Buffers.buffer64_hides

variable (F : CodecFacts) (T : BCD.Tables) (B : HHmmBounds) (layouts : String → Option Layout)

/-- whatever decides, a result other than an error needs a 64-byte datagram with serial S that
    decodes as the operation's own reply type (length, serial, then protocol id / function code /
    fields inside `unmarshal`) — for every operation, configuration and arrival sequence -/
theorem C03_accepts_only_well_formed (cfg : Cfg) (op : Op) (args : List Arg) (arrivals : List Bytes)
    (R : Layout) (hR : op.reply.bind layouts = some R)
    (hcode : ∀ L m, layouts op.request = some L → marshal F T L (op.build args) = .ok m → codeOf m ≠ 0x96)
    (hres : (call F T B layouts 0x96 cfg op args arrivals).1.res ≠ .err) :
    ∃ d ∈ arrivals, d.length = 64 ∧ serialOf d = u32? (arg args 0) ∧
      ∃ r, unmarshal F T B R d = .ok r ∧ (call F T B layouts 0x96 cfg op args arrivals).1.res = op.result args r := by
  unfold call at hres ⊢
  by_cases hrej : op.rejects args = true
  · simp [hrej] at hres
  · simp only [hrej, Bool.false_eq_true, if_false] at hres ⊢
    cases hL : layouts op.request with
    | none => simp [hL] at hres
    | some L =>
      simp only [hL] at hres ⊢
      cases hm : marshal F T L (op.build args) with
      | err => simp [hm] at hres
      | panic => simp [hm] at hres
      | ok m =>
        simp only [hm] at hres ⊢
        have hc := hcode L m hL hm
        cases hdr : driverReply 0x96 (route cfg (u32? (arg args 0))).1 (u32? (arg args 0)) m arrivals with
        | none => simp only [driverReply, hc, if_false] at hdr; split at hdr <;> cases hdr
        | some o =>
          simp only [hdr] at hres ⊢
          cases o with
          | none => simp at hres
          | some d =>
            have hmem : d ∈ arrivals := by
              unfold driverReply at hdr
              simp only [hc, if_false] at hdr
              split at hdr
              · simp only [Option.some.injEq] at hdr
                exact List.mem_of_find?_eq_some hdr
              · simp only [Option.some.injEq] at hdr
                cases arrivals with
                | nil => simp at hdr
                | cons a r => simp at hdr; subst hdr; simp
            simp only at hres ⊢
            by_cases hlen : d.length ≠ 64
            · simp [hlen] at hres
            · simp only [hlen, if_false] at hres ⊢
              by_cases hser : serialOf d ≠ u32? (arg args 0)
              · simp [hser] at hres
              · simp only [hser, if_false, hR] at hres ⊢
                cases hu : unmarshal F T B R d with
                | ok r =>
                  simp only [hu] at hres ⊢
                  exact ⟨d, hmem, by simpa using hlen, by simpa using hser, r, hu, rfl⟩
                | err => simp [hu] at hres
                | panic => simp [hu] at hres

/-- the serial number a reply is compared with is the parameter of the call and nothing else can be: no method of
    the client or of the driver stores anything into its receiver (regenerated: every assignment, increment / decrement, delete or
    clear whose target is rooted at the receiver, or at a local that names one of its fields), so an overlapping call
    cannot change what this one is waiting for -/
theorem C03_no_client_state : Gen.Source.receiverWrites = [] := by decide

end Uhppote.Props.C03
