import Uhppote.Model.Events
import Uhppote.Gen.Messages
import Uhppote.Props.C04
import Uhppote.Gen.Driver
import Uhppote.Proofs.Buffers
import Uhppote.Props.C02
import Uhppote.Gen.Discover
/-! # C11 — discovery returns exactly the controllers that answered, despite network noise (partial)

`Model.Events.discover` is `broadcast` + `GetDevices` as a function of the datagrams the driver
collected before the timeout. Partial: "received before the timeout" is wall-clock (C09). -/
set_option linter.unusedSimpArgs false
namespace Uhppote.Props.C11
open Uhppote Uhppote.Model Uhppote.Model.Api Uhppote.Model.Events

variable (F : CodecFacts) (T : BCD.Tables) (B : HHmmBounds) (cfg : Cfg) (R : Layout)

/-- one entry per kept reply, in arrival order, duplicates included: discovery is a `filterMap` -/
theorem C11_filter_map (ds : List Bytes) :
    discover F T B cfg R ds = ds.filterMap (entryOf F T B cfg R) := rfl

/-- arrival order is preserved and nothing is merged: concatenation of arrivals = concatenation of results -/
theorem C11_append (xs ys : List Bytes) :
    discover F T B cfg R (xs ++ ys) = discover F T B cfg R xs ++ discover F T B cfg R ys := by
  simp [discover, List.filterMap_append]

/-- a malformed datagram (wrong length, or undecodable as a get-device reply: wrong protocol id,
    wrong function code, non-BCD date) anywhere in the sequence neither fails the call nor hides
    the valid replies around it -/
theorem C11_malformed_ignored (xs ys : List Bytes) (bad : Bytes) (h : entryOf F T B cfg R bad = none) :
    discover F T B cfg R (xs ++ bad :: ys) = discover F T B cfg R (xs ++ ys) := by
  simp [discover, List.filterMap_append, List.filterMap_cons, h]

theorem C11_wrong_length_ignored (bad : Bytes) (h : bad.length ≠ 64) : entryOf F T B cfg R bad = none := by
  simp [entryOf, entryWith, h]

theorem C11_undecodable_ignored (bad : Bytes) (h : ∀ r, unmarshal F T B R bad ≠ .ok r) : entryOf F T B cfg R bad = none := by
  unfold entryOf entryWith
  split
  · rfl
  · split
    · rename_i r hr; exact absurd hr (h r)
    · rfl

/-- every decodable 64-byte reply yields exactly one entry, carrying the decoded fields -/
theorem C11_valid_kept (d : Bytes) (r : List Val) (hl : d.length = 64) (hr : unmarshal F T B R d = .ok r) :
    ∃ e, entryOf F T B cfg R d = some e ∧ e.fields = r.drop 1 := by
  simp [entryOf, entryWith, entryCore, hl, hr]

/-- the address is the decoded IP completed with the broadcast port, 60000 when none is configured -/
theorem C11_port (d : Bytes) (e : Entry) (h : entryOf F T B cfg R d = some e) :
    e.address = "invalid" ∨ ∃ ip : String, e.address = ip ++ ":" ++ toString (if cfg.broadcastValid then cfg.broadcastPort else 60000) := by
  unfold entryOf entryWith at h
  split at h
  · cases h
  · split at h
    · cases h
      simp only [entryCore, addrOf]
      split
      · right
        rename_i a b c d _
        exact ⟨s!"{a}.{b}.{c}.{d}", by simp [toString, String.append_assoc]⟩
      · left; rfl
    · cases h

/-- the name is the one the client was configured with for the controller that answered ("-" stands for
    none / empty), a function of the configuration and of the serial number in the reply alone -/
theorem C11_name (d : Bytes) (e : Entry) (r : List Val) (n : Nat) (hl : d.length = 64)
    (hr : unmarshal F T B R d = .ok r) (hs : r.getD 1 .none_ = .u32 n) (h : entryOf F T B cfg R d = some e) :
    e.name = (match cfg.controllers.find? (·.serial == n) with
      | some c => if c.name = "" then "-" else c.name
      | none => "-") := by
  simp [entryOf, entryWith, hl, hr] at h
  subst h
  simp only [entryCore, nameOf]
  have hs' : r[1]?.getD Val.none_ = .u32 n := by simpa using hs
  simp [hs']
  cases List.find? (fun x => x.serial == n) cfg.controllers <;> rfl

/-- **the entry GetDevices builds, regenerated**: the function translated statement by statement from
    uhppote/get_device.go (`Gen.Discover`: the port default and its override by the configured broadcast address, the
    name looked up by the reply's serial number, the address from the reply's IP field, each field of the entry from
    the reply field of the same name) is the hand-written `entryCore` these theorems are about, for every reply of
    the shape the decoder returns (the eight fields of a get-device reply) -/
theorem C11_entry_regenerated (r : List Val) (h : r.length = 8) : Gen.Discover.entry cfg r = entryCore cfg r := by
  obtain ⟨a0, a1, a2, a3, a4, a5, a6, a7, rfl⟩ : ∃ a0 a1 a2 a3 a4 a5 a6 a7, r = [a0, a1, a2, a3, a4, a5, a6, a7] := by
    rcases r with _ | ⟨a0, _ | ⟨a1, _ | ⟨a2, _ | ⟨a3, _ | ⟨a4, _ | ⟨a5, _ | ⟨a6, _ | ⟨a7, _ | ⟨a8, r⟩⟩⟩⟩⟩⟩⟩⟩⟩ <;> simp at h
    exact ⟨a0, a1, a2, a3, a4, a5, a6, a7, rfl⟩
  rfl

theorem C11_port_regenerated : Gen.Discover.port cfg = (if cfg.broadcastValid then cfg.broadcastPort else 60000) := rfl

/-- the number of entries never exceeds the number of datagrams received (nothing is invented) -/
theorem C11_no_more_than_received (ds : List Bytes) : (discover F T B cfg R ds).length ≤ ds.length := by
  simp [discover]; exact List.length_filterMap_le _ _

/-- decoding a collected datagram cannot panic (shipped reply layout, C04) -/
theorem C11_no_panic (L : Layout) (h : Gen.Messages.all.lookup "GetDeviceResponse" = some L) (d : Bytes) :
    unmarshal Gen.codecFacts C12.genTables C18.wireBounds L d ≠ .panic :=
  C04.C04_unmarshal_total _ L h d

/-- T5 obligation: the receive buffer of `Broadcast` is larger than a message, so an over-long datagram is seen as over-long and hence ignored, never a phantom entry
    (`C11_wrong_length_ignored` applied to what the buffer holds, `Proofs.Buffers.length_visible`) -/
theorem C11_receive_buffer : (Gen.Driver.bufSizes.lookup "Broadcast").map (fun n => decide (64 < n)) = some true := by decide

theorem C11_overlong_seen (n : Nat) (h : 64 < n) (d : Bytes) (hd : d.length ≠ 64) : (received n d).length ≠ 64 :=
  fun hc => hd ((Proofs.Buffers.length_visible n h 0 d).1.1 hc)

/-- **each entry is the protocol decoding of its reply**: a discovery entry carries the fields (all but the function
    code) of a reply struct that lies in the protocol's decoding relation for that datagram -/
theorem C11_entry_is_protocol_decoding (L : Layout) (h : Gen.Messages.all.lookup "GetDeviceResponse" = some L)
    (cfg : Cfg) (d : Bytes) (e : Entry)
    (he : entryOf Gen.codecFacts C12.genTables C18.wireBounds cfg L d = some e) :
    ∃ r, e.fields = r.drop 1 ∧ Spec.Codec.acceptsUnmarshal L.leaves d (.ok r) = true := by
  unfold entryOf entryWith at he
  split at he
  · cases he
  · split at he
    · rename_i r hr
      have hd := C02.C02_decode_relation "GetDeviceResponse" L h d
      rw [hr] at hd
      cases he
      exact ⟨r, rfl, hd⟩
    · cases he

end Uhppote.Props.C11
