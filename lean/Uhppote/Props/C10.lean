import Uhppote.Model.Events
import Uhppote.Gen.Messages
import Uhppote.Props.C04
import Uhppote.Gen.Driver
import Uhppote.Proofs.Buffers
import Uhppote.Props.C02
import Uhppote.Gen.Source
/-! # C10 — the event listener delivers every valid event once, in order, and nothing else (partial)

`Model.Events.listenTrace` is the handler of `uhppote.listen` followed by the status mapping of
`Listen`, as a function of the datagram sequence. Partial: re-binding the listen socket after
shutdown is kernel behaviour; the relative order of an error callback (made by the receive
loop) and an event callback (made by the dispatch goroutine) is not defined by the code and is not
claimed — events are ordered among themselves. Likewise `connected` is called by `uhppote.listen`
after `driver.Listen` has started the receive loop, so a datagram that is already waiting can be
delivered before it: the model puts `connected` first, of the code only "exactly once" is claimed
(which is all the property states: "fires once after the socket is bound"). -/
set_option linter.unusedSimpArgs false
namespace Uhppote.Props.C10
open Uhppote Uhppote.Model Uhppote.Model.Api Uhppote.Model.Events

variable (F : CodecFacts) (T : BCD.Tables) (B : HHmmBounds) (E : Layout)

/-- connected first, then exactly one callback per datagram -/
theorem C10_one_callback_each (ds : List Bytes) :
    (listenTrace F T B E ds).head? = some .connected ∧ (listenTrace F T B E ds).length = ds.length + 1 := by
  simp [listenTrace]

/-- the k-th callback after `connected` is determined by the k-th datagram alone: nothing a
    datagram contains can influence how another one is reported (no state between datagrams) -/
theorem C10_independent (ds : List Bytes) (k : Nat) (hk : k < ds.length) :
    (listenTrace F T B E ds)[k + 1]? = some (classify F T B E ds[k]) := by
  simp [listenTrace, hk]

/-- order preservation: a later batch of datagrams is reported after an earlier one, unchanged -/
theorem C10_order (xs ys : List Bytes) :
    listenTrace F T B E (xs ++ ys) = listenTrace F T B E xs ++ ys.map (classify F T B E) := by
  simp [listenTrace]

/-- only a 64-byte datagram with a non-zero serial number that decodes as a status message is an
    event; everything else is exactly one error -/
theorem C10_event_only_if_well_formed (d : Bytes) (s : List Val) (h : classify F T B E d = .event s) :
    d.length = 64 ∧ serialOf d ≠ 0 ∧ ∃ r, unmarshal F T B E d = .ok r ∧ statusResult r = .vals s := by
  unfold classify at h
  split at h
  · cases h
  · rename_i hl
    split at h
    · cases h
    · rename_i hs
      split at h
      · rename_i r hr
        split at h
        · rename_i s' hst
          cases h
          exact ⟨by simpa using hl, hs, r, hr, hst⟩
        · cases h
      · cases h

/-- … and conversely every such datagram IS handed to the event callback (with exactly that status):
    nothing well-formed is dropped or turned into an error -/
theorem C10_well_formed_is_event (d : Bytes) (r s : List Val) (hl : d.length = 64) (hs : serialOf d ≠ 0)
    (hr : unmarshal F T B E d = .ok r) (hst : statusResult r = .vals s) : classify F T B E d = .event s := by
  unfold classify
  simp [hl, hs, hr, hst]

theorem C10_wrong_length_is_error (d : Bytes) (h : d.length ≠ 64) : classify F T B E d = .error := by
  simp [classify, h]

theorem C10_serial_zero_is_error (d : Bytes) (h : serialOf d = 0) : classify F T B E d = .error := by
  unfold classify; split
  · rfl
  · simp [h]

/-- the handler cannot panic on any datagram (shipped event layout, C04) -/
theorem C10_no_panic (L : Layout) (h : Gen.Messages.all.lookup "GetStatusResponse" = some L) (d : Bytes) :
    unmarshal Gen.codecFacts C12.genTables C18.wireBounds L d ≠ .panic :=
  C04.C04_unmarshal_total _ L h d

/-- the event struct has no slice-typed field: a decoded status cannot alias the receive buffer
    (generated layout of the event message: no raw IP / MAC kinds) -/
theorem C10_event_has_no_views :
    ((Gen.Messages.all.lookup "GetStatusResponse").getD []).leaves.all (fun l => match l with
      | .at _ .mac _ | .at _ .ipv4 _ | .at _ .macAddress _ => false
      | _ => true) = true ∧
    ((Gen.Messages.all.lookup "GetStatusResponse").getD []).leaves.length = 25 := by decide

/-- T5 obligation: the receive buffer of `Listen` is larger than a message, so an over-long datagram (a valid event followed by more bytes) is seen as over-long and hence is an error callback, never an event
    (`C10_wrong_length_is_error` applied to what the buffer holds, `Proofs.Buffers.length_visible`) -/
theorem C10_receive_buffer : (Gen.Driver.bufSizes.lookup "Listen").map (fun n => decide (64 < n)) = some true := by decide

theorem C10_overlong_seen (n : Nat) (h : 64 < n) (d : Bytes) (hd : d.length ≠ 64) : (received n d).length ≠ 64 :=
  fun hc => hd ((Proofs.Buffers.length_visible n h 0 d).1.1 hc)

/-- **every field of a delivered status is the protocol decoding of the datagram**: an event callback carries the status
    mapping (the C02 mapping: `C02_result_positional`) of a reply struct that lies in the protocol's
    decoding relation for that datagram (`C18_unmarshal_sound`, shipped event layout) -/
theorem C10_event_is_protocol_decoding (L : Layout) (h : Gen.Messages.all.lookup "GetStatusResponse" = some L)
    (d : Bytes) (s : List Val)
    (hev : classify Gen.codecFacts C12.genTables C18.wireBounds L d = .event s) :
    ∃ r, statusResult r = .vals s ∧ Spec.Codec.acceptsUnmarshal L.leaves d (.ok r) = true := by
  obtain ⟨_, _, r, hr, hs⟩ := C10_event_only_if_well_formed _ _ _ L d s hev
  have hd := C02.C02_decode_relation "GetStatusResponse" L h d
  rw [hr] at hd
  exact ⟨r, hs, hd⟩

/-- the status mapping `classify` applies to a decoded event is the one translated from `Listen` in
    uhppote/listen.go on this run (which event field goes where, the system date-time closure, the event
    part filled exactly when the event index is non-zero) -/
theorem C10_status_mapping_regenerated (r : List Val) : Gen.Status.listenStatus r = statusResult r :=
  (C02.C02_status_regenerated r).2

/-- one reader, one dispatcher: the regenerated inventory of `go` statements - `ut0311.Listen` starts the socket
    reader and the shutdown watcher, `uhppote.Listen` the single dispatcher that calls the application; datagrams are
    decoded by the reader before the next read (the regenerated order facts above), so arrival order is delivery order -/
theorem C10_goroutines : Gen.Source.goStatements = ["uhppote/UT0311.go:ut0311.Broadcast: 1", "uhppote/UT0311.go:ut0311.Listen: 2", "uhppote/listen.go:uhppote.Listen: 1"] := by decide

end Uhppote.Props.C10
