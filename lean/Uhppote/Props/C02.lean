import Uhppote.Model.Api
import Uhppote.Spec.Api
import Uhppote.Gen.Messages
import Uhppote.Props.C01
/-! # C02 — replies are interpreted exactly as the protocol defines, sentinels included

The reply layouts are regenerated and equal to the protocol tables (`C01_layouts`); the field
readers are those of `Model.unmarshal` (each field from its own offset and width, C18); this file
proves the sentinel rules of the result mappers for ALL reply values, and that an out-of-domain
field never comes back as a different in-domain value (decoder domain theorems). That the full
decode relation `Spec.Codec.acceptsUnmarshal` holds of the real code for arbitrary payloads is
checked by the oracle on the `ops` and `codec` streams (not yet a theorem). -/
set_option linter.unusedSimpArgs false
namespace Uhppote.Props.C02
open Uhppote Uhppote.Model Uhppote.Model.Api

def op (n : String) : Op := (findOp n).getD ⟨"", "", none, fun _ => true, fun _ => [], fun _ _ => .err⟩

/-- positional reading: a field's value depends only on the bytes of its own range -/
theorem C02_field_frame (F : CodecFacts) (T : BCD.Tables) (B : HHmmBounds) (b1 b2 : Bytes) (off : Nat) (k : Kind)
    (hl : b1.length = b2.length) (h : readAt b1 off k.width = readAt b2 off k.width) :
    unmarshalLeaf F T B b1 (.at off k none) = unmarshalLeaf F T B b2 (.at off k none) := by
  simp [unmarshalLeaf, fixedValue, hl, h]

/-- card number 0 or 0xffffffff at an index means "no card" -/
theorem C02_card_by_index_sentinels (args : List Arg) (r : List Val) (n : Nat)
    (h : r[2]? = some (.u32 n)) (hn : n = 0 ∨ n = 0xffffffff) :
    (op "GetCardByIndex").result args r = .nil := by
  simp [op, findOp, ops, h, hn]

theorem C02_card_by_index_found (args : List Arg) (r : List Val) (n : Nat)
    (h : r[2]? = some (.u32 n)) (h0 : n ≠ 0) (h1 : n ≠ 0xffffffff) :
    (op "GetCardByIndex").result args r = .vals ((r.drop 2).take 8) := by
  simp [op, findOp, ops, h, h0, h1, cardResult]

/-- card by id: echoed 0 means no card, an echoed number other than the one asked for is an error -/
theorem C02_card_by_id_sentinels (args : List Arg) (r : List Val) (n : Nat) (h : r[2]? = some (.u32 n)) :
    (n = 0 → (op "GetCardByID").result args r = .nil) ∧
    (n ≠ 0 → n ≠ u32? (arg args 1) → (op "GetCardByID").result args r = .err) ∧
    (n ≠ 0 → n = u32? (arg args 1) → (op "GetCardByID").result args r = .vals ((r.drop 2).take 8)) := by
  refine ⟨fun h0 => ?_, fun h0 h1 => ?_, fun h0 h1 => ?_⟩
  · simp [op, findOp, ops, h, h0]
  · simp [op, findOp, ops, h, h0, h1]
  · simp [op, findOp, ops, h, h0, ← h1, cardResult]

/-- event type 0xff is the 'overwritten' error, event index 0 means no event -/
theorem C02_event_sentinels (args : List Arg) (r : List Val) (t : UInt8) (ix : Nat)
    (h3 : r[3]? = some (.u8 t)) (h2 : r[2]? = some (.u32 ix)) :
    (t = 0xff → (op "GetEvent").result args r = .err) ∧
    (t ≠ 0xff → ix = 0 → (op "GetEvent").result args r = .nil) ∧
    (t ≠ 0xff → ix ≠ 0 → (op "GetEvent").result args r = .vals (r.drop 1)) := by
  refine ⟨fun ht => ?_, fun ht hi => ?_, fun ht hi => ?_⟩
  · simp [op, findOp, ops, h3, h2, ht]
  · simp [op, findOp, ops, h3, h2, ht, hi]
  · simp [op, findOp, ops, h3, h2, ht, hi]

/-- profile id 0 means no profile, a mismatching echoed id is an error -/
theorem C02_profile_sentinels (args : List Arg) (r : List Val) (n : UInt8) (h : r[2]? = some (.u8 n)) :
    (n = 0 → (op "GetTimeProfile").result args r = .nil) ∧
    (n ≠ 0 → n ≠ u8? (arg args 1) → (op "GetTimeProfile").result args r = .err) := by
  refine ⟨fun h0 => ?_, fun h0 h1 => ?_⟩
  · simp [op, findOp, ops, h, h0]
  · simp [op, findOp, ops, h, h0, h1]

theorem status_op : (op "GetStatus").result = fun _ r => statusResult r := by
  simp [op, findOp, ops]

/-- the status event is present exactly when its index is non-zero -/
theorem C02_status_event_absent (args : List Arg) (r : List Val) (h : r[2]? = some (.u32 0)) :
    ∃ pre, (op "GetStatus").result args r =
      .vals (pre ++ [.u32 0, .u8 0, .bool false, .u8 0, .u8 0, .u32 0, .dateTime none, .u8 0]) ∧ pre.length = 15 := by
  rw [status_op]
  have : r.getD 2 .none_ = .u32 0 := by simp [h]
  simp only [statusResult, this]
  exact ⟨[_, _, _, _, _, _, _, _, _, _, _, _, _, _, _], rfl, rfl⟩

theorem C02_status_event_present (args : List Arg) (r : List Val) (n : Nat) (h : r[2]? = some (.u32 n)) (hn : n ≠ 0) :
    ∃ pre, (op "GetStatus").result args r =
      .vals (pre ++ [.u32 n, r.getD 3 .none_, r.getD 4 .none_, r.getD 5 .none_, r.getD 6 .none_, r.getD 7 .none_,
                     r.getD 8 .none_, r.getD 9 .none_]) ∧ pre.length = 15 := by
  rw [status_op]
  have : r.getD 2 .none_ = .u32 n := by simp [h]
  cases n with
  | zero => exact absurd rfl hn
  | succ k =>
    simp only [statusResult, this]
    exact ⟨[_, _, _, _, _, _, _, _, _, _, _, _, _, _, _], rfl, rfl⟩

/-! ### a field outside its domain is never reported as a different in-domain value -/

/-- boolean: only 0 and 1 decode -/
theorem C02_bool_domain (T : BCD.Tables) (B : HHmmBounds) (x : UInt8) (v : Val)
    (h : decField goodFacts T B .bool [x] = .ok v) : (x = 1 ∧ v = .bool true) ∨ (x = 0 ∧ v = .bool false) := by
  simp only [decField, goodFacts] at h
  by_cases h1 : x.toNat = 1
  · left; simp only [h1, if_true] at h; cases h
    exact ⟨UInt8.toNat_inj.1 (by simpa using h1), rfl⟩
  · by_cases h0 : x.toNat = 0
    · right; simp only [h1, h0, if_true, if_false] at h; cases h
      exact ⟨UInt8.toNat_inj.1 (by simpa using h0), rfl⟩
    · simp [h1, h0] at h

/-- HH:mm: whatever decodes lies in 00:00..24:00 with minutes ≤ 59 (bounds regenerated) -/
theorem C02_hhmm_domain (T : BCD.Tables) (b : Bytes) (t : HM)
    (h : decHHmm T ⟨24, 59, true⟩ b = .val t) : 0 ≤ t.h ∧ t.h ≤ 24 ∧ 0 ≤ t.m ∧ t.m ≤ 59 ∧ (t.h = 24 → t.m = 0) := by
  unfold decHHmm at h
  split at h
  · cases h
  · simp only at h
    split at h
    · cases h
    · split at h
      · cases h
      · split at h
        · cases h
        · rename_i h1 h2 h3
          cases h
          simp only [decide_true, true_and] at h3
          dsimp only
          refine ⟨by omega, by omega, by omega, by omega, ?_⟩
          intro h24
          apply Classical.byContradiction
          intro hm
          exact h3 ⟨by omega, by omega⟩

/-- dates: whatever decodes as a date is a calendar date; anything else is the zero date -/
theorem C02_date_domain (s : Bytes) (d : YMD) (h : decDateCore s = some d) : validYMD d.y d.m d.d = true := by
  unfold decDateCore at h
  simp only at h
  split at h
  · cases h; assumption
  · cases h

theorem C02_datetime_domain (s : Bytes) (d : YMDHMS) (h : decDateTimeCore s = some d) :
    validYMD d.y d.mo d.d = true ∧ d.h < 24 ∧ d.mi < 60 ∧ d.s < 60 := by
  unfold decDateTimeCore at h
  simp only at h
  split at h
  · rename_i hv
    split at h
    · cases h
    · cases h
      simp only [Bool.and_eq_true, decide_eq_true_eq] at hv
      exact ⟨hv.1.1.1, hv.1.1.2, hv.1.2, hv.2⟩
  · cases h

/-- a non-decimal nibble anywhere in a BCD field makes the field's decoder fail -/
theorem C02_bcd_nibble_rejected (b : Bytes) (x : UInt8) (hx : x ∈ b) (hbad : Spec.BCD.okByte x = false) :
    decDate BCD.canonical b = .err ∧ decHHmm BCD.canonical ⟨24, 59, true⟩ b = .err ∧
    decSysTime BCD.canonical b = .err := by
  have hd : BCD.decode BCD.canonical b = none := by
    rw [Proofs.BCD.decode_model_eq_spec]
    unfold Spec.BCD.decode
    have : b.all Spec.BCD.okByte = false := by
      rw [List.all_eq_false]; exact ⟨x, hx, by simp [hbad]⟩
    simp [this]
  simp [decDate, decHHmm, decSysTime, hd]

end Uhppote.Props.C02
