import Uhppote.Model.Api
import Uhppote.Gen.Ops
import Uhppote.Gen.Status
import Uhppote.Spec.Api
import Uhppote.Gen.Messages
import Uhppote.Props.C01
import Uhppote.Proofs.ResultMap
/-! # C02 — replies are interpreted exactly as the protocol defines, sentinels included

The reply layouts are regenerated and equal to the protocol tables (`C01_layouts`); the field
readers are those of `Model.unmarshal` (each field from its own offset and width, C18); this file
proves the sentinel rules of the result mappers for ALL reply values, and that an out-of-domain
field never comes back as a different in-domain value (decoder domain theorems). That the full
decode relation `Spec.Codec.acceptsUnmarshal` holds of the real code for arbitrary payloads is
checked by the oracle on the `ops` and `codec` streams (not yet a theorem). -/
set_option linter.unusedSimpArgs false
set_option linter.unusedVariables false
set_option maxRecDepth 8192
namespace Uhppote.Props.C02
open Uhppote Uhppote.Model Uhppote.Model.Api Uhppote.Proofs.ResultMap
open Uhppote.Gen.Ops (ops findOp)

def op (n : String) : Op := (findOp n).getD ⟨"", "", none, fun _ => true, fun _ => [], fun _ _ => .err⟩

/-- positional reading: a field's value depends only on the bytes of its own range -/
theorem C02_field_frame (F : CodecFacts) (T : BCD.Tables) (B : HHmmBounds) (b1 b2 : Bytes) (off : Nat) (k : Kind)
    (hl : b1.length = b2.length) (h : readAt b1 off k.width = readAt b2 off k.width) :
    unmarshalLeaf F T B b1 (.at off k none) = unmarshalLeaf F T B b2 (.at off k none) := by
  simp [unmarshalLeaf, fixedValue, hl, h]

/-- card number 0 or 0xffffffff at an index means "no card" -/
theorem C02_card_by_index_sentinels (args : List Arg) (r : List Val) (n : Nat)
    (h : r[2]? = some (.u32 n)) (hn : n = 0 ∨ n = 0xffffffff) :
    (op "GetCardByIndex").result args r = .nil := by
  simp [op, findOp, ops, h, hn]

theorem C02_card_by_index_found (args : List Arg) (r : List Val) (n : Nat)
    (h : r[2]? = some (.u32 n)) (h0 : n ≠ 0) (h1 : n ≠ 0xffffffff) :
    (op "GetCardByIndex").result args r = .vals ((r.drop 2).take 8) := by
  simp [op, findOp, ops, h, h0, h1, cardResult]

/-- card by id: echoed 0 means no card, an echoed number other than the one asked for is an error -/
theorem C02_card_by_id_sentinels (args : List Arg) (r : List Val) (n : Nat) (h : r[2]? = some (.u32 n)) :
    (n = 0 → (op "GetCardByID").result args r = .nil) ∧
    (n ≠ 0 → n ≠ u32? (arg args 1) → (op "GetCardByID").result args r = .err) ∧
    (n ≠ 0 → n = u32? (arg args 1) → (op "GetCardByID").result args r = .vals ((r.drop 2).take 8)) := by
  refine ⟨fun h0 => ?_, fun h0 h1 => ?_, fun h0 h1 => ?_⟩
  · simp [op, findOp, ops, h, h0]
  · simp [op, findOp, ops, h, h0, h1]
  · simp [op, findOp, ops, h, h0, ← h1, cardResult]

/-- event type 0xff is the 'overwritten' error, event index 0 means no event -/
theorem C02_event_sentinels (args : List Arg) (r : List Val) (t : UInt8) (ix : Nat)
    (h3 : r[3]? = some (.u8 t)) (h2 : r[2]? = some (.u32 ix)) :
    (t = 0xff → (op "GetEvent").result args r = .err) ∧
    (t ≠ 0xff → ix = 0 → (op "GetEvent").result args r = .nil) ∧
    (t ≠ 0xff → ix ≠ 0 → (op "GetEvent").result args r = .vals (r.drop 1)) := by
  refine ⟨fun ht => ?_, fun ht hi => ?_, fun ht hi => ?_⟩
  · simp [op, findOp, ops, h3, h2, ht]
  · simp [op, findOp, ops, h3, h2, ht, hi]
  · simp [op, findOp, ops, h3, h2, ht, hi]

/-- profile id 0 means no profile, a mismatching echoed id is an error -/
theorem C02_profile_sentinels (args : List Arg) (r : List Val) (n : UInt8) (h : r[2]? = some (.u8 n)) :
    (n = 0 → (op "GetTimeProfile").result args r = .nil) ∧
    (n ≠ 0 → n ≠ u8? (arg args 1) → (op "GetTimeProfile").result args r = .err) := by
  refine ⟨fun h0 => ?_, fun h0 h1 => ?_⟩
  · simp [op, findOp, ops, h, h0]
  · simp [op, findOp, ops, h, h0, h1]

theorem status_op : (op "GetStatus").result = fun _ r => statusResult r := by
  simp [op, findOp, ops]
  rfl

/-- the status event is present exactly when its index is non-zero -/
theorem C02_status_event_absent (args : List Arg) (r : List Val) (h : r[2]? = some (.u32 0)) :
    ∃ pre, (op "GetStatus").result args r =
      .vals (pre ++ [.u32 0, .u8 0, .bool false, .u8 0, .u8 0, .u32 0, .dateTime none, .u8 0]) ∧ pre.length = 15 := by
  rw [status_op]
  have : r.getD 2 .none_ = .u32 0 := by simp [h]
  simp only [statusResult, statusEventOf, statusNoEvent, this]
  exact ⟨[_, _, _, _, _, _, _, _, _, _, _, _, _, _, _], rfl, rfl⟩

theorem C02_status_event_present (args : List Arg) (r : List Val) (n : Nat) (h : r[2]? = some (.u32 n)) (hn : n ≠ 0) :
    ∃ pre, (op "GetStatus").result args r =
      .vals (pre ++ [.u32 n, r.getD 3 .none_, r.getD 4 .none_, r.getD 5 .none_, r.getD 6 .none_, r.getD 7 .none_,
                     r.getD 8 .none_, r.getD 9 .none_]) ∧ pre.length = 15 := by
  rw [status_op]
  have : r.getD 2 .none_ = .u32 n := by simp [h]
  cases n with
  | zero => exact absurd rfl hn
  | succ k =>
    simp only [statusResult, statusEventOf, statusNoEvent, this]
    exact ⟨[_, _, _, _, _, _, _, _, _, _, _, _, _, _, _], rfl, rfl⟩

/-! ### a field outside its domain is never reported as a different in-domain value -/

/-- boolean: only 0 and 1 decode -/
theorem C02_bool_domain (T : BCD.Tables) (B : HHmmBounds) (x : UInt8) (v : Val)
    (h : decField goodFacts T B .bool [x] = .ok v) : (x = 1 ∧ v = .bool true) ∨ (x = 0 ∧ v = .bool false) := by
  simp only [decField, goodFacts] at h
  by_cases h1 : x.toNat = 1
  · left; simp only [h1, if_true] at h; cases h
    exact ⟨UInt8.toNat_inj.1 (by simpa using h1), rfl⟩
  · by_cases h0 : x.toNat = 0
    · right; simp only [h1, h0, if_true, if_false] at h; cases h
      exact ⟨UInt8.toNat_inj.1 (by simpa using h0), rfl⟩
    · simp [h1, h0] at h

/-- HH:mm: whatever decodes lies in 00:00..24:00 with minutes ≤ 59 (bounds regenerated) -/
theorem C02_hhmm_domain (T : BCD.Tables) (b : Bytes) (t : HM)
    (h : decHHmm T ⟨24, 59, true⟩ b = .val t) : 0 ≤ t.h ∧ t.h ≤ 24 ∧ 0 ≤ t.m ∧ t.m ≤ 59 ∧ (t.h = 24 → t.m = 0) := by
  unfold decHHmm at h
  split at h
  · cases h
  · simp only at h
    split at h
    · cases h
    · split at h
      · cases h
      · split at h
        · cases h
        · rename_i h1 h2 h3
          cases h
          simp only [decide_true, true_and] at h3
          dsimp only
          refine ⟨by omega, by omega, by omega, by omega, ?_⟩
          intro h24
          apply Classical.byContradiction
          intro hm
          exact h3 ⟨by omega, by omega⟩

/-- dates: whatever decodes as a date is a calendar date; anything else is the zero date -/
theorem C02_date_domain (s : Bytes) (d : YMD) (h : decDateCore s = some d) : validYMD d.y d.m d.d = true := by
  unfold decDateCore at h
  simp only at h
  split at h
  · cases h; assumption
  · cases h

theorem C02_datetime_domain (s : Bytes) (d : YMDHMS) (h : decDateTimeCore s = some d) :
    validYMD d.y d.mo d.d = true ∧ d.h < 24 ∧ d.mi < 60 ∧ d.s < 60 := by
  unfold decDateTimeCore at h
  simp only at h
  split at h
  · rename_i hv
    split at h
    · cases h
    · cases h
      simp only [Bool.and_eq_true, decide_eq_true_eq] at hv
      exact ⟨hv.1.1.1, hv.1.1.2, hv.1.2, hv.2⟩
  · cases h

/-- a non-decimal nibble anywhere in a BCD field makes the field's decoder fail -/
theorem C02_bcd_nibble_rejected (b : Bytes) (x : UInt8) (hx : x ∈ b) (hbad : Spec.BCD.okByte x = false) :
    decDate BCD.canonical b = .err ∧ decHHmm BCD.canonical ⟨24, 59, true⟩ b = .err ∧
    decSysTime BCD.canonical b = .err := by
  have hd : BCD.decode BCD.canonical b = none := by
    rw [Proofs.BCD.decode_model_eq_spec]
    unfold Spec.BCD.decode
    have : b.all Spec.BCD.okByte = false := by
      rw [List.all_eq_false]; exact ⟨x, hx, by simp [hbad]⟩
    simp [this]
  simp [decDate, decHHmm, decSysTime, hd]

/-! ### the full decoding relation, for every reply layout and every payload -/

/-- for every shipped message layout (regenerated) and EVERY byte string: the decoded reply struct is
    in the protocol's decoding relation (`C18_unmarshal_sound` instantiated) — each field from its
    protocol offset in its protocol encoding, sentinels as "no value", out-of-domain fields an error
    or the zero value, never another in-domain value -/
theorem C02_decode_relation (n : String) (L : Layout) (h : Gen.Messages.all.lookup n = some L) (bytes : Bytes) :
    Spec.Codec.acceptsUnmarshal L.leaves bytes
      (Proofs.Codec.toResult (unmarshal Gen.codecFacts C12.genTables C18.wireBounds L bytes)) = true := by
  have hwf : Spec.Codec.wf L.leaves = true := by
    have := C01.C01_layouts_wf
    rw [← C01.C01_layouts, List.all_eq_true] at this
    exact this (n, L) (C01.mem_of_lookup _ _ _ h)
  exact C18.C18_unmarshal_sound L hwf bytes

/-! ### every result field comes from its protocol field

For every operation and EVERY reply struct value (of the reply layout's length): what the operation
returns is the specification's name-keyed interpretation (`Spec.Api.ops`, written over the protocol
field names: which fields, in which order, which sentinels) of the reply's fields. A swapped pair
of result fields, a dropped sentinel or a different echo rule in the model breaks this theorem; the
model in turn is tied to `uhppote/<op>.go` by the source pins and the `ops` stream. (`hsys`: a
decoded system date has a year 1969..2068, the two-digit-year pivot, so the "0001-01-01 00:00:00
means no date-time" branch of the status mapping is unreachable.) -/

def InterpretsSpec (op : Op) : Prop :=
  ∃ sop, Spec.Api.findOp op.name = some sop ∧ op.reply = sop.reply ∧
    match op.reply with
    | none => ∀ args r fs, op.result args r = sop.interpret args fs
    | some n => ∃ R, Spec.Protocol.all.lookup n = some R ∧
        ∀ args (r : List Val), r.length = R.names.length →
          (∀ d, r.getD 19 .none_ = .sysDate (some d) → 1969 ≤ d.y) →
          op.result args r = sop.interpret args (R.names.zip r)

theorem C02_result_positional : ∀ op ∈ ops, InterpretsSpec op := by
  intro op hop
  simp only [ops, List.mem_cons, List.mem_nil_iff, or_false] at hop
  rcases hop with rfl | rfl | rfl | rfl | rfl | rfl | rfl | rfl | rfl | rfl | rfl | rfl | rfl | rfl | rfl | rfl |
    rfl | rfl | rfl | rfl | rfl | rfl | rfl | rfl | rfl | rfl | rfl | rfl | rfl | rfl | rfl
  all_goals refine ⟨_, rfl, rfl, ?_⟩
  all_goals dsimp only
  · refine ⟨_, rfl, ?_⟩
    intro args r hlen hsys
    simp only [Layout.names, Field.names, List.flatMap_cons, List.flatMap_nil, List.append_nil, List.cons_append, List.nil_append, List.length_cons, List.length_nil, Spec.Protocol.ActivateAccessKeypadsResponse, Spec.Protocol.AddTaskResponse, Spec.Protocol.ClearTaskListResponse, Spec.Protocol.ClearTimeProfilesResponse, Spec.Protocol.DeleteCardResponse, Spec.Protocol.DeleteCardsResponse, Spec.Protocol.GetCardByIDResponse, Spec.Protocol.GetCardByIndexResponse, Spec.Protocol.GetCardsResponse, Spec.Protocol.GetDeviceResponse, Spec.Protocol.GetDoorControlStateResponse, Spec.Protocol.GetEventIndexResponse, Spec.Protocol.GetEventResponse, Spec.Protocol.GetListenerResponse, Spec.Protocol.GetStatusResponse, Spec.Protocol.GetTimeProfileResponse, Spec.Protocol.GetTimeResponse, Spec.Protocol.OpenDoorResponse, Spec.Protocol.PutCardResponse, Spec.Protocol.RecordSpecialEventsResponse, Spec.Protocol.RefreshTaskListResponse, Spec.Protocol.RestoreDefaultParametersResponse, Spec.Protocol.SetDoorControlStateResponse, Spec.Protocol.SetDoorPasscodesResponse, Spec.Protocol.SetEventIndexResponse, Spec.Protocol.SetFirstCardResponse, Spec.Protocol.SetInterlockResponse, Spec.Protocol.SetListenerResponse, Spec.Protocol.SetPCControlResponse, Spec.Protocol.SetTimeProfileResponse, Spec.Protocol.SetTimeResponse] at hlen
    rcases r with _ | ⟨x0, _ | ⟨x1, _ | ⟨x2, _ | ⟨x3, _ | ⟨x4, _ | ⟨x5, _ | ⟨x6, _ | ⟨x7, _ | ⟨y, r⟩⟩⟩⟩⟩⟩⟩⟩⟩ <;> simp at hlen
    simp [List.lookup, Spec.Api.get, Spec.Api.succeeded, Spec.Api.card, okBool, cardResult, Spec.Api.simple, C01.v_val, Layout.names, Field.names, statusResult, statusEventOf, statusNoEvent, Spec.Api.status, Spec.Protocol.ActivateAccessKeypadsResponse, Spec.Protocol.AddTaskResponse, Spec.Protocol.ClearTaskListResponse, Spec.Protocol.ClearTimeProfilesResponse, Spec.Protocol.DeleteCardResponse, Spec.Protocol.DeleteCardsResponse, Spec.Protocol.GetCardByIDResponse, Spec.Protocol.GetCardByIndexResponse, Spec.Protocol.GetCardsResponse, Spec.Protocol.GetDeviceResponse, Spec.Protocol.GetDoorControlStateResponse, Spec.Protocol.GetEventIndexResponse, Spec.Protocol.GetEventResponse, Spec.Protocol.GetListenerResponse, Spec.Protocol.GetStatusResponse, Spec.Protocol.GetTimeProfileResponse, Spec.Protocol.GetTimeResponse, Spec.Protocol.OpenDoorResponse, Spec.Protocol.PutCardResponse, Spec.Protocol.RecordSpecialEventsResponse, Spec.Protocol.RefreshTaskListResponse, Spec.Protocol.RestoreDefaultParametersResponse, Spec.Protocol.SetDoorControlStateResponse, Spec.Protocol.SetDoorPasscodesResponse, Spec.Protocol.SetEventIndexResponse, Spec.Protocol.SetFirstCardResponse, Spec.Protocol.SetInterlockResponse, Spec.Protocol.SetListenerResponse, Spec.Protocol.SetPCControlResponse, Spec.Protocol.SetTimeProfileResponse, Spec.Protocol.SetTimeResponse]
  · intro args r fs; rfl
  · refine ⟨_, rfl, ?_⟩
    intro args r hlen hsys
    simp only [Layout.names, Field.names, List.flatMap_cons, List.flatMap_nil, List.append_nil, List.cons_append, List.nil_append, List.length_cons, List.length_nil, Spec.Protocol.ActivateAccessKeypadsResponse, Spec.Protocol.AddTaskResponse, Spec.Protocol.ClearTaskListResponse, Spec.Protocol.ClearTimeProfilesResponse, Spec.Protocol.DeleteCardResponse, Spec.Protocol.DeleteCardsResponse, Spec.Protocol.GetCardByIDResponse, Spec.Protocol.GetCardByIndexResponse, Spec.Protocol.GetCardsResponse, Spec.Protocol.GetDeviceResponse, Spec.Protocol.GetDoorControlStateResponse, Spec.Protocol.GetEventIndexResponse, Spec.Protocol.GetEventResponse, Spec.Protocol.GetListenerResponse, Spec.Protocol.GetStatusResponse, Spec.Protocol.GetTimeProfileResponse, Spec.Protocol.GetTimeResponse, Spec.Protocol.OpenDoorResponse, Spec.Protocol.PutCardResponse, Spec.Protocol.RecordSpecialEventsResponse, Spec.Protocol.RefreshTaskListResponse, Spec.Protocol.RestoreDefaultParametersResponse, Spec.Protocol.SetDoorControlStateResponse, Spec.Protocol.SetDoorPasscodesResponse, Spec.Protocol.SetEventIndexResponse, Spec.Protocol.SetFirstCardResponse, Spec.Protocol.SetInterlockResponse, Spec.Protocol.SetListenerResponse, Spec.Protocol.SetPCControlResponse, Spec.Protocol.SetTimeProfileResponse, Spec.Protocol.SetTimeResponse] at hlen
    rcases r with _ | ⟨x0, _ | ⟨x1, _ | ⟨x2, _ | ⟨x3, _ | ⟨y, r⟩⟩⟩⟩⟩ <;> simp at hlen
    simp [List.lookup, Spec.Api.get, Spec.Api.succeeded, Spec.Api.card, okBool, cardResult, Spec.Api.simple, C01.v_val, Layout.names, Field.names, statusResult, statusEventOf, statusNoEvent, Spec.Api.status, Spec.Protocol.ActivateAccessKeypadsResponse, Spec.Protocol.AddTaskResponse, Spec.Protocol.ClearTaskListResponse, Spec.Protocol.ClearTimeProfilesResponse, Spec.Protocol.DeleteCardResponse, Spec.Protocol.DeleteCardsResponse, Spec.Protocol.GetCardByIDResponse, Spec.Protocol.GetCardByIndexResponse, Spec.Protocol.GetCardsResponse, Spec.Protocol.GetDeviceResponse, Spec.Protocol.GetDoorControlStateResponse, Spec.Protocol.GetEventIndexResponse, Spec.Protocol.GetEventResponse, Spec.Protocol.GetListenerResponse, Spec.Protocol.GetStatusResponse, Spec.Protocol.GetTimeProfileResponse, Spec.Protocol.GetTimeResponse, Spec.Protocol.OpenDoorResponse, Spec.Protocol.PutCardResponse, Spec.Protocol.RecordSpecialEventsResponse, Spec.Protocol.RefreshTaskListResponse, Spec.Protocol.RestoreDefaultParametersResponse, Spec.Protocol.SetDoorControlStateResponse, Spec.Protocol.SetDoorPasscodesResponse, Spec.Protocol.SetEventIndexResponse, Spec.Protocol.SetFirstCardResponse, Spec.Protocol.SetInterlockResponse, Spec.Protocol.SetListenerResponse, Spec.Protocol.SetPCControlResponse, Spec.Protocol.SetTimeProfileResponse, Spec.Protocol.SetTimeResponse]
  · refine ⟨_, rfl, ?_⟩
    intro args r hlen hsys
    simp only [Layout.names, Field.names, List.flatMap_cons, List.flatMap_nil, List.append_nil, List.cons_append, List.nil_append, List.length_cons, List.length_nil, Spec.Protocol.ActivateAccessKeypadsResponse, Spec.Protocol.AddTaskResponse, Spec.Protocol.ClearTaskListResponse, Spec.Protocol.ClearTimeProfilesResponse, Spec.Protocol.DeleteCardResponse, Spec.Protocol.DeleteCardsResponse, Spec.Protocol.GetCardByIDResponse, Spec.Protocol.GetCardByIndexResponse, Spec.Protocol.GetCardsResponse, Spec.Protocol.GetDeviceResponse, Spec.Protocol.GetDoorControlStateResponse, Spec.Protocol.GetEventIndexResponse, Spec.Protocol.GetEventResponse, Spec.Protocol.GetListenerResponse, Spec.Protocol.GetStatusResponse, Spec.Protocol.GetTimeProfileResponse, Spec.Protocol.GetTimeResponse, Spec.Protocol.OpenDoorResponse, Spec.Protocol.PutCardResponse, Spec.Protocol.RecordSpecialEventsResponse, Spec.Protocol.RefreshTaskListResponse, Spec.Protocol.RestoreDefaultParametersResponse, Spec.Protocol.SetDoorControlStateResponse, Spec.Protocol.SetDoorPasscodesResponse, Spec.Protocol.SetEventIndexResponse, Spec.Protocol.SetFirstCardResponse, Spec.Protocol.SetInterlockResponse, Spec.Protocol.SetListenerResponse, Spec.Protocol.SetPCControlResponse, Spec.Protocol.SetTimeProfileResponse, Spec.Protocol.SetTimeResponse] at hlen
    rcases r with _ | ⟨x0, _ | ⟨x1, _ | ⟨x2, _ | ⟨y, r⟩⟩⟩⟩ <;> simp at hlen
    simp [List.lookup, Spec.Api.get, Spec.Api.succeeded, Spec.Api.card, okBool, cardResult, Spec.Api.simple, C01.v_val, Layout.names, Field.names, statusResult, statusEventOf, statusNoEvent, Spec.Api.status, Spec.Protocol.ActivateAccessKeypadsResponse, Spec.Protocol.AddTaskResponse, Spec.Protocol.ClearTaskListResponse, Spec.Protocol.ClearTimeProfilesResponse, Spec.Protocol.DeleteCardResponse, Spec.Protocol.DeleteCardsResponse, Spec.Protocol.GetCardByIDResponse, Spec.Protocol.GetCardByIndexResponse, Spec.Protocol.GetCardsResponse, Spec.Protocol.GetDeviceResponse, Spec.Protocol.GetDoorControlStateResponse, Spec.Protocol.GetEventIndexResponse, Spec.Protocol.GetEventResponse, Spec.Protocol.GetListenerResponse, Spec.Protocol.GetStatusResponse, Spec.Protocol.GetTimeProfileResponse, Spec.Protocol.GetTimeResponse, Spec.Protocol.OpenDoorResponse, Spec.Protocol.PutCardResponse, Spec.Protocol.RecordSpecialEventsResponse, Spec.Protocol.RefreshTaskListResponse, Spec.Protocol.RestoreDefaultParametersResponse, Spec.Protocol.SetDoorControlStateResponse, Spec.Protocol.SetDoorPasscodesResponse, Spec.Protocol.SetEventIndexResponse, Spec.Protocol.SetFirstCardResponse, Spec.Protocol.SetInterlockResponse, Spec.Protocol.SetListenerResponse, Spec.Protocol.SetPCControlResponse, Spec.Protocol.SetTimeProfileResponse, Spec.Protocol.SetTimeResponse]
  · refine ⟨_, rfl, ?_⟩
    intro args r hlen hsys
    simp only [Layout.names, Field.names, List.flatMap_cons, List.flatMap_nil, List.append_nil, List.cons_append, List.nil_append, List.length_cons, List.length_nil, Spec.Protocol.ActivateAccessKeypadsResponse, Spec.Protocol.AddTaskResponse, Spec.Protocol.ClearTaskListResponse, Spec.Protocol.ClearTimeProfilesResponse, Spec.Protocol.DeleteCardResponse, Spec.Protocol.DeleteCardsResponse, Spec.Protocol.GetCardByIDResponse, Spec.Protocol.GetCardByIndexResponse, Spec.Protocol.GetCardsResponse, Spec.Protocol.GetDeviceResponse, Spec.Protocol.GetDoorControlStateResponse, Spec.Protocol.GetEventIndexResponse, Spec.Protocol.GetEventResponse, Spec.Protocol.GetListenerResponse, Spec.Protocol.GetStatusResponse, Spec.Protocol.GetTimeProfileResponse, Spec.Protocol.GetTimeResponse, Spec.Protocol.OpenDoorResponse, Spec.Protocol.PutCardResponse, Spec.Protocol.RecordSpecialEventsResponse, Spec.Protocol.RefreshTaskListResponse, Spec.Protocol.RestoreDefaultParametersResponse, Spec.Protocol.SetDoorControlStateResponse, Spec.Protocol.SetDoorPasscodesResponse, Spec.Protocol.SetEventIndexResponse, Spec.Protocol.SetFirstCardResponse, Spec.Protocol.SetInterlockResponse, Spec.Protocol.SetListenerResponse, Spec.Protocol.SetPCControlResponse, Spec.Protocol.SetTimeProfileResponse, Spec.Protocol.SetTimeResponse] at hlen
    rcases r with _ | ⟨x0, _ | ⟨x1, _ | ⟨x2, _ | ⟨y, r⟩⟩⟩⟩ <;> simp at hlen
    simp [List.lookup, Spec.Api.get, Spec.Api.succeeded, Spec.Api.card, okBool, cardResult, Spec.Api.simple, C01.v_val, Layout.names, Field.names, statusResult, statusEventOf, statusNoEvent, Spec.Api.status, Spec.Protocol.ActivateAccessKeypadsResponse, Spec.Protocol.AddTaskResponse, Spec.Protocol.ClearTaskListResponse, Spec.Protocol.ClearTimeProfilesResponse, Spec.Protocol.DeleteCardResponse, Spec.Protocol.DeleteCardsResponse, Spec.Protocol.GetCardByIDResponse, Spec.Protocol.GetCardByIndexResponse, Spec.Protocol.GetCardsResponse, Spec.Protocol.GetDeviceResponse, Spec.Protocol.GetDoorControlStateResponse, Spec.Protocol.GetEventIndexResponse, Spec.Protocol.GetEventResponse, Spec.Protocol.GetListenerResponse, Spec.Protocol.GetStatusResponse, Spec.Protocol.GetTimeProfileResponse, Spec.Protocol.GetTimeResponse, Spec.Protocol.OpenDoorResponse, Spec.Protocol.PutCardResponse, Spec.Protocol.RecordSpecialEventsResponse, Spec.Protocol.RefreshTaskListResponse, Spec.Protocol.RestoreDefaultParametersResponse, Spec.Protocol.SetDoorControlStateResponse, Spec.Protocol.SetDoorPasscodesResponse, Spec.Protocol.SetEventIndexResponse, Spec.Protocol.SetFirstCardResponse, Spec.Protocol.SetInterlockResponse, Spec.Protocol.SetListenerResponse, Spec.Protocol.SetPCControlResponse, Spec.Protocol.SetTimeProfileResponse, Spec.Protocol.SetTimeResponse]
  · refine ⟨_, rfl, ?_⟩
    intro args r hlen hsys
    simp only [Layout.names, Field.names, List.flatMap_cons, List.flatMap_nil, List.append_nil, List.cons_append, List.nil_append, List.length_cons, List.length_nil, Spec.Protocol.ActivateAccessKeypadsResponse, Spec.Protocol.AddTaskResponse, Spec.Protocol.ClearTaskListResponse, Spec.Protocol.ClearTimeProfilesResponse, Spec.Protocol.DeleteCardResponse, Spec.Protocol.DeleteCardsResponse, Spec.Protocol.GetCardByIDResponse, Spec.Protocol.GetCardByIndexResponse, Spec.Protocol.GetCardsResponse, Spec.Protocol.GetDeviceResponse, Spec.Protocol.GetDoorControlStateResponse, Spec.Protocol.GetEventIndexResponse, Spec.Protocol.GetEventResponse, Spec.Protocol.GetListenerResponse, Spec.Protocol.GetStatusResponse, Spec.Protocol.GetTimeProfileResponse, Spec.Protocol.GetTimeResponse, Spec.Protocol.OpenDoorResponse, Spec.Protocol.PutCardResponse, Spec.Protocol.RecordSpecialEventsResponse, Spec.Protocol.RefreshTaskListResponse, Spec.Protocol.RestoreDefaultParametersResponse, Spec.Protocol.SetDoorControlStateResponse, Spec.Protocol.SetDoorPasscodesResponse, Spec.Protocol.SetEventIndexResponse, Spec.Protocol.SetFirstCardResponse, Spec.Protocol.SetInterlockResponse, Spec.Protocol.SetListenerResponse, Spec.Protocol.SetPCControlResponse, Spec.Protocol.SetTimeProfileResponse, Spec.Protocol.SetTimeResponse] at hlen
    rcases r with _ | ⟨x0, _ | ⟨x1, _ | ⟨x2, _ | ⟨y, r⟩⟩⟩⟩ <;> simp at hlen
    simp [List.lookup, Spec.Api.get, Spec.Api.succeeded, Spec.Api.card, okBool, cardResult, Spec.Api.simple, C01.v_val, Layout.names, Field.names, statusResult, statusEventOf, statusNoEvent, Spec.Api.status, Spec.Protocol.ActivateAccessKeypadsResponse, Spec.Protocol.AddTaskResponse, Spec.Protocol.ClearTaskListResponse, Spec.Protocol.ClearTimeProfilesResponse, Spec.Protocol.DeleteCardResponse, Spec.Protocol.DeleteCardsResponse, Spec.Protocol.GetCardByIDResponse, Spec.Protocol.GetCardByIndexResponse, Spec.Protocol.GetCardsResponse, Spec.Protocol.GetDeviceResponse, Spec.Protocol.GetDoorControlStateResponse, Spec.Protocol.GetEventIndexResponse, Spec.Protocol.GetEventResponse, Spec.Protocol.GetListenerResponse, Spec.Protocol.GetStatusResponse, Spec.Protocol.GetTimeProfileResponse, Spec.Protocol.GetTimeResponse, Spec.Protocol.OpenDoorResponse, Spec.Protocol.PutCardResponse, Spec.Protocol.RecordSpecialEventsResponse, Spec.Protocol.RefreshTaskListResponse, Spec.Protocol.RestoreDefaultParametersResponse, Spec.Protocol.SetDoorControlStateResponse, Spec.Protocol.SetDoorPasscodesResponse, Spec.Protocol.SetEventIndexResponse, Spec.Protocol.SetFirstCardResponse, Spec.Protocol.SetInterlockResponse, Spec.Protocol.SetListenerResponse, Spec.Protocol.SetPCControlResponse, Spec.Protocol.SetTimeProfileResponse, Spec.Protocol.SetTimeResponse]
  · refine ⟨_, rfl, ?_⟩
    intro args r hlen hsys
    simp only [Layout.names, Field.names, List.flatMap_cons, List.flatMap_nil, List.append_nil, List.cons_append, List.nil_append, List.length_cons, List.length_nil, Spec.Protocol.ActivateAccessKeypadsResponse, Spec.Protocol.AddTaskResponse, Spec.Protocol.ClearTaskListResponse, Spec.Protocol.ClearTimeProfilesResponse, Spec.Protocol.DeleteCardResponse, Spec.Protocol.DeleteCardsResponse, Spec.Protocol.GetCardByIDResponse, Spec.Protocol.GetCardByIndexResponse, Spec.Protocol.GetCardsResponse, Spec.Protocol.GetDeviceResponse, Spec.Protocol.GetDoorControlStateResponse, Spec.Protocol.GetEventIndexResponse, Spec.Protocol.GetEventResponse, Spec.Protocol.GetListenerResponse, Spec.Protocol.GetStatusResponse, Spec.Protocol.GetTimeProfileResponse, Spec.Protocol.GetTimeResponse, Spec.Protocol.OpenDoorResponse, Spec.Protocol.PutCardResponse, Spec.Protocol.RecordSpecialEventsResponse, Spec.Protocol.RefreshTaskListResponse, Spec.Protocol.RestoreDefaultParametersResponse, Spec.Protocol.SetDoorControlStateResponse, Spec.Protocol.SetDoorPasscodesResponse, Spec.Protocol.SetEventIndexResponse, Spec.Protocol.SetFirstCardResponse, Spec.Protocol.SetInterlockResponse, Spec.Protocol.SetListenerResponse, Spec.Protocol.SetPCControlResponse, Spec.Protocol.SetTimeProfileResponse, Spec.Protocol.SetTimeResponse] at hlen
    rcases r with _ | ⟨x0, _ | ⟨x1, _ | ⟨x2, _ | ⟨x3, _ | ⟨x4, _ | ⟨y, r⟩⟩⟩⟩⟩⟩ <;> simp at hlen
    simp [List.lookup, Spec.Api.get, Spec.Api.succeeded, Spec.Api.card, okBool, cardResult, Spec.Api.simple, C01.v_val, Layout.names, Field.names, statusResult, statusEventOf, statusNoEvent, Spec.Api.status, Spec.Protocol.ActivateAccessKeypadsResponse, Spec.Protocol.AddTaskResponse, Spec.Protocol.ClearTaskListResponse, Spec.Protocol.ClearTimeProfilesResponse, Spec.Protocol.DeleteCardResponse, Spec.Protocol.DeleteCardsResponse, Spec.Protocol.GetCardByIDResponse, Spec.Protocol.GetCardByIndexResponse, Spec.Protocol.GetCardsResponse, Spec.Protocol.GetDeviceResponse, Spec.Protocol.GetDoorControlStateResponse, Spec.Protocol.GetEventIndexResponse, Spec.Protocol.GetEventResponse, Spec.Protocol.GetListenerResponse, Spec.Protocol.GetStatusResponse, Spec.Protocol.GetTimeProfileResponse, Spec.Protocol.GetTimeResponse, Spec.Protocol.OpenDoorResponse, Spec.Protocol.PutCardResponse, Spec.Protocol.RecordSpecialEventsResponse, Spec.Protocol.RefreshTaskListResponse, Spec.Protocol.RestoreDefaultParametersResponse, Spec.Protocol.SetDoorControlStateResponse, Spec.Protocol.SetDoorPasscodesResponse, Spec.Protocol.SetEventIndexResponse, Spec.Protocol.SetFirstCardResponse, Spec.Protocol.SetInterlockResponse, Spec.Protocol.SetListenerResponse, Spec.Protocol.SetPCControlResponse, Spec.Protocol.SetTimeProfileResponse, Spec.Protocol.SetTimeResponse]
  · refine ⟨_, rfl, ?_⟩
    intro args r hlen hsys
    simp only [Layout.names, Field.names, List.flatMap_cons, List.flatMap_nil, List.append_nil, List.cons_append, List.nil_append, List.length_cons, List.length_nil, Spec.Protocol.ActivateAccessKeypadsResponse, Spec.Protocol.AddTaskResponse, Spec.Protocol.ClearTaskListResponse, Spec.Protocol.ClearTimeProfilesResponse, Spec.Protocol.DeleteCardResponse, Spec.Protocol.DeleteCardsResponse, Spec.Protocol.GetCardByIDResponse, Spec.Protocol.GetCardByIndexResponse, Spec.Protocol.GetCardsResponse, Spec.Protocol.GetDeviceResponse, Spec.Protocol.GetDoorControlStateResponse, Spec.Protocol.GetEventIndexResponse, Spec.Protocol.GetEventResponse, Spec.Protocol.GetListenerResponse, Spec.Protocol.GetStatusResponse, Spec.Protocol.GetTimeProfileResponse, Spec.Protocol.GetTimeResponse, Spec.Protocol.OpenDoorResponse, Spec.Protocol.PutCardResponse, Spec.Protocol.RecordSpecialEventsResponse, Spec.Protocol.RefreshTaskListResponse, Spec.Protocol.RestoreDefaultParametersResponse, Spec.Protocol.SetDoorControlStateResponse, Spec.Protocol.SetDoorPasscodesResponse, Spec.Protocol.SetEventIndexResponse, Spec.Protocol.SetFirstCardResponse, Spec.Protocol.SetInterlockResponse, Spec.Protocol.SetListenerResponse, Spec.Protocol.SetPCControlResponse, Spec.Protocol.SetTimeProfileResponse, Spec.Protocol.SetTimeResponse] at hlen
    rcases r with _ | ⟨x0, _ | ⟨x1, _ | ⟨x2, _ | ⟨x3, _ | ⟨x4, _ | ⟨y, r⟩⟩⟩⟩⟩⟩ <;> simp at hlen
    simp [List.lookup, Spec.Api.get, Spec.Api.succeeded, Spec.Api.card, okBool, cardResult, Spec.Api.simple, C01.v_val, Layout.names, Field.names, statusResult, statusEventOf, statusNoEvent, Spec.Api.status, Spec.Protocol.ActivateAccessKeypadsResponse, Spec.Protocol.AddTaskResponse, Spec.Protocol.ClearTaskListResponse, Spec.Protocol.ClearTimeProfilesResponse, Spec.Protocol.DeleteCardResponse, Spec.Protocol.DeleteCardsResponse, Spec.Protocol.GetCardByIDResponse, Spec.Protocol.GetCardByIndexResponse, Spec.Protocol.GetCardsResponse, Spec.Protocol.GetDeviceResponse, Spec.Protocol.GetDoorControlStateResponse, Spec.Protocol.GetEventIndexResponse, Spec.Protocol.GetEventResponse, Spec.Protocol.GetListenerResponse, Spec.Protocol.GetStatusResponse, Spec.Protocol.GetTimeProfileResponse, Spec.Protocol.GetTimeResponse, Spec.Protocol.OpenDoorResponse, Spec.Protocol.PutCardResponse, Spec.Protocol.RecordSpecialEventsResponse, Spec.Protocol.RefreshTaskListResponse, Spec.Protocol.RestoreDefaultParametersResponse, Spec.Protocol.SetDoorControlStateResponse, Spec.Protocol.SetDoorPasscodesResponse, Spec.Protocol.SetEventIndexResponse, Spec.Protocol.SetFirstCardResponse, Spec.Protocol.SetInterlockResponse, Spec.Protocol.SetListenerResponse, Spec.Protocol.SetPCControlResponse, Spec.Protocol.SetTimeProfileResponse, Spec.Protocol.SetTimeResponse]
  · refine ⟨_, rfl, ?_⟩
    intro args r hlen hsys
    simp only [Layout.names, Field.names, List.flatMap_cons, List.flatMap_nil, List.append_nil, List.cons_append, List.nil_append, List.length_cons, List.length_nil, Spec.Protocol.ActivateAccessKeypadsResponse, Spec.Protocol.AddTaskResponse, Spec.Protocol.ClearTaskListResponse, Spec.Protocol.ClearTimeProfilesResponse, Spec.Protocol.DeleteCardResponse, Spec.Protocol.DeleteCardsResponse, Spec.Protocol.GetCardByIDResponse, Spec.Protocol.GetCardByIndexResponse, Spec.Protocol.GetCardsResponse, Spec.Protocol.GetDeviceResponse, Spec.Protocol.GetDoorControlStateResponse, Spec.Protocol.GetEventIndexResponse, Spec.Protocol.GetEventResponse, Spec.Protocol.GetListenerResponse, Spec.Protocol.GetStatusResponse, Spec.Protocol.GetTimeProfileResponse, Spec.Protocol.GetTimeResponse, Spec.Protocol.OpenDoorResponse, Spec.Protocol.PutCardResponse, Spec.Protocol.RecordSpecialEventsResponse, Spec.Protocol.RefreshTaskListResponse, Spec.Protocol.RestoreDefaultParametersResponse, Spec.Protocol.SetDoorControlStateResponse, Spec.Protocol.SetDoorPasscodesResponse, Spec.Protocol.SetEventIndexResponse, Spec.Protocol.SetFirstCardResponse, Spec.Protocol.SetInterlockResponse, Spec.Protocol.SetListenerResponse, Spec.Protocol.SetPCControlResponse, Spec.Protocol.SetTimeProfileResponse, Spec.Protocol.SetTimeResponse] at hlen
    rcases r with _ | ⟨x0, _ | ⟨x1, _ | ⟨x2, _ | ⟨x3, _ | ⟨x4, _ | ⟨x5, _ | ⟨x6, _ | ⟨x7, _ | ⟨x8, _ | ⟨x9, _ | ⟨x10, _ | ⟨x11, _ | ⟨x12, _ | ⟨x13, _ | ⟨x14, _ | ⟨x15, _ | ⟨x16, _ | ⟨x17, _ | ⟨x18, _ | ⟨x19, _ | ⟨x20, _ | ⟨x21, _ | ⟨x22, _ | ⟨x23, _ | ⟨x24, _ | ⟨y, r⟩⟩⟩⟩⟩⟩⟩⟩⟩⟩⟩⟩⟩⟩⟩⟩⟩⟩⟩⟩⟩⟩⟩⟩⟩⟩ <;> simp at hlen
    simp [List.lookup, Spec.Api.get, Spec.Api.succeeded, Spec.Api.card, okBool, cardResult, Spec.Api.simple, C01.v_val, Layout.names, Field.names, statusResult, statusEventOf, statusNoEvent, Spec.Api.status, Spec.Protocol.ActivateAccessKeypadsResponse, Spec.Protocol.AddTaskResponse, Spec.Protocol.ClearTaskListResponse, Spec.Protocol.ClearTimeProfilesResponse, Spec.Protocol.DeleteCardResponse, Spec.Protocol.DeleteCardsResponse, Spec.Protocol.GetCardByIDResponse, Spec.Protocol.GetCardByIndexResponse, Spec.Protocol.GetCardsResponse, Spec.Protocol.GetDeviceResponse, Spec.Protocol.GetDoorControlStateResponse, Spec.Protocol.GetEventIndexResponse, Spec.Protocol.GetEventResponse, Spec.Protocol.GetListenerResponse, Spec.Protocol.GetStatusResponse, Spec.Protocol.GetTimeProfileResponse, Spec.Protocol.GetTimeResponse, Spec.Protocol.OpenDoorResponse, Spec.Protocol.PutCardResponse, Spec.Protocol.RecordSpecialEventsResponse, Spec.Protocol.RefreshTaskListResponse, Spec.Protocol.RestoreDefaultParametersResponse, Spec.Protocol.SetDoorControlStateResponse, Spec.Protocol.SetDoorPasscodesResponse, Spec.Protocol.SetEventIndexResponse, Spec.Protocol.SetFirstCardResponse, Spec.Protocol.SetInterlockResponse, Spec.Protocol.SetListenerResponse, Spec.Protocol.SetPCControlResponse, Spec.Protocol.SetTimeProfileResponse, Spec.Protocol.SetTimeResponse]
    constructor
    · cases x19 with
      | sysDate d =>
        cases d with
        | none => rfl
        | some d =>
          cases x20 with
          | sysTime t =>
            have hy : 1969 ≤ d.y := hsys d (by simp)
            have : ¬ (d.y = 1 ∧ d.m = 1 ∧ d.d = 1 ∧ t.h = 0 ∧ t.m = 0 ∧ t.s = 0) := by omega
            simp [sysDateTime, this]
          | _ => rfl
      | _ => rfl
    · cases x2 with
      | u32 n => cases n <;> rfl
      | _ => rfl

  · refine ⟨_, rfl, ?_⟩
    intro args r hlen hsys
    simp only [Layout.names, Field.names, List.flatMap_cons, List.flatMap_nil, List.append_nil, List.cons_append, List.nil_append, List.length_cons, List.length_nil, Spec.Protocol.ActivateAccessKeypadsResponse, Spec.Protocol.AddTaskResponse, Spec.Protocol.ClearTaskListResponse, Spec.Protocol.ClearTimeProfilesResponse, Spec.Protocol.DeleteCardResponse, Spec.Protocol.DeleteCardsResponse, Spec.Protocol.GetCardByIDResponse, Spec.Protocol.GetCardByIndexResponse, Spec.Protocol.GetCardsResponse, Spec.Protocol.GetDeviceResponse, Spec.Protocol.GetDoorControlStateResponse, Spec.Protocol.GetEventIndexResponse, Spec.Protocol.GetEventResponse, Spec.Protocol.GetListenerResponse, Spec.Protocol.GetStatusResponse, Spec.Protocol.GetTimeProfileResponse, Spec.Protocol.GetTimeResponse, Spec.Protocol.OpenDoorResponse, Spec.Protocol.PutCardResponse, Spec.Protocol.RecordSpecialEventsResponse, Spec.Protocol.RefreshTaskListResponse, Spec.Protocol.RestoreDefaultParametersResponse, Spec.Protocol.SetDoorControlStateResponse, Spec.Protocol.SetDoorPasscodesResponse, Spec.Protocol.SetEventIndexResponse, Spec.Protocol.SetFirstCardResponse, Spec.Protocol.SetInterlockResponse, Spec.Protocol.SetListenerResponse, Spec.Protocol.SetPCControlResponse, Spec.Protocol.SetTimeProfileResponse, Spec.Protocol.SetTimeResponse] at hlen
    rcases r with _ | ⟨x0, _ | ⟨x1, _ | ⟨x2, _ | ⟨y, r⟩⟩⟩⟩ <;> simp at hlen
    simp [List.lookup, Spec.Api.get, Spec.Api.succeeded, Spec.Api.card, okBool, cardResult, Spec.Api.simple, C01.v_val, Layout.names, Field.names, statusResult, statusEventOf, statusNoEvent, Spec.Api.status, Spec.Protocol.ActivateAccessKeypadsResponse, Spec.Protocol.AddTaskResponse, Spec.Protocol.ClearTaskListResponse, Spec.Protocol.ClearTimeProfilesResponse, Spec.Protocol.DeleteCardResponse, Spec.Protocol.DeleteCardsResponse, Spec.Protocol.GetCardByIDResponse, Spec.Protocol.GetCardByIndexResponse, Spec.Protocol.GetCardsResponse, Spec.Protocol.GetDeviceResponse, Spec.Protocol.GetDoorControlStateResponse, Spec.Protocol.GetEventIndexResponse, Spec.Protocol.GetEventResponse, Spec.Protocol.GetListenerResponse, Spec.Protocol.GetStatusResponse, Spec.Protocol.GetTimeProfileResponse, Spec.Protocol.GetTimeResponse, Spec.Protocol.OpenDoorResponse, Spec.Protocol.PutCardResponse, Spec.Protocol.RecordSpecialEventsResponse, Spec.Protocol.RefreshTaskListResponse, Spec.Protocol.RestoreDefaultParametersResponse, Spec.Protocol.SetDoorControlStateResponse, Spec.Protocol.SetDoorPasscodesResponse, Spec.Protocol.SetEventIndexResponse, Spec.Protocol.SetFirstCardResponse, Spec.Protocol.SetInterlockResponse, Spec.Protocol.SetListenerResponse, Spec.Protocol.SetPCControlResponse, Spec.Protocol.SetTimeProfileResponse, Spec.Protocol.SetTimeResponse]
  · refine ⟨_, rfl, ?_⟩
    intro args r hlen hsys
    simp only [Layout.names, Field.names, List.flatMap_cons, List.flatMap_nil, List.append_nil, List.cons_append, List.nil_append, List.length_cons, List.length_nil, Spec.Protocol.ActivateAccessKeypadsResponse, Spec.Protocol.AddTaskResponse, Spec.Protocol.ClearTaskListResponse, Spec.Protocol.ClearTimeProfilesResponse, Spec.Protocol.DeleteCardResponse, Spec.Protocol.DeleteCardsResponse, Spec.Protocol.GetCardByIDResponse, Spec.Protocol.GetCardByIndexResponse, Spec.Protocol.GetCardsResponse, Spec.Protocol.GetDeviceResponse, Spec.Protocol.GetDoorControlStateResponse, Spec.Protocol.GetEventIndexResponse, Spec.Protocol.GetEventResponse, Spec.Protocol.GetListenerResponse, Spec.Protocol.GetStatusResponse, Spec.Protocol.GetTimeProfileResponse, Spec.Protocol.GetTimeResponse, Spec.Protocol.OpenDoorResponse, Spec.Protocol.PutCardResponse, Spec.Protocol.RecordSpecialEventsResponse, Spec.Protocol.RefreshTaskListResponse, Spec.Protocol.RestoreDefaultParametersResponse, Spec.Protocol.SetDoorControlStateResponse, Spec.Protocol.SetDoorPasscodesResponse, Spec.Protocol.SetEventIndexResponse, Spec.Protocol.SetFirstCardResponse, Spec.Protocol.SetInterlockResponse, Spec.Protocol.SetListenerResponse, Spec.Protocol.SetPCControlResponse, Spec.Protocol.SetTimeProfileResponse, Spec.Protocol.SetTimeResponse] at hlen
    rcases r with _ | ⟨x0, _ | ⟨x1, _ | ⟨x2, _ | ⟨x3, _ | ⟨x4, _ | ⟨x5, _ | ⟨x6, _ | ⟨x7, _ | ⟨x8, _ | ⟨x9, _ | ⟨y, r⟩⟩⟩⟩⟩⟩⟩⟩⟩⟩⟩ <;> simp at hlen
    simp [List.lookup, Spec.Api.get, Spec.Api.succeeded, Spec.Api.card, okBool, cardResult, Spec.Api.simple, C01.v_val, Layout.names, Field.names, statusResult, statusEventOf, statusNoEvent, Spec.Api.status, Spec.Protocol.ActivateAccessKeypadsResponse, Spec.Protocol.AddTaskResponse, Spec.Protocol.ClearTaskListResponse, Spec.Protocol.ClearTimeProfilesResponse, Spec.Protocol.DeleteCardResponse, Spec.Protocol.DeleteCardsResponse, Spec.Protocol.GetCardByIDResponse, Spec.Protocol.GetCardByIndexResponse, Spec.Protocol.GetCardsResponse, Spec.Protocol.GetDeviceResponse, Spec.Protocol.GetDoorControlStateResponse, Spec.Protocol.GetEventIndexResponse, Spec.Protocol.GetEventResponse, Spec.Protocol.GetListenerResponse, Spec.Protocol.GetStatusResponse, Spec.Protocol.GetTimeProfileResponse, Spec.Protocol.GetTimeResponse, Spec.Protocol.OpenDoorResponse, Spec.Protocol.PutCardResponse, Spec.Protocol.RecordSpecialEventsResponse, Spec.Protocol.RefreshTaskListResponse, Spec.Protocol.RestoreDefaultParametersResponse, Spec.Protocol.SetDoorControlStateResponse, Spec.Protocol.SetDoorPasscodesResponse, Spec.Protocol.SetEventIndexResponse, Spec.Protocol.SetFirstCardResponse, Spec.Protocol.SetInterlockResponse, Spec.Protocol.SetListenerResponse, Spec.Protocol.SetPCControlResponse, Spec.Protocol.SetTimeProfileResponse, Spec.Protocol.SetTimeResponse]
    cases x2 <;> rfl

  · refine ⟨_, rfl, ?_⟩
    intro args r hlen hsys
    simp only [Layout.names, Field.names, List.flatMap_cons, List.flatMap_nil, List.append_nil, List.cons_append, List.nil_append, List.length_cons, List.length_nil, Spec.Protocol.ActivateAccessKeypadsResponse, Spec.Protocol.AddTaskResponse, Spec.Protocol.ClearTaskListResponse, Spec.Protocol.ClearTimeProfilesResponse, Spec.Protocol.DeleteCardResponse, Spec.Protocol.DeleteCardsResponse, Spec.Protocol.GetCardByIDResponse, Spec.Protocol.GetCardByIndexResponse, Spec.Protocol.GetCardsResponse, Spec.Protocol.GetDeviceResponse, Spec.Protocol.GetDoorControlStateResponse, Spec.Protocol.GetEventIndexResponse, Spec.Protocol.GetEventResponse, Spec.Protocol.GetListenerResponse, Spec.Protocol.GetStatusResponse, Spec.Protocol.GetTimeProfileResponse, Spec.Protocol.GetTimeResponse, Spec.Protocol.OpenDoorResponse, Spec.Protocol.PutCardResponse, Spec.Protocol.RecordSpecialEventsResponse, Spec.Protocol.RefreshTaskListResponse, Spec.Protocol.RestoreDefaultParametersResponse, Spec.Protocol.SetDoorControlStateResponse, Spec.Protocol.SetDoorPasscodesResponse, Spec.Protocol.SetEventIndexResponse, Spec.Protocol.SetFirstCardResponse, Spec.Protocol.SetInterlockResponse, Spec.Protocol.SetListenerResponse, Spec.Protocol.SetPCControlResponse, Spec.Protocol.SetTimeProfileResponse, Spec.Protocol.SetTimeResponse] at hlen
    rcases r with _ | ⟨x0, _ | ⟨x1, _ | ⟨x2, _ | ⟨x3, _ | ⟨x4, _ | ⟨x5, _ | ⟨x6, _ | ⟨x7, _ | ⟨x8, _ | ⟨x9, _ | ⟨y, r⟩⟩⟩⟩⟩⟩⟩⟩⟩⟩⟩ <;> simp at hlen
    simp [List.lookup, Spec.Api.get, Spec.Api.succeeded, Spec.Api.card, okBool, cardResult, Spec.Api.simple, C01.v_val, Layout.names, Field.names, statusResult, statusEventOf, statusNoEvent, Spec.Api.status, Spec.Protocol.ActivateAccessKeypadsResponse, Spec.Protocol.AddTaskResponse, Spec.Protocol.ClearTaskListResponse, Spec.Protocol.ClearTimeProfilesResponse, Spec.Protocol.DeleteCardResponse, Spec.Protocol.DeleteCardsResponse, Spec.Protocol.GetCardByIDResponse, Spec.Protocol.GetCardByIndexResponse, Spec.Protocol.GetCardsResponse, Spec.Protocol.GetDeviceResponse, Spec.Protocol.GetDoorControlStateResponse, Spec.Protocol.GetEventIndexResponse, Spec.Protocol.GetEventResponse, Spec.Protocol.GetListenerResponse, Spec.Protocol.GetStatusResponse, Spec.Protocol.GetTimeProfileResponse, Spec.Protocol.GetTimeResponse, Spec.Protocol.OpenDoorResponse, Spec.Protocol.PutCardResponse, Spec.Protocol.RecordSpecialEventsResponse, Spec.Protocol.RefreshTaskListResponse, Spec.Protocol.RestoreDefaultParametersResponse, Spec.Protocol.SetDoorControlStateResponse, Spec.Protocol.SetDoorPasscodesResponse, Spec.Protocol.SetEventIndexResponse, Spec.Protocol.SetFirstCardResponse, Spec.Protocol.SetInterlockResponse, Spec.Protocol.SetListenerResponse, Spec.Protocol.SetPCControlResponse, Spec.Protocol.SetTimeProfileResponse, Spec.Protocol.SetTimeResponse]
    cases x2 <;> simp [u32?_n32, C01.v_arg]

  · refine ⟨_, rfl, ?_⟩
    intro args r hlen hsys
    simp only [Layout.names, Field.names, List.flatMap_cons, List.flatMap_nil, List.append_nil, List.cons_append, List.nil_append, List.length_cons, List.length_nil, Spec.Protocol.ActivateAccessKeypadsResponse, Spec.Protocol.AddTaskResponse, Spec.Protocol.ClearTaskListResponse, Spec.Protocol.ClearTimeProfilesResponse, Spec.Protocol.DeleteCardResponse, Spec.Protocol.DeleteCardsResponse, Spec.Protocol.GetCardByIDResponse, Spec.Protocol.GetCardByIndexResponse, Spec.Protocol.GetCardsResponse, Spec.Protocol.GetDeviceResponse, Spec.Protocol.GetDoorControlStateResponse, Spec.Protocol.GetEventIndexResponse, Spec.Protocol.GetEventResponse, Spec.Protocol.GetListenerResponse, Spec.Protocol.GetStatusResponse, Spec.Protocol.GetTimeProfileResponse, Spec.Protocol.GetTimeResponse, Spec.Protocol.OpenDoorResponse, Spec.Protocol.PutCardResponse, Spec.Protocol.RecordSpecialEventsResponse, Spec.Protocol.RefreshTaskListResponse, Spec.Protocol.RestoreDefaultParametersResponse, Spec.Protocol.SetDoorControlStateResponse, Spec.Protocol.SetDoorPasscodesResponse, Spec.Protocol.SetEventIndexResponse, Spec.Protocol.SetFirstCardResponse, Spec.Protocol.SetInterlockResponse, Spec.Protocol.SetListenerResponse, Spec.Protocol.SetPCControlResponse, Spec.Protocol.SetTimeProfileResponse, Spec.Protocol.SetTimeResponse] at hlen
    rcases r with _ | ⟨x0, _ | ⟨x1, _ | ⟨x2, _ | ⟨y, r⟩⟩⟩⟩ <;> simp at hlen
    simp [List.lookup, Spec.Api.get, Spec.Api.succeeded, Spec.Api.card, okBool, cardResult, Spec.Api.simple, C01.v_val, Layout.names, Field.names, statusResult, statusEventOf, statusNoEvent, Spec.Api.status, Spec.Protocol.ActivateAccessKeypadsResponse, Spec.Protocol.AddTaskResponse, Spec.Protocol.ClearTaskListResponse, Spec.Protocol.ClearTimeProfilesResponse, Spec.Protocol.DeleteCardResponse, Spec.Protocol.DeleteCardsResponse, Spec.Protocol.GetCardByIDResponse, Spec.Protocol.GetCardByIndexResponse, Spec.Protocol.GetCardsResponse, Spec.Protocol.GetDeviceResponse, Spec.Protocol.GetDoorControlStateResponse, Spec.Protocol.GetEventIndexResponse, Spec.Protocol.GetEventResponse, Spec.Protocol.GetListenerResponse, Spec.Protocol.GetStatusResponse, Spec.Protocol.GetTimeProfileResponse, Spec.Protocol.GetTimeResponse, Spec.Protocol.OpenDoorResponse, Spec.Protocol.PutCardResponse, Spec.Protocol.RecordSpecialEventsResponse, Spec.Protocol.RefreshTaskListResponse, Spec.Protocol.RestoreDefaultParametersResponse, Spec.Protocol.SetDoorControlStateResponse, Spec.Protocol.SetDoorPasscodesResponse, Spec.Protocol.SetEventIndexResponse, Spec.Protocol.SetFirstCardResponse, Spec.Protocol.SetInterlockResponse, Spec.Protocol.SetListenerResponse, Spec.Protocol.SetPCControlResponse, Spec.Protocol.SetTimeProfileResponse, Spec.Protocol.SetTimeResponse]
  · refine ⟨_, rfl, ?_⟩
    intro args r hlen hsys
    simp only [Layout.names, Field.names, List.flatMap_cons, List.flatMap_nil, List.append_nil, List.cons_append, List.nil_append, List.length_cons, List.length_nil, Spec.Protocol.ActivateAccessKeypadsResponse, Spec.Protocol.AddTaskResponse, Spec.Protocol.ClearTaskListResponse, Spec.Protocol.ClearTimeProfilesResponse, Spec.Protocol.DeleteCardResponse, Spec.Protocol.DeleteCardsResponse, Spec.Protocol.GetCardByIDResponse, Spec.Protocol.GetCardByIndexResponse, Spec.Protocol.GetCardsResponse, Spec.Protocol.GetDeviceResponse, Spec.Protocol.GetDoorControlStateResponse, Spec.Protocol.GetEventIndexResponse, Spec.Protocol.GetEventResponse, Spec.Protocol.GetListenerResponse, Spec.Protocol.GetStatusResponse, Spec.Protocol.GetTimeProfileResponse, Spec.Protocol.GetTimeResponse, Spec.Protocol.OpenDoorResponse, Spec.Protocol.PutCardResponse, Spec.Protocol.RecordSpecialEventsResponse, Spec.Protocol.RefreshTaskListResponse, Spec.Protocol.RestoreDefaultParametersResponse, Spec.Protocol.SetDoorControlStateResponse, Spec.Protocol.SetDoorPasscodesResponse, Spec.Protocol.SetEventIndexResponse, Spec.Protocol.SetFirstCardResponse, Spec.Protocol.SetInterlockResponse, Spec.Protocol.SetListenerResponse, Spec.Protocol.SetPCControlResponse, Spec.Protocol.SetTimeProfileResponse, Spec.Protocol.SetTimeResponse] at hlen
    rcases r with _ | ⟨x0, _ | ⟨x1, _ | ⟨x2, _ | ⟨y, r⟩⟩⟩⟩ <;> simp at hlen
    simp [List.lookup, Spec.Api.get, Spec.Api.succeeded, Spec.Api.card, okBool, cardResult, Spec.Api.simple, C01.v_val, Layout.names, Field.names, statusResult, statusEventOf, statusNoEvent, Spec.Api.status, Spec.Protocol.ActivateAccessKeypadsResponse, Spec.Protocol.AddTaskResponse, Spec.Protocol.ClearTaskListResponse, Spec.Protocol.ClearTimeProfilesResponse, Spec.Protocol.DeleteCardResponse, Spec.Protocol.DeleteCardsResponse, Spec.Protocol.GetCardByIDResponse, Spec.Protocol.GetCardByIndexResponse, Spec.Protocol.GetCardsResponse, Spec.Protocol.GetDeviceResponse, Spec.Protocol.GetDoorControlStateResponse, Spec.Protocol.GetEventIndexResponse, Spec.Protocol.GetEventResponse, Spec.Protocol.GetListenerResponse, Spec.Protocol.GetStatusResponse, Spec.Protocol.GetTimeProfileResponse, Spec.Protocol.GetTimeResponse, Spec.Protocol.OpenDoorResponse, Spec.Protocol.PutCardResponse, Spec.Protocol.RecordSpecialEventsResponse, Spec.Protocol.RefreshTaskListResponse, Spec.Protocol.RestoreDefaultParametersResponse, Spec.Protocol.SetDoorControlStateResponse, Spec.Protocol.SetDoorPasscodesResponse, Spec.Protocol.SetEventIndexResponse, Spec.Protocol.SetFirstCardResponse, Spec.Protocol.SetInterlockResponse, Spec.Protocol.SetListenerResponse, Spec.Protocol.SetPCControlResponse, Spec.Protocol.SetTimeProfileResponse, Spec.Protocol.SetTimeResponse]
  · refine ⟨_, rfl, ?_⟩
    intro args r hlen hsys
    simp only [Layout.names, Field.names, List.flatMap_cons, List.flatMap_nil, List.append_nil, List.cons_append, List.nil_append, List.length_cons, List.length_nil, Spec.Protocol.ActivateAccessKeypadsResponse, Spec.Protocol.AddTaskResponse, Spec.Protocol.ClearTaskListResponse, Spec.Protocol.ClearTimeProfilesResponse, Spec.Protocol.DeleteCardResponse, Spec.Protocol.DeleteCardsResponse, Spec.Protocol.GetCardByIDResponse, Spec.Protocol.GetCardByIndexResponse, Spec.Protocol.GetCardsResponse, Spec.Protocol.GetDeviceResponse, Spec.Protocol.GetDoorControlStateResponse, Spec.Protocol.GetEventIndexResponse, Spec.Protocol.GetEventResponse, Spec.Protocol.GetListenerResponse, Spec.Protocol.GetStatusResponse, Spec.Protocol.GetTimeProfileResponse, Spec.Protocol.GetTimeResponse, Spec.Protocol.OpenDoorResponse, Spec.Protocol.PutCardResponse, Spec.Protocol.RecordSpecialEventsResponse, Spec.Protocol.RefreshTaskListResponse, Spec.Protocol.RestoreDefaultParametersResponse, Spec.Protocol.SetDoorControlStateResponse, Spec.Protocol.SetDoorPasscodesResponse, Spec.Protocol.SetEventIndexResponse, Spec.Protocol.SetFirstCardResponse, Spec.Protocol.SetInterlockResponse, Spec.Protocol.SetListenerResponse, Spec.Protocol.SetPCControlResponse, Spec.Protocol.SetTimeProfileResponse, Spec.Protocol.SetTimeResponse] at hlen
    rcases r with _ | ⟨x0, _ | ⟨x1, _ | ⟨x2, _ | ⟨y, r⟩⟩⟩⟩ <;> simp at hlen
    simp [List.lookup, Spec.Api.get, Spec.Api.succeeded, Spec.Api.card, okBool, cardResult, Spec.Api.simple, C01.v_val, Layout.names, Field.names, statusResult, statusEventOf, statusNoEvent, Spec.Api.status, Spec.Protocol.ActivateAccessKeypadsResponse, Spec.Protocol.AddTaskResponse, Spec.Protocol.ClearTaskListResponse, Spec.Protocol.ClearTimeProfilesResponse, Spec.Protocol.DeleteCardResponse, Spec.Protocol.DeleteCardsResponse, Spec.Protocol.GetCardByIDResponse, Spec.Protocol.GetCardByIndexResponse, Spec.Protocol.GetCardsResponse, Spec.Protocol.GetDeviceResponse, Spec.Protocol.GetDoorControlStateResponse, Spec.Protocol.GetEventIndexResponse, Spec.Protocol.GetEventResponse, Spec.Protocol.GetListenerResponse, Spec.Protocol.GetStatusResponse, Spec.Protocol.GetTimeProfileResponse, Spec.Protocol.GetTimeResponse, Spec.Protocol.OpenDoorResponse, Spec.Protocol.PutCardResponse, Spec.Protocol.RecordSpecialEventsResponse, Spec.Protocol.RefreshTaskListResponse, Spec.Protocol.RestoreDefaultParametersResponse, Spec.Protocol.SetDoorControlStateResponse, Spec.Protocol.SetDoorPasscodesResponse, Spec.Protocol.SetEventIndexResponse, Spec.Protocol.SetFirstCardResponse, Spec.Protocol.SetInterlockResponse, Spec.Protocol.SetListenerResponse, Spec.Protocol.SetPCControlResponse, Spec.Protocol.SetTimeProfileResponse, Spec.Protocol.SetTimeResponse]
  · refine ⟨_, rfl, ?_⟩
    intro args r hlen hsys
    simp only [Layout.names, Field.names, List.flatMap_cons, List.flatMap_nil, List.append_nil, List.cons_append, List.nil_append, List.length_cons, List.length_nil, Spec.Protocol.ActivateAccessKeypadsResponse, Spec.Protocol.AddTaskResponse, Spec.Protocol.ClearTaskListResponse, Spec.Protocol.ClearTimeProfilesResponse, Spec.Protocol.DeleteCardResponse, Spec.Protocol.DeleteCardsResponse, Spec.Protocol.GetCardByIDResponse, Spec.Protocol.GetCardByIndexResponse, Spec.Protocol.GetCardsResponse, Spec.Protocol.GetDeviceResponse, Spec.Protocol.GetDoorControlStateResponse, Spec.Protocol.GetEventIndexResponse, Spec.Protocol.GetEventResponse, Spec.Protocol.GetListenerResponse, Spec.Protocol.GetStatusResponse, Spec.Protocol.GetTimeProfileResponse, Spec.Protocol.GetTimeResponse, Spec.Protocol.OpenDoorResponse, Spec.Protocol.PutCardResponse, Spec.Protocol.RecordSpecialEventsResponse, Spec.Protocol.RefreshTaskListResponse, Spec.Protocol.RestoreDefaultParametersResponse, Spec.Protocol.SetDoorControlStateResponse, Spec.Protocol.SetDoorPasscodesResponse, Spec.Protocol.SetEventIndexResponse, Spec.Protocol.SetFirstCardResponse, Spec.Protocol.SetInterlockResponse, Spec.Protocol.SetListenerResponse, Spec.Protocol.SetPCControlResponse, Spec.Protocol.SetTimeProfileResponse, Spec.Protocol.SetTimeResponse] at hlen
    rcases r with _ | ⟨x0, _ | ⟨x1, _ | ⟨x2, _ | ⟨x3, _ | ⟨x4, _ | ⟨x5, _ | ⟨x6, _ | ⟨x7, _ | ⟨x8, _ | ⟨x9, _ | ⟨x10, _ | ⟨x11, _ | ⟨x12, _ | ⟨x13, _ | ⟨x14, _ | ⟨x15, _ | ⟨x16, _ | ⟨x17, _ | ⟨x18, _ | ⟨y, r⟩⟩⟩⟩⟩⟩⟩⟩⟩⟩⟩⟩⟩⟩⟩⟩⟩⟩⟩⟩ <;> simp at hlen
    simp [List.lookup, Spec.Api.get, Spec.Api.succeeded, Spec.Api.card, okBool, cardResult, Spec.Api.simple, C01.v_val, Layout.names, Field.names, statusResult, statusEventOf, statusNoEvent, Spec.Api.status, Spec.Protocol.ActivateAccessKeypadsResponse, Spec.Protocol.AddTaskResponse, Spec.Protocol.ClearTaskListResponse, Spec.Protocol.ClearTimeProfilesResponse, Spec.Protocol.DeleteCardResponse, Spec.Protocol.DeleteCardsResponse, Spec.Protocol.GetCardByIDResponse, Spec.Protocol.GetCardByIndexResponse, Spec.Protocol.GetCardsResponse, Spec.Protocol.GetDeviceResponse, Spec.Protocol.GetDoorControlStateResponse, Spec.Protocol.GetEventIndexResponse, Spec.Protocol.GetEventResponse, Spec.Protocol.GetListenerResponse, Spec.Protocol.GetStatusResponse, Spec.Protocol.GetTimeProfileResponse, Spec.Protocol.GetTimeResponse, Spec.Protocol.OpenDoorResponse, Spec.Protocol.PutCardResponse, Spec.Protocol.RecordSpecialEventsResponse, Spec.Protocol.RefreshTaskListResponse, Spec.Protocol.RestoreDefaultParametersResponse, Spec.Protocol.SetDoorControlStateResponse, Spec.Protocol.SetDoorPasscodesResponse, Spec.Protocol.SetEventIndexResponse, Spec.Protocol.SetFirstCardResponse, Spec.Protocol.SetInterlockResponse, Spec.Protocol.SetListenerResponse, Spec.Protocol.SetPCControlResponse, Spec.Protocol.SetTimeProfileResponse, Spec.Protocol.SetTimeResponse]
    cases x2 with
    | u8 n =>
      simp only [hmOfPtr_hmVal, n8_u8?, C01.v_arg]
      by_cases h0 : n = 0
      · simp [h0]
      · by_cases h1 : n = u8? (Spec.Api.a args 1)
        · simp [h0, h1]
        · have h1' : ¬ n.toNat = (u8? (Spec.Api.a args 1)).toNat := fun hc => h1 (UInt8.toNat_inj.1 hc)
          simp [h0, h1, h1']
    | _ => rfl

  · refine ⟨_, rfl, ?_⟩
    intro args r hlen hsys
    simp only [Layout.names, Field.names, List.flatMap_cons, List.flatMap_nil, List.append_nil, List.cons_append, List.nil_append, List.length_cons, List.length_nil, Spec.Protocol.ActivateAccessKeypadsResponse, Spec.Protocol.AddTaskResponse, Spec.Protocol.ClearTaskListResponse, Spec.Protocol.ClearTimeProfilesResponse, Spec.Protocol.DeleteCardResponse, Spec.Protocol.DeleteCardsResponse, Spec.Protocol.GetCardByIDResponse, Spec.Protocol.GetCardByIndexResponse, Spec.Protocol.GetCardsResponse, Spec.Protocol.GetDeviceResponse, Spec.Protocol.GetDoorControlStateResponse, Spec.Protocol.GetEventIndexResponse, Spec.Protocol.GetEventResponse, Spec.Protocol.GetListenerResponse, Spec.Protocol.GetStatusResponse, Spec.Protocol.GetTimeProfileResponse, Spec.Protocol.GetTimeResponse, Spec.Protocol.OpenDoorResponse, Spec.Protocol.PutCardResponse, Spec.Protocol.RecordSpecialEventsResponse, Spec.Protocol.RefreshTaskListResponse, Spec.Protocol.RestoreDefaultParametersResponse, Spec.Protocol.SetDoorControlStateResponse, Spec.Protocol.SetDoorPasscodesResponse, Spec.Protocol.SetEventIndexResponse, Spec.Protocol.SetFirstCardResponse, Spec.Protocol.SetInterlockResponse, Spec.Protocol.SetListenerResponse, Spec.Protocol.SetPCControlResponse, Spec.Protocol.SetTimeProfileResponse, Spec.Protocol.SetTimeResponse] at hlen
    rcases r with _ | ⟨x0, _ | ⟨x1, _ | ⟨x2, _ | ⟨y, r⟩⟩⟩⟩ <;> simp at hlen
    simp [List.lookup, Spec.Api.get, Spec.Api.succeeded, Spec.Api.card, okBool, cardResult, Spec.Api.simple, C01.v_val, Layout.names, Field.names, statusResult, statusEventOf, statusNoEvent, Spec.Api.status, Spec.Protocol.ActivateAccessKeypadsResponse, Spec.Protocol.AddTaskResponse, Spec.Protocol.ClearTaskListResponse, Spec.Protocol.ClearTimeProfilesResponse, Spec.Protocol.DeleteCardResponse, Spec.Protocol.DeleteCardsResponse, Spec.Protocol.GetCardByIDResponse, Spec.Protocol.GetCardByIndexResponse, Spec.Protocol.GetCardsResponse, Spec.Protocol.GetDeviceResponse, Spec.Protocol.GetDoorControlStateResponse, Spec.Protocol.GetEventIndexResponse, Spec.Protocol.GetEventResponse, Spec.Protocol.GetListenerResponse, Spec.Protocol.GetStatusResponse, Spec.Protocol.GetTimeProfileResponse, Spec.Protocol.GetTimeResponse, Spec.Protocol.OpenDoorResponse, Spec.Protocol.PutCardResponse, Spec.Protocol.RecordSpecialEventsResponse, Spec.Protocol.RefreshTaskListResponse, Spec.Protocol.RestoreDefaultParametersResponse, Spec.Protocol.SetDoorControlStateResponse, Spec.Protocol.SetDoorPasscodesResponse, Spec.Protocol.SetEventIndexResponse, Spec.Protocol.SetFirstCardResponse, Spec.Protocol.SetInterlockResponse, Spec.Protocol.SetListenerResponse, Spec.Protocol.SetPCControlResponse, Spec.Protocol.SetTimeProfileResponse, Spec.Protocol.SetTimeResponse]
  · refine ⟨_, rfl, ?_⟩
    intro args r hlen hsys
    simp only [Layout.names, Field.names, List.flatMap_cons, List.flatMap_nil, List.append_nil, List.cons_append, List.nil_append, List.length_cons, List.length_nil, Spec.Protocol.ActivateAccessKeypadsResponse, Spec.Protocol.AddTaskResponse, Spec.Protocol.ClearTaskListResponse, Spec.Protocol.ClearTimeProfilesResponse, Spec.Protocol.DeleteCardResponse, Spec.Protocol.DeleteCardsResponse, Spec.Protocol.GetCardByIDResponse, Spec.Protocol.GetCardByIndexResponse, Spec.Protocol.GetCardsResponse, Spec.Protocol.GetDeviceResponse, Spec.Protocol.GetDoorControlStateResponse, Spec.Protocol.GetEventIndexResponse, Spec.Protocol.GetEventResponse, Spec.Protocol.GetListenerResponse, Spec.Protocol.GetStatusResponse, Spec.Protocol.GetTimeProfileResponse, Spec.Protocol.GetTimeResponse, Spec.Protocol.OpenDoorResponse, Spec.Protocol.PutCardResponse, Spec.Protocol.RecordSpecialEventsResponse, Spec.Protocol.RefreshTaskListResponse, Spec.Protocol.RestoreDefaultParametersResponse, Spec.Protocol.SetDoorControlStateResponse, Spec.Protocol.SetDoorPasscodesResponse, Spec.Protocol.SetEventIndexResponse, Spec.Protocol.SetFirstCardResponse, Spec.Protocol.SetInterlockResponse, Spec.Protocol.SetListenerResponse, Spec.Protocol.SetPCControlResponse, Spec.Protocol.SetTimeProfileResponse, Spec.Protocol.SetTimeResponse] at hlen
    rcases r with _ | ⟨x0, _ | ⟨x1, _ | ⟨x2, _ | ⟨y, r⟩⟩⟩⟩ <;> simp at hlen
    simp [List.lookup, Spec.Api.get, Spec.Api.succeeded, Spec.Api.card, okBool, cardResult, Spec.Api.simple, C01.v_val, Layout.names, Field.names, statusResult, statusEventOf, statusNoEvent, Spec.Api.status, Spec.Protocol.ActivateAccessKeypadsResponse, Spec.Protocol.AddTaskResponse, Spec.Protocol.ClearTaskListResponse, Spec.Protocol.ClearTimeProfilesResponse, Spec.Protocol.DeleteCardResponse, Spec.Protocol.DeleteCardsResponse, Spec.Protocol.GetCardByIDResponse, Spec.Protocol.GetCardByIndexResponse, Spec.Protocol.GetCardsResponse, Spec.Protocol.GetDeviceResponse, Spec.Protocol.GetDoorControlStateResponse, Spec.Protocol.GetEventIndexResponse, Spec.Protocol.GetEventResponse, Spec.Protocol.GetListenerResponse, Spec.Protocol.GetStatusResponse, Spec.Protocol.GetTimeProfileResponse, Spec.Protocol.GetTimeResponse, Spec.Protocol.OpenDoorResponse, Spec.Protocol.PutCardResponse, Spec.Protocol.RecordSpecialEventsResponse, Spec.Protocol.RefreshTaskListResponse, Spec.Protocol.RestoreDefaultParametersResponse, Spec.Protocol.SetDoorControlStateResponse, Spec.Protocol.SetDoorPasscodesResponse, Spec.Protocol.SetEventIndexResponse, Spec.Protocol.SetFirstCardResponse, Spec.Protocol.SetInterlockResponse, Spec.Protocol.SetListenerResponse, Spec.Protocol.SetPCControlResponse, Spec.Protocol.SetTimeProfileResponse, Spec.Protocol.SetTimeResponse]
  · refine ⟨_, rfl, ?_⟩
    intro args r hlen hsys
    simp only [Layout.names, Field.names, List.flatMap_cons, List.flatMap_nil, List.append_nil, List.cons_append, List.nil_append, List.length_cons, List.length_nil, Spec.Protocol.ActivateAccessKeypadsResponse, Spec.Protocol.AddTaskResponse, Spec.Protocol.ClearTaskListResponse, Spec.Protocol.ClearTimeProfilesResponse, Spec.Protocol.DeleteCardResponse, Spec.Protocol.DeleteCardsResponse, Spec.Protocol.GetCardByIDResponse, Spec.Protocol.GetCardByIndexResponse, Spec.Protocol.GetCardsResponse, Spec.Protocol.GetDeviceResponse, Spec.Protocol.GetDoorControlStateResponse, Spec.Protocol.GetEventIndexResponse, Spec.Protocol.GetEventResponse, Spec.Protocol.GetListenerResponse, Spec.Protocol.GetStatusResponse, Spec.Protocol.GetTimeProfileResponse, Spec.Protocol.GetTimeResponse, Spec.Protocol.OpenDoorResponse, Spec.Protocol.PutCardResponse, Spec.Protocol.RecordSpecialEventsResponse, Spec.Protocol.RefreshTaskListResponse, Spec.Protocol.RestoreDefaultParametersResponse, Spec.Protocol.SetDoorControlStateResponse, Spec.Protocol.SetDoorPasscodesResponse, Spec.Protocol.SetEventIndexResponse, Spec.Protocol.SetFirstCardResponse, Spec.Protocol.SetInterlockResponse, Spec.Protocol.SetListenerResponse, Spec.Protocol.SetPCControlResponse, Spec.Protocol.SetTimeProfileResponse, Spec.Protocol.SetTimeResponse] at hlen
    rcases r with _ | ⟨x0, _ | ⟨x1, _ | ⟨x2, _ | ⟨y, r⟩⟩⟩⟩ <;> simp at hlen
    simp [List.lookup, Spec.Api.get, Spec.Api.succeeded, Spec.Api.card, okBool, cardResult, Spec.Api.simple, C01.v_val, Layout.names, Field.names, statusResult, statusEventOf, statusNoEvent, Spec.Api.status, Spec.Protocol.ActivateAccessKeypadsResponse, Spec.Protocol.AddTaskResponse, Spec.Protocol.ClearTaskListResponse, Spec.Protocol.ClearTimeProfilesResponse, Spec.Protocol.DeleteCardResponse, Spec.Protocol.DeleteCardsResponse, Spec.Protocol.GetCardByIDResponse, Spec.Protocol.GetCardByIndexResponse, Spec.Protocol.GetCardsResponse, Spec.Protocol.GetDeviceResponse, Spec.Protocol.GetDoorControlStateResponse, Spec.Protocol.GetEventIndexResponse, Spec.Protocol.GetEventResponse, Spec.Protocol.GetListenerResponse, Spec.Protocol.GetStatusResponse, Spec.Protocol.GetTimeProfileResponse, Spec.Protocol.GetTimeResponse, Spec.Protocol.OpenDoorResponse, Spec.Protocol.PutCardResponse, Spec.Protocol.RecordSpecialEventsResponse, Spec.Protocol.RefreshTaskListResponse, Spec.Protocol.RestoreDefaultParametersResponse, Spec.Protocol.SetDoorControlStateResponse, Spec.Protocol.SetDoorPasscodesResponse, Spec.Protocol.SetEventIndexResponse, Spec.Protocol.SetFirstCardResponse, Spec.Protocol.SetInterlockResponse, Spec.Protocol.SetListenerResponse, Spec.Protocol.SetPCControlResponse, Spec.Protocol.SetTimeProfileResponse, Spec.Protocol.SetTimeResponse]
  · refine ⟨_, rfl, ?_⟩
    intro args r hlen hsys
    simp only [Layout.names, Field.names, List.flatMap_cons, List.flatMap_nil, List.append_nil, List.cons_append, List.nil_append, List.length_cons, List.length_nil, Spec.Protocol.ActivateAccessKeypadsResponse, Spec.Protocol.AddTaskResponse, Spec.Protocol.ClearTaskListResponse, Spec.Protocol.ClearTimeProfilesResponse, Spec.Protocol.DeleteCardResponse, Spec.Protocol.DeleteCardsResponse, Spec.Protocol.GetCardByIDResponse, Spec.Protocol.GetCardByIndexResponse, Spec.Protocol.GetCardsResponse, Spec.Protocol.GetDeviceResponse, Spec.Protocol.GetDoorControlStateResponse, Spec.Protocol.GetEventIndexResponse, Spec.Protocol.GetEventResponse, Spec.Protocol.GetListenerResponse, Spec.Protocol.GetStatusResponse, Spec.Protocol.GetTimeProfileResponse, Spec.Protocol.GetTimeResponse, Spec.Protocol.OpenDoorResponse, Spec.Protocol.PutCardResponse, Spec.Protocol.RecordSpecialEventsResponse, Spec.Protocol.RefreshTaskListResponse, Spec.Protocol.RestoreDefaultParametersResponse, Spec.Protocol.SetDoorControlStateResponse, Spec.Protocol.SetDoorPasscodesResponse, Spec.Protocol.SetEventIndexResponse, Spec.Protocol.SetFirstCardResponse, Spec.Protocol.SetInterlockResponse, Spec.Protocol.SetListenerResponse, Spec.Protocol.SetPCControlResponse, Spec.Protocol.SetTimeProfileResponse, Spec.Protocol.SetTimeResponse] at hlen
    rcases r with _ | ⟨x0, _ | ⟨x1, _ | ⟨x2, _ | ⟨y, r⟩⟩⟩⟩ <;> simp at hlen
    simp [List.lookup, Spec.Api.get, Spec.Api.succeeded, Spec.Api.card, okBool, cardResult, Spec.Api.simple, C01.v_val, Layout.names, Field.names, statusResult, statusEventOf, statusNoEvent, Spec.Api.status, Spec.Protocol.ActivateAccessKeypadsResponse, Spec.Protocol.AddTaskResponse, Spec.Protocol.ClearTaskListResponse, Spec.Protocol.ClearTimeProfilesResponse, Spec.Protocol.DeleteCardResponse, Spec.Protocol.DeleteCardsResponse, Spec.Protocol.GetCardByIDResponse, Spec.Protocol.GetCardByIndexResponse, Spec.Protocol.GetCardsResponse, Spec.Protocol.GetDeviceResponse, Spec.Protocol.GetDoorControlStateResponse, Spec.Protocol.GetEventIndexResponse, Spec.Protocol.GetEventResponse, Spec.Protocol.GetListenerResponse, Spec.Protocol.GetStatusResponse, Spec.Protocol.GetTimeProfileResponse, Spec.Protocol.GetTimeResponse, Spec.Protocol.OpenDoorResponse, Spec.Protocol.PutCardResponse, Spec.Protocol.RecordSpecialEventsResponse, Spec.Protocol.RefreshTaskListResponse, Spec.Protocol.RestoreDefaultParametersResponse, Spec.Protocol.SetDoorControlStateResponse, Spec.Protocol.SetDoorPasscodesResponse, Spec.Protocol.SetEventIndexResponse, Spec.Protocol.SetFirstCardResponse, Spec.Protocol.SetInterlockResponse, Spec.Protocol.SetListenerResponse, Spec.Protocol.SetPCControlResponse, Spec.Protocol.SetTimeProfileResponse, Spec.Protocol.SetTimeResponse]
  · refine ⟨_, rfl, ?_⟩
    intro args r hlen hsys
    simp only [Layout.names, Field.names, List.flatMap_cons, List.flatMap_nil, List.append_nil, List.cons_append, List.nil_append, List.length_cons, List.length_nil, Spec.Protocol.ActivateAccessKeypadsResponse, Spec.Protocol.AddTaskResponse, Spec.Protocol.ClearTaskListResponse, Spec.Protocol.ClearTimeProfilesResponse, Spec.Protocol.DeleteCardResponse, Spec.Protocol.DeleteCardsResponse, Spec.Protocol.GetCardByIDResponse, Spec.Protocol.GetCardByIndexResponse, Spec.Protocol.GetCardsResponse, Spec.Protocol.GetDeviceResponse, Spec.Protocol.GetDoorControlStateResponse, Spec.Protocol.GetEventIndexResponse, Spec.Protocol.GetEventResponse, Spec.Protocol.GetListenerResponse, Spec.Protocol.GetStatusResponse, Spec.Protocol.GetTimeProfileResponse, Spec.Protocol.GetTimeResponse, Spec.Protocol.OpenDoorResponse, Spec.Protocol.PutCardResponse, Spec.Protocol.RecordSpecialEventsResponse, Spec.Protocol.RefreshTaskListResponse, Spec.Protocol.RestoreDefaultParametersResponse, Spec.Protocol.SetDoorControlStateResponse, Spec.Protocol.SetDoorPasscodesResponse, Spec.Protocol.SetEventIndexResponse, Spec.Protocol.SetFirstCardResponse, Spec.Protocol.SetInterlockResponse, Spec.Protocol.SetListenerResponse, Spec.Protocol.SetPCControlResponse, Spec.Protocol.SetTimeProfileResponse, Spec.Protocol.SetTimeResponse] at hlen
    rcases r with _ | ⟨x0, _ | ⟨x1, _ | ⟨x2, _ | ⟨y, r⟩⟩⟩⟩ <;> simp at hlen
    simp [List.lookup, Spec.Api.get, Spec.Api.succeeded, Spec.Api.card, okBool, cardResult, Spec.Api.simple, C01.v_val, Layout.names, Field.names, statusResult, statusEventOf, statusNoEvent, Spec.Api.status, Spec.Protocol.ActivateAccessKeypadsResponse, Spec.Protocol.AddTaskResponse, Spec.Protocol.ClearTaskListResponse, Spec.Protocol.ClearTimeProfilesResponse, Spec.Protocol.DeleteCardResponse, Spec.Protocol.DeleteCardsResponse, Spec.Protocol.GetCardByIDResponse, Spec.Protocol.GetCardByIndexResponse, Spec.Protocol.GetCardsResponse, Spec.Protocol.GetDeviceResponse, Spec.Protocol.GetDoorControlStateResponse, Spec.Protocol.GetEventIndexResponse, Spec.Protocol.GetEventResponse, Spec.Protocol.GetListenerResponse, Spec.Protocol.GetStatusResponse, Spec.Protocol.GetTimeProfileResponse, Spec.Protocol.GetTimeResponse, Spec.Protocol.OpenDoorResponse, Spec.Protocol.PutCardResponse, Spec.Protocol.RecordSpecialEventsResponse, Spec.Protocol.RefreshTaskListResponse, Spec.Protocol.RestoreDefaultParametersResponse, Spec.Protocol.SetDoorControlStateResponse, Spec.Protocol.SetDoorPasscodesResponse, Spec.Protocol.SetEventIndexResponse, Spec.Protocol.SetFirstCardResponse, Spec.Protocol.SetInterlockResponse, Spec.Protocol.SetListenerResponse, Spec.Protocol.SetPCControlResponse, Spec.Protocol.SetTimeProfileResponse, Spec.Protocol.SetTimeResponse]
  · refine ⟨_, rfl, ?_⟩
    intro args r hlen hsys
    simp only [Layout.names, Field.names, List.flatMap_cons, List.flatMap_nil, List.append_nil, List.cons_append, List.nil_append, List.length_cons, List.length_nil, Spec.Protocol.ActivateAccessKeypadsResponse, Spec.Protocol.AddTaskResponse, Spec.Protocol.ClearTaskListResponse, Spec.Protocol.ClearTimeProfilesResponse, Spec.Protocol.DeleteCardResponse, Spec.Protocol.DeleteCardsResponse, Spec.Protocol.GetCardByIDResponse, Spec.Protocol.GetCardByIndexResponse, Spec.Protocol.GetCardsResponse, Spec.Protocol.GetDeviceResponse, Spec.Protocol.GetDoorControlStateResponse, Spec.Protocol.GetEventIndexResponse, Spec.Protocol.GetEventResponse, Spec.Protocol.GetListenerResponse, Spec.Protocol.GetStatusResponse, Spec.Protocol.GetTimeProfileResponse, Spec.Protocol.GetTimeResponse, Spec.Protocol.OpenDoorResponse, Spec.Protocol.PutCardResponse, Spec.Protocol.RecordSpecialEventsResponse, Spec.Protocol.RefreshTaskListResponse, Spec.Protocol.RestoreDefaultParametersResponse, Spec.Protocol.SetDoorControlStateResponse, Spec.Protocol.SetDoorPasscodesResponse, Spec.Protocol.SetEventIndexResponse, Spec.Protocol.SetFirstCardResponse, Spec.Protocol.SetInterlockResponse, Spec.Protocol.SetListenerResponse, Spec.Protocol.SetPCControlResponse, Spec.Protocol.SetTimeProfileResponse, Spec.Protocol.SetTimeResponse] at hlen
    rcases r with _ | ⟨x0, _ | ⟨x1, _ | ⟨x2, _ | ⟨y, r⟩⟩⟩⟩ <;> simp at hlen
    simp [List.lookup, Spec.Api.get, Spec.Api.succeeded, Spec.Api.card, okBool, cardResult, Spec.Api.simple, C01.v_val, Layout.names, Field.names, statusResult, statusEventOf, statusNoEvent, Spec.Api.status, Spec.Protocol.ActivateAccessKeypadsResponse, Spec.Protocol.AddTaskResponse, Spec.Protocol.ClearTaskListResponse, Spec.Protocol.ClearTimeProfilesResponse, Spec.Protocol.DeleteCardResponse, Spec.Protocol.DeleteCardsResponse, Spec.Protocol.GetCardByIDResponse, Spec.Protocol.GetCardByIndexResponse, Spec.Protocol.GetCardsResponse, Spec.Protocol.GetDeviceResponse, Spec.Protocol.GetDoorControlStateResponse, Spec.Protocol.GetEventIndexResponse, Spec.Protocol.GetEventResponse, Spec.Protocol.GetListenerResponse, Spec.Protocol.GetStatusResponse, Spec.Protocol.GetTimeProfileResponse, Spec.Protocol.GetTimeResponse, Spec.Protocol.OpenDoorResponse, Spec.Protocol.PutCardResponse, Spec.Protocol.RecordSpecialEventsResponse, Spec.Protocol.RefreshTaskListResponse, Spec.Protocol.RestoreDefaultParametersResponse, Spec.Protocol.SetDoorControlStateResponse, Spec.Protocol.SetDoorPasscodesResponse, Spec.Protocol.SetEventIndexResponse, Spec.Protocol.SetFirstCardResponse, Spec.Protocol.SetInterlockResponse, Spec.Protocol.SetListenerResponse, Spec.Protocol.SetPCControlResponse, Spec.Protocol.SetTimeProfileResponse, Spec.Protocol.SetTimeResponse]
  · refine ⟨_, rfl, ?_⟩
    intro args r hlen hsys
    simp only [Layout.names, Field.names, List.flatMap_cons, List.flatMap_nil, List.append_nil, List.cons_append, List.nil_append, List.length_cons, List.length_nil, Spec.Protocol.ActivateAccessKeypadsResponse, Spec.Protocol.AddTaskResponse, Spec.Protocol.ClearTaskListResponse, Spec.Protocol.ClearTimeProfilesResponse, Spec.Protocol.DeleteCardResponse, Spec.Protocol.DeleteCardsResponse, Spec.Protocol.GetCardByIDResponse, Spec.Protocol.GetCardByIndexResponse, Spec.Protocol.GetCardsResponse, Spec.Protocol.GetDeviceResponse, Spec.Protocol.GetDoorControlStateResponse, Spec.Protocol.GetEventIndexResponse, Spec.Protocol.GetEventResponse, Spec.Protocol.GetListenerResponse, Spec.Protocol.GetStatusResponse, Spec.Protocol.GetTimeProfileResponse, Spec.Protocol.GetTimeResponse, Spec.Protocol.OpenDoorResponse, Spec.Protocol.PutCardResponse, Spec.Protocol.RecordSpecialEventsResponse, Spec.Protocol.RefreshTaskListResponse, Spec.Protocol.RestoreDefaultParametersResponse, Spec.Protocol.SetDoorControlStateResponse, Spec.Protocol.SetDoorPasscodesResponse, Spec.Protocol.SetEventIndexResponse, Spec.Protocol.SetFirstCardResponse, Spec.Protocol.SetInterlockResponse, Spec.Protocol.SetListenerResponse, Spec.Protocol.SetPCControlResponse, Spec.Protocol.SetTimeProfileResponse, Spec.Protocol.SetTimeResponse] at hlen
    rcases r with _ | ⟨x0, _ | ⟨x1, _ | ⟨x2, _ | ⟨x3, _ | ⟨x4, _ | ⟨x5, _ | ⟨x6, _ | ⟨x7, _ | ⟨x8, _ | ⟨x9, _ | ⟨y, r⟩⟩⟩⟩⟩⟩⟩⟩⟩⟩⟩ <;> simp at hlen
    simp [List.lookup, Spec.Api.get, Spec.Api.succeeded, Spec.Api.card, okBool, cardResult, Spec.Api.simple, C01.v_val, Layout.names, Field.names, statusResult, statusEventOf, statusNoEvent, Spec.Api.status, Spec.Protocol.ActivateAccessKeypadsResponse, Spec.Protocol.AddTaskResponse, Spec.Protocol.ClearTaskListResponse, Spec.Protocol.ClearTimeProfilesResponse, Spec.Protocol.DeleteCardResponse, Spec.Protocol.DeleteCardsResponse, Spec.Protocol.GetCardByIDResponse, Spec.Protocol.GetCardByIndexResponse, Spec.Protocol.GetCardsResponse, Spec.Protocol.GetDeviceResponse, Spec.Protocol.GetDoorControlStateResponse, Spec.Protocol.GetEventIndexResponse, Spec.Protocol.GetEventResponse, Spec.Protocol.GetListenerResponse, Spec.Protocol.GetStatusResponse, Spec.Protocol.GetTimeProfileResponse, Spec.Protocol.GetTimeResponse, Spec.Protocol.OpenDoorResponse, Spec.Protocol.PutCardResponse, Spec.Protocol.RecordSpecialEventsResponse, Spec.Protocol.RefreshTaskListResponse, Spec.Protocol.RestoreDefaultParametersResponse, Spec.Protocol.SetDoorControlStateResponse, Spec.Protocol.SetDoorPasscodesResponse, Spec.Protocol.SetEventIndexResponse, Spec.Protocol.SetFirstCardResponse, Spec.Protocol.SetInterlockResponse, Spec.Protocol.SetListenerResponse, Spec.Protocol.SetPCControlResponse, Spec.Protocol.SetTimeProfileResponse, Spec.Protocol.SetTimeResponse]
    cases x3 <;> cases x2 <;> simp

  · refine ⟨_, rfl, ?_⟩
    intro args r hlen hsys
    simp only [Layout.names, Field.names, List.flatMap_cons, List.flatMap_nil, List.append_nil, List.cons_append, List.nil_append, List.length_cons, List.length_nil, Spec.Protocol.ActivateAccessKeypadsResponse, Spec.Protocol.AddTaskResponse, Spec.Protocol.ClearTaskListResponse, Spec.Protocol.ClearTimeProfilesResponse, Spec.Protocol.DeleteCardResponse, Spec.Protocol.DeleteCardsResponse, Spec.Protocol.GetCardByIDResponse, Spec.Protocol.GetCardByIndexResponse, Spec.Protocol.GetCardsResponse, Spec.Protocol.GetDeviceResponse, Spec.Protocol.GetDoorControlStateResponse, Spec.Protocol.GetEventIndexResponse, Spec.Protocol.GetEventResponse, Spec.Protocol.GetListenerResponse, Spec.Protocol.GetStatusResponse, Spec.Protocol.GetTimeProfileResponse, Spec.Protocol.GetTimeResponse, Spec.Protocol.OpenDoorResponse, Spec.Protocol.PutCardResponse, Spec.Protocol.RecordSpecialEventsResponse, Spec.Protocol.RefreshTaskListResponse, Spec.Protocol.RestoreDefaultParametersResponse, Spec.Protocol.SetDoorControlStateResponse, Spec.Protocol.SetDoorPasscodesResponse, Spec.Protocol.SetEventIndexResponse, Spec.Protocol.SetFirstCardResponse, Spec.Protocol.SetInterlockResponse, Spec.Protocol.SetListenerResponse, Spec.Protocol.SetPCControlResponse, Spec.Protocol.SetTimeProfileResponse, Spec.Protocol.SetTimeResponse] at hlen
    rcases r with _ | ⟨x0, _ | ⟨x1, _ | ⟨x2, _ | ⟨y, r⟩⟩⟩⟩ <;> simp at hlen
    simp [List.lookup, Spec.Api.get, Spec.Api.succeeded, Spec.Api.card, okBool, cardResult, Spec.Api.simple, C01.v_val, Layout.names, Field.names, statusResult, statusEventOf, statusNoEvent, Spec.Api.status, Spec.Protocol.ActivateAccessKeypadsResponse, Spec.Protocol.AddTaskResponse, Spec.Protocol.ClearTaskListResponse, Spec.Protocol.ClearTimeProfilesResponse, Spec.Protocol.DeleteCardResponse, Spec.Protocol.DeleteCardsResponse, Spec.Protocol.GetCardByIDResponse, Spec.Protocol.GetCardByIndexResponse, Spec.Protocol.GetCardsResponse, Spec.Protocol.GetDeviceResponse, Spec.Protocol.GetDoorControlStateResponse, Spec.Protocol.GetEventIndexResponse, Spec.Protocol.GetEventResponse, Spec.Protocol.GetListenerResponse, Spec.Protocol.GetStatusResponse, Spec.Protocol.GetTimeProfileResponse, Spec.Protocol.GetTimeResponse, Spec.Protocol.OpenDoorResponse, Spec.Protocol.PutCardResponse, Spec.Protocol.RecordSpecialEventsResponse, Spec.Protocol.RefreshTaskListResponse, Spec.Protocol.RestoreDefaultParametersResponse, Spec.Protocol.SetDoorControlStateResponse, Spec.Protocol.SetDoorPasscodesResponse, Spec.Protocol.SetEventIndexResponse, Spec.Protocol.SetFirstCardResponse, Spec.Protocol.SetInterlockResponse, Spec.Protocol.SetListenerResponse, Spec.Protocol.SetPCControlResponse, Spec.Protocol.SetTimeProfileResponse, Spec.Protocol.SetTimeResponse]
  · refine ⟨_, rfl, ?_⟩
    intro args r hlen hsys
    simp only [Layout.names, Field.names, List.flatMap_cons, List.flatMap_nil, List.append_nil, List.cons_append, List.nil_append, List.length_cons, List.length_nil, Spec.Protocol.ActivateAccessKeypadsResponse, Spec.Protocol.AddTaskResponse, Spec.Protocol.ClearTaskListResponse, Spec.Protocol.ClearTimeProfilesResponse, Spec.Protocol.DeleteCardResponse, Spec.Protocol.DeleteCardsResponse, Spec.Protocol.GetCardByIDResponse, Spec.Protocol.GetCardByIndexResponse, Spec.Protocol.GetCardsResponse, Spec.Protocol.GetDeviceResponse, Spec.Protocol.GetDoorControlStateResponse, Spec.Protocol.GetEventIndexResponse, Spec.Protocol.GetEventResponse, Spec.Protocol.GetListenerResponse, Spec.Protocol.GetStatusResponse, Spec.Protocol.GetTimeProfileResponse, Spec.Protocol.GetTimeResponse, Spec.Protocol.OpenDoorResponse, Spec.Protocol.PutCardResponse, Spec.Protocol.RecordSpecialEventsResponse, Spec.Protocol.RefreshTaskListResponse, Spec.Protocol.RestoreDefaultParametersResponse, Spec.Protocol.SetDoorControlStateResponse, Spec.Protocol.SetDoorPasscodesResponse, Spec.Protocol.SetEventIndexResponse, Spec.Protocol.SetFirstCardResponse, Spec.Protocol.SetInterlockResponse, Spec.Protocol.SetListenerResponse, Spec.Protocol.SetPCControlResponse, Spec.Protocol.SetTimeProfileResponse, Spec.Protocol.SetTimeResponse] at hlen
    rcases r with _ | ⟨x0, _ | ⟨x1, _ | ⟨x2, _ | ⟨y, r⟩⟩⟩⟩ <;> simp at hlen
    simp [List.lookup, Spec.Api.get, Spec.Api.succeeded, Spec.Api.card, okBool, cardResult, Spec.Api.simple, C01.v_val, Layout.names, Field.names, statusResult, statusEventOf, statusNoEvent, Spec.Api.status, Spec.Protocol.ActivateAccessKeypadsResponse, Spec.Protocol.AddTaskResponse, Spec.Protocol.ClearTaskListResponse, Spec.Protocol.ClearTimeProfilesResponse, Spec.Protocol.DeleteCardResponse, Spec.Protocol.DeleteCardsResponse, Spec.Protocol.GetCardByIDResponse, Spec.Protocol.GetCardByIndexResponse, Spec.Protocol.GetCardsResponse, Spec.Protocol.GetDeviceResponse, Spec.Protocol.GetDoorControlStateResponse, Spec.Protocol.GetEventIndexResponse, Spec.Protocol.GetEventResponse, Spec.Protocol.GetListenerResponse, Spec.Protocol.GetStatusResponse, Spec.Protocol.GetTimeProfileResponse, Spec.Protocol.GetTimeResponse, Spec.Protocol.OpenDoorResponse, Spec.Protocol.PutCardResponse, Spec.Protocol.RecordSpecialEventsResponse, Spec.Protocol.RefreshTaskListResponse, Spec.Protocol.RestoreDefaultParametersResponse, Spec.Protocol.SetDoorControlStateResponse, Spec.Protocol.SetDoorPasscodesResponse, Spec.Protocol.SetEventIndexResponse, Spec.Protocol.SetFirstCardResponse, Spec.Protocol.SetInterlockResponse, Spec.Protocol.SetListenerResponse, Spec.Protocol.SetPCControlResponse, Spec.Protocol.SetTimeProfileResponse, Spec.Protocol.SetTimeResponse]
    rfl

  · refine ⟨_, rfl, ?_⟩
    intro args r hlen hsys
    simp only [Layout.names, Field.names, List.flatMap_cons, List.flatMap_nil, List.append_nil, List.cons_append, List.nil_append, List.length_cons, List.length_nil, Spec.Protocol.ActivateAccessKeypadsResponse, Spec.Protocol.AddTaskResponse, Spec.Protocol.ClearTaskListResponse, Spec.Protocol.ClearTimeProfilesResponse, Spec.Protocol.DeleteCardResponse, Spec.Protocol.DeleteCardsResponse, Spec.Protocol.GetCardByIDResponse, Spec.Protocol.GetCardByIndexResponse, Spec.Protocol.GetCardsResponse, Spec.Protocol.GetDeviceResponse, Spec.Protocol.GetDoorControlStateResponse, Spec.Protocol.GetEventIndexResponse, Spec.Protocol.GetEventResponse, Spec.Protocol.GetListenerResponse, Spec.Protocol.GetStatusResponse, Spec.Protocol.GetTimeProfileResponse, Spec.Protocol.GetTimeResponse, Spec.Protocol.OpenDoorResponse, Spec.Protocol.PutCardResponse, Spec.Protocol.RecordSpecialEventsResponse, Spec.Protocol.RefreshTaskListResponse, Spec.Protocol.RestoreDefaultParametersResponse, Spec.Protocol.SetDoorControlStateResponse, Spec.Protocol.SetDoorPasscodesResponse, Spec.Protocol.SetEventIndexResponse, Spec.Protocol.SetFirstCardResponse, Spec.Protocol.SetInterlockResponse, Spec.Protocol.SetListenerResponse, Spec.Protocol.SetPCControlResponse, Spec.Protocol.SetTimeProfileResponse, Spec.Protocol.SetTimeResponse] at hlen
    rcases r with _ | ⟨x0, _ | ⟨x1, _ | ⟨x2, _ | ⟨y, r⟩⟩⟩⟩ <;> simp at hlen
    simp [List.lookup, Spec.Api.get, Spec.Api.succeeded, Spec.Api.card, okBool, cardResult, Spec.Api.simple, C01.v_val, Layout.names, Field.names, statusResult, statusEventOf, statusNoEvent, Spec.Api.status, Spec.Protocol.ActivateAccessKeypadsResponse, Spec.Protocol.AddTaskResponse, Spec.Protocol.ClearTaskListResponse, Spec.Protocol.ClearTimeProfilesResponse, Spec.Protocol.DeleteCardResponse, Spec.Protocol.DeleteCardsResponse, Spec.Protocol.GetCardByIDResponse, Spec.Protocol.GetCardByIndexResponse, Spec.Protocol.GetCardsResponse, Spec.Protocol.GetDeviceResponse, Spec.Protocol.GetDoorControlStateResponse, Spec.Protocol.GetEventIndexResponse, Spec.Protocol.GetEventResponse, Spec.Protocol.GetListenerResponse, Spec.Protocol.GetStatusResponse, Spec.Protocol.GetTimeProfileResponse, Spec.Protocol.GetTimeResponse, Spec.Protocol.OpenDoorResponse, Spec.Protocol.PutCardResponse, Spec.Protocol.RecordSpecialEventsResponse, Spec.Protocol.RefreshTaskListResponse, Spec.Protocol.RestoreDefaultParametersResponse, Spec.Protocol.SetDoorControlStateResponse, Spec.Protocol.SetDoorPasscodesResponse, Spec.Protocol.SetEventIndexResponse, Spec.Protocol.SetFirstCardResponse, Spec.Protocol.SetInterlockResponse, Spec.Protocol.SetListenerResponse, Spec.Protocol.SetPCControlResponse, Spec.Protocol.SetTimeProfileResponse, Spec.Protocol.SetTimeResponse]
  · refine ⟨_, rfl, ?_⟩
    intro args r hlen hsys
    simp only [Layout.names, Field.names, List.flatMap_cons, List.flatMap_nil, List.append_nil, List.cons_append, List.nil_append, List.length_cons, List.length_nil, Spec.Protocol.ActivateAccessKeypadsResponse, Spec.Protocol.AddTaskResponse, Spec.Protocol.ClearTaskListResponse, Spec.Protocol.ClearTimeProfilesResponse, Spec.Protocol.DeleteCardResponse, Spec.Protocol.DeleteCardsResponse, Spec.Protocol.GetCardByIDResponse, Spec.Protocol.GetCardByIndexResponse, Spec.Protocol.GetCardsResponse, Spec.Protocol.GetDeviceResponse, Spec.Protocol.GetDoorControlStateResponse, Spec.Protocol.GetEventIndexResponse, Spec.Protocol.GetEventResponse, Spec.Protocol.GetListenerResponse, Spec.Protocol.GetStatusResponse, Spec.Protocol.GetTimeProfileResponse, Spec.Protocol.GetTimeResponse, Spec.Protocol.OpenDoorResponse, Spec.Protocol.PutCardResponse, Spec.Protocol.RecordSpecialEventsResponse, Spec.Protocol.RefreshTaskListResponse, Spec.Protocol.RestoreDefaultParametersResponse, Spec.Protocol.SetDoorControlStateResponse, Spec.Protocol.SetDoorPasscodesResponse, Spec.Protocol.SetEventIndexResponse, Spec.Protocol.SetFirstCardResponse, Spec.Protocol.SetInterlockResponse, Spec.Protocol.SetListenerResponse, Spec.Protocol.SetPCControlResponse, Spec.Protocol.SetTimeProfileResponse, Spec.Protocol.SetTimeResponse] at hlen
    rcases r with _ | ⟨x0, _ | ⟨x1, _ | ⟨x2, _ | ⟨y, r⟩⟩⟩⟩ <;> simp at hlen
    simp [List.lookup, Spec.Api.get, Spec.Api.succeeded, Spec.Api.card, okBool, cardResult, Spec.Api.simple, C01.v_val, Layout.names, Field.names, statusResult, statusEventOf, statusNoEvent, Spec.Api.status, Spec.Protocol.ActivateAccessKeypadsResponse, Spec.Protocol.AddTaskResponse, Spec.Protocol.ClearTaskListResponse, Spec.Protocol.ClearTimeProfilesResponse, Spec.Protocol.DeleteCardResponse, Spec.Protocol.DeleteCardsResponse, Spec.Protocol.GetCardByIDResponse, Spec.Protocol.GetCardByIndexResponse, Spec.Protocol.GetCardsResponse, Spec.Protocol.GetDeviceResponse, Spec.Protocol.GetDoorControlStateResponse, Spec.Protocol.GetEventIndexResponse, Spec.Protocol.GetEventResponse, Spec.Protocol.GetListenerResponse, Spec.Protocol.GetStatusResponse, Spec.Protocol.GetTimeProfileResponse, Spec.Protocol.GetTimeResponse, Spec.Protocol.OpenDoorResponse, Spec.Protocol.PutCardResponse, Spec.Protocol.RecordSpecialEventsResponse, Spec.Protocol.RefreshTaskListResponse, Spec.Protocol.RestoreDefaultParametersResponse, Spec.Protocol.SetDoorControlStateResponse, Spec.Protocol.SetDoorPasscodesResponse, Spec.Protocol.SetEventIndexResponse, Spec.Protocol.SetFirstCardResponse, Spec.Protocol.SetInterlockResponse, Spec.Protocol.SetListenerResponse, Spec.Protocol.SetPCControlResponse, Spec.Protocol.SetTimeProfileResponse, Spec.Protocol.SetTimeResponse]
  · refine ⟨_, rfl, ?_⟩
    intro args r hlen hsys
    simp only [Layout.names, Field.names, List.flatMap_cons, List.flatMap_nil, List.append_nil, List.cons_append, List.nil_append, List.length_cons, List.length_nil, Spec.Protocol.ActivateAccessKeypadsResponse, Spec.Protocol.AddTaskResponse, Spec.Protocol.ClearTaskListResponse, Spec.Protocol.ClearTimeProfilesResponse, Spec.Protocol.DeleteCardResponse, Spec.Protocol.DeleteCardsResponse, Spec.Protocol.GetCardByIDResponse, Spec.Protocol.GetCardByIndexResponse, Spec.Protocol.GetCardsResponse, Spec.Protocol.GetDeviceResponse, Spec.Protocol.GetDoorControlStateResponse, Spec.Protocol.GetEventIndexResponse, Spec.Protocol.GetEventResponse, Spec.Protocol.GetListenerResponse, Spec.Protocol.GetStatusResponse, Spec.Protocol.GetTimeProfileResponse, Spec.Protocol.GetTimeResponse, Spec.Protocol.OpenDoorResponse, Spec.Protocol.PutCardResponse, Spec.Protocol.RecordSpecialEventsResponse, Spec.Protocol.RefreshTaskListResponse, Spec.Protocol.RestoreDefaultParametersResponse, Spec.Protocol.SetDoorControlStateResponse, Spec.Protocol.SetDoorPasscodesResponse, Spec.Protocol.SetEventIndexResponse, Spec.Protocol.SetFirstCardResponse, Spec.Protocol.SetInterlockResponse, Spec.Protocol.SetListenerResponse, Spec.Protocol.SetPCControlResponse, Spec.Protocol.SetTimeProfileResponse, Spec.Protocol.SetTimeResponse] at hlen
    rcases r with _ | ⟨x0, _ | ⟨x1, _ | ⟨x2, _ | ⟨y, r⟩⟩⟩⟩ <;> simp at hlen
    simp [List.lookup, Spec.Api.get, Spec.Api.succeeded, Spec.Api.card, okBool, cardResult, Spec.Api.simple, C01.v_val, Layout.names, Field.names, statusResult, statusEventOf, statusNoEvent, Spec.Api.status, Spec.Protocol.ActivateAccessKeypadsResponse, Spec.Protocol.AddTaskResponse, Spec.Protocol.ClearTaskListResponse, Spec.Protocol.ClearTimeProfilesResponse, Spec.Protocol.DeleteCardResponse, Spec.Protocol.DeleteCardsResponse, Spec.Protocol.GetCardByIDResponse, Spec.Protocol.GetCardByIndexResponse, Spec.Protocol.GetCardsResponse, Spec.Protocol.GetDeviceResponse, Spec.Protocol.GetDoorControlStateResponse, Spec.Protocol.GetEventIndexResponse, Spec.Protocol.GetEventResponse, Spec.Protocol.GetListenerResponse, Spec.Protocol.GetStatusResponse, Spec.Protocol.GetTimeProfileResponse, Spec.Protocol.GetTimeResponse, Spec.Protocol.OpenDoorResponse, Spec.Protocol.PutCardResponse, Spec.Protocol.RecordSpecialEventsResponse, Spec.Protocol.RefreshTaskListResponse, Spec.Protocol.RestoreDefaultParametersResponse, Spec.Protocol.SetDoorControlStateResponse, Spec.Protocol.SetDoorPasscodesResponse, Spec.Protocol.SetEventIndexResponse, Spec.Protocol.SetFirstCardResponse, Spec.Protocol.SetInterlockResponse, Spec.Protocol.SetListenerResponse, Spec.Protocol.SetPCControlResponse, Spec.Protocol.SetTimeProfileResponse, Spec.Protocol.SetTimeResponse]
  · refine ⟨_, rfl, ?_⟩
    intro args r hlen hsys
    simp only [Layout.names, Field.names, List.flatMap_cons, List.flatMap_nil, List.append_nil, List.cons_append, List.nil_append, List.length_cons, List.length_nil, Spec.Protocol.ActivateAccessKeypadsResponse, Spec.Protocol.AddTaskResponse, Spec.Protocol.ClearTaskListResponse, Spec.Protocol.ClearTimeProfilesResponse, Spec.Protocol.DeleteCardResponse, Spec.Protocol.DeleteCardsResponse, Spec.Protocol.GetCardByIDResponse, Spec.Protocol.GetCardByIndexResponse, Spec.Protocol.GetCardsResponse, Spec.Protocol.GetDeviceResponse, Spec.Protocol.GetDoorControlStateResponse, Spec.Protocol.GetEventIndexResponse, Spec.Protocol.GetEventResponse, Spec.Protocol.GetListenerResponse, Spec.Protocol.GetStatusResponse, Spec.Protocol.GetTimeProfileResponse, Spec.Protocol.GetTimeResponse, Spec.Protocol.OpenDoorResponse, Spec.Protocol.PutCardResponse, Spec.Protocol.RecordSpecialEventsResponse, Spec.Protocol.RefreshTaskListResponse, Spec.Protocol.RestoreDefaultParametersResponse, Spec.Protocol.SetDoorControlStateResponse, Spec.Protocol.SetDoorPasscodesResponse, Spec.Protocol.SetEventIndexResponse, Spec.Protocol.SetFirstCardResponse, Spec.Protocol.SetInterlockResponse, Spec.Protocol.SetListenerResponse, Spec.Protocol.SetPCControlResponse, Spec.Protocol.SetTimeProfileResponse, Spec.Protocol.SetTimeResponse] at hlen
    rcases r with _ | ⟨x0, _ | ⟨x1, _ | ⟨x2, _ | ⟨y, r⟩⟩⟩⟩ <;> simp at hlen
    simp [List.lookup, Spec.Api.get, Spec.Api.succeeded, Spec.Api.card, okBool, cardResult, Spec.Api.simple, C01.v_val, Layout.names, Field.names, statusResult, statusEventOf, statusNoEvent, Spec.Api.status, Spec.Protocol.ActivateAccessKeypadsResponse, Spec.Protocol.AddTaskResponse, Spec.Protocol.ClearTaskListResponse, Spec.Protocol.ClearTimeProfilesResponse, Spec.Protocol.DeleteCardResponse, Spec.Protocol.DeleteCardsResponse, Spec.Protocol.GetCardByIDResponse, Spec.Protocol.GetCardByIndexResponse, Spec.Protocol.GetCardsResponse, Spec.Protocol.GetDeviceResponse, Spec.Protocol.GetDoorControlStateResponse, Spec.Protocol.GetEventIndexResponse, Spec.Protocol.GetEventResponse, Spec.Protocol.GetListenerResponse, Spec.Protocol.GetStatusResponse, Spec.Protocol.GetTimeProfileResponse, Spec.Protocol.GetTimeResponse, Spec.Protocol.OpenDoorResponse, Spec.Protocol.PutCardResponse, Spec.Protocol.RecordSpecialEventsResponse, Spec.Protocol.RefreshTaskListResponse, Spec.Protocol.RestoreDefaultParametersResponse, Spec.Protocol.SetDoorControlStateResponse, Spec.Protocol.SetDoorPasscodesResponse, Spec.Protocol.SetEventIndexResponse, Spec.Protocol.SetFirstCardResponse, Spec.Protocol.SetInterlockResponse, Spec.Protocol.SetListenerResponse, Spec.Protocol.SetPCControlResponse, Spec.Protocol.SetTimeProfileResponse, Spec.Protocol.SetTimeResponse]
  · refine ⟨_, rfl, ?_⟩
    intro args r hlen hsys
    simp only [Layout.names, Field.names, List.flatMap_cons, List.flatMap_nil, List.append_nil, List.cons_append, List.nil_append, List.length_cons, List.length_nil, Spec.Protocol.ActivateAccessKeypadsResponse, Spec.Protocol.AddTaskResponse, Spec.Protocol.ClearTaskListResponse, Spec.Protocol.ClearTimeProfilesResponse, Spec.Protocol.DeleteCardResponse, Spec.Protocol.DeleteCardsResponse, Spec.Protocol.GetCardByIDResponse, Spec.Protocol.GetCardByIndexResponse, Spec.Protocol.GetCardsResponse, Spec.Protocol.GetDeviceResponse, Spec.Protocol.GetDoorControlStateResponse, Spec.Protocol.GetEventIndexResponse, Spec.Protocol.GetEventResponse, Spec.Protocol.GetListenerResponse, Spec.Protocol.GetStatusResponse, Spec.Protocol.GetTimeProfileResponse, Spec.Protocol.GetTimeResponse, Spec.Protocol.OpenDoorResponse, Spec.Protocol.PutCardResponse, Spec.Protocol.RecordSpecialEventsResponse, Spec.Protocol.RefreshTaskListResponse, Spec.Protocol.RestoreDefaultParametersResponse, Spec.Protocol.SetDoorControlStateResponse, Spec.Protocol.SetDoorPasscodesResponse, Spec.Protocol.SetEventIndexResponse, Spec.Protocol.SetFirstCardResponse, Spec.Protocol.SetInterlockResponse, Spec.Protocol.SetListenerResponse, Spec.Protocol.SetPCControlResponse, Spec.Protocol.SetTimeProfileResponse, Spec.Protocol.SetTimeResponse] at hlen
    rcases r with _ | ⟨x0, _ | ⟨x1, _ | ⟨x2, _ | ⟨y, r⟩⟩⟩⟩ <;> simp at hlen
    simp [List.lookup, Spec.Api.get, Spec.Api.succeeded, Spec.Api.card, okBool, cardResult, Spec.Api.simple, C01.v_val, Layout.names, Field.names, statusResult, statusEventOf, statusNoEvent, Spec.Api.status, Spec.Protocol.ActivateAccessKeypadsResponse, Spec.Protocol.AddTaskResponse, Spec.Protocol.ClearTaskListResponse, Spec.Protocol.ClearTimeProfilesResponse, Spec.Protocol.DeleteCardResponse, Spec.Protocol.DeleteCardsResponse, Spec.Protocol.GetCardByIDResponse, Spec.Protocol.GetCardByIndexResponse, Spec.Protocol.GetCardsResponse, Spec.Protocol.GetDeviceResponse, Spec.Protocol.GetDoorControlStateResponse, Spec.Protocol.GetEventIndexResponse, Spec.Protocol.GetEventResponse, Spec.Protocol.GetListenerResponse, Spec.Protocol.GetStatusResponse, Spec.Protocol.GetTimeProfileResponse, Spec.Protocol.GetTimeResponse, Spec.Protocol.OpenDoorResponse, Spec.Protocol.PutCardResponse, Spec.Protocol.RecordSpecialEventsResponse, Spec.Protocol.RefreshTaskListResponse, Spec.Protocol.RestoreDefaultParametersResponse, Spec.Protocol.SetDoorControlStateResponse, Spec.Protocol.SetDoorPasscodesResponse, Spec.Protocol.SetEventIndexResponse, Spec.Protocol.SetFirstCardResponse, Spec.Protocol.SetInterlockResponse, Spec.Protocol.SetListenerResponse, Spec.Protocol.SetPCControlResponse, Spec.Protocol.SetTimeProfileResponse, Spec.Protocol.SetTimeResponse]
  · refine ⟨_, rfl, ?_⟩
    intro args r hlen hsys
    simp only [Layout.names, Field.names, List.flatMap_cons, List.flatMap_nil, List.append_nil, List.cons_append, List.nil_append, List.length_cons, List.length_nil, Spec.Protocol.ActivateAccessKeypadsResponse, Spec.Protocol.AddTaskResponse, Spec.Protocol.ClearTaskListResponse, Spec.Protocol.ClearTimeProfilesResponse, Spec.Protocol.DeleteCardResponse, Spec.Protocol.DeleteCardsResponse, Spec.Protocol.GetCardByIDResponse, Spec.Protocol.GetCardByIndexResponse, Spec.Protocol.GetCardsResponse, Spec.Protocol.GetDeviceResponse, Spec.Protocol.GetDoorControlStateResponse, Spec.Protocol.GetEventIndexResponse, Spec.Protocol.GetEventResponse, Spec.Protocol.GetListenerResponse, Spec.Protocol.GetStatusResponse, Spec.Protocol.GetTimeProfileResponse, Spec.Protocol.GetTimeResponse, Spec.Protocol.OpenDoorResponse, Spec.Protocol.PutCardResponse, Spec.Protocol.RecordSpecialEventsResponse, Spec.Protocol.RefreshTaskListResponse, Spec.Protocol.RestoreDefaultParametersResponse, Spec.Protocol.SetDoorControlStateResponse, Spec.Protocol.SetDoorPasscodesResponse, Spec.Protocol.SetEventIndexResponse, Spec.Protocol.SetFirstCardResponse, Spec.Protocol.SetInterlockResponse, Spec.Protocol.SetListenerResponse, Spec.Protocol.SetPCControlResponse, Spec.Protocol.SetTimeProfileResponse, Spec.Protocol.SetTimeResponse] at hlen
    rcases r with _ | ⟨x0, _ | ⟨x1, _ | ⟨x2, _ | ⟨y, r⟩⟩⟩⟩ <;> simp at hlen
    simp [List.lookup, Spec.Api.get, Spec.Api.succeeded, Spec.Api.card, okBool, cardResult, Spec.Api.simple, C01.v_val, Layout.names, Field.names, statusResult, statusEventOf, statusNoEvent, Spec.Api.status, Spec.Protocol.ActivateAccessKeypadsResponse, Spec.Protocol.AddTaskResponse, Spec.Protocol.ClearTaskListResponse, Spec.Protocol.ClearTimeProfilesResponse, Spec.Protocol.DeleteCardResponse, Spec.Protocol.DeleteCardsResponse, Spec.Protocol.GetCardByIDResponse, Spec.Protocol.GetCardByIndexResponse, Spec.Protocol.GetCardsResponse, Spec.Protocol.GetDeviceResponse, Spec.Protocol.GetDoorControlStateResponse, Spec.Protocol.GetEventIndexResponse, Spec.Protocol.GetEventResponse, Spec.Protocol.GetListenerResponse, Spec.Protocol.GetStatusResponse, Spec.Protocol.GetTimeProfileResponse, Spec.Protocol.GetTimeResponse, Spec.Protocol.OpenDoorResponse, Spec.Protocol.PutCardResponse, Spec.Protocol.RecordSpecialEventsResponse, Spec.Protocol.RefreshTaskListResponse, Spec.Protocol.RestoreDefaultParametersResponse, Spec.Protocol.SetDoorControlStateResponse, Spec.Protocol.SetDoorPasscodesResponse, Spec.Protocol.SetEventIndexResponse, Spec.Protocol.SetFirstCardResponse, Spec.Protocol.SetInterlockResponse, Spec.Protocol.SetListenerResponse, Spec.Protocol.SetPCControlResponse, Spec.Protocol.SetTimeProfileResponse, Spec.Protocol.SetTimeResponse]

/-! ### the reply interpretation against the sources

For the 29 operations whose reply handling is `if err != nil { return …, err } else { [sentinel checks;]
return <fields of the reply>, nil }` the translator regenerates the interpretation term by term
(`Gen.Ops.results`: which reply field goes where; `return nil, nil` / `return nil, error` under a
comparison of a reply field with a literal or an argument); the hand-written `Model.Api.result_<Op>`
that all theorems above are about is that term — literally for 24 of them, and on every well-typed
reply (the reply struct's length, the compared field of its declared integer type, the serial number
`sendto` has checked) for the five with sentinels. The other two (`GetDevice`, `GetStatus`) are tied
by source pins and the `ops` stream. -/

theorem C02_results_regenerated_which : Gen.Ops.results.map (·.1) =
    ["SetAddress", "GetListener", "SetListener", "GetTime", "SetTime", "GetDoorControlState", "SetDoorControlState",
     "GetCards", "GetCardByIndex", "GetCardByID", "PutCard", "DeleteCard", "DeleteCards", "GetTimeProfile",
     "SetTimeProfile", "ClearTimeProfiles", "ClearTaskList", "AddTask", "RefreshTaskList", "RecordSpecialEvents",
     "GetEvent", "GetEventIndex", "SetEventIndex", "SetDoorPasscodes", "OpenDoor", "SetPCControl", "SetInterlock",
     "ActivateKeypads", "RestoreDefaultParameters"] := by decide

/-- what `sendto` and the codec guarantee of a decoded reply, as far as the sentinel comparisons look at it:
    the reply struct's length, the compared field of its declared integer type, the serial number the
    call was made for -/
def WellTyped (name : String) (args : List Arg) (r : List Val) : Prop :=
  if name = "GetCardByIndex" then r.length = 10 ∧ ∃ n, r.getD 2 .none_ = .u32 n
  else if name = "GetCardByID" then r.length = 10 ∧ (∃ n, r.getD 2 .none_ = .u32 n) ∧ ∃ m, arg args 1 = .v (.u32 m)
  else if name = "GetEvent" then r.length = 10 ∧ (∃ t, r.getD 3 .none_ = .u8 t) ∧ ∃ ix, r.getD 2 .none_ = .u32 ix
  else if name = "GetTimeProfile" then r.length = 19 ∧ ∃ n, r.getD 2 .none_ = .u8 n
  else if name = "SetListener" then r.getD 1 .none_ = dev args
  else True

theorem length10 {α} (r : List α) (h : r.length = 10) :
    ∃ x0 x1 x2 x3 x4 x5 x6 x7 x8 x9, r = [x0, x1, x2, x3, x4, x5, x6, x7, x8, x9] := by
  match r, h with
  | [x0, x1, x2, x3, x4, x5, x6, x7, x8, x9], _ => exact ⟨x0, x1, x2, x3, x4, x5, x6, x7, x8, x9, rfl⟩

theorem length19 {α} (r : List α) (h : r.length = 19) :
    ∃ x0 x1 x2 x3 x4 x5 x6 x7 x8 x9 x10 x11 x12 x13 x14 x15 x16 x17 x18,
      r = [x0, x1, x2, x3, x4, x5, x6, x7, x8, x9, x10, x11, x12, x13, x14, x15, x16, x17, x18] := by
  match r, h with
  | [x0, x1, x2, x3, x4, x5, x6, x7, x8, x9, x10, x11, x12, x13, x14, x15, x16, x17, x18], _ =>
    exact ⟨x0, x1, x2, x3, x4, x5, x6, x7, x8, x9, x10, x11, x12, x13, x14, x15, x16, x17, x18, rfl⟩

theorem C02_results_regenerated : ∀ e ∈ Gen.Ops.results, (findOp e.1).isSome = true ∧
    ∀ o, findOp e.1 = some o → ∀ args r, WellTyped e.1 args r → e.2 args r = o.result args r := by
  intro e he
  simp only [Gen.Ops.results, List.mem_cons, List.mem_nil_iff, or_false] at he
  rcases he with rfl | rfl | rfl | rfl | rfl | rfl | rfl | rfl | rfl | rfl | rfl | rfl | rfl | rfl | rfl | rfl |
    rfl | rfl | rfl | rfl | rfl | rfl | rfl | rfl | rfl | rfl | rfl | rfl | rfl
  all_goals refine ⟨by decide, ?_⟩
  all_goals intro o ho
  all_goals simp [findOp, ops] at ho
  all_goals subst ho
  all_goals intro args r hw
  all_goals first
    | rfl
    | -- SetListener: the serial number is the one the call was made for
      (simp [WellTyped] at hw
       simp [hw, okBool]
       done)
    | -- GetCardByIndex
      (simp [WellTyped] at hw
       obtain ⟨hl, n, hn⟩ := hw
       obtain ⟨x0, x1, x2, x3, x4, x5, x6, x7, x8, x9, rfl⟩ := length10 r hl
       simp at hn
       subst hn
       by_cases h0 : n = 0 <;> by_cases hf : n = 4294967295 <;> simp [cardResult, h0, hf]
       done)
    | -- GetCardByID
      (simp [WellTyped] at hw
       obtain ⟨hl, ⟨n, hn⟩, m, hm⟩ := hw
       obtain ⟨x0, x1, x2, x3, x4, x5, x6, x7, x8, x9, rfl⟩ := length10 r hl
       simp at hn
       subst hn
       by_cases h0 : n = 0 <;> by_cases hf : n = m <;> simp [cardResult, h0, hf, hm, val?, u32?]
       done)
    | -- GetEvent
      (simp [WellTyped] at hw
       obtain ⟨hl, ⟨t, ht⟩, ix, hix⟩ := hw
       obtain ⟨x0, x1, x2, x3, x4, x5, x6, x7, x8, x9, rfl⟩ := length10 r hl
       simp at ht hix
       subst ht hix
       by_cases h0 : t = 255 <;> by_cases hf : ix = 0 <;> simp [h0, hf]
       done)
    | -- GetTimeProfile
      (simp [WellTyped] at hw
       obtain ⟨hl, n, hn⟩ := hw
       obtain ⟨x0, x1, x2, x3, x4, x5, x6, x7, x8, x9, x10, x11, x12, x13, x14, x15, x16, x17, x18, rfl⟩ := length19 r hl
       simp at hn
       subst hn
       by_cases h0 : n = 0 <;> by_cases hf : n = u8? (arg args 1) <;> simp [h0, hf]
       done)

/-- … and the status mapping (`statusResult`: GetStatus, and through `Model.Events.classify` the listener)
    is, for EVERY value list, the one translated from the two places of the sources that build a
    `types.Status` — which reply field goes where, the system date-time closure (its body has the one
    shape `sysDateTime` models), the event part filled exactly when the event index is non-zero -/
theorem ev_eq (r : List Val) (xs : List Val)
    (hxs : xs = [r.getD 2 .none_, r.getD 3 .none_, r.getD 4 .none_, r.getD 5 .none_, r.getD 6 .none_, r.getD 7 .none_,
      r.getD 8 .none_, r.getD 9 .none_]) :
    (if (r.getD 2 .none_ != .u32 0) = true then xs else statusNoEvent) = statusEventOf r := by
  show _ = (match r.getD 2 .none_ with
    | .u32 0 => statusNoEvent
    | _ => [r.getD 2 .none_, r.getD 3 .none_, r.getD 4 .none_, r.getD 5 .none_, r.getD 6 .none_, r.getD 7 .none_,
        r.getD 8 .none_, r.getD 9 .none_])
  by_cases h : r.getD 2 .none_ = .u32 0
  · rw [h]
    rfl
  · have hne : (r.getD 2 .none_ != Val.u32 0) = true := by simpa [bne_iff_ne] using h
    rw [if_pos hne, hxs]
    split
    · rename_i h0; exact absurd h0 h
    · rfl

theorem C02_status_regenerated (r : List Val) :
    Gen.Status.getStatus r = statusResult r ∧ Gen.Status.listenStatus r = statusResult r := by
  constructor
  · unfold Gen.Status.getStatus statusResult
    rw [ev_eq r _ rfl]
  · unfold Gen.Status.listenStatus statusResult
    rw [ev_eq r _ rfl]

/-- the hypothesis is satisfiable (a decoded GetEvent reply; a GetCardByID call) -/
example : WellTyped "GetEvent" [] [.u8 0, .u32 1, .u32 5, .u8 1, .bool true, .u8 1, .u8 1, .u32 7, .dateTime none, .u8 0] := by
  simp [WellTyped]
example : WellTyped "GetCardByID" [.v (.u32 1), .v (.u32 8165538)]
    [.u8 0, .u32 1, .u32 8165538, .date none, .date none, .u8 1, .u8 0, .u8 0, .u8 1, .u32 7531] := by
  simp [WellTyped, arg]

end Uhppote.Props.C02
