import Uhppote.Model.Order
import Uhppote.Spec.Order
import Uhppote.Gen.Order
import Uhppote.Gen.Source
import Uhppote.Props.C13
/-! # C16 — date and time comparisons form a strict total order consistent with the calendar
All statements are for ALL integer field values (so certainly for years 0001..9999, months, days,
hours 0..24, minutes 0..59). -/
namespace Uhppote.Props.C16
open Uhppote.Model.Order Uhppote.Spec.Order

def t3 (p : YMD) : Int × Int × Int := (p.y, p.m, p.d)
def t2 (p : HM) : Int × Int := (p.h, p.m)

theorem C16_date_before_lex (p q : YMD) : dateBefore p q = true ↔ lex3 (t3 p) (t3 q) := by
  unfold dateBefore lex3 t3
  by_cases h1 : p.y < q.y <;> by_cases h2 : p.y = q.y <;> by_cases h3 : p.m < q.m <;>
    by_cases h4 : p.m = q.m <;> by_cases h5 : p.d < q.d <;> simp [*] <;> omega

theorem C16_date_after_mirror (p q : YMD) : dateAfter p q = dateBefore q p := by
  unfold dateAfter dateBefore
  by_cases h1 : p.y > q.y <;> by_cases h2 : p.y = q.y <;> by_cases h3 : p.m > q.m <;>
    by_cases h4 : p.m = q.m <;> by_cases h5 : p.d > q.d <;> simp [*] <;> omega

theorem C16_date_equals (p q : YMD) : dateEquals p q = true ↔ p = q := by
  cases p; cases q; simp [dateEquals]; omega

/-- exactly one of before / equal / after -/
theorem C16_date_trichotomy (p q : YMD) :
    (dateBefore p q = true ∧ dateEquals p q = false ∧ dateAfter p q = false) ∨
    (dateBefore p q = false ∧ dateEquals p q = true ∧ dateAfter p q = false) ∨
    (dateBefore p q = false ∧ dateEquals p q = false ∧ dateAfter p q = true) := by
  unfold dateBefore dateAfter dateEquals
  by_cases h1 : p.y < q.y <;> by_cases h2 : p.y = q.y <;> by_cases h3 : p.m < q.m <;>
    by_cases h4 : p.m = q.m <;> by_cases h5 : p.d < q.d <;> by_cases h6 : p.d = q.d <;>
    by_cases h7 : p.y > q.y <;> by_cases h8 : p.m > q.m <;> by_cases h9 : p.d > q.d <;>
    simp [*] <;> omega

theorem C16_date_before_trans (p q r : YMD) (h1 : dateBefore p q = true) (h2 : dateBefore q r = true) :
    dateBefore p r = true := by
  rw [C16_date_before_lex] at *
  unfold lex3 t3 at *
  simp only at *
  omega

theorem C16_date_before_irrefl (p : YMD) : dateBefore p p = false := by
  unfold dateBefore; simp

theorem C16_hhmm_before_lex (p q : HM) : hhmmBefore p q = true ↔ lex2 (t2 p) (t2 q) := by
  unfold hhmmBefore lex2 t2
  by_cases h1 : p.h < q.h <;> by_cases h2 : p.h = q.h <;> by_cases h3 : p.m < q.m <;> simp [*] <;> omega

theorem C16_hhmm_after_mirror (p q : HM) : hhmmAfter p q = hhmmBefore q p := by
  unfold hhmmAfter hhmmBefore
  by_cases h1 : p.h > q.h <;> by_cases h2 : p.h = q.h <;> by_cases h3 : p.m > q.m <;> simp [*] <;> omega

theorem C16_hhmm_equals (p q : HM) : hhmmEquals p q = true ↔ p = q := by
  cases p; cases q; simp [hhmmEquals]

theorem C16_hhmm_trichotomy (p q : HM) :
    (hhmmBefore p q = true ∧ hhmmEquals p q = false ∧ hhmmAfter p q = false) ∨
    (hhmmBefore p q = false ∧ hhmmEquals p q = true ∧ hhmmAfter p q = false) ∨
    (hhmmBefore p q = false ∧ hhmmEquals p q = false ∧ hhmmAfter p q = true) := by
  unfold hhmmBefore hhmmAfter hhmmEquals
  by_cases h1 : p.h < q.h <;> by_cases h2 : p.h = q.h <;> by_cases h3 : p.m < q.m <;>
    by_cases h4 : p.m = q.m <;> by_cases h5 : p.h > q.h <;> by_cases h6 : p.m > q.m <;>
    simp [*] <;> omega

theorem C16_hhmm_before_trans (p q r : HM) (h1 : hhmmBefore p q = true) (h2 : hhmmBefore q r = true) :
    hhmmBefore p r = true := by
  rw [C16_hhmm_before_lex] at *
  unfold lex2 t2 at *
  simp only at *
  omega

/-- a date-time is before an instant exactly when its whole-second timestamp is the smaller one
    (instants from 1970 on, as the property restricts it) -/
theorem C16_datetime_before (d t : Int) (hd : 0 ≤ d) (ht : 0 ≤ t) :
    dateTimeBefore d t = true ↔ wholeSeconds d < wholeSeconds t := by
  unfold dateTimeBefore wholeSeconds
  rw [Int.tdiv_eq_ediv_of_nonneg hd, Int.tdiv_eq_ediv_of_nonneg ht]
  simp

/-- why the restriction is needed: before 1970 Go's truncating division rounds towards zero -/
example : dateTimeBefore (-1500) (-1000) = false ∧ wholeSeconds (-1500) < wholeSeconds (-1000) := by decide

/-- SetTimeProfile accepts a segment exactly when its end is not before its start -/
theorem C16_segment_guard (s e : HM) : segmentRejected s e = false ↔ ¬ lex2 (t2 e) (t2 s) := by
  unfold segmentRejected
  rw [← C16_hhmm_before_lex]
  simp

/-- the civil fields a stored instant reports in a zone, as the comparison methods read them
    (`Year()`, `Month()`, `Day()`) -/
def fieldsIn (z : Uhppote.Model.Time.Zone) (u : Int) : YMD :=
  let c := Uhppote.Model.Time.civilFromDays (Uhppote.Model.Time.dayOf (Uhppote.Model.Time.civil z u))
  ⟨c.1, c.2.1, c.2.2⟩

/-- **in every process zone**: the verdict on two dates that were *constructed* for the civil days
    `m₁` and `m₂` (by any of the five sites, all of which go through `startOfDay`: `C13_sites`) is the
    verdict on the calendar fields of those days - also when a DST change removes local midnight on
    either day. With `C16_date_before_lex` this is "agrees with comparing (year, month, day)" for
    dates as the library makes them, not only for field triples. (Hypotheses: those of
    `C13_date_keeps_its_day`, for each of the two days.) -/
theorem C16_order_in_every_zone (z : Uhppote.Model.Time.Zone)
    (m₁ D₁ T₁ A₁ B₁ m₂ D₂ T₂ A₂ B₂ : Int)
    (hm₁ : m₁ % 86400 = 0) (h₁ : Uhppote.Proofs.Zone.OneTransition z m₁ (2 * D₁ + 43200) T₁ A₁ B₁)
    (hA₁ : -D₁ ≤ A₁ ∧ A₁ ≤ D₁) (hB₁ : -D₁ ≤ B₁ ∧ B₁ ≤ D₁) (hb₁ : ∀ v, -D₁ ≤ z.off v ∧ z.off v ≤ D₁) (hg₁ : B₁ - A₁ < 43200)
    (hm₂ : m₂ % 86400 = 0) (h₂ : Uhppote.Proofs.Zone.OneTransition z m₂ (2 * D₂ + 43200) T₂ A₂ B₂)
    (hA₂ : -D₂ ≤ A₂ ∧ A₂ ≤ D₂) (hB₂ : -D₂ ≤ B₂ ∧ B₂ ≤ D₂) (hb₂ : ∀ v, -D₂ ≤ z.off v ∧ z.off v ≤ D₂) (hg₂ : B₂ - A₂ < 43200) :
    let p := fieldsIn z (Uhppote.Model.Time.startOfDay z m₁)
    let q := fieldsIn z (Uhppote.Model.Time.startOfDay z m₂)
    let p' : YMD := ⟨(Uhppote.Model.Time.civilFromDays (Uhppote.Model.Time.dayOf m₁)).1, (Uhppote.Model.Time.civilFromDays (Uhppote.Model.Time.dayOf m₁)).2.1, (Uhppote.Model.Time.civilFromDays (Uhppote.Model.Time.dayOf m₁)).2.2⟩
    let q' : YMD := ⟨(Uhppote.Model.Time.civilFromDays (Uhppote.Model.Time.dayOf m₂)).1, (Uhppote.Model.Time.civilFromDays (Uhppote.Model.Time.dayOf m₂)).2.1, (Uhppote.Model.Time.civilFromDays (Uhppote.Model.Time.dayOf m₂)).2.2⟩
    dateBefore p q = dateBefore p' q' ∧ dateEquals p q = dateEquals p' q' ∧ dateAfter p q = dateAfter p' q' := by
  have e₁ := Uhppote.Props.C13.C13_date_keeps_its_day z m₁ D₁ T₁ A₁ B₁ hm₁ h₁ hA₁ hB₁ hb₁ hg₁
  have e₂ := Uhppote.Props.C13.C13_date_keeps_its_day z m₂ D₂ T₂ A₂ B₂ hm₂ h₂ hA₂ hB₂ hb₂ hg₂
  simp only [fieldsIn, e₁, e₂]
  exact ⟨trivial, trivial, trivial⟩

/-- the comparison functions all theorems above are about are, term for term, the ones translated from
    types/date.go, types/HHmm.go and types/datetime.go on this run (nested ifs with fall-through, the HHmm
    case of the type switch, whole seconds by truncating division) -/
theorem C16_regenerated :
    Gen.Order.dateBefore = dateBefore ∧ Gen.Order.dateAfter = dateAfter ∧ Gen.Order.dateEquals = dateEquals ∧
    Gen.Order.hhmmBefore = hhmmBefore ∧ Gen.Order.hhmmAfter = hhmmAfter ∧ Gen.Order.hhmmEquals = hhmmEquals ∧
    Gen.Order.dateTimeBefore = dateTimeBefore := by
  refine ⟨rfl, rfl, rfl, rfl, rfl, rfl, ?_⟩
  funext a b
  simp [Gen.Order.dateTimeBefore, dateTimeBefore]

/-! non-vacuity -/
example : dateBefore ⟨2024, 12, 31⟩ ⟨2025, 1, 1⟩ = true := by decide
example : dateBefore ⟨2025, 1, 1⟩ ⟨2024, 12, 31⟩ = false := by decide
example : hhmmBefore ⟨8, 30⟩ ⟨24, 0⟩ = true := by decide
example : dateTimeBefore 1999 2000 = true ∧ dateTimeBefore 1000 1999 = false := by decide
example : segmentRejected ⟨8, 30⟩ ⟨8, 29⟩ = true ∧ segmentRejected ⟨8, 30⟩ ⟨8, 30⟩ = false := by decide

/-- no comparison keeps anything between calls: the package-level variables of the four packages (regenerated) are these ten - the
    codec's patterns and kind table, the two card-format patterns, the bind-port mutex, `NOTIMEOUT` and three error
    values - every one of them initialised when its package is loaded. A `sync.Once`, a lazily filled map or a cache
    would have to appear here. -/
theorem C16_package_state : Gen.Source.packageVars = ["encoding/UTO311-L0x/UT0311-L0x.go:var re", "encoding/UTO311-L0x/UT0311-L0x.go:var tBool,tByte,tUint16,…",
    "encoding/UTO311-L0x/UT0311-L0x.go:var vre", "types/card-format.go:var w26", "types/card-format.go:var wAny",
    "uhppote/UT0311.go:var NOTIMEOUT", "uhppote/UT0311.go:var guard", "uhppote/errors.go:var ErrIncorrectController",
    "uhppote/errors.go:var ErrInvalidCard", "uhppote/errors.go:var ErrInvalidListenerAddress"] := by decide

end Uhppote.Props.C16
