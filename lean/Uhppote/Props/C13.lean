import Uhppote.Gen.Types
import Uhppote.Proofs.Zone
import Uhppote.Gen.Source
/-! # C13 — calendar dates and times keep their civil value in every time zone

A zone is a piecewise-constant offset function with its period bounds (what Go's
`Location.lookup` returns); `goDate` is Go's `time.Date` / `time.ParseInLocation` resolution and
`startOfDay` the repository's date constructor (go1.23 `time/time.go`, hand-modelled; the five
construction sites and the helper's body are regenerated facts). The theorems hold for EVERY zone
satisfying the locality hypothesis `OneTransition` (at most one transition within the window
around the date, offsets bounded) — the (zone, day) pairs of the IANA database that violate it
are outside the theorem and covered by the `zones` correspondence stream only. The calendar
itself (civil fields ↔ day number) is the `time` package's and enters only through day numbers:
a date "reports year, month, day" ⇔ the civil day number is the requested one. -/
set_option maxRecDepth 8192
namespace Uhppote.Props.C13
open Uhppote Uhppote.Model.Time Uhppote.Proofs.Zone

/-- T5: every one of the five date construction sites goes through `startOfDay`, whose body is
    the modelled one; the DateTime decoder maps the encoding of the zero value to zero -/
theorem C13_sites :
    Gen.Types.dateSites = [("ToDate", "startOfDay"), ("ParseDate", "startOfDay"), ("DateWire", "startOfDay"),
      ("DateJSON", "startOfDay"), ("SystemDateWire", "startOfDay")] ∧
    Gen.Types.startOfDayBody = "{ t := time.Date(year, month, day, 0, 0, 0, 0, time.Local) noon := time.Date(year, month, day, 12, 0, 0, 0, time.Local) if t.Day() != noon.Day() { if start, _ := noon.ZoneBounds(); start.After(t) { return start } } return t }" ∧
    Gen.Types.dateTimeZeroPatterns.contains "[]byte{0x00,0x01,0x01,0x01,0,0,0}" = true := by decide

/-- **dates**: a date constructed from (or read as) a civil day reports exactly that day, in every
    zone — including when a DST change removes local midnight (the gap is shorter than twelve
    hours, so the day is not skipped entirely) -/
theorem C13_date_keeps_its_day (z : Zone) (midnight D T A B : Int) (hm : midnight % 86400 = 0)
    (h : OneTransition z midnight (2 * D + 43200) T A B)
    (hA : -D ≤ A ∧ A ≤ D) (hB : -D ≤ B ∧ B ≤ D) (hbound : ∀ v, -D ≤ z.off v ∧ z.off v ≤ D)
    (hgap : B - A < 43200) :
    dayOf (civil z (startOfDay z midnight)) = dayOf midnight :=
  startOfDay_day z midnight D T A B hm h hA hB hbound hgap

/-- … and therefore encodes back to exactly those digits: the encoder formats the civil fields of
    the stored instant, i.e. of the same day number -/
theorem C13_date_encodes_its_day (z : Zone) (midnight D T A B : Int) (hm : midnight % 86400 = 0)
    (h : OneTransition z midnight (2 * D + 43200) T A B)
    (hA : -D ≤ A ∧ A ≤ D) (hB : -D ≤ B ∧ B ≤ D) (hbound : ∀ v, -D ≤ z.off v ∧ z.off v ≤ D)
    (hgap : B - A < 43200) :
    civilFromDays (dayOf (civil z (startOfDay z midnight))) = civilFromDays (dayOf midnight) := by
  rw [C13_date_keeps_its_day z midnight D T A B hm h hA hB hbound hgap]

/-- **date-times**: a date-time read from a controller reports exactly the transmitted civil
    time whenever that time exists in the process zone (also used by the status recombination,
    whose date part comes from the theorem above) -/
theorem C13_datetime_exact (z : Zone) (c D T A B : Int) (h : OneTransition z c (2 * D) T A B)
    (hA : -D ≤ A ∧ A ≤ D) (hB : -D ≤ B ∧ B ≤ D) (hbound : ∀ v, -D ≤ z.off v ∧ z.off v ≤ D)
    (hex : ∃ u, civil z u = c) : civil z (goDate z c) = c :=
  goDate_exact z c D T A B h hA hB hbound hex

/-- a civil time exists unless it falls in the gap of a spring-forward transition -/
theorem C13_exists_outside_gap (z : Zone) (c D T A B : Int) (h : OneTransition z c (2 * D) T A B)
    (hA : -D ≤ A ∧ A ≤ D) (hB : -D ≤ B ∧ B ≤ D) (hg : ¬ InGap c T A B) : ∃ u, civil z u = c :=
  exists_of_not_inGap z c D T A B h hA hB hg

/-- why the repair was needed: plain `time.Date(y, m, d, 0, …, time.Local)` lands on the PREVIOUS
    day when a transition west of UTC removes local midnight (defect D11, repaired) -/
theorem C13_naive_constructor_was_wrong (z : Zone) (m D T A B : Int) (hm : m % 86400 = 0)
    (h : OneTransition z m (2 * D) T A B) (hA : -D ≤ A ∧ A ≤ D) (hB : -D ≤ B ∧ B ≤ D)
    (hg : InGap m T A B) (hw : m < T) (hgap : B - A ≤ 86400) :
    dayOf (civil z (naiveDate z m)) = dayOf m - 1 :=
  naiveDate_previous_day z m D T A B hm h hA hB hg hw hgap

/-! non-vacuity: America/Santiago, 2024-09-08 (clocks go from 24:00 to 01:00; −4h → −3h at
    2024-09-08 04:00 UTC): the hypotheses hold and the two constructors differ -/
def santiago : ZoneData := ⟨-14400, [(1725768000, -10800)]⟩
example : civilSeconds 2024 9 8 0 0 0 = 1725753600 ∧ (1725753600 : Int) % 86400 = 0 := by decide
example : fieldsOf (civil santiago.zone (startOfDay santiago.zone 1725753600)) = (2024, 9, 8, 1, 0, 0) := by decide
example : fieldsOf (civil santiago.zone (naiveDate santiago.zone 1725753600)) = (2024, 9, 7, 23, 0, 0) := by decide
example : InGap 1725753600 1725768000 (-14400) (-10800) := by unfold InGap; decide

/-- where the process zone (and the clock) can enter at all: the regenerated list of every function that reads
    `time.Local` or `time.Now` (the clock: the driver's deadlines and `DateTimeNow` only). The zone is read by the decoders that place a transmitted civil time (`startOfDay`,
    the date-time and system-time decoders), by the status recombination of GetStatus / Listen, and to label devices;
    nothing else - no encoder, no comparison, no request builder - depends on the zone, the date or the time of day. -/
theorem C13_zone_reads : Gen.Source.ambientReads =
    ["types/date.go:startOfDay: time.Local",
     "types/datetime.go:DateTimeNow: time.Now",
     "types/datetime.go:DateTime.UnmarshalJSON: time.Local",
     "types/datetime.go:DateTime.UnmarshalUT0311L0x: time.Local",
     "types/systemtime.go:TimeFromString: time.Local",
     "types/systemtime.go:SystemTime.UnmarshalUT0311L0x: time.Local",
     "uhppote/UT0311.go:ut0311.Broadcast: time.Now",
     "uhppote/UT0311.go:ut0311.BroadcastTo: time.Now",
     "uhppote/UT0311.go:ut0311.SendUDP: time.Now",
     "uhppote/UT0311.go:ut0311.SendTCP: time.Now",
     "uhppote/device.go:NewDevice: time.Local",
     "uhppote/get_device.go:uhppote.GetDevices: time.Local",
     "uhppote/get_device.go:uhppote.GetDevice: time.Local",
     "uhppote/get_status.go:uhppote.GetStatus: time.Local",
     "uhppote/listen.go:uhppote.Listen: time.Local"] := by decide

/-- no date or time function keeps anything between calls (a zone decision taken once per process, a cache of instants): the package-level variables of the four packages (regenerated) are these ten - the
    codec's patterns and kind table, the two card-format patterns, the bind-port mutex, `NOTIMEOUT` and three error
    values - every one of them initialised when its package is loaded. A `sync.Once`, a lazily filled map or a cache
    would have to appear here. -/
theorem C13_package_state : Gen.Source.packageVars = ["encoding/UTO311-L0x/UT0311-L0x.go:var re", "encoding/UTO311-L0x/UT0311-L0x.go:var tBool,tByte,tUint16,…",
    "encoding/UTO311-L0x/UT0311-L0x.go:var vre", "types/card-format.go:var w26", "types/card-format.go:var wAny",
    "uhppote/UT0311.go:var NOTIMEOUT", "uhppote/UT0311.go:var guard", "uhppote/errors.go:var ErrIncorrectController",
    "uhppote/errors.go:var ErrInvalidCard", "uhppote/errors.go:var ErrInvalidListenerAddress"] := by decide

end Uhppote.Props.C13
