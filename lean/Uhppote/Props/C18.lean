import Uhppote.Gen.Facts
import Uhppote.Gen.BCD
import Uhppote.Gen.Types
import Uhppote.Props.C12
import Uhppote.Proofs.CodecNoPanic
import Uhppote.Proofs.CodecImage
import Uhppote.Proofs.CodecRoundTrip
import Uhppote.Proofs.CodecRead
import Uhppote.Proofs.CodecConfined
import Uhppote.Gen.Source
/-! # C18 — the codec is generic over message layouts

Theorems about `Model.marshal` / `Model.unmarshal` for **every** layout that can be declared with
the tag grammar (`Spec.Codec.wf`: fields of the supported kinds at non-overlapping offsets 2..63
that fit inside the 64 bytes, decimal or hexadecimal value tags, one level of embedding), run
with the facts the translator reads off the codec source (`Gen.codecFacts`), the BCD switch
tables (`Gen.BCD`) and the HH:mm bounds (`Gen.Types`). -/
namespace Uhppote.Props.C18
open Uhppote Uhppote.Model Uhppote.Spec.Codec

/-- HH:mm bounds of the wire decoder as they are in types/HHmm.go today -/
def wireBounds : HHmmBounds :=
  ⟨Gen.Types.hhmmMaxHoursWire, Gen.Types.hhmmMaxMinutesWire, Gen.Types.hhmm24RuleWire⟩

/-- T5 obligation: the statements of the codec the model depends on are what the theorems need
    (64-byte zeroed buffer with 0x17 preset; length and protocol-id checks; the uint16/uint32
    accessors slice exactly their width, little-endian; value tags parsed with base 0; the error
    of an embedded struct is returned; the MAC and IPv4 readers copy; booleans are 0/1). -/
theorem C18_facts : Gen.codecFacts = goodFacts := by decide

theorem C18_tag_grammar : Gen.offsetRegex = "offset:\\s*([0-9]+)" ∧
    Gen.valueRegex = "value:\\s*((?:0[xX])?[0-9a-fA-F]+)" := by decide

theorem C18_hhmm_bounds : wireBounds = ⟨24, 59, true⟩ := by decide

/-- (i) **encoding = image, no panic**: for every well-formed layout and all in-domain values,
    `Marshal` writes exactly each field's wire bytes at its declared offset, the function code
    and protocol id from the tags, and zero in every other byte — also for a field that ends on
    the last byte. -/
theorem C18_marshal_image (L : Layout) (vs : List Val) (img : Bytes)
    (hwf : wf L.leaves = true) (himg : image L.leaves vs = some img) :
    marshal Gen.codecFacts C12.genTables L vs = .ok img := by
  rw [C18_facts, C12.C12_tables.1]
  exact Proofs.Codec.marshal_image L vs img hwf himg

/-- every field of a well-formed layout fits (bridge from the Boolean `wf` to `Fits`) -/
theorem fits_of_wf : ∀ (ls : List Leaf), (ls.filterMap extent).all (fun (o, w) => o + w ≤ 64) = true →
    Proofs.Codec.Fits 64 ls
  | [], _ => trivial
  | l :: ls, h => by
    cases l with
    | «at» off k tag =>
      simp only [List.filterMap_cons, extent, List.all_cons, Bool.and_eq_true, decide_eq_true_eq] at h
      exact ⟨h.1, fits_of_wf ls h.2⟩
    | som t =>
      simp only [List.filterMap_cons, extent, List.all_cons, Bool.and_eq_true] at h
      exact fits_of_wf ls h.2
    | msgType t =>
      simp only [List.filterMap_cons, extent, List.all_cons, Bool.and_eq_true] at h
      exact fits_of_wf ls h.2
    | skip =>
      simp only [List.filterMap_cons, extent] at h
      exact fits_of_wf ls h

/-- (iii) **decoding never panics**: for every layout whose fields fit, and every byte string of
    any length. -/
theorem C18_unmarshal_no_panic (L : Layout) (hwf : wf L.leaves = true) (bytes : Bytes) :
    unmarshal Gen.codecFacts C12.genTables wireBounds L bytes ≠ .panic := by
  rw [C18_facts]
  simp only [wf, Bool.and_eq_true] at hwf
  exact Proofs.Codec.unmarshal_no_panic _ _ L (fits_of_wf _ hwf.1.1.1) bytes

/-- (ii) **decode ∘ encode = id**: for every well-formed layout, decoding what `Marshal` wrote
    returns the encoded values — each in-domain value itself, except for the observational
    equalities spelled out in `Spec.Codec.back` (IPv4 in Go's 16-byte form, a pointer to the zero
    date/date-time as nil; header fields as the bytes their tags fix). `hh`: the protocol id the
    layout's SOM field emits, if it has one, is one `Unmarshal` accepts (see `C18_header_ok`). -/
theorem C18_round_trip (L : Layout) (vs ws : List Val) (img : Bytes)
    (hwf : wf L.leaves = true) (himg : image L.leaves vs = some img)
    (hback : backAll L.leaves vs = some ws) (hh : headerOk img = true) :
    marshal Gen.codecFacts C12.genTables L vs = .ok img ∧
    unmarshal Gen.codecFacts C12.genTables wireBounds L img = .ok ws := by
  refine ⟨C18_marshal_image L vs img hwf himg, ?_⟩
  rw [C18_facts, C12.C12_tables.1, C18_hhmm_bounds]
  exact Proofs.Codec.unmarshal_image L vs ws img hwf himg hback hh

/-- the header condition of (ii) holds for every layout without a SOM field (byte 0 is the preset
    0x17) and for `SOM value:0x19` + `MsgType value:0x20` (the shape of the v6.62 event) -/
theorem C18_header_ok (L : Layout) (vs : List Val) (img : Bytes) (hwf : wf L.leaves = true)
    (himg : image L.leaves vs = some img) (hs : Proofs.Codec.hdrShape L.leaves = true) :
    headerOk img = true :=
  Proofs.Codec.headerOk_image L.leaves vs img hwf himg hs

/-- (ii′) **distinct values never share an encoding**: two in-domain value tuples with the same
    image decode to the same values, i.e. they are equal up to the observational equalities -/
theorem C18_injective (L : Layout) (vs vs' ws ws' : List Val) (img : Bytes)
    (hwf : wf L.leaves = true) (h1 : image L.leaves vs = some img) (h2 : image L.leaves vs' = some img)
    (hb1 : backAll L.leaves vs = some ws) (hb2 : backAll L.leaves vs' = some ws')
    (hh : headerOk img = true) : ws = ws' := by
  have a := (C18_round_trip L vs ws img hwf h1 hb1 hh).2
  have b := (C18_round_trip L vs' ws' img hwf h2 hb2 hh).2
  rw [a] at b
  injection b

theorem leavesOk_of_wf (ls : List Leaf) (hwf : wf ls = true) : Proofs.Codec.LeavesOk ls := by
  simp only [wf, Bool.and_eq_true, List.all_eq_true] at hwf
  intro l hl
  refine ⟨hwf.1.2 l hl, fun o w he => ?_⟩
  have := hwf.1.1.1 (o, w) (by rw [List.mem_filterMap]; exact ⟨l, hl, he⟩)
  simpa using this

/-- (iii′) **decoding is sound on every byte string**: for every well-formed layout and EVERY byte
    string of any length, what `Unmarshal` returns is accepted by the specification's decoding
    relation `Spec.Codec.acceptsUnmarshal` — a returned value has, field by field, exactly the
    protocol decoding of that field's bytes (in-domain bytes), or "no value" for the sentinels, or
    the zero value for out-of-domain bytes of the nil-tolerant kinds; an error is returned only if the
    header is wrong or some field is out of its domain / has the wrong fixed value; never a panic.
    In particular an out-of-domain field is never reported as a different in-domain value. -/
theorem C18_unmarshal_sound (L : Layout) (hwf : wf L.leaves = true) (bytes : Bytes) :
    acceptsUnmarshal L.leaves bytes
      (Proofs.Codec.toResult (unmarshal Gen.codecFacts C12.genTables wireBounds L bytes)) = true := by
  rw [C18_facts, C12.C12_tables.1, C18_hhmm_bounds]
  exact Proofs.Codec.unmarshal_sound L (leavesOk_of_wf _ hwf) bytes

/-- (iv-a) value tags on encode: a decimal or hexadecimal `value:` tag is what is emitted — this
    is part of `image` (`leafWire` of a tagged SOM / MsgType / byte field is its tag value) -/
theorem C18_tag_emitted (t : String) (n : Nat) (h : tagValue t = some n) (v : Val) (off : Nat) :
    leafWire (.msgType (some t)) v = some (1, [UInt8.ofNat n]) ∧
    leafWire (.som (some t)) v = some (0, [UInt8.ofNat n]) ∧
    leafWire (.at off .u8 (some t)) v = some (off, [UInt8.ofNat n]) := by
  simp [leafWire, h]

/-- (iv-b) value tags on decode: a message whose function code differs from the tag is rejected -/
theorem C18_msgtype_enforced (t : String) (n : Nat) (h : tagValue t = some n) (rest : List Field)
    (bytes : Bytes) (hne : (bytes.getD 1 0).toNat ≠ n) :
    unmarshal Gen.codecFacts C12.genTables wireBounds (.leaf "MsgType" (.msgType (some t)) :: rest) bytes = .err := by
  rw [C18_facts]
  have hp : parseUint8 goodFacts.headerValueBase t = some n := Proofs.Codec.parseUint8_of_tagValue t n h
  unfold unmarshal
  split
  · rfl
  · split
    · rfl
    · have hne' : ¬ (bytes[1]?.getD 0).toNat = n := by simpa using hne
      simp [unmarshalFields, unmarshalLeaf, hp, hne']

/-- (iv-c) a fixed-value byte field that does not carry its value is rejected -/
theorem C18_fixed_byte_enforced (t : String) (n off : Nat) (h : tagValue t = some n)
    (bytes : Bytes) (hl : bytes.length = 64) (ho : off + 1 ≤ 64)
    (hne : (bytes.getD off 0).toNat ≠ n) :
    unmarshalLeaf Gen.codecFacts C12.genTables wireBounds bytes (.at off .u8 (some t)) = .err := by
  rw [C18_facts]
  have hp : parseUint8 goodFacts.byteValueBase t = some n := Proofs.Codec.parseUint8_of_tagValue t n h
  have hw : off + readWidth goodFacts .u8 ≤ bytes.length ∧ Kind.width .u8 ≤ readWidth goodFacts .u8 := by
    simp [readWidth, Kind.width]; omega
  have hne' : ¬ (bytes[off]?.getD 0).toNat = n := by simpa using hne
  simp [unmarshalLeaf, fixedValue, hp, hw, hne']

/-- (v) decoded values share no memory with the input: the only two readers that hand a slice
    to `SetBytes` copy (generated facts; the dynamic half is the aliasing correspondence run) -/
theorem C18_readers_copy : Gen.codecFacts.macReaderCopies = true ∧ Gen.codecFacts.ipReaderCopies = true := by
  decide

/-- (vi) **values outside their domain stay inside their field, and nothing panics**: for every well-formed layout and
    EVERY tuple of values a Go program can hold - a MAC of 8 bytes, a date past year 9999, an HH:mm of 100 hours, an
    address that is not IPv4, a PIN above 999999 - `Marshal` returns bytes or an error, never panics, and when it
    returns bytes every position outside the ranges of the out-of-domain fields is exactly what the image rule says
    (the other fields' wire bytes at their offsets, the protocol id, zero elsewhere). `goValue` only says that a
    `SystemDate` / `SystemTime` holds calendar fields (they wrap a `time.Time`). This is the statement D16 violated. -/
theorem C18_confined (L : Layout) (vs : List Val) (hwf : wf L.leaves = true) (hgo : Proofs.Codec.allGo vs) :
    marshal Gen.codecFacts C12.genTables L vs ≠ .panic ∧
    ∀ out, marshal Gen.codecFacts C12.genTables L vs = .ok out → confined L.leaves vs out = true := by
  rw [C18_facts, C12.C12_tables.1]
  exact Proofs.Codec.marshal_confined L vs hwf hgo

/-- T5 obligation behind (vi): the three encoders whose digits come from formatting a value refuse one that does not
    fill exactly its field - the regenerated guard constants (`len(*encoded) != N` returning an error in
    `Date`, `DateTime` and `HHmm.MarshalUT0311L0x`) are the widths of the fields, which is what the model's `fitting`
    steps say (before the repair of D16 the list read 0, 0, 0) -/
theorem C18_width_guards : Gen.Types.marshalWidthGuards =
    [("Date", Kind.width .date), ("DateTime", Kind.width .dateTime), ("HHmm", Kind.width .hhmm)] := by decide

/-! non-vacuity of (vi): an 8-byte MAC in front of a two-byte field, an HH:mm of 100:01 on the last two bytes - the
    layout is well formed, the values are Go values, neither is in its domain, bytes come back, and they are confined -/
def wildLayout : Layout :=
  [.leaf "M" (.at 8 .macAddress none), .leaf "V" (.at 14 .version none), .leaf "T" (.at 62 .hhmm none)]
def wildValues : List Val := [.mac [1, 2, 3, 4, 5, 6, 7, 8], .u16 0x0892, .hhmm ⟨100, 1⟩]

example : wf wildLayout.leaves = true := by decide
example : Proofs.Codec.allGo wildValues := by intro v hv; simp [wildValues] at hv; rcases hv with rfl | rfl | rfl <;> rfl
example : image wildLayout.leaves wildValues = none := by decide
example : marshal Gen.codecFacts C12.genTables wildLayout wildValues
    = .ok ([0x17, 0, 0, 0, 0, 0, 0, 0, 1, 2, 3, 4, 5, 6, 0x08, 0x92] ++ zeros 48) := by decide
example : confined wildLayout.leaves wildValues ([0x17, 0, 0, 0, 0, 0, 0, 0, 1, 2, 3, 4, 5, 6, 0x08, 0x92] ++ zeros 48) = true := by
  decide
/-- ... and a result in which the MAC had run over into the next field would not be -/
example : confined wildLayout.leaves wildValues ([0x17, 0, 0, 0, 0, 0, 0, 0, 1, 2, 3, 4, 5, 6, 7, 8] ++ zeros 48) = false := by
  decide

/-! non-vacuity: a 3-field layout with a field on the last two bytes -/
def exampleLayout : Layout :=
  [.leaf "MsgType" (.msgType (some "0x50")), .leaf "A" (.at 8 .u32 none), .leaf "B" (.at 62 .u16 none)]

example : wf exampleLayout.leaves = true := by decide
example : (image exampleLayout.leaves [.u8 0, .u32 0x12345678, .u16 0xabcd]).isSome = true := by decide
example : backAll exampleLayout.leaves [.u8 0, .u32 0x12345678, .u16 0xabcd]
    = some [.u8 0x50, .u32 0x12345678, .u16 0xabcd] := by decide
example : Proofs.Codec.hdrShape exampleLayout.leaves = true := by decide
example : marshal Gen.codecFacts C12.genTables exampleLayout [.u8 0, .u32 0x12345678, .u16 0xabcd]
    = .ok ([0x17, 0x50, 0, 0, 0, 0, 0, 0, 0x78, 0x56, 0x34, 0x12] ++ zeros 50 ++ [0xcd, 0xab]) := by decide

/-- the codec keeps nothing between calls but its two tag patterns and its table of kinds, all initialised when the package is loaded - not by whichever entry point happens to run first: the package-level variables of the four packages (regenerated) are these ten - the
    codec's patterns and kind table, the two card-format patterns, the bind-port mutex, `NOTIMEOUT` and three error
    values - every one of them initialised when its package is loaded. A `sync.Once`, a lazily filled map or a cache
    would have to appear here. -/
theorem C18_package_state : Gen.Source.packageVars = ["encoding/UTO311-L0x/UT0311-L0x.go:var re", "encoding/UTO311-L0x/UT0311-L0x.go:var tBool,tByte,tUint16,…",
    "encoding/UTO311-L0x/UT0311-L0x.go:var vre", "types/card-format.go:var w26", "types/card-format.go:var wAny",
    "uhppote/UT0311.go:var NOTIMEOUT", "uhppote/UT0311.go:var guard", "uhppote/errors.go:var ErrIncorrectController",
    "uhppote/errors.go:var ErrInvalidCard", "uhppote/errors.go:var ErrInvalidListenerAddress"] := by decide

end Uhppote.Props.C18
