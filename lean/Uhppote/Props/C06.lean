import Uhppote.Model.Api
import Uhppote.Spec.Api
import Uhppote.Gen.Routing
import Uhppote.Gen.Driver
/-! # C06 — each request is sent once, to the right endpoint, over the right transport (partial)

The routing closure of `sendto` and `resolve` are regenerated (`Gen.Routing`); `Model.Api.route`
is the closure as a function. Partial: that nobody else on a real LAN hears the datagram is the
kernel's behaviour; the loopback farm observes loopback endpoints only. -/
namespace Uhppote.Props.C06
open Uhppote Uhppote.Model Uhppote.Model.Api

/-- T4 obligation: the routing closure in the source today is this if-chain -/
theorem C06_route_chain : Gen.Routing.routeChain = [
    ("controller, ok := u.devices[serialNumber]; !ok", "udpBroadcastTo(serialNumber, m)"),
    ("!controller.Address.IsValid() || controller.Address.Addr() == netip.IPv4Unspecified()", "udpBroadcastTo(serialNumber, m)"),
    ("controller.Protocol == \"tcp\"", "tcpSendTo(controller.Address.AddrPort, m)"),
    ("", "udpSendTo(controller.Address.AddrPort, m)")] := by decide

/-- T4 obligation: with no broadcast address configured `resolve` yields 255.255.255.255:60000 -/
theorem C06_default_broadcast : Gen.Routing.defaultBroadcastIP = "255.255.255.255" ∧
    Gen.Routing.defaultBroadcastPort = 60000 := by decide

/-- **routing table**: a controller configured with a usable address (valid, not 0.0.0.0, port ≠ 0)
    gets exactly that endpoint over TCP when configured as "tcp" and over connected UDP otherwise;
    every other controller is reached by broadcast to the configured broadcast address, or
    255.255.255.255:60000 when none is configured — for all configurations and serial numbers -/
theorem C06_route (cfg : Cfg) (serial : Nat) (hdef : cfg.defaultBroadcast = "255.255.255.255:60000") :
    ((route cfg serial).1.toString, (route cfg serial).2) = Spec.Api.route cfg serial := by
  unfold route Spec.Api.route
  rw [hdef]
  cases cfg.controllers.find? (·.serial == serial) with
  | none => rfl
  | some c =>
    simp only
    by_cases h1 : c.addrValid = true <;> by_cases h2 : c.addrUnspecified = true <;> by_cases h3 : c.tcp = true <;>
      simp [h1, h2, h3, Path.toString]

/-- the three cases spelled out -/
theorem C06_unconfigured_broadcasts (cfg : Cfg) (serial : Nat)
    (h : cfg.controllers.find? (·.serial == serial) = none) :
    (route cfg serial).1 = .broadcastTo ∧
    (route cfg serial).2 = (if cfg.broadcastValid then cfg.broadcast else cfg.defaultBroadcast) := by
  simp [route, h]

theorem C06_unusable_address_broadcasts (cfg : Cfg) (serial : Nat) (c : Controller)
    (h : cfg.controllers.find? (·.serial == serial) = some c) (hu : c.addrValid = false ∨ c.addrUnspecified = true) :
    (route cfg serial).1 = .broadcastTo := by
  rcases hu with hu | hu <;> simp [route, h, hu]

theorem C06_usable_address_directed (cfg : Cfg) (serial : Nat) (c : Controller)
    (h : cfg.controllers.find? (·.serial == serial) = some c) (h1 : c.addrValid = true) (h2 : c.addrUnspecified = false) :
    route cfg serial = (if c.tcp then .tcp else .udp, c.endpoint) := by
  by_cases h3 : c.tcp = true <;> simp [route, h, h1, h2, h3]

/-- exactly one request leaves per call and it goes where the routing table says -/
theorem C06_one_request (F : CodecFacts) (T : BCD.Tables) (B : HHmmBounds) (layouts : String → Option Layout)
    (code : Nat) (cfg : Cfg) (op : Op) (args : List Arg) (arrivals : List Bytes) (L : Layout) (m : Bytes)
    (hacc : op.rejects args = false) (hL : layouts op.request = some L)
    (hm : marshal F T L (op.build args) = .ok m) :
    (call F T B layouts code cfg op args arrivals).1.calls =
      [⟨(route cfg (u32? (arg args 0))).1.toString, (route cfg (u32? (arg args 0))).2, m⟩] := by
  simp only [call, hacc, hL, hm, Bool.false_eq_true, if_false]
  repeat' split
  all_goals simp

/-! non-vacuity -/
def exampleCfg : Cfg :=
  { controllers := [⟨405419896, "alpha", 60000, true, false, "192.168.1.100:60000", true⟩,
                    ⟨303986753, "beta", 0, false, false, "-", false⟩],
    broadcastValid := false, broadcast := "", broadcastPort := 0, defaultBroadcast := "255.255.255.255:60000" }
example : route exampleCfg 405419896 = (.tcp, "192.168.1.100:60000") := by decide
example : route exampleCfg 303986753 = (.broadcastTo, "255.255.255.255:60000") := by decide
example : route exampleCfg 1 = (.broadcastTo, "255.255.255.255:60000") := by decide

/-- T5 obligation, "from the configured bind address": every request method derives the local address of
    its socket from the configured bind address, falls back to the wildcard address only when none is
    configured (`bind == nil`), and opens its socket on it (UDP: `net.ListenUDP("udp", bind)`; the dialers:
    `LocalAddr: bind`) -/
theorem C06_bind_address : Gen.Driver.bindFacts = [
    ("Broadcast", ["net.UDPAddrFromAddrPort(u.bindAddr)", "bind == nil", "bind"]),
    ("BroadcastTo", ["net.UDPAddrFromAddrPort(u.bindAddr)", "bind == nil", "bind"]),
    ("SendUDP", ["net.UDPAddrFromAddrPort(u.bindAddr)", "bind == nil", "bind"]),
    ("SendTCP", ["net.TCPAddrFromAddrPort(u.bindAddr)", "bind == nil", "bind"])] := by decide

end Uhppote.Props.C06
