import Uhppote.Spec.Codec
import Uhppote.Spec.Protocol
import Uhppote.Model.Api
/-! Specification of the 32 request-issuing operations (C01 C02 C03 C06 C07), keyed by protocol
    field NAMES over the protocol tables of `Spec.Protocol`: which argument travels in which named
    field, when a call must be rejected, which datagram may be accepted, how a reply is read.
    Shares only vocabulary (`Arg`, `Res`, `Val`) with the model. -/
namespace Uhppote.Spec.Api
open Uhppote Uhppote.Model Uhppote.Model.Api Uhppote.Spec.Codec

abbrev Fields := List (String × Val)

def get (fs : Fields) (n : String) : Val := (fs.lookup n).getD .none_

structure OpSpec where
  name : String
  code : Nat
  request : String
  reply : Option String
  rejects : List Arg → Bool
  fields : List Arg → Fields                       -- request fields by name (MsgType is the tag's)
  interpret : List Arg → Fields → Res              -- reply fields by name ↦ result

def a (xs : List Arg) (i : Nat) : Arg := xs.getD i .absent
def n32 (x : Arg) : Nat := match x with | .v (.u32 n) => n | _ => 0
def n8 (x : Arg) : Nat := match x with | .v (.u8 n) => n.toNat | _ => 0
def valOr (x : Arg) (d : Val) : Val := match x with | .v y => y | _ => d
def boolOr (x : Arg) : Val := match x with | .v (.bool b) => .bool b | _ => .bool false
def u8Or (x : Arg) : Val := match x with | .v (.u8 b) => .u8 b | _ => .u8 0
def low8 (x : Arg) : Val := match x with | .int n => .u8 (UInt8.ofNat (n % 256).toNat) | .v (.u8 n) => .u8 n | _ => .u8 0
def serial (xs : List Arg) : Val := .u32 (n32 (a xs 0))
def noId (xs : List Arg) : Bool := n32 (a xs 0) == 0
def magic : Val := .u32 0x55aaaa55

/-- Wiegand-26: facility code 0..255 followed by a five-digit number 0..65535 -/
def wiegand26 (n : Nat) : Bool := n / 100000 ≤ 255 && n % 100000 ≤ 65535

def formatsOk (card : Nat) (formats : List Nat) : Bool :=
  formats.isEmpty || formats.any fun f => (f == 0) || (f == 1 && wiegand26 card)

def isIPv4 (x : Arg) : Bool := match x with
  | .v (.ip bs) => bs.length == 4 || (bs.length == 16 && bs.take 12 == [0, 0, 0, 0, 0, 0, 0, 0, 0, 0, 0xff, 0xff])
  | _ => false

def segBad (x : Arg) : Bool := match x with
  | .seg (some (s, e)) => decide (e.h < s.h ∨ (e.h = s.h ∧ e.m < s.m))     -- ends before it starts
  | _ => true                                                               -- missing
def segS (x : Arg) : Val := match x with | .seg (some (s, _)) => .hhmm s | _ => .hhmm ⟨0, 0⟩
def segE (x : Arg) : Val := match x with | .seg (some (_, e)) => .hhmm e | _ => .hhmm ⟨0, 0⟩
def isZeroDate (x : Arg) : Bool := match x with | .v (.date (some _)) => false | _ => true

def code4 (ps : List Nat) (i : Nat) : Val :=
  match ps[i]? with | some p => .u32 (if p ≤ 999999 then p else 0) | none => .u32 0

def succeeded (fs : Fields) : Res := .vals [get fs "Succeeded"]

def card (fs : Fields) : Res :=
  .vals [get fs "CardNumber", get fs "From", get fs "To", get fs "Door1", get fs "Door2", get fs "Door3",
         get fs "Door4", get fs "PIN"]

def hmVal : Val → Val | .hhmmPtr (some t) => .hhmm t | _ => .hhmm ⟨0, 0⟩

def status (fs : Fields) : Res :=
  let sys : Val := match get fs "SystemDate", get fs "SystemTime" with
    | .sysDate (some d), .sysTime t => .dateTime (some ⟨d.y, d.m, d.d, t.h, t.m, t.s⟩)
    | _, _ => .dateTime none
  let ev : List Val := match get fs "EventIndex" with
    | .u32 0 => [.u32 0, .u8 0, .bool false, .u8 0, .u8 0, .u32 0, .dateTime none, .u8 0]     -- no event
    | _ => [get fs "EventIndex", get fs "EventType", get fs "Granted", get fs "Door", get fs "Direction",
            get fs "CardNumber", get fs "Timestamp", get fs "Reason"]
  .vals ([get fs "SerialNumber", get fs "Door1State", get fs "Door2State", get fs "Door3State", get fs "Door4State",
          get fs "Door1Button", get fs "Door2Button", get fs "Door3Button", get fs "Door4Button",
          get fs "SystemError", sys, get fs "SequenceId", get fs "SpecialInfo", get fs "RelayState",
          get fs "InputState"] ++ ev)

def simple (name : String) (code : Nat) (req rep : String) : OpSpec :=
  { name := name, code := code, request := req, reply := some rep, rejects := noId,
    fields := fun xs => [("SerialNumber", serial xs)], interpret := fun _ fs => succeeded fs }

def weekdays (xs : List Arg) (i : Nat) : Fields :=
  [("Monday", boolOr (a xs i)), ("Tuesday", boolOr (a xs (i+1))), ("Wednesday", boolOr (a xs (i+2))),
   ("Thursday", boolOr (a xs (i+3))), ("Friday", boolOr (a xs (i+4))), ("Saturday", boolOr (a xs (i+5))),
   ("Sunday", boolOr (a xs (i+6)))]

def ops : List OpSpec := [
  { simple "GetDevice" 0x94 "GetDeviceRequest" "GetDeviceResponse" with
    interpret := fun _ fs => .vals [get fs "SerialNumber", get fs "IpAddress", get fs "SubnetMask", get fs "Gateway",
                                    get fs "MacAddress", get fs "Version", get fs "Date"] },
  { name := "SetAddress", code := 0x96, request := "SetAddressRequest", reply := none,
    rejects := fun xs => noId xs || !isIPv4 (a xs 1) || !isIPv4 (a xs 2) || !isIPv4 (a xs 3),
    fields := fun xs => [("SerialNumber", serial xs), ("Address", valOr (a xs 1) .none_), ("Mask", valOr (a xs 2) .none_),
                         ("Gateway", valOr (a xs 3) .none_), ("MagicWord", magic)],
    interpret := fun xs _ => .vals [serial xs, .bool true] },
  { simple "GetListener" 0x92 "GetListenerRequest" "GetListenerResponse" with
    interpret := fun _ fs => .vals [get fs "AddrPort", get fs "Interval"] },
  { name := "SetListener", code := 0x90, request := "SetListenerRequest", reply := some "SetListenerResponse",
    rejects := fun xs => noId xs || (match a xs 1 with
      | .v (.addrPort (.v4 x y z w p)) => !((x == 0 && y == 0 && z == 0 && w == 0 && p == 0) || p != 0)
      | _ => true),
    fields := fun xs => [("SerialNumber", serial xs), ("AddrPort", valOr (a xs 1) .none_), ("Interval", u8Or (a xs 2))],
    interpret := fun _ fs => succeeded fs },
  { simple "GetTime" 0x32 "GetTimeRequest" "GetTimeResponse" with
    interpret := fun _ fs => .vals [get fs "SerialNumber", get fs "DateTime"] },
  { simple "SetTime" 0x30 "SetTimeRequest" "SetTimeResponse" with
    fields := fun xs => [("SerialNumber", serial xs), ("DateTime", valOr (a xs 1) .none_)],
    interpret := fun _ fs => .vals [get fs "SerialNumber", get fs "DateTime"] },
  { simple "GetDoorControlState" 0x82 "GetDoorControlStateRequest" "GetDoorControlStateResponse" with
    fields := fun xs => [("SerialNumber", serial xs), ("Door", u8Or (a xs 1))],
    interpret := fun _ fs => .vals [get fs "SerialNumber", get fs "Door", get fs "ControlState", get fs "Delay"] },
  { simple "SetDoorControlState" 0x80 "SetDoorControlStateRequest" "SetDoorControlStateResponse" with
    fields := fun xs => [("SerialNumber", serial xs), ("Door", u8Or (a xs 1)), ("ControlState", low8 (a xs 2)), ("Delay", u8Or (a xs 3))],
    interpret := fun _ fs => .vals [get fs "SerialNumber", get fs "Door", get fs "ControlState", get fs "Delay"] },
  { simple "GetStatus" 0x20 "GetStatusRequest" "GetStatusResponse" with interpret := fun _ fs => status fs },
  { simple "GetCards" 0x58 "GetCardsRequest" "GetCardsResponse" with interpret := fun _ fs => .vals [get fs "Records"] },
  { simple "GetCardByIndex" 0x5c "GetCardByIndexRequest" "GetCardByIndexResponse" with
    fields := fun xs => [("SerialNumber", serial xs), ("Index", valOr (a xs 1) .none_)],
    interpret := fun _ fs => match get fs "CardNumber" with
      | .u32 n => if n = 0 ∨ n = 0xffffffff then .nil else card fs      -- 0: not found, 0xffffffff: deleted
      | _ => .err },
  { simple "GetCardByID" 0x5a "GetCardByIDRequest" "GetCardByIDResponse" with
    fields := fun xs => [("SerialNumber", serial xs), ("CardNumber", valOr (a xs 1) .none_)],
    interpret := fun xs fs => match get fs "CardNumber" with
      | .u32 n => if n = 0 then .nil else if n ≠ n32 (a xs 1) then .err else card fs
      | _ => .err },
  { name := "PutCard", code := 0x50, request := "PutCardRequest", reply := some "PutCardResponse",
    rejects := fun xs =>
      let c := n32 (a xs 1)
      noId xs || c == 0 || c == 0xffffffff || c == 0x00ffffff ||
      !formatsOk c (match a xs 9 with | .list fs => fs | _ => []) || n32 (a xs 8) > 999999,
    fields := fun xs => [("SerialNumber", serial xs), ("CardNumber", valOr (a xs 1) .none_), ("From", valOr (a xs 2) .none_),
      ("To", valOr (a xs 3) .none_), ("Door1", u8Or (a xs 4)), ("Door2", u8Or (a xs 5)), ("Door3", u8Or (a xs 6)),
      ("Door4", u8Or (a xs 7)), ("PIN", valOr (a xs 8) .none_)],
    interpret := fun _ fs => succeeded fs },
  { simple "DeleteCard" 0x52 "DeleteCardRequest" "DeleteCardResponse" with
    fields := fun xs => [("SerialNumber", serial xs), ("CardNumber", valOr (a xs 1) .none_)] },
  { simple "DeleteCards" 0x54 "DeleteCardsRequest" "DeleteCardsResponse" with
    fields := fun xs => [("SerialNumber", serial xs), ("MagicWord", magic)] },
  { simple "GetTimeProfile" 0x98 "GetTimeProfileRequest" "GetTimeProfileResponse" with
    fields := fun xs => [("SerialNumber", serial xs), ("ProfileID", u8Or (a xs 1))],
    interpret := fun xs fs => match get fs "ProfileID" with
      | .u8 n =>
        if n = 0 then .nil                                              -- no such profile
        else if n.toNat ≠ n8 (a xs 1) then .err                         -- echoed id differs
        else .vals ([.u8 n, get fs "LinkedProfileID", get fs "From", get fs "To", get fs "Monday", get fs "Tuesday",
          get fs "Wednesday", get fs "Thursday", get fs "Friday", get fs "Saturday", get fs "Sunday",
          hmVal (get fs "Segment1Start"), hmVal (get fs "Segment1End"), hmVal (get fs "Segment2Start"),
          hmVal (get fs "Segment2End"), hmVal (get fs "Segment3Start"), hmVal (get fs "Segment3End")])
      | _ => .err },
  { name := "SetTimeProfile", code := 0x88, request := "SetTimeProfileRequest", reply := some "SetTimeProfileResponse",
    rejects := fun xs => noId xs || isZeroDate (a xs 3) || isZeroDate (a xs 4) || segBad (a xs 12) || segBad (a xs 13) || segBad (a xs 14),
    fields := fun xs => [("SerialNumber", serial xs), ("ProfileID", u8Or (a xs 1)), ("LinkedProfileID", u8Or (a xs 2)),
      ("From", valOr (a xs 3) .none_), ("To", valOr (a xs 4) .none_)] ++ weekdays xs 5 ++
      [("Segment1Start", segS (a xs 12)), ("Segment1End", segE (a xs 12)), ("Segment2Start", segS (a xs 13)),
       ("Segment2End", segE (a xs 13)), ("Segment3Start", segS (a xs 14)), ("Segment3End", segE (a xs 14))],
    interpret := fun _ fs => succeeded fs },
  { simple "ClearTimeProfiles" 0x8a "ClearTimeProfilesRequest" "ClearTimeProfilesResponse" with
    fields := fun xs => [("SerialNumber", serial xs), ("MagicWord", magic)] },
  { simple "ClearTaskList" 0xa6 "ClearTaskListRequest" "ClearTaskListResponse" with
    fields := fun xs => [("SerialNumber", serial xs), ("MagicWord", magic)] },
  { simple "AddTask" 0xa8 "AddTaskRequest" "AddTaskResponse" with
    fields := fun xs => [("SerialNumber", serial xs), ("Task", low8 (a xs 1)), ("Door", u8Or (a xs 2)),
      ("From", valOr (a xs 3) .none_), ("To", valOr (a xs 4) .none_)] ++ weekdays xs 5 ++
      [("Start", valOr (a xs 12) .none_), ("MoreCards", u8Or (a xs 13))] },
  { simple "RefreshTaskList" 0xac "RefreshTaskListRequest" "RefreshTaskListResponse" with
    fields := fun xs => [("SerialNumber", serial xs), ("MagicWord", magic)],
    interpret := fun _ fs => .vals [get fs "Refreshed"] },
  { simple "RecordSpecialEvents" 0x8e "RecordSpecialEventsRequest" "RecordSpecialEventsResponse" with
    fields := fun xs => [("SerialNumber", serial xs), ("Enable", boolOr (a xs 1))] },
  { simple "GetEvent" 0xb0 "GetEventRequest" "GetEventResponse" with
    fields := fun xs => [("SerialNumber", serial xs), ("Index", valOr (a xs 1) .none_)],
    interpret := fun _ fs => match get fs "Type", get fs "Index" with
      | .u8 t, .u32 ix =>
        if t = 0xff then .err                                          -- overwritten
        else if ix = 0 then .nil                                       -- no event
        else .vals [get fs "SerialNumber", .u32 ix, .u8 t, get fs "Granted", get fs "Door", get fs "Direction",
                    get fs "CardNumber", get fs "Timestamp", get fs "Reason"]
      | _, _ => .err },
  { simple "GetEventIndex" 0xb4 "GetEventIndexRequest" "GetEventIndexResponse" with
    interpret := fun _ fs => .vals [get fs "SerialNumber", get fs "Index"] },
  { simple "SetEventIndex" 0xb2 "SetEventIndexRequest" "SetEventIndexResponse" with
    fields := fun xs => [("SerialNumber", serial xs), ("Index", valOr (a xs 1) .none_), ("MagicWord", magic)],
    interpret := fun xs fs => .vals [get fs "SerialNumber", valOr (a xs 1) .none_, get fs "Changed"] },
  { name := "SetDoorPasscodes", code := 0x8c, request := "SetDoorPasscodesRequest", reply := some "SetDoorPasscodesResponse",
    rejects := fun xs => noId xs || n8 (a xs 1) < 1 || n8 (a xs 1) > 4,
    fields := fun xs =>
      let ps := match a xs 2 with | .list ps => ps | _ => []
      [("SerialNumber", serial xs), ("Door", u8Or (a xs 1)), ("Passcode1", code4 ps 0), ("Passcode2", code4 ps 1),
       ("Passcode3", code4 ps 2), ("Passcode4", code4 ps 3)],
    interpret := fun _ fs => succeeded fs },
  { simple "OpenDoor" 0x40 "OpenDoorRequest" "OpenDoorResponse" with
    fields := fun xs => [("SerialNumber", serial xs), ("Door", u8Or (a xs 1))],
    interpret := fun _ fs => .vals [get fs "SerialNumber", get fs "Succeeded"] },
  { simple "SetPCControl" 0xa0 "SetPCControlRequest" "SetPCControlResponse" with
    fields := fun xs => [("SerialNumber", serial xs), ("MagicWord", magic), ("Enable", boolOr (a xs 1))] },
  { simple "SetInterlock" 0xa2 "SetInterlockRequest" "SetInterlockResponse" with
    fields := fun xs => [("SerialNumber", serial xs), ("Interlock", u8Or (a xs 1))] },
  { simple "ActivateKeypads" 0xa4 "ActivateAccessKeypadsRequest" "ActivateAccessKeypadsResponse" with
    fields := fun xs => [("SerialNumber", serial xs), ("Reader1", boolOr (a xs 1)), ("Reader2", boolOr (a xs 2)),
                         ("Reader3", boolOr (a xs 3)), ("Reader4", boolOr (a xs 4))] },
  { simple "RestoreDefaultParameters" 0xc8 "RestoreDefaultParametersRequest" "RestoreDefaultParametersResponse" with
    fields := fun xs => [("SerialNumber", serial xs), ("MagicWord", magic)] }
]

def findOp (name : String) : Option OpSpec := ops.find? (·.name == name)

/-- values of a layout's leaves from name-keyed fields (the MsgType / SOM value comes from the tag) -/
def valsByName (L : Layout) (fs : Fields) : List Val :=
  (L.names.zip L.leaves).map fun (n, l) => match l with
    | .msgType _ | .som _ => .u8 0
    | _ => get fs n

/-- C01: THE request image of an accepted call -/
def requestImage (op : OpSpec) (args : List Arg) : Option Bytes :=
  (Spec.Protocol.all.lookup op.request).bind fun L => image L.leaves (valsByName L (op.fields args))

/-! ### C06: routing table -/

def route (cfg : Cfg) (serial : Nat) : String × String :=
  let bc := if cfg.broadcastValid then cfg.broadcast else "255.255.255.255:60000"
  match cfg.controllers.find? (·.serial == serial) with
  | some c => if c.addrValid && !c.addrUnspecified then (if c.tcp then "tcp" else "udp", c.endpoint) else ("broadcast-to", bc)
  | none => ("broadcast-to", bc)

/-! ### C03: which datagram decides, C02: how it is read -/

def wellFormedHeader (code : Nat) (d : Bytes) : Bool :=
  d.length == 64 && ((d.getD 0 0 == 0x17) || (d.getD 0 0 == 0x19 && code == 0x20 && d.getD 1 0 == 0x20)) &&
  (d.getD 1 0).toNat == code

def serialOf (d : Bytes) : Nat :=
  (d.getD 4 0).toNat + 256 * (d.getD 5 0).toNat + 65536 * (d.getD 6 0).toNat + 16777216 * (d.getD 7 0).toNat

inductive Decision where
  | none_                 -- no datagram may be consulted (SetAddress): success without a reply
  | timeout               -- nothing acceptable arrived: the call must fail
  | fail                  -- a datagram that passes as S's (or, directed, any first datagram) is unacceptable: fail
  | read (d : Bytes)      -- this datagram decides
deriving Repr

def decide (path : String) (code serial : Nat) (arrivals : List Bytes) : Decision :=
  if code = 0x96 then .none_
  else
    let cand : Option Bytes :=
      if path = "broadcast-to" then arrivals.find? (fun d => d.length == 64 && serialOf d == serial)
      else arrivals.head?
    match cand with
    | none => .timeout
    | some d => if d.length == 64 && serialOf d == serial && wellFormedHeader code d then .read d else .fail

end Uhppote.Spec.Api
