/-! Specification for C16: strict lexicographic order on civil fields. -/
namespace Uhppote.Spec.Order

def lex3 (a b : Int × Int × Int) : Prop :=
  a.1 < b.1 ∨ (a.1 = b.1 ∧ (a.2.1 < b.2.1 ∨ (a.2.1 = b.2.1 ∧ a.2.2 < b.2.2)))

def lex2 (a b : Int × Int) : Prop := a.1 < b.1 ∨ (a.1 = b.1 ∧ a.2 < b.2)

instance (a b : Int × Int × Int) : Decidable (lex3 a b) := by unfold lex3; infer_instance
instance (a b : Int × Int) : Decidable (lex2 a b) := by unfold lex2; infer_instance

/-- whole-second timestamp (floor of milliseconds / 1000) -/
def wholeSeconds (ms : Int) : Int := ms / 1000

end Uhppote.Spec.Order
