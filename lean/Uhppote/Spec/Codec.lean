import Uhppote.Model.Codec
/-! Specification of the UT0311-L0x field encodings and of what a tag-declared layout means
    (C01 C02 C05 C18). Declarative and arithmetic: little-endian by div/mod, BCD as two decimal
    digits per byte, an image defined byte position by byte position. Shares only the vocabulary
    (`Kind`, `Val`, `Leaf`) with the model. -/
namespace Uhppote.Spec.Codec
open Uhppote Uhppote.Model

/-- two decimal digits in one byte -/
def bcd2 (n : Nat) : UInt8 := UInt8.ofNat (n / 10 % 10 * 16 + n % 10)

def nibblesOk (b : UInt8) : Bool := b.toNat / 16 ≤ 9 && b.toNat % 16 ≤ 9
def unbcd2 (b : UInt8) : Nat := b.toNat / 16 * 10 + b.toNat % 16

def validDate (d : YMD) : Bool := 1 ≤ d.m && d.m ≤ 12 && 1 ≤ d.d && d.d ≤ daysIn d.y d.m

/-- in-domain calendar dates: 0001-01-02 .. 9999-12-31 -/
def dateInDomain (d : YMD) : Bool :=
  validDate d && 1 ≤ d.y && d.y ≤ 9999 && !(d.y == 1 && d.m == 1 && d.d == 1)

def dateTimeInDomain (d : YMDHMS) : Bool :=
  validDate ⟨d.y, d.mo, d.d⟩ && 1 ≤ d.y && d.y ≤ 9999 && d.h < 24 && d.mi < 60 && d.s < 60 &&
  !(d.y == 1 && d.mo == 1 && d.d == 1 && d.h == 0 && d.mi == 0 && d.s == 0)

def hhmmInDomain (t : HM) : Bool := 0 ≤ t.h && t.h ≤ 24 && 0 ≤ t.m && t.m ≤ 59 && (t.h != 24 || t.m == 0)

def bcdDate (d : YMD) : Bytes := [bcd2 (d.y / 100), bcd2 (d.y % 100), bcd2 d.m, bcd2 d.d]
def bcdDateTime (d : YMDHMS) : Bytes :=
  [bcd2 (d.y / 100), bcd2 (d.y % 100), bcd2 d.mo, bcd2 d.d, bcd2 d.h, bcd2 d.mi, bcd2 d.s]

/-- wire bytes of an in-domain value (`none` = the value is outside the domain of its kind, the
    property says nothing about it) -/
def wire : Kind → Val → Option Bytes
  | .u8, .u8 v => some [v]
  | .u16, .u16 v => if v < 65536 then some [UInt8.ofNat (v % 256), UInt8.ofNat (v / 256)] else none
  | .u32, .u32 v | .serial, .u32 v =>
    if v < 4294967296 then
      some [UInt8.ofNat (v % 256), UInt8.ofNat (v / 256 % 256), UInt8.ofNat (v / 65536 % 256), UInt8.ofNat (v / 16777216)]
    else none
  | .bool, .bool b => some [if b then 1 else 0]
  | .ipv4, .ip bs =>
    if bs.length = 4 then some bs
    else if bs.length = 16 ∧ bs.take 12 = [0, 0, 0, 0, 0, 0, 0, 0, 0, 0, 0xff, 0xff] then some (bs.drop 12)
    else none
  | .addrPort, .addrPort (.v4 a b c d p) =>
    if p < 65536 then some [a, b, c, d, UInt8.ofNat (p % 256), UInt8.ofNat (p / 256)] else none
  | .mac, .mac bs | .macAddress, .mac bs => if bs.length = 6 then some bs else none
  | .datePtr, .datePtr none | .dateTimePtr, .dateTimePtr none | .hhmmPtr, .hhmmPtr none =>
    some []                                     -- a nil pointer contributes no bytes: its range stays zero
  | .date, .date none | .datePtr, .datePtr (some none) => some [0, 0, 0, 0]
  | .date, .date (some d) | .datePtr, .datePtr (some (some d)) =>
    if dateInDomain d then some (bcdDate d) else none
  | .dateTime, .dateTime none | .dateTimePtr, .dateTimePtr (some none) =>
    some [0x00, 0x01, 0x01, 0x01, 0, 0, 0]           -- the zero instant is 0001-01-01 00:00:00
  | .dateTime, .dateTime (some d) | .dateTimePtr, .dateTimePtr (some (some d)) =>
    if dateTimeInDomain d then some (bcdDateTime d) else none
  | .sysDate, .sysDate (some d) =>
    if validDate d && 1969 ≤ d.y && d.y ≤ 2068 then some [bcd2 (d.y % 100), bcd2 d.m, bcd2 d.d] else none
  | .sysTime, .sysTime t =>
    if t.h < 24 && t.m < 60 && t.s < 60 then some [bcd2 t.h, bcd2 t.m, bcd2 t.s] else none
  | .hhmm, .hhmm t | .hhmmPtr, .hhmmPtr (some t) =>
    if hhmmInDomain t then some [bcd2 t.h.toNat, bcd2 t.m.toNat] else none
  | .pin, .u32 v =>
    if v ≤ 999999 then some [UInt8.ofNat (v % 256), UInt8.ofNat (v / 256 % 256), UInt8.ofNat (v / 65536)] else none
  | .version, .u16 v => if v < 65536 then some [UInt8.ofNat (v / 256), UInt8.ofNat (v % 256)] else none
  | _, _ => none

/-! ### layouts -/

/-- tag texts the property quantifies over: plain decimal without leading zero, or 0x / 0X hex -/
def tagValue (t : String) : Option Nat :=
  match t.toList with
  | '0' :: 'x' :: r | '0' :: 'X' :: r =>
    if r.isEmpty then none else (parseDigits 16 r 0).bind fun n => if n < 256 then some n else none
  | ['0'] => some 0
  | '0' :: _ => none
  | cs => if cs.isEmpty ∨ ¬ cs.all Char.isDigit then none
          else (parseDigits 10 cs 0).bind fun n => if n < 256 then some n else none

/-- the byte range a leaf owns: SOM owns byte 0, MsgType byte 1, an offset field its width -/
def extent : Leaf → Option (Nat × Nat)
  | .som _ => some (0, 1)
  | .msgType _ => some (1, 1)
  | .at off k _ => some (off, k.width)
  | .skip => none

def tagsOk : Leaf → Bool
  | .som (some t) | .msgType (some t) | .at _ .u8 (some t) => (tagValue t).isSome
  | _ => true                        -- a value tag on another kind is ignored by the codec

def rangesDisjoint : List (Nat × Nat) → Bool
  | [] => true
  | (o, w) :: r => r.all (fun (o', w') => o + w ≤ o' || o' + w' ≤ o) && rangesDisjoint r

def fieldsFrom2 : Leaf → Bool
  | .at off _ _ => 2 ≤ off
  | _ => true

/-- well-formed layout: every field at 2..63 and inside the 64 bytes, no two ranges overlapping
    (hence at most one SOM and one MsgType field), tags in the decimal / hex grammar -/
def wf (ls : List Leaf) : Bool :=
  let rs := ls.filterMap extent
  rs.all (fun (o, w) => o + w ≤ 64) && rangesDisjoint rs && ls.all tagsOk && ls.all fieldsFrom2

/-- the bytes a leaf contributes: (offset, bytes) -/
def leafWire : Leaf → Val → Option (Nat × Bytes)
  | .som (some t), _ => (tagValue t).map fun n => (0, [UInt8.ofNat n])
  | .som none, .u8 v => some (0, [v])
  | .msgType (some t), _ => (tagValue t).map fun n => (1, [UInt8.ofNat n])
  | .msgType none, .u8 v => some (1, [v])
  | .at off .u8 (some t), _ => (tagValue t).map fun n => (off, [UInt8.ofNat n])
  | .at off k _, v => (wire k v).map fun b => (off, b)
  | .skip, _ => some (0, [])
  | _, _ => none

/-- byte `i` of the image: the byte of the leaf covering position `i`, 0x17 at position 0 when no
    SOM field says otherwise, zero everywhere else -/
def imageByte (pieces : List (Nat × Bytes)) (i : Nat) : UInt8 :=
  match pieces.find? (fun (o, b) => o ≤ i && i < o + b.length) with
  | some (o, b) => b.getD (i - o) 0
  | none => if i = 0 then 0x17 else 0

def pieces : List Leaf → List Val → Option (List (Nat × Bytes))
  | [], [] => some []
  | l :: ls, v :: vs =>
    (match leafWire l v, pieces ls vs with
     | some p, some ps => some (p :: ps)
     | _, _ => none)
  | _, _ => none

def image (ls : List Leaf) (vs : List Val) : Option Bytes :=
  (pieces ls vs).map fun ps => (List.range 64).map (imageByte ps)

/-- confinement: a value outside its kind's domain (a MAC of 8 bytes, a PIN above 999999, an address that is not
    IPv4) is no concern of the image rule - but whatever the encoder makes of it stays inside that field: when bytes
    come back at all, every position outside the extents of the out-of-domain fields is what the image rule says
    (the other fields' bytes at their offsets, the protocol id, zero elsewhere) -/
def confined (ls : List Leaf) (vs : List Val) (out : Bytes) : Bool :=
  let pairs := ls.zip vs
  let good := pairs.filterMap fun (l, v) => leafWire l v
  let wild := pairs.filterMap fun (l, v) => match leafWire l v with | some _ => none | none => extent l
  out.length == 64 && (List.range 64).all fun i =>
    wild.any (fun (o, w) => o ≤ i && i < o + w) || out.getD i 0 == imageByte good i

/-! ### round trip (C05 / C18): what decoding the encoding of an in-domain value returns -/

/-- The value that comes back. It is the value itself except for the observational equalities
    of DESIGN §6: an IPv4 address comes back in Go's 16-byte form of the same address; a pointer
    to the zero ("no value") date / date-time comes back as the nil pointer, which is the other
    spelling of "no value"; a nil `*HHmm` — outside the domain, the statement names only the
    nil-tolerant date and time types — comes back as a pointer to 00:00. `none` = the value is
    outside the domain of its kind. -/
def back : Kind → Val → Option Val
  | .ipv4, .ip bs => (wire .ipv4 (.ip bs)).map fun b => .ip ([0, 0, 0, 0, 0, 0, 0, 0, 0, 0, 0xff, 0xff] ++ b)
  | .datePtr, .datePtr (some none) => some (.datePtr none)
  | .dateTimePtr, .dateTimePtr (some none) => some (.dateTimePtr none)
  | .hhmmPtr, .hhmmPtr none => some (.hhmmPtr (some ⟨0, 0⟩))
  | k, v => (wire k v).map fun _ => v

/-- per leaf: header fields read back as the byte their tag fixes (SOM is never read back: 0);
    an untagged MsgType field must be 0 to be accepted again -/
def backLeaf : Leaf → Val → Option Val
  | .skip, _ => some (.u32 0)
  | .som _, _ => some (.u8 0)
  | .msgType (some t), _ => (tagValue t).map fun n => .u8 (UInt8.ofNat n)
  | .msgType none, .u8 v => if v = 0 then some (.u8 0) else none
  | .msgType none, _ => none
  | .at _ .u8 (some t), _ => (tagValue t).map fun n => .u8 (UInt8.ofNat n)
  | .at _ k _, v => back k v

def backAll : List Leaf → List Val → Option (List Val)
  | [], [] => some []
  | l :: ls, v :: vs =>
    (match backLeaf l v, backAll ls vs with
     | some w, some ws => some (w :: ws)
     | _, _ => none)
  | _, _ => none

/-! ### decoding relation (C02 / C18): what a reader of a field may return -/

inductive Read where
  | exact (v : Val)               -- in-domain bytes: exactly this value
  | noValue (vs : List Val)       -- the "no value" sentinels: any of these spellings of "none"
  | invalid (zeros : List Val)    -- out of domain: the whole decode fails, or the field is one of these
  | mustFail                      -- fixed value mismatch: the whole decode must fail
deriving Repr

def readDate (b : Bytes) : Option (Option YMD) :=   -- none = out of domain; some none = no date
  if !(b.all nibblesOk) then none
  else match b with
    | [c, y, m, d] =>
      let v : YMD := ⟨unbcd2 c * 100 + unbcd2 y, unbcd2 m, unbcd2 d⟩
      if b = [0, 0, 0, 0] ∨ b = [0x00, 0x01, 0x01, 0x01] then some none
      else if validDate v then some (some v) else none
    | _ => none

def readDateTime (b : Bytes) : Option (Option YMDHMS) :=
  if !(b.all nibblesOk) then none
  else match b with
    | [c, y, mo, d, h, mi, s] =>
      let v : YMDHMS := ⟨unbcd2 c * 100 + unbcd2 y, unbcd2 mo, unbcd2 d, unbcd2 h, unbcd2 mi, unbcd2 s⟩
      if b = [0, 0, 0, 0, 0, 0, 0] ∨ b = [0x00, 0x01, 0x01, 0x01, 0, 0, 0] then some none
      else if validDate ⟨v.y, v.mo, v.d⟩ && v.h < 24 && v.mi < 60 && v.s < 60 then some (some v) else none
    | _ => none

def read (k : Kind) (tag : Option String) (b : Bytes) : Read :=
  match k, b with
  | .u8, [x] =>
    (match tag with
     | some t => (match tagValue t with
                  | some n => if x.toNat = n then .exact (.u8 x) else .mustFail
                  | none => .mustFail)
     | none => .exact (.u8 x))
  | .u16, [a, b] => .exact (.u16 (a.toNat + 256 * b.toNat))
  | .u32, [a, b, c, d] | .serial, [a, b, c, d] =>
    .exact (.u32 (a.toNat + 256 * b.toNat + 65536 * c.toNat + 16777216 * d.toNat))
  | .bool, [x] => if x = 1 then .exact (.bool true) else if x = 0 then .exact (.bool false) else .invalid []
  | .ipv4, [a, b, c, d] => .exact (.ip ([0, 0, 0, 0, 0, 0, 0, 0, 0, 0, 0xff, 0xff] ++ [a, b, c, d]))
  | .addrPort, [a, b, c, d, p0, p1] => .exact (.addrPort (.v4 a b c d (p0.toNat + 256 * p1.toNat)))
  | .mac, bs | .macAddress, bs => .exact (.mac bs)
  | .pin, [a, b, c] => .exact (.u32 (a.toNat + 256 * b.toNat + 65536 * c.toNat))
  | .version, [a, b] => .exact (.u16 (256 * a.toNat + b.toNat))
  | .date, bs =>
    (match readDate bs with
     | some (some d) => .exact (.date (some d))
     | some none => .exact (.date none)
     | none => if bs.all nibblesOk then .invalid [.date none] else .invalid [])   -- not even digits: malformed, fails
  | .datePtr, bs =>
    (match readDate bs with
     | some (some d) => .exact (.datePtr (some (some d)))
     | some none => .noValue [.datePtr none, .datePtr (some none)]
     | none => .invalid [.datePtr none, .datePtr (some none)])
  | .dateTime, bs =>
    (match readDateTime bs with
     | some (some d) => .exact (.dateTime (some d))
     | some none => .exact (.dateTime none)
     | none => if bs.all nibblesOk then .invalid [.dateTime none] else .invalid [])
  | .dateTimePtr, bs =>
    (match readDateTime bs with
     | some (some d) => .exact (.dateTimePtr (some (some d)))
     | some none => .noValue [.dateTimePtr none, .dateTimePtr (some none)]
     | none => .invalid [.dateTimePtr none, .dateTimePtr (some none)])
  | .sysDate, [y, m, d] =>
    if !([y, m, d].all nibblesOk) then .invalid [.sysDate none]
    else
      let yy := unbcd2 y
      let v : YMD := ⟨(if yy ≥ 69 then 1900 else 2000) + yy, unbcd2 m, unbcd2 d⟩
      if validDate v then .exact (.sysDate (some v)) else .invalid [.sysDate none]
  | .sysTime, [h, m, s] =>
    if [h, m, s].all nibblesOk && unbcd2 h < 24 && unbcd2 m < 60 && unbcd2 s < 60
    then .exact (.sysTime ⟨unbcd2 h, unbcd2 m, unbcd2 s⟩) else .invalid []   -- (00:00:00 is a time of day, not "no value")
  | .hhmm, [h, m] =>
    if [h, m].all nibblesOk && hhmmInDomain ⟨unbcd2 h, unbcd2 m⟩
    then .exact (.hhmm ⟨unbcd2 h, unbcd2 m⟩) else .invalid []                 -- (00:00 likewise)
  | .hhmmPtr, [h, m] =>
    if [h, m].all nibblesOk && hhmmInDomain ⟨unbcd2 h, unbcd2 m⟩
    then .exact (.hhmmPtr (some ⟨unbcd2 h, unbcd2 m⟩)) else .invalid [.hhmmPtr none]
  | _, _ => .mustFail

def readLeaf (bytes : Bytes) : Leaf → Read
  | .skip => .exact (.u32 0)
  | .som _ => .exact (.u8 0)                  -- the SOM field is written, never read back
  | .msgType tag =>
    (match tag with
     | some t => (match tagValue t with
                  | some n => if (bytes.getD 1 0).toNat = n then .exact (.u8 (bytes.getD 1 0)) else .mustFail
                  | none => .mustFail)
     | none => if bytes.getD 1 0 = 0 then .exact (.u8 0) else .mustFail)
  | .at off k tag => read k tag (readAt bytes off k.width)

inductive Result where
  | ok (vs : List Val)
  | err
  | panic
deriving Repr

def headerOk (bytes : Bytes) : Bool :=
  bytes.length == 64 && (bytes.getD 0 0 == 0x17 || (bytes.getD 0 0 == 0x19 && bytes.getD 1 0 == 0x20))

/-- the decoding relation for a well-formed layout -/
def acceptsUnmarshal (ls : List Leaf) (bytes : Bytes) (r : Result) : Bool :=
  match r with
  | .panic => false
  | .err =>
    -- an error is right unless every field is in its domain
    !headerOk bytes || (ls.any fun l => match readLeaf bytes l with | .exact _ | .noValue _ => false | _ => true)
  | .ok vs =>
    headerOk bytes && vs.length == ls.length &&
    (ls.zip vs).all fun (l, v) =>
      match readLeaf bytes l with
      | .exact x => v == x
      | .noValue xs => xs.contains v
      | .invalid zs => zs.contains v
      | .mustFail => false

/-- the encoding relation for a well-formed layout and in-domain values: exactly the image -/
def acceptsMarshal (ls : List Leaf) (vs : List Val) (r : Outcome Bytes) : Option Bool :=
  (image ls vs).map fun img => r == .ok img

end Uhppote.Spec.Codec
