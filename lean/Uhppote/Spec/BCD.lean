import Uhppote.Basic.Bytes
/-! Specification of packed BCD as the property C12 states it. -/
namespace Uhppote.Spec.BCD

def isDigit (b : UInt8) : Bool := 48 ≤ b.toNat && b.toNat ≤ 57

/-- left-pad with one '0' when the length is odd -/
def pad (s : Bytes) : Bytes := if s.length % 2 = 1 then 48 :: s else s

/-- two digits per byte, most significant first -/
def pack : Bytes → Bytes
  | a :: b :: r => UInt8.ofNat ((a.toNat - 48) * 16 + (b.toNat - 48)) :: pack r
  | _ => []

def encode (s : Bytes) : Option Bytes := if s.all isDigit then some (pack (pad s)) else none

def okByte (b : UInt8) : Bool := b.toNat / 16 ≤ 9 && b.toNat % 16 ≤ 9

def unpack : Bytes → Bytes
  | [] => []
  | b :: r => UInt8.ofNat (48 + b.toNat / 16) :: UInt8.ofNat (48 + b.toNat % 16) :: unpack r

def decode (bs : Bytes) : Option Bytes := if bs.all okByte then some (unpack bs) else none

end Uhppote.Spec.BCD
