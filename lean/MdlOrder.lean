import Uhppote.Driver.OrderModel
/-! `mdl_order`: the executable MODEL for the `order` family of streams only — it imports just the regenerated files
    that family needs, so a regenerated file that no longer compiles takes down only the streams that depend on it. -/
open Uhppote

def handlers : List (List String → Option String) := [Driver.OrderModel.model]

def handle (ts : List String) : String :=
  match handlers.findSome? (· ts) with
  | some s => s
  | none => "bad-op"

def main : IO Unit := do
  Driver.loop (← IO.getStdin) (← IO.getStdout) handle
