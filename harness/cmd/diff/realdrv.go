package main

import (
	"fmt"
	"io"
	"log"
	"net"
	"net/netip"
	"os"
	"strings"
	"sync"
	"time"

	"github.com/uhppoted/uhppote-core/types"
	"github.com/uhppoted/uhppote-core/uhppote"

	"verif/harness/internal/cases"
	"verif/harness/internal/fake"
	"verif/harness/internal/rng"
)

// The "wire" phase of the ops stream: the same `op …` lines, but the request goes through the REAL
// ut0311 driver to a controller stand-in on 127.0.0.1, and the request bytes reported are the ones
// the stand-in READ FROM ITS SOCKET - what the hooked in-memory driver of the other phases cannot
// see (a driver that edits the buffer between the API call and the write, with or without the
// debug flag). A pass-through wrapper around the real driver records which method was used and
// the address it was given.

type passThrough struct {
	inner uhppote.VerifDriver
	mu    sync.Mutex
	calls []fake.Call
}

func (p *passThrough) record(m, addr string) {
	p.mu.Lock()
	defer p.mu.Unlock()
	p.calls = append(p.calls, fake.Call{Method: m, Addr: addr})
}

func (p *passThrough) Broadcast(a *net.UDPAddr, req []byte) ([][]byte, error) {
	p.record("broadcast", a.String())
	return p.inner.Broadcast(a, req)
}

func (p *passThrough) BroadcastTo(a *net.UDPAddr, req []byte, cb func([]byte) bool) ([]byte, error) {
	p.record("broadcast-to", a.String())
	return p.inner.BroadcastTo(a, req, cb)
}

func (p *passThrough) SendUDP(a *net.UDPAddr, req []byte) ([]byte, error) {
	p.record("udp", a.String())
	return p.inner.SendUDP(a, req)
}

func (p *passThrough) SendTCP(a *net.TCPAddr, req []byte) ([]byte, error) {
	p.record("tcp", a.String())
	return p.inner.SendTCP(a, req)
}

func (p *passThrough) Listen(s chan any, c chan any, cb func([]byte)) error {
	p.record("listen", "")
	return p.inner.Listen(s, c, cb)
}

// standIn: a UDP socket and a TCP listener on the same loopback port; each answers every request
// with the scripted datagram (if any) and keeps what it read.
type standIn struct {
	port  uint16
	udp   *net.UDPConn
	tcp   *net.TCPListener
	mu    sync.Mutex
	got   [][]byte
	reply []byte
}

func newStandIn() *standIn {
	for port := 45123; port < 45623; port++ {
		ua := &net.UDPAddr{IP: net.IPv4(127, 0, 0, 1), Port: port}
		u, err := net.ListenUDP("udp4", ua)
		if err != nil {
			continue
		}
		t, err := net.ListenTCP("tcp4", &net.TCPAddr{IP: net.IPv4(127, 0, 0, 1), Port: port})
		if err != nil {
			u.Close()
			continue
		}
		s := &standIn{port: uint16(port), udp: u, tcp: t}
		go s.serveUDP()
		go s.serveTCP()
		return s
	}
	// every port of the preferred range is taken: let the kernel choose
	for {
		u, err := net.ListenUDP("udp4", &net.UDPAddr{IP: net.IPv4(127, 0, 0, 1)})
		if err != nil {
			continue
		}
		port := u.LocalAddr().(*net.UDPAddr).Port
		t, err := net.ListenTCP("tcp4", &net.TCPAddr{IP: net.IPv4(127, 0, 0, 1), Port: port})
		if err != nil {
			u.Close()
			continue
		}
		s := &standIn{port: uint16(port), udp: u, tcp: t}
		go s.serveUDP()
		go s.serveTCP()
		return s
	}
}

func (s *standIn) script(reply []byte) {
	s.mu.Lock()
	defer s.mu.Unlock()
	s.got = nil
	s.reply = reply
}

func (s *standIn) take(b []byte) []byte {
	s.mu.Lock()
	defer s.mu.Unlock()
	s.got = append(s.got, append([]byte{}, b...))
	return s.reply
}

func (s *standIn) received() [][]byte {
	s.mu.Lock()
	defer s.mu.Unlock()
	return append([][]byte{}, s.got...)
}

func (s *standIn) serveUDP() {
	buf := make([]byte, 2048)
	for {
		n, from, err := s.udp.ReadFromUDP(buf)
		if err != nil {
			return
		}
		if reply := s.take(buf[:n]); reply != nil {
			s.udp.WriteToUDP(reply, from)
		}
	}
}

func (s *standIn) serveTCP() {
	for {
		conn, err := s.tcp.AcceptTCP()
		if err != nil {
			return
		}
		go func() {
			defer conn.Close()
			buf := make([]byte, 2048)
			conn.SetDeadline(time.Now().Add(5 * time.Second))
			n, err := conn.Read(buf)
			if err != nil {
				return
			}
			if reply := s.take(buf[:n]); reply != nil {
				conn.Write(reply)
			} else {
				io.Copy(io.Discard, conn) // silent controller: hold the connection until the client gives up
			}
		}()
	}
}

func (s *standIn) close() {
	s.udp.Close()
	s.tcp.Close()
}

// echoAdjust makes a reply that echoes an argument (profile id, card number) match the request
func echoAdjust(op string, argToks []string, arrivals [][]byte) {
	if len(argToks) == 0 {
		return
	}
	var n uint64
	switch op {
	case "GetTimeProfile":
		if _, err := fmt.Sscanf(argToks[0], "u8:%d", &n); err == nil && n != 0 {
			for _, a := range arrivals {
				if len(a) == 64 && a[1] == 0x98 {
					a[8] = byte(n)
				}
			}
		}
	case "GetCardByID":
		if _, err := fmt.Sscanf(argToks[0], "u32:%d", &n); err == nil && n != 0 {
			for _, a := range arrivals {
				if len(a) == 64 && a[1] == 0x5a {
					a[8], a[9], a[10], a[11] = byte(n), byte(n>>8), byte(n>>16), byte(n>>24)
				}
			}
		}
	}
}

func wirePhase(c *ctx, n int) {
	r := c.r
	s := newStandIn()
	defer s.close()

	// the debug flag makes the library print every message: keep that off the terminal
	stdout := os.Stdout
	if devnull, err := os.OpenFile(os.DevNull, os.O_WRONLY, 0); err == nil {
		os.Stdout = devnull
		defer func() { os.Stdout = stdout; devnull.Close() }()
	}
	logw := log.Writer()
	log.SetOutput(io.Discard)
	defer log.SetOutput(logw)

	here := netip.AddrFrom4([4]byte{127, 0, 0, 1})
	// after the sweep, runs of six calls share ONE client (a history on the real driver: what a failed or unanswered
	// call leaves behind must not show in the next one)
	var keepU uhppote.IUHPPOTE
	var keepPT *passThrough
	var keepG cfgGen
	var keepDev uint32
	var keepMode string
	var keepDebug bool
	for i := 0; i < n; i++ {
		op := opDefs[r.Intn(len(opDefs))]
		dev := rng.Pick(r, uint32(405419896), 303986753, 1, 0xff000000, 0xffffffff, r.U32())
		if dev == 0 {
			dev = 1
		}
		g := cfgGen{}
		mode := rng.Pick(r, "broadcast", "udp", "tcp")
		sweep := i < 6*len(opDefs) // every operation x every path x debug flag on / off at least once
		if sweep {
			mode = []string{"broadcast", "udp", "tcp"}[(i/len(opDefs))%3]
		}
		reuse := !sweep && (i-6*len(opDefs))%6 != 0 && keepU != nil
		if reuse {
			dev, mode = keepDev, keepMode
		}
		switch mode {
		case "broadcast":
			g.broadcast = types.BroadcastAddrFrom(here, s.port)
			g.toks = append(g.toks, fmt.Sprintf("bc=127.0.0.1:%d", s.port))
			if r.Bool() { // configured without an address: still the broadcast path
				g.devices = append(g.devices, uhppote.Device{Name: "alpha", DeviceID: dev, Protocol: "udp"})
				g.toks = append(g.toks, fmt.Sprintf("dev=%d;alpha;-;udp", dev))
			}
		default:
			g.toks = append(g.toks, "bc=-")
			g.devices = append(g.devices, uhppote.Device{Name: "beta", DeviceID: dev, Address: types.ControllerAddrFrom(here, s.port), Protocol: mode})
			g.toks = append(g.toks, fmt.Sprintf("dev=%d;beta;127.0.0.1:%d;%s", dev, s.port, mode))
		}
		debug := r.Bool()
		if reuse {
			g, debug = keepG, keepDebug
		}
		// the timeout is generous (a loaded machine must not turn an answered call into a failed one), so only a
		// few calls go unanswered
		focus := rng.Pick(r, "valid", "valid", "valid", "valid", "valid", "valid", "mutated", "mutated")
		if i%250 == 249 {
			focus = "silence"
		}
		if sweep {
			op = opDefs[i%len(opDefs)]
			debug = i < 3*len(opDefs)
			focus = "valid"
		}
		arrivals, cls := genArrivals(r, op, dev, focus)
		if len(arrivals) > 1 {
			arrivals = arrivals[:1]
		}
		// arguments the library does not reject (most of the time): a dry run on the in-memory driver tells
		argToks, invoke := op.gen(r, dev, false)
		for try := 0; try < 6; try++ {
			dry, fd := newClient(g.devices, g.broadcast)
			fd.Datagrams = arrivals
			guard(func() string { return invoke(dry) })
			if len(fd.Calls) > 0 {
				break
			}
			argToks, invoke = op.gen(r, dev, false)
		}
		echoAdjust(op.name, argToks, arrivals)

		var pt *passThrough
		var u uhppote.IUHPPOTE
		if reuse {
			u, pt = keepU, keepPT
			pt.calls = nil
		} else {
			bind := types.BindAddrFrom(netip.MustParseAddr("0.0.0.0"), 0)
			listen := types.ListenAddrFrom(netip.MustParseAddr("0.0.0.0"), 60001)
			u = uhppote.VerifNew(bind, g.broadcast, listen, 1500*time.Millisecond, g.devices, debug,
				func(inner uhppote.VerifDriver) uhppote.VerifDriver { pt = &passThrough{inner: inner}; return pt })
			keepU, keepPT, keepG, keepDev, keepMode, keepDebug = u, pt, g, dev, mode, debug
		}
		if len(arrivals) == 1 {
			s.script(arrivals[0])
		} else {
			s.script(nil)
		}
		lastResult = nil
		res := guard(func() string { return invoke(u) })
		if res != "panic" && render(lastResult) == "panic" {
			res = "panic"
		}
		out := res
		if res != "panic" && res != "mutated-argument" {
			// an operation that expects no reply returns before the stand-in has read its request
			for wait := 0; wait < 750 && len(s.received()) < len(pt.calls); wait++ {
				time.Sleep(2 * time.Millisecond)
			}
			got := s.received()
			cs := []string{}
			for k, cl := range pt.calls {
				seen := "nothing-on-the-wire"
				if k < len(got) {
					seen = cases.Hex(got[k])
				}
				cs = append(cs, fmt.Sprintf("%s %s %s", cl.Method, cl.Addr, seen))
			}
			for k := len(pt.calls); k < len(got); k++ {
				cs = append(cs, "extra-on-the-wire - "+cases.Hex(got[k]))
			}
			out = fmt.Sprintf("%d %s ; %s", len(pt.calls), strings.Join(cs, " "), res)
		}
		hx := []string{}
		for _, a := range arrivals {
			hx = append(hx, cases.Hex(a))
		}
		dbg := "debug/off"
		if debug {
			dbg = "debug/on"
		}
		line := fmt.Sprintf("op %s %s | %s | %s", op.name, strings.Join(g.toks, " "), strings.Join(append([]string{fmt.Sprintf("u32:%d", dev)}, argToks...), " "), strings.Join(hx, " "))
		c.w.Emit(line, out, "phase/wire", "wire/"+mode, dbg, "arrivals/"+cls, "op/"+op.name, "res/"+strings.SplitN(res, " ", 2)[0])
	}
}

// The "parallel" phase of the ops stream: G goroutines, each with its OWN client, configuration and
// in-memory driver, issue their calls at the same time (arguments are generated beforehand, in
// order, from the one PRNG; the lines are emitted afterwards, in order). Every line is judged by
// itself, as in the other phases: "the bytes are a function of the current call only" must also
// hold when other calls are being marshalled at the same moment on other goroutines (a shared
// scratch buffer, a pooled encoder).
func parallelPhase(c *ctx, rounds int) {
	r := c.r
	const G, M = 6, 40
	dated := []opDef{}
	for _, op := range opDefs {
		switch op.name {
		case "PutCard", "SetTimeProfile", "AddTask", "SetTime":
			dated = append(dated, op)
		}
	}
	type job struct {
		op       opDef
		argToks  []string
		invoke   func(u uhppote.IUHPPOTE) string
		arrivals [][]byte
		cls      string
		res      string
		calls    []fake.Call
	}
	for round := 0; round < rounds; round++ {
		jobs := [G][]*job{}
		cfgs := [G]cfgGen{}
		devs := [G]uint32{}
		for g := 0; g < G; g++ {
			devs[g] = genDev(r)
			if devs[g] == 0 {
				devs[g] = 1
			}
			cfgs[g] = genCfg(r, devs[g])
			for k := 0; k < M; k++ {
				op := opDefs[r.Intn(len(opDefs))]
				if r.Chance(2, 3) && len(dated) > 0 {
					op = dated[r.Intn(len(dated))]
				}
				j := &job{op: op}
				j.arrivals, j.cls = genArrivals(r, op, devs[g], rng.Pick(r, "valid", "valid", "silence"))
				j.argToks, j.invoke = op.gen(r, devs[g], false)
				echoAdjust(op.name, j.argToks, j.arrivals)
				jobs[g] = append(jobs[g], j)
			}
		}
		start := make(chan struct{})
		var wg sync.WaitGroup
		for g := 0; g < G; g++ {
			wg.Add(1)
			go func(g int) {
				defer wg.Done()
				u, d := newClient(cfgs[g].devices, cfgs[g].broadcast)
				<-start
				for _, j := range jobs[g] {
					d.Calls = nil
					d.Datagrams = j.arrivals
					d.Consumed = 0
					j.res = guard(func() string { return j.invoke(u) })
					j.calls = append([]fake.Call{}, d.Calls...)
				}
			}(g)
		}
		close(start)
		wg.Wait()
		for g := 0; g < G; g++ {
			for _, j := range jobs[g] {
				out := j.res
				if j.res != "panic" && j.res != "mutated-argument" {
					cs := []string{}
					for _, cl := range j.calls {
						cs = append(cs, fmt.Sprintf("%s %s %s", cl.Method, cl.Addr, cases.Hex(cl.Req)))
					}
					out = fmt.Sprintf("%d %s ; %s", len(j.calls), strings.Join(cs, " "), j.res)
				}
				hx := []string{}
				for _, a := range j.arrivals {
					hx = append(hx, cases.Hex(a))
				}
				line := fmt.Sprintf("op %s %s | %s | %s", j.op.name, strings.Join(cfgs[g].toks, " "), strings.Join(append([]string{fmt.Sprintf("u32:%d", devs[g])}, j.argToks...), " "), strings.Join(hx, " "))
				c.w.Emit(line, out, "phase/parallel", "arrivals/"+j.cls, "op/"+j.op.name, "res/"+strings.SplitN(j.res, " ", 2)[0], fmt.Sprintf("calls/%d", len(j.calls)))
			}
		}
	}
}

// sharedPhase: ONE client, configured with controllers, used by several goroutines at once (set-address, device
// list, ordinary calls, discovery): the library may keep no unsynchronised state that such use could corrupt.
// One line per round; what is observed is that every call returns and the process survives (a concurrent map
// write is a fatal error the harness cannot recover from: the stream then ends in a crash).
func sharedPhase(c *ctx, rounds int) {
	r := c.r
	for round := 0; round < rounds; round++ {
		devices := []uhppote.Device{}
		for i := 0; i < 3; i++ {
			b := r.Bytes(4)
			devices = append(devices, uhppote.Device{Name: fmt.Sprintf("c%d", i), DeviceID: uint32(700001 + i),
				Address: types.ControllerAddrFrom(netip.AddrFrom4([4]byte{10, b[1], b[2], b[3] | 1}), 60000), Protocol: rng.Pick(r, "udp", "tcp")})
		}
		u, d := newClient(devices, types.BroadcastAddr{})
		d.Datagrams = nil
		const G, K = 6, 300
		var wg sync.WaitGroup
		returned := make([]int, G)
		for g := 0; g < G; g++ {
			wg.Add(1)
			go func(g int, seed uint64) {
				defer wg.Done()
				defer func() { recover() }()
				rr := rng.New(seed)
				for k := 0; k < K; k++ {
					dev := uint32(700001 + rr.Intn(3))
					switch (g + k) % 5 {
					case 0:
						u.SetAddress(dev, net.IPv4(10, 0, byte(k), byte(1+rr.Intn(250))), net.IPv4(255, 255, 255, 0), net.IPv4(10, 0, 0, 1))
					case 1:
						for range u.DeviceList() {
						}
					case 2:
						u.GetTime(dev)
					case 3:
						u.OpenDoor(dev, 1)
					default:
						u.GetDevice(dev)
					}
					returned[g]++
				}
			}(g, r.U64())
		}
		wg.Wait()
		total := 0
		for _, n := range returned {
			total += n
		}
		c.w.Emit(fmt.Sprintf("op-shared goroutines=%d calls=%d", G, G*K), fmt.Sprintf("returned=%d", total), "phase/shared-client")
	}
}
