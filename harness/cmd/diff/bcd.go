package main

import (
	"fmt"

	"github.com/uhppoted/uhppote-core/encoding/bcd"

	"verif/harness/internal/cases"
	"verif/harness/internal/rng"
)

func init() { streams["bcd"] = streamBCD }

func bcdEnc(s []byte) string {
	return guard(func() string {
		p, err := bcd.Encode(string(s))
		if err != nil {
			return "err"
		}
		if p == nil {
			return "nil"
		}
		return "ok " + cases.Hex(*p)
	})
}

func bcdDec(b []byte) string {
	return guard(func() string {
		s, err := bcd.Decode(b)
		if err != nil {
			return "err"
		}
		return "ok " + cases.Hex([]byte(s))
	})
}

func streamBCD(c *ctx) {
	w := c.w
	// --- Encode: exhaustive over a 12-symbol alphabet: digit edges, neighbours of the digit
	// range, a letter and a multi-byte rune (é = c3 a9)
	alphabet := [][]byte{{'0'}, {'1'}, {'5'}, {'8'}, {'9'}, {'/'}, {':'}, {'a'}, {0xc3, 0xa9}, {' '}, {0x00}, {0xff}}
	maxLen := 4
	if c.tier == "thorough" {
		maxLen = 5
	}
	var rec func(prefix []byte, n int, bad bool)
	rec = func(prefix []byte, n int, bad bool) {
		tag := "enc/digits"
		if bad {
			tag = "enc/non-digit"
		}
		w.Emit("bcd-enc "+cases.Hex(prefix), bcdEnc(prefix), tag, fmt.Sprintf("enc/len%%2=%d", len(prefix)%2))
		if n == maxLen {
			return
		}
		for i, a := range alphabet {
			next := append(append([]byte{}, prefix...), a...)
			rec(next, n+1, bad || i >= 5)
		}
	}
	rec([]byte{}, 0, false)

	// runes that alias a digit when truncated (low byte or low 16 bits in '0'..'9'), and the digits of
	// other scripts: alone, after an odd and after an even number of digits
	for _, base := range []rune{0x0100, 0x0200, 0x1f00, 0xff00, 0x10000, 0x10ff00, 0xff10 - '0', 0x0660 - '0', 0x06f0 - '0', 0x0966 - '0'} {
		for d := rune('0'); d <= '9'; d++ {
			for _, pre := range []string{"", "7", "42"} {
				s := []byte(pre + string(base+d))
				w.Emit("bcd-enc "+cases.Hex(s), bcdEnc(s), "enc/aliasing-rune")
			}
		}
	}

	// random longer digit strings with at most one defect
	for i := 0; i < 20000*c.scale; i++ {
		n := c.r.Intn(40)
		s := make([]byte, n)
		for j := range s {
			s[j] = byte('0' + c.r.Intn(10))
		}
		tag := "enc/long-digits"
		if n > 0 && c.r.Chance(1, 4) {
			s[c.r.Intn(n)] = c.r.U8()
			tag = "enc/long-one-random-byte"
		}
		w.Emit("bcd-enc "+cases.Hex(s), bcdEnc(s), tag)
	}

	// --- what Encode hands out is the caller's: written over and appended to, then the same string encoded again
	for _, str := range []string{"", "1", "12", "2024", "20240229123456"} {
		out := guard(func() string {
			first, err := bcd.Encode(str)
			if err != nil || first == nil {
				return "err"
			}
			before := cases.Hex(*first)
			for i := range *first {
				(*first)[i] ^= 0xff
			}
			*first = append(*first, 0x20, 0x24, 0x02, 0x29)
			second, err := bcd.Encode(str)
			if err != nil || second == nil {
				return "err"
			}
			if cases.Hex(*second) != before {
				return "changed: " + before + " -> " + cases.Hex(*second)
			}
			return "same"
		})
		w.Emit("bcd-fresh "+cases.Hex([]byte(str)), out, "enc/fresh-result")
	}

	// --- Decode: all slices of length 0..2, sampled beyond
	w.Emit("bcd-dec -", bcdDec(nil), "dec/len0")
	for a := 0; a < 256; a++ {
		b := []byte{byte(a)}
		w.Emit("bcd-dec "+cases.Hex(b), bcdDec(b), "dec/len1")
	}
	for a := 0; a < 256; a++ {
		for b := 0; b < 256; b++ {
			bs := []byte{byte(a), byte(b)}
			w.Emit("bcd-dec "+cases.Hex(bs), bcdDec(bs), "dec/len2")
		}
	}
	// long slices (33..200 bytes), a failing one (valid digits up to a bad nibble near the end) right before a valid one:
	// a result must not depend on what was decoded before
	for i := 0; i < 300*c.scale; i++ {
		n := 33 + c.r.Intn(168)
		bad := make([]byte, n)
		good := make([]byte, 33+c.r.Intn(168))
		for j := range bad {
			bad[j] = byte(c.r.Intn(10)<<4 | c.r.Intn(10))
		}
		for j := range good {
			good[j] = byte(c.r.Intn(10)<<4 | c.r.Intn(10))
		}
		bad[n-1-c.r.Intn(3)] |= rng.Pick(c.r, byte(0x0a), 0xa0, 0x0f, 0xf0)
		w.Emit("bcd-dec "+cases.Hex(bad), bcdDec(bad), "dec/long-bad-near-end")
		w.Emit("bcd-dec "+cases.Hex(good), bcdDec(good), "dec/long-valid-after-failure")
		// and the encoder the same way round
		ds := make([]byte, 70+c.r.Intn(100))
		for j := range ds {
			ds[j] = byte('0' + c.r.Intn(10))
		}
		db := append([]byte{}, ds...)
		db[len(db)-1-c.r.Intn(3)] = rng.Pick(c.r, byte('a'), ':', '/', ' ')
		w.Emit("bcd-enc "+cases.Hex(db), bcdEnc(db), "enc/long-bad-near-end")
		w.Emit("bcd-enc "+cases.Hex(ds), bcdEnc(ds), "enc/long-valid-after-failure")
	}
	// zero bytes at the even positions only, at the odd positions only (3-, 4- and 7-byte fields: times, dates, date-times)
	for _, n := range []int{3, 4, 7} {
		for _, v := range []byte{0x01, 0x30, 0x59, 0x99} {
			for parity := 0; parity < 2; parity++ {
				bs := make([]byte, n)
				for j := range bs {
					if j%2 == parity {
						bs[j] = v
					}
				}
				w.Emit("bcd-dec "+cases.Hex(bs), bcdDec(bs), "dec/zeroes-at-alternate-positions")
			}
		}
	}
	// long runs of non-digit characters, and very long digit strings
	for _, n := range []int{255, 256, 257, 512, 513} {
		for _, fill := range []byte{'x', ':', '/', ' '} {
			bs := make([]byte, n)
			for j := range bs {
				bs[j] = fill
			}
			w.Emit("bcd-enc "+cases.Hex(bs), bcdEnc(bs), "enc/all-bad-long")
			w.Emit("bcd-enc "+cases.Hex(append([]byte("20241231"), bs...)), bcdEnc(append([]byte("20241231"), bs...)), "enc/valid-then-all-bad-long")
		}
		ds := make([]byte, n)
		for j := range ds {
			ds[j] = byte('0' + c.r.Intn(10))
		}
		w.Emit("bcd-enc "+cases.Hex(ds), bcdEnc(ds), "enc/very-long-digits")
	}
	// long runs of non-decimal nibbles: their number passes 255 / 256 / 512 (whatever tallies them must not wrap)
	for _, n := range []int{63, 64, 127, 128, 129, 255, 256, 257, 511, 512, 1024} {
		for _, fill := range []byte{0xff, 0x1a, 0xa1, 0xee} {
			bs := make([]byte, n)
			for j := range bs {
				bs[j] = fill
			}
			w.Emit("bcd-dec "+cases.Hex(bs), bcdDec(bs), "dec/all-bad-long")
			w.Emit("bcd-dec "+cases.Hex(append([]byte{0x20, 0x24, 0x12, 0x31}, bs...)), bcdDec(append([]byte{0x20, 0x24, 0x12, 0x31}, bs...)), "dec/valid-then-all-bad-long")
		}
	}
	// every length 1..16 x every nibble position x every non-decimal nibble value, all other nibbles decimal
	for n := 1; n <= 16; n++ {
		for pos := 0; pos < 2*n; pos++ {
			for bad := 10; bad < 16; bad++ {
				bs := make([]byte, n)
				for j := range bs {
					bs[j] = byte(c.r.Intn(10)<<4 | c.r.Intn(10))
				}
				if pos%2 == 0 {
					bs[pos/2] = bs[pos/2]&0x0f | byte(bad)<<4
				} else {
					bs[pos/2] = bs[pos/2]&0xf0 | byte(bad)
				}
				w.Emit("bcd-dec "+cases.Hex(bs), bcdDec(bs), "dec/one-bad-nibble-every-position")
			}
		}
	}
	for i := 0; i < 20000*c.scale; i++ {
		n := 3 + c.r.Intn(10)
		bs := make([]byte, n)
		for j := range bs {
			bs[j] = byte(c.r.Intn(10)<<4 | c.r.Intn(10))
		}
		tag := "dec/long-valid"
		if c.r.Chance(1, 3) {
			k := c.r.Intn(n)
			if c.r.Bool() {
				bs[k] = bs[k]&0x0f | byte(10+c.r.Intn(6))<<4
				tag = "dec/long-bad-high-nibble"
			} else {
				bs[k] = bs[k]&0xf0 | byte(10+c.r.Intn(6))
				tag = "dec/long-bad-low-nibble"
			}
		}
		w.Emit("bcd-dec "+cases.Hex(bs), bcdDec(bs), tag)
	}
	w.Notes = append(w.Notes, fmt.Sprintf("encode: exhaustive over all strings of 0..%d symbols from a 12-symbol alphabet; decode: exhaustive over all byte slices of length 0..2; lengths 1..16 with one non-decimal nibble at every position", maxLen))
}
