package main

import (
	"fmt"
	"reflect"
	"sort"
	"strings"

	"github.com/uhppoted/uhppote-core/messages"

	"verif/harness/internal/cases"
	"verif/harness/internal/rng"
)

func init() { streams["msgs"] = streamMsgs }

type msgType struct {
	name string
	t    reflect.Type
	code int
}

// discover the shipped message types through the two dispatchers (a zero payload decodes for
// every type), plus the two event types
func discoverTypes() []msgType {
	seen := map[string]bool{}
	out := []msgType{}
	add := func(v any, code int) {
		t := reflect.TypeOf(v)
		if t.Kind() == reflect.Ptr {
			t = t.Elem()
		}
		if !seen[t.Name()] {
			seen[t.Name()] = true
			out = append(out, msgType{t.Name(), t, code})
		}
	}
	for c := 0; c < 256; c++ {
		b := make([]byte, 64)
		b[0], b[1] = 0x17, byte(c)
		if v, err := messages.UnmarshalRequest(b); err == nil && v != nil {
			add(v, c)
		}
		if v, err := messages.UnmarshalResponse(b); err == nil && v != nil {
			add(v, c)
		}
	}
	add(messages.Event{}, 0x20)
	add(messages.EventV6_62{}, 0x20)
	sort.Slice(out, func(i, j int) bool { return out[i].name < out[j].name })
	return out
}

func typeKinds(t reflect.Type) []string {
	ks := []string{}
	p := reflect.New(t)
	for _, f := range leaves(p.Elem()) {
		k := kindName(f.Type())
		if f.Type() == tSOM || f.Type() == tMsgType {
			k = "msg"
		}
		ks = append(ks, k)
	}
	return ks
}

func typeRanges(t reflect.Type) []fieldDesc {
	fs := []fieldDesc{}
	var walk func(t reflect.Type)
	walk = func(t reflect.Type) {
		for i := 0; i < t.NumField(); i++ {
			f := t.Field(i)
			if f.Anonymous && f.Type.Kind() == reflect.Struct {
				walk(f.Type)
				continue
			}
			var off int
			if _, err := fmt.Sscanf(f.Tag.Get("uhppote"), "offset:%d", &off); err == nil {
				fs = append(fs, fieldDesc{Kind: kindName(f.Type), Off: off})
			}
		}
	}
	walk(t)
	return fs
}

func dispatch(which string, b []byte) string {
	return guard(func() string {
		var v any
		var err error
		if which == "req" {
			v, err = messages.UnmarshalRequest(b)
		} else {
			v, err = messages.UnmarshalResponse(b)
		}
		if err != nil {
			return "err"
		}
		rv := reflect.ValueOf(v)
		if rv.Kind() == reflect.Ptr {
			rv = rv.Elem()
		}
		return "ok " + rv.Type().Name() + " " + strings.TrimPrefix(showStruct(rv), "ok ")
	})
}

var dtBoundary = []string{"2000-1-1-0-0-0", "1999-12-31-23-59-59", "2000-1-1-0-0-1", "1-1-1-0-0-1", "1-1-2-0-0-0", "9999-12-31-23-59-59", "1970-1-1-0-0-0",
	"1969-12-31-23-59-59", "2000-2-29-12-0-0", "2100-1-1-0-0-0", "1900-1-1-0-0-0", "2038-1-19-3-14-8", "2001-1-1-0-0-0", "2020-10-10-10-10-10", "100-1-1-0-0-0"}
var dBoundary = []string{"1-1-2", "2000-1-1", "1999-12-31", "2000-2-29", "2001-1-1", "9999-12-31", "1970-1-1", "1969-12-31", "100-1-1", "1000-10-10", "2020-10-20"}

func prefixed(p string, xs []string) []string {
	out := []string{}
	for _, x := range xs {
		out = append(out, p+x)
	}
	return out
}

var boundaryToks = map[string][]string{
	"datetime": prefixed("dt:", dtBoundary), "datetimeptr": prefixed("dtptr:", dtBoundary),
	"date": prefixed("date:", dBoundary), "dateptr": prefixed("dateptr:", dBoundary),
	"sysdate": {"sd:2000-1-1", "sd:1999-12-31", "sd:1969-1-1", "sd:2068-12-31", "sd:2001-1-1", "sd:2020-10-10"},
	"systime": {"st:0-0-0", "st:23-59-59", "st:0-0-1", "st:10-10-10", "st:12-0-0"},
	"hhmm":    {"hm:0,0", "hm:24,0", "hm:23,59", "hm:0,1", "hm:12,0", "hm:10,10"},
	"hhmmptr": {"hmptr:0,0", "hmptr:24,0", "hmptr:23,59", "hmptr:0,1", "hmptr:12,0"},
	"pin":     {"u32:0", "u32:1", "u32:999999", "u32:65536", "u32:256"},
}

var odd = []int{0, 1, 2, 3, 4, 8, 32, 62, 63, 65, 66, 127, 128, 1023, 1024, 2047, 2048}

func streamMsgs(c *ctx) {
	r := c.r
	w := c.w
	types := discoverTypes()
	w.Notes = append(w.Notes, fmt.Sprintf("msgs stream: %d shipped message types discovered through the dispatchers", len(types)))
	for _, mt := range types {
		lt := "T=" + mt.name
		ks := typeKinds(mt.t)
		fs := typeRanges(mt.t)
		for i := 0; i < 6*c.scale; i++ {
			wild := r.Chance(1, 8)
			toks := genVals(r, ks, wild)
			out, img := doMarshal(r, mt.t, toks)
			vt := "values/in-domain"
			if wild {
				vt = "values/wild"
			}
			w.Emit("marshal "+lt+" | "+strings.Join(toks, " "), out, "type/"+mt.name, vt, "marshal/"+strings.SplitN(out, " ", 2)[0])
			if img != nil {
				o := doUnmarshal(mt.t, img)
				w.Emit("unmarshal "+lt+" | "+cases.Hex(img), o, "unmarshal-of/image", "unmarshal/"+strings.SplitN(o, " ", 2)[0])
				for _, m := range mutate(r, img, fs) {
					o := doUnmarshal(mt.t, m)
					w.Emit("unmarshal "+lt+" | "+cases.Hex(m), o, "unmarshal-of/mutated-image", "unmarshal/"+strings.SplitN(o, " ", 2)[0])
				}
				// bytes that belong to no field must not matter
				g := append([]byte{}, img...)
				covered := make([]bool, 64)
				covered[0], covered[1] = true, true
				for _, f := range fs {
					for k := f.Off; k < f.Off+kindWidth[f.Kind] && k < 64; k++ {
						covered[k] = true
					}
				}
				for k := range g {
					if !covered[k] {
						g[k] = r.U8()
					}
				}
				o = doUnmarshal(mt.t, g)
				w.Emit("unmarshal "+lt+" | "+cases.Hex(g), o, "unmarshal-of/image-with-random-gaps", "unmarshal/"+strings.SplitN(o, " ", 2)[0])
			}
		}
		// every date / time field at each of its round and extreme values in turn (an otherwise ordinary message):
		// decode(encode v) must give v back for these exact values too
		for fi, k := range ks {
			for _, tok := range boundaryToks[k] {
				toks := genVals(r, ks, false)
				toks[fi] = tok
				out, img := doMarshal(r, mt.t, toks)
				w.Emit("marshal "+lt+" | "+strings.Join(toks, " "), out, "type/"+mt.name, "values/boundary", "marshal/"+strings.SplitN(out, " ", 2)[0])
				if img != nil {
					o := doUnmarshal(mt.t, img)
					w.Emit("unmarshal "+lt+" | "+cases.Hex(img), o, "unmarshal-of/boundary-image", "unmarshal/"+strings.SplitN(o, " ", 2)[0])
				}
			}
		}
		// arbitrary byte strings of any length (C04)
		for i := 0; i < 4*c.scale; i++ {
			n := rng.Pick(r, odd[r.Intn(len(odd))], 64, 64, r.Intn(2049))
			b := r.Bytes(n)
			if n >= 2 && r.Chance(2, 3) {
				b[0], b[1] = 0x17, byte(mt.code)
			}
			o := doUnmarshal(mt.t, b)
			w.Emit("unmarshal "+lt+" | "+cases.Hex(b), o, "unmarshal-of/arbitrary-bytes", fmt.Sprintf("len/%d", bucket(n)), "unmarshal/"+strings.SplitN(o, " ", 2)[0])
		}
	}
	// dispatchers: every function code x {zero payload, random payload}, every length 0..128, stray protocol ids
	for _, which := range []string{"req", "resp"} {
		for code := 0; code < 256; code++ {
			b := make([]byte, 64)
			b[0], b[1] = 0x17, byte(code)
			w.Emit("dispatch-"+which+" "+cases.Hex(b), dispatch(which, b), "dispatch/zero-payload")
			p := r.Bytes(64)
			p[0], p[1] = 0x17, byte(code)
			for i := 2; i < 64; i++ {
				p[i] = byte(r.Intn(3))<<4 | byte(r.Intn(10))
			}
			w.Emit("dispatch-"+which+" "+cases.Hex(p), dispatch(which, p), "dispatch/bcd-payload")
		}
		for n := 0; n <= 128; n++ {
			b := make([]byte, n)
			if n >= 2 {
				b[0], b[1] = 0x17, rng.Pick(r, byte(0x94), 0x20, 0x50, 0x5a)
			}
			w.Emit("dispatch-"+which+" "+cases.Hex(b), dispatch(which, b), "dispatch/length-sweep")
		}
		for i := 0; i < 200*c.scale; i++ {
			b := make([]byte, 64)
			b[0] = rng.Pick(r, byte(0x19), 0x18, 0x00, 0x71, r.U8())
			b[1] = rng.Pick(r, byte(0x20), 0x94, r.U8())
			w.Emit("dispatch-"+which+" "+cases.Hex(b), dispatch(which, b), "dispatch/protocol-id")
		}
	}
}

func bucket(n int) int {
	switch {
	case n < 64:
		return 0
	case n == 64:
		return 64
	default:
		return 65
	}
}
