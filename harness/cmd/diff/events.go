package main

import (
	"fmt"
	"os"
	"strings"
	"sync"
	"syscall"
	"time"

	"github.com/uhppoted/uhppote-core/messages"
	"github.com/uhppoted/uhppote-core/types"
	"github.com/uhppoted/uhppote-core/uhppote"

	"verif/harness/internal/cases"
	"verif/harness/internal/rng"
)

func init() {
	streams["listen"] = streamListen
	streams["discover"] = streamDiscover
}

type recorder struct {
	mu     sync.Mutex
	trace  []string
	status []*types.Status
	snap   []string
	gate   chan struct{} // when set: OnEvent waits for it (a slow application callback)
	stop   bool          // OnError returns false ("do not carry on"): whatever it returns, nothing may break
}

func (l *recorder) OnConnected() {
	l.mu.Lock()
	defer l.mu.Unlock()
	l.trace = append(l.trace, "connected")
}

func (l *recorder) OnEvent(s *types.Status) {
	if l.gate != nil {
		<-l.gate
	}
	l.mu.Lock()
	defer l.mu.Unlock()
	t := "ev " + strings.TrimPrefix(statusTokens(s), "vals ")
	l.trace = append(l.trace, t)
	l.status = append(l.status, s)
	l.snap = append(l.snap, t)
}

func (l *recorder) OnError(err error) bool {
	l.mu.Lock()
	defer l.mu.Unlock()
	l.trace = append(l.trace, "error")
	return !l.stop
}

func (l *recorder) count() int {
	l.mu.Lock()
	defer l.mu.Unlock()
	return len(l.trace)
}

// eventDatagram: a datagram of one of the classes the listener may see
func eventDatagram(r *rng.R, class string) []byte {
	serial := rng.Pick(r, uint32(405419896), 1, 0xffffffff, r.U32()|1)
	var b []byte
	if r.Bool() {
		b = validReply(r, messages.GetStatusResponse{}, serial)
	} else {
		b = validReply(r, messages.Event{}, serial)
	}
	switch class {
	case "valid":
	case "v6.62":
		b[0] = 0x19
	case "no-event":
		b[8], b[9], b[10], b[11] = 0, 0, 0, 0
	case "short":
		b = b[:rng.Pick(r, 0, 1, 8, 63)]
	case "long":
		b = append(b, r.Bytes(rng.Pick(r, 1, 64, 1000))...)
	case "serial-0":
		b[4], b[5], b[6], b[7] = 0, 0, 0, 0
	case "wrong-code":
		b[1] = rng.Pick(r, byte(0x21), 0x94, 0x00)
	case "wrong-som":
		b[0] = rng.Pick(r, byte(0x18), 0x00, 0xff)
	case "som-19-wrong-code":
		b[0], b[1] = 0x19, 0x94
	case "bad-bool":
		b[13+rng.Pick(r, 0, 15, 16, 17, 18, 19, 20, 21, 22)] = rng.Pick(r, byte(2), 0xff)
	case "bad-bcd":
		b[rng.Pick(r, 20, 21, 24, 26, 37, 38, 39, 51, 52, 53)] = rng.Pick(r, byte(0x1a), 0xf0, 0xff)
	case "bad-calendar":
		switch r.Intn(3) {
		case 0:
			b[22], b[23] = 0x13, 0x01 // month 13 in the event timestamp
		case 1:
			b[52], b[53] = 0x02, 0x30 // 30 February in the system date
		default:
			b[37] = 0x24 // 24:xx:xx system time
		}
	case "mutated":
		b[8+r.Intn(48)] = r.U8()
	}
	return b
}

var eventClasses = []string{"valid", "valid", "v6.62", "no-event", "short", "long", "serial-0", "wrong-code", "wrong-som", "som-19-wrong-code", "bad-bool", "bad-bcd", "bad-calendar", "mutated"}

func streamListen(c *ctx) {
	r := c.r
	for n := 0; n < 250*c.scale; n++ {
		k := r.Intn(9)
		if n == 4 {
			k = 300 // one long run: more events than any 8-bit counter holds, a few malformed ones among them
		}
		dgs := [][]byte{}
		cls := []string{}
		for i := 0; i < k; i++ {
			cl := eventClasses[r.Intn(len(eventClasses))]
			if n == 4 && i%8 != 7 {
				cl = "valid"
			}
			dgs = append(dgs, eventDatagram(r, cl))
			cls = append(cls, cl)
		}
		if n == 5 { // the same malformed datagram several times in a row: one error callback EACH
			short := eventDatagram(r, "valid")[:8]
			zero := eventDatagram(r, "serial-0")
			dgs = [][]byte{short, append([]byte{}, short...), append([]byte{}, short...), zero, append([]byte{}, zero...), eventDatagram(r, "valid"), append([]byte{}, short...), append([]byte{}, short...)}
			cls = []string{"short", "short-again", "short-again", "serial-0", "serial-0-again", "valid", "short", "short-again"}
			k = len(dgs)
		}
		// the first runs: three valid events, an application callback that is still busy with the first one
		// when the shutdown signal comes (events in flight at shutdown); all three are still delivered
		// ... and once with a callback that stays busy for seconds after the signal (a bounded wait for the receive
		// loop anywhere in the shutdown path would give up before the events in flight were handed over)
		slow := n < 4
		hold := 30 * time.Millisecond
		longRun := n == 4 // 300 events behind a callback that is busy for a while with the first one
		if longRun {
			slow = true
			hold = 60 * time.Millisecond
		}
		if n == 3 {
			hold = 5500 * time.Millisecond
			if c.scale > 1 {
				hold = 11 * time.Second
			}
		}
		if slow && !longRun {
			dgs, cls, k = [][]byte{}, []string{}, 3
			for i := 0; i < 3; i++ {
				dgs = append(dgs, eventDatagram(r, "valid"))
				cls = append(cls, map[bool]string{false: "valid-slow-callback", true: "valid-callback-busy-for-seconds"}[n == 3])
			}
		}
		u, d := newClient(nil, types.BroadcastAddr{})
		d.Datagrams = dgs
		rec := &recorder{stop: n%2 == 1}
		if slow {
			rec.gate = make(chan struct{})
			go func(g chan struct{}) {
				time.Sleep(hold)
				close(g)
			}(rec.gate)
		}
		q := make(chan os.Signal, 1)
		done := make(chan string, 1)
		go func() {
			done <- guard(func() string {
				if err := u.Listen(rec, q); err != nil {
					return "listen-error"
				}
				return "returned"
			})
		}()
		deadline := time.Now().Add(3 * time.Second)
		if slow {
			for rec.count() < 1 && time.Now().Before(deadline) {
				time.Sleep(200 * time.Microsecond)
			}
			time.Sleep(5 * time.Millisecond) // the callback is busy, further events are queued behind it
		} else {
			for rec.count() < 1+len(dgs) && time.Now().Before(deadline) {
				time.Sleep(200 * time.Microsecond)
			}
			time.Sleep(300 * time.Microsecond) // would a callback too many arrive?
		}
		q <- syscall.SIGINT
		end := "hung"
		select {
		case end = <-done:
		case <-time.After(3*time.Second + hold):
		}
		if slow {
			// Listen may return while the dispatch goroutine is still inside the last callback: give it time to finish
			for w := time.Now().Add(time.Second); rec.count() < 1+len(dgs) && time.Now().Before(w); {
				time.Sleep(200 * time.Microsecond)
			}
		}
		rec.mu.Lock()
		trace := append([]string{}, rec.trace...)
		// the statuses handed out must not have changed although the receive buffer was reused
		stable := "stable"
		for i, s := range rec.status {
			if "ev "+strings.TrimPrefix(statusTokens(s), "vals ") != rec.snap[i] {
				stable = "changed-afterwards"
			}
		}
		rec.mu.Unlock()
		hx := []string{}
		for _, b := range dgs {
			hx = append(hx, cases.Hex(b))
		}
		// canonical form: error callbacks are made by the receive loop, event callbacks by the
		// dispatch goroutine, so only the order AMONG events (and that `connected` comes first)
		// is defined; errors are counted
		// ... and `connected` is made by the caller of driver.Listen after the receive loop has been started, so a
		// datagram that is already waiting can be delivered before it: its position is not defined either, only
		// that it happens exactly once
		canon := []string{}
		nerr, nconn := 0, 0
		for _, t := range trace {
			switch {
			case t == "connected":
				nconn++
			case t == "error":
				nerr++
			default:
				canon = append(canon, t)
			}
		}
		if nconn == 1 {
			canon = append([]string{"connected"}, canon...)
		} else {
			canon = append([]string{fmt.Sprintf("connected-x%d", nconn)}, canon...)
		}
		canon = append(canon, fmt.Sprintf("errors=%d", nerr))
		c.w.Emit("listen | "+strings.Join(hx, " "), strings.Join(canon, " ; ")+" ; "+end+" "+stable,
			append([]string{fmt.Sprintf("listen/len%d", k)}, prefixAll("class/", cls)...)...)
	}
	c.w.Notes = append(c.w.Notes, "listen stream: sequences of 0..8 datagrams over the classes valid / v6.62 (0x19) / no-event / short / long / serial 0 / wrong code / wrong protocol id / 0x19 with another code / bad boolean / non-BCD nibble / impossible calendar value / random mutation, played through the real Listen() with the hooked driver (one reused receive buffer), callbacks recorded in order, shutdown by signal, statuses re-read after the buffer was reused; three runs with a callback still busy when the signal comes and one with a callback busy for 5.5 s (widened: 11 s) after it")
}

func prefixAll(p string, xs []string) []string {
	out := []string{}
	for _, x := range xs {
		out = append(out, p+x)
	}
	return out
}

func streamDiscover(c *ctx) {
	r := c.r
	classes := []string{"valid", "valid", "valid", "duplicate", "short", "long", "wrong-som", "wrong-code", "bad-bcd", "bad-calendar", "som-19", "mutated"}
	for n := 0; n < 600*c.scale; n++ {
		serials := []uint32{405419896, 303986753, 201020304, r.U32()}
		g := genCfg(r, serials[r.Intn(3)])
		k := r.Intn(8)
		if n == 0 {
			k = 300 // one long run: more replies than any 8-bit counter holds
		}
		dgs := [][]byte{}
		cls := []string{}
		var last []byte
		for i := 0; i < k; i++ {
			cl := classes[r.Intn(len(classes))]
			b := validReply(r, messages.GetDeviceResponse{}, serials[r.Intn(len(serials))])
			if r.Chance(1, 6) { // a controller that has no address yet (factory state, waiting for DHCP) reports 0.0.0.0
				copy(b[8:12], []byte{0, 0, 0, 0})
				if r.Bool() {
					copy(b[12:20], []byte{0, 0, 0, 0, 0, 0, 0, 0})
				}
			}
			switch cl {
			case "duplicate":
				if last != nil {
					b = append([]byte{}, last...)
				}
			case "short":
				b = b[:rng.Pick(r, 0, 1, 63)]
			case "long":
				b = append(b, r.Bytes(rng.Pick(r, 1, 64))...)
			case "wrong-som":
				b[0] = rng.Pick(r, byte(0x18), 0x00)
			case "som-19":
				b[0] = 0x19
			case "wrong-code":
				b[1] = rng.Pick(r, byte(0x92), 0x20, 0x00)
			case "bad-bcd":
				b[28+r.Intn(4)] = rng.Pick(r, byte(0x1a), 0xa0, 0xff)
			case "bad-calendar":
				d := calendarDates[r.Intn(len(calendarDates))]
				copy(b[28:32], []byte{bcdByte(d[0] / 100), bcdByte(d[0] % 100), bcdByte(d[1]), bcdByte(d[2])})
			case "mutated":
				b[8+r.Intn(24)] = r.U8()
			}
			if len(b) == 64 {
				last = b
			}
			dgs = append(dgs, b)
			cls = append(cls, cl)
		}
		u, d := newClient(g.devices, g.broadcast)
		// what DeviceList hands out is the caller's to edit: the names discovery reports are those the client was built with
		if n%2 == 1 {
			dl := u.DeviceList()
			for k, v := range dl {
				v.Name = v.Name + " (edited)"
				dl[k] = v
			}
			dl[4000000001] = uhppote.Device{Name: "added", DeviceID: 4000000001}
		}
		d.Datagrams = dgs
		out := guard(func() string {
			devs, err := u.GetDevices()
			if err != nil {
				return "err"
			}
			es := []string{}
			for _, x := range devs {
				addr := "invalid"
				if x.Address.IsValid() {
					addr = x.Address.String()
				}
				es = append(es, strings.TrimPrefix(valsOf(x.SerialNumber, x.IpAddress, x.SubnetMask, x.Gateway, x.MacAddress, x.Version, x.Date), "vals ")+" "+nameTok(x.Name)+" "+addr)
			}
			cs := []string{}
			for _, cl := range d.Calls {
				cs = append(cs, fmt.Sprintf("%s %s %s", cl.Method, cl.Addr, cases.Hex(cl.Req)))
			}
			return fmt.Sprintf("%d %s ; %s", len(d.Calls), strings.Join(cs, " "), strings.Join(es, " / "))
		})
		hx := []string{}
		for _, b := range dgs {
			hx = append(hx, cases.Hex(b))
		}
		c.w.Emit("discover "+strings.Join(g.toks, " ")+" | "+strings.Join(hx, " "), out,
			append([]string{fmt.Sprintf("discover/replies%d", k)}, prefixAll("class/", cls)...)...)
	}
	c.w.Notes = append(c.w.Notes, "discover stream: GetDevices through the hooked driver with 0..7 collected datagrams over the classes valid / duplicate / short / long / wrong protocol id / 0x19 / wrong code / non-BCD date / impossible date / random mutation, from up to 4 controllers in random order, with and without configured names and broadcast port; every second run after the map returned by DeviceList was edited")
}
