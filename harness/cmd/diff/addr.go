package main

import (
	"encoding/json"
	"fmt"
	"net/netip"
	"strings"

	"github.com/uhppoted/uhppote-core/types"

	"verif/harness/internal/cases"
	"verif/harness/internal/rng"
)

func init() { streams["addr"] = streamAddr }

var addrRoles = []string{"bind", "broadcast", "listen", "controller"}

func parseAddrAs(role, s string) string {
	return guard(func() string {
		var ap netip.AddrPort
		var err error
		switch role {
		case "bind":
			var a types.BindAddr
			a, err = types.ParseBindAddr(s)
			ap = a.AddrPort
		case "broadcast":
			var a types.BroadcastAddr
			a, err = types.ParseBroadcastAddr(s)
			ap = a.AddrPort
		case "listen":
			var a types.ListenAddr
			a, err = types.ParseListenAddr(s)
			ap = a.AddrPort
		case "controller":
			var a types.ControllerAddr
			a, err = types.ParseControllerAddr(s)
			ap = a.AddrPort
		}
		if err != nil {
			return "err"
		}
		if !ap.Addr().Is4() {
			return "ok-non-ipv4 " + ap.String()
		}
		b := ap.Addr().As4()
		return fmt.Sprintf("ok %d.%d.%d.%d:%d", b[0], b[1], b[2], b[3], ap.Port())
	})
}

func jsonSafe(s string) bool {
	for _, c := range []byte(s) {
		if c < 0x20 || c >= 0x7f || c == '"' || c == '\\' {
			return false
		}
	}
	return true
}

func jsonAddrAs(role, s string) string {
	return guard(func() string {
		var ap netip.AddrPort
		var err error
		text := []byte(`"` + s + `"`)
		switch role {
		case "bind":
			var a types.BindAddr
			err = json.Unmarshal(text, &a)
			ap = a.AddrPort
		case "broadcast":
			var a types.BroadcastAddr
			err = json.Unmarshal(text, &a)
			ap = a.AddrPort
		case "listen":
			var a types.ListenAddr
			err = json.Unmarshal(text, &a)
			ap = a.AddrPort
		case "controller":
			var a types.ControllerAddr
			err = json.Unmarshal(text, &a)
			ap = a.AddrPort
		}
		if err != nil {
			return "err"
		}
		if !ap.Addr().Is4() {
			return "ok-non-ipv4 " + ap.String()
		}
		b := ap.Addr().As4()
		return fmt.Sprintf("ok %d.%d.%d.%d:%d", b[0], b[1], b[2], b[3], ap.Port())
	})
}

func setAddrAs(role, s, prev string) string {
	return guard(func() string {
		// what the variable holds before: nothing, the same IP with another port, something else
		ip := netip.AddrFrom4([4]byte{10, 9, 8, 7})
		if prev == "same-ip" {
			if before := parseAddrAs(role, s); strings.HasPrefix(before, "ok ") {
				if ap, err := netip.ParseAddrPort(strings.TrimPrefix(before, "ok ")); err == nil {
					ip = ap.Addr()
				}
			}
		}
		var ap netip.AddrPort
		var err error
		switch role {
		case "bind":
			a := types.BindAddrFrom(ip, 12345)
			if prev == "zero" {
				a = types.BindAddr{}
			}
			err = a.Set(s)
			ap = a.AddrPort
		case "broadcast":
			a := types.BroadcastAddrFrom(ip, 12345)
			if prev == "zero" {
				a = types.BroadcastAddr{}
			}
			err = a.Set(s)
			ap = a.AddrPort
		case "listen":
			a := types.ListenAddrFrom(ip, 12345)
			if prev == "zero" {
				a = types.ListenAddr{}
			}
			err = a.Set(s)
			ap = a.AddrPort
		case "controller":
			a := types.ControllerAddrFrom(ip, 12345)
			if prev == "zero" {
				a = types.ControllerAddr{}
			}
			err = a.Set(s)
			ap = a.AddrPort
		}
		if err != nil {
			return "err"
		}
		if !ap.Addr().Is4() {
			return "ok-non-ipv4 " + ap.String()
		}
		b := ap.Addr().As4()
		return fmt.Sprintf("ok %d.%d.%d.%d:%d", b[0], b[1], b[2], b[3], ap.Port())
	})
}

func formatAddrAs(role string, a netip.Addr, port uint16) string {
	return guard(func() string {
		switch role {
		case "bind":
			return types.BindAddrFrom(a, port).String()
		case "broadcast":
			return types.BroadcastAddrFrom(a, port).String()
		case "listen":
			return types.ListenAddrFrom(a, port).String()
		default:
			return types.ControllerAddrFrom(a, port).String()
		}
	})
}

var keptTexts, keptCopies []string

func streamAddr(c *ctx) {
	r := c.r
	w := c.w
	nParse := 0
	emitParse := func(role, s, tag string) {
		out := parseAddrAs(role, s)
		w.Emit("addr-parse "+role+" "+cases.Hex([]byte(s)), out, tag, "addr/"+role, "addr-res/"+strings.SplitN(out, " ", 2)[0])
		// the JSON form of an address is its text in quotes: decoding it is the same parser under the same port rule
		nParse++
		if (nParse%3 == 0 || s == "") && jsonSafe(s) {
			out := jsonAddrAs(role, s)
			w.Emit("addr-json "+role+" "+cases.Hex([]byte(s)), out, tag, "addr-json/"+role, "addr-res/"+strings.SplitN(out, " ", 2)[0])
		}
		// ... and Set (the flag.Value entry point) is the same parser again, followed by the role's IsValid; what the
		// variable held before must not matter
		if nParse%3 == 1 {
			prev := []string{"zero", "same-ip", "other"}[(nParse/3)%3]
			out := setAddrAs(role, s, prev)
			w.Emit("addr-set "+role+" "+prev+" "+cases.Hex([]byte(s)), out, tag, "addr-set/"+role, "addr-res/"+strings.SplitN(out, " ", 2)[0])
		}
	}
	// ordinary, wildcard, broadcast, private, loopback, link-local, multicast, CGNAT, class E: the port rules are the
	// same for every address
	ips := [][4]byte{{192, 168, 1, 100}, {0, 0, 0, 0}, {255, 255, 255, 255}, {10, 0, 0, 1}, {1, 22, 133, 4}, {127, 0, 0, 1}, {127, 255, 255, 254},
		{169, 254, 1, 1}, {224, 0, 0, 1}, {100, 64, 0, 1}, {240, 0, 0, 1}, {172, 16, 0, 1}, {192, 168, 1, 255}}
	// every port, every role (thorough: all 65536; quick: boundaries + a stride)
	for _, role := range addrRoles {
		for p := 0; p < 65536; p++ {
			if c.tier != "thorough" && !(p < 12 || p%997 == 0 || (p > 59990 && p < 60010) || p > 65530 || p == 9999 || p == 10000 || p == 999 || p == 1000 || p == 99 || p == 100) {
				continue
			}
			ip := ips[p%len(ips)]
			emitParse(role, fmt.Sprintf("%d.%d.%d.%d:%d", ip[0], ip[1], ip[2], ip[3], p), "parse/canonical-addr-port")
		}
		for _, ip := range ips {
			for _, p := range []int{0, 1, 59999, 60000, 60001, 65535} {
				emitParse(role, fmt.Sprintf("%d.%d.%d.%d:%d", ip[0], ip[1], ip[2], ip[3], p), "parse/special-address-boundary-port")
			}
			emitParse(role, fmt.Sprintf("%d.%d.%d.%d", ip[0], ip[1], ip[2], ip[3]), "parse/special-address")
		}
		// format then parse for the special addresses (0.0.0.0, 255.255.255.255 ...) under boundary ports
		for _, ip := range ips {
			for _, p := range []int{0, 1, 59999, 60000, 60001, 65535} {
				if !strings.HasPrefix(parseAddrAs(role, fmt.Sprintf("%d.%d.%d.%d:%d", ip[0], ip[1], ip[2], ip[3], p)), "ok ") {
					continue
				}
				txt := formatAddrAs(role, netip.AddrFrom4(ip), uint16(p))
				w.Emit(fmt.Sprintf("addr-format %s %d %d %d %d %d", role, ip[0], ip[1], ip[2], ip[3], p), "text "+cases.Hex([]byte(txt)), "format", "addr/"+role)
				emitParse(role, txt, "parse/of-formatted")
			}
		}
		for i := 0; i < 300*c.scale; i++ {
			b := r.Bytes(4)
			if r.Chance(1, 3) {
				b[r.Intn(4)] = rng.Pick(r, byte(0), 1, 9, 10, 99, 100, 199, 200, 249, 250, 255)
			}
			emitParse(role, fmt.Sprintf("%d.%d.%d.%d", b[0], b[1], b[2], b[3]), "parse/canonical-addr")
			p := rng.Pick(r, 0, 1, 59999, 60000, 60001, 65535, r.Intn(65536))
			a := netip.AddrFrom4([4]byte{b[0], b[1], b[2], b[3]})
			// format (only addresses the role accepts), then parse the text back
			if !strings.HasPrefix(parseAddrAs(role, fmt.Sprintf("%d.%d.%d.%d:%d", b[0], b[1], b[2], b[3], p)), "ok ") {
				continue
			}
			txt := formatAddrAs(role, a, uint16(p))
			w.Emit(fmt.Sprintf("addr-format %s %d %d %d %d %d", role, b[0], b[1], b[2], b[3], p), "text "+cases.Hex([]byte(txt)), "format", "addr/"+role)
			emitParse(role, txt, "parse/of-formatted")
			if len(keptTexts) < 64 {
				keptTexts, keptCopies = append(keptTexts, txt), append(keptCopies, cases.Hex([]byte(txt)))
			}
		}
		// the texts handed out earlier are still what they were (a text is a value: formatting another address later
		// cannot change it)
		{
			changed := 0
			for i := range keptTexts {
				if cases.Hex([]byte(keptTexts[i])) != keptCopies[i] {
					changed++
				}
			}
			out := "same"
			if changed > 0 {
				out = fmt.Sprintf("changed-%d-of-%d", changed, len(keptTexts))
			}
			w.Emit("addr-kept "+role, out, "format/kept-texts")
			keptTexts, keptCopies = nil, nil
		}
	}
	// exhaustive short strings over a small alphabet
	alpha := []byte{'0', '1', '9', '.', ':', 'x'}
	maxLen := 5
	if c.tier == "thorough" {
		maxLen = 7
	}
	var rec func(prefix []byte)
	rec = func(prefix []byte) {
		for _, role := range addrRoles {
			emitParse(role, string(prefix), "parse/exhaustive-short")
		}
		if len(prefix) == maxLen {
			return
		}
		for _, a := range alpha {
			rec(append(append([]byte{}, prefix...), a))
		}
	}
	rec([]byte{})
	// four digit groups that are NOT a dotted quad: the dots replaced by another separator, alone and inside
	// IPv6-looking text (a gate that forgot to escape its dots would let netip see these)
	for _, sep := range []string{":", "x", "-", ",", " ", "/", "_"} {
		for _, q := range [][4]int{{1, 2, 3, 4}, {192, 168, 1, 100}, {10, 0, 0, 1}, {255, 255, 255, 255}} {
			core := fmt.Sprintf("%d%s%d%s%d%s%d", q[0], sep, q[1], sep, q[2], sep, q[3])
			for _, s := range []string{core, core + "::", "::" + core, core + "::%eth0", "[" + core + ":5:6:7:8]:12345", core + ":60001", "::ffff:" + core} {
				for _, role := range addrRoles {
					emitParse(role, s, "parse/quad-with-other-separator")
				}
			}
		}
	}
	// IPv6 text whose zone holds dots (three of them, but no dotted quad anywhere): no role takes it
	for _, s := range []string{"[fe80::1%bond0.10.20.x]:60001", "[::1%a.b.c.d]:60000", "[::1%...]:60000", "fe80::1%eth0.1.2.x", "[fe80::1%1.2.3.x]:60001", "::1%1.2.3", "[::1%1.2.3]:60001"} {
		for _, role := range addrRoles {
			emitParse(role, s, "parse/ipv6-zone-with-dots")
		}
	}
	// mutations of valid addresses
	junk := []string{"", " ", "x", "::ffff:", "[", "]", "%eth0", "a.b.c.d", "256", "01", "-1", "65536", "060000", "0x10", ".", ":", "1.2.3", "1.2.3.4.5"}
	for i := 0; i < 6000*c.scale; i++ {
		b := r.Bytes(4)
		s := fmt.Sprintf("%d.%d.%d.%d", b[0], b[1], b[2], b[3])
		if r.Chance(2, 3) {
			s += fmt.Sprintf(":%d", rng.Pick(r, 0, 1, 60000, 60001, 65535, 65536, 70000, 99999, 100000, r.Intn(65536)))
		}
		bs := []byte(s)
		switch r.Intn(7) {
		case 0:
			s = junk[r.Intn(len(junk))] + s
		case 1:
			s = s + junk[r.Intn(len(junk))]
		case 2:
			if len(bs) > 0 {
				bs[r.Intn(len(bs))] = rng.Pick(r, byte('0'), '9', '.', ':', 'x', ' ', '/')
				s = string(bs)
			}
		case 3:
			k := r.Intn(len(bs) + 1)
			s = string(bs[:k]) + junk[r.Intn(len(junk))] + string(bs[k:])
		case 4:
			k := r.Intn(len(bs))
			s = string(bs[:k]) + string(bs[k+1:])
		case 5:
			s = fmt.Sprintf("%03d.%d.%d.%d:%d", b[0], b[1], b[2], b[3], r.Intn(65536)) // leading zeros
		}
		emitParse(addrRoles[r.Intn(4)], s, "parse/mutation")
	}
	w.Notes = append(w.Notes, fmt.Sprintf("addr stream: canonical a.b.c.d:port for boundary ports and a stride (thorough: all 65536) x 4 roles; random canonical addresses with and without port; format then parse; every string of length 0..%d over {0,1,9,.,:,x} x 4 roles; mutations of valid addresses (prefix/suffix/insert/delete/replace, leading zeros, IPv6 wrappers)", maxLen))
}
