package main

import (
	"encoding/json"
	"fmt"
	"net"
	"net/netip"
	"reflect"
	"strings"
	"time"

	codec "github.com/uhppoted/uhppote-core/encoding/UTO311-L0x"
	"github.com/uhppoted/uhppote-core/messages"
	"github.com/uhppoted/uhppote-core/types"
	"github.com/uhppoted/uhppote-core/uhppote"

	"verif/harness/internal/cases"
	"verif/harness/internal/fake"
	"verif/harness/internal/rng"
)

func init() {
	streams["ops"] = streamOps
}

func tok(v any) string { return showField(reflect.ValueOf(v)) }

// lastResult: the value the API returned last, rendered afterwards with String() and JSON (C04)
var lastResult any

func keep(v any) { lastResult = v }

func render(v any) (out string) {
	defer func() {
		if e := recover(); e != nil {
			out = "panic"
		}
	}()
	if v == nil {
		return "ok"
	}
	_ = fmt.Sprintf("%v", v)
	if s, ok := v.(fmt.Stringer); ok {
		_ = s.String()
	}
	if _, err := json.Marshal(v); err != nil {
		return "ok" // an error is a value, not a crash
	}
	return "ok"
}

func valsOf(vs ...any) string {
	ts := []string{}
	for _, v := range vs {
		ts = append(ts, tok(v))
	}
	return "vals " + strings.Join(ts, " ")
}

type opDef struct {
	name  string
	reply any // zero value of the reply message type (nil: none)
	code  byte
	// gen produces the argument tokens (after the device id) and the invocation
	gen func(r *rng.R, dev uint32, wild bool) ([]string, func(u uhppote.IUHPPOTE) string)
}

// rawMaps renders the two maps of a profile entry by entry, keys in order (nil and empty told apart)
func rawMaps(w types.Weekdays, sg types.Segments) string {
	out := fmt.Sprintf("weekdays nil=%v:", w == nil)
	for d := time.Sunday; d <= time.Saturday+3; d++ {
		if v, ok := w[d]; ok {
			out += fmt.Sprintf(" %d=%v", int(d), v)
		}
	}
	out += fmt.Sprintf(" len=%d | segments nil=%v:", len(w), sg == nil)
	for k := 0; k < 256; k++ {
		if v, ok := sg[uint8(k)]; ok {
			out += fmt.Sprintf(" %d=%v-%v", k, v.Start, v.End)
		}
	}
	return out
}

func boolRes(ok bool, err error) string {
	if err != nil {
		return "err"
	}
	return valsOf(ok)
}

func dateFromTok(t string) types.Date {
	var d types.Date
	setField(reflect.ValueOf(&d).Elem(), t)
	return d
}

func hhmmFromTok(t string) types.HHmm {
	var h types.HHmm
	setField(reflect.ValueOf(&h).Elem(), t)
	return h
}

// genBoolMap: a map with nil / partial / extra keys and the tokens of what a lookup of keys lo..hi yields
func genU8Map(r *rng.R, lo, hi int) (map[uint8]uint8, []string) {
	var m map[uint8]uint8
	if !r.Chance(1, 6) {
		m = map[uint8]uint8{}
	}
	toks := []string{}
	for k := lo; k <= hi; k++ {
		if m != nil && !r.Chance(1, 5) {
			v := rng.Pick(r, uint8(0), 1, 1, 2, 29, 254, 255, r.U8())
			m[uint8(k)] = v
			toks = append(toks, fmt.Sprintf("u8:%d", v))
		} else {
			toks = append(toks, "absent")
		}
	}
	if m != nil && r.Chance(1, 4) {
		m[uint8(hi+1+r.Intn(5))] = r.U8() // an entry nobody looks up
		m[0] = r.U8()
	}
	return m, toks
}

func genWeekdays(r *rng.R) (types.Weekdays, []string) {
	var m types.Weekdays
	if !r.Chance(1, 6) {
		m = types.Weekdays{}
	}
	toks := []string{}
	for _, d := range []time.Weekday{time.Monday, time.Tuesday, time.Wednesday, time.Thursday, time.Friday, time.Saturday, time.Sunday} {
		if m != nil && !r.Chance(1, 5) {
			b := r.Bool()
			m[d] = b
			toks = append(toks, "bool:"+b01(b))
		} else {
			toks = append(toks, "absent")
		}
	}
	return m, toks
}

func genReaders(r *rng.R) (map[uint8]bool, []string) {
	var m map[uint8]bool
	if !r.Chance(1, 6) {
		m = map[uint8]bool{}
	}
	toks := []string{}
	for k := 1; k <= 4; k++ {
		if m != nil && !r.Chance(1, 5) {
			b := r.Bool()
			m[uint8(k)] = b
			toks = append(toks, "bool:"+b01(b))
		} else {
			toks = append(toks, "absent")
		}
	}
	if m != nil && r.Chance(1, 4) {
		m[5] = true
		m[0] = true
	}
	return m, toks
}

func genIP(r *rng.R, wild bool) (net.IP, string) {
	t := genVal(r, "ipv4", wild)
	b := unhex(strings.TrimPrefix(t, "ip:"))
	if strings.TrimPrefix(t, "ip:") == "-" {
		return nil, t
	}
	return net.IP(b), t
}

func cardTokens(c *types.Card) string {
	return valsOf(c.CardNumber, c.From, c.To, c.Doors[1], c.Doors[2], c.Doors[3], c.Doors[4], c.PIN)
}

func statusTokens(s *types.Status) string {
	return valsOf(s.SerialNumber, s.DoorState[1], s.DoorState[2], s.DoorState[3], s.DoorState[4],
		s.DoorButton[1], s.DoorButton[2], s.DoorButton[3], s.DoorButton[4], s.SystemError, s.SystemDateTime,
		s.SequenceId, s.SpecialInfo, s.RelayState, s.InputState,
		s.Event.Index, s.Event.Type, s.Event.Granted, s.Event.Door, s.Event.Direction, s.Event.CardNumber,
		s.Event.Timestamp, s.Event.Reason)
}

func simpleOp(name string, code byte, reply any, call func(u uhppote.IUHPPOTE, dev uint32) (bool, error)) opDef {
	return opDef{name: name, code: code, reply: reply, gen: func(r *rng.R, dev uint32, wild bool) ([]string, func(u uhppote.IUHPPOTE) string) {
		return nil, func(u uhppote.IUHPPOTE) string { return boolRes(call(u, dev)) }
	}}
}

var cardNumbers = []uint32{0, 1, 0x00ffffff, 0xffffffff, 8165538, 6154412, 99999, 100000, 25565535, 25565536, 25600000, 25599999,
	65535, 65536, 100000000, 255000001, 1000000000, 4294967295, 42949672, 16777215, 16777216, 99999999, 10058400}

// a number that agrees with one of the reserved card numbers in all but one byte (0x01ffffff,
// 0xffffff00, 0x00ff00ff, 0x00000100 ...): what a masked or partial comparison would confuse
func nearSentinel(r *rng.R) uint32 {
	s := rng.Pick(r, uint32(0), 0xffffffff, 0x00ffffff)
	k := uint(r.Intn(4)) * 8
	return (s &^ (0xff << k)) | uint32(r.U8())<<k
}

var opDefs = []opDef{
	{name: "GetDevice", code: 0x94, reply: messages.GetDeviceResponse{}, gen: func(r *rng.R, dev uint32, wild bool) ([]string, func(u uhppote.IUHPPOTE) string) {
		return nil, func(u uhppote.IUHPPOTE) string {
			d, err := u.GetDevice(dev)
			if err != nil {
				return "err"
			}
			keep(d)
			addr := "invalid"
			if d.Address.IsValid() {
				addr = d.Address.String()
			}
			return valsOf(d.SerialNumber, d.IpAddress, d.SubnetMask, d.Gateway, d.MacAddress, d.Version, d.Date) + " ; " + nameTok(d.Name) + " " + addr
		}
	}},
	{name: "SetAddress", code: 0x96, reply: nil, gen: func(r *rng.R, dev uint32, wild bool) ([]string, func(u uhppote.IUHPPOTE) string) {
		a, ta := genIP(r, wild && r.Chance(1, 3))
		m, tm := genIP(r, wild && r.Chance(1, 3))
		g, tg := genIP(r, wild && r.Chance(1, 3))
		return []string{ta, tm, tg}, func(u uhppote.IUHPPOTE) string {
			res, err := u.SetAddress(dev, a, m, g)
			if err != nil {
				return "err"
			}
			keep(res)
			return valsOf(res.SerialNumber, res.Succeeded)
		}
	}},
	{name: "GetListener", code: 0x92, reply: messages.GetListenerResponse{}, gen: func(r *rng.R, dev uint32, wild bool) ([]string, func(u uhppote.IUHPPOTE) string) {
		return nil, func(u uhppote.IUHPPOTE) string {
			ap, iv, err := u.GetListener(dev)
			if err != nil {
				return "err"
			}
			return valsOf(ap, iv)
		}
	}},
	{name: "SetListener", code: 0x90, reply: messages.SetListenerResponse{}, gen: func(r *rng.R, dev uint32, wild bool) ([]string, func(u uhppote.IUHPPOTE) string) {
		var ap netip.AddrPort
		t := ""
		switch {
		case wild && r.Chance(1, 2):
			ap = rng.Pick(r, otherAddrPorts...)
			t = "ap:other"
		case r.Chance(1, 5):
			ap = netip.MustParseAddrPort("0.0.0.0:0")
			t = "ap:00000000:0"
		case r.Chance(1, 5):
			b := r.Bytes(4)
			ap = netip.AddrPortFrom(netip.AddrFrom4([4]byte{b[0], b[1], b[2], b[3]}), 0)
			t = fmt.Sprintf("ap:%x:0", b)
		case r.Chance(1, 6):
			p := uint16(1 + r.Intn(65535))
			ap = netip.AddrPortFrom(netip.AddrFrom4([4]byte{}), p)
			t = fmt.Sprintf("ap:00000000:%d", p)
		default:
			b := r.Bytes(4)
			p := uint16(1 + r.Intn(65535))
			ap = netip.AddrPortFrom(netip.AddrFrom4([4]byte{b[0], b[1], b[2], b[3]}), p)
			t = fmt.Sprintf("ap:%x:%d", b, p)
		}
		iv := r.U8()
		return []string{t, fmt.Sprintf("u8:%d", iv)}, func(u uhppote.IUHPPOTE) string { return boolRes(u.SetListener(dev, ap, iv)) }
	}},
	{name: "GetTime", code: 0x32, reply: messages.GetTimeResponse{}, gen: func(r *rng.R, dev uint32, wild bool) ([]string, func(u uhppote.IUHPPOTE) string) {
		return nil, func(u uhppote.IUHPPOTE) string {
			t, err := u.GetTime(dev)
			if err != nil {
				return "err"
			}
			keep(t)
			return valsOf(t.SerialNumber, t.DateTime)
		}
	}},
	{name: "SetTime", code: 0x30, reply: messages.SetTimeResponse{}, gen: func(r *rng.R, dev uint32, wild bool) ([]string, func(u uhppote.IUHPPOTE) string) {
		y, m, d := genYMD(r, 1, 9999)
		loc := rng.Pick(r, time.UTC, time.FixedZone("X", 3600*rng.Pick(r, -11, -3, 5, 13)+rng.Pick(r, 0, 1800, 2700)), time.Local)
		t := time.Date(y, time.Month(m), d, r.Intn(24), r.Intn(60), r.Intn(60), r.Intn(1000)*1000000, loc)
		if r.Chance(1, 12) { // the zero value of time.Time (an instant like any other here: 0001-01-01 00:00:00 UTC), also seen from another zone
			t = rng.Pick(r, time.Time{}, time.Time{}.In(time.FixedZone("E", 5*3600+1800)), time.Date(1, 1, 1, 0, 0, 0, 0, time.UTC), time.Time{}.Add(time.Second))
		}
		tk := fmt.Sprintf("dt:%d-%d-%d-%d-%d-%d", t.Year(), int(t.Month()), t.Day(), t.Hour(), t.Minute(), t.Second())
		return []string{tk}, func(u uhppote.IUHPPOTE) string {
			res, err := u.SetTime(dev, t)
			if err != nil {
				return "err"
			}
			keep(res)
			return valsOf(res.SerialNumber, res.DateTime)
		}
	}},
	{name: "GetDoorControlState", code: 0x82, reply: messages.GetDoorControlStateResponse{}, gen: func(r *rng.R, dev uint32, wild bool) ([]string, func(u uhppote.IUHPPOTE) string) {
		door := rng.Pick(r, uint8(1), 2, 3, 4, 0, 5, 255, r.U8())
		return []string{fmt.Sprintf("u8:%d", door)}, func(u uhppote.IUHPPOTE) string {
			s, err := u.GetDoorControlState(dev, door)
			if err != nil {
				return "err"
			}
			keep(s)
			return valsOf(s.SerialNumber, s.Door, uint8(s.ControlState), s.Delay)
		}
	}},
	{name: "SetDoorControlState", code: 0x80, reply: messages.SetDoorControlStateResponse{}, gen: func(r *rng.R, dev uint32, wild bool) ([]string, func(u uhppote.IUHPPOTE) string) {
		door := rng.Pick(r, uint8(1), 2, 3, 4, 0, 5, r.U8())
		state := rng.Pick(r, 1, 2, 3, 0, 4, 255, 256, 259, -1, r.Intn(1000))
		delay := r.U8()
		return []string{fmt.Sprintf("u8:%d", door), fmt.Sprintf("int:%d", state), fmt.Sprintf("u8:%d", delay)}, func(u uhppote.IUHPPOTE) string {
			s, err := u.SetDoorControlState(dev, door, types.ControlState(state), delay)
			if err != nil {
				return "err"
			}
			keep(s)
			return valsOf(s.SerialNumber, s.Door, uint8(s.ControlState), s.Delay)
		}
	}},
	{name: "GetStatus", code: 0x20, reply: messages.GetStatusResponse{}, gen: func(r *rng.R, dev uint32, wild bool) ([]string, func(u uhppote.IUHPPOTE) string) {
		return nil, func(u uhppote.IUHPPOTE) string {
			s, err := u.GetStatus(dev)
			if err != nil {
				return "err"
			}
			keep(s)
			return statusTokens(s)
		}
	}},
	{name: "GetCards", code: 0x58, reply: messages.GetCardsResponse{}, gen: func(r *rng.R, dev uint32, wild bool) ([]string, func(u uhppote.IUHPPOTE) string) {
		return nil, func(u uhppote.IUHPPOTE) string {
			n, err := u.GetCards(dev)
			if err != nil {
				return "err"
			}
			return valsOf(n)
		}
	}},
	{name: "GetCardByIndex", code: 0x5c, reply: messages.GetCardByIndexResponse{}, gen: func(r *rng.R, dev uint32, wild bool) ([]string, func(u uhppote.IUHPPOTE) string) {
		ix := rng.Pick(r, uint32(0), 1, 2, 0xffffffff, r.U32())
		return []string{fmt.Sprintf("u32:%d", ix)}, func(u uhppote.IUHPPOTE) string {
			c, err := u.GetCardByIndex(dev, ix)
			if err != nil {
				return "err"
			} else if c == nil {
				return "nil"
			}
			keep(c)
			return cardTokens(c)
		}
	}},
	{name: "GetCardByID", code: 0x5a, reply: messages.GetCardByIDResponse{}, gen: func(r *rng.R, dev uint32, wild bool) ([]string, func(u uhppote.IUHPPOTE) string) {
		id := rng.Pick(r, cardNumbers[r.Intn(len(cardNumbers))], r.U32(), nearSentinel(r))
		return []string{fmt.Sprintf("u32:%d", id)}, func(u uhppote.IUHPPOTE) string {
			c, err := u.GetCardByID(dev, id)
			if err != nil {
				return "err"
			} else if c == nil {
				return "nil"
			}
			keep(c)
			return cardTokens(c)
		}
	}},
	{name: "PutCard", code: 0x50, reply: messages.PutCardResponse{}, gen: func(r *rng.R, dev uint32, wild bool) ([]string, func(u uhppote.IUHPPOTE) string) {
		card := r.U32()
		switch r.Intn(5) {
		case 4:
			card = nearSentinel(r)
		case 0:
			card = cardNumbers[r.Intn(len(cardNumbers))]
		case 1: // around the Wiegand-26 boundaries
			card = uint32(rng.Pick(r, 0, 1, 99, 100, 254, 255, 256, 999, 1000, 2559, 42949)*100000 + rng.Pick(r, 0, 1, 65535, 65536, 99999, r.Intn(100000)))
		}
		tf, tt := genVal(r, "date", wild), genVal(r, "date", wild)
		doors, dt := genU8Map(r, 1, 4)
		// (a PIN is three bytes on the wire: values at and above 2^24 whose low 24 bits look acceptable are still too large)
		pin := rng.Pick(r, uint32(0), 1, 999999, 1000000, 7531, uint32(r.Intn(1000000)), r.U32()>>8, 16777216, 16777216+7531, 0x80000000, 0xff0f423f, r.U32())
		formats := []types.CardFormat{}
		ft := []string{}
		nf := r.Intn(4) * r.Intn(2)
		if r.Chance(1, 40) {
			nf = 257 // a list longer than 255 entries
		}
		for i := nf; i > 0; i-- {
			f := rng.Pick(r, types.WiegandAny, types.Wiegand26, types.Wiegand26, types.CardFormat(2), types.CardFormat(255))
			if nf == 257 && i > 1 {
				f = rng.Pick(r, types.Wiegand26, types.CardFormat(2)) // only the last entry may accept any number
			}
			formats = append(formats, f)
			ft = append(ft, fmt.Sprint(uint8(f)))
		}
		c := types.Card{CardNumber: card, From: dateFromTok(tf), To: dateFromTok(tt), Doors: doors, PIN: types.PIN(pin)}
		toks := append([]string{fmt.Sprintf("u32:%d", card), tf, tt}, dt...)
		toks = append(toks, fmt.Sprintf("u32:%d", pin), "list:"+strings.Join(ft, ","))
		return toks, func(u uhppote.IUHPPOTE) string {
			// the format list is a slice the caller keeps and uses again: an earlier call with it (on another client)
			// must leave it as it was
			before := fmt.Sprintf("%v %v", c.Doors, formats)
			if len(formats) > 0 {
				other, _ := newClient(nil, types.BroadcastAddr{})
				other.PutCard(dev|1, types.Card{CardNumber: 8165538, Doors: map[uint8]uint8{1: 1}}, formats...)
			}
			res := boolRes(u.PutCard(dev, c, formats...))
			if fmt.Sprintf("%v %v", c.Doors, formats) != before {
				return res + " ; mutated-argument"
			}
			return res
		}
	}},
	{name: "DeleteCard", code: 0x52, reply: messages.DeleteCardResponse{}, gen: func(r *rng.R, dev uint32, wild bool) ([]string, func(u uhppote.IUHPPOTE) string) {
		card := rng.Pick(r, cardNumbers[r.Intn(len(cardNumbers))], r.U32(), nearSentinel(r))
		return []string{fmt.Sprintf("u32:%d", card)}, func(u uhppote.IUHPPOTE) string { return boolRes(u.DeleteCard(dev, card)) }
	}},
	simpleOp("DeleteCards", 0x54, messages.DeleteCardsResponse{}, func(u uhppote.IUHPPOTE, dev uint32) (bool, error) { return u.DeleteCards(dev) }),
	{name: "GetTimeProfile", code: 0x98, reply: messages.GetTimeProfileResponse{}, gen: func(r *rng.R, dev uint32, wild bool) ([]string, func(u uhppote.IUHPPOTE) string) {
		id := rng.Pick(r, uint8(2), 29, 254, 0, 1, r.U8())
		return []string{fmt.Sprintf("u8:%d", id)}, func(u uhppote.IUHPPOTE) string {
			p, err := u.GetTimeProfile(dev, id)
			if err != nil {
				return "err"
			} else if p == nil {
				return "nil"
			}
			keep(p)
			w := p.Weekdays
			s := p.Segments
			return valsOf(p.ID, p.LinkedProfileID, p.From, p.To, w[time.Monday], w[time.Tuesday], w[time.Wednesday], w[time.Thursday],
				w[time.Friday], w[time.Saturday], w[time.Sunday], s[1].Start, s[1].End, s[2].Start, s[2].End, s[3].Start, s[3].End)
		}
	}},
	{name: "SetTimeProfile", code: 0x88, reply: messages.SetTimeProfileResponse{}, gen: func(r *rng.R, dev uint32, wild bool) ([]string, func(u uhppote.IUHPPOTE) string) {
		id, linked := r.U8(), rng.Pick(r, uint8(0), r.U8())
		tf, tt := genVal(r, "date", wild), genVal(r, "date", wild)
		if !wild && r.Chance(9, 10) { // mostly acceptable dates
			for tf == "date:0" {
				tf = genVal(r, "date", false)
			}
			for tt == "date:0" {
				tt = genVal(r, "date", false)
			}
		}
		wd, wt := genWeekdays(r)
		var segs types.Segments
		if !r.Chance(1, 12) {
			segs = types.Segments{}
		}
		st := []string{}
		for k := uint8(1); k <= 3; k++ {
			if segs == nil || r.Chance(1, 12) {
				st = append(st, "seg:absent")
				continue
			}
			a, b := r.Intn(1441), r.Intn(1441)
			switch r.Intn(5) {
			case 0:
				b = a
			case 1:
				if a > 0 {
					b = a - 1 // ends before it starts
				}
			case 2:
				if b < a {
					a, b = b, a
				}
			case 3:
				a, b = 0, 0
			}
			if r.Chance(6, 10) && b < a {
				a, b = b, a
			}
			segs[k] = types.Segment{Start: types.NewHHmm(a/60, a%60), End: types.NewHHmm(b/60, b%60)}
			st = append(st, fmt.Sprintf("seg:%d,%d,%d,%d", a/60, a%60, b/60, b%60))
		}
		if segs != nil && r.Chance(1, 3) { // entries nobody looks up (so that a missing segment is not a short map)
			for _, k := range []uint8{4, 0, 5, 200} {
				if r.Bool() {
					segs[k] = types.Segment{}
				}
			}
			if r.Bool() { // many of them: whatever order the map is walked in, the three that count are a small minority
				for k := 4; k < 64; k++ {
					segs[uint8(k)] = types.Segment{}
				}
			}
		}
		p := types.TimeProfile{ID: id, LinkedProfileID: linked, From: dateFromTok(tf), To: dateFromTok(tt), Weekdays: wd, Segments: segs}
		// the "no date" value also exists as the zero instant carrying a Location (it reads 0000-12-31 west of Greenwich)
		if tf == "date:0" && r.Bool() {
			p.From = types.Date(time.Time{}.In(time.FixedZone("W", -rng.Pick(r, 5, 10, 1)*3600)))
		}
		if tt == "date:0" && r.Bool() {
			p.To = types.Date(time.Time{}.In(time.FixedZone("E", rng.Pick(r, -5, 9, -10)*3600)))
		}
		toks := append([]string{fmt.Sprintf("u8:%d", id), fmt.Sprintf("u8:%d", linked), tf, tt}, wt...)
		toks = append(toks, st...)
		return toks, func(u uhppote.IUHPPOTE) string {
			// (the maps entry by entry: their String methods show the days and the segments 1..3 only)
			before := rawMaps(p.Weekdays, p.Segments)
			res := boolRes(u.SetTimeProfile(dev, p))
			if rawMaps(p.Weekdays, p.Segments) != before {
				return res + " ; mutated-argument"
			}
			return res
		}
	}},
	simpleOp("ClearTimeProfiles", 0x8a, messages.ClearTimeProfilesResponse{}, func(u uhppote.IUHPPOTE, dev uint32) (bool, error) { return u.ClearTimeProfiles(dev) }),
	simpleOp("ClearTaskList", 0xa6, messages.ClearTaskListResponse{}, func(u uhppote.IUHPPOTE, dev uint32) (bool, error) { return u.ClearTaskList(dev) }),
	{name: "AddTask", code: 0xa8, reply: messages.AddTaskResponse{}, gen: func(r *rng.R, dev uint32, wild bool) ([]string, func(u uhppote.IUHPPOTE) string) {
		task := rng.Pick(r, 0, 1, 2, 8, 12, 13, 255, 256, 300, -1, r.Intn(13))
		door := rng.Pick(r, uint8(1), 2, 3, 4, 0, r.U8())
		tf, tt := genVal(r, "date", wild), genVal(r, "date", wild)
		wd, wt := genWeekdays(r)
		ts := genVal(r, "hhmm", wild)
		cards := r.U8()
		t := types.Task{Task: types.TaskType(task), Door: door, From: dateFromTok(tf), To: dateFromTok(tt), Weekdays: wd, Start: hhmmFromTok(ts), Cards: cards}
		toks := append([]string{fmt.Sprintf("int:%d", task), fmt.Sprintf("u8:%d", door), tf, tt}, wt...)
		toks = append(toks, ts, fmt.Sprintf("u8:%d", cards))
		return toks, func(u uhppote.IUHPPOTE) string { return boolRes(u.AddTask(dev, t)) }
	}},
	{name: "RefreshTaskList", code: 0xac, reply: messages.RefreshTaskListResponse{}, gen: func(r *rng.R, dev uint32, wild bool) ([]string, func(u uhppote.IUHPPOTE) string) {
		return nil, func(u uhppote.IUHPPOTE) string { return boolRes(u.RefreshTaskList(dev)) }
	}},
	{name: "RecordSpecialEvents", code: 0x8e, reply: messages.RecordSpecialEventsResponse{}, gen: func(r *rng.R, dev uint32, wild bool) ([]string, func(u uhppote.IUHPPOTE) string) {
		b := r.Bool()
		return []string{"bool:" + b01(b)}, func(u uhppote.IUHPPOTE) string { return boolRes(u.RecordSpecialEvents(dev, b)) }
	}},
	{name: "GetEvent", code: 0xb0, reply: messages.GetEventResponse{}, gen: func(r *rng.R, dev uint32, wild bool) ([]string, func(u uhppote.IUHPPOTE) string) {
		ix := rng.Pick(r, uint32(0), 1, 0xffffffff, r.U32())
		return []string{fmt.Sprintf("u32:%d", ix)}, func(u uhppote.IUHPPOTE) string {
			e, err := u.GetEvent(dev, ix)
			if err != nil {
				return "err"
			} else if e == nil {
				return "nil"
			}
			keep(e)
			return valsOf(e.SerialNumber, e.Index, e.Type, e.Granted, e.Door, e.Direction, e.CardNumber, e.Timestamp, e.Reason)
		}
	}},
	{name: "GetEventIndex", code: 0xb4, reply: messages.GetEventIndexResponse{}, gen: func(r *rng.R, dev uint32, wild bool) ([]string, func(u uhppote.IUHPPOTE) string) {
		return nil, func(u uhppote.IUHPPOTE) string {
			e, err := u.GetEventIndex(dev)
			if err != nil {
				return "err"
			}
			keep(e)
			return valsOf(e.SerialNumber, e.Index)
		}
	}},
	{name: "SetEventIndex", code: 0xb2, reply: messages.SetEventIndexResponse{}, gen: func(r *rng.R, dev uint32, wild bool) ([]string, func(u uhppote.IUHPPOTE) string) {
		ix := rng.Pick(r, uint32(0), 1, 0xffffffff, r.U32())
		return []string{fmt.Sprintf("u32:%d", ix)}, func(u uhppote.IUHPPOTE) string {
			e, err := u.SetEventIndex(dev, ix)
			if err != nil {
				return "err"
			}
			keep(e)
			return valsOf(e.SerialNumber, e.Index, e.Changed)
		}
	}},
	{name: "SetDoorPasscodes", code: 0x8c, reply: messages.SetDoorPasscodesResponse{}, gen: func(r *rng.R, dev uint32, wild bool) ([]string, func(u uhppote.IUHPPOTE) string) {
		door := rng.Pick(r, uint8(1), 2, 3, 4, 1, 2, 3, 4, 0, 5, 255, r.U8())
		n := rng.Pick(r, r.Intn(7), r.Intn(7), r.Intn(7), 256, 300)
		var ps []uint32
		ts := []string{}
		for i := 0; i < n; i++ {
			p := rng.Pick(r, uint32(0), 1, 999999, 1000000, 12345, 0xffffffff, uint32(r.Intn(1000000)), r.U32())
			ps = append(ps, p)
			ts = append(ts, fmt.Sprint(p))
		}
		return []string{fmt.Sprintf("u8:%d", door), "list:" + strings.Join(ts, ",")}, func(u uhppote.IUHPPOTE) string {
			// the codes are a slice of a longer table (one table, four slots per door): neither the slice nor the
			// rest of the table behind it may be written to
			// (one flat table, the codes of the next door right behind: a call for the door before, on another client,
			// comes first)
			table := append(append(append([]uint32{}, 101010, 202020), ps...), 111111, 222222, 333333, 444444, 555555)
			before := fmt.Sprint(table)
			other, _ := newClient(nil, types.BroadcastAddr{})
			other.SetDoorPasscodes(dev|1, 1, table[:2]...)
			res := boolRes(u.SetDoorPasscodes(dev, door, table[2:2+len(ps)]...))
			// a write into the codes of THIS call shows in the request it sends; a write anywhere else is reported as such
			after := append([]uint32{}, table...)
			copy(after[2:2+len(ps)], ps)
			if fmt.Sprint(after) != before {
				return res + " ; mutated-argument"
			}
			return res
		}
	}},
	{name: "OpenDoor", code: 0x40, reply: messages.OpenDoorResponse{}, gen: func(r *rng.R, dev uint32, wild bool) ([]string, func(u uhppote.IUHPPOTE) string) {
		door := rng.Pick(r, uint8(1), 2, 3, 4, 0, 5, r.U8())
		return []string{fmt.Sprintf("u8:%d", door)}, func(u uhppote.IUHPPOTE) string {
			res, err := u.OpenDoor(dev, door)
			if err != nil {
				return "err"
			}
			keep(res)
			return valsOf(res.SerialNumber, res.Succeeded)
		}
	}},
	{name: "SetPCControl", code: 0xa0, reply: messages.SetPCControlResponse{}, gen: func(r *rng.R, dev uint32, wild bool) ([]string, func(u uhppote.IUHPPOTE) string) {
		b := r.Bool()
		return []string{"bool:" + b01(b)}, func(u uhppote.IUHPPOTE) string { return boolRes(u.SetPCControl(dev, b)) }
	}},
	{name: "SetInterlock", code: 0xa2, reply: messages.SetInterlockResponse{}, gen: func(r *rng.R, dev uint32, wild bool) ([]string, func(u uhppote.IUHPPOTE) string) {
		il := rng.Pick(r, uint8(0), 1, 2, 3, 4, 8, 5, 255, r.U8())
		return []string{fmt.Sprintf("u8:%d", il)}, func(u uhppote.IUHPPOTE) string { return boolRes(u.SetInterlock(dev, types.Interlock(il))) }
	}},
	{name: "ActivateKeypads", code: 0xa4, reply: messages.ActivateAccessKeypadsResponse{}, gen: func(r *rng.R, dev uint32, wild bool) ([]string, func(u uhppote.IUHPPOTE) string) {
		m, ts := genReaders(r)
		return ts, func(u uhppote.IUHPPOTE) string { return boolRes(u.ActivateKeypads(dev, m)) }
	}},
	simpleOp("RestoreDefaultParameters", 0xc8, messages.RestoreDefaultParametersResponse{}, func(u uhppote.IUHPPOTE, dev uint32) (bool, error) {
		return u.RestoreDefaultParameters(dev)
	}),
}

func nameTok(s string) string {
	if s == "" {
		return "-"
	}
	return s
}

// ---------------------------------------------------------------------------------------------

type cfgGen struct {
	toks      []string
	devices   []uhppote.Device
	broadcast types.BroadcastAddr
}

var deviceZones = func() []*time.Location {
	out := []*time.Location{nil, time.UTC, time.FixedZone("east", 5*3600+45*60), time.FixedZone("west", -(9*3600 + 30*60))}
	if l, err := time.LoadLocation("America/New_York"); err == nil {
		out = append(out, l)
	}
	return out
}()

func genCfg(r *rng.R, dev uint32) cfgGen {
	g := cfgGen{}
	if r.Chance(1, 2) {
		b := []byte{192, 168, byte(r.Intn(4)), 255}
		port := uint16(rng.Pick(r, 60000, 60005, 1, 65535))
		g.broadcast = types.BroadcastAddrFrom(netip.AddrFrom4([4]byte{b[0], b[1], b[2], b[3]}), port)
		if r.Chance(1, 6) { // the same IPv4 address held in its 16-byte (IPv4-mapped) form
			g.broadcast = types.BroadcastAddrFrom(netip.AddrFrom16(netip.AddrFrom4([4]byte{b[0], b[1], b[2], b[3]}).As16()), port)
		}
		g.toks = append(g.toks, fmt.Sprintf("bc=%d.%d.%d.%d:%d", b[0], b[1], b[2], b[3], port))
	} else {
		// no broadcast address configured - every third time as it comes out of a JSON configuration: the key given as
		// "" (the library's own encoding of 'not set'), as null, or the not-set value written and read back
		if r.Chance(1, 3) {
			text := rng.Pick(r, `""`, `null`, "round-trip")
			if text == "round-trip" {
				b, _ := json.Marshal(types.BroadcastAddr{})
				text = string(b)
			}
			var v struct {
				Broadcast types.BroadcastAddr `json:"broadcast"`
			}
			func() {
				defer func() { recover() }()
				json.Unmarshal([]byte(`{"broadcast":`+text+`}`), &v) // rejected or accepted: either way nothing is configured
			}()
			g.broadcast = v.Broadcast
		}
		g.toks = append(g.toks, "bc=-")
	}
	add := func(serial uint32) {
		name := rng.Pick(r, "alpha", "beta", "", "gamma")
		proto := rng.Pick(r, "udp", "tcp", "tcp", "any", "TCP", "")
		var addr types.ControllerAddr
		at := "-"
		switch r.Intn(5) {
		case 0: // no address
		case 1:
			addr = types.ControllerAddrFrom(netip.AddrFrom4([4]byte{}), uint16(rng.Pick(r, 60000, 0, 60000, 1, 54321, 60001))) // 0.0.0.0 is no address, whatever the port
			at = fmt.Sprintf("0.0.0.0:%d", addr.Port())
		case 2:
			b := r.Bytes(4)
			addr = types.ControllerAddrFrom(netip.AddrFrom4([4]byte{b[0], b[1], b[2], b[3]}), 0)
			at = fmt.Sprintf("%d.%d.%d.%d:0", b[0], b[1], b[2], b[3])
		default:
			b := r.Bytes(4)
			if b[0] == 0 {
				b[0] = 10
			}
			if r.Chance(1, 8) { // octets that add up to a multiple of 256, octets with the top bit set
				b = rng.Pick(r, []byte{192, 168, 1, 151}, []byte{10, 0, 0, 246}, []byte{127, 0, 0, 129}, []byte{255, 255, 255, 3}, []byte{128, 128, 0, 0})
			}
			port := uint16(rng.Pick(r, 60000, 60000, 54321, 1, 65535, 32768, 32767))
			if g.broadcast.IsValid() && r.Chance(1, 8) {
				// the controller's own address happens to be the configured broadcast address (or differs in the port
				// only): it is still a configured address - that endpoint, over the configured transport
				a4 := g.broadcast.Addr().As4()
				b = a4[:]
				port = rng.Pick(r, g.broadcast.Port(), g.broadcast.Port(), port)
			} else if !g.broadcast.IsValid() && r.Chance(1, 16) {
				b, port = []byte{255, 255, 255, 255}, 60000 // ... or the default one
			}
			addr = types.ControllerAddrFrom(netip.AddrFrom4([4]byte{b[0], b[1], b[2], b[3]}), port)
			at = fmt.Sprintf("%d.%d.%d.%d:%d", b[0], b[1], b[2], b[3], port)
		}
		// NewDevice normalises the protocol to "udp"/"tcp"; a Device literal keeps any string
		var d uhppote.Device
		if r.Bool() {
			d = uhppote.NewDevice(name, serial, addr, proto, []string{"a", "b"}, nil)
		} else {
			// ... and may carry any time zone (descriptive only: nothing a call sends or returns depends on it)
			d = uhppote.Device{Name: name, DeviceID: serial, Address: addr, Protocol: proto, TimeZone: deviceZones[r.Intn(len(deviceZones))]}
		}
		g.devices = append(g.devices, d)
		g.toks = append(g.toks, fmt.Sprintf("dev=%d;%s;%s;%s", serial, name, at, d.Protocol))
	}
	if r.Chance(1, 3) {
		add(dev + 1 + uint32(r.Intn(5)))
	}
	if r.Chance(2, 3) && dev != 0 {
		add(dev)
	}
	if dev == 0 && r.Bool() {
		add(0) // a placeholder entry with id 0 in the configuration must not make id 0 acceptable
	}
	if r.Chance(1, 4) {
		add(dev + 10 + uint32(r.Intn(5)))
	}
	return g
}

// validReply marshals an in-domain reply of the given type for controller dev.
func validReply(r *rng.R, reply any, dev uint32) []byte {
	t := reflect.TypeOf(reply)
	p := reflect.New(t)
	ks := []string{}
	for _, f := range leaves(p.Elem()) {
		k := kindName(f.Type())
		if f.Type() == tSOM || f.Type() == tMsgType {
			k = "msg"
		}
		ks = append(ks, k)
	}
	toks := genVals(r, ks, false)
	fill(r, p.Elem(), toks)
	if f := p.Elem().FieldByName("SerialNumber"); f.IsValid() {
		f.SetUint(uint64(dev))
	}
	b, err := codec.Marshal(p.Interface())
	if err != nil {
		panic(err)
	}
	return b
}

// fieldRanges of a reply type: (offset, width, kind)
type frange struct {
	off, w int
	kind   string
}

func fieldRanges(reply any) []frange {
	out := []frange{}
	t := reflect.TypeOf(reply)
	for i := 0; i < t.NumField(); i++ {
		f := t.Field(i)
		var off int
		if _, err := fmt.Sscanf(f.Tag.Get("uhppote"), "offset:%d", &off); err == nil {
			k := kindName(f.Type)
			out = append(out, frange{off, kindWidth[k], k})
		}
	}
	return out
}

// arrivals builds a datagram sequence for an operation on controller dev from the classes
// {valid, wrong length, wrong serial, serial 0, wrong code, wrong SOM, 0x19 SOM, malformed field, silence}
// the function code of the previous call of the history being played (0 = none)
var lastOpCode byte

func setLastOpCode(c byte) { lastOpCode = c }

func genArrivals(r *rng.R, op opDef, dev uint32, focus string) ([][]byte, string) {
	if op.reply == nil {
		if r.Chance(1, 2) {
			return nil, "silence"
		}
		return [][]byte{r.Bytes(64)}, "stray"
	}
	mk := func(class string) []byte {
		b := validReply(r, op.reply, dev)
		switch class {
		case "valid":
		case "short":
			b = b[:rng.Pick(r, 0, 1, 8, 63)]
		case "long":
			b = append(b, r.Bytes(rng.Pick(r, 1, 64, 960))...)
		case "wrong-serial":
			other := dev + 1 + uint32(r.Intn(3))
			b[4], b[5], b[6], b[7] = byte(other), byte(other>>8), byte(other>>16), byte(other>>24)
		case "serial-0":
			b[4], b[5], b[6], b[7] = 0, 0, 0, 0
		case "wrong-code":
			b[1] = rng.Pick(r, b[1]^0x02, 0x00, 0x94, 0x20, 0xff)
		case "previous-code": // the reply code of the operation this client called just before (a late reply to THAT call)
			if lastOpCode != 0 && lastOpCode != b[1] {
				b[1] = lastOpCode
			} else {
				b[1] ^= 0x02
			}
		case "wrong-som":
			b[0] = rng.Pick(r, byte(0x18), 0x00, 0x71, 0xff)
		case "som-19-code-20": // the one header the codec exempts (a v6.62 event), as the reply to another operation
			b[0], b[1] = 0x19, 0x20
		case "som-19":
			b[0] = 0x19
		case "malformed":
			frs := fieldRanges(op.reply)
			cands := []frange{}
			for _, f := range frs {
				switch f.kind {
				case "bool", "date", "datetime", "sysdate", "systime", "hhmm", "hhmmptr":
					cands = append(cands, f)
				}
			}
			if len(cands) == 0 {
				b[1] ^= 0x04
			} else {
				f := cands[r.Intn(len(cands))]
				if f.kind == "bool" {
					b[f.off] = rng.Pick(r, byte(2), 0x10, 0xff, 0x80)
				} else if f.kind == "datetime" && r.Chance(1, 3) {
					// the date part is one of the "no value" patterns, the time part is not decimal: still malformed
					copy(b[f.off:f.off+4], rng.Pick(r, []byte{0, 0, 0, 0}, []byte{0, 1, 1, 1}, []byte{0x20, 0, 0, 0}))
					copy(b[f.off+4:f.off+7], []byte{0, 0, 0})
					b[f.off+4+r.Intn(3)] = rng.Pick(r, byte(0x1a), 0xa1, 0xff, 0x0f)
				} else {
					b[f.off+r.Intn(f.w)] = rng.Pick(r, byte(0x1a), 0xa1, 0xff, 0x0f)
				}
			}
		case "calendar":
			// a date field set to a borderline or impossible calendar date (29 February of leap / non-leap years …)
			cands := []frange{}
			for _, f := range fieldRanges(op.reply) {
				switch f.kind {
				case "date", "datetime", "dateptr", "datetimeptr":
					cands = append(cands, f)
				}
			}
			if len(cands) > 0 {
				f := cands[r.Intn(len(cands))]
				d := calendarDates[r.Intn(len(calendarDates))]
				copy(b[f.off:f.off+4], []byte{bcdByte(d[0] / 100), bcdByte(d[0] % 100), bcdByte(d[1]), bcdByte(d[2])})
			}
		case "zeroed-field":
			// a date / time field whose bytes are all zero (the "no value" sentinel) while the rest of the
			// reply stays in domain: the zero system date with a non-zero system time, a zero timestamp ...
			cands := []frange{}
			for _, f := range fieldRanges(op.reply) {
				switch f.kind {
				case "date", "datetime", "sysdate", "systime", "hhmm", "hhmmptr", "dateptr", "datetimeptr":
					cands = append(cands, f)
				}
			}
			if len(cands) > 0 {
				f := cands[r.Intn(len(cands))]
				for i := 0; i < f.w; i++ {
					b[f.off+i] = 0
				}
			}
		case "mutated":
			frs := fieldRanges(op.reply)
			if len(frs) > 0 {
				f := frs[r.Intn(len(frs))]
				pos := f.off + r.Intn(f.w)
				if f.off == 4 { // keep the serial number
					pos = 8 + r.Intn(24)
				}
				if r.Chance(1, 4) { // any byte of the payload, whether the reply struct (as it is declared today) names it or not
					pos = 8 + r.Intn(56)
				}
				b[pos] = rng.Pick(r, r.U8(), 0x00, 0x01, 0x02, 0x24, 0x25, 0x59, 0x60, 0x99, 0xff, 0x12, 0x13, 0x29, 0x30, 0x31, 0x32)
			}
		}
		return b
	}
	classes := []string{"valid", "short", "long", "wrong-serial", "serial-0", "wrong-code", "wrong-som", "som-19", "som-19-code-20", "malformed"}
	switch focus {
	case "valid":
		return [][]byte{mk("valid")}, "valid"
	case "mutated":
		if r.Chance(1, 5) {
			return [][]byte{mk("zeroed-field")}, "zeroed-field"
		}
		if r.Chance(1, 5) {
			return [][]byte{mk("calendar")}, "calendar"
		}
		return [][]byte{mk("mutated")}, "mutated-field"
	case "silence":
		return nil, "silence"
	case "late-reply-of-previous-call":
		return [][]byte{mk("previous-code"), mk("valid")}, "previous-code,valid"
	case "refused": // nothing arrives and the directed paths fail at once, the way a refused connection does
		return nil, "refused"
	}
	n := 1 + r.Intn(4)
	seq := [][]byte{}
	names := []string{}
	for i := 0; i < n; i++ {
		c := classes[r.Intn(len(classes))]
		if i == n-1 && r.Chance(1, 2) {
			c = "valid"
		}
		seq = append(seq, mk(c))
		names = append(names, c)
	}
	return seq, strings.Join(names, ",")
}

func runOp(c *ctx, u uhppote.IUHPPOTE, d *fake.Driver, g cfgGen, op opDef, dev uint32, wild bool, arrivals [][]byte, tags ...string) {
	r := c.r
	argToks, invoke := op.gen(r, dev, wild)
	// replies that echo an argument (profile id, card number): most of the time make the echo match,
	// otherwise nearly every reply of these operations ends in the "wrong echo" error branch and the
	// mapping of the remaining fields is never reached
	if len(argToks) > 0 && r.Chance(3, 4) {
		echoAdjust(op.name, argToks, arrivals)
	}
	d.Calls = nil
	d.Datagrams = arrivals
	d.Consumed = 0
	d.Refuse = false
	for _, tg := range tags {
		if tg == "arrivals/refused" {
			d.Refuse = true
		}
	}
	lastResult = nil
	res := guard(func() string { return invoke(u) })
	if res != "panic" && render(lastResult) == "panic" {
		res = "panic" // the returned value cannot be rendered with String()/JSON
	}
	out := res
	if res != "panic" && res != "mutated-argument" {
		cs := []string{}
		for _, cl := range d.Calls {
			cs = append(cs, fmt.Sprintf("%s %s %s", cl.Method, cl.Addr, cases.Hex(cl.Req)))
		}
		out = fmt.Sprintf("%d %s ; %s", len(d.Calls), strings.Join(cs, " "), res)
	}
	hx := []string{}
	for _, a := range arrivals {
		hx = append(hx, cases.Hex(a))
	}
	line := fmt.Sprintf("op %s %s | %s | %s", op.name, strings.Join(g.toks, " "), strings.Join(append([]string{fmt.Sprintf("u32:%d", dev)}, argToks...), " "), strings.Join(hx, " "))
	c.w.Emit(line, out, append(tags, "op/"+op.name, "res/"+strings.SplitN(res, " ", 2)[0], fmt.Sprintf("calls/%d", len(d.Calls)))...)
}

func genDev(r *rng.R) uint32 {
	// (serial numbers start with the controller model's door count by convention: 1xxxxxxxx .. 4xxxxxxxx)
	return rng.Pick(r, uint32(405419896), 303986753, 1, 0xff000000, 0x00ff0000, 0xffffffff, 0x80000000, r.U32(), r.U32(), 123456789, 201020304, 299999999)
}

func streamOps(c *ctx) {
	r := c.r
	N := 4000 * c.scale
	// (1) fresh client per call: every operation, argument-focused (C01 C07 C06), one valid reply
	for i := 0; i < N; i++ {
		op := opDefs[i%len(opDefs)]
		dev := genDev(r)
		if r.Chance(1, 20) {
			dev = 0
		}
		g := genCfg(r, dev)
		u, d := newClient(g.devices, g.broadcast)
		wild := r.Chance(1, 4)
		arr, cls := genArrivals(r, op, dev, rng.Pick(r, "valid", "valid", "silence", "valid", "valid", "refused"))
		runOp(c, u, d, g, op, dev, wild, arr, "phase/args", "arrivals/"+cls)
	}
	// (2) reply-focused (C02 C03): valid arguments, datagram sequences and mutated replies
	for i := 0; i < 2*N; i++ {
		op := opDefs[i%len(opDefs)]
		dev := genDev(r)
		g := genCfg(r, dev)
		u, d := newClient(g.devices, g.broadcast)
		arr, cls := genArrivals(r, op, dev, rng.Pick(r, "mutated", "mutated", "seq", "seq", "valid"))
		runOp(c, u, d, g, op, dev, false, arr, "phase/replies", "arrivals/"+cls)
	}
	// (3) histories: many calls on ONE client instance (long payload followed by short payload …)
	for h := 0; h < N/15; h++ {
		dev := genDev(r)
		g := genCfg(r, dev)
		u, d := newClient(g.devices, g.broadcast)
		calls := 2 + r.Intn(12)
		if h == 0 {
			calls = 300 // one long history: the 256th call and beyond, failed calls in between
		}
		prevCode, silent := byte(0), false
		for k := 0; k < calls; k++ {
			op := opDefs[r.Intn(len(opDefs))]
			focus := rng.Pick(r, "valid", "seq", "silence")
			if silent && r.Chance(1, 2) { // right after a call nobody answered: its reply comes now, before this call's own
				focus = "late-reply-of-previous-call"
			}
			if k%3 == 2 { // the application empties the device list it was handed (its own copy): nothing changes
				dl := u.DeviceList()
				for key := range dl {
					delete(dl, key)
				}
				dl[dev] = uhppote.Device{DeviceID: dev, Protocol: "tcp"}
			}
			setLastOpCode(prevCode)
			arr, cls := genArrivals(r, op, dev, focus)
			runOp(c, u, d, g, op, dev, r.Chance(1, 6), arr, "phase/history", "arrivals/"+cls)
			prevCode, silent = op.code, focus == "silence"
		}
	}
	// (5) six clients on six goroutines at the same time
	parallelPhase(c, N/200)
	c.w.Notes = append(c.w.Notes, "ops stream, phase parallel: 6 goroutines x 40 calls, each goroutine with its own client, configuration and in-memory driver, two thirds of the calls carrying dates (PutCard, SetTimeProfile, AddTask, SetTime); every call judged by itself as in the sequential phases")
	// (4) the real driver on loopback sockets: the request as the controller stand-in read it from the wire
	wirePhase(c, N/8)
	c.w.Notes = append(c.w.Notes, "ops stream, phase wire: the same operations through the REAL ut0311 driver (broadcast-to / UDP / TCP x debug flag on / off, every operation at least once in each combination) to a stand-in on 127.0.0.1; the request bytes compared with the model are the ones the stand-in read from its socket")
	// (6) one client shared by six goroutines: last, and with everything before it written out (a concurrent map write
	// is a fatal error that takes the process down)
	c.w.Flush()
	sharedPhase(c, 2*c.scale)
	c.w.Notes = append(c.w.Notes, "ops stream, phase shared-client: one client with three configured controllers used by 6 goroutines x 300 calls at once (SetAddress, DeviceList, GetTime, OpenDoor, GetDevice on the in-memory driver): every call returns and the process survives")
	c.w.Notes = append(c.w.Notes, "ops stream: the 31 sendto-based operations through the hooked in-memory driver; phase args: type-directed arguments with boundary values (serials with top byte set, card numbers around the Wiegand-26 limits, PIN 999999/1000000, doors 0..255, nil/partial/extra-key maps, IPv4 / 4-in-6 / nil / IPv6 addresses, dates incl. zero, HH:mm incl. 24:00, SetTime in several Locations), configurations {unconfigured, no address, 0.0.0.0, port 0, valid} x {udp,tcp,any,TCP,''} x broadcast set/unset; phase replies: single mutated fields and datagram sequences over the classes valid/short/long/wrong-serial/serial-0/wrong-code/wrong-som/som-19/malformed; phase history: 2..13 calls on one client instance compared call by call with the stateless model")
}
