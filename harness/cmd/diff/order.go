package main

import (
	"fmt"
	"time"

	"github.com/uhppoted/uhppote-core/types"

	"verif/harness/internal/rng"
)

func init() { streams["order"] = streamOrder }

func b01(b bool) string {
	if b {
		return "1"
	}
	return "0"
}

func validDate(y, m, d int) bool {
	t := time.Date(y, time.Month(m), d, 0, 0, 0, 0, time.UTC)
	return t.Year() == y && int(t.Month()) == m && t.Day() == d && y >= 1 && y <= 9999
}

func randDate(r *rng.R) (int, int, int) {
	for {
		y := 1 + r.Intn(9999)
		if r.Chance(1, 3) {
			y = rng.Pick(r, 1, 2, 1969, 1970, 1999, 2000, 2024, 9998, 9999)
		}
		m := 1 + r.Intn(12)
		d := 1 + r.Intn(31)
		if r.Chance(1, 4) {
			d = rng.Pick(r, 1, 28, 29, 30, 31)
		}
		if validDate(y, m, d) {
			return y, m, d
		}
	}
}

func dateCmp(c *ctx, y1, m1, d1, y2, m2, d2 int, tag string) {
	p := types.ToDate(y1, time.Month(m1), d1)
	q := types.ToDate(y2, time.Month(m2), d2)
	// 0001-01-01 is also what the zero value of the type holds ("no date"): it is a date like any other here
	if dateCmps++; dateCmps%2 == 0 {
		if y1 == 1 && m1 == 1 && d1 == 1 {
			p = types.Date{}
		}
		if y2 == 1 && m2 == 1 && d2 == 1 {
			q = types.Date{}
		}
	}
	out := guard(func() string { return b01(p.Before(q)) + " " + b01(p.Equals(q)) + " " + b01(p.After(q)) })
	c.w.Emit(fmt.Sprintf("date-cmp %d %d %d %d %d %d", y1, m1, d1, y2, m2, d2), out, tag)
}

var dateCmps int

// the same under another process zone (dates are local midnights: the verdict must not depend on it)
func dateCmpIn(c *ctx, zone *time.Location, y1, m1, d1, y2, m2, d2 int, tag string) {
	saved := time.Local
	time.Local = zone
	defer func() { time.Local = saved }()
	p := types.ToDate(y1, time.Month(m1), d1)
	q := types.ToDate(y2, time.Month(m2), d2)
	out := guard(func() string { return b01(p.Before(q)) + " " + b01(p.Equals(q)) + " " + b01(p.After(q)) })
	c.w.Emit(fmt.Sprintf("date-cmp %d %d %d %d %d %d %s", y1, m1, d1, y2, m2, d2, zone.String()), out, tag, "zone/"+zone.String())
}

func hhmmCmp(c *ctx, h1, m1, h2, m2 int, tag string) {
	p := types.NewHHmm(h1, m1)
	q := types.NewHHmm(h2, m2)
	out := guard(func() string { return b01(p.Before(q)) + " " + b01(p.Equals(q)) + " " + b01(p.After(q)) })
	c.w.Emit(fmt.Sprintf("hhmm-cmp %d %d %d %d", h1, m1, h2, m2), out, tag)
}

var segmentCases int

func segmentCase(c *ctx, k, h1, m1, h2, m2 int, tag string) {
	u, d := newClient(nil, types.BroadcastAddr{})
	segs := types.Segments{1: {}, 2: {}, 3: {}}
	segs[uint8(k)] = types.Segment{Start: types.NewHHmm(h1, m1), End: types.NewHHmm(h2, m2)}
	// every third profile also carries entries under keys nobody asks for (only 1..3 are segments): they change nothing
	if segmentCases++; segmentCases%3 == 0 {
		for x := 4; x < 64; x++ {
			segs[uint8(x)] = types.Segment{}
		}
		segs[0] = types.Segment{Start: types.NewHHmm(12, 0), End: types.NewHHmm(11, 0)}
	}
	profile := types.TimeProfile{ID: 29, From: types.ToDate(2024, 1, 1), To: types.ToDate(2024, 12, 31),
		Weekdays: types.Weekdays{}, Segments: segs}
	out := guard(func() string {
		// (controllers of every "model": nine-digit serial numbers starting with 1, 2, 3, 4, short and ten-digit ones)
		serial := []uint32{405419896, 123456789, 201020304, 303986753, 100000000, 299999999, 99, 4294967295}[segmentCases%8]
		_, err := u.SetTimeProfile(serial, profile)
		switch {
		case len(d.Calls) == 1: // the request went out (the scripted silence then times out)
			return "accept"
		case len(d.Calls) == 0 && err != nil:
			return "reject"
		default:
			return fmt.Sprintf("weird calls=%d err=%v", len(d.Calls), err)
		}
	})
	c.w.Emit(fmt.Sprintf("segment %d %d %d %d %d", k, h1, m1, h2, m2), out, tag, "segment/"+out)
}

func streamOrder(c *ctx) {
	r := c.r
	// adjacent days across every month/year boundary of a few years, both directions and equal
	for _, y := range []int{1, 1999, 2000, 2023, 2024, 9998} {
		t := time.Date(y, 1, 1, 0, 0, 0, 0, time.UTC)
		if y == 1 {
			t = t.AddDate(0, 0, 1)
		}
		for i := 0; i < 730; i++ {
			n := t.AddDate(0, 0, 1)
			dateCmp(c, t.Year(), int(t.Month()), t.Day(), n.Year(), int(n.Month()), n.Day(), "date/adjacent")
			dateCmp(c, n.Year(), int(n.Month()), n.Day(), t.Year(), int(t.Month()), t.Day(), "date/adjacent-rev")
			dateCmp(c, t.Year(), int(t.Month()), t.Day(), t.Year(), int(t.Month()), t.Day(), "date/equal")
			t = n
		}
	}
	// the first day of the calendar (the type's zero value) against itself, its neighbour and dates of every era
	for i := 0; i < 40; i++ {
		y, m, d := randDate(r)
		if i < 4 {
			y, m, d = 1, 1, 1+i/2
		}
		dateCmp(c, 1, 1, 1, y, m, d, "date/first-day")
		dateCmp(c, y, m, d, 1, 1, 1, "date/first-day-rev")
	}
	// other process zones: adjacent days around the Unix epoch, year 1/2, 1999/2000 and 9998/9999, plus random pairs
	zones := []*time.Location{time.FixedZone("UTC+1", 3600), time.FixedZone("UTC+10", 36000), time.FixedZone("UTC-5", -18000), time.FixedZone("UTC-11", -39600)}
	for _, n := range []string{"Europe/London", "America/Santiago", "Asia/Kolkata"} {
		if l, err := time.LoadLocation(n); err == nil {
			zones = append(zones, l)
		}
	}
	for _, z := range zones {
		for _, start := range []time.Time{time.Date(1969, 12, 20, 0, 0, 0, 0, time.UTC), time.Date(1, 1, 2, 0, 0, 0, 0, time.UTC),
			time.Date(1999, 12, 20, 0, 0, 0, 0, time.UTC), time.Date(9999, 12, 1, 0, 0, 0, 0, time.UTC), time.Date(2024, 2, 20, 0, 0, 0, 0, time.UTC),
			// the weeks in which the zones above change their offset (London, Santiago: both directions)
			time.Date(2024, 3, 20, 0, 0, 0, 0, time.UTC), time.Date(2024, 8, 28, 0, 0, 0, 0, time.UTC), time.Date(2024, 10, 15, 0, 0, 0, 0, time.UTC)} {
			t := start
			for i := 0; i < 24; i++ {
				n := t.AddDate(0, 0, 1)
				dateCmpIn(c, z, t.Year(), int(t.Month()), t.Day(), n.Year(), int(n.Month()), n.Day(), "date/zone-adjacent")
				dateCmpIn(c, z, n.Year(), int(n.Month()), n.Day(), t.Year(), int(t.Month()), t.Day(), "date/zone-adjacent-rev")
				dateCmpIn(c, z, t.Year(), int(t.Month()), t.Day(), t.Year(), int(t.Month()), t.Day(), "date/zone-equal")
				t = n
			}
		}
		for i := 0; i < 300*c.scale; i++ {
			y1, m1, d1 := randDate(r)
			y2, m2, d2 := randDate(r)
			dateCmpIn(c, z, y1, m1, d1, y2, m2, d2, "date/zone-random")
		}
	}
	for i := 0; i < 40000*c.scale; i++ {
		y1, m1, d1 := randDate(r)
		y2, m2, d2 := randDate(r)
		tag := "date/random"
		switch r.Intn(4) {
		case 0:
			y2 = y1
			tag = "date/same-year"
			if !validDate(y2, m2, d2) {
				d2 = 28
			}
		case 1:
			y2, m2 = y1, m1
			tag = "date/same-month"
			if !validDate(y2, m2, d2) {
				d2 = 28
			}
		}
		if y2 == 1 && m2 == 1 && d2 == 1 {
			d2 = 2
		}
		dateCmp(c, y1, m1, d1, y2, m2, d2, tag)
	}

	// HH:mm: all 1441^2 pairs in the thorough tier, a boundary grid + random otherwise
	if c.tier == "thorough" {
		for a := 0; a <= 1440; a++ {
			for b := 0; b <= 1440; b++ {
				hhmmCmp(c, a/60, a%60, b/60, b%60, "hhmm/all-pairs")
			}
		}
	} else {
		edge := []int{0, 1, 59, 60, 61, 599, 600, 719, 720, 721, 1380, 1439, 1440}
		for _, a := range edge {
			for b := 0; b <= 1440; b++ {
				hhmmCmp(c, a/60, a%60, b/60, b%60, "hhmm/edge-vs-all")
				hhmmCmp(c, b/60, b%60, a/60, a%60, "hhmm/all-vs-edge")
			}
		}
	}
	for i := 0; i < 20000*c.scale; i++ {
		// beyond the clock domain too: the functions are total on ints
		hhmmCmp(c, r.Intn(40)-5, r.Intn(80)-5, r.Intn(40)-5, r.Intn(80)-5, "hhmm/random-wide")
	}

	// date-time vs instant, straddling second boundaries
	for i := 0; i < 40000*c.scale; i++ {
		base := int64(r.Intn(4102444800)) * 1000
		a := base + int64(r.Intn(3000)) - 1000
		b := base + int64(r.Intn(3000)) - 1000
		tag := "dt/straddle"
		if r.Chance(1, 4) {
			// the whole range a controller date-time can hold (years up to 9999), the instant at which a count of
			// nanoseconds since 1970 no longer fits 63 bits (2262-04-11 23:47:16 UTC) in particular; the two instants
			// need not be close
			base = rng.Pick(r, int64(9223372036), int64(9223372037), int64(253402300799), int64(r.Intn(253402300))*1000, int64(4102444800)+int64(r.Intn(1<<31))*100) * 1000
			a = base + int64(r.Intn(3000)) - 1000
			b = rng.Pick(r, base+int64(r.Intn(3000))-1000, int64(r.Intn(4102444800))*1000, base+86400000, int64(253402300799000))
			if r.Bool() {
				a, b = b, a
			}
			tag = "dt/far-future"
		}
		if r.Chance(1, 8) {
			a, b = -int64(r.Intn(5000)), -int64(r.Intn(5000))
			tag = "dt/pre-1970"
		}
		if a < 0 && tag != "dt/pre-1970" {
			a = 0
		}
		if b < 0 && tag != "dt/pre-1970" {
			b = 0
		}
		d := types.DateTime(time.UnixMilli(a))
		out := guard(func() string { return b01(d.Before(time.UnixMilli(b))) })
		c.w.Emit(fmt.Sprintf("dt-before %d %d", a, b), out, tag)
	}

	// the segment guard of SetTimeProfile
	for i := 0; i < 3000*c.scale; i++ {
		a := r.Intn(1441)
		b := r.Intn(1441)
		switch r.Intn(6) {
		case 0:
			b = a
		case 1:
			b = a + rng.Pick(r, -1, 1, -60, 60)
			if b < 0 || b > 1440 {
				b = a
			}
		case 2: // the ends of the day on either side
			b = rng.Pick(r, 0, 1440, 1439, 1)
		case 3:
			a = rng.Pick(r, 0, 1440, 1439, 1)
		}
		segmentCase(c, 1+r.Intn(3), a/60, a%60, b/60, b%60, "segment")
	}
	c.w.Notes = append(c.w.Notes, "dates: all adjacent-day pairs of 6 two-year spans (month and year boundaries), random pairs incl. same-year/same-month; HH:mm: 13 edge values against all 1441 values both ways (thorough: all 1441^2 pairs) + random ints beyond the clock domain; date-times straddling second boundaries; SetTimeProfile segment guard through the hooked driver")
}
