package main

import (
	"fmt"
	"runtime"
	"sync"

	"github.com/uhppoted/uhppote-core/uhppote"

	"verif/harness/internal/rng"
)

func init() { streams["guards"] = streamGuards }

// streamGuards: the Wiegand-26 predicate on boundary and random card numbers (lines `w26 n`), and
// in the thorough tier an in-process sweep of ALL 2^32 card numbers against the div/mod statement
// (a search leg: it reports the first disagreements as ordinary lines).
func streamGuards(c *ctx) {
	r := c.r
	emit := func(n uint32, tag string) {
		out := guard(func() string { return b01(uhppote.VerifIsWiegand26(n)) })
		c.w.Emit(fmt.Sprintf("w26 %d", n), out, tag, "w26/"+out)
	}
	for _, fc := range []uint32{0, 1, 99, 100, 254, 255, 256, 257, 999, 1000, 2559, 2560, 9999, 10000, 25599, 42948, 42949} {
		for _, cn := range []uint32{0, 1, 9999, 10000, 65534, 65535, 65536, 65537, 99998, 99999} {
			n := uint64(fc)*100000 + uint64(cn)
			if n <= 0xffffffff {
				emit(uint32(n), "w26/boundary-grid")
			}
		}
	}
	for _, n := range cardNumbers {
		emit(n, "w26/known-numbers")
	}
	for i := 0; i < 60000*c.scale; i++ {
		switch r.Intn(3) {
		case 0:
			emit(r.U32(), "w26/random-32bit")
		case 1:
			emit(uint32(r.Intn(30000000)), "w26/random-8digit")
		default:
			emit(uint32(r.Intn(257))*100000+uint32(65000+r.Intn(1100)), "w26/near-number-limit")
		}
	}
	if c.tier == "thorough" {
		// all 2^32 card numbers, 16 workers
		workers := runtime.NumCPU()
		bad := make([][]uint32, workers)
		var wg sync.WaitGroup
		for w := 0; w < workers; w++ {
			wg.Add(1)
			go func(w int) {
				defer wg.Done()
				lo := uint64(w) * (1 << 32) / uint64(workers)
				hi := uint64(w+1) * (1 << 32) / uint64(workers)
				for n := lo; n < hi; n++ {
					want := n/100000 <= 255 && n%100000 <= 65535
					if uhppote.VerifIsWiegand26(uint32(n)) != want && len(bad[w]) < 4 {
						bad[w] = append(bad[w], uint32(n))
					}
				}
			}(w)
		}
		wg.Wait()
		nbad := 0
		for _, b := range bad {
			for _, n := range b {
				emit(n, "w26/sweep-disagreement")
				nbad++
			}
		}
		c.w.Notes = append(c.w.Notes, fmt.Sprintf("thorough: all 2^32 card numbers swept in-process against n/100000 <= 255 && n%%100000 <= 65535: %d disagreements (each re-emitted as a line)", nbad))
		c.w.Tags["w26/sweep-2^32-evaluations"] = 1 << 32
	}
	_ = rng.New
	c.w.Notes = append(c.w.Notes, "guards stream: isWiegand26 on a 17x10 boundary grid (facility 0..42949 x number 0..99999 edges), known card numbers, random 32-bit / 8-digit / near-limit numbers")
}
