package main

import (
	"net/netip"
	"sync/atomic"
	"time"

	"github.com/uhppoted/uhppote-core/types"
	"github.com/uhppoted/uhppote-core/uhppote"

	"verif/harness/internal/fake"
)

var clientsBuilt int64

// newClient builds the real client around a fake driver (through the `verif` hook).
func newClient(devices []uhppote.Device, broadcast types.BroadcastAddr) (uhppote.IUHPPOTE, *fake.Driver) {
	d := &fake.Driver{}
	bind := types.BindAddrFrom(netip.MustParseAddr("0.0.0.0"), 0)
	listen := types.ListenAddrFrom(netip.MustParseAddr("0.0.0.0"), 60001)
	// the debug flag only adds logging: every second client has it on
	u := uhppote.VerifNew(bind, broadcast, listen, 100*time.Millisecond, devices, atomic.AddInt64(&clientsBuilt, 1)%2 == 0,
		func(uhppote.VerifDriver) uhppote.VerifDriver { return d })
	return u, d
}
