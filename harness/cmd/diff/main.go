// diff: the correspondence / oracle harness. For one stream it generates inputs from VERIF_SEED,
// runs the REAL implementation in-process (with recover) and writes
//
//	<out>/<stream>.cases   one input line per case (fed unchanged to modeldrv and oracle)
//	<out>/<stream>.impl    the implementation's canonicalised output per case
//	<out>/<stream>.stats.json  input distribution actually hit
package main

import (
	"flag"
	"fmt"
	"io"
	"log"
	"os"

	"verif/harness/internal/cases"
	"verif/harness/internal/rng"
)

type ctx struct {
	w     *cases.Writer
	r     *rng.R
	tier  string
	scale int // 1 quick, larger for thorough / widened search
}

var streams = map[string]func(*ctx){}

func main() {
	stream := flag.String("stream", "", "stream name")
	seed := flag.Uint64("seed", 1, "PRNG seed")
	tier := flag.String("tier", "quick", "quick|thorough")
	scale := flag.Int("scale", 1, "case-count multiplier (widened search)")
	out := flag.String("out", "/verif/.work", "output directory")
	only := flag.Int("only", -1, "emit only the case with this index (replay)")
	first := flag.String("first", "", "run one first-call probe of the `fresh` stream in this (new) process and exit")
	flag.Parse()
	if *first != "" {
		runFirst(*first)
	}

	f, ok := streams[*stream]
	if !ok {
		fmt.Fprintf(os.Stderr, "unknown stream %q\n", *stream)
		os.Exit(2)
	}
	// every second client is built with the debug flag on and prints every message: results go to files
	if devnull, err := os.OpenFile(os.DevNull, os.O_WRONLY, 0); err == nil {
		os.Stdout = devnull
	}
	log.SetOutput(io.Discard)
	c := &ctx{w: cases.New(*out, *stream), r: rng.New(*seed), tier: *tier, scale: *scale}
	c.w.Only = *only
	if *tier == "thorough" {
		c.scale *= 20
	}
	f(c)
	c.w.Close()
}

// guard runs f and converts a panic into the outcome "panic".
func guard(f func() string) (out string) {
	defer func() {
		if e := recover(); e != nil {
			out = "panic"
		}
	}()
	return f()
}
