package main

import (
	"fmt"
	"net"
	"net/netip"
	"sort"
	"strings"
	"time"

	"github.com/uhppoted/uhppote-core/messages"
	"github.com/uhppoted/uhppote-core/types"
	"github.com/uhppoted/uhppote-core/uhppote"

	"verif/harness/internal/cases"
	"verif/harness/internal/fake"
	"verif/harness/internal/rng"
)

func init() { streams["insulate"] = streamInsulate }

// where does a DeleteCard for `dev` go?
func routeProbe(u uhppote.IUHPPOTE, d *fake.Driver, dev uint32) string {
	d.Calls = nil
	d.Datagrams = nil
	u.DeleteCard(dev, 12345)
	if len(d.Calls) != 1 {
		return fmt.Sprintf("calls=%d", len(d.Calls))
	}
	return d.Calls[0].Method + " " + d.Calls[0].Addr
}

// configOf: the client's own copy of the configuration, as a fresh DeviceList shows it
func configOf(u uhppote.IUHPPOTE) string {
	list := u.DeviceList()
	ids := []uint32{}
	for k := range list {
		ids = append(ids, k)
	}
	sort.Slice(ids, func(i, j int) bool { return ids[i] < ids[j] })
	out := []string{}
	for _, k := range ids {
		v := list[k]
		// (door names are left out: the entries of the returned map share their door-name slices with the client, and
		// the property speaks of where requests go - names never decide that)
		out = append(out, fmt.Sprintf("%d:%d/%s/%v/%s", k, v.DeviceID, v.Name, v.Address, v.Protocol))
	}
	return strings.Join(out, " ")
}

func streamInsulate(c *ctx) {
	r := c.r
	w := c.w
	for n := 0; n < 300*c.scale; n++ {
		// --- (a) mutate the caller's device list, the door-name slices and the DeviceList map
		dev := genDev(r)
		if dev == 0 {
			dev = 1
		}
		g := genCfg(r, dev)
		for i := range g.devices {
			g.devices[i].Doors = []string{"front", "back", "side", "garage"}
		}
		devices := append([]uhppote.Device{}, g.devices...)
		u, d := newClient(devices, g.broadcast)
		var before string
		if n%2 == 0 {
			before = routeProbe(u, d, dev) + " ; " + configOf(u)
		} else {
			// the client is NOT used before the caller's list is edited (a copy taken only at first use would be too late):
			// what it must do is what a second client does that was built from the same, unedited configuration
			same := []uhppote.Device{}
			for _, x := range g.devices {
				same = append(same, x.Clone())
			}
			ref, dref := newClient(same, g.broadcast)
			before = routeProbe(ref, dref, dev) + " ; " + configOf(ref)
		}
		what := []string{}
		for i := range devices {
			switch r.Intn(4) {
			case 0:
				devices[i].Address = types.ControllerAddrFrom(netip.MustParseAddr("10.9.8.7"), 12345)
				what = append(what, "address")
			case 1:
				devices[i].Protocol = rng.Pick(r, "tcp", "udp")
				what = append(what, "protocol")
			case 2:
				devices[i].DeviceID ^= 1
				what = append(what, "id")
			default:
				if len(devices[i].Doors) > 0 {
					devices[i].Doors[0] = "mutated"
				}
				what = append(what, "doors")
			}
		}
		list := u.DeviceList()
		for k, v := range list {
			v.Address = types.ControllerAddrFrom(netip.MustParseAddr("10.1.1.1"), 1)
			v.Protocol = "tcp"
			if len(v.Doors) > 0 {
				v.Doors[0] = "scribbled"
			}
			list[k] = v
			delete(list, k+1)
		}
		list[dev] = uhppote.Device{DeviceID: dev, Address: types.ControllerAddrFrom(netip.MustParseAddr("10.2.2.2"), 2), Protocol: "tcp"}
		after := routeProbe(u, d, dev) + " ; " + configOf(u)
		out := "unchanged"
		if after != before {
			out = "changed: " + before + " -> " + after
		}
		w.Emit(fmt.Sprintf("insulate config %s | %d | %s", strings.Join(g.toks, " "), dev, strings.Join(what, ",")), out, "insulate/config")

		// --- (c) results vs later reuse of the delivered network buffers
		type probe struct {
			name string
			run  func(u uhppote.IUHPPOTE) (func() string, error)
			op   opDef
		}
		// what the application may do with a result it was handed: edit it (set by the probe that ran last)
		edit := func() {}
		probes := []probe{
			{"GetDevice", func(u uhppote.IUHPPOTE) (func() string, error) {
				x, err := u.GetDevice(dev)
				edit = func() {
					if x != nil {
						for _, ip := range []net.IP{x.IpAddress, x.SubnetMask, x.Gateway} {
							for i := range ip {
								ip[i] ^= 0x5a
							}
						}
						for i := range x.MacAddress {
							x.MacAddress[i] ^= 0x5a
						}
					}
				}
				return func() string {
					return fmt.Sprintf("%v %v %v %x %v", x.IpAddress, x.SubnetMask, x.Gateway, []byte(x.MacAddress), x.Date)
				}, err
			}, opDefs[0]},
			{"GetListener", func(u uhppote.IUHPPOTE) (func() string, error) {
				a, i, err := u.GetListener(dev)
				return func() string { return fmt.Sprintf("%v %v", a, i) }, err
			}, opDefs[2]},
			{"GetCardByIndex", func(u uhppote.IUHPPOTE) (func() string, error) {
				x, err := u.GetCardByIndex(dev, 1)
				edit = func() {
					if x != nil && x.Doors != nil {
						x.Doors[1], x.Doors[2], x.Doors[3], x.Doors[4] = 29, 1, 0, 254
					}
				}
				return func() string { return fmt.Sprintf("%v", x) }, err
			}, opDefs[10]},
			{"GetStatus", func(u uhppote.IUHPPOTE) (func() string, error) {
				x, err := u.GetStatus(dev)
				edit = func() {
					if x != nil {
						for k := range x.DoorState {
							x.DoorState[k] = !x.DoorState[k]
						}
						for k := range x.DoorButton {
							x.DoorButton[k] = !x.DoorButton[k]
						}
						x.SequenceId ^= 0xffff
					}
				}
				return func() string { return fmt.Sprintf("%v", x) }, err
			}, opDefs[8]},
			{"GetTimeProfile", func(u uhppote.IUHPPOTE) (func() string, error) {
				x, err := u.GetTimeProfile(dev, 29)
				edit = func() {
					if x != nil {
						for k := range x.Weekdays {
							x.Weekdays[k] = !x.Weekdays[k]
						}
						for k := range x.Segments {
							x.Segments[k] = types.Segment{Start: types.NewHHmm(1, 2), End: types.NewHHmm(3, 4)}
						}
					}
				}
				return func() string { return fmt.Sprintf("%v", x) }, err
			}, opDefs[15]},
		}
		p := probes[r.Intn(len(probes))]
		u2, d2 := newClient(g.devices, g.broadcast)
		reply := validReply(r, p.op.reply, dev)
		if p.name == "GetTimeProfile" {
			reply[8] = 29
		}
		if p.name == "GetCardByIndex" && r.Chance(1, 2) { // a card without access to any door (all four permissions 0)
			copy(reply[20:24], []byte{0, 0, 0, 0})
		}
		d2.Datagrams = [][]byte{reply}
		res := guard(func() string {
			show, err := p.run(u2)
			if err != nil {
				return "err"
			}
			b := show()
			editFirst := edit // (the probe sets `edit` again at every run)
			d2.ScribbleDelivered()
			if show() != b {
				return "changed: " + b + " -> " + show()
			}
			// ... and not by the next call either: the same operation once more on the same client, answered with other
			// values - the result kept from the first call is still the first call's
			again := validReply(r, p.op.reply, dev)
			if p.name == "GetTimeProfile" {
				again[8] = 29
			}
			d2.Datagrams = [][]byte{again}
			p.run(u2)
			if show() != b {
				return "changed: " + b + " -> " + show() + " (after the next call)"
			}
			// ... and the other way round: the application edits the result it was handed (its maps, its address bytes),
			// then the same reply arrives again - it reads as it did the first time
			editFirst()
			d2.Datagrams = [][]byte{append([]byte{}, reply...)}
			if show3, err := p.run(u2); err != nil {
				return "changed: the same reply is now refused"
			} else if show3() != b {
				return "changed: " + b + " -> " + show3() + " (the same reply, after the caller edited the earlier result)"
			}
			return "unchanged"
		})
		if res != "err" {
			w.Emit("insulate result "+p.name+" | "+cases.Hex(reply), res, "insulate/result", "insulate/result/"+p.name)
		}

		// --- (d) clones share no mutable storage
		card := types.Card{CardNumber: r.U32(), From: types.ToDate(2024, 1, 1), To: types.ToDate(2024, 12, 31), Doors: map[uint8]uint8{1: r.U8(), 2: r.U8(), 3: r.U8(), 4: r.U8()}, PIN: types.PIN(r.Intn(1000000))}
		orig := fmt.Sprintf("%v", card)
		cl := card.Clone()
		same := fmt.Sprintf("%v", cl) == orig
		cl.Doors[1]++
		cl.Doors[9] = 9
		res = "unchanged"
		if fmt.Sprintf("%v", card) != orig || !same {
			res = "changed"
		}
		card.Doors[2]++
		if cl.Doors[2] == card.Doors[2] && cl.Doors[2] != 0 {
			res = "changed"
		}
		w.Emit(fmt.Sprintf("insulate clone card %d", card.CardNumber), res, "insulate/clone")
		// ... also for a card without any door entry (an empty map, a nil map): writing through the clone or through
		// the original afterwards must not show in the other
		for _, doors := range []map[uint8]uint8{{}, nil, {3: 0}} {
			c0 := types.Card{CardNumber: card.CardNumber, Doors: doors}
			k := c0.Clone()
			res = "unchanged"
			if k.CardNumber != c0.CardNumber {
				res = "changed"
			}
			if k.Doors != nil {
				k.Doors[3] = 1
				if c0.Doors[3] == 1 {
					res = "changed"
				}
			}
			if c0.Doors != nil {
				c0.Doors[4] = 7
				if k.Doors[4] == 7 {
					res = "changed"
				}
			}
			w.Emit(fmt.Sprintf("insulate clone card-with-%d-doors %d", len(doors), card.CardNumber), res, "insulate/clone")
		}
		dv := uhppote.Device{Name: "x", DeviceID: dev, Doors: []string{"a", "b", "c", "d"}, TimeZone: time.UTC, Protocol: "udp"}
		dc := dv.Clone()
		dc.Doors[0] = "z"
		res = "unchanged"
		if dv.Doors[0] != "a" || len(dc.Doors) != 4 || dc.Doors[1] != "b" {
			res = "changed"
		}
		w.Emit(fmt.Sprintf("insulate clone device %d", dev), res, "insulate/clone")
		// ... an EQUAL value: every field as it was, whatever protocol name and time zone the device carries
		for _, proto := range []string{"udp", "tcp", "any", "", "TCP"} {
			for _, tz := range []*time.Location{nil, time.UTC, time.FixedZone("x", 3600)} {
				d0 := uhppote.Device{Name: "n", DeviceID: dev, Address: types.ControllerAddrFrom(netip.AddrFrom4([4]byte{10, 1, 2, 3}), 54321), Doors: []string{"a", "b"}, TimeZone: tz, Protocol: proto}
				c0 := d0.Clone()
				res = "unchanged"
				if c0.Name != d0.Name || c0.DeviceID != d0.DeviceID || c0.Address != d0.Address || c0.Protocol != d0.Protocol || c0.TimeZone != d0.TimeZone || fmt.Sprint(c0.Doors) != fmt.Sprint(d0.Doors) {
					res = fmt.Sprintf("changed: %q %v -> %q %v", d0.Protocol, d0.TimeZone, c0.Protocol, c0.TimeZone)
				}
				w.Emit(fmt.Sprintf("insulate clone device-fields %d %q %v", dev, proto, tz), res, "insulate/clone")
			}
		}
	}
	// (b) arguments are never modified: covered by the ops stream (PutCard / SetTimeProfile compare
	// their map arguments before and after); here the remaining slice / map arguments
	for n := 0; n < 200*c.scale; n++ {
		dev := genDev(r) | 1
		u, d := newClient(nil, types.BroadcastAddr{})
		d.Datagrams = nil
		ip := net.IP{192, 168, 1, byte(r.Intn(256))}
		mask := net.IP{255, 255, 255, 0}
		gw := net.IPv4(192, 168, 1, 1)
		b1 := fmt.Sprintf("%v %v %v", []byte(ip), []byte(mask), []byte(gw))
		u.SetAddress(dev, ip, mask, gw)
		readers := map[uint8]bool{1: true, 3: r.Bool()}
		b2 := fmt.Sprintf("%v", readers)
		u.ActivateKeypads(dev, readers)
		codes := []uint32{1, 1000000, 2, 3, 4, 5}
		b3 := fmt.Sprintf("%v", codes)
		u.SetDoorPasscodes(dev, 1, codes...)
		wd := types.Weekdays{time.Monday: true}
		task := types.Task{Task: 1, Door: 1, From: types.ToDate(2024, 1, 1), To: types.ToDate(2024, 2, 1), Weekdays: wd}
		b4 := fmt.Sprintf("%v", wd)
		u.AddTask(dev, task)
		res := "unchanged"
		if fmt.Sprintf("%v %v %v", []byte(ip), []byte(mask), []byte(gw)) != b1 || fmt.Sprintf("%v", readers) != b2 || fmt.Sprintf("%v", codes) != b3 || fmt.Sprintf("%v", wd) != b4 {
			res = "changed"
		}
		w.Emit(fmt.Sprintf("insulate args %d", dev), res, "insulate/args")
	}
	_ = messages.GetDeviceResponse{}
	w.Notes = append(w.Notes, "insulate stream: (a) build a client, mutate the caller's device list (address, protocol, id, door names) and the map, entries and slices returned by DeviceList, then observe where a request goes; (b) slice / map arguments of SetAddress, ActivateKeypads, SetDoorPasscodes, AddTask compared before and after (PutCard / SetTimeProfile: ops stream); (c) results of GetDevice / GetListener / GetCardByIndex / GetStatus / GetTimeProfile re-read after every delivered buffer was overwritten; (d) Card.Clone and Device.Clone mutated on both sides")
}
