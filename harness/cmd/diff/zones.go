package main

import (
	"encoding/json"
	"fmt"
	"github.com/uhppoted/uhppote-core/uhppote"
	"net"
	"os"
	"path/filepath"
	"sort"
	"strings"
	"syscall"
	"time"

	codec "github.com/uhppoted/uhppote-core/encoding/UTO311-L0x"
	"github.com/uhppoted/uhppote-core/encoding/bcd"
	"github.com/uhppoted/uhppote-core/messages"
	"github.com/uhppoted/uhppote-core/types"
)

func init() { streams["zones"] = streamZones }

var quickZones = []string{"UTC", "America/Santiago", "America/Havana", "Atlantic/Azores", "America/Sao_Paulo", "Pacific/Apia",
	"Australia/Lord_Howe", "Africa/Cairo", "Asia/Beirut", "Asia/Amman", "America/Asuncion", "America/Godthab", "Europe/Dublin",
	"Asia/Kathmandu", "Europe/Berlin", "America/New_York", "Etc/GMT-14", "Etc/GMT+12", "Asia/Tehran", "America/St_Johns",
	// zones west of Greenwich whose STANDARD time (not DST) jumped forward across local midnight
	"Pacific/Pitcairn", "Pacific/Kiritimati", "America/Mexico_City", "Pacific/Kanton",
	// zones west of Greenwich in which a clock change of MORE than one hour (or of 90 minutes) removed local midnight
	"America/Argentina/Cordoba", "America/Danmarkshavn", "America/Montevideo", "America/Scoresbysund", "America/Whitehorse"}

func allZones() []string {
	out := []string{}
	root := "/usr/share/zoneinfo"
	filepath.Walk(root, func(p string, info os.FileInfo, err error) error {
		if err != nil || info.IsDir() {
			return nil
		}
		rel := strings.TrimPrefix(p, root+"/")
		if strings.HasPrefix(rel, "posix/") || strings.HasPrefix(rel, "right/") || !strings.ContainsAny(rel[:1], "ABCDEFGHIJKLMNOPQRSTUVWXYZ") || strings.Contains(rel, ".") {
			return nil
		}
		if _, err := time.LoadLocation(rel); err == nil {
			out = append(out, rel)
		}
		return nil
	})
	sort.Strings(out)
	return out
}

type transition struct {
	at      int64 // unix
	before  int   // offset before
	after   int   // offset after
	midnite []time.Time
}

// transitions of loc between two instants
func harvest(loc *time.Location, from, to time.Time) (int, []transition) {
	t := from.In(loc)
	_, init := t.Zone()
	out := []transition{}
	for {
		_, end := t.ZoneBounds()
		if end.IsZero() || end.After(to) || !end.After(t) || len(out) > 5000 {
			break
		}
		_, b := end.Add(-time.Second).In(loc).Zone()
		_, a := end.In(loc).Zone()
		out = append(out, transition{at: end.Unix(), before: b, after: a})
		t = end
	}
	return init, out
}

// zoneSpec: the transitions within ±400 days of unix instant `around`
func zoneSpec(loc *time.Location, around time.Time) string {
	from := around.Add(-400 * 24 * time.Hour)
	to := around.Add(400 * 24 * time.Hour)
	init, trs := harvest(loc, from, to)
	parts := []string{fmt.Sprintf("z=%d", init)}
	for _, tr := range trs {
		parts = append(parts, fmt.Sprintf("%d:%d", tr.at, tr.after))
	}
	return strings.Join(parts, ";")
}

func bcdBytes(s string) []byte {
	p, _ := bcd.Encode(s)
	return *p
}

func fieldsOf(t time.Time) string {
	return fmt.Sprintf("%d %d-%d-%d-%d-%d-%d", t.Unix(), t.Year(), int(t.Month()), t.Day(), t.Hour(), t.Minute(), t.Second())
}

// civilOf: the civil fields a value reports in its own Location
func civilOf(t time.Time) string {
	return fmt.Sprintf("%d-%d-%d-%d-%d-%d", t.Year(), int(t.Month()), t.Day(), t.Hour(), t.Minute(), t.Second())
}

// dateSites: the five ways a date value comes into being; all must agree
func dateSites(y, m, d int) string {
	return guard(func() string {
		a := time.Time(types.ToDate(y, time.Month(m), d))
		out := fieldsOf(a)
		txt := fmt.Sprintf("%04d-%02d-%02d", y, m, d)
		if p, err := types.ParseDate(txt); err != nil || !time.Time(p).Equal(a) {
			out += " DIFF:ParseDate"
		}
		var w types.Date
		if v, err := w.UnmarshalUT0311L0x(append(bcdBytes(fmt.Sprintf("%04d%02d%02d", y, m, d)), 0, 0, 0, 0)); err != nil || !time.Time(*v.(*types.Date)).Equal(a) {
			out += " DIFF:wire"
		}
		var j types.Date
		if err := json.Unmarshal([]byte(`"`+txt+`"`), &j); err != nil || !time.Time(j).Equal(a) {
			out += " DIFF:json"
		}
		// and it encodes back to the same digits
		if b, err := types.Date(a).MarshalUT0311L0x(); err != nil || fmt.Sprintf("%x", b) != fmt.Sprintf("%04d%02d%02d", y, m, d) {
			out += fmt.Sprintf(" ENCODES:%x", b)
		}
		if s := types.Date(a).String(); s != txt {
			out += " STRING:" + s
		}
		if y >= 1969 && y <= 2068 {
			var sd types.SystemDate
			if v, err := sd.UnmarshalUT0311L0x(append(bcdBytes(fmt.Sprintf("%02d%02d%02d", y%100, m, d)), 0, 0, 0)); err != nil || !time.Time(*v.(*types.SystemDate)).Equal(a) {
				out += " DIFF:sysdate"
			}
		}
		out += opDateSites(y, m, d, a)
		return out
	})
}

func noonExists(loc *time.Location, d time.Time) bool {
	t := time.Date(d.Year(), d.Month(), d.Day(), 12, 0, 0, 0, loc)
	return t.Year() == d.Year() && t.Month() == d.Month() && t.Day() == d.Day() && t.Hour() == 12
}

// orderSites: day a is the day before day b; each made in the four ways a date comes into being, every pairing compared
func orderSites(a, b time.Time) string {
	return guard(func() string {
		mk := func(d time.Time) map[string]types.Date {
			y, m, dd := d.Year(), int(d.Month()), d.Day()
			out := map[string]types.Date{"ToDate": types.ToDate(y, time.Month(m), dd)}
			txt := fmt.Sprintf("%04d-%02d-%02d", y, m, dd)
			if p, err := types.ParseDate(txt); err == nil {
				out["ParseDate"] = p
			}
			var w types.Date
			if v, err := w.UnmarshalUT0311L0x(append(bcdBytes(fmt.Sprintf("%04d%02d%02d", y, m, dd)), 0, 0, 0, 0)); err == nil {
				out["wire"] = *v.(*types.Date)
			}
			var j types.Date
			if err := json.Unmarshal([]byte(`"`+txt+`"`), &j); err == nil {
				out["json"] = j
			}
			return out
		}
		as, bs := mk(a), mk(b)
		bad := []string{}
		for _, ka := range []string{"ToDate", "ParseDate", "wire", "json"} {
			for _, kb := range []string{"ToDate", "ParseDate", "wire", "json"} {
				x, okx := as[ka]
				y, oky := bs[kb]
				if !okx || !oky {
					bad = append(bad, ka+"/"+kb+":missing")
					continue
				}
				if !(x.Before(y) && !x.Equals(y) && !x.After(y) && y.After(x) && !y.Before(x) && !y.Equals(x)) {
					bad = append(bad, ka+"/"+kb)
				}
			}
		}
		if len(bad) == 0 {
			return "ordered"
		}
		return "DISORDER:" + strings.Join(bad, ",")
	})
}

// opDateSites: the same date through the operations that carry dates - in a reply (GetCardByID, GetCardByIndex,
// GetTimeProfile, GetDevice) and in a request (PutCard, SetTimeProfile, AddTask): what an operation returns is the
// value the wire decoder gives, what it sends are the digits the wire encoder gives. Empty when everything agrees.
func opDateSites(y, m, d int, a time.Time) string {
	const dev = 405419896
	out := ""
	digits := bcdBytes(fmt.Sprintf("%04d%02d%02d", y, m, d))
	tz := otherZones[(y+m+d)%len(otherZones)]
	u, drv := newClient([]uhppote.Device{{Name: "z", DeviceID: dev, Protocol: "udp", TimeZone: tz}}, types.BroadcastAddr{})
	// what the wire decoder makes of these digits (compared with the other date sites by the caller)
	var w types.Date
	leaf, err := w.UnmarshalUT0311L0x(append(append([]byte{}, digits...), 0, 0, 0, 0))
	if err != nil {
		return out
	}
	decoded := time.Time(*leaf.(*types.Date))
	same := func(site string, got types.Date) {
		if !time.Time(got).Equal(decoded) {
			out += " DIFF:" + site
		}
	}
	reply := func(msg any, offsets ...int) {
		b, _ := codec.Marshal(msg)
		for _, o := range offsets {
			copy(b[o:o+4], digits)
		}
		drv.Datagrams = [][]byte{b}
	}
	reply(messages.GetCardByIDResponse{SerialNumber: dev, CardNumber: 8165538}, 12, 16)
	if c, err := u.GetCardByID(dev, 8165538); err != nil || c == nil {
		out += " DIFF:GetCardByID:err"
	} else {
		same("GetCardByID.From", c.From)
		same("GetCardByID.To", c.To)
	}
	reply(messages.GetCardByIndexResponse{SerialNumber: dev, CardNumber: 8165538}, 12, 16)
	if c, err := u.GetCardByIndex(dev, 1); err != nil || c == nil {
		out += " DIFF:GetCardByIndex:err"
	} else {
		same("GetCardByIndex.From", c.From)
		same("GetCardByIndex.To", c.To)
	}
	reply(messages.GetTimeProfileResponse{SerialNumber: dev, ProfileID: 29}, 9, 13)
	if p, err := u.GetTimeProfile(dev, 29); err != nil || p == nil {
		out += " DIFF:GetTimeProfile:err"
	} else {
		same("GetTimeProfile.From", p.From)
		same("GetTimeProfile.To", p.To)
	}
	reply(messages.GetDeviceResponse{SerialNumber: dev, IpAddress: net.IPv4(10, 0, 0, 1), SubnetMask: net.IPv4(255, 0, 0, 0), Gateway: net.IPv4(10, 0, 0, 254), MacAddress: types.MacAddress{1, 2, 3, 4, 5, 6}}, 28)
	if v, err := u.GetDevice(dev); err != nil || v == nil {
		out += " DIFF:GetDevice:err"
	} else {
		same("GetDevice.Date", v.Date)
	}
	// requests
	encoded, err := types.Date(a).MarshalUT0311L0x() // what the wire encoder makes of the value (compared with the digits by the caller)
	if err != nil {
		return out
	}
	sent := func(site string, offsets ...int) {
		if len(drv.Calls) != 1 {
			out += " DIFF:" + site + ":not-sent"
			return
		}
		for _, o := range offsets {
			if fmt.Sprintf("%x", drv.Calls[0].Req[o:o+4]) != fmt.Sprintf("%x", encoded) {
				out += fmt.Sprintf(" DIFF:%s@%d:%x", site, o, drv.Calls[0].Req[o:o+4])
			}
		}
	}
	date := types.Date(a)
	if date.IsZero() { // 0001-01-01 in a zone at offset 0 is the "no date" value: encoded as zeroes, refused by SetTimeProfile
		return out
	}
	drv.Calls, drv.Datagrams = nil, nil
	u.PutCard(dev, types.Card{CardNumber: 8165538, From: date, To: date, Doors: map[uint8]uint8{1: 1}})
	sent("PutCard", 12, 16)
	drv.Calls = nil
	u.SetTimeProfile(dev, types.TimeProfile{ID: 29, From: date, To: date, Weekdays: types.Weekdays{time.Monday: true},
		Segments: types.Segments{1: types.Segment{}, 2: types.Segment{}, 3: types.Segment{}}})
	sent("SetTimeProfile", 9, 13)
	drv.Calls = nil
	u.AddTask(dev, types.Task{Task: 1, Door: 1, From: date, To: date, Weekdays: types.Weekdays{time.Monday: true}})
	sent("AddTask", 8, 12)
	return out
}

// zones a controller may be configured with / a SetTime argument may carry (nil: none)
var otherZones = func() []*time.Location {
	out := []*time.Location{nil, time.UTC, time.FixedZone("east", 5*3600+45*60), time.FixedZone("west", -(9*3600 + 30*60))}
	for _, n := range []string{"America/New_York", "Australia/Sydney", "Europe/Berlin"} {
		if l, err := time.LoadLocation(n); err == nil {
			out = append(out, l)
		}
	}
	return out
}()

func streamZones(c *ctx) {
	r := c.r
	w := c.w
	zones := quickZones
	if c.tier == "thorough" {
		zones = allZones()
	}
	saved := time.Local
	defer func() { time.Local = saved }()
	nGap := 0
	for _, name := range zones {
		loc, err := time.LoadLocation(name)
		if err != nil {
			continue
		}
		time.Local = loc
		if os.Getenv("VERIF_DEBUG") != "" {
			fmt.Fprintln(os.Stderr, "zone", name, w.N)
		}
		// --- every transition 1900..2037 that removes a local midnight, and its neighbours
		_, trs := harvest(loc, time.Date(1900, 1, 1, 0, 0, 0, 0, time.UTC), time.Date(2038, 1, 1, 0, 0, 0, 0, time.UTC))
		days := map[[3]int]string{}
		for _, tr := range trs {
			if tr.after <= tr.before {
				continue
			}
			// civil interval removed: [at+before, at+after)
			lo, hi := tr.at+int64(tr.before), tr.at+int64(tr.after)
			firstMidnight := ((lo + 86399) / 86400) * 86400
			if lo < 0 {
				firstMidnight = (lo / 86400) * 86400
				if firstMidnight < lo {
					firstMidnight += 86400
				}
			}
			if firstMidnight < hi {
				t := time.Unix(firstMidnight, 0).UTC()
				days[[3]int{t.Year(), int(t.Month()), t.Day()}] = "date/midnight-removed"
				nGap++
				for _, k := range []int{-1, 1} {
					n := t.AddDate(0, 0, k)
					key := [3]int{n.Year(), int(n.Month()), n.Day()}
					if _, ok := days[key]; !ok {
						days[key] = "date/next-to-removed-midnight"
					}
				}
			}
		}
		keys := make([][3]int, 0, len(days))
		for k := range days {
			keys = append(keys, k)
		}
		sort.Slice(keys, func(i, j int) bool {
			a, b := keys[i], keys[j]
			return a[0] < b[0] || (a[0] == b[0] && (a[1] < b[1] || (a[1] == b[1] && a[2] < b[2])))
		})
		emitDate := func(y, m, d int, tag string) {
			zs := zoneSpec(loc, time.Date(y, time.Month(m), d, 12, 0, 0, 0, time.UTC))
			w.Emit(fmt.Sprintf("zdate %s %s | %d %d %d", strings.ReplaceAll(name, " ", "_"), zs, y, m, d), dateSites(y, m, d), tag, "zone/"+name)
		}
		for _, k := range keys {
			emitDate(k[0], k[1], k[2], days[k])
		}
		// discovery in this zone: a reply dated on such a day is listed with that date
		for _, k := range keys {
			y, m, d := k[0], k[1], k[2]
			if !noonExists(loc, time.Date(y, time.Month(m), d, 12, 0, 0, 0, time.UTC)) {
				continue
			}
			out := guard(func() string {
				u, drv := newClient(nil, types.BroadcastAddr{})
				b, _ := codec.Marshal(messages.GetDeviceResponse{SerialNumber: 405419896, IpAddress: net.IPv4(10, 0, 0, 1), SubnetMask: net.IPv4(255, 0, 0, 0), Gateway: net.IPv4(10, 0, 0, 254), MacAddress: types.MacAddress{1, 2, 3, 4, 5, 6}})
				copy(b[28:32], bcdBytes(fmt.Sprintf("%04d%02d%02d", y, m, d)))
				drv.Datagrams = [][]byte{b}
				devs, err := u.GetDevices()
				if err != nil || len(devs) != 1 {
					return fmt.Sprintf("entries=%d", len(devs))
				}
				t := time.Time(devs[0].Date)
				return fmt.Sprintf("%d %d %d", t.Year(), int(t.Month()), t.Day())
			})
			w.Emit(fmt.Sprintf("zdisc %s | %d %d %d", strings.ReplaceAll(name, " ", "_"), y, m, d), out, "discovery/"+days[k], "zone/"+name)
		}
		// the order of neighbouring days, however each of them came into being: the earlier one is before the later
		for _, k := range keys {
			if days[k] != "date/midnight-removed" {
				continue
			}
			day := time.Date(k[0], time.Month(k[1]), k[2], 12, 0, 0, 0, time.UTC)
			for _, delta := range []int{-1, 0} {
				a, b := day.AddDate(0, 0, delta), day.AddDate(0, 0, delta+1)
				if !noonExists(loc, a) || !noonExists(loc, b) {
					continue // a day the zone skipped altogether
				}
				w.Emit(fmt.Sprintf("zorder %s | %d %d %d | %d %d %d", strings.ReplaceAll(name, " ", "_"), a.Year(), int(a.Month()), a.Day(), b.Year(), int(b.Month()), b.Day()),
					orderSites(a, b), "order/next-to-removed-midnight", "zone/"+name)
			}
		}
		n := 60 * c.scale
		if c.tier == "thorough" {
			n = 40
		}
		for i := 0; i < n; i++ {
			y, m, d := genYMD(r, 1900, 2037)
			if r.Chance(1, 5) {
				y, m, d = genYMD(r, 1, 1899) // before the zone's first rule-based transition (local mean time)
			}
			emitDate(y, m, d, "date/random")
		}
		// --- date-times read from a controller around transitions and at random
		emitDT := func(y, mo, d, h, mi, s int, tag string) {
			zs := zoneSpec(loc, time.Date(y, time.Month(mo), d, 12, 0, 0, 0, time.UTC))
			out := guard(func() string {
				var dt types.DateTime
				v, err := dt.UnmarshalUT0311L0x(append(bcdBytes(fmt.Sprintf("%04d%02d%02d%02d%02d%02d", y, mo, d, h, mi, s)), 0, 0, 0))
				if err != nil {
					return "err"
				}
				t := time.Time(*v.(*types.DateTime))
				if t.IsZero() {
					return "zero"
				}
				res := fieldsOf(t)
				var baseStatus *time.Time // what GetStatus reports for a controller that is not configured
				// the status system date + time recombination must agree with the wire date-time
				if y >= 1969 && y <= 2068 {
					reply := messages.GetStatusResponse{SerialNumber: 405419896}
					b, _ := codec.Marshal(reply)
					copy(b[51:54], bcdBytes(fmt.Sprintf("%02d%02d%02d", y%100, mo, d)))
					copy(b[37:40], bcdBytes(fmt.Sprintf("%02d%02d%02d", h, mi, s)))
					u, drv := newClient(nil, types.BroadcastAddr{})
					drv.Datagrams = [][]byte{b}
					if st, err := u.GetStatus(405419896); err != nil {
						res += " STATUS:err"
					} else {
						base := time.Time(st.SystemDateTime)
						baseStatus = &base
						if !time.Time(st.SystemDateTime).Equal(t) {
							res += " STATUS:" + fieldsOf(time.Time(st.SystemDateTime))
						}
					}
					// ... and so must the same datagram delivered as an event through the listener
					ul, dl := newClient(nil, types.BroadcastAddr{})
					dl.Datagrams = [][]byte{b}
					rec := &recorder{}
					q := make(chan os.Signal, 1)
					done := make(chan error, 1)
					go func() { done <- ul.Listen(rec, q) }()
					for w := time.Now().Add(time.Second); rec.count() < 2 && time.Now().Before(w); {
						time.Sleep(100 * time.Microsecond)
					}
					q <- syscall.SIGINT
					select {
					case <-done:
					case <-time.After(2 * time.Second):
					}
					rec.mu.Lock()
					if len(rec.status) != 1 {
						res += fmt.Sprintf(" LISTEN:%d-events", len(rec.status))
					} else if !time.Time(rec.status[0].SystemDateTime).Equal(t) {
						res += " LISTEN:" + fieldsOf(time.Time(rec.status[0].SystemDateTime))
					}
					rec.mu.Unlock()
				}
				// ... and so must GetTime and SetTime, whatever time zone the controller is configured with and whatever
				// Location the SetTime argument carries (the reply's digits are the civil time to report)
				{
					const dev = 405419896
					tz := otherZones[(y+mo+d+h)%len(otherZones)]
					devices := []uhppote.Device{{Name: "z", DeviceID: dev, Protocol: "udp", TimeZone: tz}}
					ug, dg := newClient(devices, types.BroadcastAddr{})
					bg, _ := codec.Marshal(messages.GetTimeResponse{SerialNumber: dev})
					copy(bg[8:15], bcdBytes(fmt.Sprintf("%04d%02d%02d%02d%02d%02d", y, mo, d, h, mi, s)))
					dg.Datagrams = [][]byte{bg}
					if got, err := ug.GetTime(dev); err != nil {
						res += " GETTIME:err"
					} else if f := civilOf(time.Time(got.DateTime)); f != civilOf(t) {
						res += " GETTIME:" + f
					}
					// ... and the status system date-time, whichever zone the controller is configured with
					if baseStatus != nil {
						for _, z := range otherZones {
							us, ds := newClient([]uhppote.Device{{Name: "z", DeviceID: dev, Protocol: "udp", TimeZone: z}}, types.BroadcastAddr{})
							b, _ := codec.Marshal(messages.GetStatusResponse{SerialNumber: dev})
							copy(b[51:54], bcdBytes(fmt.Sprintf("%02d%02d%02d", y%100, mo, d)))
							copy(b[37:40], bcdBytes(fmt.Sprintf("%02d%02d%02d", h, mi, s)))
							ds.Datagrams = [][]byte{b}
							if st, err := us.GetStatus(dev); err != nil {
								res += " GETSTATUS:err"
								break
							} else if f := civilOf(time.Time(st.SystemDateTime)); f != civilOf(*baseStatus) {
								res += " GETSTATUS:" + f // the zone a controller is configured with changes what its status reports
								break
							}
						}
					}
					be, _ := codec.Marshal(messages.GetEventResponse{SerialNumber: dev, Index: 17, Type: 1})
					copy(be[20:27], bcdBytes(fmt.Sprintf("%04d%02d%02d%02d%02d%02d", y, mo, d, h, mi, s)))
					dg.Datagrams = [][]byte{be}
					if got, err := ug.GetEvent(dev, 17); err != nil || got == nil {
						res += " GETEVENT:err"
					} else if f := civilOf(time.Time(got.Timestamp)); f != civilOf(t) {
						res += " GETEVENT:" + f
					}
					bs, _ := codec.Marshal(messages.SetTimeResponse{SerialNumber: dev})
					copy(bs[8:15], bcdBytes(fmt.Sprintf("%04d%02d%02d%02d%02d%02d", y, mo, d, h, mi, s)))
					dg.Datagrams = [][]byte{bs}
					argLoc := otherZones[(y+mo+d+h+1)%len(otherZones)]
					if argLoc == nil {
						argLoc = time.UTC
					}
					if got, err := ug.SetTime(dev, time.Date(2024, 5, 6, 7, 8, 9, 0, argLoc)); err != nil {
						res += " SETTIME:err"
					} else if f := civilOf(time.Time(got.DateTime)); f != civilOf(t) {
						res += " SETTIME:" + f
					}
				}
				return res
			})
			w.Emit(fmt.Sprintf("zdt %s %s | %d %d %d %d %d %d", name, zs, y, mo, d, h, mi, s), out, tag, "zone/"+name)
		}
		for i, tr := range trs {
			if i%3 != 0 && c.tier != "thorough" && len(trs) > 40 {
				continue
			}
			if tr.at < -2000000000 {
				continue
			}
			for _, off := range []int64{int64(tr.before), int64(tr.after)} {
				for _, delta := range []int64{-3600, -1, 0, 1, 1800, 3599, 3600, 7200} {
					t := time.Unix(tr.at+off+delta, 0).UTC() // a civil time near the transition
					if t.Year() >= 1 && t.Year() <= 9999 {
						emitDT(t.Year(), int(t.Month()), t.Day(), t.Hour(), t.Minute(), t.Second(), "dt/near-transition")
					}
				}
			}
		}
		for i := 0; i < n; i++ {
			y, m, d := genYMD(r, 1900, 2037)
			emitDT(y, m, d, r.Intn(24), r.Intn(60), r.Intn(60), "dt/random")
		}
		// civil times that do not exist in some OTHER zone (the zone a controller may be configured with)
		for _, g := range [][6]int{{2021, 3, 14, 2, 30, 0}, {2021, 10, 3, 2, 15, 45}, {2021, 3, 28, 2, 30, 0}, {2024, 3, 10, 2, 0, 0}} {
			emitDT(g[0], g[1], g[2], g[3], g[4], g[5], "dt/gap-of-another-zone")
		}
		// the ends of the two-digit year range of the status system date (69 = 1969 .. 68 = 2068), whatever year it is now
		for _, g := range [][6]int{{2068, 12, 31, 23, 59, 59}, {2050, 1, 1, 0, 0, 1}, {2047, 6, 15, 12, 0, 0}, {2038, 1, 19, 3, 14, 8}, {1969, 1, 2, 0, 0, 0}, {1975, 6, 15, 12, 0, 0}, {1999, 12, 31, 23, 59, 59}} {
			emitDT(g[0], g[1], g[2], g[3], g[4], g[5], "dt/two-digit-year-range")
		}
		// times of day with zero hours and seconds (what a decoder that looks at every other byte would take for zero)
		for _, g := range [][6]int{{2024, 6, 15, 0, 1, 0}, {2024, 6, 15, 0, 59, 0}, {2024, 6, 15, 0, 30, 0}, {2024, 6, 15, 10, 0, 0}, {2024, 6, 15, 0, 0, 30}} {
			emitDT(g[0], g[1], g[2], g[3], g[4], g[5], "dt/zero-hours-and-seconds")
		}
		// dates beyond what a count of nanoseconds since 1970 can hold (before 1677-09-21, after 2262-04-11)
		for _, g := range [][3]int{{2262, 4, 13}, {2300, 1, 1}, {2999, 12, 31}, {9999, 12, 31}, {1677, 9, 20}, {1500, 1, 1}, {1, 1, 2}} {
			emitDate(g[0], g[1], g[2], "date/far-from-1970")
		}
		// --- the zero date-time and the zero date survive a round trip in this zone
		out := guard(func() string {
			var z types.DateTime
			b, err := z.MarshalUT0311L0x()
			if err != nil {
				return "err"
			}
			var dt types.DateTime
			v, err := dt.UnmarshalUT0311L0x(append(b, 0, 0, 0))
			if err != nil {
				return "err"
			}
			zz := "nonzero"
			if time.Time(*v.(*types.DateTime)).IsZero() {
				zz = "zero"
			}
			var d0 types.Date
			b2, _ := d0.MarshalUT0311L0x()
			var d1 types.Date
			v2, _ := d1.UnmarshalUT0311L0x(append(b2, 0, 0, 0))
			if time.Time(*v2.(*types.Date)).IsZero() {
				return zz + " zero"
			}
			return zz + " nonzero"
		})
		_, lmt := time.Date(1, 1, 1, 0, 0, 0, 0, loc).Zone()
		w.Emit(fmt.Sprintf("zzero %s %d", name, lmt), out, "zero-values", "zone/"+name)
	}
	time.Local = saved
	w.Notes = append(w.Notes, fmt.Sprintf("zones stream: %d zones as the process-local zone (time.Local swapped in-process, IANA data from /usr/share/zoneinfo): every date 1900..2037 whose local midnight a transition removes (%d zone/day pairs) and its neighbours, random dates; ToDate / ParseDate / wire / JSON / SystemDate must agree and encode back to the same digits; date-times at 8 offsets around transitions (both offsets) and random; every date also through the operations that carry dates in replies and requests; status system date+time recombination, the same civil time through GetTime (controller configured with another time zone) and SetTime (argument in another Location); zero Date / DateTime round trip", len(zones), nGap))
}
