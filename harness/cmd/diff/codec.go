package main

import (
	"fmt"
	"net/netip"
	"reflect"
	"strings"
	"time"

	codec "github.com/uhppoted/uhppote-core/encoding/UTO311-L0x"

	"verif/harness/internal/cases"
	"verif/harness/internal/rng"
)

func init() {
	streams["codec"] = streamCodec
}

var allKinds = []string{"u8", "u16", "u32", "bool", "ipv4", "addrport", "mac", "serial", "date", "dateptr",
	"datetime", "datetimeptr", "sysdate", "systime", "hhmm", "hhmmptr", "pin", "version", "macaddress"}

func genYMD(r *rng.R, lo, hi int) (int, int, int) {
	for {
		y := lo + r.Intn(hi-lo+1)
		m := 1 + r.Intn(12)
		d := 1 + r.Intn(31)
		if r.Chance(1, 4) {
			m = rng.Pick(r, 1, 2, 9, 10, 11, 12)
			d = rng.Pick(r, 1, 9, 10, 28, 29, 30, 31)
		}
		t := time.Date(y, time.Month(m), d, 0, 0, 0, 0, time.UTC)
		if t.Year() == y && int(t.Month()) == m && t.Day() == d && !(y == 1 && m == 1 && d == 1) {
			return y, m, d
		}
	}
}

// genVal: a value token for a field of the given kind; mostly in-domain, `wild` adds the
// out-of-domain stream (nil / short / long slices, extreme years and clock values, non-IPv4 AddrPort).
func genVal(r *rng.R, kind string, wild bool) string {
	w := wild && r.Chance(1, 2)
	switch kind {
	case "som", "msg", "u8":
		return fmt.Sprintf("u8:%d", rng.Pick(r, 0, 1, 0x17, 0x7f, 0x80, 0xff, r.Intn(256), r.Intn(256)))
	case "u16", "version":
		return fmt.Sprintf("u16:%d", rng.Pick(r, 0, 1, 0x00ff, 0x0100, 0x1234, 0xff00, 0xffff, r.Intn(65536)))
	case "u32", "serial":
		return fmt.Sprintf("u32:%d", rng.Pick(r, uint32(0), 1, 0x000000ff, 0x0000ff00, 0x00ff0000, 0xff000000, 0x12345678, 0xffffffff, 405419896, r.U32(), r.U32()))
	case "pin":
		if w {
			return fmt.Sprintf("u32:%d", rng.Pick(r, uint32(1000000), 0x00ffffff, 0x01000000, 0xffffffff, r.U32()))
		}
		return fmt.Sprintf("u32:%d", rng.Pick(r, 0, 1, 255, 256, 65535, 65536, 999999, r.Intn(1000000)))
	case "bool":
		return "bool:" + b01(r.Bool())
	case "ipv4":
		if w {
			return "ip:" + cases.Hex(rng.Pick(r, nil, []byte{1, 2, 3}, r.Bytes(16), r.Bytes(5), []byte{}))
		}
		b := r.Bytes(4)
		if r.Chance(1, 3) {
			b = append([]byte{0, 0, 0, 0, 0, 0, 0, 0, 0, 0, 0xff, 0xff}, b...)
		}
		return "ip:" + cases.Hex(b)
	case "addrport":
		if w {
			return "ap:other"
		}
		return fmt.Sprintf("ap:%x:%d", r.Bytes(4), rng.Pick(r, 0, 1, 255, 256, 60000, 60001, 65535, r.Intn(65536)))
	case "mac", "macaddress":
		if w {
			return "mac:" + cases.Hex(rng.Pick(r, nil, r.Bytes(3), r.Bytes(8), r.Bytes(1)))
		}
		return "mac:" + cases.Hex(r.Bytes(6))
	case "date", "dateptr":
		if kind == "dateptr" && r.Chance(1, 6) {
			return "dateptr:nil"
		}
		if r.Chance(1, 8) {
			return kind + ":0"
		}
		lo, hi := 1, 9999
		if w {
			lo, hi = rng.Pick(r, 0, 10000, 12345), rng.Pick(r, 0, 10000, 99999)
			if hi < lo {
				lo, hi = hi, lo
			}
		}
		y, m, d := genYMD(r, lo, hi)
		return fmt.Sprintf("%s:%d-%d-%d", kind, y, m, d)
	case "datetime", "datetimeptr":
		tok := "dt"
		if kind == "datetimeptr" {
			tok = "dtptr"
			if r.Chance(1, 6) {
				return "dtptr:nil"
			}
		}
		if r.Chance(1, 8) {
			return tok + ":0"
		}
		if !w && r.Chance(1, 10) { // round and extreme instants
			return tok + ":" + rng.Pick(r, "2000-1-1-0-0-0", "1999-12-31-23-59-59", "2000-1-1-0-0-1", "1-1-1-0-0-1", "1-1-2-0-0-0", "9999-12-31-23-59-59",
				"1970-1-1-0-0-0", "1969-12-31-23-59-59", "2000-2-29-12-0-0", "2100-1-1-0-0-0", "1900-1-1-0-0-0", "2038-1-19-3-14-8")
		}
		lo, hi := 1, 9999
		if w {
			lo, hi = 0, 0
		}
		y, m, d := genYMD(r, lo, hi)
		return fmt.Sprintf("%s:%d-%d-%d-%d-%d-%d", tok, y, m, d, rng.Pick(r, 0, 9, 10, 23, r.Intn(24)), rng.Pick(r, 0, 59, r.Intn(60)), rng.Pick(r, 0, 59, r.Intn(60)))
	case "sysdate":
		if r.Chance(1, 10) {
			return "sd:0"
		}
		lo, hi := 1969, 2068
		if w {
			lo, hi = 1900, 2200
		}
		y, m, d := genYMD(r, lo, hi)
		return fmt.Sprintf("sd:%d-%d-%d", y, m, d)
	case "systime":
		return fmt.Sprintf("st:%d-%d-%d", r.Intn(24), r.Intn(60), r.Intn(60))
	case "hhmm", "hhmmptr":
		tok := "hm"
		if kind == "hhmmptr" {
			tok = "hmptr"
			if r.Chance(1, 6) {
				return "hmptr:nil"
			}
		}
		if w {
			return fmt.Sprintf("%s:%d,%d", tok, rng.Pick(r, -1, 25, 99, 100, 24, 1<<40, -(1<<40), r.Intn(30)), rng.Pick(r, -1, 60, 61, 99, 100, 1<<40, 1, r.Intn(70)))
		}
		if r.Chance(1, 8) {
			return tok + ":24,0"
		}
		return fmt.Sprintf("%s:%d,%d", tok, rng.Pick(r, 0, 9, 10, 23, r.Intn(24)), rng.Pick(r, 0, 9, 10, 59, r.Intn(60)))
	}
	return "none"
}

var otherAddrPorts = []netip.AddrPort{
	{}, netip.MustParseAddrPort("[::1]:60000"), netip.MustParseAddrPort("[::ffff:192.168.1.100]:60001"),
	netip.MustParseAddrPort("[fe80::1%eth0]:60000"), netip.AddrPortFrom(netip.Addr{}, 60000),
}

// fill sets every leaf of s from value tokens.
func fill(r *rng.R, s reflect.Value, toks []string) {
	for i, f := range leaves(s) {
		if i < len(toks) {
			setField(f, toks[i])
			if toks[i] == "ap:other" {
				f.Set(reflect.ValueOf(rng.Pick(r, otherAddrPorts...)))
			}
		}
	}
}

func doMarshal(r *rng.R, t reflect.Type, toks []string) (string, []byte) {
	var bytes []byte
	out := guard(func() string {
		p := reflect.New(t)
		fill(r, p.Elem(), toks)
		var b []byte
		var err error
		if r.Bool() {
			b, err = codec.Marshal(p.Interface())
		} else {
			b, err = codec.Marshal(p.Elem().Interface())
		}
		if err != nil {
			return "err"
		}
		bytes = b
		return "ok " + cases.Hex(b)
	})
	return out, bytes
}

// doUnmarshal decodes b through one of the three entry points in turn: Unmarshal, UnmarshalArrayElement, and
// UnmarshalArray over [the previous datagram that decoded as this type, b] (taking the last element). The answer
// must not depend on the entry point nor on what was decoded before.
var (
	unmarshalTurn int
	lastDecoded   = map[reflect.Type][]byte{}
)

func doUnmarshal(t reflect.Type, b []byte) string {
	unmarshalTurn++
	turn := unmarshalTurn % 5
	out := guard(func() string {
		prev := lastDecoded[t]
		switch {
		case turn == 1:
			arr := reflect.New(reflect.SliceOf(t))
			v, err := codec.UnmarshalArrayElement(b, arr.Interface())
			if err != nil {
				return "err"
			}
			return showStruct(reflect.ValueOf(v))
		case turn == 2 && prev != nil:
			arr := reflect.New(reflect.SliceOf(t))
			if err := codec.UnmarshalArray([][]byte{prev, b}, arr.Interface()); err != nil {
				return "err"
			}
			if arr.Elem().Len() != 2 {
				return fmt.Sprintf("array-of-%d", arr.Elem().Len())
			}
			return showStruct(arr.Elem().Index(1))
		}
		if turn == 3 && prev != nil && hasPointerField(t) {
			// a copy kept of an earlier decoded value must not change when the variable it was decoded into is
			// decoded into again (the codec allocates what pointer fields point to; it must not write through them)
			q := reflect.New(t)
			if err := codec.Unmarshal(prev, q.Interface()); err == nil {
				kept := reflect.New(t).Elem()
				kept.Set(q.Elem())
				before := showStruct(kept)
				codec.Unmarshal(append([]byte{}, b...), q.Interface())
				if showStruct(kept) != before {
					return "changed-an-earlier-decoded-value"
				}
			}
		}
		p := reflect.New(t)
		if turn == 3 && prev != nil && !hasPointerField(t) {
			// the destination already holds another decoded message of this type: every field must be overwritten.
			// (Not for layouts with nil-tolerant pointer fields: an out-of-domain optional field leaves the pointer as
			// it was, which for a fresh destination - the only way the library itself decodes - is nil.)
			if err := codec.Unmarshal(prev, p.Interface()); err != nil {
				p = reflect.New(t)
			}
		}
		own := append([]byte{}, b...)
		if err := codec.Unmarshal(own, p.Interface()); err != nil {
			return "err"
		}
		if turn == 4 {
			// the decoded value shares no memory with the input buffer: overwrite the buffer, then look at the value
			for i := range own {
				own[i] ^= 0xa5
			}
		}
		return showStruct(p.Elem())
	})
	if out != "err" && out != "panic" {
		lastDecoded[t] = append([]byte{}, b...)
	}
	return out
}

func hasPointerField(t reflect.Type) bool {
	for i := 0; i < t.NumField(); i++ {
		f := t.Field(i)
		if f.Type.Kind() == reflect.Ptr {
			return true
		}
		if f.Anonymous && f.Type.Kind() == reflect.Struct && hasPointerField(f.Type) {
			return true
		}
	}
	return false
}

func valueKinds(fs []fieldDesc) []string {
	ks := []string{}
	for _, f := range fs {
		if f.Embed != nil {
			ks = append(ks, valueKinds(f.Embed)...)
		} else if f.Kind == "skip" {
			ks = append(ks, "u32")
		} else {
			ks = append(ks, f.Kind)
		}
	}
	return ks
}

func genVals(r *rng.R, ks []string, wild bool) []string {
	toks := []string{}
	for _, k := range ks {
		toks = append(toks, genVal(r, k, wild))
	}
	return toks
}

func tagText(r *rng.R, n int) string {
	switch r.Intn(5) {
	case 0:
		return fmt.Sprintf("%d", n)
	case 1:
		return fmt.Sprintf("0x%02x", n)
	case 2:
		return fmt.Sprintf("0x%02X", n)
	case 3:
		return fmt.Sprintf("0X%02x", n)
	default:
		return fmt.Sprintf("0x%x", n)
	}
}

// mutate returns variations of a 64-byte image: single-byte changes inside fields and header,
// non-BCD nibbles, wrong lengths.
var calendarDates = [][3]int{{2023, 2, 29}, {2100, 2, 29}, {1900, 2, 29}, {2024, 2, 29}, {2000, 2, 29}, {2024, 2, 30}, {2023, 2, 28}, {2023, 4, 31}, {2023, 6, 31},
	{2023, 13, 1}, {2023, 0, 10}, {2023, 1, 0}, {2023, 1, 32}, {2023, 12, 31}, {9999, 12, 31}, {2023, 2, 31}, {2023, 9, 31}, {2023, 11, 31}}

func bcdByte(n int) byte { return byte(n/10)<<4 | byte(n%10) }

func mutate(r *rng.R, img []byte, fs []fieldDesc) [][]byte {
	out := [][]byte{}
	cp := func() []byte { return append([]byte{}, img...) }
	flat := []fieldDesc{}
	for _, f := range fs {
		if f.Embed != nil {
			flat = append(flat, f.Embed...)
		} else {
			flat = append(flat, f)
		}
	}
	for k := 0; k < 3 && len(flat) > 0; k++ {
		f := flat[r.Intn(len(flat))]
		w, ok := kindWidth[f.Kind]
		if !ok || f.Off+w > 64 {
			continue
		}
		b := cp()
		pos := f.Off + r.Intn(w)
		switch r.Intn(4) {
		case 0:
			b[pos] = r.U8()
		case 1:
			b[pos] = byte(10+r.Intn(6))<<4 | byte(r.Intn(10)) // bad high nibble
		case 2:
			b[pos] = byte(r.Intn(10))<<4 | byte(10+r.Intn(6)) // bad low nibble
		case 3:
			b[pos] = rng.Pick(r, byte(0x00), 0x01, 0x02, 0x13, 0x24, 0x25, 0x29, 0x30, 0x31, 0x32, 0x59, 0x60, 0x61, 0x99, 0xff)
		}
		out = append(out, b)
	}
	// impossible and borderline calendar dates in every date-bearing field: 29 February of leap and non-leap years
	// (2100 and 1900 are not leap years), day 0 / 30 / 31 / 32, month 0 / 13
	for _, f := range flat {
		var year4 bool
		switch f.Kind {
		case "date", "dateptr", "datetime", "datetimeptr":
			year4 = true
		case "sysdate":
		default:
			continue
		}
		if w := kindWidth[f.Kind]; f.Off+w > 64 {
			continue
		}
		for k := 0; k < 2; k++ {
			d := calendarDates[r.Intn(len(calendarDates))]
			b := cp()
			if year4 {
				copy(b[f.Off:f.Off+4], []byte{bcdByte(d[0] / 100), bcdByte(d[0] % 100), bcdByte(d[1]), bcdByte(d[2])})
			} else {
				copy(b[f.Off:f.Off+3], []byte{bcdByte(d[0] % 100), bcdByte(d[1]), bcdByte(d[2])})
			}
			out = append(out, b)
		}
	}
	b := cp()
	b[0] = rng.Pick(r, byte(0x17), 0x19, 0x18, 0x00)
	if r.Bool() {
		b[1] = rng.Pick(r, byte(0x20), 0x21, b[1]^0x01)
	}
	out = append(out, b)
	if r.Chance(1, 3) {
		out = append(out, cp()[:rng.Pick(r, 0, 1, 63)], append(cp(), 0))
	}
	return out
}

func streamCodec(c *ctx) {
	r := c.r
	w := c.w
	emitMarshal := func(lt string, t reflect.Type, toks []string, tags ...string) []byte {
		out, bytes := doMarshal(r, t, toks)
		w.Emit("marshal "+lt+" | "+strings.Join(toks, " "), out, append(tags, "marshal/"+strings.SplitN(out, " ", 2)[0])...)
		return bytes
	}
	emitUnmarshal := func(lt string, t reflect.Type, b []byte, tags ...string) {
		out := doUnmarshal(t, b)
		w.Emit("unmarshal "+lt+" | "+cases.Hex(b), out, append(tags, "unmarshal/"+strings.SplitN(out, " ", 2)[0])...)
	}
	randomPayload := func(code byte) []byte {
		b := r.Bytes(64)
		b[0], b[1] = 0x17, code
		if r.Bool() { // BCD-looking payload so that date/time fields are often valid
			for i := 2; i < 64; i++ {
				b[i] = byte(r.Intn(4))<<4 | byte(r.Intn(10))
			}
		}
		return b
	}

	// (a) every kind at every offset 2..63 (also where it does not fit), value and pointer variants
	for _, k := range allKinds {
		for off := 2; off <= 63; off++ {
			fs := []fieldDesc{{Kind: "msg", Tag: "0x50"}, {Kind: k, Off: off}}
			t := buildType(fs)
			lt := layoutTokens(fs)
			fits := "fits"
			if off+kindWidth[k] > 64 {
				fits = "overhangs"
			}
			for i := 0; i < 2; i++ {
				toks := genVals(r, valueKinds(fs), false)
				img := emitMarshal(lt, t, toks, "single/"+k, "single/"+fits)
				if img != nil {
					emitUnmarshal(lt, t, img, "single/roundtrip")
				}
			}
			emitUnmarshal(lt, t, randomPayload(0x50), "single/random-bytes")
		}
	}

	// (b) random layouts of 1..12 fields
	for n := 0; n < 1500*c.scale; n++ {
		fs := []fieldDesc{}
		code := r.Intn(256)
		switch r.Intn(6) {
		case 0: // no MsgType tag value: the field value is written / zero is expected
			fs = append(fs, fieldDesc{Kind: "msg"})
			code = 0
		case 1:
		default:
			fs = append(fs, fieldDesc{Kind: "msg", Tag: tagText(r, code)})
		}
		somTag := 0x17
		if r.Chance(1, 5) {
			somTag = rng.Pick(r, 0x17, 0x19, 0x19, 0x42)
			if r.Chance(1, 6) {
				fs = append(fs, fieldDesc{Kind: "som"})
			} else {
				fs = append(fs, fieldDesc{Kind: "som", Tag: tagText(r, somTag)})
			}
		}
		nf := 1 + r.Intn(12)
		sloppy := r.Chance(1, 8) // not well-formed: overlaps / overhang allowed
		off := 2 + r.Intn(6)
		body := []fieldDesc{}
		for i := 0; i < nf; i++ {
			k := allKinds[r.Intn(len(allKinds))]
			wd := kindWidth[k]
			if sloppy {
				off = 2 + r.Intn(62)
			} else {
				off += r.Intn(3) * r.Intn(3)
				if off+wd > 64 {
					break
				}
			}
			fd := fieldDesc{Kind: k, Off: off}
			if k == "u8" && r.Chance(1, 3) {
				// (0, 1, 255 and the protocol ids among the fixed values: a constant of zero is a constant too)
				fd.Tag = tagText(r, rng.Pick(r, r.Intn(256), r.Intn(256), 0, 0, 1, 255, 0x17))
			}
			body = append(body, fd)
			off += wd
			if r.Chance(1, 12) {
				body = append(body, fieldDesc{Kind: "skip"})
			}
		}
		if len(body) == 0 {
			body = append(body, fieldDesc{Kind: "u8", Off: 8})
		}
		if r.Chance(1, 4) && len(body) >= 2 { // one level of embedding
			// the embedded struct takes a slice of the fields: at the end, in the middle (fields follow it) or at the start
			cut := r.Intn(len(body))
			end := cut + 1 + r.Intn(len(body)-cut)
			if r.Bool() {
				end = len(body)
			}
			inner := append([]fieldDesc{}, body[cut:end]...)
			if r.Chance(1, 3) {
				inner = append([]fieldDesc{{Kind: "msg", Tag: tagText(r, code)}}, inner...)
			}
			fs = append(fs, body[:cut]...)
			fs = append(fs, fieldDesc{Embed: inner})
			fs = append(fs, body[end:]...)
		} else {
			fs = append(fs, body...)
		}
		t := buildType(fs)
		lt := layoutTokens(fs)
		ltag := "layout/well-formed"
		if sloppy {
			ltag = "layout/sloppy"
		}
		for i := 0; i < 3; i++ {
			wild := r.Chance(1, 5)
			toks := genVals(r, valueKinds(fs), wild)
			vt := "values/in-domain"
			if wild {
				vt = "values/wild"
			}
			img := emitMarshal(lt, t, toks, ltag, vt)
			if img != nil {
				emitUnmarshal(lt, t, img, "unmarshal-of/image")
				for _, m := range mutate(r, img, fs) {
					emitUnmarshal(lt, t, m, "unmarshal-of/mutated-image")
				}
			}
		}
		p := randomPayload(byte(code))
		if somTag == 0x19 && r.Bool() {
			p[0] = 0x19
		}
		emitUnmarshal(lt, t, p, "unmarshal-of/random-payload")
		emitUnmarshal(lt, t, r.Bytes(rng.Pick(r, 0, 1, 2, 63, 65, 1024)), "unmarshal-of/wrong-length")
	}
	// (c) aliasing: decode, overwrite the input buffer, look at the decoded value again
	for n := 0; n < 400*c.scale; n++ {
		k := rng.Pick(r, "mac", "ipv4", "macaddress", "mac", allKinds[r.Intn(len(allKinds))])
		off := 2 + r.Intn(63-kindWidth[k])
		fs := []fieldDesc{{Kind: "msg", Tag: "0x94"}, {Kind: k, Off: off}}
		if r.Bool() {
			k2 := rng.Pick(r, "mac", "ipv4", "macaddress", "u32")
			if off+kindWidth[k]+kindWidth[k2] <= 64 {
				fs = append(fs, fieldDesc{Kind: k2, Off: off + kindWidth[k]})
			}
		}
		t := buildType(fs)
		b := randomPayload(0x94)
		// ... through each of the four entry points in turn
		entry := []string{"Unmarshal", "UnmarshalAs", "UnmarshalArrayElement", "UnmarshalArray"}[n%4]
		out := guard(func() string {
			var v reflect.Value
			switch entry {
			case "UnmarshalAs":
				x, err := codec.UnmarshalAs(b, reflect.New(t).Elem().Interface())
				if err != nil {
					return "err"
				}
				v = reflect.ValueOf(x)
			case "UnmarshalArrayElement":
				x, err := codec.UnmarshalArrayElement(b, reflect.New(reflect.SliceOf(t)).Interface())
				if err != nil {
					return "err"
				}
				v = reflect.ValueOf(x)
			case "UnmarshalArray":
				arr := reflect.New(reflect.SliceOf(t))
				if err := codec.UnmarshalArray([][]byte{b}, arr.Interface()); err != nil || arr.Elem().Len() != 1 {
					return "err"
				}
				v = arr.Elem().Index(0)
			default:
				p := reflect.New(t)
				if err := codec.Unmarshal(b, p.Interface()); err != nil {
					return "err"
				}
				v = p.Elem()
			}
			for v.Kind() == reflect.Ptr || v.Kind() == reflect.Interface {
				v = v.Elem()
			}
			before := showStruct(v)
			for i := range b {
				b[i] ^= 0xa5
			}
			if showStruct(v) == before {
				return "same"
			}
			return "changed"
		})
		for i := range b {
			b[i] ^= 0xa5
		}
		if out == "err" {
			continue
		}
		w.Emit("alias "+layoutTokens(fs)+" | "+cases.Hex(b), out, "alias/"+k, "alias/"+out, "alias-entry/"+entry)
	}
	w.Notes = append(w.Notes, "codec stream: 19 kinds x every offset 2..63 as single-field layouts (marshal, round trip, random bytes); random layouts of 1..12 fields (packed; 1 in 8 deliberately overlapping/overhanging), decimal/hex/upper-case value tags, optional SOM field, one level of embedding; per layout: in-domain and wild values, image, mutated image (field bytes, bad nibbles, header), random payloads, wrong lengths")
}
