package main

import (
	"encoding/json"
	"fmt"
	"net"
	"os"
	"os/exec"
	"strings"
	"time"

	codec "github.com/uhppoted/uhppote-core/encoding/UTO311-L0x"
	"github.com/uhppoted/uhppote-core/encoding/bcd"
	"github.com/uhppoted/uhppote-core/messages"
	"github.com/uhppoted/uhppote-core/types"
)

// The `fresh` stream: what an entry point does when it is the FIRST thing a process asks of the library. Every other
// stream runs thousands of calls in one process, always in the same order, so anything initialised lazily by some
// earlier call is long there. Each probe below runs in a process of its own (this binary re-executed with -first),
// does its one thing first and a few related things after it, and answers "ok" or says what went wrong.

var firstProbes = map[string]func() string{
	// the codec: decoding before anything was ever encoded
	"codec-decode": func() string {
		b := make([]byte, 64)
		b[0], b[1] = 0x17, 0x32
		copy(b[4:8], []byte{0x78, 0x37, 0x2a, 0x18})
		copy(b[8:15], []byte{0x20, 0x24, 0x05, 0x06, 0x07, 0x08, 0x09})
		var reply messages.GetTimeResponse
		if err := codec.Unmarshal(b, &reply); err != nil {
			return "decode-failed: " + err.Error()
		}
		if reply.SerialNumber != 405419896 || time.Time(reply.DateTime).Minute() != 8 {
			return fmt.Sprintf("decoded %v %v", reply.SerialNumber, reply.DateTime)
		}
		out, err := codec.Marshal(messages.GetTimeRequest{SerialNumber: 405419896})
		if err != nil || len(out) != 64 || out[1] != 0x32 {
			return "encode-after-decode-failed"
		}
		return "ok"
	},
	"codec-dispatch": func() string {
		b := make([]byte, 64)
		b[0], b[1] = 0x17, 0x32
		copy(b[8:15], []byte{0x20, 0x24, 0x05, 0x06, 0x07, 0x08, 0x09})
		if _, err := messages.UnmarshalResponse(b); err != nil {
			return "dispatch-failed: " + err.Error()
		}
		b[1] = 0x94
		if _, err := messages.UnmarshalRequest(b); err != nil {
			return "request-dispatch-failed: " + err.Error()
		}
		return "ok"
	},
	"bcd-decode": func() string {
		if s, err := bcd.Decode([]byte{0x20, 0x24}); err != nil || s != "2024" {
			return fmt.Sprintf("decoded %q %v", s, err)
		}
		if b, err := bcd.Encode("123"); err != nil || b == nil || len(*b) != 2 || (*b)[0] != 0x01 {
			return "encode-after-decode-failed"
		}
		return "ok"
	},
	// the four address roles: each one first, then the others - with and without a port, and a string that is no address
	"addr-listen":     func() string { return addrProbe("listen") },
	"addr-bind":       func() string { return addrProbe("bind") },
	"addr-broadcast":  func() string { return addrProbe("broadcast") },
	"addr-controller": func() string { return addrProbe("controller") },
	// text forms: the parser of each type before its formatter or its JSON twin ever ran
	"task-name-text": func() string {
		var tt types.TaskType
		v, err := tt.UnmarshalTSV("UNLOCK DOOR")
		if err != nil {
			return "text-rejected: " + err.Error()
		}
		if p, ok := v.(types.TaskType); !ok || fmt.Sprint(p) != "UNLOCK DOOR" {
			return fmt.Sprintf("text-read-as %v", v)
		}
		var j types.TaskType
		if err := json.Unmarshal([]byte(`"LOCK DOOR"`), &j); err != nil || fmt.Sprint(j) != "LOCK DOOR" {
			return fmt.Sprintf("json-after-text %v %v", j, err)
		}
		return "ok"
	},
	"task-name-json": func() string {
		var j types.TaskType
		if err := json.Unmarshal([]byte(`"UNLOCK DOOR"`), &j); err != nil || fmt.Sprint(j) != "UNLOCK DOOR" {
			return fmt.Sprintf("json %v %v", j, err)
		}
		var tt types.TaskType
		if v, err := tt.UnmarshalTSV("LOCK DOOR"); err != nil {
			return "text-after-json-rejected: " + err.Error()
		} else if p, ok := v.(types.TaskType); !ok || fmt.Sprint(p) != "LOCK DOOR" {
			return fmt.Sprintf("text-after-json-read-as %v", v)
		}
		return "ok"
	},
	"control-state-json": func() string {
		var cs types.ControlState
		if err := json.Unmarshal([]byte(`"normally closed"`), &cs); err != nil || cs != types.ControlState(2) {
			return fmt.Sprintf("json %v %v", cs, err)
		}
		if err := json.Unmarshal([]byte(`""`), &cs); err == nil {
			return "empty-accepted"
		}
		return "ok"
	},
	"date-text": func() string {
		d, err := types.ParseDate("2018-11-04")
		if err != nil || d.String() != "2018-11-04" {
			return fmt.Sprintf("parsed %v %v", d, err)
		}
		var j types.Date
		if err := json.Unmarshal([]byte(`"2024-02-29"`), &j); err != nil || j.String() != "2024-02-29" {
			return fmt.Sprintf("json-after-text %v %v", j, err)
		}
		return "ok"
	},
	"hhmm-text": func() string {
		h, err := types.HHmmFromString("24:00")
		if err != nil || h == nil || h.String() != "24:00" {
			return fmt.Sprintf("parsed %v %v", h, err)
		}
		return "ok"
	},
	"ip-forms": func() string {
		out, err := codec.Marshal(messages.SetAddressRequest{SerialNumber: 405419896, Address: net.IPv4(192, 168, 1, 100).To4(), Mask: net.IPv4(255, 255, 255, 0), Gateway: net.IP{192, 168, 1, 1}, MagicWord: 0x55aaaa55})
		if err != nil {
			return "encode-failed: " + err.Error()
		}
		if fmt.Sprintf("%x", out[8:20]) != "c0a80164ffffff00c0a80101" {
			return fmt.Sprintf("encoded %x", out[8:20])
		}
		return "ok"
	},
}

func addrProbe(first string) string {
	type role struct {
		name  string
		parse func(string) (string, error)
	}
	roles := []role{
		{"listen", func(s string) (string, error) { a, err := types.ParseListenAddr(s); return a.String(), err }},
		{"bind", func(s string) (string, error) { a, err := types.ParseBindAddr(s); return a.String(), err }},
		{"broadcast", func(s string) (string, error) { a, err := types.ParseBroadcastAddr(s); return a.String(), err }},
		{"controller", func(s string) (string, error) { a, err := types.ParseControllerAddr(s); return a.String(), err }},
	}
	order := []role{}
	for _, r := range roles {
		if r.name == first {
			order = append(order, r)
		}
	}
	for _, r := range roles {
		if r.name != first {
			order = append(order, r)
		}
	}
	for _, r := range order {
		if got, err := r.parse("192.168.1.100:54321"); err != nil || got != "192.168.1.100:54321" {
			return fmt.Sprintf("%s with-port: %q %v", r.name, got, err)
		}
		got, err := r.parse("192.168.1.100")
		if r.name == "listen" {
			if err == nil {
				return "listen without-port accepted"
			}
		} else if err != nil || !strings.HasPrefix(got, "192.168.1.100") {
			return fmt.Sprintf("%s without-port: %q %v", r.name, got, err)
		}
		if _, err := r.parse("not an address"); err == nil {
			return r.name + " accepted a string that is no address"
		}
	}
	return "ok"
}

// runFirst: -first <probe> (in the re-executed process): the answer goes to stderr, stdout belongs to the library
func runFirst(name string) {
	f, ok := firstProbes[name]
	if !ok {
		fmt.Fprintln(os.Stderr, "unknown-probe")
		os.Exit(2)
	}
	fmt.Fprintln(os.Stderr, "RESULT "+guard(f))
	os.Exit(0)
}

func init() { streams["fresh"] = streamFresh }

func streamFresh(c *ctx) {
	names := []string{}
	for n := range firstProbes {
		names = append(names, n)
	}
	sortStrings(names)
	for _, n := range names {
		out := "no-answer"
		cmd := exec.Command(os.Args[0], "-first", n)
		cmd.Env = os.Environ()
		b, err := cmd.CombinedOutput()
		for _, l := range strings.Split(string(b), "\n") {
			if strings.HasPrefix(l, "RESULT ") {
				out = strings.TrimSpace(strings.TrimPrefix(l, "RESULT "))
			}
		}
		if out == "no-answer" && err != nil {
			out = "crashed"
			if i := strings.Index(string(b), "panic:"); i >= 0 {
				out = "panic"
			}
		}
		c.w.Emit("fresh "+n, strings.Join(strings.Fields(out), "_"), "fresh/"+n)
	}
	c.w.Notes = append(c.w.Notes, "fresh stream: each probe in a process of its own - the codec decoding before anything was encoded, each address role parsed first, a task name read as text before any JSON and the other way round, dates, HH:mm, BCD, the IP forms: what an entry point does when it is the first thing the process asks of the library")
}

func sortStrings(s []string) {
	for i := 1; i < len(s); i++ {
		for j := i; j > 0 && s[j] < s[j-1]; j-- {
			s[j], s[j-1] = s[j-1], s[j]
		}
	}
}
