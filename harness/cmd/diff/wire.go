package main

// Reflection bridge between Go struct values (shipped message types and types built at run time
// with reflect.StructOf) and the token syntax of the line protocol.

import (
	"encoding/hex"
	"fmt"
	"net"
	"net/netip"
	"reflect"
	"strconv"
	"strings"
	"time"

	"github.com/uhppoted/uhppote-core/types"

	"verif/harness/internal/cases"
)

var (
	tU8       = reflect.TypeOf(uint8(0))
	tU16      = reflect.TypeOf(uint16(0))
	tU32      = reflect.TypeOf(uint32(0))
	tBool     = reflect.TypeOf(false)
	tIP       = reflect.TypeOf(net.IP{})
	tAddrPort = reflect.TypeOf(netip.AddrPort{})
	tMAC      = reflect.TypeOf(net.HardwareAddr{})
	tSerial   = reflect.TypeOf(types.SerialNumber(0))
	tDate     = reflect.TypeOf(types.Date{})
	tDatePtr  = reflect.TypeOf(&types.Date{})
	tDT       = reflect.TypeOf(types.DateTime{})
	tDTPtr    = reflect.TypeOf(&types.DateTime{})
	tSysDate  = reflect.TypeOf(types.SystemDate{})
	tSysTime  = reflect.TypeOf(types.SystemTime{})
	tHHmm     = reflect.TypeOf(types.HHmm{})
	tHHmmPtr  = reflect.TypeOf(&types.HHmm{})
	tPIN      = reflect.TypeOf(types.PIN(0))
	tVersion  = reflect.TypeOf(types.Version(0))
	tMacAddr  = reflect.TypeOf(types.MacAddress{})
	tSOM      = reflect.TypeOf(types.SOM(0))
	tMsgType  = reflect.TypeOf(types.MsgType(0))
)

var kindTypes = map[string]reflect.Type{
	"u8": tU8, "u16": tU16, "u32": tU32, "bool": tBool, "ipv4": tIP, "addrport": tAddrPort, "mac": tMAC,
	"serial": tSerial, "date": tDate, "dateptr": tDatePtr, "datetime": tDT, "datetimeptr": tDTPtr,
	"sysdate": tSysDate, "systime": tSysTime, "hhmm": tHHmm, "hhmmptr": tHHmmPtr, "pin": tPIN,
	"version": tVersion, "macaddress": tMacAddr,
}

var kindWidth = map[string]int{
	"u8": 1, "u16": 2, "u32": 4, "bool": 1, "ipv4": 4, "addrport": 6, "mac": 6,
	"serial": 4, "date": 4, "dateptr": 4, "datetime": 7, "datetimeptr": 7,
	"sysdate": 3, "systime": 3, "hhmm": 2, "hhmmptr": 2, "pin": 3, "version": 2, "macaddress": 6,
}

func kindName(t reflect.Type) string {
	for k, v := range kindTypes {
		if v == t {
			return k
		}
	}
	return ""
}

func ymdTok(t time.Time) string { return fmt.Sprintf("%d-%d-%d", t.Year(), int(t.Month()), t.Day()) }
func dtTok(t time.Time) string {
	return fmt.Sprintf("%d-%d-%d-%d-%d-%d", t.Year(), int(t.Month()), t.Day(), t.Hour(), t.Minute(), t.Second())
}

func hmTok(h types.HHmm) string {
	p := strings.SplitN(h.String(), ":", 2)
	a, _ := strconv.Atoi(p[0])
	b, _ := strconv.Atoi(p[1])
	return fmt.Sprintf("%d,%d", a, b)
}

// showField renders one struct field as a value token.
func showField(f reflect.Value) string {
	switch f.Type() {
	case tSOM, tMsgType, tU8:
		return fmt.Sprintf("u8:%d", f.Uint())
	case tU16, tVersion:
		return fmt.Sprintf("u16:%d", f.Uint())
	case tU32, tSerial, tPIN:
		return fmt.Sprintf("u32:%d", f.Uint())
	case tBool:
		return "bool:" + b01(f.Bool())
	case tIP:
		return "ip:" + cases.Hex(f.Bytes())
	case tMAC, tMacAddr:
		return "mac:" + cases.Hex(f.Bytes())
	case tAddrPort:
		ap := f.Interface().(netip.AddrPort)
		if ap.Addr().Is4() {
			a := ap.Addr().As4()
			return fmt.Sprintf("ap:%s:%d", hex.EncodeToString(a[:]), ap.Port())
		}
		return "ap:other"
	case tDate:
		d := f.Interface().(types.Date)
		if d.IsZero() {
			return "date:0"
		}
		return "date:" + ymdTok(time.Time(d))
	case tDatePtr:
		if f.IsNil() {
			return "dateptr:nil"
		}
		d := *f.Interface().(*types.Date)
		if d.IsZero() {
			return "dateptr:0"
		}
		return "dateptr:" + ymdTok(time.Time(d))
	case tDT:
		d := f.Interface().(types.DateTime)
		if d.IsZero() {
			return "dt:0"
		}
		return "dt:" + dtTok(time.Time(d))
	case tDTPtr:
		if f.IsNil() {
			return "dtptr:nil"
		}
		d := *f.Interface().(*types.DateTime)
		if d.IsZero() {
			return "dtptr:0"
		}
		return "dtptr:" + dtTok(time.Time(d))
	case tSysDate:
		d := f.Interface().(types.SystemDate)
		if d.IsZero() {
			return "sd:0"
		}
		return "sd:" + ymdTok(time.Time(d))
	case tSysTime:
		t := time.Time(f.Interface().(types.SystemTime))
		return fmt.Sprintf("st:%d-%d-%d", t.Hour(), t.Minute(), t.Second())
	case tHHmm:
		return "hm:" + hmTok(f.Interface().(types.HHmm))
	case tHHmmPtr:
		if f.IsNil() {
			return "hmptr:nil"
		}
		return "hmptr:" + hmTok(*f.Interface().(*types.HHmm))
	}
	return "none"
}

func atoi(s string) int { n, _ := strconv.Atoi(s); return n }

func dashInts(s string) []int {
	out := []int{}
	for _, p := range strings.Split(s, "-") {
		out = append(out, atoi(p))
	}
	return out
}

func unhex(s string) []byte {
	if s == "-" {
		return nil
	}
	b, _ := hex.DecodeString(s)
	return b
}

// setField stores the value denoted by a token into a struct field.
// subSecond: a date-time value may carry a fraction of a second (time.Now() does); the wire form has whole seconds
// only and drops it. Derived from the fields so that a case stays a function of its line.
func subSecond(v []int) int {
	return ((v[5]*37 + v[4]*11 + v[3]*7 + v[2]) % 4) * 333000000 // 0, .333, .666, .999 s
}

// zeroDate: the "no date" value - in turn the zero Date and the zero instant carrying a Location (Local, west and east
// of Greenwich), which IsZero() does not tell apart
var zeroDateTurn int

func zeroDate() types.Date {
	zeroDateTurn++
	switch zeroDateTurn % 4 {
	case 1:
		return types.Date(time.Time{}.Local())
	case 2:
		return types.Date(time.Time{}.In(time.FixedZone("W", -5*3600)))
	case 3:
		return types.Date(time.Time{}.In(time.FixedZone("E", 5*3600+45*60)))
	}
	return types.Date{}
}

func setField(f reflect.Value, tok string) {
	p := strings.SplitN(tok, ":", 2)
	arg := ""
	if len(p) > 1 {
		arg = p[1]
	}
	switch f.Type() {
	case tSOM, tMsgType, tU8, tU16, tVersion, tU32, tSerial, tPIN:
		n, _ := strconv.ParseUint(arg, 10, 64)
		f.SetUint(n)
	case tBool:
		f.SetBool(arg == "1")
	case tIP:
		if arg == "-" {
			f.Set(reflect.Zero(tIP))
		} else {
			f.SetBytes(unhex(arg))
		}
	case tMAC:
		if arg == "-" {
			f.Set(reflect.Zero(tMAC))
		} else {
			f.SetBytes(unhex(arg))
		}
	case tMacAddr:
		if arg == "-" {
			f.Set(reflect.Zero(tMacAddr))
		} else {
			f.Set(reflect.ValueOf(types.MacAddress(unhex(arg))))
		}
	case tAddrPort:
		switch {
		case arg == "other":
			// left to the caller (see otherAddrPorts); default: the zero AddrPort
		default:
			q := strings.Split(arg, ":")
			b := unhex(q[0])
			a := netip.AddrFrom4([4]byte{b[0], b[1], b[2], b[3]})
			f.Set(reflect.ValueOf(netip.AddrPortFrom(a, uint16(atoi(q[1])))))
		}
	case tDate:
		if arg != "0" {
			v := dashInts(arg)
			f.Set(reflect.ValueOf(types.ToDate(v[0], time.Month(v[1]), v[2])))
		} else {
			f.Set(reflect.ValueOf(zeroDate()))
		}
	case tDatePtr:
		if arg == "nil" {
		} else if arg == "0" {
			d := zeroDate()
			f.Set(reflect.ValueOf(&d))
		} else {
			v := dashInts(arg)
			d := types.ToDate(v[0], time.Month(v[1]), v[2])
			f.Set(reflect.ValueOf(&d))
		}
	case tDT:
		if arg != "0" {
			v := dashInts(arg)
			f.Set(reflect.ValueOf(types.DateTime(time.Date(v[0], time.Month(v[1]), v[2], v[3], v[4], v[5], subSecond(v), time.Local))))
		}
	case tDTPtr:
		if arg == "nil" {
		} else if arg == "0" {
			f.Set(reflect.ValueOf(&types.DateTime{}))
		} else {
			v := dashInts(arg)
			d := types.DateTime(time.Date(v[0], time.Month(v[1]), v[2], v[3], v[4], v[5], subSecond(v), time.Local))
			f.Set(reflect.ValueOf(&d))
		}
	case tSysDate:
		if arg != "0" {
			v := dashInts(arg)
			f.Set(reflect.ValueOf(types.SystemDate(time.Date(v[0], time.Month(v[1]), v[2], 0, 0, 0, 0, time.Local))))
		}
	case tSysTime:
		v := dashInts(arg)
		f.Set(reflect.ValueOf(types.SystemTime(time.Date(0, 1, 1, v[0], v[1], v[2], 0, time.Local))))
	case tHHmm:
		q := strings.Split(arg, ",")
		f.Set(reflect.ValueOf(types.NewHHmm(atoi(q[0]), atoi(q[1]))))
	case tHHmmPtr:
		if arg != "nil" {
			q := strings.Split(arg, ",")
			h := types.NewHHmm(atoi(q[0]), atoi(q[1]))
			f.Set(reflect.ValueOf(&h))
		}
	}
}

// leaves returns the settable leaf fields of a struct value in the codec's walking order
// (embedded structs flattened).
func leaves(s reflect.Value) []reflect.Value {
	out := []reflect.Value{}
	for i := 0; i < s.NumField(); i++ {
		f := s.Field(i)
		if s.Type().Field(i).Anonymous && f.Kind() == reflect.Struct {
			out = append(out, leaves(f)...)
		} else {
			out = append(out, f)
		}
	}
	return out
}

func showStruct(s reflect.Value) string {
	toks := []string{}
	for _, f := range leaves(s) {
		toks = append(toks, showField(f))
	}
	if len(toks) == 0 {
		return "ok"
	}
	return "ok " + strings.Join(toks, " ")
}

// layoutTokens derives the layout tokens of a struct type from its tags exactly as written
// (used only for types the harness itself generated; shipped messages are referred to by name).
type fieldDesc struct {
	Kind  string // som | msg | skip | <kind>
	Off   int
	Tag   string // value tag text, "" = none
	Embed []fieldDesc
}

func (fd fieldDesc) token() string {
	t := ""
	switch fd.Kind {
	case "som", "msg", "skip":
		t = fd.Kind
	default:
		t = fmt.Sprintf("%s@%d", fd.Kind, fd.Off)
	}
	if fd.Tag != "" {
		t += "=" + fd.Tag
	}
	return t
}

func layoutTokens(fs []fieldDesc) string {
	toks := []string{}
	for _, f := range fs {
		if f.Embed != nil {
			toks = append(toks, "[")
			for _, g := range f.Embed {
				toks = append(toks, g.token())
			}
			toks = append(toks, "]")
		} else {
			toks = append(toks, f.token())
		}
	}
	return strings.Join(toks, " ")
}

func structField(i int, fd fieldDesc) reflect.StructField {
	name := fmt.Sprintf("F%d", i)
	var t reflect.Type
	tag := ""
	switch fd.Kind {
	case "som":
		t = tSOM
	case "msg":
		t = tMsgType
	case "skip":
		t = tU32
	default:
		t = kindTypes[fd.Kind]
		tag = fmt.Sprintf("offset:%d", fd.Off)
	}
	if fd.Tag != "" {
		if tag != "" {
			tag += ", "
		}
		tag += "value:" + fd.Tag
	}
	st := reflect.StructField{Name: name, Type: t}
	if tag != "" {
		st.Tag = reflect.StructTag(fmt.Sprintf(`uhppote:"%s"`, tag))
	}
	return st
}

// buildType turns a layout description into a Go struct type (reflect.StructOf).
func buildType(fs []fieldDesc) reflect.Type {
	sfs := []reflect.StructField{}
	n := 0
	for _, f := range fs {
		if f.Embed != nil {
			inner := []reflect.StructField{}
			// every second embedded struct names its fields F0, F1, … again: the same Go names as fields of the outer
			// struct (legal - the outer one shadows the promoted one for selectors; for the codec they are two fields)
			clash := n%2 == 1
			for k, g := range f.Embed {
				if clash {
					inner = append(inner, structField(k, g))
				} else {
					inner = append(inner, structField(n, g))
				}
				n++
			}
			sfs = append(sfs, reflect.StructField{Name: fmt.Sprintf("E%d", n), Type: reflect.StructOf(inner), Anonymous: true})
			n++
		} else {
			sfs = append(sfs, structField(n, f))
			n++
		}
	}
	return reflect.StructOf(sfs)
}
