package main

import (
	"encoding/json"
	"fmt"
	"net/netip"
	"reflect"
	"sort"
	"strings"
	"time"

	"github.com/uhppoted/uhppote-core/types"

	"verif/harness/internal/cases"
	"verif/harness/internal/rng"
)

func init() { streams["text"] = streamText }

func quote(s string) []byte { return []byte(`"` + s + `"`) }

// escapeFree: the text can be put between quotes as a JSON string without escapes
func escapeFree(s string) bool {
	for i := 0; i < len(s); i++ {
		if s[i] < 0x20 || s[i] == '"' || s[i] == '\\' || s[i] >= 0x7f {
			return false
		}
	}
	return true
}

func textParse(kind, s string) string {
	s0 := ""
	return guard(func() string {
		switch kind {
		case "date-parse":
			d, err := types.ParseDate(s)
			if err != nil {
				return "err"
			}
			return "ok " + strings.TrimPrefix(tok(d), "date:")
		case "date-json":
			var d types.Date
			if err := json.Unmarshal(quote(s), &d); err != nil {
				return "err"
			}
			return "ok " + strings.TrimPrefix(tok(d), "date:")
		case "hhmm-parse":
			h, err := types.HHmmFromString(s)
			if err != nil {
				return "err"
			}
			return "ok " + hmTok(*h)
		case "hhmm-json":
			var h types.HHmm
			if err := json.Unmarshal(quote(s), &h); err != nil {
				return "err"
			}
			return "ok " + hmTok(h)
		case "pin-json":
			var p types.PIN
			if err := json.Unmarshal(quote(s), &p); err != nil {
				return "err"
			}
			return fmt.Sprintf("ok %d", p)
		case "cs-json":
			var c types.ControlState
			if err := json.Unmarshal(quote(s), &c); err != nil {
				return "err"
			}
			return fmt.Sprintf("ok %d", c)
		case "task-tsv":
			var t types.TaskType
			v, err := t.UnmarshalTSV(s)
			if err != nil {
				return "err"
			}
			return fmt.Sprintf("ok %d", v.(types.TaskType))
		case "task-json-raw":
			var t types.TaskType
			if err := t.UnmarshalJSON([]byte(s)); err != nil {
				return "err"
			}
			return fmt.Sprintf("ok %d", t)
		case "version-json":
			var v types.Version
			if err := json.Unmarshal(quote(s), &v); err != nil {
				return "err"
			}
			return fmt.Sprintf("ok %d", v)
		case "systime-parse":
			t, err := types.TimeFromString(s)
			if err != nil {
				return "err"
			}
			tt := time.Time(*t)
			return fmt.Sprintf("ok %d-%d-%d", tt.Hour(), tt.Minute(), tt.Second())
		case "weekdays-json":
			for _, fresh := range []bool{true, false} { // a nil map and a pre-filled one must give the same answer
				var w types.Weekdays
				if !fresh {
					w = types.Weekdays{time.Monday: true, time.Sunday: true, time.Wednesday: false}
				}
				if err := json.Unmarshal(quote(s), &w); err != nil {
					return "err"
				}
				bits := ""
				for _, d := range []time.Weekday{time.Monday, time.Tuesday, time.Wednesday, time.Thursday, time.Friday, time.Saturday, time.Sunday} {
					if w[d] {
						bits += "1"
					} else {
						bits += "0"
					}
				}
				if fresh {
					s0 = bits
				} else if bits != s0 {
					return "differs-by-target " + s0 + " " + bits
				}
			}
			return "ok " + s0
		case "cardformat-parse":
			f, err := types.CardFormatFromString(s)
			if err != nil {
				return "err"
			}
			return fmt.Sprintf("ok %d", f)
		}
		return "?"
	})
}

func inner(b []byte, err error) string {
	if err != nil {
		return "err"
	}
	s := string(b)
	if len(s) >= 2 && s[0] == '"' && s[len(s)-1] == '"' && escapeFree(s[1:len(s)-1]) {
		return "text " + cases.Hex([]byte(s[1:len(s)-1]))
	}
	return "raw " + cases.Hex(b)
}

// rt: decode(encode v) into a fresh zero-valued variable; "same" if observationally equal
func rt[T any](v T, equal func(a, b T) bool) string {
	return guard(func() string {
		b, err := json.Marshal(v)
		if err != nil {
			return "marshal-err"
		}
		var w T
		if err := json.Unmarshal(b, &w); err != nil {
			return "err"
		}
		if equal(v, w) {
			return "same"
		}
		return "diff " + string(b)
	})
}

func dateEq(a, b types.Date) bool {
	return (a.IsZero() && b.IsZero()) || (!a.IsZero() && !b.IsZero() && a.Equals(b))
}

func weekdaysEq(a, b types.Weekdays) bool {
	for d := time.Sunday; d <= time.Saturday; d++ {
		if a[d] != b[d] {
			return false
		}
	}
	return true
}

func segmentsEq(a, b types.Segments) bool {
	for k := uint8(1); k <= 3; k++ {
		if !a[k].Start.Equals(b[k].Start) || !a[k].End.Equals(b[k].End) {
			return false
		}
	}
	return true
}

func streamText(c *ctx) {
	r := c.r
	w := c.w
	emit := func(kind, s, tag string) {
		if kind != "task-json-raw" && strings.HasSuffix(kind, "-json") && !escapeFree(s) {
			return
		}
		out := textParse(kind, s)
		w.Emit("text "+kind+" "+cases.Hex([]byte(s)), out, tag, "kind/"+kind, "res/"+strings.SplitN(out, " ", 2)[0])
	}
	mutateText := func(s string) string {
		b := []byte(s)
		junk := []string{"", " ", "0", "9", ":", "-", "x", "00", "\n", "é"}
		switch r.Intn(6) {
		case 0:
			if len(b) > 0 {
				b[r.Intn(len(b))] = rng.Pick(r, byte('0'), '1', '5', '6', '9', ':', '-', ' ', 'a', '/')
			}
		case 1:
			k := r.Intn(len(b) + 1)
			b = append(b[:k:k], append([]byte(junk[r.Intn(len(junk))]), b[k:]...)...)
		case 2:
			if len(b) > 0 {
				k := r.Intn(len(b))
				b = append(b[:k:k], b[k+1:]...)
			}
		case 3:
			b = append(b, junk[r.Intn(len(junk))]...)
		case 4:
			b = append([]byte(junk[r.Intn(len(junk))]), b...)
		}
		return string(b)
	}
	N := 4000 * c.scale

	// --- dates
	dateTexts := []string{"", "2024-02-29", "2023-02-29", "1900-02-29", "2000-02-29", "2024-13-01", "2024-00-10", "2024-04-31", "2024-12-32",
		"2024-1-1", "24-01-01", "0001-01-01", "0001-01-02", "0000-01-01", "9999-12-31", "10000-01-01", "2024-01-01 ", " 2024-01-01", "2024/01/01", "2024-01-01T00:00:00Z"}
	for _, s := range dateTexts {
		emit("date-parse", s, "date/boundary")
		emit("date-json", s, "date/boundary")
	}
	for i := 0; i < N; i++ {
		y, m, d := genYMD(r, 0, 9999)
		s := fmt.Sprintf("%04d-%02d-%02d", y, m, d)
		tag := "date/valid"
		if r.Chance(1, 2) {
			s = mutateText(s)
			tag = "date/mutated"
		} else if r.Chance(1, 4) {
			s = fmt.Sprintf("%04d-%02d-%02d", y, rng.Pick(r, 0, 2, 4, 13, m), rng.Pick(r, 0, 29, 30, 31, 32))
			tag = "date/calendar-edge"
		}
		emit(rng.Pick(r, "date-parse", "date-json"), s, tag)
	}
	// --- HH:mm: every dd:dd string (both parsers), plus mutations
	for h := 0; h < 100; h++ {
		for m := 0; m < 100; m++ {
			if c.tier != "thorough" && !(h <= 25 || h == 99) {
				continue
			}
			s := fmt.Sprintf("%02d:%02d", h, m)
			emit("hhmm-parse", s, "hhmm/all-dd:dd")
			emit("hhmm-json", s, "hhmm/all-dd:dd")
		}
	}
	for i := 0; i < N/2; i++ {
		s := mutateText(fmt.Sprintf("%02d:%02d", r.Intn(26), r.Intn(62)))
		emit(rng.Pick(r, "hhmm-parse", "hhmm-json"), s, "hhmm/mutated")
	}
	// every position of a few times replaced by each character a hand-rolled number parser may tolerate
	// (signs, blanks, a point, a letter, a full-width digit, an underscore, a hex prefix letter)
	for _, base := range []string{"08:30", "00:30", "24:00", "10:05", "23:59"} {
		for pos := 0; pos < len(base); pos++ {
			for _, ch := range []string{"+", "-", " ", ".", "x", "_", "０", "\t", "e"} {
				s := base[:pos] + ch + base[pos+1:]
				emit("hhmm-parse", s, "hhmm/one-position-replaced")
				emit("hhmm-json", s, "hhmm/one-position-replaced")
			}
		}
	}
	// --- PIN
	for _, s := range []string{"", "0", "1", "000000", "000012", "999999", "1000000", "0999999", "0000001", "0000000", "0123456", "00000007531", "12345a", "-1", "+1234", " 1", "1 ", "１２"} {
		emit("pin-json", s, "pin/boundary")
	}
	for i := 0; i < N/4; i++ {
		s := fmt.Sprint(r.Intn(2000000))
		if r.Chance(1, 3) {
			s = mutateText(s)
		}
		emit("pin-json", s, "pin/random")
	}
	// --- control state and task type
	for _, s := range []string{"normally open", "normally closed", "controlled", "", "Normally Open", "normally  open", "unknown", "1", "controlled "} {
		emit("cs-json", s, "cs")
	}
	names := []string{"CONTROL DOOR", "UNLOCK DOOR", "LOCK DOOR", "DISABLE TIME PROFILE", "ENABLE TIME PROFILE", "ENABLE CARD, NO PASSWORD",
		"ENABLE CARD+IN PASSWORD", "ENABLE CARD+PASSWORD", "ENABLE MORE CARDS", "DISABLE MORE CARDS", "TRIGGER ONCE", "DISABLE PUSH BUTTON", "ENABLE PUSH BUTTON"}
	for n := 0; n <= 20; n++ {
		emit("task-tsv", fmt.Sprint(n), "task/number")
		emit("task-json-raw", fmt.Sprint(n), "task/number")
		emit("task-json-raw", fmt.Sprintf(`"%d"`, n), "task/quoted-number")
	}
	for _, s := range []string{"", "00", "013", "14", "0", "99999999999999999999", "1.0", "-1", "+1", " 1", "256", "257", "269", "270", "513", "65537", "65549", "4294967297", "4294967307", "18446744073709551617"} {
		emit("task-tsv", s, "task/number-edge")
		emit("task-json-raw", s, "task/number-edge")
	}
	for _, nm := range names {
		for _, s := range []string{nm, strings.ToLower(nm), strings.ReplaceAll(nm, " ", ""), `"` + nm + `"`, nm + "S", strings.Title(strings.ToLower(nm)), " " + nm + "\t", strings.ReplaceAll(nm, " ", "-")} {
			emit("task-tsv", s, "task/name")
			emit("task-json-raw", s, "task/name")
		}
		emit("task-tsv", mutateText(nm), "task/name-mutated")
	}
	// --- version, system time, card format
	for i := 0; i < N/8; i++ {
		s := fmt.Sprintf("%04x", r.Intn(65536))
		if r.Chance(1, 3) {
			s = mutateText(s)
		}
		emit("version-json", s, "version")
	}
	for _, s := range []string{"", "0", "12", "123", "12345", "0x12", "FFFF", "ffff", "xyz", " 0892", "08 92", "-001", "+001", "-fff", "8000", "7fff", "8a12", "0_12", "1e1"} {
		emit("version-json", s, "version/edge")
	}
	for i := 0; i < N/2; i++ {
		s := fmt.Sprintf("%02d:%02d:%02d", r.Intn(25), r.Intn(61), r.Intn(61))
		if r.Chance(1, 3) {
			s = mutateText(s)
		}
		emit("systime-parse", s, "systime")
	}
	for _, s := range []string{"7:04:05", "07:4:05", "23:59:59", "24:00:00", "00:60:00", "00:00:60", "12:00:00.5", "12:00:00,25", "12:00:00.", "12:00", "", "123:00:00"} {
		emit("systime-parse", s, "systime/edge")
	}
	for _, s := range []string{"any", "ANY", " any ", "Wiegand-26", "wiegand26", "WIEGAND 26", "wiegand_26", "wiegand-27", "", "company", "x wiegand-26 y", "anywiegand-26", "wieg", "Wiegand  26"} {
		emit("cardformat-parse", s, "cardformat")
	}
	for i := 0; i < 200*c.scale; i++ {
		emit("cardformat-parse", mutateText(rng.Pick(r, "any", "Wiegand-26", "wiegand 26", "wiegand26")), "cardformat/mutated")
	}
	// --- weekdays: every one of the 128 sets in canonical form, other spellings, mutations
	dayNames := []string{"Monday", "Tuesday", "Wednesday", "Thursday", "Friday", "Saturday", "Sunday"}
	for set := 0; set < 128; set++ {
		names := []string{}
		for i, n := range dayNames {
			if set&(1<<i) != 0 {
				names = append(names, n)
			}
		}
		canon := strings.Join(names, ",")
		emit("weekdays-json", canon, "weekdays/canonical")
		bits := ""
		wd := types.Weekdays{}
		for i := range dayNames {
			if set&(1<<i) != 0 {
				bits += "1"
				wd[[]time.Weekday{time.Monday, time.Tuesday, time.Wednesday, time.Thursday, time.Friday, time.Saturday, time.Sunday}[i]] = true
			} else {
				bits += "0"
			}
		}
		w.Emit("fmt weekdays-json "+bits, guard(func() string { return inner(json.Marshal(wd)) }), "fmt/weekdays-json")
		w.Emit("fmt weekdays-string "+bits, "text "+cases.Hex([]byte(wd.String())), "fmt/weekdays-string")
		if set%8 == 5 {
			emit("weekdays-json", strings.ToUpper(canon), "weekdays/upper")
			emit("weekdays-json", strings.ReplaceAll(canon, ",", ", "), "weekdays/spaced")
			emit("weekdays-json", mutateText(canon), "weekdays/mutated")
			emit("weekdays-json", canon+","+canon, "weekdays/repeated")
		}
	}
	for _, s := range []string{"", ",", "Mon", "monday", "MONDAY,tuesday", "Monday,,Sunday", "Sunday,Monday", "Mondayx", "xMonday", "Thurs", "Mon,Tue"} {
		emit("weekdays-json", s, "weekdays/edge")
	}

	// --- formatting: String() / MarshalJSON of in-domain values
	emitFmt := func(kind, valTok, out string) {
		w.Emit("fmt "+kind+" "+valTok, out, "fmt/"+kind)
	}
	for i := 0; i < N/2; i++ {
		dt := genVal(r, "date", false)
		d := dateFromTok(dt)
		emitFmt("date-string", dt, "text "+cases.Hex([]byte(d.String())))
		emitFmt("date-json", dt, guard(func() string { return inner(json.Marshal(d)) }))
		ht := genVal(r, "hhmm", false)
		h := hhmmFromTok(ht)
		emitFmt("hhmm-string", ht, "text "+cases.Hex([]byte(h.String())))
		emitFmt("hhmm-json", ht, guard(func() string { return inner(json.Marshal(h)) }))
		p := rng.Pick(r, 0, 1, 999999, 1000000, r.Intn(1000000), r.Intn(1<<24))
		emitFmt("pin-json", fmt.Sprintf("u32:%d", p), guard(func() string { return inner(json.Marshal(types.PIN(p))) }))
		v := r.Intn(65536)
		emitFmt("version-json", fmt.Sprintf("u16:%d", v), guard(func() string { return inner(json.Marshal(types.Version(v))) }))
		st := fmt.Sprintf("st:%d-%d-%d", r.Intn(24), r.Intn(60), r.Intn(60))
		var sv types.SystemTime
		setField(reflect.ValueOf(&sv).Elem(), st)
		emitFmt("systime-string", st, "text "+cases.Hex([]byte(sv.String())))
	}
	for cs := 0; cs <= 5; cs++ {
		emitFmt("cs-json", fmt.Sprintf("u8:%d", cs), guard(func() string { return inner(json.Marshal(types.ControlState(cs))) }))
		emitFmt("cs-string", fmt.Sprintf("u8:%d", cs), guard(func() string { return "text " + cases.Hex([]byte(types.ControlState(cs).String())) }))
	}
	for t := 0; t <= 12; t++ {
		emitFmt("task-json", fmt.Sprintf("u8:%d", t), guard(func() string { return inner(json.Marshal(types.TaskType(t))) }))
	}
	for f := 0; f <= 1; f++ {
		emitFmt("cardformat-string", fmt.Sprintf("u8:%d", f), "text "+cases.Hex([]byte(types.CardFormat(f).String())))
	}

	// --- a task object whose dates are given, empty (""), null or left out: both dates are required (a missing or null one
	// is rejected with an error - never a crash), "" is the no-date value
	{
		task := types.Task{Task: types.TaskType(1), Door: 3, From: types.ToDate(2024, 1, 1), To: types.ToDate(2024, 12, 31),
			Weekdays: types.Weekdays{time.Monday: true}, Start: types.NewHHmm(8, 30), Cards: 1}
		base, _ := json.Marshal(task)
		for _, from := range []string{"valid", "empty", "null", "absent"} {
			for _, to := range []string{"valid", "empty", "null", "absent"} {
				out := guard(func() string {
					var m map[string]json.RawMessage
					if err := json.Unmarshal(base, &m); err != nil {
						return "harness-error"
					}
					for key, how := range map[string]string{"start-date": from, "end-date": to} {
						switch how {
						case "empty":
							m[key] = json.RawMessage(`""`)
						case "null":
							m[key] = json.RawMessage(`null`)
						case "absent":
							delete(m, key)
						}
					}
					b, _ := json.Marshal(m)
					var t types.Task
					if err := json.Unmarshal(b, &t); err != nil {
						return "err"
					}
					return "ok"
				})
				w.Emit("taskobj "+from+" "+to, out, "taskobj/"+out)
			}
		}
	}

	// --- every key of every container's own JSON replaced by null / "" / 0 / {} / [] or left out: decoding may accept
	// or reject, it must come back (no crash)
	{
		from, to := types.ToDate(2024, 1, 1), types.ToDate(2024, 12, 31)
		containers := []struct {
			name   string
			value  any
			decode func(b []byte) error
		}{
			{"card", types.Card{CardNumber: 8165538, From: from, To: to, Doors: map[uint8]uint8{1: 1, 2: 0, 3: 29, 4: 1}, PIN: 7531},
				func(b []byte) error { var v types.Card; return json.Unmarshal(b, &v) }},
			{"cardptr", &types.Card{CardNumber: 8165538, From: from, To: to, Doors: map[uint8]uint8{1: 1, 2: 0, 3: 29, 4: 1}, PIN: 7531},
				func(b []byte) error {
					var v []types.Card
					return json.Unmarshal(append(append([]byte("["), b...), ']'), &v)
				}},
			{"timeprofile", types.TimeProfile{ID: 29, LinkedProfileID: 30, From: from, To: to, Weekdays: types.Weekdays{time.Monday: true, time.Friday: true},
				Segments: types.Segments{1: {Start: types.NewHHmm(8, 30), End: types.NewHHmm(11, 45)}, 2: {}, 3: {}}},
				func(b []byte) error { var v types.TimeProfile; return json.Unmarshal(b, &v) }},
			{"task", types.Task{Task: types.TaskType(8), Door: 3, From: from, To: to, Weekdays: types.Weekdays{time.Monday: true}, Start: types.NewHHmm(8, 30), Cards: 1},
				func(b []byte) error { var v types.Task; return json.Unmarshal(b, &v) }},
			{"status", types.Status{SerialNumber: 405419896, DoorState: map[uint8]bool{1: true}, DoorButton: map[uint8]bool{2: true}, SystemDateTime: types.DateTime(time.Date(2024, 3, 14, 12, 34, 56, 0, time.Local))},
				func(b []byte) error { var v types.Status; return json.Unmarshal(b, &v) }},
		}
		for _, ct := range containers {
			base, err := json.Marshal(ct.value)
			if err != nil {
				continue
			}
			var m map[string]json.RawMessage
			if json.Unmarshal(base, &m) != nil {
				continue
			}
			keys := []string{}
			for k := range m {
				keys = append(keys, k)
			}
			sort.Strings(keys)
			for _, key := range keys {
				for _, how := range []string{"null", "absent", "empty-string", "zero", "empty-object", "empty-array", "twice-last-null"} {
					out := guard(func() string {
						m2 := map[string]json.RawMessage{}
						for k, v := range m {
							m2[k] = v
						}
						switch how {
						case "null":
							m2[key] = json.RawMessage(`null`)
						case "absent":
							delete(m2, key)
						case "empty-string":
							m2[key] = json.RawMessage(`""`)
						case "zero":
							m2[key] = json.RawMessage(`0`)
						case "empty-object":
							m2[key] = json.RawMessage(`{}`)
						case "empty-array":
							m2[key] = json.RawMessage(`[]`)
						}
						b, _ := json.Marshal(m2)
						if how == "twice-last-null" {
							kb, _ := json.Marshal(key)
							b = append(append(b[:len(b)-1], ','), append(kb, []byte(`:null}`)...)...)
						}
						ct.decode(b)
						return "returned"
					})
					w.Emit("jsonkey "+ct.name+" "+key+" "+how, out, "jsonkey/"+ct.name, "jsonkey/"+how)
				}
			}
		}
	}

	// --- round trips through encoding/json into fresh zero-valued variables, containers included
	emitRT := func(typ, desc, out string) {
		w.Emit("rt "+typ+" "+desc, out, "rt/"+typ, "rt-res/"+strings.SplitN(out, " ", 2)[0])
	}
	for i := 0; i < N/2; i++ {
		dt := genVal(r, "date", false)
		emitRT("date", dt, rt(dateFromTok(dt), dateEq))
		ht := genVal(r, "hhmm", false)
		emitRT("hhmm", ht, rt(hhmmFromTok(ht), func(a, b types.HHmm) bool { return a.Equals(b) }))
		p := types.PIN(rng.Pick(r, 0, 1, 999999, r.Intn(1000000)))
		emitRT("pin", fmt.Sprint(p), rt(p, func(a, b types.PIN) bool { return a == b }))
		cs := types.ControlState(1 + r.Intn(3))
		emitRT("controlstate", fmt.Sprint(int(cs)), rt(cs, func(a, b types.ControlState) bool { return a == b }))
		tt := types.TaskType(r.Intn(13))
		emitRT("tasktype", fmt.Sprint(int(tt)), rt(tt, func(a, b types.TaskType) bool { return a == b }))
		v := types.Version(r.Intn(65536))
		emitRT("version", fmt.Sprint(uint16(v)), rt(v, func(a, b types.Version) bool { return a == b }))
		mac := types.MacAddress(r.Bytes(6))
		emitRT("mac", fmt.Sprintf("%x", []byte(mac)), rt(mac, func(a, b types.MacAddress) bool { return a.String() == b.String() }))
		wd, wt := genWeekdays(r)
		emitRT("weekdays", strings.Join(wt, ","), rt(wd, weekdaysEq))
		segs := types.Segments{}
		sd := []string{}
		for k := uint8(1); k <= 3; k++ {
			a, b := r.Intn(1441), r.Intn(1441)
			segs[k] = types.Segment{Start: types.NewHHmm(a/60, a%60), End: types.NewHHmm(b/60, b%60)}
			sd = append(sd, fmt.Sprintf("%d-%d", a, b))
		}
		emitRT("segments", strings.Join(sd, ","), rt(segs, segmentsEq))
		// card: non-zero dates, doors 1..4
		y1, m1, d1 := genYMD(r, 1, 9999)
		y2, m2, d2 := genYMD(r, 1, 9999)
		card := types.Card{CardNumber: r.U32(), From: types.ToDate(y1, time.Month(m1), d1), To: types.ToDate(y2, time.Month(m2), d2),
			Doors: map[uint8]uint8{1: r.U8(), 2: r.U8(), 3: r.U8(), 4: r.U8()}, PIN: p}
		emitRT("card", fmt.Sprintf("%d,%d-%d-%d,%d-%d-%d,%v,%d", card.CardNumber, y1, m1, d1, y2, m2, d2, card.Doors, p), rt(card, func(a, b types.Card) bool {
			return a.CardNumber == b.CardNumber && dateEq(a.From, b.From) && dateEq(a.To, b.To) && a.PIN == b.PIN &&
				a.Doors[1] == b.Doors[1] && a.Doors[2] == b.Doors[2] && a.Doors[3] == b.Doors[3] && a.Doors[4] == b.Doors[4]
		}))
		prof := types.TimeProfile{ID: r.U8(), LinkedProfileID: r.U8(), From: card.From, To: card.To, Weekdays: wd, Segments: segs}
		// every third profile has only its first k segments (k = 0..2): decoding fills the rest with 00:00-00:00,
		// and nothing of an earlier decode may show through
		if i%3 == 2 {
			k := r.Intn(3)
			short := types.Segments{}
			for id := uint8(1); int(id) <= k; id++ {
				short[id] = segs[id]
			}
			prof.Segments = short
			if k == 0 && r.Bool() {
				prof.Segments = nil
			}
			sd = append(sd[:k:k], "short")
		}
		emitRT("timeprofile", fmt.Sprintf("%d,%d,%s,%s", prof.ID, prof.LinkedProfileID, strings.Join(wt, ""), strings.Join(sd, ",")), rt(prof, func(a, b types.TimeProfile) bool {
			return a.ID == b.ID && a.LinkedProfileID == b.LinkedProfileID && dateEq(a.From, b.From) && dateEq(a.To, b.To) && weekdaysEq(a.Weekdays, b.Weekdays) && segmentsEq(a.Segments, b.Segments)
		}))
		task := types.Task{Task: tt, Door: r.U8(), From: card.From, To: card.To, Weekdays: wd, Start: hhmmFromTok(ht), Cards: r.U8()}
		// "no date" (the zero value) is a value of the date fields too: it is written as "" and reads back as no date
		if i%5 == 4 {
			task.From = types.Date{}
		}
		if i%7 == 6 {
			task.To = types.Date{}
		}
		emitRT("task", fmt.Sprintf("%d,%d,%s,%s,%d", tt, task.Door, strings.Join(wt, ""), ht, task.Cards), rt(task, func(a, b types.Task) bool {
			return a.Task == b.Task && a.Door == b.Door && dateEq(a.From, b.From) && dateEq(a.To, b.To) && weekdaysEq(a.Weekdays, b.Weekdays) && a.Start.Equals(b.Start) && a.Cards == b.Cards
		}))
		dcs := types.DoorControlState{SerialNumber: types.SerialNumber(r.U32()), Door: r.U8(), ControlState: cs, Delay: r.U8()}
		emitRT("doorcontrolstate", fmt.Sprintf("%v", dcs), rt(dcs, func(a, b types.DoorControlState) bool { return a == b }))
		// addresses (accepted ones)
		ab := r.Bytes(4)
		ip := netip.AddrFrom4([4]byte{ab[0], ab[1], ab[2], ab[3]})
		port := uint16(rng.Pick(r, 1, 59999, 60001, 65535, 1+r.Intn(59998)))
		emitRT("bindaddr", fmt.Sprintf("%v:%d", ip, port), rt(types.BindAddrFrom(ip, rng.Pick(r, uint16(0), port)), func(a, b types.BindAddr) bool { return a.AddrPort == b.AddrPort }))
		emitRT("broadcastaddr", fmt.Sprintf("%v:%d", ip, port), rt(types.BroadcastAddrFrom(ip, rng.Pick(r, uint16(60000), port)), func(a, b types.BroadcastAddr) bool { return a.AddrPort == b.AddrPort }))
		emitRT("listenaddr", fmt.Sprintf("%v:%d", ip, port), rt(types.ListenAddrFrom(ip, port), func(a, b types.ListenAddr) bool { return a.AddrPort == b.AddrPort }))
		emitRT("controlleraddr", fmt.Sprintf("%v:%d", ip, port), rt(types.ControllerAddrFrom(ip, rng.Pick(r, uint16(60000), port)), func(a, b types.ControllerAddr) bool { return a.AddrPort == b.AddrPort }))
	}
	// date-times carry a zone abbreviation: round trip in several process zones
	saved := time.Local
	for _, name := range quickZones {
		loc, err := time.LoadLocation(name)
		if err != nil {
			continue
		}
		time.Local = loc
		for i := 0; i < 40*c.scale; i++ {
			y, m, d := genYMD(r, 1970, 2037)
			t := time.Date(y, time.Month(m), d, r.Intn(24), r.Intn(60), r.Intn(60), 0, loc)
			// skip instants inside a repeated hour whose abbreviation does not identify them (partial)
			dtv := types.DateTime(t)
			emitRT("datetime", fmt.Sprintf("%s,%d", name, t.Unix()), rt(dtv, func(a, b types.DateTime) bool { return time.Time(a).Equal(time.Time(b)) }))
			dv := types.ToDate(y, time.Month(m), d)
			emitRT("date", fmt.Sprintf("%s,%d-%d-%d", name, y, m, d), rt(dv, dateEq))
		}
		// instants on both sides of every offset change 2015..2030 whose two sides have different zone
		// abbreviations (so that the text identifies the instant even inside a repeated hour)
		for probe := time.Date(2015, 1, 1, 0, 0, 0, 0, time.UTC); probe.Year() <= 2030; {
			_, end := probe.In(loc).ZoneBounds()
			if end.IsZero() {
				break
			}
			before, _ := end.Add(-time.Second).In(loc).Zone()
			after, _ := end.In(loc).Zone()
			if before != after {
				for _, off := range []time.Duration{-61 * time.Minute, -59 * time.Minute, -30 * time.Minute, -time.Second, 0, time.Second, 30 * time.Minute, 59 * time.Minute, 61 * time.Minute} {
					t := end.Add(off).In(loc)
					emitRT("datetime", fmt.Sprintf("%s,%d", name, t.Unix()), rt(types.DateTime(t), func(a, b types.DateTime) bool { return time.Time(a).Equal(time.Time(b)) }))
				}
			}
			probe = end.Add(24 * time.Hour)
			if c.tier != "thorough" && probe.Year() > 2024 {
				break
			}
			if c.tier != "thorough" && probe.Year() < 2021 {
				probe = time.Date(2021, 1, 1, 0, 0, 0, 0, time.UTC)
			}
		}
		var zdt types.DateTime
		emitRT("datetime", name+",zero", rt(zdt, func(a, b types.DateTime) bool { return a.IsZero() && b.IsZero() }))
	}
	time.Local = saved
	w.Notes = append(w.Notes, "text stream: parsers of date / HH:mm (all dd:dd strings for hours 00..25 and 99, thorough all 10^4) / PIN / control state / task type (numbers 0..20, names in 8 spellings) / version / system time / card format on boundary texts, valid texts and single-edit mutations; String() and MarshalJSON of in-domain values; decode(encode v) into fresh zero-valued variables for every public type incl. card, time profile, task, weekdays (nil and partial maps), segments and the four address roles; date-times and dates in 20 process zones")
}
