package main

import (
	"fmt"
	"go/ast"
	"go/token"
	"os"
	"path/filepath"
	"sort"
	"strings"
)

// uhppote/<op>.go → Gen/Ops.lean (T3a; C01 C06 C07): for each of the 31 sendto-based operations the
// guard chain (every `if cond { return …, error }` before the request is built, in source order),
// the request struct literal (plus the conditional field assignments that follow it) and the
// request / reply message types, translated term by term into the vocabulary of Model/Api.lean
// over the flattened argument list of the line protocol. The translation is deliberately strict:
// a statement or expression form it does not know becomes `unsupported_…` (an opaque constant on
// the Lean side), never a guess.

// a flattened argument: its position in the argument list and how the model reads it
type leafArg struct {
	idx  int
	kind string // u32 u8 bool val int list seg ip ap date time
}

type opSchema struct {
	name   string
	file   string
	params []map[string]leafArg // parameter i+1 (0 is the controller id): sub-expression suffix → argument
}

func one(idx int, kind string) map[string]leafArg { return map[string]leafArg{"": {idx, kind}} }

func weekdays(first int) map[string]leafArg {
	m := map[string]leafArg{}
	for i, d := range []string{"Monday", "Tuesday", "Wednesday", "Thursday", "Friday", "Saturday", "Sunday"} {
		m[".Weekdays[time."+d+"]"] = leafArg{first + i, "bool"}
	}
	return m
}

func merge(ms ...map[string]leafArg) map[string]leafArg {
	out := map[string]leafArg{}
	for _, m := range ms {
		for k, v := range m {
			out[k] = v
		}
	}
	return out
}

// the flattening convention of the line protocol (harness/cmd/diff/ops.go writes the same order)
var opSchemas = []opSchema{
	{"GetDevice", "get_device.go", nil},
	{"SetAddress", "set_address.go", []map[string]leafArg{one(1, "ip"), one(2, "ip"), one(3, "ip")}},
	{"GetListener", "get_listener.go", nil},
	{"SetListener", "set_listener.go", []map[string]leafArg{one(1, "ap"), one(2, "u8")}},
	{"GetTime", "get_time.go", nil},
	{"SetTime", "set_time.go", []map[string]leafArg{one(1, "time")}},
	{"GetDoorControlState", "get_door_control_state.go", []map[string]leafArg{one(1, "u8")}},
	{"SetDoorControlState", "set_door_control_state.go", []map[string]leafArg{one(1, "u8"), one(2, "int"), one(3, "u8")}},
	{"GetStatus", "get_status.go", nil},
	{"GetCards", "get_cards.go", nil},
	{"GetCardByIndex", "get_card.go", []map[string]leafArg{one(1, "u32")}},
	{"GetCardByID", "get_card.go", []map[string]leafArg{one(1, "u32")}},
	{"PutCard", "put_card.go", []map[string]leafArg{
		{".CardNumber": {1, "u32"}, ".From": {2, "val"}, ".To": {3, "val"}, ".Doors[1]": {4, "u8"}, ".Doors[2]": {5, "u8"},
			".Doors[3]": {6, "u8"}, ".Doors[4]": {7, "u8"}, ".PIN": {8, "u32"}},
		one(9, "list")}},
	{"DeleteCard", "delete_card.go", []map[string]leafArg{one(1, "u32")}},
	{"DeleteCards", "delete_cards.go", nil},
	{"GetTimeProfile", "get_time_profile.go", []map[string]leafArg{one(1, "u8")}},
	{"SetTimeProfile", "set_time_profile.go", []map[string]leafArg{merge(
		map[string]leafArg{".ID": {1, "u8"}, ".LinkedProfileID": {2, "u8"}, ".From": {3, "date"}, ".To": {4, "date"},
			".Segments[1]": {12, "seg"}, ".Segments[2]": {13, "seg"}, ".Segments[3]": {14, "seg"}}, weekdays(5))}},
	{"ClearTimeProfiles", "clear_time_profiles.go", nil},
	{"ClearTaskList", "clear_task_list.go", nil},
	{"AddTask", "add_task.go", []map[string]leafArg{merge(
		map[string]leafArg{".Task": {1, "int"}, ".Door": {2, "u8"}, ".From": {3, "val"}, ".To": {4, "val"}, ".Start": {12, "val"}, ".Cards": {13, "u8"}},
		weekdays(5))}},
	{"RefreshTaskList", "refresh_tasklist.go", nil},
	{"RecordSpecialEvents", "record_special_events.go", []map[string]leafArg{one(1, "bool")}},
	{"GetEvent", "get_event.go", []map[string]leafArg{one(1, "u32")}},
	{"GetEventIndex", "get_event_index.go", nil},
	{"SetEventIndex", "set_event_index.go", []map[string]leafArg{one(1, "u32")}},
	{"SetDoorPasscodes", "set_door_passcodes.go", []map[string]leafArg{one(1, "u8"), one(2, "list")}},
	{"OpenDoor", "open.go", []map[string]leafArg{one(1, "u8")}},
	{"SetPCControl", "set_pc_control.go", []map[string]leafArg{one(1, "bool")}},
	{"SetInterlock", "set_interlock.go", []map[string]leafArg{one(1, "u8")}},
	{"ActivateKeypads", "activate_keypads.go", []map[string]leafArg{
		{"[1]": {1, "bool"}, "[2]": {2, "bool"}, "[3]": {3, "bool"}, "[4]": {4, "bool"}}}},
	{"RestoreDefaultParameters", "restore_default_parameters.go", nil},
}

type opTr struct {
	sch    opSchema
	params []string // parameter names, flattened (deviceID, index uint32 → two entries)
	file   string
	subst  map[string]string // loop variable → literal, while a `range` over a literal is unrolled
	result string            // reply interpretation, when of the simplest shape
}

func (t *opTr) bad(n ast.Node) string { return unsupported(t.file, n) }

// leaf resolves a Go expression that names (part of) a parameter to a flattened argument
func (t *opTr) leaf(e ast.Expr) (leafArg, string, bool) {
	s := src(e)
	for k, v := range t.subst {
		s = strings.ReplaceAll(s, "["+k+"]", "["+v+"]")
	}
	for i, p := range t.params {
		if s == p || strings.HasPrefix(s, p+".") || strings.HasPrefix(s, p+"[") {
			suffix := s[len(p):]
			if i == 0 {
				if suffix == "" {
					return leafArg{0, "u32"}, "", true
				}
				return leafArg{}, "", false
			}
			if i-1 >= len(t.sch.params) {
				return leafArg{}, "", false
			}
			m := t.sch.params[i-1]
			if l, ok := m[suffix]; ok {
				return l, "", true
			}
			// a field of a flattened entry: profile.Segments[1].Start
			if j := strings.LastIndex(suffix, "."); j > 0 {
				if l, ok := m[suffix[:j]]; ok {
					return l, suffix[j:], true
				}
			}
			return leafArg{}, "", false
		}
	}
	return leafArg{}, "", false
}

func argTerm(l leafArg) string { return fmt.Sprintf("(arg a %d)", l.idx) }

// num: a numeric term (Nat) for a comparison
func (t *opTr) num(e ast.Expr) (string, bool) {
	if v, ok := intLit(e); ok {
		return fmt.Sprint(v), true
	}
	if l, rest, ok := t.leaf(e); ok && rest == "" {
		switch l.kind {
		case "u32":
			return "u32? " + argTerm(l), true
		case "u8":
			return "(u8? " + argTerm(l) + ").toNat", true
		}
	}
	if c, ok := e.(*ast.CallExpr); ok && len(c.Args) == 0 {
		if sel, ok := c.Fun.(*ast.SelectorExpr); ok && sel.Sel.Name == "Port" {
			if l, rest, ok := t.leaf(sel.X); ok && rest == "" && l.kind == "ap" {
				return "apPort " + argTerm(l), true
			}
		}
	}
	return "", false
}

// cond: a Bool term for a guard condition
func (t *opTr) cond(e ast.Expr) string {
	switch x := e.(type) {
	case *ast.ParenExpr:
		return t.cond(x.X)
	case *ast.UnaryExpr:
		if x.Op == token.NOT {
			return "!(" + t.cond(x.X) + ")"
		}
	case *ast.BinaryExpr:
		switch x.Op {
		case token.LOR:
			return "(" + t.cond(x.X) + " || " + t.cond(x.Y) + ")"
		case token.LAND:
			return "(" + t.cond(x.X) + " && " + t.cond(x.Y) + ")"
		case token.EQL, token.NEQ, token.LSS, token.GTR, token.LEQ, token.GEQ:
			// x.To4() == nil
			if id, ok := x.Y.(*ast.Ident); ok && id.Name == "nil" && (x.Op == token.EQL || x.Op == token.NEQ) {
				if c, ok := x.X.(*ast.CallExpr); ok && len(c.Args) == 0 {
					if sel, ok := c.Fun.(*ast.SelectorExpr); ok && sel.Sel.Name == "To4" {
						if l, rest, ok := t.leaf(sel.X); ok && rest == "" && l.kind == "ip" {
							if x.Op == token.EQL {
								return "notIPv4 " + argTerm(l)
							}
							return "!(notIPv4 " + argTerm(l) + ")"
						}
					}
				}
				return t.bad(e)
			}
			// address != netip.MustParseAddrPort("0.0.0.0:0")
			if src(x.Y) == `netip.MustParseAddrPort("0.0.0.0:0")` && (x.Op == token.EQL || x.Op == token.NEQ) {
				if l, rest, ok := t.leaf(x.X); ok && rest == "" && l.kind == "ap" {
					if x.Op == token.EQL {
						return "apIsZero " + argTerm(l)
					}
					return "!(apIsZero " + argTerm(l) + ")"
				}
				return t.bad(e)
			}
			a, ok1 := t.num(x.X)
			b, ok2 := t.num(x.Y)
			if !ok1 || !ok2 {
				return t.bad(e)
			}
			switch x.Op {
			case token.EQL:
				return "(" + a + " == " + b + ")"
			case token.NEQ:
				return "(" + a + " != " + b + ")"
			case token.LSS:
				return "decide (" + a + " < " + b + ")"
			case token.GTR:
				return "decide (" + a + " > " + b + ")"
			case token.LEQ:
				return "decide (" + a + " ≤ " + b + ")"
			case token.GEQ:
				return "decide (" + a + " ≥ " + b + ")"
			}
		}
	case *ast.CallExpr:
		// methods without arguments on a parameter
		if sel, ok := x.Fun.(*ast.SelectorExpr); ok && len(x.Args) == 0 {
			if l, rest, ok := t.leaf(sel.X); ok && rest == "" {
				switch {
				case sel.Sel.Name == "IsZero" && l.kind == "date":
					return "(date? " + argTerm(l) + ").isNone"
				case sel.Sel.Name == "IsValid" && l.kind == "ap":
					return "apValid " + argTerm(l)
				}
			}
			// address.Addr().Is4()
			if sel.Sel.Name == "Is4" {
				if c2, ok := sel.X.(*ast.CallExpr); ok && len(c2.Args) == 0 {
					if s2, ok := c2.Fun.(*ast.SelectorExpr); ok && s2.Sel.Name == "Addr" {
						if l, rest, ok := t.leaf(s2.X); ok && rest == "" && l.kind == "ap" {
							return "apIs4 " + argTerm(l)
						}
					}
				}
			}
			return t.bad(e)
		}
		// isCardNumberValid(card.CardNumber, formats...)
		if id, ok := x.Fun.(*ast.Ident); ok && id.Name == "isCardNumberValid" && len(x.Args) == 2 && x.Ellipsis != token.NoPos {
			l1, r1, ok1 := t.leaf(x.Args[0])
			l2, r2, ok2 := t.leaf(x.Args[1])
			if ok1 && ok2 && r1 == "" && r2 == "" && l1.kind == "u32" && l2.kind == "list" {
				return "Gen.Ops.isCardNumberValid (u32? " + argTerm(l1) + ") (list? " + argTerm(l2) + ")"
			}
		}
	}
	return t.bad(e)
}

// flatten a || b || c
func orTerms(e ast.Expr) []ast.Expr {
	if p, ok := e.(*ast.ParenExpr); ok {
		return orTerms(p.X)
	}
	if b, ok := e.(*ast.BinaryExpr); ok && b.Op == token.LOR {
		return append(orTerms(b.X), orTerms(b.Y)...)
	}
	return []ast.Expr{e}
}

// returnsError: `{ return …, <non-nil> }`
func returnsError(b *ast.BlockStmt) bool {
	if b == nil || len(b.List) != 1 {
		return false
	}
	r, ok := b.List[0].(*ast.ReturnStmt)
	if !ok || len(r.Results) == 0 {
		return false
	}
	last := r.Results[len(r.Results)-1]
	if id, ok := last.(*ast.Ident); ok && id.Name == "nil" {
		return false
	}
	return true
}

// guards of one statement before the request literal
func (t *opTr) guardStmt(st ast.Stmt) []string {
	switch s := st.(type) {
	case *ast.IfStmt:
		// if segment, ok := m[k]; !ok { return err } else if segment.End.Before(segment.Start) { return err }
		if s.Init != nil {
			as, ok := s.Init.(*ast.AssignStmt)
			if ok && as.Tok == token.DEFINE && len(as.Lhs) == 2 && len(as.Rhs) == 1 && returnsError(s.Body) {
				v, okv := src(as.Lhs[0]), src(as.Lhs[1])
				if l, rest, okl := t.leaf(as.Rhs[0]); okl && rest == "" && l.kind == "seg" && src(s.Cond) == "!"+okv {
					if e2, ok := s.Else.(*ast.IfStmt); ok && e2.Init == nil && e2.Else == nil && returnsError(e2.Body) &&
						src(e2.Cond) == v+".End.Before("+v+".Start)" {
						return []string{"segRejected " + argTerm(l)}
					}
				}
			}
			return []string{t.bad(st)}
		}
		if s.Else != nil || !returnsError(s.Body) {
			return []string{t.bad(st)}
		}
		out := []string{}
		for _, c := range orTerms(s.Cond) {
			if src(c) == t.params[0]+" == 0" {
				out = append(out, "devZero a")
			} else {
				out = append(out, t.cond(c))
			}
		}
		return out
	case *ast.RangeStmt:
		// for _, k := range []uint8{1, 2, 3} { … }: unrolled
		cl, ok := s.X.(*ast.CompositeLit)
		if !ok || s.Value == nil || (s.Key != nil && src(s.Key) != "_") {
			return []string{t.bad(st)}
		}
		out := []string{}
		for _, el := range cl.Elts {
			v, ok := intLit(el)
			if !ok {
				return []string{t.bad(st)}
			}
			t.subst[src(s.Value)] = fmt.Sprint(v)
			for _, b := range s.Body.List {
				out = append(out, t.guardStmt(b)...)
			}
			delete(t.subst, src(s.Value))
		}
		return out
	}
	return []string{t.bad(st)}
}

// value: the Val term of a request field initialiser
func (t *opTr) value(e ast.Expr) string {
	if v, ok := intLit(e); ok {
		if v == 0x55aaaa55 {
			return "magic"
		}
		return fmt.Sprintf("(.u32 %d)", v)
	}
	if c, ok := e.(*ast.CallExpr); ok && len(c.Args) == 1 {
		switch src(c.Fun) {
		case "types.SerialNumber":
			if src(c.Args[0]) == t.params[0] {
				return "dev a"
			}
		case "uint8":
			if l, rest, ok := t.leaf(c.Args[0]); ok && rest == "" {
				switch l.kind {
				case "int":
					return "(.u8 (conv8 " + argTerm(l) + "))"
				case "u8":
					return "(.u8 (u8? " + argTerm(l) + "))"
				}
			}
		case "types.DateTime":
			if l, rest, ok := t.leaf(c.Args[0]); ok && rest == "" && l.kind == "time" {
				return "val? " + argTerm(l)
			}
		}
		return t.bad(e)
	}
	if l, rest, ok := t.leaf(e); ok {
		switch {
		case rest == "" && l.kind == "u8":
			return "(.u8 (u8? " + argTerm(l) + "))"
		case rest == "" && l.kind == "bool":
			return "(.bool (bool? " + argTerm(l) + "))"
		case rest == "" && (l.kind == "u32" || l.kind == "val" || l.kind == "date" || l.kind == "ip" || l.kind == "ap"):
			return "val? " + argTerm(l)
		case rest == ".Start" && l.kind == "seg":
			return "segStart " + argTerm(l)
		case rest == ".End" && l.kind == "seg":
			return "segEnd " + argTerm(l)
		}
	}
	return t.bad(e)
}

func messageStructs(repo string) map[string][]string {
	out := map[string][]string{}
	dir := filepath.Join(repo, "messages")
	ents, _ := os.ReadDir(dir)
	for _, e := range ents {
		if !strings.HasSuffix(e.Name(), ".go") || strings.HasSuffix(e.Name(), "_test.go") {
			continue
		}
		f := parseFile(filepath.Join(dir, e.Name()))
		for _, d := range f.Decls {
			gd, ok := d.(*ast.GenDecl)
			if !ok {
				continue
			}
			for _, sp := range gd.Specs {
				if ts, ok := sp.(*ast.TypeSpec); ok {
					if st, ok := ts.Type.(*ast.StructType); ok {
						names := []string{}
						for _, fld := range st.Fields.List {
							if len(fld.Names) == 0 {
								names = append(names, "embedded:"+src(fld.Type))
							}
							for _, n := range fld.Names {
								names = append(names, n.Name+":"+src(fld.Type))
							}
						}
						out[ts.Name.Name] = names
					}
				}
			}
		}
	}
	return out
}

func genOps(repo, out string) {
	structs := messageStructs(repo)
	var b strings.Builder
	b.WriteString("-- REGENERATED from uhppote/<operation>.go by harness/cmd/extract; do not edit\n")
	b.WriteString("import Uhppote.Model.Api\n/-! The 31 `sendto`-based operations: guards, request literal and message types translated term by term\n    from the Go sources; the reply interpretation is the hand-written `Model.Api.result_<Op>`. -/\n")
	b.WriteString("namespace Uhppote.Gen.Ops\nopen Uhppote Uhppote.Model Uhppote.Model.Api\n\n")
	genHelpers(repo, &b)
	b.WriteString("def ops : List Op := [\n")
	entries := []string{}
	results := []string{}
	handOnly := []string{}
	for _, sch := range opSchemas {
		path := filepath.Join(repo, "uhppote", sch.file)
		t := &opTr{sch: sch, file: path, subst: map[string]string{}}
		request, reply, rejects, build := "unsupported_request_"+sch.name, "unsupported_reply_"+sch.name, "unsupported_guards_"+sch.name, "unsupported_build_"+sch.name
		if _, err := os.Stat(path); err == nil {
			f := parseFile(path)
			if fn := findFunc(f, sch.name, "uhppote"); fn != nil && fn.Body != nil {
				for _, fld := range fn.Type.Params.List {
					for _, n := range fld.Names {
						t.params = append(t.params, n.Name)
					}
				}
				if len(t.params) > 0 {
					request, reply, rejects, build = t.operation(fn, structs)
				}
			}
		}
		if t.result != "" {
			results = append(results, fmt.Sprintf("  (%s, fun a r => %s)", leanStr(sch.name), t.result))
		} else {
			handOnly = append(handOnly, sch.name)
		}
		entries = append(entries, fmt.Sprintf("  { name := %s, request := %s, reply := %s,\n    rejects := fun a => %s,\n    build := fun a => %s,\n    result := result_%s }",
			leanStr(sch.name), request, reply, rejects, build, sch.name))
	}
	b.WriteString(strings.Join(entries, ",\n"))
	b.WriteString("\n]\n\ndef findOp (name : String) : Option Op := ops.find? (·.name == name)\n\n")
	b.WriteString("/-- the reply interpretation of the operations whose reply handling is `if err != nil { return …, err } else { return <fields of the reply>, nil }`,\n    translated term by term (r: the values of the reply struct in declaration order); the others (" + strings.Join(handOnly, ", ") + ")\n    have early returns, locals or further branches and are hand-modelled only -/\n")
	b.WriteString("def results : List (String × (List Arg → List Val → Res)) := [\n" + strings.Join(results, ",\n") + "\n]\n\nend Uhppote.Gen.Ops\n")
	writeIfChanged(filepath.Join(out, "Ops.lean"), b.String())
}

// resultTerm: the reply interpretation of an operation of the simplest shapes
//
//	… ; err != nil { return <zero>, err } else { return reply.F, nil }
//	… else { return &types.T{K: reply.F, …}, nil }        … else { return reply.F, reply.G, nil }
//
// as a Res term over the reply struct's values r (declaration order); "" when the statement has another shape
// (early returns, locals, further branches: those operations stay hand-modelled)
func (t *opTr) resultTerm(is *ast.IfStmt, replyVar, replyType string, structs map[string][]string) string {
	if src(is.Cond) != "err != nil" || len(is.Body.List) != 1 {
		return ""
	}
	if r, ok := is.Body.List[0].(*ast.ReturnStmt); !ok || len(r.Results) == 0 || src(r.Results[len(r.Results)-1]) != "err" {
		return ""
	}
	index := map[string]int{}
	ftype := map[string]string{}
	for i, fld := range structs[replyType] {
		name, typ, _ := strings.Cut(fld, ":")
		index[name] = i
		ftype[name] = typ
	}
	prefix := ""
	els, ok := is.Else.(*ast.BlockStmt)
	if e2, isIf := is.Else.(*ast.IfStmt); isIf {
		// … else if uint32(reply.SerialNumber) != controller { return …, ErrIncorrectController } else { … }
		i, has := index["SerialNumber"]
		if e2.Init != nil || !has || src(e2.Cond) != "uint32("+replyVar+".SerialNumber) != "+t.params[0] || !returnsError(e2.Body) {
			return ""
		}
		prefix = fmt.Sprintf("if (r.getD %d .none_ != dev a) then .err else ", i)
		els, ok = e2.Else.(*ast.BlockStmt)
	}
	if !ok || els == nil || len(els.List) == 0 {
		return ""
	}
	// before the final return: `if c { return nil, nil }` (no such record), `if c { return nil, <error> }`, boolean locals,
	// and `x := types.T{…}` returned as `&x`; conditions compare a reply field with a literal or with an argument
	locals := map[string]string{}
	var lits = map[string]*ast.CompositeLit{}
	var sentinelCond func(e ast.Expr) string
	sentinelCond = func(e ast.Expr) string {
		switch x := e.(type) {
		case *ast.ParenExpr:
			return sentinelCond(x.X)
		case *ast.Ident:
			return locals[x.Name]
		case *ast.BinaryExpr:
			if x.Op == token.LOR || x.Op == token.LAND {
				a, b := sentinelCond(x.X), sentinelCond(x.Y)
				if a != "" && b != "" {
					return "(" + a + map[token.Token]string{token.LOR: " || ", token.LAND: " && "}[x.Op] + b + ")"
				}
				return ""
			}
			if x.Op != token.EQL && x.Op != token.NEQ {
				return ""
			}
			sel, ok := x.X.(*ast.SelectorExpr)
			if !ok || src(sel.X) != replyVar {
				return ""
			}
			i, ok := index[sel.Sel.Name]
			if !ok {
				return ""
			}
			rhs := ""
			if v, ok := intLit(x.Y); ok {
				switch ftype[sel.Sel.Name] {
				case "uint32":
					rhs = fmt.Sprintf(".u32 %d", v)
				case "uint8", "byte":
					rhs = fmt.Sprintf(".u8 %d", v)
				}
			} else if l, rest, ok := t.leaf(x.Y); ok && rest == "" && l.idx > 0 && (l.kind == "u32" && ftype[sel.Sel.Name] == "uint32") {
				rhs = "val? " + argTerm(l)
			} else if ok && rest == "" && l.idx > 0 && l.kind == "u8" && ftype[sel.Sel.Name] == "uint8" {
				rhs = ".u8 (u8? " + argTerm(l) + ")"
			}
			if rhs == "" {
				return ""
			}
			op := map[token.Token]string{token.EQL: "==", token.NEQ: "!="}[x.Op]
			return fmt.Sprintf("(r.getD %d .none_ %s %s)", i, op, rhs)
		}
		return ""
	}
	sliceLen := map[string]int{} // x := []types.T{types.T{}, …}: a local slice of n zero values
	sliceType := map[string]string{}
	elemField := map[string]string{} // "x[i].F" → the term assigned to it
	for _, st := range els.List[:len(els.List)-1] {
		switch x := st.(type) {
		case *ast.IfStmt:
			if x.Init != nil || x.Else != nil || len(x.Body.List) != 1 {
				return ""
			}
			// if reply.P != nil { x[i].F = *reply.P }: the field, or its zero value when the pointer is nil
			if as, isAs := x.Body.List[0].(*ast.AssignStmt); isAs {
				be, isBin := x.Cond.(*ast.BinaryExpr)
				if !isBin || be.Op != token.NEQ || src(be.Y) != "nil" || as.Tok != token.ASSIGN || len(as.Lhs) != 1 || len(as.Rhs) != 1 || src(as.Rhs[0]) != "*"+src(be.X) {
					return ""
				}
				sel, isSel := be.X.(*ast.SelectorExpr)
				if !isSel || src(sel.X) != replyVar || ftype[sel.Sel.Name] != "*types.HHmm" {
					return ""
				}
				lhs := src(as.Lhs[0])
				if _, dup := elemField[lhs]; dup {
					return ""
				}
				elemField[lhs] = fmt.Sprintf("hmOfPtr (r.getD %d .none_)", index[sel.Sel.Name])
				continue
			}
			r, ok := x.Body.List[0].(*ast.ReturnStmt)
			if !ok || len(r.Results) != 2 || src(r.Results[0]) != "nil" {
				return ""
			}
			c := sentinelCond(x.Cond)
			if c == "" {
				return ""
			}
			if src(r.Results[1]) == "nil" {
				prefix += "if " + c + " then .nil else "
			} else {
				prefix += "if " + c + " then .err else "
			}
		case *ast.AssignStmt:
			if x.Tok != token.DEFINE || len(x.Lhs) != 1 || len(x.Rhs) != 1 {
				return ""
			}
			if cl, ok := x.Rhs[0].(*ast.CompositeLit); ok && strings.HasPrefix(src(cl.Type), "types.") {
				lits[src(x.Lhs[0])] = cl
			} else if ok && src(cl.Type) == "[]types.Segment" {
				for _, el := range cl.Elts {
					if src(el) != "types.Segment{}" {
						return ""
					}
				}
				sliceLen[src(x.Lhs[0])] = len(cl.Elts)
				sliceType[src(x.Lhs[0])] = "Segment"
			} else if c := sentinelCond(x.Rhs[0]); c != "" {
				locals[src(x.Lhs[0])] = c
			} else {
				return ""
			}
		default:
			return ""
		}
	}
	ret, ok := els.List[len(els.List)-1].(*ast.ReturnStmt)
	if !ok || len(ret.Results) < 2 || src(ret.Results[len(ret.Results)-1]) != "nil" {
		return ""
	}
	val := func(e ast.Expr) string {
		if c, ok := e.(*ast.CallExpr); ok && len(c.Args) == 1 {
			switch src(c.Fun) {
			case "types.ControlState": // a conversion between integer types of the same width
				e = c.Args[0]
			case "types.SerialNumber":
				if src(c.Args[0]) == t.params[0] {
					return "dev a"
				}
				return ""
			}
		}
		if id, ok := e.(*ast.Ident); ok {
			if id.Name == "true" || id.Name == "false" {
				return "(.bool " + id.Name + ")"
			}
			if l, rest, ok := t.leaf(e); ok && rest == "" && l.kind == "u32" && l.idx > 0 {
				return "val? " + argTerm(l)
			}
			return ""
		}
		if sel, ok := e.(*ast.SelectorExpr); ok && src(sel.X) == replyVar {
			if i, ok := index[sel.Sel.Name]; ok {
				return fmt.Sprintf("r.getD %d .none_", i)
			}
		}
		return ""
	}
	vals := []string{}
	results := ret.Results[:len(ret.Results)-1]
	if len(results) == 1 {
		if u, ok := results[0].(*ast.UnaryExpr); ok && u.Op == token.AND {
			cl, ok := u.X.(*ast.CompositeLit)
			if id, isId := u.X.(*ast.Ident); isId && lits[id.Name] != nil {
				cl, ok = lits[id.Name], true
			}
			if !ok || !strings.HasPrefix(src(cl.Type), "types.") {
				return ""
			}
			for _, el := range cl.Elts {
				kv, ok := el.(*ast.KeyValueExpr)
				if !ok {
					return ""
				}
				// a map literal with the keys 1, 2, 3 … in order: its values, in order
				if ml, ok := kv.Value.(*ast.CompositeLit); ok && (strings.HasPrefix(src(ml.Type), "map[") || src(ml.Type) == "types.Weekdays" || src(ml.Type) == "types.Segments") {
					days := []string{"time.Monday", "time.Tuesday", "time.Wednesday", "time.Thursday", "time.Friday", "time.Saturday", "time.Sunday"}
					for k, mel := range ml.Elts {
						mkv, ok := mel.(*ast.KeyValueExpr)
						if !ok {
							return ""
						}
						if key, ok := intLit(mkv.Key); !(ok && int(key) == k+1) && !(src(ml.Type) == "types.Weekdays" && k < 7 && len(ml.Elts) == 7 && src(mkv.Key) == days[k]) {
							return ""
						}
						// x[i] of a local slice of Segments: its Start and End
						if ix, isIx := mkv.Value.(*ast.IndexExpr); isIx && sliceType[src(ix.X)] == "Segment" {
							i, ok := intLit(ix.Index)
							if !ok || int(i) >= sliceLen[src(ix.X)] {
								return ""
							}
							for _, fld := range []string{"Start", "End"} {
								if tm, has := elemField[fmt.Sprintf("%s[%d].%s", src(ix.X), i, fld)]; has {
									vals = append(vals, tm)
								} else {
									vals = append(vals, "(.hhmm ⟨0, 0⟩)")
								}
							}
							continue
						}
						v := val(mkv.Value)
						if v == "" {
							return ""
						}
						vals = append(vals, v)
					}
					continue
				}
				v := val(kv.Value)
				if v == "" {
					return ""
				}
				vals = append(vals, v)
			}
			return prefix + ".vals [" + strings.Join(vals, ", ") + "]"
		}
	}
	for _, e := range results {
		v := val(e)
		if v == "" {
			return ""
		}
		vals = append(vals, v)
	}
	return prefix + ".vals [" + strings.Join(vals, ", ") + "]"
}

// operation: (request type, reply type, guard term, build term); t.result is set for the simplest reply shapes
func (t *opTr) operation(fn *ast.FuncDecl, structs map[string][]string) (string, string, string, string) {
	guards := []string{}
	var lit *ast.CompositeLit
	reqVar := ""
	fields := map[string]string{}
	order := []string{}
	reply := ""
	sent := false
	sort.Strings(order)
	for i, st := range fn.Body.List {
		if lit == nil {
			// the request literal ends the guard chain
			if as, ok := st.(*ast.AssignStmt); ok && as.Tok == token.DEFINE && len(as.Lhs) == 1 && len(as.Rhs) == 1 {
				if cl, ok := as.Rhs[0].(*ast.CompositeLit); ok && strings.HasPrefix(src(cl.Type), "messages.") {
					lit = cl
					reqVar = src(as.Lhs[0])
					for _, el := range cl.Elts {
						kv, ok := el.(*ast.KeyValueExpr)
						if !ok {
							fields["?"] = t.bad(el)
							continue
						}
						fields[src(kv.Key)] = t.value(kv.Value)
					}
					continue
				}
			}
			guards = append(guards, t.guardStmt(st)...)
			continue
		}
		// after the literal: `if len(L) > K && L[K] <= 999999 { request.F = L[K] }` …
		if is, ok := st.(*ast.IfStmt); ok && is.Init == nil && is.Else == nil && len(is.Body.List) == 1 {
			if as, ok := is.Body.List[0].(*ast.AssignStmt); ok && as.Tok == token.ASSIGN && len(as.Lhs) == 1 && len(as.Rhs) == 1 && strings.HasPrefix(src(as.Lhs[0]), reqVar+".") {
				field := strings.TrimPrefix(src(as.Lhs[0]), reqVar+".")
				if ix, ok := as.Rhs[0].(*ast.IndexExpr); ok {
					if l, rest, okl := t.leaf(ix.X); okl && rest == "" && l.kind == "list" {
						if k, okk := intLit(ix.Index); okk && src(is.Cond) == fmt.Sprintf("len(%s) > %d && %s[%d] <= 999999", src(ix.X), k, src(ix.X), k) && fields[field] == "(.u32 0)" {
							fields[field] = fmt.Sprintf("passcode (list? %s) %d", argTerm(l), k)
							continue
						}
					}
				}
			}
		}
		// … and then the send: `if reply, err := sendto[messages.T](u, id, request); …` must be the last statement
		if is, ok := st.(*ast.IfStmt); ok && is.Init != nil && i == len(fn.Body.List)-1 {
			if as, ok := is.Init.(*ast.AssignStmt); ok && len(as.Rhs) == 1 {
				if c, ok := as.Rhs[0].(*ast.CallExpr); ok && len(c.Args) == 3 && src(c.Args[0]) == "u" && src(c.Args[1]) == t.params[0] && src(c.Args[2]) == reqVar {
					if ie, ok := c.Fun.(*ast.IndexExpr); ok && src(ie.X) == "sendto" {
						sent = true
						switch ty := src(ie.Index); {
						case ty == "none":
							reply = "none"
						case strings.HasPrefix(ty, "messages."):
							reply = "(some " + leanStr(strings.TrimPrefix(ty, "messages.")) + ")"
						}
						if len(as.Lhs) == 2 {
							t.result = t.resultTerm(is, src(as.Lhs[0]), strings.TrimPrefix(src(ie.Index), "messages."), structs)
						}
						continue
					}
				}
			}
		}
		guards = append(guards, t.bad(st)) // a statement between the literal and the send that is not understood
	}
	if lit == nil || !sent || reply == "" {
		return "unsupported_request_" + t.sch.name, "unsupported_reply_" + t.sch.name, "unsupported_guards_" + t.sch.name, "unsupported_build_" + t.sch.name
	}
	reqType := strings.TrimPrefix(src(lit.Type), "messages.")
	// the values in the declaration order of the request struct
	vals := []string{}
	used := map[string]bool{}
	for _, fld := range structs[reqType] {
		name, typ, _ := strings.Cut(fld, ":")
		switch {
		case typ == "types.MsgType":
			vals = append(vals, "hdr")
		case fields[name] != "":
			vals = append(vals, fields[name])
			used[name] = true
		default:
			vals = append(vals, "unsupported_field_"+name+"_not_initialised") // a field left at its zero value: not translated
		}
	}
	for k := range fields {
		if !used[k] {
			vals = append(vals, "unsupported_field_"+strings.ReplaceAll(k, "?", "positional"))
		}
	}
	if len(structs[reqType]) == 0 {
		vals = []string{"unsupported_struct_" + reqType}
	}
	if len(guards) == 0 {
		guards = []string{"false"}
	}
	return leanStr(reqType), reply, strings.Join(guards, " || "), "[" + strings.Join(vals, ", ") + "]"
}

// ---------------------------------------------------------------------------------------------
// the helpers of PutCard: isWiegand26 / isWiegandAny (straight-line uint32 arithmetic over / and %, comparisons with
// literals, if / else-if chains returning boolean literals) and isCardNumberValid (the one shape it has)
// ---------------------------------------------------------------------------------------------

// natExpr: identifiers, literals, / and % (no + - *: they could wrap around in uint32, the model's Nat would not)
func natExpr(e ast.Expr, vars map[string]bool) (string, bool) {
	switch x := e.(type) {
	case *ast.ParenExpr:
		return natExpr(x.X, vars)
	case *ast.Ident:
		if vars[x.Name] {
			return x.Name, true
		}
	case *ast.BasicLit:
		if v, ok := intLit(x); ok {
			return fmt.Sprint(v), true
		}
	case *ast.BinaryExpr:
		a, ok1 := natExpr(x.X, vars)
		b, ok2 := natExpr(x.Y, vars)
		if ok1 && ok2 {
			switch x.Op {
			case token.QUO:
				return "(" + a + " / " + b + ")", true
			case token.REM:
				return "(" + a + " % " + b + ")", true
			}
		}
	}
	return "", false
}

func cmpExpr(e ast.Expr, vars map[string]bool) (string, bool) {
	if p, ok := e.(*ast.ParenExpr); ok {
		return cmpExpr(p.X, vars)
	}
	b, ok := e.(*ast.BinaryExpr)
	if !ok {
		return "", false
	}
	x, ok1 := natExpr(b.X, vars)
	y, ok2 := natExpr(b.Y, vars)
	op := map[token.Token]string{token.GTR: ">", token.LSS: "<", token.GEQ: "≥", token.LEQ: "≤", token.EQL: "=", token.NEQ: "≠"}[b.Op]
	if !ok1 || !ok2 || op == "" {
		return "", false
	}
	return x + " " + op + " " + y, true
}

func boolLitReturn(st ast.Stmt) (string, bool) {
	r, ok := st.(*ast.ReturnStmt)
	if !ok || len(r.Results) != 1 {
		return "", false
	}
	if id, ok := r.Results[0].(*ast.Ident); ok && (id.Name == "true" || id.Name == "false") {
		return id.Name, true
	}
	return "", false
}

// boolFunc: `x := e` … `if c { return b } else if c' { return b' }` … `return b”` as a Lean term
func boolFunc(file string, fn *ast.FuncDecl) string {
	if fn == nil || fn.Type.Params == nil || len(fn.Type.Params.List) != 1 || len(fn.Type.Params.List[0].Names) != 1 || src(fn.Type.Params.List[0].Type) != "uint32" {
		return "unsupported_helper_signature"
	}
	param := fn.Type.Params.List[0].Names[0].Name
	vars := map[string]bool{param: true}
	var block func(sts []ast.Stmt) string
	var ifChain func(s *ast.IfStmt, rest string) string
	ifChain = func(s *ast.IfStmt, rest string) string {
		c, ok := cmpExpr(s.Cond, vars)
		if !ok || s.Init != nil || len(s.Body.List) != 1 {
			return unsupported(file, s)
		}
		b, ok := boolLitReturn(s.Body.List[0])
		if !ok {
			return unsupported(file, s)
		}
		els := rest
		switch e := s.Else.(type) {
		case nil:
		case *ast.IfStmt:
			els = ifChain(e, rest)
		case *ast.BlockStmt:
			if len(e.List) == 1 {
				if b2, ok := boolLitReturn(e.List[0]); ok {
					els = b2
					break
				}
			}
			return unsupported(file, s)
		}
		return "if " + c + " then " + b + " else " + els
	}
	block = func(sts []ast.Stmt) string {
		if len(sts) == 0 {
			return "unsupported_helper_falls_off_the_end"
		}
		switch s := sts[0].(type) {
		case *ast.AssignStmt:
			if s.Tok == token.DEFINE && len(s.Lhs) == 1 && len(s.Rhs) == 1 {
				if id, ok := s.Lhs[0].(*ast.Ident); ok && !vars[id.Name] {
					if e, ok := natExpr(s.Rhs[0], vars); ok {
						vars[id.Name] = true
						return "let " + id.Name + " := " + e + "\n  " + block(sts[1:])
					}
				}
			}
		case *ast.IfStmt:
			return ifChain(s, "("+block(sts[1:])+")")
		case *ast.ReturnStmt:
			if b, ok := boolLitReturn(s); ok && len(sts) == 1 {
				return b
			}
		}
		return unsupported(file, sts[0])
	}
	return "fun " + param + " =>\n  " + block(fn.Body.List)
}

func iotaConsts(path, typ string) map[string]int {
	out := map[string]int{}
	f := parseFile(path)
	for _, d := range f.Decls {
		gd, ok := d.(*ast.GenDecl)
		if !ok || gd.Tok != token.CONST {
			continue
		}
		isIota := false
		for i, sp := range gd.Specs {
			vs := sp.(*ast.ValueSpec)
			if i == 0 {
				isIota = len(vs.Values) == 1 && src(vs.Values[0]) == "iota" && vs.Type != nil && src(vs.Type) == typ
			}
			if isIota && len(vs.Names) == 1 && (i == 0 || (len(vs.Values) == 0 && vs.Type == nil)) {
				out[vs.Names[0].Name] = i
			} else if isIota {
				return map[string]int{}
			}
		}
	}
	return out
}

func genHelpers(repo string, b *strings.Builder) {
	path := filepath.Join(repo, "uhppote", "put_card.go")
	f := parseFile(path)
	for _, name := range []string{"isWiegand26", "isWiegandAny"} {
		fmt.Fprintf(b, "/-- uhppote/put_card.go `%s`, statement by statement -/\ndef %s : Nat → Bool := %s\n\n", name, name, boolFunc(path, findFunc(f, name, "")))
	}
	// isCardNumberValid: no formats ⇒ valid; otherwise some listed format accepts the number
	term := "unsupported_isCardNumberValid"
	consts := iotaConsts(filepath.Join(repo, "types", "card-format.go"), "CardFormat")
	if fn := findFunc(f, "isCardNumberValid", ""); fn != nil && len(fn.Body.List) == 3 && len(fn.Type.Params.List) == 2 {
		card := fn.Type.Params.List[0].Names[0].Name
		formats := fn.Type.Params.List[1].Names[0].Name
		_, variadic := fn.Type.Params.List[1].Type.(*ast.Ellipsis)
		s0, ok0 := fn.Body.List[0].(*ast.IfStmt)
		s1, ok1 := fn.Body.List[1].(*ast.RangeStmt)
		ret, ok2 := boolLitReturn(fn.Body.List[2])
		if variadic && ok0 && ok1 && ok2 && ret == "false" && s0.Else == nil && s0.Init == nil && src(s0.Cond) == "len("+formats+") == 0" && len(s0.Body.List) == 1 &&
			src(s1.X) == formats && s1.Value != nil && src(s1.Key) == "_" && len(s1.Body.List) == 1 {
			b0, okb := boolLitReturn(s0.Body.List[0])
			sw, oksw := s1.Body.List[0].(*ast.SwitchStmt)
			if okb && b0 == "true" && oksw && sw.Init == nil && src(sw.Tag) == src(s1.Value) {
				alts := []string{}
				good := true
				for _, cc := range sw.Body.List {
					c := cc.(*ast.CaseClause)
					if len(c.List) != 1 || len(c.Body) != 1 {
						good = false
						break
					}
					v, okc := consts[strings.TrimPrefix(src(c.List[0]), "types.")]
					is, oki := c.Body[0].(*ast.IfStmt)
					if !okc || !oki || is.Else != nil || is.Init != nil || len(is.Body.List) != 1 {
						good = false
						break
					}
					rb, okr := boolLitReturn(is.Body.List[0])
					call, okcall := is.Cond.(*ast.CallExpr)
					if !okr || rb != "true" || !okcall || len(call.Args) != 1 || src(call.Args[0]) != card {
						good = false
						break
					}
					h := src(call.Fun)
					if h != "isWiegand26" && h != "isWiegandAny" {
						good = false
						break
					}
					alts = append(alts, fmt.Sprintf("(f == %d && %s card)", v, h))
				}
				if good && len(alts) > 0 {
					term = "fun card formats => formats.isEmpty || formats.any fun f => " + strings.Join(alts, " || ")
				}
			}
		}
	}
	fmt.Fprintf(b, "/-- uhppote/put_card.go `isCardNumberValid` (formats by their iota values in types/card-format.go) -/\ndef isCardNumberValid : Nat → List Nat → Bool := %s\n\n", term)
}
