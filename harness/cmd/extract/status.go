package main

import (
	"fmt"
	"go/ast"
	"go/token"
	"path/filepath"
	"strings"
)

// uhppote/get_status.go and uhppote/listen.go → Gen/Status.lean (C02 C10 C13): how a types.Status is put together
// from a get-status reply / an event — the two sites are written separately in the source. Translated: which reply
// field goes to which position (map literals with keys 1..4 flattened), the event part being filled exactly when the
// event index is non-zero, and the system date-time closure, whose body is compared with the one shape it has
// (format the system date and time, join with a blank, parse in time.Local; zero date ⇒ zero date-time).

const sysdatetimeShape = `if R.SystemDate.IsZero() {
	return types.DateTime{}
}
d := R.SystemDate.Format("2006-01-02")
t := R.SystemTime.Format("15:04:05")
if dt, err := time.ParseInLocation("2006-01-02 15:04:05", d+" "+t, time.Local); err != nil {
	return types.DateTime{}
} else {
	return types.DateTime(dt)
}`

func normalise(s string) string {
	return strings.Join(strings.Fields(s), " ")
}

// statusTerm finds, anywhere below `root`: sysdatetime := func(…) …, status := types.Status{…}, if R.EventIndex != 0
// { status.Event = types.StatusEvent{…} }, and renders them over r (the reply struct's values in declaration order)
func statusTerm(file string, root ast.Node, replyVar string, index map[string]int) string {
	var closure *ast.FuncLit
	var lit, ev *ast.CompositeLit
	var evCond string
	statusVar := ""
	count := map[string]int{}
	ast.Inspect(root, func(n ast.Node) bool {
		switch x := n.(type) {
		case *ast.AssignStmt:
			if x.Tok == token.DEFINE && len(x.Lhs) == 1 && len(x.Rhs) == 1 {
				if fl, ok := x.Rhs[0].(*ast.FuncLit); ok && src(x.Lhs[0]) == "sysdatetime" {
					closure = fl
					count["closure"]++
				}
				if cl, ok := x.Rhs[0].(*ast.CompositeLit); ok && src(cl.Type) == "types.Status" {
					lit, statusVar = cl, src(x.Lhs[0])
					count["status"]++
				}
			}
			if x.Tok == token.ASSIGN && len(x.Lhs) == 1 && len(x.Rhs) == 1 && statusVar != "" && strings.HasPrefix(src(x.Lhs[0]), statusVar+".") {
				count["field-assignment"]++
			}
		case *ast.IfStmt:
			if x.Init == nil && x.Else == nil && len(x.Body.List) == 1 {
				if as, ok := x.Body.List[0].(*ast.AssignStmt); ok && as.Tok == token.ASSIGN && len(as.Lhs) == 1 && len(as.Rhs) == 1 {
					if cl, ok := as.Rhs[0].(*ast.CompositeLit); ok && src(cl.Type) == "types.StatusEvent" && src(as.Lhs[0]) == statusVar+".Event" {
						ev, evCond = cl, src(x.Cond)
						count["event"]++
					}
				}
			}
		}
		return true
	})
	if closure == nil || lit == nil || ev == nil || count["closure"] != 1 || count["status"] != 1 || count["event"] != 1 || count["field-assignment"] != 1 {
		return "unsupported_status_shape"
	}
	// the closure: its parameter (Listen) or the captured reply (GetStatus)
	who := replyVar
	if closure.Type.Params != nil && len(closure.Type.Params.List) == 1 && len(closure.Type.Params.List[0].Names) == 1 {
		who = closure.Type.Params.List[0].Names[0].Name
	}
	body := []string{}
	for _, st := range closure.Body.List {
		body = append(body, src(st))
	}
	if normalise(strings.Join(body, "\n")) != normalise(strings.ReplaceAll(sysdatetimeShape, "R.", who+".")) {
		return unsupported(file, closure)
	}
	val := func(e ast.Expr) string {
		if sel, ok := e.(*ast.SelectorExpr); ok && src(sel.X) == replyVar {
			if i, ok := index[sel.Sel.Name]; ok {
				return fmt.Sprintf("r.getD %d .none_", i)
			}
		}
		if c, ok := e.(*ast.CallExpr); ok && src(c.Fun) == "sysdatetime" {
			if (len(c.Args) == 0 && who == replyVar) || (len(c.Args) == 1 && src(c.Args[0]) == replyVar) {
				return fmt.Sprintf("sysDateTime (r.getD %d .none_) (r.getD %d .none_)", index["SystemDate"], index["SystemTime"])
			}
		}
		return unsupported(file, e)
	}
	flat := func(cl *ast.CompositeLit) []string {
		out := []string{}
		for _, el := range cl.Elts {
			kv, ok := el.(*ast.KeyValueExpr)
			if !ok {
				return []string{unsupported(file, el)}
			}
			if ml, ok := kv.Value.(*ast.CompositeLit); ok && strings.HasPrefix(src(ml.Type), "map[uint8]") {
				for k, mel := range ml.Elts {
					mkv, ok := mel.(*ast.KeyValueExpr)
					key, isInt := int64(0), false
					if ok {
						key, isInt = intLit(mkv.Key)
					}
					if !ok || !isInt || int(key) != k+1 {
						return []string{unsupported(file, mel)}
					}
					out = append(out, val(mkv.Value))
				}
				continue
			}
			out = append(out, val(kv.Value))
		}
		return out
	}
	if evCond != replyVar+".EventIndex != 0" {
		return unsupported(file, ev)
	}
	return fmt.Sprintf(".vals ([%s] ++ (if (r.getD %d .none_ != .u32 0) then [%s] else statusNoEvent))",
		strings.Join(flat(lit), ", "), index["EventIndex"], strings.Join(flat(ev), ", "))
}

func genStatus(repo, out string) {
	structs := messageStructs(repo)
	index := map[string]int{}
	for i, fld := range structs["GetStatusResponse"] {
		name, _, _ := strings.Cut(fld, ":")
		index[name] = i
	}
	var b strings.Builder
	b.WriteString("-- REGENERATED from uhppote/get_status.go and uhppote/listen.go by harness/cmd/extract; do not edit\n")
	b.WriteString("import Uhppote.Model.Api\n/-! How a status is put together from a get-status reply and from an event (r: the values of the message in\n    declaration order), translated from the two sites that do it. -/\nnamespace Uhppote.Gen.Status\nopen Uhppote Uhppote.Model Uhppote.Model.Api\n\n")
	{
		path := filepath.Join(repo, "uhppote/get_status.go")
		term := "unsupported_GetStatus"
		if fn := findFunc(parseFile(path), "GetStatus", "uhppote"); fn != nil && len(fn.Body.List) > 0 {
			if is, ok := fn.Body.List[len(fn.Body.List)-1].(*ast.IfStmt); ok && is.Init != nil {
				if as, ok := is.Init.(*ast.AssignStmt); ok && len(as.Lhs) == 2 {
					if els, ok := is.Else.(*ast.BlockStmt); ok && len(els.List) > 0 {
						if ret, ok := els.List[len(els.List)-1].(*ast.ReturnStmt); ok && len(ret.Results) == 2 && strings.HasPrefix(src(ret.Results[0]), "&") && src(ret.Results[1]) == "nil" {
							term = statusTerm(path, els, src(as.Lhs[0]), index)
						}
					}
				}
			}
		}
		fmt.Fprintf(&b, "/-- uhppote/get_status.go: the result of GetStatus -/\ndef getStatus (r : List Val) : Res := %s\n\n", term)
	}
	{
		path := filepath.Join(repo, "uhppote/listen.go")
		term := "unsupported_Listen"
		f := parseFile(path)
		// type event messages.GetStatusResponse: the event has the fields of the get-status reply
		same := false
		for _, d := range f.Decls {
			if gd, ok := d.(*ast.GenDecl); ok {
				for _, sp := range gd.Specs {
					if ts, ok := sp.(*ast.TypeSpec); ok && ts.Name.Name == "event" && src(ts.Type) == "messages.GetStatusResponse" {
						same = true
					}
				}
			}
		}
		if fn := findFunc(f, "Listen", "uhppote"); fn != nil && same {
			// the variable the dispatch loop receives from the pipe: `if e := <-pipe; e == nil { break } else { … listener.OnEvent(&status) }`
			var blk *ast.BlockStmt
			ev := ""
			ast.Inspect(fn.Body, func(n ast.Node) bool {
				if is, ok := n.(*ast.IfStmt); ok && is.Init != nil && blk == nil {
					if as, ok := is.Init.(*ast.AssignStmt); ok && len(as.Lhs) == 1 && len(as.Rhs) == 1 && strings.HasPrefix(src(as.Rhs[0]), "<-") {
						if els, ok := is.Else.(*ast.BlockStmt); ok && len(els.List) > 0 && src(is.Cond) == src(as.Lhs[0])+" == nil" {
							if last, ok := els.List[len(els.List)-1].(*ast.ExprStmt); ok && strings.HasPrefix(src(last.X), "listener.OnEvent(&") {
								blk, ev = els, src(as.Lhs[0])
							}
						}
					}
				}
				return true
			})
			if blk != nil {
				// the closure is defined at the top of Listen: look at the whole function, the literal is inside blk
				term = statusTerm(path, fn.Body, ev, index)
			}
		}
		fmt.Fprintf(&b, "/-- uhppote/listen.go: the status handed to OnEvent for a decoded event -/\ndef listenStatus (r : List Val) : Res := %s\n\n", term)
	}
	b.WriteString("end Uhppote.Gen.Status\n")
	writeIfChanged(filepath.Join(out, "Status.lean"), b.String())
}
