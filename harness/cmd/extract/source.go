package main

import (
	"bytes"
	"crypto/sha256"
	"flag"
	"fmt"
	"go/ast"
	"go/parser"
	"go/printer"
	"go/token"
	"os"
	"path/filepath"
	"sort"
	"strings"
)

// Gen/Source.lean: one entry per function / method / package-level var-const-type declaration of the
// hand-modelled packages (encoding/, types/, uhppote/): its name and the first 16 hex digits of the
// SHA-256 of its source text as go/printer prints it with comments removed. The hand-written model
// was written against exactly these texts (Model/Pins.lean lists, per property, the declarations
// its model transcribes); a changed text breaks the pin theorem of every property that depends on
// it. With -srcdir the normalised texts are also written out, one file per declaration, so that a
// broken pin can be reported as a diff.

var srcDir = flag.String("srcdir", "", "if set: write the normalised source text of every pinned declaration below this directory")

func pinName(rel string, d ast.Decl) []string {
	switch v := d.(type) {
	case *ast.FuncDecl:
		n := v.Name.Name
		if v.Recv != nil && len(v.Recv.List) == 1 {
			t := strings.TrimPrefix(src(v.Recv.List[0].Type), "*")
			if i := strings.Index(t, "["); i >= 0 {
				t = t[:i]
			}
			n = t + "." + n
		}
		return []string{rel + ":" + n}
	case *ast.GenDecl:
		if v.Tok == token.IMPORT {
			return nil
		}
		names := []string{}
		for _, sp := range v.Specs {
			switch s := sp.(type) {
			case *ast.ValueSpec:
				for _, id := range s.Names {
					names = append(names, id.Name)
				}
			case *ast.TypeSpec:
				names = append(names, s.Name.Name)
			}
		}
		if len(names) == 0 {
			return nil
		}
		if len(names) > 3 {
			names = append(names[:3], "…")
		}
		return []string{rel + ":" + strings.ToLower(v.Tok.String()) + " " + strings.Join(names, ",")}
	}
	return nil
}

// writesThroughReceiver: every statement of a method of the client (`uhppote`) or the driver (`ut0311`) that stores
// into the receiver: an assignment, ++/-- or delete/clear whose target is rooted at the receiver (u.x = …,
// u.devices[k] = …, *u = …) or at a local that was set to a field of the receiver (d := u.devices; d[k] = …), and
// every place where the address of a field of the receiver is taken (&u.field: a store can follow through it).
// The client and the driver are immutable after construction: the list is expected to be empty.
func writesThroughReceiver(rel string, fd *ast.FuncDecl) []string {
	if fd.Recv == nil || len(fd.Recv.List) != 1 || len(fd.Recv.List[0].Names) != 1 || fd.Body == nil {
		return nil
	}
	t := strings.TrimPrefix(src(fd.Recv.List[0].Type), "*")
	if t != "uhppote" && t != "ut0311" {
		return nil
	}
	recv := fd.Recv.List[0].Names[0].Name
	roots := map[string]bool{recv: true}
	root := func(e ast.Expr) (string, bool) { // (root identifier, something was selected / indexed / dereferenced on the way)
		deep := false
		for {
			switch v := e.(type) {
			case *ast.SelectorExpr:
				e, deep = v.X, true
			case *ast.IndexExpr:
				e, deep = v.X, true
			case *ast.StarExpr:
				e, deep = v.X, true
			case *ast.ParenExpr:
				e = v.X
			case *ast.Ident:
				return v.Name, deep
			default:
				return "", deep
			}
		}
	}
	out := []string{}
	add := func(n ast.Node) {
		out = append(out, rel+":"+t+"."+fd.Name.Name+": "+strings.Join(strings.Fields(src(n)), " "))
	}
	ast.Inspect(fd.Body, func(n ast.Node) bool {
		switch v := n.(type) {
		case *ast.AssignStmt:
			for _, l := range v.Lhs {
				if r, deep := root(l); roots[r] && (deep || (r == recv && v.Tok != token.DEFINE)) {
					add(v)
					return true
				}
			}
			// a local that now names a field of the receiver: a store through it is a store into the receiver
			if len(v.Lhs) == len(v.Rhs) {
				for i, rhs := range v.Rhs {
					if _, isSel := rhs.(*ast.SelectorExpr); !isSel {
						continue
					}
					if r, deep := root(rhs); r == recv && deep {
						if id, ok := v.Lhs[i].(*ast.Ident); ok && id.Name != "_" {
							roots[id.Name] = true
						}
					}
				}
			}
		case *ast.IncDecStmt:
			if r, deep := root(v.X); roots[r] && deep {
				add(v)
			}
		case *ast.UnaryExpr:
			// &u.field handed to something else: whoever gets the pointer can store through it
			if v.Op == token.AND {
				if r, deep := root(v.X); roots[r] && deep {
					add(v)
				}
			}
		case *ast.CallExpr:
			if f, ok := v.Fun.(*ast.Ident); ok && (f.Name == "delete" || f.Name == "clear") && len(v.Args) > 0 {
				if r, _ := root(v.Args[0]); roots[r] {
					add(v)
				}
			}
		}
		return true
	})
	return out
}

var receiverWrites = []string{}

// ambientReads: every place where a function of the four packages reads the wall clock, the process zone, the
// environment or the runtime (time.Now / Since / Until, time.Local, os.Getenv…, os.Hostname, os.Getwd, runtime.GOOS,
// runtime.NumCPU / GOMAXPROCS, math/rand): what a call does may depend on the moment and the place only there.
var ambientReads = []string{}

// goStatements: every function that starts a goroutine, with how many `go` statements it has: the inventory of
// concurrency inside the library (the discovery collector, the listener's reader and dispatcher, the TCP / UDP helpers)
var goStatements = []string{}

func startsGoroutines(rel string, fd *ast.FuncDecl) []string {
	if fd.Body == nil {
		return nil
	}
	name := fd.Name.Name
	if fd.Recv != nil && len(fd.Recv.List) == 1 {
		name = strings.TrimPrefix(src(fd.Recv.List[0].Type), "*") + "." + name
	}
	n := 0
	ast.Inspect(fd.Body, func(x ast.Node) bool {
		if _, ok := x.(*ast.GoStmt); ok {
			n++
		}
		return true
	})
	if n == 0 {
		return nil
	}
	return []string{fmt.Sprintf("%s:%s: %d", rel, name, n)}
}

// panicSites: every function that calls panic(…) itself, with the number of such calls: the Must… constructors (by
// contract), the two "cannot (un)marshal a field of this type" branches of the codec (unreachable for the supported
// kinds) and the HHmm comparison with something that is neither a time nor an HH:mm
var panicSites = []string{}

func callsPanic(rel string, fd *ast.FuncDecl) []string {
	if fd.Body == nil {
		return nil
	}
	name := fd.Name.Name
	if fd.Recv != nil && len(fd.Recv.List) == 1 {
		name = strings.TrimPrefix(src(fd.Recv.List[0].Type), "*") + "." + name
	}
	n := 0
	ast.Inspect(fd.Body, func(x ast.Node) bool {
		if c, ok := x.(*ast.CallExpr); ok {
			if id, ok := c.Fun.(*ast.Ident); ok && id.Name == "panic" {
				n++
			}
		}
		return true
	})
	if n == 0 {
		return nil
	}
	return []string{fmt.Sprintf("%s:%s: %d", rel, name, n)}
}

var ambientNames = map[string]bool{
	"time.Now": true, "time.Since": true, "time.Until": true, "time.Local": true,
	"os.Getenv": true, "os.LookupEnv": true, "os.Environ": true, "os.Hostname": true, "os.Getwd": true, "os.Getpid": true, "os.Args": true,
	"runtime.GOOS": true, "runtime.GOARCH": true, "runtime.NumCPU": true, "runtime.GOMAXPROCS": true, "runtime.NumGoroutine": true,
}

func readsAmbient(rel string, fd *ast.FuncDecl) []string {
	if fd.Body == nil {
		return nil
	}
	name := fd.Name.Name
	if fd.Recv != nil && len(fd.Recv.List) == 1 {
		name = strings.TrimPrefix(src(fd.Recv.List[0].Type), "*") + "." + name
	}
	seen := map[string]bool{}
	out := []string{}
	ast.Inspect(fd.Body, func(n ast.Node) bool {
		if se, ok := n.(*ast.SelectorExpr); ok {
			if x, ok := se.X.(*ast.Ident); ok {
				q := x.Name + "." + se.Sel.Name
				if (ambientNames[q] || x.Name == "rand") && !seen[q] {
					seen[q] = true
					out = append(out, rel+":"+name+": "+q)
				}
			}
		}
		return true
	})
	sort.Strings(out)
	return out
}

func genSource(repo, out string) {
	type entry struct{ name, hash, text string }
	entries := []entry{}
	for _, dir := range []string{"encoding/bcd", "encoding/UTO311-L0x", "types", "uhppote"} {
		files, _ := filepath.Glob(filepath.Join(repo, dir, "*.go"))
		sort.Strings(files)
		for _, path := range files {
			base := filepath.Base(path)
			if strings.HasSuffix(base, "_test.go") || base == "verif_hooks.go" || base == "doc.go" ||
				strings.HasSuffix(base, "_darwin.go") || strings.HasSuffix(base, "_windows.go") {
				continue
			}
			// parsed WITHOUT comments: the text is the code only
			fs := token.NewFileSet()
			f, err := parser.ParseFile(fs, path, nil, 0)
			if err != nil {
				fmt.Fprintf(os.Stderr, "extract: cannot parse %s: %v\n", path, err)
				os.Exit(2)
			}
			rel := dir + "/" + base
			seen := map[string]int{}
			for _, d := range f.Decls {
				ns := pinName(rel, d)
				if ns == nil {
					continue
				}
				var b bytes.Buffer
				(&printer.Config{Mode: printer.UseSpaces | printer.TabIndent, Tabwidth: 4}).Fprint(&b, fs, d)
				text := b.String()
				name := ns[0]
				seen[name]++
				if seen[name] > 1 {
					name = fmt.Sprintf("%s#%d", name, seen[name])
				}
				sum := sha256.Sum256([]byte(text))
				entries = append(entries, entry{name, fmt.Sprintf("%x", sum[:8]), text})
				if fd, ok := d.(*ast.FuncDecl); ok && dir == "uhppote" {
					receiverWrites = append(receiverWrites, writesThroughReceiver(rel, fd)...)
				}
				if fd, ok := d.(*ast.FuncDecl); ok {
					ambientReads = append(ambientReads, readsAmbient(rel, fd)...)
					goStatements = append(goStatements, startsGoroutines(rel, fd)...)
					panicSites = append(panicSites, callsPanic(rel, fd)...)
				}
				// an operation of the regular shape  guards* ; request := messages.X{…} ; … sendto[T](…) …  is also
				// entered in four parts, so that a property depends only on the part its model transcribes
				if fd, ok := d.(*ast.FuncDecl); ok && dir == "uhppote" && fd.Recv != nil && fd.Body != nil && ast.IsExported(fd.Name.Name) {
					pr := func(n ast.Node) string {
						var b bytes.Buffer
						(&printer.Config{Mode: printer.UseSpaces | printer.TabIndent, Tabwidth: 4}).Fprint(&b, fs, n)
						return b.String()
					}
					reqAt, sendAt := -1, -1
					for i, st := range fd.Body.List {
						txt := pr(st)
						if reqAt < 0 {
							if as, ok := st.(*ast.AssignStmt); ok && len(as.Lhs) == 1 && pr(as.Lhs[0]) == "request" && strings.HasPrefix(pr(as.Rhs[0]), "messages.") {
								reqAt = i
							}
						} else if sendAt < 0 && strings.Contains(txt, "sendto[") {
							sendAt = i
						}
					}
					if reqAt >= 0 && sendAt > reqAt {
						seg := func(a, b int) string {
							parts := []string{}
							for _, st := range fd.Body.List[a:b] {
								parts = append(parts, pr(st))
							}
							return strings.Join(parts, "\n")
						}
						sig := pr(fd.Type)
						call := ""
						ast.Inspect(fd.Body.List[sendAt], func(n ast.Node) bool {
							if ce, ok := n.(*ast.CallExpr); ok && call == "" && strings.HasPrefix(pr(ce.Fun), "sendto[") {
								call = pr(ce)
							}
							return true
						})
						for _, part := range []struct{ tag, text string }{
							{"#guards", "func " + fd.Name.Name + sig + "\n" + seg(0, reqAt)},
							{"#request", seg(reqAt, sendAt)},
							{"#send", call},
							{"#result", seg(sendAt, len(fd.Body.List))},
						} {
							h := sha256.Sum256([]byte(part.text))
							entries = append(entries, entry{name + part.tag, fmt.Sprintf("%x", h[:8]), part.text})
						}
					}
				}
			}
		}
	}
	sort.Slice(entries, func(i, j int) bool { return entries[i].name < entries[j].name })
	var b strings.Builder
	b.WriteString("-- REGENERATED from encoding/, types/, uhppote/ by harness/cmd/extract; do not edit\n")
	b.WriteString("namespace Uhppote.Gen.Source\n\n")
	b.WriteString("/-- (declaration, first 8 bytes of the SHA-256 of its name, first 8 bytes of the SHA-256 of its\n    comment-free go/printer text); numbers because the kernel compares them fast -/\n")
	b.WriteString("def decls : List (String × Nat × Nat) := [\n")
	for i, e := range entries {
		sep := ","
		if i == len(entries)-1 {
			sep = ""
		}
		ns := sha256.Sum256([]byte(e.name))
		fmt.Fprintf(&b, "  (%s, 0x%x, 0x%s)%s\n", leanStr(e.name), ns[:8], e.hash, sep)
	}
	b.WriteString("]\n\n/-- every package-level `var` of the three packages (mutable state that could carry something from one call to the next) -/\ndef packageVars : List String := [")
	first := true
	for _, e := range entries {
		if strings.Contains(e.name, ":var ") {
			if !first {
				b.WriteString(", ")
			}
			first = false
			b.WriteString(leanStr(e.name))
		}
	}
	b.WriteString("]\n\n/-- every statement of a method of the client or of the driver that stores into its receiver (a field, an entry of a\n    map or slice field, also through a local naming such a field) -/\ndef receiverWrites : List String := [")
	for i, w := range receiverWrites {
		if i > 0 {
			b.WriteString(", ")
		}
		b.WriteString(leanStr(w))
	}
	b.WriteString("]\n\n/-- every function that reads the wall clock, the process time zone, the environment or the runtime, with what it reads -/\ndef ambientReads : List String := [")
	for i, w := range ambientReads {
		if i > 0 {
			b.WriteString(",\n  ")
		}
		b.WriteString(leanStr(w))
	}
	b.WriteString("]\n\n/-- every function that starts goroutines, with the number of its `go` statements -/\ndef goStatements : List String := [")
	for i, w := range goStatements {
		if i > 0 {
			b.WriteString(", ")
		}
		b.WriteString(leanStr(w))
	}
	b.WriteString("]\n\n/-- every function that calls panic itself, with the number of such calls -/\ndef panicSites : List String := [")
	for i, w := range panicSites {
		if i > 0 {
			b.WriteString(", ")
		}
		b.WriteString(leanStr(w))
	}
	b.WriteString("]\n\nend Uhppote.Gen.Source\n")
	writeIfChanged(filepath.Join(out, "Source.lean"), b.String())
	if *srcDir != "" {
		os.RemoveAll(*srcDir)
		for _, e := range entries {
			p := filepath.Join(*srcDir, strings.NewReplacer("/", "__", ":", "--", " ", "_", "…", "etc", "*", "").Replace(e.name)+".go.txt")
			os.MkdirAll(filepath.Dir(p), 0o755)
			os.WriteFile(p, []byte("// "+e.name+" "+e.hash+"\n"+e.text+"\n"), 0o644)
		}
	}
}
