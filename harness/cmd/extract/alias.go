package main

import (
	"fmt"
	"go/ast"
	"go/token"
	"os"
	"path/filepath"
	"sort"
	"strings"
)

// uhppote/*.go, types/card.go, types/mac.go → Gen/Alias.lean (T5, C17): the syntactic facts the
// insulation theorems rest on.

func rootIdent(e ast.Expr) string {
	for {
		switch v := e.(type) {
		case *ast.Ident:
			return v.Name
		case *ast.SelectorExpr:
			e = v.X
		case *ast.IndexExpr:
			e = v.X
		case *ast.StarExpr:
			e = v.X
		case *ast.ParenExpr:
			e = v.X
		case *ast.SliceExpr:
			e = v.X
		default:
			return ""
		}
	}
}

func genAlias(repo, out string) {
	var b strings.Builder
	b.WriteString("-- REGENERATED from uhppote/*.go and types/*.go by harness/cmd/extract; do not edit\n")
	b.WriteString("namespace Uhppote.Gen.Alias\n\n")
	strList := func(xs []string) string {
		q := []string{}
		for _, x := range xs {
			q = append(q, leanStr(x))
		}
		return "[" + strings.Join(q, ", ") + "]"
	}

	// --- writes through a parameter in any function of package uhppote (operations must not
	// modify the card / profile / task / map arguments they are given)
	dir := filepath.Join(repo, "uhppote")
	ents, _ := os.ReadDir(dir)
	writes := []string{}
	for _, e := range ents {
		if !strings.HasSuffix(e.Name(), ".go") || strings.HasSuffix(e.Name(), "_test.go") || e.Name() == "verif_hooks.go" {
			continue
		}
		f := parseFile(filepath.Join(dir, e.Name()))
		for _, d := range f.Decls {
			fd, ok := d.(*ast.FuncDecl)
			if !ok || fd.Body == nil {
				continue
			}
			params := map[string]bool{}
			for _, p := range fd.Type.Params.List {
				// only reference-carrying or struct parameters matter; scalars are copies, but a
				// write to any parameter-rooted l-value other than the bare parameter itself is recorded
				for _, n := range p.Names {
					params[n.Name] = true
				}
			}
			shadow := map[string]bool{}
			ast.Inspect(fd.Body, func(n ast.Node) bool {
				switch s := n.(type) {
				case *ast.AssignStmt:
					for _, lhs := range s.Lhs {
						if id, ok := lhs.(*ast.Ident); ok {
							if s.Tok == token.DEFINE {
								shadow[id.Name] = true
							}
							continue // re-binding a local copy of a scalar parameter is harmless
						}
						if r := rootIdent(lhs); params[r] && !shadow[r] {
							writes = append(writes, fmt.Sprintf("%s:%s: %s", e.Name(), fd.Name.Name, src(lhs)))
						}
					}
				case *ast.IncDecStmt:
					if _, ok := s.X.(*ast.Ident); !ok {
						if r := rootIdent(s.X); params[r] && !shadow[r] {
							writes = append(writes, fmt.Sprintf("%s:%s: %s", e.Name(), fd.Name.Name, src(s.X)))
						}
					}
				case *ast.CallExpr:
					if id, ok := s.Fun.(*ast.Ident); ok && (id.Name == "delete" || id.Name == "clear" || id.Name == "copy") && len(s.Args) > 0 {
						if r := rootIdent(s.Args[0]); params[r] && !shadow[r] {
							writes = append(writes, fmt.Sprintf("%s:%s: %s(%s…)", e.Name(), fd.Name.Name, id.Name, src(s.Args[0])))
						}
					}
				}
				return true
			})
		}
	}
	sort.Strings(writes)
	fmt.Fprintf(&b, "/-- l-values rooted at a parameter that some function of package uhppote writes to -/\ndef writesThroughParameters : List String := %s\n\n", strList(writes))

	// --- the constructor stores clones in a fresh map; DeviceList returns a fresh map
	fu := parseFile(filepath.Join(repo, "uhppote/uhppote.go"))
	ctorMap, ctorStore := "?", "?"
	if fn := findFunc(fu, "NewUHPPOTE", ""); fn != nil {
		ast.Inspect(fn.Body, func(n ast.Node) bool {
			switch s := n.(type) {
			case *ast.KeyValueExpr:
				if src(s.Key) == "devices" {
					ctorMap = src(s.Value)
				}
			case *ast.AssignStmt:
				if len(s.Lhs) == 1 && strings.HasPrefix(src(s.Lhs[0]), "uhppote.devices[") {
					ctorStore = src(s.Rhs[0])
				}
			}
			return true
		})
	}
	listMap, listStore := "?", "?"
	if fn := findFunc(fu, "DeviceList", "uhppote"); fn != nil {
		ast.Inspect(fn.Body, func(n ast.Node) bool {
			if s, ok := n.(*ast.AssignStmt); ok && len(s.Lhs) == 1 {
				if src(s.Lhs[0]) == "list" && s.Tok == token.DEFINE {
					listMap = src(s.Rhs[0])
				}
				if strings.HasPrefix(src(s.Lhs[0]), "list[") {
					listStore = src(s.Rhs[0])
				}
			}
			return true
		})
	}
	fmt.Fprintf(&b, "def constructorMap : String := %s\ndef constructorStores : String := %s\n", leanStr(ctorMap), leanStr(ctorStore))
	fmt.Fprintf(&b, "def deviceListMap : String := %s\ndef deviceListStores : String := %s\n\n", leanStr(listMap), leanStr(listStore))

	// --- what the routing closure reads of the configured controller
	reads := map[string]bool{}
	if fn := findFunc(fu, "sendto", ""); fn != nil {
		ast.Inspect(fn.Body, func(n ast.Node) bool {
			if sel, ok := n.(*ast.SelectorExpr); ok {
				if id, ok := sel.X.(*ast.Ident); ok && id.Name == "controller" {
					reads[sel.Sel.Name] = true
				}
			}
			return true
		})
	}
	rs := []string{}
	for k := range reads {
		rs = append(rs, k)
	}
	sort.Strings(rs)
	fmt.Fprintf(&b, "/-- fields of the configured controller the routing closure reads -/\ndef routingReads : List String := %s\n", strList(rs))

	// --- Device: which fields are by-value (no shared mutable storage)
	fd := parseFile(filepath.Join(repo, "uhppote/device.go"))
	fields := []string{}
	for _, d := range fd.Decls {
		if gd, ok := d.(*ast.GenDecl); ok {
			for _, sp := range gd.Specs {
				if ts, ok := sp.(*ast.TypeSpec); ok && ts.Name.Name == "Device" {
					if st, ok := ts.Type.(*ast.StructType); ok {
						for _, f := range st.Fields.List {
							for _, n := range f.Names {
								fields = append(fields, fmt.Sprintf("(%s, %s)", leanStr(n.Name), leanStr(src(f.Type))))
							}
						}
					}
				}
			}
		}
	}
	fmt.Fprintf(&b, "/-- fields of uhppote.Device with their Go types -/\ndef deviceFields : List (String × String) := [%s]\n", strings.Join(fields, ", "))
	cloneDoors, cloneCopies := "?", "false"
	if fn := findFunc(fd, "Clone", "Device"); fn != nil {
		ast.Inspect(fn.Body, func(n ast.Node) bool {
			switch s := n.(type) {
			case *ast.KeyValueExpr:
				if src(s.Key) == "Doors" {
					cloneDoors = src(s.Value)
				}
			case *ast.CallExpr:
				if src(s.Fun) == "copy" && len(s.Args) == 2 && src(s.Args[0]) == "device.Doors" && src(s.Args[1]) == "d.Doors" {
					cloneCopies = "true"
				}
			}
			return true
		})
	}
	fmt.Fprintf(&b, "def deviceCloneDoors : String := %s\ndef deviceCloneCopiesDoors : Bool := %s\n", leanStr(cloneDoors), cloneCopies)

	// --- Card.Clone builds a new map literal
	fc := parseFile(filepath.Join(repo, "types/card.go"))
	cardDoors := "?"
	if fn := findFunc(fc, "Clone", "Card"); fn != nil {
		ast.Inspect(fn.Body, func(n ast.Node) bool {
			if kv, ok := n.(*ast.KeyValueExpr); ok && src(kv.Key) == "Doors" {
				if cl, ok := kv.Value.(*ast.CompositeLit); ok {
					cardDoors = "new " + src(cl.Type) + fmt.Sprintf(" literal with %d entries", len(cl.Elts))
				} else {
					cardDoors = src(kv.Value)
				}
			}
			return true
		})
	}
	fmt.Fprintf(&b, "def cardCloneDoors : String := %s\n", leanStr(cardDoors))

	// --- types.MacAddress decoder copies out of the message buffer
	fm := parseFile(filepath.Join(repo, "types/mac.go"))
	macCopies := "false"
	if fn := findFunc(fm, "UnmarshalUT0311L0x", "MacAddress"); fn != nil {
		madeLocal, copied := false, false
		ast.Inspect(fn.Body, func(n ast.Node) bool {
			switch s := n.(type) {
			case *ast.AssignStmt:
				if len(s.Rhs) == 1 {
					if c, ok := s.Rhs[0].(*ast.CallExpr); ok && src(c.Fun) == "make" && src(s.Lhs[0]) == "mac" {
						madeLocal = true
					}
				}
			case *ast.CallExpr:
				if src(s.Fun) == "copy" && len(s.Args) == 2 && src(s.Args[0]) == "mac" {
					copied = true
				}
			}
			return true
		})
		if madeLocal && copied {
			macCopies = "true"
		}
	}
	fmt.Fprintf(&b, "def macAddressDecoderCopies : Bool := %s\n\n", macCopies)
	b.WriteString("end Uhppote.Gen.Alias\n")
	writeIfChanged(filepath.Join(out, "Alias.lean"), b.String())
}
