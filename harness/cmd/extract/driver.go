package main

import (
	"fmt"
	"go/ast"
	"go/token"
	"path/filepath"
	"sort"
	"strings"
)

// uhppote/UT0311.go → Gen/Driver.lean (T5; C03 C06 C08 C09): per driver method, the pre-order
// position of the statements the timing / resource / race models depend on.

func genDriver(repo, out string) {
	path := filepath.Join(repo, "uhppote/UT0311.go")
	f := parseFile(path)
	var b strings.Builder
	b.WriteString("-- REGENERATED from uhppote/UT0311.go by harness/cmd/extract; do not edit\n")
	b.WriteString("import Uhppote.Model.Driver\nnamespace Uhppote.Gen.Driver\nopen Uhppote.Model.Driver\n\n")

	for _, name := range []string{"BroadcastTo", "SendUDP", "SendTCP", "Broadcast"} {
		fn := findFunc(f, name, "ut0311")
		if fn == nil {
			fmt.Fprintf(&b, "def %s : MethodFacts := unsupported_driver_%s\n", name, name)
			continue
		}
		pos := 0
		idx := map[string][]int{}
		mark := func(k string) { idx[k] = append(idx[k], pos) }
		writes, reads := 0, 0
		noReply := "0"
		readLoop := "false"
		guardCond := ""
		ast.Inspect(fn.Body, func(n ast.Node) bool {
			if n == nil {
				return true
			}
			pos++
			switch s := n.(type) {
			case *ast.AssignStmt:
				if len(s.Lhs) == 1 && src(s.Lhs[0]) == "deadline" && strings.Contains(src(s.Rhs[0]), "time.Now().Add(u.timeout)") {
					mark("deadline")
				}
			case *ast.IfStmt:
				for _, st := range s.Body.List {
					if es, ok := st.(*ast.ExprStmt); ok && src(es.X) == "guard.Lock()" {
						guardCond = src(s.Cond)
					}
				}
				if be, ok := s.Cond.(*ast.BinaryExpr); ok && src(be.X) == "request[1]" {
					if v, ok := intLit(be.Y); ok {
						noReply = fmt.Sprint(v)
					}
				}
			case *ast.ExprStmt:
				if src(s.X) == "guard.Lock()" {
					mark("lock")
				}
			case *ast.DeferStmt:
				switch src(s.Call) {
				case "guard.Unlock()":
					mark("deferUnlock")
				case "connection.Close()":
					mark("deferClose")
				}
			case *ast.CallExpr:
				fun := src(s.Fun)
				switch {
				case fun == "net.ListenUDP" || strings.HasSuffix(fun, ".Dial"):
					mark("open")
				case strings.HasSuffix(fun, ".SetDeadline") || strings.HasSuffix(fun, ".SetReadDeadline"):
					mark("setDeadline")
				case strings.HasSuffix(fun, ".WriteToUDP") || fun == "connection.Write":
					writes++
					mark("write")
				case strings.HasSuffix(fun, ".ReadFromUDP") || fun == "connection.Read":
					reads++
					mark("read")
				case fun == "time.Sleep":
					mark("sleep")
				}
			case *ast.ForStmt:
				if s.Cond == nil && strings.Contains(src(s.Body), "ReadFromUDP") {
					readLoop = "true"
				}
			}
			return true
		})
		first := func(k string) int {
			if len(idx[k]) == 0 {
				return -1
			}
			return idx[k][0]
		}
		last := func(k string) int {
			if len(idx[k]) == 0 {
				return -1
			}
			return idx[k][len(idx[k])-1]
		}
		// the deadline that is given to the socket: the LAST assignment before setDeadline
		deadlineForSocket := -1
		for _, p := range idx["deadline"] {
			if p < first("setDeadline") || first("setDeadline") < 0 {
				deadlineForSocket = p
			}
		}
		boolOf := func(c bool) string {
			if c {
				return "true"
			}
			return "false"
		}
		fmt.Fprintf(&b, "def %s : MethodFacts :=\n  { lockWhenFixedPort := %s,\n    firstDeadlineAfterLock := %s,\n    socketDeadlineAfterLock := %s,\n    unlockDeferred := %s,\n    closeDeferredAfterOpen := %s,\n    writes := %d,\n    noReplyCode := %s,\n    readsInLoop := %s,\n    reads := %d,\n    sleepsForTimeout := %s }\n\n",
			name,
			boolOf(guardCond == "bind.Port != 0" && first("lock") >= 0 && first("lock") < first("open")),
			boolOf(first("deadline") > first("lock") && first("lock") >= 0),
			boolOf(deadlineForSocket > first("lock") && first("lock") >= 0),
			boolOf(first("deferUnlock") > first("lock") && first("lock") >= 0 && first("deferUnlock") < first("open")),
			boolOf(first("deferClose") > first("open") && first("open") >= 0 && (first("write") < 0 || first("deferClose") < first("write"))),
			writes, noReply, readLoop, reads, boolOf(last("sleep") >= 0))
	}

	// --- shared variables between goroutines: assigned inside a `go func` and used outside (or in
	// another go func) of the same method, and whether a sync.Mutex is locked around each access
	for _, name := range []string{"Broadcast", "Listen"} {
		fn := findFunc(f, name, "ut0311")
		shared := []string{}
		if fn != nil {
			type acc struct {
				inGo  int // which go-func (0 = outside)
				write bool
				lock  bool
			}
			accesses := map[string][]acc{}
			locals := map[string]bool{}
			ast.Inspect(fn.Body, func(n ast.Node) bool {
				switch s := n.(type) {
				case *ast.AssignStmt:
					if s.Tok == token.DEFINE {
						for _, l := range s.Lhs {
							if id, ok := l.(*ast.Ident); ok {
								locals[id.Name] = true
							}
						}
					}
				case *ast.GenDecl:
					for _, sp := range s.Specs {
						if vs, ok := sp.(*ast.ValueSpec); ok {
							for _, n := range vs.Names {
								locals[n.Name] = true
							}
						}
					}
				}
				return true
			})
			goN := 0
			var walk func(n ast.Node, inGo int, locked bool)
			walk = func(n ast.Node, inGo int, locked bool) {
				ast.Inspect(n, func(m ast.Node) bool {
					switch s := m.(type) {
					case *ast.GoStmt:
						if fl, ok := s.Call.Fun.(*ast.FuncLit); ok {
							goN++
							walk(fl.Body, goN, false)
							return false
						}
					case *ast.BlockStmt:
						// a block that starts with X.Lock() and defers / ends with X.Unlock() is a critical section
						lk := false
						for _, st := range s.List {
							if es, ok := st.(*ast.ExprStmt); ok && strings.HasSuffix(src(es.X), ".Lock()") && !strings.HasPrefix(src(es.X), "guard.") {
								lk = true
							}
						}
						if lk && !locked {
							for _, st := range s.List {
								walk(st, inGo, true)
							}
							return false
						}
					case *ast.AssignStmt:
						for _, l := range s.Lhs {
							if id, ok := l.(*ast.Ident); ok && locals[id.Name] && s.Tok != token.DEFINE {
								accesses[id.Name] = append(accesses[id.Name], acc{inGo, true, locked})
							}
						}
						for _, r := range s.Rhs {
							ast.Inspect(r, func(k ast.Node) bool {
								if id, ok := k.(*ast.Ident); ok && locals[id.Name] {
									accesses[id.Name] = append(accesses[id.Name], acc{inGo, false, locked})
								}
								return true
							})
						}
						return false
					case *ast.Ident:
						if locals[s.Name] {
							accesses[s.Name] = append(accesses[s.Name], acc{inGo, false, locked})
						}
					}
					return true
				})
			}
			walk(fn.Body, 0, false)
			names := []string{}
			for k := range accesses {
				names = append(names, k)
			}
			sort.Strings(names)
			for _, v := range names {
				as := accesses[v]
				gor := map[int]bool{}
				written := false
				allLocked := true
				for _, a := range as {
					gor[a.inGo] = true
					if a.write && a.inGo != 0 {
						written = true
					}
					if !a.lock && (a.inGo != 0 || true) {
						allLocked = allLocked && a.lock
					}
				}
				if len(gor) > 1 && written {
					shared = append(shared, fmt.Sprintf("(%s, %v)", leanStr(v), allLocked))
				}
			}
		}
		fmt.Fprintf(&b, "/-- locals of %s written by a goroutine it starts and accessed by another one: (name, every access inside a mutex section) -/\ndef %sShared : List (String × Bool) := [%s]\n\n", name, strings.ToLower(name[:1])+name[1:], strings.Join(shared, ", "))
	}
	// --- receive buffers: the size of the buffer each method hands to ReadFromUDP / Read. A buffer of
	// exactly 64 bytes would make an over-long datagram look like a 64-byte one (the kernel truncates)
	sizes := []string{}
	for _, name := range []string{"Broadcast", "BroadcastTo", "SendUDP", "SendTCP", "Listen"} {
		fn := findFunc(f, name, "ut0311")
		size := 0
		if fn != nil {
			made := map[string]int{}
			bad := false
			ast.Inspect(fn.Body, func(n ast.Node) bool {
				switch s := n.(type) {
				case *ast.AssignStmt:
					if len(s.Lhs) == 1 && len(s.Rhs) == 1 {
						if call, ok := s.Rhs[0].(*ast.CallExpr); ok && src(call.Fun) == "make" && len(call.Args) >= 2 && src(call.Args[0]) == "[]byte" {
							if v, ok := intLit(call.Args[1]); ok {
								made[src(s.Lhs[0])] = int(v)
							} else {
								made[src(s.Lhs[0])] = 0
							}
						}
					}
				case *ast.CallExpr:
					fun := src(s.Fun)
					if strings.HasSuffix(fun, ".ReadFromUDP") || fun == "connection.Read" || strings.HasSuffix(fun, ".ReadFrom") {
						if len(s.Args) == 1 {
							if v, ok := made[src(s.Args[0])]; ok {
								if size == 0 || v < size {
									size = v
								}
							} else {
								bad = true // reading into a slice expression or something not allocated here
							}
						}
					}
				}
				return true
			})
			if bad {
				size = 0
			}
		}
		sizes = append(sizes, fmt.Sprintf("(%s, %d)", leanStr(name), size))
	}
	// --- the local address of the socket: how `bind` is derived from the configuration, under which condition
	// it is replaced, and that the socket is opened on it
	binds := []string{}
	for _, name := range []string{"Broadcast", "BroadcastTo", "SendUDP", "SendTCP"} {
		fn := findFunc(f, name, "ut0311")
		from, cond, local := "?", "?", "?"
		if fn != nil {
			ast.Inspect(fn.Body, func(n ast.Node) bool {
				switch s := n.(type) {
				case *ast.AssignStmt:
					if len(s.Lhs) == 1 && src(s.Lhs[0]) == "bind" && s.Tok == token.DEFINE {
						from = src(s.Rhs[0])
					}
				case *ast.IfStmt:
					for _, st := range s.Body.List {
						if as, ok := st.(*ast.AssignStmt); ok && len(as.Lhs) == 1 && src(as.Lhs[0]) == "bind" {
							cond = src(s.Cond)
						}
					}
				case *ast.CallExpr:
					if src(s.Fun) == "net.ListenUDP" && len(s.Args) == 2 {
						local = src(s.Args[1])
					}
				case *ast.KeyValueExpr:
					if src(s.Key) == "LocalAddr" {
						local = src(s.Value)
					}
				}
				return true
			})
		}
		binds = append(binds, fmt.Sprintf("(%s, [%s, %s, %s])", leanStr(name), leanStr(from), leanStr(cond), leanStr(local)))
	}
	// --- every syntactic use of the request parameter in the four request methods: the request that goes on the wire
	// is the slice the caller marshalled iff the method only hands it to the write (and the debug dump), takes its
	// length and reads single bytes. A slice expression that is not itself a call argument is an alias, an indexed
	// assignment a write.
	uses := []string{}
	for _, name := range []string{"Broadcast", "BroadcastTo", "SendUDP", "SendTCP"} {
		fn := findFunc(f, name, "ut0311")
		seen := map[string]bool{}
		if fn != nil && fn.Type.Params != nil {
			param := ""
			for _, fld := range fn.Type.Params.List {
				if src(fld.Type) == "[]byte" && len(fld.Names) == 1 {
					param = fld.Names[0].Name
				}
			}
			stack := []ast.Node{}
			ast.Inspect(fn.Body, func(n ast.Node) bool {
				if n == nil {
					stack = stack[:len(stack)-1]
					return true
				}
				if id, ok := n.(*ast.Ident); ok && id.Name == param && param != "" {
					use := "other"
					var parent, grand ast.Node
					if len(stack) > 0 {
						parent = stack[len(stack)-1]
					}
					if len(stack) > 1 {
						grand = stack[len(stack)-2]
					}
					isLHS := func(e ast.Node, holder ast.Node) bool {
						switch h := holder.(type) {
						case *ast.AssignStmt:
							for _, l := range h.Lhs {
								if l == e {
									return true
								}
							}
						case *ast.IncDecStmt:
							return h.X == e
						case *ast.UnaryExpr:
							return h.Op == token.AND
						}
						return false
					}
					switch p := parent.(type) {
					case *ast.CallExpr:
						if p.Fun != n {
							use = "arg:" + src(p.Fun)
						}
					case *ast.IndexExpr:
						if p.X == n {
							if isLHS(p, grand) {
								use = "index-write"
							} else {
								use = "index-read"
							}
						}
					case *ast.SliceExpr:
						if c, ok := grand.(*ast.CallExpr); ok && c.Fun != parent {
							use = "arg-slice:" + src(c.Fun)
						} else {
							use = "alias:" + src(p)
						}
					case *ast.AssignStmt:
						use = "assign"
					case *ast.RangeStmt:
						if p.X == n {
							use = "range-read"
						}
					default:
						use = fmt.Sprintf("other:%T", parent)
					}
					seen[use] = true
				}
				stack = append(stack, n)
				return true
			})
			if param == "" {
				seen["no-request-parameter"] = true
			}
		} else {
			seen["method-not-found"] = true
		}
		us := []string{}
		for k := range seen {
			us = append(us, leanStr(k))
		}
		sort.Strings(us)
		uses = append(uses, fmt.Sprintf("(%s, [%s])", leanStr(name), strings.Join(us, ", ")))
	}
	// --- codec.Dump gets the request before it is written on two of the four paths: everything it calls and every
	// indexed / sliced assignment in its body
	dump := []string{}
	{
		cf := parseFile(filepath.Join(repo, "encoding/UTO311-L0x/UT0311-L0x.go"))
		seen := map[string]bool{}
		if fn := findFunc(cf, "Dump", ""); fn != nil {
			ast.Inspect(fn.Body, func(n ast.Node) bool {
				switch x := n.(type) {
				case *ast.CallExpr:
					seen["call:"+src(x.Fun)] = true
				case *ast.AssignStmt:
					for _, l := range x.Lhs {
						switch l.(type) {
						case *ast.IndexExpr, *ast.SliceExpr, *ast.StarExpr:
							seen["write:"+src(l)] = true
						}
					}
				case *ast.IncDecStmt:
					if _, ok := x.X.(*ast.IndexExpr); ok {
						seen["write:"+src(x.X)] = true
					}
				case *ast.GoStmt:
					seen["go"] = true
				}
				return true
			})
		} else {
			seen["function-not-found"] = true
		}
		for k := range seen {
			dump = append(dump, leanStr(k))
		}
		sort.Strings(dump)
	}
	fmt.Fprintf(&b, "/-- codec.Dump: every function it calls, every assignment through an index, slice or pointer -/\ndef dumpFacts : List String := [%s]\n\n", strings.Join(dump, ", "))
	fmt.Fprintf(&b, "/-- per request method: every kind of syntactic use of its request parameter -/\ndef requestUses : List (String × List String) := [%s]\n\n", strings.Join(uses, ",\n  "))
	// --- SendTCP: the time spent connecting counts against the one timeout iff the deadline handed to the dialer and the
	// deadline set on the connection are the same, once-computed value
	{
		single := false
		if fn := findFunc(f, "SendTCP", "ut0311"); fn != nil {
			assigns := 0
			dial, sock := "", ""
			ast.Inspect(fn.Body, func(n ast.Node) bool {
				switch x := n.(type) {
				case *ast.AssignStmt:
					for i, l := range x.Lhs {
						if src(l) == "deadline" {
							assigns++
							if i < len(x.Rhs) && src(x.Rhs[i]) != "time.Now().Add(u.timeout)" {
								assigns += 10
							}
						}
					}
				case *ast.KeyValueExpr:
					if src(x.Key) == "Deadline" {
						dial = src(x.Value)
					}
				case *ast.CallExpr:
					if strings.HasSuffix(src(x.Fun), ".SetDeadline") && len(x.Args) == 1 {
						if sock != "" {
							sock = "more-than-one"
						} else {
							sock = src(x.Args[0])
						}
					}
				}
				return true
			})
			single = assigns == 1 && dial == "deadline" && sock == "deadline"
		}
		fmt.Fprintf(&b, "/-- SendTCP: one `deadline := time.Now().Add(u.timeout)`, handed to the dialer and set on the connection -/\ndef tcpSingleDeadline : Bool := %v\n\n", single)
	}
	fmt.Fprintf(&b, "/-- per request method: what `bind` is initialised from, the condition under which it is replaced by the wildcard address, what the socket is opened on -/\ndef bindFacts : List (String × List String) := [%s]\n\n", strings.Join(binds, ",\n  "))
	fmt.Fprintf(&b, "/-- size of the receive buffer each method reads a datagram into (0 = not recognised) -/\ndef bufSizes : List (String × Nat) := [%s]\n\n", strings.Join(sizes, ", "))
	b.WriteString("end Uhppote.Gen.Driver\n")
	writeIfChanged(filepath.Join(out, "Driver.lean"), b.String())
}
