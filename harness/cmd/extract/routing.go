package main

import (
	"fmt"
	"go/ast"
	"path/filepath"
	"strings"
)

// uhppote/uhppote.go → Gen/Routing.lean: the routing closure of sendto as an if-chain, the guards
// of sendto, and what `resolve` builds when no broadcast address is configured (T4).

func genRouting(repo, out string) {
	path := filepath.Join(repo, "uhppote/uhppote.go")
	f := parseFile(path)
	var b strings.Builder
	b.WriteString("-- REGENERATED from uhppote/uhppote.go by harness/cmd/extract; do not edit\n")
	b.WriteString("namespace Uhppote.Gen.Routing\n\n")

	// --- routing closure: f := func() ([]byte, error) { if …; !ok {…} else if … }
	chain := []string{}
	sendto := findFunc(f, "sendto", "")
	sendtoConds := []string{}
	if sendto != nil {
		ast.Inspect(sendto.Body, func(n ast.Node) bool {
			as, ok := n.(*ast.AssignStmt)
			if !ok || len(as.Lhs) != 1 || src(as.Lhs[0]) != "f" {
				return true
			}
			fl, ok := as.Rhs[0].(*ast.FuncLit)
			if !ok || len(fl.Body.List) != 1 {
				chain = append(chain, fmt.Sprintf("(%s, %s)", leanStr("?"), leanStr(unsupported(path, as))))
				return false
			}
			var walk func(s ast.Stmt)
			walk = func(s ast.Stmt) {
				switch v := s.(type) {
				case *ast.IfStmt:
					cond := src(v.Cond)
					if v.Init != nil {
						cond = src(v.Init) + "; " + cond
					}
					chain = append(chain, fmt.Sprintf("(%s, %s)", leanStr(cond), leanStr(blockCall(v.Body))))
					if v.Else != nil {
						walk(v.Else)
					}
				case *ast.BlockStmt:
					chain = append(chain, fmt.Sprintf("(%s, %s)", leanStr(""), leanStr(blockCall(v))))
				}
			}
			walk(fl.Body.List[0])
			return false
		})
		// guards and checks of sendto in order (conditions of its top-level if statements)
		var conds func(s ast.Stmt)
		conds = func(s ast.Stmt) {
			if is, ok := s.(*ast.IfStmt); ok {
				c := src(is.Cond)
				if is.Init != nil {
					c = src(is.Init) + "; " + c
				}
				sendtoConds = append(sendtoConds, leanStr(c))
				for _, st := range is.Body.List {
					conds(st)
				}
				if is.Else != nil {
					conds(is.Else)
				}
			}
			if bs, ok := s.(*ast.BlockStmt); ok {
				for _, st := range bs.List {
					conds(st)
				}
			}
		}
		for _, s := range sendto.Body.List {
			conds(s)
		}
	}
	fmt.Fprintf(&b, "/-- the closure `f` in sendto: (condition, transport helper called), in order; \"\" = else -/\ndef routeChain : List (String × String) := [\n  %s]\n\n", strings.Join(chain, ",\n  "))
	fmt.Fprintf(&b, "/-- conditions of the if statements of sendto, in source order -/\ndef sendtoChecks : List String := [\n  %s]\n\n", strings.Join(sendtoConds, ",\n  "))

	// --- resolve: the address used when no broadcast address is configured
	def := "unsupported_resolve"
	port := "unsupported_resolve_port"
	if fn := findFunc(f, "resolve", ""); fn != nil {
		ipLen := ""
		ast.Inspect(fn.Body, func(n ast.Node) bool {
			switch v := n.(type) {
			case *ast.KeyValueExpr:
				if src(v.Key) == "Port" {
					if p, ok := intLit(v.Value); ok {
						port = fmt.Sprint(p)
					}
				}
				if src(v.Key) == "IP" {
					ipLen = src(v.Value)
				}
			case *ast.CallExpr:
				if src(v.Fun) == "copy" && len(v.Args) == 2 && src(v.Args[0]) == "addr.IP" {
					// copy(dst, src) copies min(len(dst), len(src)) bytes from the START of src
					switch src(v.Args[1]) {
					case "net.IPv4bcast":
						// net.IPv4bcast is the 16-byte form 00..00 ff ff ff ff ff ff
						if ipLen == "make(net.IP, net.IPv4len)" {
							def = "0.0.0.0"
						} else if ipLen == "make(net.IP, net.IPv6len)" {
							def = "255.255.255.255"
						}
					case "net.IPv4bcast.To4()":
						if ipLen == "make(net.IP, net.IPv4len)" {
							def = "255.255.255.255"
						}
					}
				}
			}
			return true
		})
		if def == "unsupported_resolve" {
			if ipLen == "net.IPv4bcast" || ipLen == "net.IPv4bcast.To4()" || ipLen == "net.IPv4(255, 255, 255, 255)" {
				def = "255.255.255.255"
			}
		}
	}
	if !strings.HasPrefix(def, "unsupported") {
		def = leanStr(def)
	}
	fmt.Fprintf(&b, "/-- IP and port `resolve` uses when no broadcast address is configured -/\ndef defaultBroadcastIP : String := %s\ndef defaultBroadcastPort : Nat := %s\n\n", def, port)
	b.WriteString("end Uhppote.Gen.Routing\n")
	writeIfChanged(filepath.Join(out, "Routing.lean"), b.String())
}

// blockCall: the helper a branch of the routing closure returns, e.g. "udpBroadcastTo(serialNumber, m)"
func blockCall(bs *ast.BlockStmt) string {
	if len(bs.List) == 1 {
		if r, ok := bs.List[0].(*ast.ReturnStmt); ok && len(r.Results) == 1 {
			return strings.TrimPrefix(src(r.Results[0]), "u.")
		}
	}
	return "?" + src(bs)
}
